import Iauthd.Proto.RefInv
import Iauthd.Proto.RenderStep
import Iauthd.Proto.Deliver
/-
  `RefOK` over whole histories: every operation and every reload keeps it.
-/
set_option linter.unusedSimpArgs false
set_option linter.unusedVariables false
namespace Iauthd.Proto
open Iauthd

theorem RefOK.of_cnt_le {svcs : List (Option Svc)} {a c : List Req} (h : RefOK svcs a) (e : ∀ i, cnt c i ≤ cnt a i) :
    RefOK svcs c := by
  intro i
  have := h i
  have := e i
  cases hg : getSvc svcs i <;> simp only [hg] at * <;> omega

/-- with unique ids, the table is the request with a given id plus the rest -/
theorem cnt_split : ∀ (reqs : List Req), (ids reqs).Pairwise (· < ·) → ∀ (r : Req), r ∈ reqs → ∀ i,
    cnt reqs i = cnt [r] i + cnt (removeReq r.client reqs) i
  | [], _, r, hr, _ => by cases hr
  | q :: qs, hs, r, hr, i => by
    have hs' : (ids qs).Pairwise (· < ·) := by
      unfold ids at hs ⊢; simp only [List.map_cons, List.pairwise_cons] at hs; exact hs.2
    have hlt : ∀ x ∈ qs, q.client < x.client := by
      intro x hx
      unfold ids at hs; simp only [List.map_cons, List.pairwise_cons] at hs
      exact hs.1 x.client (List.mem_map.mpr ⟨x, hx, rfl⟩)
    unfold removeReq
    rcases List.mem_cons.mp hr with rfl | hr'
    · -- r is the head; nothing in the tail has its id
      have hnone : qs.filter (fun x => x.client != r.client) = qs := by
        rw [List.filter_eq_self]
        intro x hx
        have := hlt x hx
        simp only [bne_iff_ne, ne_eq]
        omega
      simp only [List.filter_cons, bne_self_eq_false, Bool.false_eq_true, if_false, hnone]
      rw [cnt_cons, cnt_cons, cnt_nil]
      omega
    · have hne : q.client ≠ r.client := by have := hlt r hr'; omega
      have hb : (q.client != r.client) = true := by simpa using hne
      have ih := cnt_split qs hs' r hr' i
      unfold removeReq at ih
      have e1 : cnt (q :: qs) i = (if (refOf q).contains i then 1 else 0) + cnt qs i := cnt_cons q qs i
      have e2 : cnt (q :: qs.filter (fun x => x.client != r.client)) i
          = (if (refOf q).contains i then 1 else 0) + cnt (qs.filter (fun x => x.client != r.client)) i := cnt_cons q _ i
      rw [List.filter_cons, if_pos hb, e1, e2, ih]
      omega

theorem removeReq_putReq (r' : Req) (reqs : List Req) : removeReq r'.client (putReq r' reqs) = removeReq r'.client reqs := by
  unfold removeReq putReq
  induction reqs with
  | nil => rfl
  | cons q qs ih =>
    rw [List.map_cons, List.filter_cons, List.filter_cons, ih]
    by_cases hq : (q.client == r'.client) = true
    · have e : q.client = r'.client := by simpa using hq
      have b1 : (q.client != r'.client) = false := by simp [e]
      rw [if_pos hq, b1]
      simp
    · have hb : (q.client != r'.client) = true := by simpa using hq
      rw [if_neg hq, hb]

theorem mem_putReq_self (r' q : Req) (reqs : List Req) (h : findReq reqs r'.client = some q) : r' ∈ putReq r' reqs := by
  have := find_putReq_self' reqs r' q h
  exact (findReq_mem this).1
where
  find_putReq_self' (reqs : List Req) (r q : Req) (h : findReq reqs r.client = some q) :
      findReq (putReq r reqs) r.client = some r := by
    unfold findReq putReq at *
    induction reqs with
    | nil => simp at h
    | cons x xs ih =>
      simp only [List.map_cons, List.find?_cons] at h ⊢
      by_cases hx : (x.client == r.client) = true
      · simp [hx]
      · simp only [hx, if_false, Bool.false_eq_true] at h ⊢
        exact ih h

/-- a handler run keeps the invariant of the whole table -/
theorem withReq_ref (s : State) (hi : Inv s) (h : RefOK s.svcs s.reqs) (r : Req) (hf : findReq s.reqs r.client = some r)
    (f : Ctx → M Ctx)
    (hF : ∀ c' rs, RefOK s.svcs (r :: rs) → f (ctx0 s r) = .ok c' → RefOK c'.svcs (c'.req :: rs) ∧ c'.req.client = r.client)
    (s' : State) (out : List Bytes) (he : withReq s r f = .ok (s', out)) : RefOK s'.svcs s'.reqs := by
  rw [withReq_eq] at he
  cases hfc : f (ctx0 s r) with
  | error e => rw [hfc] at he; simp [Except.map] at he
  | ok c' =>
    rw [hfc] at he
    simp only [Except.map, Except.ok.injEq, Prod.mk.injEq] at he
    obtain ⟨rfl, _⟩ := he
    have hr := (findReq_mem hf).1
    have h0 : RefOK s.svcs (r :: removeReq r.client s.reqs) := by
      intro i
      have := h i
      rw [cnt_split s.reqs hi.sorted r hr i] at this
      rw [cnt_cons]
      rw [cnt_cons, cnt_nil] at this
      simpa using this
    obtain ⟨h1, hck⟩ := hF c' _ h0 hfc
    dsimp only
    split
    · exact h1.tail
    · -- written back in place
      have hsorted : (ids (putReq c'.req s.reqs)).Pairwise (· < ·) := by rw [ids_putReq]; exact hi.sorted
      have hmem : c'.req ∈ putReq c'.req s.reqs := mem_putReq_self c'.req r s.reqs (by rw [hck]; exact hf)
      intro i
      have := h1 i
      rw [cnt_split _ hsorted c'.req hmem i, removeReq_putReq, hck]
      rw [cnt_cons] at this
      rw [cnt_cons, cnt_nil]
      simpa using this

theorem newClient_ref (s : State) (hi : Inv s) (h : RefOK s.svcs s.reqs) (id : Int) (a p : Bytes)
    (s' : State) (out : List Bytes) (he : newClient s id a p = .ok (s', out)) : RefOK s'.svcs s'.reqs := by
  unfold newClient at he
  cases hp : ptonC a false with
  | error e => simp [hp, bind, Except.bind] at he
  | ok res =>
    simp only [hp, bind, Except.bind, pure, Except.pure, Except.ok.injEq, Prod.mk.injEq] at he
    obtain ⟨rfl, _⟩ := he
    dsimp only
    -- the newcomer waits for nothing; whoever had the id is gone
    have key : ∀ rn : Req, refOf rn = [] → RefOK s.svcs (insertReq rn s.reqs) := by
      intro rn hrn
      apply h.of_cnt_le
      intro i
      have hs2 := (ids_insertReq rn s.reqs hi.sorted).1
      have hm : rn ∈ insertReq rn s.reqs := (findReq_mem (find_insertReq_self' s.reqs rn)).1
      rw [cnt_split _ hs2 rn hm i, cnt_cons, cnt_nil, hrn]
      simp only [List.contains_nil, Bool.false_eq_true, if_false, Nat.zero_add]
      have : removeReq rn.client (insertReq rn s.reqs) = removeReq rn.client s.reqs := removeReq_insertReq rn s.reqs
      rw [this]
      exact cnt_filter_le _ _ _
    split
    · exact key _ rfl
    · exact key _ rfl
where
  find_insertReq_self' (reqs : List Req) (r : Req) : findReq (insertReq r reqs) r.client = some r := by
    unfold findReq
    induction reqs with
    | nil => simp [insertReq]
    | cons q qs ih =>
      unfold insertReq
      split
      · simp
      · split
        · simp
        · rename_i h1 h2
          simp only [List.find?_cons]
          have : (q.client == r.client) = false := by
            cases hq : (q.client == r.client) with
            | false => rfl
            | true =>
              exfalso; apply h2
              simp only [beq_iff_eq] at hq ⊢
              exact hq.symm
          simp only [this, Bool.false_eq_true, if_false]
          exact ih
  removeReq_insertReq (r : Req) (reqs : List Req) : removeReq r.client (insertReq r reqs) = removeReq r.client reqs := by
    unfold removeReq
    induction reqs with
    | nil => simp [insertReq]
    | cons q qs ih =>
      unfold insertReq
      split
      · simp
      · split
        · rename_i h1 h2
          have e : r.client = q.client := by simpa using h2
          simp [e]
        · rename_i h1 h2
          simp only [List.filter_cons, ih]

/-! ### a reload -/

/-- the slot a service ends up in: its own, the first empty one, or a new one at the end -/
def pickSlot (svcs : List (Option Svc)) (stats : Stats) (name : Bytes) : List (Option Svc) × Stats × Nat :=
  match findSvcByName svcs name with
  | some i => (svcs, stats, i)
  | none =>
    match List.findIdx? (fun (o : Option Svc) => o.isNone) svcs with
    | some i => (svcs.set i (some ({ name := name } : Svc)), { stats with srvAllocs := stats.srvAllocs + 1 }, i)
    | none => (svcs ++ [some ({ name := name } : Svc)], { stats with srvAllocs := stats.srvAllocs + 1 }, svcs.length)

def typeSlot (sv2 : List (Option Svc)) (st2 : Stats) (i : Nat) (ty : Bytes) : List (Option Svc) × Stats :=
  match sv2.getD i none with
  | none => (sv2, st2)
  | some srv =>
    match typeOfText ty with
    | some t => (sv2.set i (some { srv with ty := t, configured := true }), st2)
    | none => (sv2.set i (some { srv with configured := false }), st2)

theorem configService_eq (svcs : List (Option Svc)) (stats : Stats) (name ty : Bytes) :
    configService svcs stats name ty =
      typeSlot (pickSlot svcs stats name).1 (pickSlot svcs stats name).2.1 (pickSlot svcs stats name).2.2 ty := by
  unfold configService pickSlot typeSlot
  cases findSvcByName svcs name with
  | some i => rfl
  | none =>
    cases List.findIdx? (fun (o : Option Svc) => o.isNone) svcs with
    | some i => rfl
    | none => rfl

theorem configService_ref (svcs : List (Option Svc)) (stats : Stats) (name ty : Bytes) (reqs : List Req)
    (h : RefOK svcs reqs) : RefOK (configService svcs stats name ty).1 reqs := by
  rw [configService_eq]
  -- the slot
  have slot : RefOK (pickSlot svcs stats name).1 reqs := by
    unfold pickSlot
    split
    · exact h
    · split
      · rename_i i hfi
        have hx := List.findIdx?_eq_some_iff_getElem.mp hfi
        obtain ⟨hlt, hp, _⟩ := hx
        have hnone : getSvc svcs i = none := by
          unfold getSvc
          rw [List.getD_eq_getElem?_getD, List.getElem?_eq_getElem hlt]
          simp only [Option.getD_some]
          cases hx : svcs[i] with
          | none => rfl
          | some v => rw [hx] at hp; simp at hp
        intro j
        by_cases hj : j = i
        · subst hj
          have := h j
          rw [hnone] at this
          show match getSvc (setSvc svcs j (some { name := name })) j with | some srv => _ | none => _
          rw [getSvc_set_self _ _ _ hlt]
          simp only at this ⊢
          omega
        · show match getSvc (setSvc svcs i (some { name := name })) j with | some srv => _ | none => _
          rw [getSvc_set_other _ _ _ _ hj]; exact h j
      · intro j
        have := h j
        unfold getSvc at this ⊢
        rw [List.getD_eq_getElem?_getD] at this ⊢
        by_cases hj : j < svcs.length
        · rw [List.getElem?_append_left hj]; exact this
        · rw [List.getElem?_eq_none (by omega)] at this
          simp only [Option.getD_none] at this
          by_cases hj2 : j = svcs.length
          · subst hj2
            simp only [List.getElem?_append_right (Nat.le_refl _), Nat.sub_self, List.getElem?_cons_zero, Option.getD_some]
            omega
          · rw [List.getElem?_eq_none (by simp; omega)]
            simpa using this
  -- typing / disabling it
  generalize (pickSlot svcs stats name).1 = sv2 at slot ⊢
  generalize (pickSlot svcs stats name).2.1 = st2
  generalize (pickSlot svcs stats name).2.2 = i
  unfold typeSlot
  cases hg : sv2.getD i none with
  | none => exact slot
  | some srv =>
    have hs : getSvc sv2 i = some srv := hg
    dsimp only
    split
    · exact slot.set_same hs _ rfl
    · exact slot.set_same hs _ rfl

theorem unrefAll_ref (svcs : List (Option Svc)) (stats : Stats) (reqs : List Req) (h : RefOK svcs reqs) :
    RefOK (unrefAll svcs stats).1 reqs := by
  unfold unrefAll
  generalize List.range svcs.length = is
  suffices hgen : ∀ (acc : List (Option Svc) × Stats), RefOK acc.1 reqs →
      RefOK (is.foldl (fun (acc : List (Option Svc) × Stats) i =>
        match acc.1.getD i none with
        | some srv => if srv.refs > 0 || srv.configured then acc else (acc.1.set i none, { acc.2 with srvFrees := acc.2.srvFrees + 1 })
        | none => acc) acc).1 reqs from hgen (svcs, stats) h
  induction is with
  | nil => intro acc ha; exact ha
  | cons i is ih =>
    intro acc ha
    simp only [List.foldl_cons]
    apply ih
    cases hg : acc.1.getD i none with
    | none => exact ha
    | some srv =>
      dsimp only
      split
      · exact ha
      · rename_i hcond
        have hs : getSvc acc.1 i = some srv := hg
        have h0 : srv.refs = 0 := by
          simp only [Bool.or_eq_true, decide_eq_true_eq, not_or] at hcond
          omega
        intro j
        by_cases hj : j = i
        · subst hj
          show match getSvc (setSvc acc.1 j none) j with | some srv => _ | none => _
          rw [getSvc_set_self _ _ _ (getSvc_some_lt hs)]
          have := ha j
          rw [hs] at this
          simp only at this ⊢
          omega
        · show match getSvc (setSvc acc.1 i none) j with | some srv => _ | none => _
          rw [getSvc_set_other _ _ _ _ hj]; exact ha j

theorem servicesChanged_ref (s : State) (sec : List CNode) (h : RefOK s.svcs s.reqs) :
    RefOK (servicesChanged s sec).svcs (servicesChanged s sec).reqs := by
  unfold servicesChanged
  dsimp only
  have h0 : RefOK (s.svcs.map fun o => o.map fun srv => { srv with configured := false }) s.reqs := by
    intro i
    have := h i
    unfold getSvc at this ⊢
    rw [List.getD_eq_getElem?_getD] at this ⊢
    rw [List.getElem?_map]
    cases hx : s.svcs[i]? with
    | none => rw [hx] at this; simpa using this
    | some o =>
      rw [hx] at this
      cases o with
      | none => simpa using this
      | some srv => simpa using this
  have hfold : ∀ (nodes : List CNode) (acc : List (Option Svc) × Stats), RefOK acc.1 s.reqs →
      RefOK (nodes.foldl (fun (acc : List (Option Svc) × Stats) n =>
        if n.isString then configService acc.1 acc.2 n.name (cstr n.value) else acc) acc).1 s.reqs := by
    intro nodes
    induction nodes with
    | nil => intro acc ha; exact ha
    | cons n ns ih =>
      intro acc ha
      simp only [List.foldl_cons]
      apply ih
      split
      · exact configService_ref _ _ _ _ _ ha
      · exact ha
  exact unrefAll_ref _ _ _ (hfold sec _ h0)

theorem applyConfig_ref (s : State) (live new : Config) (first : Bool) (h : RefOK s.svcs s.reqs) :
    RefOK (applyConfig s live new first).1.svcs (applyConfig s live new first).1.reqs := by
  unfold applyConfig
  dsimp only
  have h1 : RefOK ({ s with timeout := new.timeout } : State).svcs ({ s with timeout := new.timeout } : State).reqs := h
  have h2 : ∀ (s1 : State), RefOK s1.svcs s1.reqs →
      RefOK (if s1.hasClass && (first || mergeSection live.cls new.cls != live.cls)
        then classChanged s1 (mergeSection live.cls new.cls) else s1).svcs
        (if s1.hasClass && (first || mergeSection live.cls new.cls != live.cls)
        then classChanged s1 (mergeSection live.cls new.cls) else s1).reqs := by
    intro s1 h
    split
    · exact h
    · exact h
  apply h2
  split
  · exact deliverXq_inv' (P := fun s => RefOK s.svcs s.reqs) (fun s sec h => servicesChanged_ref s sec h) _ _ _ _ h1
  · exact h1

/-! ### every operation -/

def Refd (s : State) : Prop := RefOK s.svcs s.reqs

def StepRef (m : M (State × List Bytes)) : Prop := ∀ s' out, m = .ok (s', out) → Refd s'

theorem StepRef.pure {s : State} (h : Refd s) (out : List Bytes) : StepRef (pure (s, out)) := by
  intro s' o he
  simp only [Pure.pure, Except.pure, Except.ok.injEq, Prod.mk.injEq] at he
  obtain ⟨rfl, _⟩ := he; exact h

theorem onReq_refd (s : State) (hi : Inv s) (h : Refd s) (req? : Option Req)
    (hreq : ∀ r, req? = some r → findReq s.reqs r.client = some r) (c : String) (ev : Ev) : StepRef (onReq s req? c ev) := by
  unfold onReq
  cases req? with
  | none => unfold garbage; exact StepRef.pure h _
  | some r =>
    intro s' out he
    exact withReq_ref s hi h r (hreq r rfl) _
      (fun c' rs h0 hc => ⟨reqEvent_ref _ _ _ ev rs h0 hc, (reqEvent_spec _ (static_wf s hi.deps) _ _ ev hc).1⟩) s' out he

theorem dropReq_refd (s : State) (hi : Inv s) (h : Refd s) (req? : Option Req)
    (hreq : ∀ r, req? = some r → findReq s.reqs r.client = some r) (c : String) : StepRef (dropReq s req? c) := by
  unfold dropReq
  cases req? with
  | none => unfold garbage; exact StepRef.pure h _
  | some r =>
    intro s' out he
    refine withReq_ref s hi h r (hreq r rfl) _ (fun c' rs h0 hc => ?_) s' out he
    simp only [pure, Except.pure, Except.ok.injEq] at hc
    subst hc
    exact ⟨h0, rfl⟩

theorem onReply_refd (s : State) (hi : Inv s) (h : Refd s) (l : Line) (isX : Bool) : StepRef (onReply s l isX) := by
  unfold onReply
  split
  · exact StepRef.pure h _
  · split
    · exact StepRef.pure h _
    · rename_i r hv
      intro s' out he
      have hf : findReq s.reqs r.client = some r := by
        unfold validateRequest at hv
        split at hv
        · cases hv
        · split at hv
          · rename_i r' hf'
            split at hv
            · cases hv
              have := findReq_mem hf'
              rw [this.2]; exact hf'
            · cases hv
          · cases hv
      exact withReq_ref s hi h r hf _
        (fun c' rs h0 hc => ⟨xqReply_ref _ _ _ _ _ rs h0 hc, (xqReply_spec _ _ _ _ _ hc).1⟩) s' out he

theorem dispatch_refd (s : State) (hi : Inv s) (h : Refd s) (l : Line) (cmd : UInt8) (req? : Option Req)
    (hreq : ∀ r, req? = some r → findReq s.reqs r.client = some r) : StepRef (dispatch s l cmd req?) := by
  apply dispatch_cases s l cmd req? StepRef
  · exact StepRef.pure h _
  · intro s' out he; exact newClient_ref s hi h _ _ _ s' out he
  · exact dropReq_refd s hi h req? hreq "D"
  · exact onReq_refd s hi h req? hreq "N" _
  · exact onReq_refd s hi h req? hreq "d" _
  · exact onReq_refd s hi h req? hreq "P" _
  · intro _; unfold garbage; exact StepRef.pure h _
  · exact StepRef.pure h _
  · intro r hq _
    intro s' out he
    exact withReq_ref s hi h r (hreq r hq) _
      (fun c' rs h0 hc => ⟨reqEvent_ref _ _ _ _ rs h0 hc, (reqEvent_spec _ (static_wf s hi.deps) _ _ _ hc).1⟩) s' out he
  · exact onReq_refd s hi h req? hreq "u" _
  · exact onReq_refd s hi h req? hreq "n" _
  · exact onReq_refd s hi h req? hreq "H" _
  · exact dropReq_refd s hi h req? hreq "T"
  · intro isX; exact onReply_refd s hi h l isX
  · intro s' out he
    obtain ⟨o, ho⟩ := onInfo_spec s l
    rw [ho] at he
    simp only [Except.ok.injEq, Prod.mk.injEq] at he
    obtain ⟨rfl, _⟩ := he; exact h

theorem stepLine_refd (s : State) (hi : Inv s) (h : Refd s) (raw : Bytes) : StepRef (stepLine s raw) := by
  unfold stepLine
  dsimp only
  split
  · exact StepRef.pure h _
  · split
    · split
      · exact StepRef.pure h _
      · exact dispatch_refd s hi h _ _ _ (fun r hr => by cases hr)
    · split
      · exact StepRef.pure h _
      · refine dispatch_refd s hi h _ _ _ (fun r hr => ?_)
        have := findReq_mem hr
        rw [this.2]; exact hr

theorem stepLines_refd : ∀ (lines : List Bytes) (s : State), Inv s → Refd s → StepRef (stepLines s lines)
  | [], s, _, h => by unfold stepLines; exact StepRef.pure h _
  | ln :: rest, s, hi, h => by
    unfold stepLines
    split
    · exact stepLines_refd rest s hi h
    · intro s' out he
      simp only [bind, Except.bind] at he
      split at he
      · cases he
      · rename_i v1 h1
        obtain ⟨s1, o1⟩ := v1
        dsimp only at he
        split at he
        · cases he
        · rename_i v2 h2
          obtain ⟨s2, o2⟩ := v2
          simp only [pure, Except.pure, Except.ok.injEq, Prod.mk.injEq] at he
          obtain ⟨rfl, _⟩ := he
          exact stepLines_refd rest s1 (stepLine_inv hi h1).1 (stepLine_refd s hi h (cstr ln) s1 o1 h1) s2 o2 h2

theorem stepOp_refd (s : State) (hi : Inv s) (h : Refd s) (op : Op) : StepRef (stepOp s op) := by
  intro s' out he
  cases op with
  | chunk bs =>
    simp only [stepOp, stepChunk] at he
    cases hr : stepLines { s with inbuf := [] } (splitLines (s.inbuf ++ bs)).1 with
    | error e => simp [hr, Except.map] at he
    | ok r =>
      obtain ⟨s1, o1⟩ := r
      simp only [hr, Except.map, Except.ok.injEq, Prod.mk.injEq] at he
      obtain ⟨rfl, _⟩ := he
      exact stepLines_refd _ _ (inv_inbuf hi []) (by exact h) s1 o1 hr
  | timeout id =>
    simp only [stepOp] at he
    cases hr : stepTimeout s id with
    | error e => simp [hr, Except.map] at he
    | ok r =>
      obtain ⟨s1, o1, f1⟩ := r
      simp only [hr, Except.map, Except.ok.injEq, Prod.mk.injEq] at he
      obtain ⟨rfl, _⟩ := he
      unfold stepTimeout at hr
      split at hr
      · rename_i rq hf
        split at hr
        · simp only [bind, Except.bind] at hr
          split at hr
          · cases hr
          · rename_i v hv
            obtain ⟨s2, o2⟩ := v
            simp only [pure, Except.pure, Except.ok.injEq, Prod.mk.injEq] at hr
            obtain ⟨rfl, _, _⟩ := hr
            have hrc := (findReq_mem hf).2
            exact withReq_ref s hi h rq (by rw [hrc]; exact hf) _
              (fun c' rs h0 hc => ⟨reqEvent_ref _ _ _ _ rs h0 hc, (reqEvent_spec _ (static_wf s hi.deps) _ _ _ hc).1⟩) _ _ hv
        · simp only [pure, Except.pure, Except.ok.injEq, Prod.mk.injEq] at hr
          obtain ⟨rfl, _⟩ := hr; exact h
      · simp only [pure, Except.pure, Except.ok.injEq, Prod.mk.injEq] at hr
        obtain ⟨rfl, _⟩ := hr; exact h

/-- **every history**: no request ever waits for an empty or recycled service slot -/
theorem runOps_refd : ∀ (ops : List Op) (s : State), Inv s → Refd s →
    ∀ s' outs, runOps s ops = .ok (s', outs) → Refd s'
  | [], s, _, h, s', outs, he => by
    simp only [runOps, pure, Except.pure, Except.ok.injEq, Prod.mk.injEq] at he
    obtain ⟨rfl, _⟩ := he; exact h
  | op :: ops, s, hi, h, s', outs, he => by
    simp only [runOps, bind, Except.bind] at he
    split at he
    · cases he
    · rename_i v1 h1
      obtain ⟨s1, o1⟩ := v1
      dsimp only at he
      split at he
      · cases he
      · rename_i v2 h2
        obtain ⟨s2, os⟩ := v2
        simp only [pure, Except.pure, Except.ok.injEq, Prod.mk.injEq] at he
        obtain ⟨rfl, _⟩ := he
        exact runOps_refd ops s1 (stepOp_inv hi h1).1 (stepOp_refd s hi h op s1 o1 h1) s2 os h2

/-- what the invariant means for one waiting client: the slot is there -/
theorem Refd.slot_alive {s : State} (h : Refd s) {r : Req} (hr : r ∈ s.reqs) {cli : XqCli} (hx : r.xq = some cli)
    {i : Nat} (hi : cli.ref.contains i = true) : ∃ srv, getSvc s.svcs i = some srv ∧ 0 < srv.refs := by
  have := h i
  have hc : 0 < cnt s.reqs i := by
    unfold cnt
    apply List.length_pos_of_mem (a := r)
    rw [List.mem_filter]
    exact ⟨hr, by simp only [refOf, hx]; exact hi⟩
  cases hg : getSvc s.svcs i with
  | none => rw [hg] at this; simp only at this; omega
  | some srv => rw [hg] at this; simp only at this; exact ⟨srv, rfl, by omega⟩

end Iauthd.Proto
