import Iauthd.Proto.RenderStep
import Iauthd.Proto.Deliver
/-
  C09 (model part): installing a configuration keeps the invariant, provided the names and values
  the file gives to services and rules can stand inside a protocol line (no blank, line feed or
  NUL; a service name is not empty and does not begin with ':').
-/
set_option linter.unusedSimpArgs false
set_option linter.unusedVariables false
namespace Iauthd.Proto
open Iauthd Iauthd.Proto.Hist

/-- a child of `iauth_xquery` / `iauth_class` as the file gives it -/
structure NodeOK (n : CNode) : Prop where
  nameW : Word n.name
  nameC : Clean n.name
  nameL : n.name.length ≤ 900
  kids : ∀ kv ∈ n.kids, NoSp (cstr kv.2) ∧ Clean (cstr kv.2)

def SecOK (sec : List CNode) : Prop := ∀ n ∈ sec, NodeOK n

structure ConfigOK (c : Config) : Prop where
  xq : SecOK c.xq
  cls : SecOK c.cls

theorem mem_insertCNode {n x : CNode} : ∀ {l : List CNode}, x ∈ insertCNode n l →
    x = n ∨ x ∈ l ∨ ∃ m ∈ l, x = { n with name := m.name }
  | [], h => by simp [insertCNode] at h; exact Or.inl h
  | m :: ms, h => by
    unfold insertCNode at h
    split at h
    · rcases List.mem_cons.mp h with rfl | h'
      · exact Or.inr (Or.inr ⟨m, List.mem_cons_self .., rfl⟩)
      · exact Or.inr (Or.inl (List.mem_cons_of_mem _ h'))
    · split at h
      · rcases List.mem_cons.mp h with rfl | h'
        · exact Or.inl rfl
        · exact Or.inr (Or.inl h')
      · rcases List.mem_cons.mp h with rfl | h'
        · exact Or.inr (Or.inl (List.mem_cons_self ..))
        · rcases mem_insertCNode h' with h1 | h1 | ⟨m', hm', rfl⟩
          · exact Or.inl h1
          · exact Or.inr (Or.inl (List.mem_cons_of_mem _ h1))
          · exact Or.inr (Or.inr ⟨m', List.mem_cons_of_mem _ hm', rfl⟩)

theorem insertCNode_ok {n : CNode} {l : List CNode} (hn : NodeOK n) (hl : SecOK l) : SecOK (insertCNode n l) := by
  intro x hx
  rcases mem_insertCNode hx with rfl | h1 | ⟨m, hm, rfl⟩
  · exact hn
  · exact hl x h1
  · exact ⟨(hl m hm).nameW, (hl m hm).nameC, (hl m hm).nameL, hn.kids⟩

theorem sortSection_ok {l : List CNode} (h : SecOK l) : SecOK (sortSection l) := by
  unfold sortSection
  suffices key : ∀ (l acc : List CNode), SecOK l → SecOK acc → SecOK (l.foldl (fun acc n => insertCNode n acc) acc) from
    key l [] h (by intro x hx; cases hx)
  intro l
  induction l with
  | nil => intro acc _ ha; exact ha
  | cons n ns ih =>
    intro acc hl ha
    exact ih _ (fun x hx => hl x (List.mem_cons_of_mem _ hx)) (insertCNode_ok (hl n (List.mem_cons_self ..)) ha)

theorem mergeSection_ok {live new : List CNode} (_hl : SecOK live) (hn : SecOK new) : SecOK (mergeSection live new) := by
  unfold mergeSection
  exact sortSection_ok hn

/-! ### services -/

theorem svcs_unconfigure {svcs : List (Option Svc)} (h : SvcsOK svcs) :
    SvcsOK (svcs.map fun o => o.map fun srv => { srv with configured := false }) := by
  intro srv hm
  obtain ⟨o, ho, he⟩ := List.mem_map.mp hm
  cases o with
  | none => simp at he
  | some s0 =>
    simp only [Option.map_some, Option.some.injEq] at he
    rw [← he]
    exact h s0 ho

theorem SvcsOK.setL {svcs : List (Option Svc)} (h : SvcsOK svcs) (i : Nat) (v : Option Svc)
    (hv : ∀ srv, v = some srv → SvcOK srv) : SvcsOK (svcs.set i v) := by
  intro srv hm
  rcases List.mem_or_eq_of_mem_set hm with h1 | h1
  · exact h srv h1
  · exact hv srv h1.symm

theorem getD_svc_mem {svcs : List (Option Svc)} {i : Nat} {srv : Svc} (h : svcs.getD i none = some srv) : some srv ∈ svcs := by
  rw [List.getD_eq_getElem?_getD] at h
  cases hi : svcs[i]? with
  | none => rw [hi] at h; simp at h
  | some o =>
    rw [hi] at h
    simp only [Option.getD_some] at h
    rw [← h]
    exact List.mem_of_getElem? hi

theorem configTail_ok {sv : List (Option Svc)} (h : SvcsOK sv) (stats : Stats) (i : Nat) (ty : Bytes) :
    SvcsOK (match sv.getD i none with
      | none => (sv, stats)
      | some srv =>
        match typeOfText ty with
        | some t => (sv.set i (some { srv with ty := t, configured := true }), stats)
        | none => (sv.set i (some { srv with configured := false }), stats)).1 := by
  split
  · exact h
  · rename_i srv hget
    have hs := h srv (getD_svc_mem hget)
    split
    · exact h.setL _ _ (by intro s hs'; simp only [Option.some.injEq] at hs'; subst hs'; exact hs)
    · exact h.setL _ _ (by intro s hs'; simp only [Option.some.injEq] at hs'; subst hs'; exact hs)

theorem configService_ok {svcs : List (Option Svc)} (h : SvcsOK svcs) (stats : Stats) (name ty : Bytes)
    (hn : SvcOK ({ name := name } : Svc)) : SvcsOK (configService svcs stats name ty).1 := by
  unfold configService
  cases hf : findSvcByName svcs name with
  | some i =>
    simp only [hf]
    exact configTail_ok h stats i ty
  | none =>
    simp only [hf]
    cases hi : List.findIdx? (fun (o : Option Svc) => o.isNone) svcs with
    | some i =>
      simp only [hi]
      exact configTail_ok (h.setL _ _ (by intro s hs; simp only [Option.some.injEq] at hs; subst hs; exact hn)) _ i ty
    | none =>
      simp only [hi]
      refine configTail_ok ?_ _ _ ty
      intro srv hm
      rcases List.mem_append.mp hm with h1 | h1
      · exact h srv h1
      · simp only [List.mem_singleton, Option.some.injEq] at h1; subst h1; exact hn

theorem unrefAll_ok {svcs : List (Option Svc)} (h : SvcsOK svcs) (stats : Stats) : SvcsOK (unrefAll svcs stats).1 := by
  unfold unrefAll
  suffices key : ∀ (is : List Nat) (acc : List (Option Svc) × Stats), SvcsOK acc.1 →
      SvcsOK (is.foldl (fun (acc : List (Option Svc) × Stats) i =>
        match acc.1.getD i none with
        | some srv =>
          if srv.refs > 0 || srv.configured then acc
          else (acc.1.set i none, { acc.2 with srvFrees := acc.2.srvFrees + 1 })
        | none => acc) acc).1 from key _ (svcs, stats) h
  intro is
  induction is with
  | nil => intro acc ha; exact ha
  | cons i is ih =>
    intro acc ha
    apply ih
    dsimp only
    split
    · split
      · exact ha
      · exact ha.setL _ _ (by intro s hs; cases hs)
    · exact ha

theorem servicesChanged_ok {s : State} (h : StateOK s) {sec : List CNode} (hsec : SecOK sec) :
    StateOK (servicesChanged s sec) := by
  unfold servicesChanged
  dsimp only
  have h1 := svcs_unconfigure h.svcs
  have hfold : ∀ (l : List CNode) (acc : List (Option Svc) × Stats), SecOK l → SvcsOK acc.1 →
      SvcsOK (l.foldl (fun (acc : List (Option Svc) × Stats) n =>
        if n.isString then configService acc.1 acc.2 n.name (cstr n.value) else acc) acc).1 := by
    intro l
    induction l with
    | nil => intro acc _ ha; exact ha
    | cons n ns ih =>
      intro acc hl ha
      apply ih _ (fun x hx => hl x (List.mem_cons_of_mem _ hx))
      have hn := hl n (List.mem_cons_self ..)
      dsimp only
      split
      · exact configService_ok ha _ _ _ ⟨hn.nameW, hn.nameC, hn.nameL⟩
      · exact ha
  have h2 := hfold sec (_, s.stats) hsec h1
  exact ⟨h.reqs, unrefAll_ok h2 _, h.rules, h.lim⟩

/-! ### rules -/

theorem kidValue_ok {n : CNode} (hn : NodeOK n) (key : String) :
    ∀ v, kidValue n key = some v → NoSp v ∧ Clean v := by
  intro v hv
  unfold kidValue at hv
  cases hf : n.kids.find? (fun kv => Bytes.strcasecmp kv.1 (b key) == 0) with
  | none => rw [hf] at hv; simp at hv
  | some kv =>
    rw [hf] at hv
    simp only [Option.map_some, Option.some.injEq] at hv
    rw [← hv]
    exact hn.kids kv (List.mem_of_find?_eq_some hf)

theorem compileRule_ok {n : CNode} (hn : NodeOK n) : RuleOK (compileRule n) := by
  unfold compileRule
  dsimp only
  have hc := kidValue_ok hn "class"
  refine ⟨?_, ?_, hn.nameC, fun c hcc => (hc c hcc).2⟩
  · cases hk : kidValue n "class" with
    | none => exact hn.nameW.nosp
    | some v => exact (hc v hk).1
  · cases hk : kidValue n "class" with
    | none => exact hn.nameC
    | some v => exact (hc v hk).2

theorem inheritAssigned_ok : ∀ (rules old : List Rule), RulesOK rules → RulesOK (inheritAssigned rules old)
  | [], _, _ => by intro r hr; simp [inheritAssigned] at hr
  | r :: rs, old, h => by
    have hr := h r (List.mem_cons_self ..)
    have hrs : RulesOK rs := fun x hx => h x (List.mem_cons_of_mem _ hx)
    unfold inheritAssigned
    dsimp only
    split
    · split
      · intro x hx
        rcases List.mem_cons.mp hx with rfl | h'
        · exact hr
        · exact inheritAssigned_ok rs _ hrs x h'
      · intro x hx
        rcases List.mem_cons.mp hx with rfl | h'
        · exact hr
        · exact inheritAssigned_ok rs _ hrs x h'
    · intro x hx
      rcases List.mem_cons.mp hx with rfl | h'
      · exact hr
      · exact inheritAssigned_ok rs _ hrs x h'

theorem classChanged_ok {s : State} (h : StateOK s) {sec : List CNode} (hsec : SecOK sec) :
    StateOK (classChanged s sec) := by
  unfold classChanged
  refine ⟨h.reqs, h.svcs, inheritAssigned_ok _ _ ?_, h.lim⟩
  intro r hr
  obtain ⟨n, hn, rfl⟩ := List.mem_map.mp hr
  exact compileRule_ok (hsec n (List.mem_filter.mp hn).1)

/-- **installing a configuration (first load or reload) keeps the invariant** -/
theorem applyConfig_ok (s : State) (h : StateOK s) (live new : Config) (hl : ConfigOK live) (hn : ConfigOK new)
    (first : Bool) : StateOK (applyConfig s live new first).1 ∧ ConfigOK (applyConfig s live new first).2 := by
  unfold applyConfig
  dsimp only
  have hx := mergeSection_ok hl.xq hn.xq
  have hc := mergeSection_ok hl.cls hn.cls
  have h0 : StateOK { s with timeout := new.timeout } := ⟨h.reqs, h.svcs, h.rules, h.lim⟩
  refine ⟨?_, ⟨hx, hc⟩⟩
  have h1 : StateOK (if ({ s with timeout := new.timeout } : State).hasXq
      then deliverXq { s with timeout := new.timeout } live.xq (mergeSection live.xq new.xq) first
      else { s with timeout := new.timeout }) := by
    split
    · exact deliverXq_inv (P := StateOK) (Q := NodeOK) (fun s sec hs hq => servicesChanged_ok hs hq) _ _ _ _ h0 hl.xq hx
    · exact h0
  have h2 : ∀ s1 : State, StateOK s1 →
      StateOK (if s1.hasClass && (first || mergeSection live.cls new.cls != live.cls)
        then classChanged s1 (mergeSection live.cls new.cls) else s1) := by
    intro s1 hs1
    split
    · exact classChanged_ok hs1 hc
    · exact hs1
  exact h2 _ h1

end Iauthd.Proto
