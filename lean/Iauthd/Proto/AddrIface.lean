import Iauthd.Addr.Model
import Iauthd.Addr.ProofsSafe
/-
  The only place where the Proto engine touches the Addr engine's names, so that the two can
  evolve independently: the address functions of modules/iauth_misc.c as the line protocol
  uses them, and the one theorem about them that the Proto proofs need.
-/
namespace Iauthd.Proto
open Iauthd

/-- `irc_pton(&addr, bits ? &bits : NULL, text, 0)` -/
def ptonC (text : Bytes) (wantBits : Bool) : Except Addr.Fault Addr.PtonRes := Addr.ptonFixed text wantBits false

/-- `irc_ntop(buf, IRC_NTOP_MAX, &addr)` read back as a C string -/
def ntopC (a : Addr.Addr) : Bytes := (Addr.ntop a 40).1

/-- `irc_check_mask` -/
def checkMaskC (a m : Addr.Addr) (bits : Nat) : Bool := Addr.checkMask a m bits

theorem ptonC_safe (text : Bytes) (wantBits : Bool) : ∃ r, ptonC text wantBits = .ok r := by
  have h : (ptonC text wantBits).isOk = true := by
    unfold ptonC Addr.ptonFixed
    exact Addr.pton_safe _ text wantBits false
  cases hp : ptonC text wantBits with
  | error e => simp [hp, Except.isOk, Except.toBool] at h
  | ok r => exact ⟨r, rfl⟩

end Iauthd.Proto
