import Iauthd.Proto.Hist07
import Iauthd.Proto.RefInvH
/-
  C07: the started daemon satisfies the side condition of `run07_conv` - every service slot in use
  is a configured service (a slot whose service the file does not name, or names with an unknown
  protocol, is released at the end of the scan when nobody waits for it, and at start-up nobody does).
-/
set_option linter.unusedSimpArgs false
set_option linter.unusedVariables false
namespace Iauthd.Proto
open Iauthd

def NoRefs (l : List (Option Svc)) : Prop := ∀ x, some x ∈ l → x.refs = 0

theorem NoRefs.set {l : List (Option Svc)} (h : NoRefs l) (i : Nat) {x : Svc} (hx : x.refs = 0) : NoRefs (l.set i (some x)) := by
  intro y hy
  rcases List.mem_or_eq_of_mem_set hy with h1 | h1
  · exact h y h1
  · cases h1; exact hx

theorem NoRefs.getD {l : List (Option Svc)} (h : NoRefs l) {i : Nat} {x : Svc} (hg : l.getD i none = some x) : x.refs = 0 := by
  apply h
  rw [List.getD_eq_getElem?_getD] at hg
  cases hi : l[i]? with
  | none => rw [hi] at hg; cases hg
  | some v =>
    rw [hi] at hg
    simp only [Option.getD_some] at hg
    subst hg
    exact List.mem_of_getElem? hi

theorem configService_norefs (svcs : List (Option Svc)) (stats : Stats) (name ty : Bytes) (h : NoRefs svcs) :
    NoRefs (configService svcs stats name ty).1 := by
  rw [configService_eq]
  have h1 : NoRefs (pickSlot svcs stats name).1 := by
    unfold pickSlot
    cases findSvcByName svcs name with
    | some i => exact h
    | none =>
      cases List.findIdx? (fun (o : Option Svc) => o.isNone) svcs with
      | some i => exact h.set i rfl
      | none =>
        intro y hy
        rcases List.mem_append.1 hy with h2 | h2
        · exact h y h2
        · simp only [List.mem_singleton, Option.some.injEq] at h2; subst h2; rfl
  generalize (pickSlot svcs stats name).1 = sv2 at h1
  generalize (pickSlot svcs stats name).2.1 = st2
  generalize (pickSlot svcs stats name).2.2 = i
  unfold typeSlot
  cases hg : sv2.getD i none with
  | none => exact h1
  | some srv =>
    have hr := h1.getD hg
    dsimp only
    cases typeOfText ty with
    | some t => exact h1.set i hr
    | none => exact h1.set i hr

/-- one step of the release scan: the slot becomes empty or stays what it was -/
def unrefStep (acc : List (Option Svc) × Stats) (i : Nat) : List (Option Svc) × Stats :=
  match acc.1.getD i none with
  | some srv =>
    if srv.refs > 0 || srv.configured then acc
    else (acc.1.set i none, { acc.2 with srvFrees := acc.2.srvFrees + 1 })
  | none => acc

theorem unrefAll_eq (svcs : List (Option Svc)) (stats : Stats) :
    unrefAll svcs stats = (List.range svcs.length).foldl unrefStep (svcs, stats) := rfl

theorem unrefStep_slot (acc : List (Option Svc) × Stats) (i j : Nat) :
    (unrefStep acc i).1.getD j none = none ∨ (unrefStep acc i).1.getD j none = acc.1.getD j none := by
  unfold unrefStep
  cases hg : acc.1.getD i none with
  | none => exact Or.inr rfl
  | some srv =>
    dsimp only
    split
    · exact Or.inr rfl
    · dsimp only
      by_cases hij : j = i
      · subst hij
        left
        rw [List.getD_eq_getElem?_getD]
        by_cases hl : j < acc.1.length
        · rw [List.getElem?_set_self hl]; rfl
        · rw [List.getElem?_eq_none (by simp; omega)]; rfl
      · right
        rw [List.getD_eq_getElem?_getD, List.getD_eq_getElem?_getD, List.getElem?_set_ne (Ne.symm hij)]

theorem unrefStep_self (acc : List (Option Svc) × Stats) (i : Nat) :
    (unrefStep acc i).1.getD i none = none ∨
      ∃ x, (unrefStep acc i).1.getD i none = some x ∧ (x.refs > 0 ∨ x.configured = true) := by
  unfold unrefStep
  cases hg : acc.1.getD i none with
  | none => left; dsimp only; exact hg
  | some srv =>
    dsimp only
    split
    · rename_i hc
      right
      refine ⟨srv, hg, ?_⟩
      simp only [Bool.or_eq_true, decide_eq_true_eq] at hc
      exact hc
    · left
      dsimp only
      rw [List.getD_eq_getElem?_getD]
      by_cases hl : i < acc.1.length
      · rw [List.getElem?_set_self hl]; rfl
      · rw [List.getElem?_eq_none (by simp; omega)]; rfl

/-- a slot is never filled by the scan -/
theorem unrefFold_slot : ∀ (is : List Nat) (acc : List (Option Svc) × Stats) (j : Nat),
    (is.foldl unrefStep acc).1.getD j none = none ∨ (is.foldl unrefStep acc).1.getD j none = acc.1.getD j none
  | [], acc, j => Or.inr rfl
  | i :: is, acc, j => by
    simp only [List.foldl_cons]
    rcases unrefFold_slot is (unrefStep acc i) j with h | h
    · exact Or.inl h
    · rcases unrefStep_slot acc i j with h2 | h2
      · left; rw [h, h2]
      · right; rw [h, h2]

/-- a slot the scan visited is empty or still wanted -/
theorem unrefFold_visited : ∀ (is : List Nat) (acc : List (Option Svc) × Stats) (j : Nat), j ∈ is →
    (is.foldl unrefStep acc).1.getD j none = none ∨
      ∃ x, (is.foldl unrefStep acc).1.getD j none = some x ∧ (x.refs > 0 ∨ x.configured = true)
  | [], _, _, h => by cases h
  | i :: is, acc, j, h => by
    simp only [List.foldl_cons]
    by_cases hj : j ∈ is
    · exact unrefFold_visited is _ j hj
    · have hji : j = i := by
        rcases List.mem_cons.1 h with h1 | h1
        · exact h1
        · exact absurd h1 hj
      subst hji
      rcases unrefFold_slot is (unrefStep acc j) j with h1 | h1
      · exact Or.inl h1
      · rw [h1]; exact unrefStep_self acc j

theorem unrefFold_length : ∀ (is : List Nat) (acc : List (Option Svc) × Stats), (is.foldl unrefStep acc).1.length = acc.1.length
  | [], acc => rfl
  | i :: is, acc => by
    simp only [List.foldl_cons]
    rw [unrefFold_length is]
    unfold unrefStep
    cases acc.1.getD i none with
    | none => rfl
    | some srv => dsimp only; split <;> simp

theorem unrefAll_allConf (svcs : List (Option Svc)) (stats : Stats) (h : NoRefs svcs) : AllConf (unrefAll svcs stats).1 := by
  rw [unrefAll_eq]
  intro x hx
  obtain ⟨j, hj, hget⟩ := List.getElem_of_mem hx
  have hlen := unrefFold_length (List.range svcs.length) (svcs, stats)
  have hj' : j < svcs.length := by rw [← hlen]; exact hj
  have hgd : ((List.range svcs.length).foldl unrefStep (svcs, stats)).1.getD j none = some x := by
    rw [List.getD_eq_getElem?_getD, List.getElem?_eq_getElem hj, hget]; rfl
  rcases unrefFold_visited (List.range svcs.length) (svcs, stats) j (List.mem_range.2 hj') with h1 | ⟨y, h1, h2⟩
  · rw [h1] at hgd; cases hgd
  · rw [h1] at hgd
    cases hgd
    rcases h2 with h3 | h3
    · -- the slot still holds what the table held: no references at start-up
      rcases unrefFold_slot (List.range svcs.length) (svcs, stats) j with h4 | h4
      · rw [h4] at h1; cases h1
      · rw [h4] at h1
        have := h.getD h1
        omega
    · exact h3

theorem servicesChanged_allConf (s : State) (sec : List CNode) (h : NoRefs s.svcs) : AllConf (servicesChanged s sec).svcs := by
  unfold servicesChanged
  dsimp only
  apply unrefAll_allConf
  have h0 : NoRefs (s.svcs.map fun o => o.map fun srv => { srv with configured := false }) := by
    intro x hx
    obtain ⟨o, ho, he⟩ := List.mem_map.1 hx
    cases o with
    | none => cases he
    | some y =>
      simp only [Option.map_some, Option.some.injEq] at he
      subst he
      exact h y ho
  have key : ∀ (l : List CNode) (acc : List (Option Svc) × Stats), NoRefs acc.1 →
      NoRefs (l.foldl (fun (acc : List (Option Svc) × Stats) n =>
        if n.isString then configService acc.1 acc.2 n.name (cstr n.value) else acc) acc).1 := by
    intro l
    induction l with
    | nil => intro acc ha; exact ha
    | cons n rest ih =>
      intro acc ha
      simp only [List.foldl_cons]
      apply ih
      split
      · exact configService_norefs _ _ _ _ ha
      · exact ha
  exact key sec _ h0

/-- the daemon as started on any configuration: every slot in use is a configured service -/
theorem start_allConf (hasXq hasClass : Bool) (lim : Limits) (conf : Config) :
    AllConf (applyConfig { hasXq := hasXq, hasClass := hasClass, lim := lim } {} conf true).1.svcs := by
  unfold applyConfig
  dsimp only
  have e : ∀ (s : State), AllConf s.svcs → AllConf (if (s.hasClass && (true || mergeSection ({} : Config).cls conf.cls != ({} : Config).cls)) = true
      then classChanged s (mergeSection ({} : Config).cls conf.cls) else s).svcs := by
    intro s hs
    split
    · exact hs
    · exact hs
  apply e
  split
  · exact servicesChanged_allConf _ _ (by intro x hx; cases hx)
  · intro x hx; cases hx

end Iauthd.Proto
