import Iauthd.Proto.Holds
/-
  Service slots stay alive while a client waits for them.

  `iauth_xquery` keeps its services in a vector with holes; a client's `ref_mask` names slots by
  index.  A slot is freed (`iauth_xquery_unref`) only when its reference counter is zero and the
  configuration no longer names it, and a freed slot is handed to the next new service.  The
  invariant proved here for every history: the reference counter of a slot is at least the number
  of stored requests whose `ref` mask contains that slot, and no request refers to an empty slot.
  So a reply is always matched against the service the query went to, never against a newcomer
  that took over the slot.
-/
set_option linter.unusedSimpArgs false
set_option linter.unusedVariables false
namespace Iauthd.Proto
open Iauthd

def refOf (r : Req) : List Nat := match r.xq with | some cli => cli.ref | none => []

/-- how many of these requests wait for slot `i` -/
def cnt (reqs : List Req) (i : Nat) : Nat := (reqs.filter fun r => (refOf r).contains i).length

/-- every slot's counter covers the requests waiting for it; nobody waits for an empty slot -/
def RefOK (svcs : List (Option Svc)) (reqs : List Req) : Prop :=
  ∀ i, match getSvc svcs i with
    | some srv => cnt reqs i ≤ srv.refs
    | none => cnt reqs i = 0

theorem cnt_nil (i : Nat) : cnt [] i = 0 := rfl

theorem cnt_cons (r : Req) (rs : List Req) (i : Nat) :
    cnt (r :: rs) i = (if (refOf r).contains i then 1 else 0) + cnt rs i := by
  unfold cnt
  simp only [List.filter_cons]
  split <;> simp <;> omega

theorem cnt_append (a c : List Req) (i : Nat) : cnt (a ++ c) i = cnt a i + cnt c i := by
  unfold cnt; simp [List.filter_append]

theorem cnt_filter_le (p : Req → Bool) (rs : List Req) (i : Nat) : cnt (rs.filter p) i ≤ cnt rs i := by
  induction rs with
  | nil => simp [cnt]
  | cons r rs ih =>
    simp only [List.filter_cons]
    split
    · rw [cnt_cons, cnt_cons]; omega
    · rw [cnt_cons]; omega

/-- dropping requests keeps the invariant -/
theorem RefOK.filter {svcs : List (Option Svc)} {reqs : List Req} (h : RefOK svcs reqs) (p : Req → Bool) :
    RefOK svcs (reqs.filter p) := by
  intro i
  have := h i
  have hle := cnt_filter_le p reqs i
  cases hg : getSvc svcs i <;> simp only [hg] at this ⊢ <;> omega

theorem RefOK.tail {svcs : List (Option Svc)} {r : Req} {rs : List Req} (h : RefOK svcs (r :: rs)) : RefOK svcs rs := by
  intro i
  have := h i
  rw [cnt_cons] at this
  cases hg : getSvc svcs i <;> simp only [hg] at this ⊢ <;> (split at this <;> omega)

/-- a request that waits for nothing can be added -/
theorem RefOK.cons_fresh {svcs : List (Option Svc)} {r : Req} {rs : List Req} (h : RefOK svcs rs) (hr : refOf r = []) :
    RefOK svcs (r :: rs) := by
  intro i
  have := h i
  rw [cnt_cons, hr]
  simpa using this

/-- the invariant only looks at `ref` masks -/
theorem cnt_congr_head (r r' : Req) (rs : List Req) (h : refOf r' = refOf r) (i : Nat) : cnt (r' :: rs) i = cnt (r :: rs) i := by
  rw [cnt_cons, cnt_cons, h]

theorem RefOK.congr_head {svcs : List (Option Svc)} {r r' : Req} {rs : List Req} (h : RefOK svcs (r :: rs))
    (hr : refOf r' = refOf r) : RefOK svcs (r' :: rs) := by
  intro i; rw [cnt_congr_head r r' rs hr]; exact h i

/-! ### the request under the handler, with the client record the loop carries -/

/-- the request as it will be written back: its xquery record replaced by the loop's copy -/
def withCli (r : Req) (cli : XqCli) : Req := { r with xq := some cli }

theorem refOf_withCli (r : Req) (cli : XqCli) : refOf (withCli r cli) = cli.ref := rfl

theorem getSvc_set_self (svcs : List (Option Svc)) (i : Nat) (v : Option Svc) (h : i < svcs.length) :
    getSvc (setSvc svcs i v) i = v := by
  unfold getSvc setSvc
  simp [List.getD_eq_getElem?_getD, h]

theorem getSvc_set_other (svcs : List (Option Svc)) (i j : Nat) (v : Option Svc) (h : j ≠ i) :
    getSvc (setSvc svcs i v) j = getSvc svcs j := by
  unfold getSvc setSvc
  simp [List.getD_eq_getElem?_getD, List.getElem?_set, Ne.symm h]

theorem getSvc_some_lt {svcs : List (Option Svc)} {i : Nat} {srv : Svc} (h : getSvc svcs i = some srv) : i < svcs.length := by
  unfold getSvc at h
  rw [List.getD_eq_getElem?_getD] at h
  by_cases hl : i < svcs.length
  · exact hl
  · rw [List.getElem?_eq_none (by omega)] at h; simp at h

theorem contains_maskAdd (m : List Nat) (i j : Nat) : (maskAdd m i).contains j = (m.contains j || j == i) := by
  unfold maskAdd
  by_cases h : m.contains i = true
  · rw [if_pos h]
    by_cases hj : j = i
    · subst hj; rw [h]; rfl
    · have : (j == i) = false := by simpa using hj
      rw [this, Bool.or_false]
  · rw [if_neg h, List.contains_cons]
    exact Bool.or_comm _ _

theorem contains_maskDel (m : List Nat) (i j : Nat) : (maskDel m i).contains j = (m.contains j && j != i) := by
  unfold maskDel
  induction m with
  | nil => rfl
  | cons x xs ih =>
    rw [List.filter_cons]
    by_cases hx : (x != i) = true
    · rw [if_pos hx, List.contains_cons, List.contains_cons, ih]
      by_cases hj : (j == x) = true
      · have e : j = x := by simpa using hj
        subst e
        rw [hj, hx]; simp
      · have : (j == x) = false := by simpa using hj
        rw [this, Bool.false_or, Bool.false_or]
    · rw [if_neg hx, List.contains_cons, ih]
      have e : x = i := by simpa using hx
      subst e
      by_cases hj : (j == x) = true
      · have e2 : j = x := by simpa using hj
        subst e2
        simp
      · have h1 : (j == x) = false := by simpa using hj
        rw [h1, Bool.false_or]

/-- taking a reference: the slot's counter goes up with the mask -/
theorem RefOK.take {svcs : List (Option Svc)} {r : Req} {cli : XqCli} {rs : List Req} {i : Nat} {srv : Svc}
    (h : RefOK svcs (withCli r cli :: rs)) (hs : getSvc svcs i = some srv) (srv' : Svc) (hrefs : srv'.refs = srv.refs + 1)
    (cli' : XqCli) (hc : cli'.ref = maskAdd cli.ref i) :
    RefOK (setSvc svcs i (some srv')) (withCli r cli' :: rs) := by
  intro j
  by_cases hj : j = i
  · subst hj
    rw [getSvc_set_self _ _ _ (getSvc_some_lt hs)]
    have := h j
    rw [hs] at this
    simp only at this ⊢
    rw [cnt_cons, refOf_withCli] at this ⊢
    rw [hc, contains_maskAdd, hrefs]
    simp only [beq_self_eq_true, Bool.or_true, if_true]
    split at this <;> omega
  · rw [getSvc_set_other _ _ _ _ hj]
    have := h j
    rw [cnt_cons, refOf_withCli] at this ⊢
    rw [hc, contains_maskAdd]
    have hji : (j == i) = false := by simpa using hj
    rw [hji, Bool.or_false]
    exact this

/-- changing a slot's record without touching its counter -/
theorem RefOK.set_same {svcs : List (Option Svc)} {reqs : List Req} {i : Nat} {srv : Svc}
    (h : RefOK svcs reqs) (hs : getSvc svcs i = some srv) (srv' : Svc) (hrefs : srv'.refs = srv.refs) :
    RefOK (setSvc svcs i (some srv')) reqs := by
  intro j
  by_cases hj : j = i
  · subst hj
    rw [getSvc_set_self _ _ _ (getSvc_some_lt hs)]
    have := h j
    rw [hs] at this
    simp only at this ⊢
    omega
  · rw [getSvc_set_other _ _ _ _ hj]; exact h j

/-- dropping a reference -/
theorem RefOK.drop {svcs : List (Option Svc)} {r : Req} {cli : XqCli} {rs : List Req} {i : Nat} {srv : Svc}
    (h : RefOK svcs (withCli r cli :: rs)) (hs : getSvc svcs i = some srv) (hin : cli.ref.contains i = true)
    (srv' : Svc) (hrefs : srv'.refs = srv.refs - 1) (cli' : XqCli) (hc : cli'.ref = maskDel cli.ref i) :
    RefOK (setSvc svcs i (some srv')) (withCli r cli' :: rs) := by
  intro j
  by_cases hj : j = i
  · subst hj
    rw [getSvc_set_self _ _ _ (getSvc_some_lt hs)]
    have := h j
    rw [hs] at this
    simp only at this ⊢
    rw [cnt_cons, refOf_withCli] at this ⊢
    rw [hc, contains_maskDel, hrefs]
    simp only [hin, if_true] at this
    simp only [bne_self_eq_false, Bool.and_false, Bool.false_eq_true, if_false]
    omega
  · rw [getSvc_set_other _ _ _ _ hj]
    have := h j
    rw [cnt_cons, refOf_withCli] at this ⊢
    rw [hc, contains_maskDel]
    have hji : (j != i) = true := by simpa using hj
    rw [hji, Bool.and_true]
    exact this

/-- `iauth_xquery_unref`: a slot is emptied only when nobody can be waiting for it -/
theorem RefOK.unref {c : Ctx} {reqs : List Req} (h : RefOK c.svcs reqs) (i : Nat) : RefOK (unrefSvc c i).svcs reqs := by
  unfold unrefSvc
  split
  · rename_i srv hs
    split
    · exact h
    · rename_i hcond
      intro j
      by_cases hj : j = i
      · subst hj
        rw [getSvc_set_self _ _ _ (getSvc_some_lt hs)]
        have := h j
        rw [hs] at this
        simp only at this ⊢
        have h0 : srv.refs = 0 := by
          simp only [Bool.or_eq_true, decide_eq_true_eq, not_or] at hcond
          omega
        omega
      · rw [getSvc_set_other _ _ _ _ hj]; exact h j
  · exact h

/-! ### the handlers -/

theorem findRefSlot_get {svcs : List (Option Svc)} {cli : XqCli} {svc : Bytes} {i : Nat} {srv : Svc}
    (h : findRefSlot svcs cli svc = some (i, srv)) : getSvc svcs i = some srv := by
  unfold findRefSlot at h
  have key : ∀ (l : List (Option Svc)) (k : Nat), findRefSlot.go cli svc k l = some (i, srv) →
      ∃ j, i = k + j ∧ l[j]? = some (some srv) := by
    intro l
    induction l with
    | nil => intro k hk; simp [findRefSlot.go] at hk
    | cons x rest ih =>
      intro k hk
      unfold findRefSlot.go at hk
      split at hk
      · obtain ⟨j, e, hj⟩ := ih _ hk
        exact ⟨j + 1, by omega, by simpa using hj⟩
      · split at hk
        · split at hk
          · simp only [Option.some.injEq, Prod.mk.injEq] at hk
            obtain ⟨rfl, rfl⟩ := hk
            exact ⟨0, rfl, rfl⟩
          · obtain ⟨j, e, hj⟩ := ih _ hk
            exact ⟨j + 1, by omega, by simpa using hj⟩
        · obtain ⟨j, e, hj⟩ := ih _ hk
          exact ⟨j + 1, by omega, by simpa using hj⟩
  obtain ⟨j, e, hj⟩ := key svcs 0 h
  have : i = j := by omega
  subst this
  unfold getSvc
  rw [List.getD_eq_getElem?_getD, hj]; rfl

/-- the loop's client record stands for the request's own when they agree on `ref` -/
theorem RefOK.of_xq {svcs : List (Option Svc)} {r : Req} {cli : XqCli} {rs : List Req} (hx : r.xq = some cli) :
    RefOK svcs (r :: rs) ↔ RefOK svcs (withCli r cli :: rs) := by
  have e : refOf (withCli r cli) = refOf r := by simp [refOf, withCli, hx]
  exact ⟨fun h => h.congr_head e, fun h => h.congr_head e.symm⟩

theorem xqTake_ref (c : Ctx) (srv : Svc) (cli : XqCli) (i : Nat) (rs : List Req)
    (hs : getSvc c.svcs i = some srv) (h : RefOK c.svcs (withCli c.req cli :: rs)) :
    RefOK (xqTake c srv cli i).svcs
      (withCli (xqTake c srv cli i).req { cli with ref := maskAdd cli.ref i, sent := maskAdd cli.sent i } :: rs) := by
  have base : RefOK (setSvc c.svcs i (some { srv with queries := srv.queries + 1, refs := srv.refs + 1 }))
      (withCli c.req { cli with ref := maskAdd cli.ref i, sent := maskAdd cli.sent i } :: rs) :=
    h.take hs _ rfl _ rfl
  unfold xqTake
  dsimp only
  split
  · exact base.congr_head rfl
  · exact base

theorem xqCheckSlot_ref (p : Bool) (c : Ctx) (cli : XqCli) (i : Nat) (rs : List Req)
    (h : RefOK c.svcs (withCli c.req cli :: rs)) :
    RefOK (xqCheckSlot p c cli i).1.svcs (withCli (xqCheckSlot p c cli i).1.req (xqCheckSlot p c cli i).2 :: rs) := by
  unfold xqCheckSlot
  split
  · exact h
  · rename_i srv hs
    split
    · exact h
    · dsimp only
      exact xqTake_ref { c with out := c.out ++ xqQueryLines c.lim srv cli c.req } srv cli i rs hs h

theorem xqCheckLoop_ref (p : Bool) (is : List Nat) (c : Ctx) (cli : XqCli) (rs : List Req)
    (h : RefOK c.svcs (withCli c.req cli :: rs)) :
    RefOK (xqCheckLoop p is c cli).1.svcs (withCli (xqCheckLoop p is c cli).1.req (xqCheckLoop p is c cli).2 :: rs) := by
  induction is generalizing c cli with
  | nil => exact h
  | cons i is ih =>
    unfold xqCheckLoop
    exact ih _ _ (xqCheckSlot_ref p c cli i rs h)

theorem xqCheck_ref (p : Bool) (c : Ctx) (rs : List Req) (h : RefOK c.svcs (c.req :: rs)) :
    RefOK (xqCheck p c).svcs ((xqCheck p c).req :: rs) := by
  unfold xqCheck
  split
  · exact h
  · rename_i cli hx
    have h1 := xqCheckLoop_ref p (List.range c.svcs.length) c cli rs ((RefOK.of_xq hx).mp h)
    exact h1.congr_head rfl

theorem xqCheckPassword_ref (c : Ctx) (cli : XqCli) (pw : Bytes) (rs : List Req) (hx : c.req.xq = some cli)
    (h : RefOK c.svcs (c.req :: rs)) : RefOK (xqCheckPassword c cli pw).svcs ((xqCheckPassword c cli pw).req :: rs) := by
  unfold xqCheckPassword
  split
  · exact h
  · dsimp only
    apply xqCheck_ref
    have e : refOf c.req = cli.ref := by simp [refOf, hx]
    exact h.congr_head (by simp [refOf, updReq, hx])

theorem xqMoreLoop_ref (pw : Bytes) (is : List Nat) (c : Ctx) (cli : XqCli) (rs : List Req)
    (h : RefOK c.svcs (withCli c.req cli :: rs)) :
    RefOK (xqMoreLoop pw is c cli).1.svcs (withCli (xqMoreLoop pw is c cli).1.req (xqMoreLoop pw is c cli).2 :: rs) := by
  induction is generalizing c cli with
  | nil => exact h
  | cons i is ih =>
    unfold xqMoreLoop
    split
    · exact ih _ _ h
    · split
      · exact ih _ _ h
      · rename_i srv hs
        split
        · exact ih _ _ h
        · dsimp only
          apply ih
          have base : RefOK (setSvc c.svcs i (some { srv with refs := srv.refs + 1 }))
              (withCli c.req { cli with more := maskDel cli.more i, ref := maskAdd cli.ref i } :: rs) :=
            h.take hs _ rfl _ rfl
          split
          · exact base.congr_head rfl
          · exact base

theorem xqPassword_ref (c c' : Ctx) (pw : Option Bytes) (rs : List Req) (h : RefOK c.svcs (c.req :: rs))
    (hx : xqPassword c pw = .ok c') : RefOK c'.svcs (c'.req :: rs) := by
  unfold xqPassword at hx
  split at hx
  · simp only [pure, Except.pure, Except.ok.injEq] at hx; subst hx; exact h
  · rename_i cli hxq
    split at hx
    · split at hx
      · cases hx
      · simp only [pure, Except.pure, Except.ok.injEq] at hx; subst hx
        exact xqCheckPassword_ref _ _ _ rs hxq h
    · simp only [pure, Except.pure, Except.ok.injEq] at hx; subst hx
      have h1 := xqMoreLoop_ref (pw.getD (b "(null)")) (List.range c.svcs.length) c cli rs ((RefOK.of_xq hxq).mp h)
      exact h1.congr_head rfl

theorem xqFinishPre_ref (i : Nat) (c : Ctx) (cli : XqCli) (srv srv0 : Svc) (rs : List Req)
    (hs : getSvc c.svcs i = some srv0) (hrefs : srv.refs = srv0.refs) (hin : cli.ref.contains i = true)
    (h : RefOK c.svcs (withCli c.req cli :: rs)) :
    RefOK (xqFinishPre i c cli srv).svcs ((xqFinishPre i c cli srv).req :: rs) := by
  unfold xqFinishPre
  dsimp only
  have base : RefOK (setSvc c.svcs i (some { srv with refs := srv.refs - 1 }))
      (withCli c.req { cli with ref := maskDel cli.ref i } :: rs) :=
    h.drop hs hin _ (by simp [hrefs]) _ rfl
  -- unref or not, soft hold or not: neither touches a `ref` mask
  have step1 : ∀ c1 : Ctx, RefOK c1.svcs (withCli c1.req { cli with ref := maskDel cli.ref i } :: rs) →
      RefOK (if ({ srv with refs := srv.refs - 1 } : Svc).refs == 0 then unrefSvc c1 i else c1).svcs
        (withCli (if ({ srv with refs := srv.refs - 1 } : Svc).refs == 0 then unrefSvc c1 i else c1).req
          { cli with ref := maskDel cli.ref i } :: rs) := by
    intro c1 h1
    split
    · exact (RefOK.unref h1 i).congr_head rfl
    · exact h1
  have s1 := step1 { c with svcs := setSvc c.svcs i (some { srv with refs := srv.refs - 1 }) } base
  split
  · exact (s1.congr_head (r' := _) rfl)
  · exact (s1.congr_head (r' := _) rfl)

/-! ### handlers that touch neither the service table nor a `ref` mask -/

/-- same service table, same xquery record -/
def Keep2 (c c' : Ctx) : Prop := c'.svcs = c.svcs ∧ c'.req.xq = c.req.xq

theorem Keep2.refl (c : Ctx) : Keep2 c c := ⟨rfl, rfl⟩
theorem Keep2.trans {a m c : Ctx} (h1 : Keep2 a m) (h2 : Keep2 m c) : Keep2 a c := ⟨h2.1.trans h1.1, h2.2.trans h1.2⟩

theorem Keep2.ref {c c' : Ctx} (k : Keep2 c c') {rs : List Req} (h : RefOK c.svcs (c.req :: rs)) : RefOK c'.svcs (c'.req :: rs) := by
  rw [k.1]
  exact h.congr_head (by simp [refOf, k.2])

theorem gateNested_keep2 (st : Static) (c c' : Ctx) (h : gateNested st c = .ok c') : Keep2 c c' := by
  unfold gateNested at h
  dsimp only at h
  split at h
  · split at h
    · cases h
    · split at h <;> (simp only [pure, Except.pure, Except.ok.injEq] at h; subst h)
      · exact ⟨rfl, rfl⟩
      · exact Keep2.refl c
  · simp only [pure, Except.pure, Except.ok.injEq] at h; subst h; exact Keep2.refl c

theorem trustUsername_keep2 (st : Static) (c c' : Ctx) (name : Bytes) (h : trustUsername st c name = .ok c') : Keep2 c c' := by
  unfold trustUsername at h
  simp only [bind, Except.bind, pure, Except.pure] at h
  split at h
  · have := gateNested_keep2 st _ _ h
    exact Keep2.trans ⟨rfl, rfl⟩ this
  · cases h; exact ⟨rfl, rfl⟩

theorem classRules_keep2 (st : Static) (rules : List Rule) (c c' : Ctx) (rules' : List Rule)
    (h : classRules st rules c = .ok (c', rules')) : Keep2 c c' := by
  induction rules generalizing c c' rules' with
  | nil => simp [classRules, pure, Except.pure] at h; obtain ⟨rfl, _⟩ := h; exact Keep2.refl c
  | cons rule rest ih =>
    unfold classRules at h
    by_cases hm : ruleMatches c.svcs rule c.req = true
    · simp only [hm, if_true] at h
      by_cases ht : (wantsTrust rule c.req && !(trustName c.req).isEmpty) = true
      · simp only [ht, if_true, bind, Except.bind] at h
        split at h
        · cases h
        · rename_i c1 hx
          simp only [pure, Except.pure, Except.ok.injEq, Prod.mk.injEq] at h
          obtain ⟨rfl, _⟩ := h
          exact Keep2.trans (trustUsername_keep2 st _ _ _ hx) ⟨rfl, rfl⟩
      · simp only [ht, if_false, bind, Except.bind, pure, Except.pure, Except.ok.injEq, Prod.mk.injEq, Bool.false_eq_true] at h
        obtain ⟨rfl, _⟩ := h
        exact ⟨rfl, rfl⟩
    · simp only [hm, if_false, Bool.false_eq_true, bind, Except.bind] at h
      split at h
      · cases h
      · rename_i v hx
        obtain ⟨c1, r1⟩ := v
        simp only [pure, Except.pure, Except.ok.injEq, Prod.mk.injEq] at h
        obtain ⟨rfl, _⟩ := h
        exact ih c c1 r1 hx

theorem classAssign_keep2 (st : Static) (c c' : Ctx) (h : classAssign st c = .ok c') : Keep2 c c' := by
  unfold classAssign at h
  by_cases he : (!c.req.cls.isEmpty) = true
  · simp only [he, if_true, pure, Except.pure, Except.ok.injEq] at h
    subst h; exact ⟨rfl, rfl⟩
  · simp only [he, if_false, Bool.false_eq_true, bind, Except.bind] at h
    split at h
    · cases h
    · rename_i v hx
      obtain ⟨c1, r1⟩ := v
      have := classRules_keep2 st _ _ _ _ hx
      split at h <;> (simp only [pure, Except.pure, Except.ok.injEq] at h; subst h; exact Keep2.trans this ⟨rfl, rfl⟩)

theorem accept_keep2 (st : Static) (c c' : Ctx) (h : accept st c = .ok c') : Keep2 c c' := by
  unfold accept at h
  by_cases hr : c.req.flags.responded = true
  · simp [hr, bind, Except.bind, throw, throwThe, MonadExceptOf.throw] at h
  · simp only [hr, if_false, Bool.false_eq_true] at h
    by_cases hcl : st.hasClass = true
    · simp only [hcl, if_true, bind, Except.bind, pure, Except.pure] at h
      split at h
      · cases h
      · rename_i c1 hx
        simp only [Except.ok.injEq] at h
        subst h
        exact Keep2.trans (classAssign_keep2 st _ _ hx) ⟨rfl, rfl⟩
    · simp only [hcl, if_false, bind, Except.bind, pure, Except.pure, Except.ok.injEq, Bool.false_eq_true] at h
      subst h
      exact ⟨rfl, rfl⟩

theorem kill_keep2 (c c' : Ctx) (reason : Bytes) (h : kill c reason = .ok c') : Keep2 c c' := by
  unfold kill at h
  by_cases hr : c.req.flags.responded = true
  · simp [hr, bind, Except.bind, throw, throwThe, MonadExceptOf.throw] at h
  · simp only [hr, if_false, bind, Except.bind, pure, Except.pure, Except.ok.injEq, Bool.false_eq_true] at h
    subst h; exact ⟨rfl, rfl⟩

theorem gate_keep2 (st : Static) (c c' : Ctx) (h : gate st c = .ok c') : Keep2 c c' := by
  unfold gate at h
  dsimp only at h
  by_cases h1 : (c.req.holds == 0 && !c.req.flags.responded && st.need.subset c.req.flags) = true
  · simp only [h1, if_true] at h
    by_cases h2 : (c.req.soft == 0 || c.req.flags.timedOut) = true
    · simp only [h2, if_true] at h; exact accept_keep2 st _ _ h
    · simp only [h2, if_false, Bool.false_eq_true] at h
      split at h <;> (simp only [pure, Except.pure, Except.ok.injEq] at h; subst h)
      · exact ⟨rfl, rfl⟩
      · exact Keep2.refl c
  · simp only [h1, if_false, Bool.false_eq_true, pure, Except.pure, Except.ok.injEq] at h
    subst h; exact Keep2.refl c

theorem xqVouch_keep2 (c : Ctx) (cli : XqCli) (stamp : Bytes) : Keep2 c (xqVouch c cli stamp) := by
  unfold xqVouch
  dsimp only
  split <;> split <;> exact ⟨rfl, rfl⟩

/-! ### replies and server events -/

theorem xqFinish_ref (st : Static) (i : Nat) (c c' : Ctx) (cli : XqCli) (srv srv0 : Svc) (rs : List Req)
    (hs : getSvc c.svcs i = some srv0) (hrefs : srv.refs = srv0.refs) (hin : cli.ref.contains i = true)
    (h : RefOK c.svcs (withCli c.req cli :: rs)) (hx : xqFinish st i c cli srv = .ok c') :
    RefOK c'.svcs (c'.req :: rs) := by
  rw [xqFinish_eq] at hx
  exact (gate_keep2 st _ _ hx).ref (xqFinishPre_ref i c cli srv srv0 rs hs hrefs hin h)

theorem xqReply_ref (st : Static) (c c' : Ctx) (svc : Bytes) (reply : Option Bytes) (rs : List Req)
    (h : RefOK c.svcs (c.req :: rs)) (hx : xqReply st c svc reply = .ok c') : RefOK c'.svcs (c'.req :: rs) := by
  unfold xqReply at hx
  split at hx
  · simp only [pure, Except.pure, Except.ok.injEq] at hx; subst hx; exact h
  · rename_i cli hxq
    have hw := (RefOK.of_xq (rs := rs) (svcs := c.svcs) hxq).mp h
    split at hx
    · simp only [pure, Except.pure, Except.ok.injEq] at hx; subst hx; exact h
    · rename_i i srv hfind
      have hs := findRefSlot_get hfind
      have hin := mem_of_findRefSlot hfind
      -- a change of the client record that leaves `ref` alone
      have hw' : ∀ cli' : XqCli, cli'.ref = cli.ref → RefOK c.svcs (withCli c.req cli' :: rs) :=
        fun cli' e => hw.congr_head (by simp [refOf_withCli, e])
      split at hx
      · dsimp only at hx
        split at hx
        · refine xqFinish_ref st i _ _ _ _ srv rs ?_ ?_ ?_ ?_ hx
          · exact hs
          · rfl
          · exact hin
          · exact hw.congr_head rfl
        · refine xqFinish_ref st i _ _ _ _ srv rs ?_ ?_ ?_ ?_ hx
          · exact hs
          · rfl
          · exact hin
          · exact hw
      · split at hx
        · refine xqFinish_ref st i _ _ _ _ srv rs ?_ ?_ ?_ ?_ hx
          · exact hs
          · rfl
          · exact hin
          · exact hw' _ rfl
        · dsimp only at hx
          split at hx
          · rename_i stamp _ _
            have k := xqVouch_keep2 c { cli with ok := maskAdd cli.ok i } stamp
            refine xqFinish_ref st i _ _ _ _ srv rs ?_ ?_ ?_ ?_ hx
            · rw [k.1]; exact hs
            · rfl
            · exact hin
            · rw [k.1]; exact (hw' _ rfl).congr_head rfl
          · refine xqFinish_ref st i _ _ _ _ srv rs ?_ ?_ ?_ ?_ hx
            · exact hs
            · rfl
            · exact hin
            · exact hw' _ rfl
        · split at hx
          · have h1 : RefOK (setSvc c.svcs i (some { srv with bad := srv.bad + 1, badAcct := srv.badAcct + (if c.req.account.isEmpty then 0 else 1) }))
                (c.req :: rs) := h.set_same hs _ rfl
            exact (kill_keep2 _ _ _ hx).ref h1
          · split at hx
            · refine xqFinish_ref st i _ _ _ _ srv rs ?_ ?_ ?_ ?_ hx
              · exact hs
              · rfl
              · exact hin
              · exact hw.congr_head rfl
            · split at hx
              · refine xqFinish_ref st i _ _ _ _ srv rs ?_ ?_ ?_ ?_ hx
                · exact hs
                · rfl
                · exact hin
                · exact (hw' _ rfl).congr_head rfl
              · simp only [pure, Except.pure, Except.ok.injEq] at hx; subst hx; exact h

theorem fieldChange_ref (st : Static) (p : Bool) (c : Ctx) (rs : List Req) (h : RefOK c.svcs (c.req :: rs)) :
    RefOK (fieldChange st p c).svcs ((fieldChange st p c).req :: rs) := by
  unfold fieldChange; split
  · exact xqCheck_ref p c rs h
  · exact h

theorem reqEvent_ref (st : Static) (c c' : Ctx) (ev : Ev) (rs : List Req) (h : RefOK c.svcs (c.req :: rs))
    (hx : reqEvent st c ev = .ok c') : RefOK c'.svcs (c'.req :: rs) := by
  have fc : ∀ c1 : Ctx, c1.svcs = c.svcs → c1.req.xq = c.req.xq → gate st (fieldChange st false c1) = .ok c' →
      RefOK c'.svcs (c'.req :: rs) := by
    intro c1 e1 e2 hg
    have h1 : RefOK c1.svcs (c1.req :: rs) := (Keep2.ref (c := c) (c' := c1) ⟨e1, e2⟩ h)
    exact (gate_keep2 st _ _ hg).ref (fieldChange_ref st false c1 rs h1)
  cases ev with
  | hostname hn =>
    simp only [reqEvent] at hx
    split at hx
    · simp only [pure, Except.pure, Except.ok.injEq] at hx; subst hx; exact h
    · split at hx
      · cases hx
      · (refine fc _ ?_ ?_ hx <;> rfl)
  | noHostname => simp only [reqEvent] at hx; (refine fc _ ?_ ?_ hx <;> rfl)
  | password p =>
    simp only [reqEvent, bind, Except.bind] at hx
    have h0 : RefOK (updReq c fun r => { r with flags := { r.flags with gotPass := true } }).svcs
        ((updReq c fun r => { r with flags := { r.flags with gotPass := true } }).req :: rs) :=
      h.congr_head rfl
    by_cases hq : st.hasXq = true
    · simp only [hq, if_true] at hx
      split at hx
      · cases hx
      · rename_i c1 hc1
        exact (gate_keep2 st _ _ hx).ref (xqPassword_ref _ _ _ rs h0 hc1)
    · simp only [hq, if_false, Bool.false_eq_true, pure, Except.pure] at hx
      exact (gate_keep2 st _ _ hx).ref h0
  | userInfo u r =>
    simp only [reqEvent] at hx
    refine fc _ ?_ ?_ hx
    · rfl
    · simp only [updReq]
  | ident i =>
    simp only [reqEvent] at hx
    refine fc _ ?_ ?_ hx
    · rfl
    simp only [updReq]
    cases i with
    | some x => rfl
    | none => dsimp only; split <;> rfl
  | nick n =>
    simp only [reqEvent] at hx
    split at hx
    · cases hx
    · (refine fc _ ?_ ?_ hx <;> rfl)
  | hurry => simp only [reqEvent] at hx; (refine fc _ ?_ ?_ hx <;> rfl)
  | timeout =>
    simp only [reqEvent] at hx
    exact (gate_keep2 st _ _ hx).ref (h.congr_head rfl)

end Iauthd.Proto
