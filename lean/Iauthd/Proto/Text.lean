import Iauthd.Util.Bytes
/-
  Text-level helpers of the Proto engine: the libc functions the line protocol code
  relies on (modelled by assumption, validated through the correspondence):
  strtol/strtoul, C-locale isspace, strncpy/strlcpy truncation, snprintf of
  %d %u %x, fnmatch(…, 0) for the pattern subset `* ? \c` and literals.
-/
namespace Iauthd.Proto
open Iauthd

/-- ASCII literal as bytes (defined through `String.toList` so that it reduces in proofs) -/
def b (s : String) : Bytes := s.toList.map fun c => UInt8.ofNat c.toNat

/-- bytes of a C string argument: everything before the first NUL -/
abbrev cstr := Bytes.cstr

def LONG_MAX : Int := 9223372036854775807
def LONG_MIN : Int := -9223372036854775808
def ULONG_MAX : Nat := 18446744073709551615

def digitVal (c : UInt8) : Option Nat :=
  let n := c.toNat
  if 48 ≤ n ∧ n ≤ 57 then some (n - 48)
  else if 97 ≤ n ∧ n ≤ 122 then some (n - 87)
  else if 65 ≤ n ∧ n ≤ 90 then some (n - 55)
  else none

def digitIn (base : Nat) (c : UInt8) : Option Nat :=
  match digitVal c with
  | some d => if d < base then some d else none
  | none => none

/-- accumulate digits; returns (value, digits consumed) -/
def accDigits (base : Nat) : Bytes → Nat → Nat → Nat × Nat
  | [], acc, n => (acc, n)
  | c :: cs, acc, n =>
    match digitIn base c with
    | some d => accDigits base cs (acc * base + d) (n + 1)
    | none => (acc, n)

def skipSpaces : Bytes → Nat → Bytes × Nat
  | [], n => ([], n)
  | c :: cs, n => if Bytes.isSpace c then skipSpaces cs (n + 1) else (c :: cs, n)

/-- optional sign: (negative?, rest, index) -/
def signPart (r : Bytes) (i : Nat) : Bool × Bytes × Nat :=
  match r with
  | 45 :: t => (true, t, i + 1)
  | 43 :: t => (false, t, i + 1)
  | _ => (false, r, i)

/-- optional 0x / 0X when base 16 and a hex digit follows -/
def prefixPart (base : Nat) (r : Bytes) (i : Nat) : Bytes × Nat :=
  if base = 16 then
    match r with
    | 48 :: x :: d :: t =>
      if (x == 120 || x == 88) && (digitIn 16 d).isSome then (d :: t, i + 2) else (r, i)
    | _ => (r, i)
  else (r, i)

/-- common front end of strtol/strtoul: returns (negative?, magnitude, index just past
    the number) — index 0 and magnitude 0 when there are no digits. -/
def scanNumber (base : Nat) (s : Bytes) : Bool × Nat × Nat :=
  let sk := skipSpaces s 0
  let sg := signPart sk.1 sk.2
  let pf := prefixPart base sg.2.1 sg.2.2
  let ac := accDigits base pf.1 0 0
  if ac.2 = 0 then (false, 0, 0) else (sg.1, ac.1, pf.2 + ac.2)

/-- `strtol(s, &end, base)`: (value saturated to `long`, end index) -/
def strtol (base : Nat) (s : Bytes) : Int × Nat :=
  let (neg, v, e) := scanNumber base s
  let x : Int := if neg then - (v : Int) else (v : Int)
  (if x > LONG_MAX then LONG_MAX else if x < LONG_MIN then LONG_MIN else x, e)

/-- `strtoul(s, &end, base)`: (value as unsigned long, end index) -/
def strtoul (base : Nat) (s : Bytes) : Nat × Nat :=
  let (neg, v, e) := scanNumber base s
  if v > ULONG_MAX then (ULONG_MAX, e)
  else if neg then ((ULONG_MAX + 1 - v) % (ULONG_MAX + 1), e) else (v, e)

/-- conversion `long → int` on LP64 -/
def toInt32 (x : Int) : Int := wrap32 x

def decNat (n : Nat) : Bytes := b (toString n)
def decInt (i : Int) : Bytes := b (toString i)
def hexNat (n : Nat) : Bytes := b (String.ofList (Nat.toDigits 16 n))
/-- `%x` of an `int`: printed as the 32-bit unsigned value -/
def hexInt32 (i : Int) : Bytes := hexNat ((i % 4294967296).toNat)

/-- `strncpy(dst, src, n)` into a zeroed buffer of n+1 bytes, read back as a C string -/
def strncpyN (n : Nat) (src : Bytes) : Bytes := src.take n

/-- snprintf-style truncation to a buffer of `size` bytes -/
def truncBuf (size : Nat) (s : Bytes) : Bytes := s.take (size - 1)

/-! ### tokenizer of `iauth_read` -/

def takeWord : Bytes → Bytes × Bytes
  | [] => ([], [])
  | c :: cs => if Bytes.isSpace c then ([], c :: cs) else let (w, r) := takeWord cs; (c :: w, r)

/-- at most `fuel` more tokens -/
def tokens : Nat → Bytes → List Bytes
  | 0, _ => []
  | fuel + 1, s =>
    match (skipSpaces s 0).1 with
    | [] => []
    | 58 :: rest => [rest]                      -- ':' swallows the rest of the line
    | c :: cs =>
      let (w, r) := takeWord (c :: cs)
      match r with
      | [] => [w]
      | _ :: r' => w :: tokens fuel r'           -- the blank is overwritten by NUL and skipped

/-! ### parameter splitting on the *output* side (the server reading what the daemon wrote):
     IRC style, only the blank separates, ':' starts the trailing parameter -/

def dropBlanks : Bytes → Bytes
  | 32 :: cs => dropBlanks cs
  | s => s

def takeParam : Bytes → Bytes × Bytes
  | [] => ([], [])
  | c :: cs => if c == 32 then ([], c :: cs) else let (w, r) := takeParam cs; (c :: w, r)

def otokens : Nat → Bytes → List Bytes
  | 0, _ => []
  | fuel + 1, s =>
    let d := dropBlanks s
    if d.isEmpty then []
    else if d.head? == some 58 then [d.tail]          -- ':' swallows the rest of the line
    else
      let p := takeParam d
      if p.2.isEmpty then [p.1] else p.1 :: otokens fuel p.2.tail

structure Line where
  id : Int
  argv : List Bytes
  deriving Repr, BEq, DecidableEq

/-- `id = strtol(line, &sep, 10)` then at most 16 arguments from `sep` -/
def tokenize (line : Bytes) : Line :=
  let (v, e) := strtol 10 line
  { id := toInt32 v, argv := tokens 16 (line.drop e) }

/-! ### input framing: `evbuffer_readln(EVBUFFER_EOL_CRLF)` -/

/-- one byte into the line assembler: `cur` is the current partial line (reversed), `acc` the
    complete lines so far (latest first).  A line ends at '\n'; one '\r' directly before it is
    dropped. -/
def lineStep (st : Bytes × List Bytes) (c : UInt8) : Bytes × List Bytes :=
  if c == 10 then
    ([], (match st.1 with
          | 13 :: t => t.reverse
          | _ => st.1.reverse) :: st.2)
  else (c :: st.1, st.2)

/-- split off complete lines; returns (lines, unconsumed tail) -/
def splitLines (buf : Bytes) : List Bytes × Bytes :=
  let st := buf.foldl lineStep ([], [])
  (st.2.reverse, st.1.reverse)

/-! ### fnmatch(pattern, string, 0) for `*`, `?`, `\c` and literals -/

def globFuel (p s : Bytes) : Nat := (p.length + 1) * (s.length + 1) + 1

def globGo : Nat → Bytes → Bytes → Bool
  | 0, _, _ => false
  | _ + 1, [], s => s.isEmpty
  | f + 1, 42 :: p, s =>                         -- '*'
    globGo f p s || (match s with | [] => false | _ :: s' => globGo f (42 :: p) s')
  | f + 1, 63 :: p, s => (match s with | [] => false | _ :: s' => globGo f p s')   -- '?'
  | f + 1, 92 :: c :: p, s => (match s with | [] => false | x :: s' => x == c && globGo f p s')
  | f + 1, c :: p, s => (match s with | [] => false | x :: s' => x == c && globGo f p s')

/-- `fnmatch(p, s, 0) == 0` -/
def glob (p s : Bytes) : Bool := globGo (2 * (p.length + s.length) + 2) p s

end Iauthd.Proto
