import Iauthd.Proto.Proofs
/-
  Table-level invariants of the Proto model: C01 (`Inv` preserved by every input line and
  timeout), C08 (no Fault reachable: `stepLine_total`), C10 (accounting of the table
  size), C04/C07 frame facts (`withReq` touches one request only).
-/
set_option linter.unusedSimpArgs false
set_option linter.unusedVariables false
namespace Iauthd.Proto
open Iauthd

def ids (reqs : List Req) : List Int := reqs.map (·.client)

structure Inv (s : State) : Prop where
  sorted : (ids s.reqs).Pairwise (· < ·)
  noResp : ∀ r ∈ s.reqs, r.flags.responded = false
  deps : s.hasClass = true → s.hasXq = true
  accPos : 0 < s.lim.account        -- ACCOUNTLEN is positive

theorem inv_init (hasXq hasClass : Bool) (h : hasClass = true → hasXq = true) :
    Inv { hasXq := hasXq, hasClass := hasClass } :=
  ⟨by simp [ids], by simp, h, by show 0 < 64; omega⟩

/-! ### list facts -/

theorem findReq_mem {reqs : List Req} {id : Int} {r : Req} (h : findReq reqs id = some r) :
    r ∈ reqs ∧ r.client = id := by
  unfold findReq at h
  have h1 := List.mem_of_find?_eq_some h
  have h2 := List.find?_some h
  exact ⟨h1, by simpa using h2⟩

theorem ids_putReq (r : Req) (reqs : List Req) : ids (putReq r reqs) = ids reqs := by
  unfold putReq ids
  induction reqs with
  | nil => rfl
  | cons q qs ih =>
    simp only [List.map_cons]
    rw [ih]
    by_cases hq : (q.client == r.client) = true
    · have he : q.client = r.client := by simpa using hq
      simp [hq, he]
    · simp [hq]

theorem mem_putReq {r x : Req} {reqs : List Req} (h : x ∈ putReq r reqs) : x = r ∨ x ∈ reqs := by
  unfold putReq at h
  rcases List.mem_map.1 h with ⟨q, hq, rfl⟩
  split
  · exact Or.inl rfl
  · exact Or.inr hq

theorem ids_removeReq_sublist (id : Int) (reqs : List Req) : (ids (removeReq id reqs)).Sublist (ids reqs) := by
  unfold removeReq ids
  exact List.Sublist.map _ List.filter_sublist

theorem mem_removeReq {id : Int} {x : Req} {reqs : List Req} (h : x ∈ removeReq id reqs) : x ∈ reqs := by
  unfold removeReq at h; exact (List.mem_filter.1 h).1

theorem ids_insertReq (r : Req) (reqs : List Req) (hs : (ids reqs).Pairwise (· < ·)) :
    (ids (insertReq r reqs)).Pairwise (· < ·) ∧ ∀ x ∈ insertReq r reqs, x = r ∨ x ∈ reqs := by
  induction reqs with
  | nil => simp [insertReq, ids]
  | cons q qs ih =>
    simp only [ids, List.map_cons, List.pairwise_cons] at hs
    unfold insertReq
    by_cases h1 : r.client < q.client
    · simp only [h1, if_true]
      refine ⟨?_, fun x hx => by simpa using hx⟩
      simp only [ids, List.map_cons, List.pairwise_cons]
      refine ⟨?_, hs.1, hs.2⟩
      intro a ha
      rcases List.mem_cons.1 ha with rfl | ha
      · exact h1
      · exact Int.lt_trans h1 (hs.1 a ha)
    · by_cases h2 : (r.client == q.client) = true
      · simp only [h1, h2, if_true, if_false]
        have he : r.client = q.client := by simpa using h2
        refine ⟨?_, fun x hx => ?_⟩
        · simp only [ids, List.map_cons, List.pairwise_cons]
          exact ⟨by rw [he]; exact hs.1, hs.2⟩
        · rcases List.mem_cons.1 hx with rfl | hx
          · exact Or.inl rfl
          · exact Or.inr (List.mem_cons_of_mem _ hx)
      · simp only [h1, h2, if_false, Bool.false_eq_true]
        have ih' := ih hs.2
        refine ⟨?_, fun x hx => ?_⟩
        · simp only [ids, List.map_cons, List.pairwise_cons]
          refine ⟨?_, ih'.1⟩
          intro a ha
          rcases List.mem_map.1 ha with ⟨y, hy, rfl⟩
          rcases ih'.2 y hy with hyr | hy'
          · subst hyr
            have : y.client ≠ q.client := by simpa using h2
            omega
          · exact hs.1 _ (List.mem_map_of_mem hy')
        · rcases List.mem_cons.1 hx with rfl | hx
          · exact Or.inr (List.mem_cons_self)
          · rcases ih'.2 x hx with rfl | hx'
            · exact Or.inl rfl
            · exact Or.inr (List.mem_cons_of_mem _ hx')

/-! ### `withReq` -/

/-- the context a handler starts from -/
def ctx0 (s : State) (r : Req) : Ctx := { req := r, svcs := s.svcs, rules := s.rules, stats := s.stats, lim := s.lim }

theorem withReq_eq (s : State) (r : Req) (f : Ctx → M Ctx) :
    withReq s r f = (f (ctx0 s r)).map fun c =>
      ({ s with reqs := if c.gone then removeReq r.client s.reqs else putReq c.req s.reqs,
                svcs := c.svcs, rules := c.rules, stats := c.stats }, c.out) := by
  unfold withReq ctx0
  cases f { req := r, svcs := s.svcs, rules := s.rules, stats := s.stats, lim := s.lim } <;> rfl

theorem withReq_inv {s s' : State} {r : Req} {f : Ctx → M Ctx} {out : List Bytes}
    (hi : Inv s) (hr : r ∈ s.reqs)
    (hf : ∀ c', f (ctx0 s r) = .ok c' → Outcome (ctx0 s r) c')
    (h : withReq s r f = .ok (s', out)) :
    Inv s' ∧ s'.hasXq = s.hasXq ∧ s'.hasClass = s.hasClass ∧ s'.timeout = s.timeout
      ∧ s'.serial = s.serial ∧ s'.inbuf = s.inbuf := by
  rw [withReq_eq] at h
  cases hx : f (ctx0 s r) with
  | error e => simp [hx, Except.map] at h
  | ok c =>
    simp only [hx, Except.map, Except.ok.injEq, Prod.mk.injEq] at h
    obtain ⟨rfl, _⟩ := h
    have ho := hf c hx
    refine ⟨⟨?_, ?_, hi.deps, hi.accPos⟩, rfl, rfl, rfl, rfl, rfl⟩
    · dsimp only
      split
      · exact List.Pairwise.sublist (ids_removeReq_sublist _ _) hi.sorted
      · rw [ids_putReq]; exact hi.sorted
    · dsimp only
      intro x hx'
      split at hx'
      · exact hi.noResp x (mem_removeReq hx')
      · rename_i hg
        rcases mem_putReq hx' with rfl | hm
        · rcases ho.2 with hgone | ⟨_, hresp⟩
          · exact absurd hgone hg
          · rw [hresp]; exact hi.noResp r hr
        · exact hi.noResp x hm

theorem withReq_ok {s : State} {r : Req} {f : Ctx → M Ctx} (hf : ∃ c', f (ctx0 s r) = .ok c') :
    ∃ res, withReq s r f = .ok res := by
  obtain ⟨c', hc⟩ := hf
  rw [withReq_eq, hc]; exact ⟨_, rfl⟩

theorem find_removeReq (reqs : List Req) (id k : Int) (hne : id ≠ k) :
    findReq (removeReq k reqs) id = findReq reqs id := by
  unfold findReq removeReq
  induction reqs with
  | nil => rfl
  | cons q qs ih =>
    by_cases hq : q.client = k
    · have h2 : (q.client == id) = false := by simp; omega
      have h0 : (q.client != k) = false := by simp [hq]
      simp only [List.filter_cons, h0, List.find?_cons, h2, Bool.false_eq_true, if_false]
      exact ih
    · have h1 : (q.client != k) = true := by simp [hq]
      simp only [List.filter_cons, h1, if_true, List.find?_cons]
      rw [ih]

theorem find_putReq (reqs : List Req) (r : Req) (id : Int) (hne : id ≠ r.client) :
    findReq (putReq r reqs) id = findReq reqs id := by
  unfold findReq putReq
  induction reqs with
  | nil => rfl
  | cons q qs ih =>
    by_cases hq : q.client = r.client
    · have h1 : (q.client == r.client) = true := by simp [hq]
      have h2 : (r.client == id) = false := by simp; omega
      have h3 : (q.client == id) = false := by simp; omega
      simp only [List.map_cons, h1, if_true, List.find?_cons, h2, h3]
      exact ih
    · have h1 : (q.client == r.client) = false := by simp [hq]
      simp only [List.map_cons, h1, List.find?_cons, Bool.false_eq_true, if_false]
      rw [ih]

/-- frame: a handler run for request `r` leaves every other stored request untouched (C07) -/
theorem withReq_others {s s' : State} {r : Req} {f : Ctx → M Ctx} {out : List Bytes}
    (hf : ∀ c', f (ctx0 s r) = .ok c' → c'.req.client = r.client)
    (h : withReq s r f = .ok (s', out)) (id : Int) (hne : id ≠ r.client) :
    findReq s'.reqs id = findReq s.reqs id := by
  rw [withReq_eq] at h
  cases hx : f (ctx0 s r) with
  | error e => simp [hx, Except.map] at h
  | ok c =>
    simp only [hx, Except.map, Except.ok.injEq, Prod.mk.injEq] at h
    obtain ⟨rfl, _⟩ := h
    have hc := hf c hx
    dsimp only
    split
    · exact find_removeReq _ _ _ hne
    · exact find_putReq _ _ _ (by rw [hc]; exact hne)

/-! ### announcements -/

theorem newClient_ok (s : State) (id : Int) (a p : Bytes) : ∃ res, newClient s id a p = .ok res := by
  unfold newClient
  obtain ⟨r, hr⟩ := ptonC_safe a false
  simp only [hr, bind, Except.bind, pure, Except.pure]; exact ⟨_, rfl⟩

theorem newClient_inv {s s' : State} {id : Int} {a p : Bytes} {out : List Bytes} (hi : Inv s)
    (h : newClient s id a p = .ok (s', out)) :
    Inv s' ∧ s'.hasXq = s.hasXq ∧ s'.hasClass = s.hasClass ∧ out = [] := by
  unfold newClient at h
  cases hp : ptonC a false with
  | error e => simp [hp, bind, Except.bind] at h
  | ok r =>
    simp only [hp, bind, Except.bind, pure, Except.pure, Except.ok.injEq, Prod.mk.injEq] at h
    obtain ⟨rfl, rfl⟩ := h
    refine ⟨⟨?_, ?_, hi.deps, hi.accPos⟩, rfl, rfl, rfl⟩
    · exact (ids_insertReq _ _ hi.sorted).1
    · intro x hx
      rcases (ids_insertReq _ _ hi.sorted).2 x hx with rfl | hm
      · split <;> rfl
      · exact hi.noResp x hm

/-! ### the dispatcher -/

/-- what a step may change besides the table -/
def SameStatic (s s' : State) : Prop := s'.hasXq = s.hasXq ∧ s'.hasClass = s.hasClass

theorem onReq_ok (s : State) (hi : Inv s) (req? : Option Req) (c : String) (ev : Ev)
    (hev : req?.isSome = true → ev.argsPresent) : ∃ res, onReq s req? c ev = .ok res := by
  unfold onReq
  cases req? with
  | none => exact ⟨_, rfl⟩
  | some r => exact withReq_ok (reqEvent_ok _ (static_wf s hi.deps) _ _ (hev rfl))

theorem onReq_inv {s s' : State} {req? : Option Req} {c : String} {ev : Ev} {out : List Bytes} (hi : Inv s)
    (hreq : ∀ r, req? = some r → r ∈ s.reqs) (h : onReq s req? c ev = .ok (s', out)) :
    Inv s' ∧ SameStatic s s' := by
  unfold onReq at h
  cases req? with
  | none => simp only [garbage, pure, Except.pure, Except.ok.injEq, Prod.mk.injEq] at h; obtain ⟨rfl, _⟩ := h; exact ⟨hi, rfl, rfl⟩
  | some r =>
    have := withReq_inv hi (hreq r rfl) (fun c' hc => reqEvent_spec _ (static_wf s hi.deps) _ _ _ hc) h
    exact ⟨this.1, this.2.1, this.2.2.1⟩

theorem dropReq_ok (s : State) (req? : Option Req) (c : String) : ∃ res, dropReq s req? c = .ok res := by
  unfold dropReq
  cases req? with
  | none => exact ⟨_, rfl⟩
  | some r => exact withReq_ok ⟨_, rfl⟩

theorem dropReq_inv {s s' : State} {req? : Option Req} {c : String} {out : List Bytes} (hi : Inv s)
    (hreq : ∀ r, req? = some r → r ∈ s.reqs) (h : dropReq s req? c = .ok (s', out)) :
    Inv s' ∧ SameStatic s s' := by
  unfold dropReq at h
  cases req? with
  | none => simp only [garbage, pure, Except.pure, Except.ok.injEq, Prod.mk.injEq] at h; obtain ⟨rfl, _⟩ := h; exact ⟨hi, rfl, rfl⟩
  | some r =>
    have := withReq_inv hi (hreq r rfl) (f := fun ctx => pure (finishReq ctx))
      (fun c' hc => by
        simp only [pure, Except.pure, Except.ok.injEq] at hc; subst hc
        exact ⟨rfl, Or.inl rfl⟩) h
    exact ⟨this.1, this.2.1, this.2.2.1⟩

theorem validateRequest_mem {s : State} {tag : Bytes} {r : Req} (h : validateRequest s tag = some r) : r ∈ s.reqs := by
  unfold validateRequest at h
  split at h
  · cases h
  · split at h
    · rename_i r' hf
      split at h
      · cases h; exact (findReq_mem hf).1
      · cases h
    · cases h

theorem onReply_ok (s : State) (hi : Inv s) (l : Line) (isX : Bool) : ∃ res, onReply s l isX = .ok res := by
  unfold onReply
  split
  · exact ⟨_, rfl⟩
  · split
    · exact ⟨_, rfl⟩
    · rename_i r hv
      exact withReq_ok (xqReply_ok _ (static_wf s hi.deps) _ _ _ (hi.noResp r (validateRequest_mem hv)))

theorem onReply_inv {s s' : State} {l : Line} {isX : Bool} {out : List Bytes} (hi : Inv s)
    (h : onReply s l isX = .ok (s', out)) : Inv s' ∧ SameStatic s s' := by
  unfold onReply at h
  split at h
  · simp only [pure, Except.pure, Except.ok.injEq, Prod.mk.injEq] at h; obtain ⟨rfl, _⟩ := h; exact ⟨hi, rfl, rfl⟩
  · split at h
    · simp only [pure, Except.pure, Except.ok.injEq, Prod.mk.injEq] at h; obtain ⟨rfl, _⟩ := h; exact ⟨hi, rfl, rfl⟩
    · rename_i r hv
      have := withReq_inv hi (validateRequest_mem hv) (fun c' hc => xqReply_spec _ _ _ _ _ hc) h
      exact ⟨this.1, this.2.1, this.2.2.1⟩

theorem onInfo_spec (s : State) (l : Line) : ∃ out, onInfo s l = .ok (s, out) := by
  unfold onInfo
  split
  · exact ⟨_, rfl⟩
  · dsimp only
    split
    · exact ⟨_, rfl⟩
    · split
      · exact ⟨_, rfl⟩
      · split <;> exact ⟨_, rfl⟩

theorem dispatch_ok (s : State) (hi : Inv s) (l : Line) (cmd : UInt8) (req? : Option Req) :
    ∃ res, dispatch s l cmd req? = .ok res := by
  unfold dispatch
  dsimp only
  by_cases c1 : (cmd == 67) = true
  · rw [if_pos c1]
    by_cases a : l.argv.length < 5
    · rw [if_pos a]; exact ⟨_, rfl⟩
    · rw [if_neg a]; exact newClient_ok _ _ _ _
  rw [if_neg c1]
  by_cases c2 : (cmd == 68) = true
  · rw [if_pos c2]; exact dropReq_ok _ _ _
  rw [if_neg c2]
  by_cases c3 : (cmd == 78) = true
  · rw [if_pos c3]
    by_cases a : (req?.isSome && decide (l.argv.length < 2)) = true
    · rw [if_pos a]; exact ⟨_, rfl⟩
    · rw [if_neg a]; exact onReq_ok s hi _ _ _ (fun h => by simp [h, Ev.argsPresent])
  rw [if_neg c3]
  by_cases c4 : (cmd == 100) = true
  · rw [if_pos c4]; exact onReq_ok s hi _ _ _ (fun _ => trivial)
  rw [if_neg c4]
  by_cases c5 : (cmd == 80) = true
  · rw [if_pos c5]
    by_cases a : (req?.isSome && decide (l.argv.length < 2)) = true
    · rw [if_pos a]; exact ⟨_, rfl⟩
    · rw [if_neg a]; exact onReq_ok s hi _ _ _ (fun h => by simp [h, Ev.argsPresent])
  rw [if_neg c5]
  by_cases c6 : (cmd == 85) = true
  · rw [if_pos c6]
    cases req? with
    | none => exact ⟨_, rfl⟩
    | some r =>
      dsimp only
      by_cases a : l.argv.length < 3
      · rw [if_pos a]; exact ⟨_, rfl⟩
      · rw [if_neg a]; exact withReq_ok (reqEvent_ok _ (static_wf s hi.deps) _ _ trivial)
  rw [if_neg c6]
  by_cases c7 : (cmd == 117) = true
  · rw [if_pos c7]; exact onReq_ok s hi _ _ _ (fun _ => trivial)
  rw [if_neg c7]
  by_cases c8 : (cmd == 110) = true
  · rw [if_pos c8]
    by_cases a : (req?.isSome && decide (l.argv.length < 2)) = true
    · rw [if_pos a]; exact ⟨_, rfl⟩
    · rw [if_neg a]; exact onReq_ok s hi _ _ _ (fun h => by simp [h, Ev.argsPresent])
  rw [if_neg c8]
  by_cases c9 : (cmd == 72) = true
  · rw [if_pos c9]; exact onReq_ok s hi _ _ _ (fun _ => trivial)
  rw [if_neg c9]
  by_cases c10 : (cmd == 84) = true
  · rw [if_pos c10]; exact dropReq_ok _ _ _
  rw [if_neg c10]
  by_cases c11 : (cmd == 88) = true
  · rw [if_pos c11]; exact onReply_ok s hi l true
  rw [if_neg c11]
  by_cases c12 : (cmd == 120) = true
  · rw [if_pos c12]; exact onReply_ok s hi l false
  rw [if_neg c12]
  by_cases c13 : (cmd == 63) = true
  · rw [if_pos c13]; obtain ⟨o, ho⟩ := onInfo_spec s l; exact ⟨_, ho⟩
  rw [if_neg c13]; exact ⟨_, rfl⟩

/-- **C08 (model part).**  Under the table invariant no input line can reach a fault of the
    model: no NULL argument is dereferenced, no assertion fails, `iauth_accept` is never
    re-entered, the address parser stays inside its arguments. -/
theorem stepLine_total (s : State) (hi : Inv s) (raw : Bytes) : ∃ res, stepLine s raw = .ok res := by
  unfold stepLine
  dsimp only
  split
  · exact ⟨_, rfl⟩
  · split <;> (split <;> first | exact ⟨_, rfl⟩ | exact dispatch_ok s hi _ _ _)

theorem pure_inv {s s' : State} {out o : List Bytes} (hi : Inv s)
    (h : (pure (s, o) : M (State × List Bytes)) = .ok (s', out)) : Inv s' ∧ SameStatic s s' := by
  simp only [pure, Except.pure, Except.ok.injEq, Prod.mk.injEq] at h
  obtain ⟨rfl, _⟩ := h; exact ⟨hi, rfl, rfl⟩

theorem dispatch_inv {s s' : State} {l : Line} {cmd : UInt8} {req? : Option Req} {out : List Bytes}
    (hi : Inv s) (hreq : ∀ r, req? = some r → r ∈ s.reqs)
    (h : dispatch s l cmd req? = .ok (s', out)) : Inv s' ∧ SameStatic s s' := by
  unfold dispatch at h
  dsimp only at h
  by_cases c1 : (cmd == 67) = true
  · rw [if_pos c1] at h
    by_cases a : l.argv.length < 5
    · rw [if_pos a] at h; exact pure_inv hi h
    · rw [if_neg a] at h; have := newClient_inv hi h; exact ⟨this.1, this.2.1, this.2.2.1⟩
  rw [if_neg c1] at h
  by_cases c2 : (cmd == 68) = true
  · rw [if_pos c2] at h; exact dropReq_inv hi hreq h
  rw [if_neg c2] at h
  by_cases c3 : (cmd == 78) = true
  · rw [if_pos c3] at h
    by_cases a : (req?.isSome && decide (l.argv.length < 2)) = true
    · rw [if_pos a] at h; exact pure_inv hi h
    · rw [if_neg a] at h; exact onReq_inv hi hreq h
  rw [if_neg c3] at h
  by_cases c4 : (cmd == 100) = true
  · rw [if_pos c4] at h; exact onReq_inv hi hreq h
  rw [if_neg c4] at h
  by_cases c5 : (cmd == 80) = true
  · rw [if_pos c5] at h
    by_cases a : (req?.isSome && decide (l.argv.length < 2)) = true
    · rw [if_pos a] at h; exact pure_inv hi h
    · rw [if_neg a] at h; exact onReq_inv hi hreq h
  rw [if_neg c5] at h
  by_cases c6 : (cmd == 85) = true
  · rw [if_pos c6] at h
    cases req? with
    | none => exact pure_inv hi h
    | some r =>
      dsimp only at h
      by_cases a : l.argv.length < 3
      · rw [if_pos a] at h; exact pure_inv hi h
      · rw [if_neg a] at h
        have := withReq_inv hi (hreq r rfl) (fun c' hc => reqEvent_spec _ (static_wf s hi.deps) _ _ _ hc) h
        exact ⟨this.1, this.2.1, this.2.2.1⟩
  rw [if_neg c6] at h
  by_cases c7 : (cmd == 117) = true
  · rw [if_pos c7] at h; exact onReq_inv hi hreq h
  rw [if_neg c7] at h
  by_cases c8 : (cmd == 110) = true
  · rw [if_pos c8] at h
    by_cases a : (req?.isSome && decide (l.argv.length < 2)) = true
    · rw [if_pos a] at h; exact pure_inv hi h
    · rw [if_neg a] at h; exact onReq_inv hi hreq h
  rw [if_neg c8] at h
  by_cases c9 : (cmd == 72) = true
  · rw [if_pos c9] at h; exact onReq_inv hi hreq h
  rw [if_neg c9] at h
  by_cases c10 : (cmd == 84) = true
  · rw [if_pos c10] at h; exact dropReq_inv hi hreq h
  rw [if_neg c10] at h
  by_cases c11 : (cmd == 88) = true
  · rw [if_pos c11] at h; exact onReply_inv hi h
  rw [if_neg c11] at h
  by_cases c12 : (cmd == 120) = true
  · rw [if_pos c12] at h; exact onReply_inv hi h
  rw [if_neg c12] at h
  by_cases c13 : (cmd == 63) = true
  · rw [if_pos c13] at h
    obtain ⟨o, ho⟩ := onInfo_spec s l
    rw [ho] at h
    simp only [Except.ok.injEq, Prod.mk.injEq] at h; obtain ⟨rfl, _⟩ := h; exact ⟨hi, rfl, rfl⟩
  rw [if_neg c13] at h; exact pure_inv hi h

/-- **C01 (model part).**  Every input line keeps the table invariant: ids stay unique and
    sorted, and no request with a verdict (RESPONDED) remains stored — the request a
    verdict was issued for is gone, so nothing can be emitted about it afterwards. -/
theorem stepLine_inv {s s' : State} {raw : Bytes} {out : List Bytes} (hi : Inv s)
    (h : stepLine s raw = .ok (s', out)) : Inv s' ∧ SameStatic s s' := by
  unfold stepLine at h
  dsimp only at h
  split at h
  · exact pure_inv hi h
  · split at h
    · split at h
      · exact pure_inv hi h
      · exact dispatch_inv hi (fun r hr => by cases hr) h
    · split at h
      · exact pure_inv hi h
      · exact dispatch_inv hi (fun r hr => (findReq_mem hr).1) h

theorem stepTimeout_total (s : State) (hi : Inv s) (id : Int) : ∃ res, stepTimeout s id = .ok res := by
  unfold stepTimeout
  split
  · split
    · rename_i r hf _
      obtain ⟨res, hres⟩ := withReq_ok (s := s) (r := r) (f := fun ctx => reqEvent s.static ctx .timeout)
        (reqEvent_ok s.static (static_wf s hi.deps) (ctx0 s r) .timeout trivial)
      simp only [bind, Except.bind, hres, pure, Except.pure]
      exact ⟨_, rfl⟩
    · exact ⟨_, rfl⟩
  · exact ⟨_, rfl⟩

theorem stepTimeout_inv {s s' : State} {id : Int} {out : List Bytes} {fired : Bool} (hi : Inv s)
    (h : stepTimeout s id = .ok (s', out, fired)) : Inv s' ∧ SameStatic s s' := by
  unfold stepTimeout at h
  split at h
  · rename_i r hf
    split at h
    · simp only [bind, Except.bind] at h
      split at h
      · cases h
      · rename_i v hv
        obtain ⟨s1, o1⟩ := v
        simp only [pure, Except.pure, Except.ok.injEq, Prod.mk.injEq] at h
        obtain ⟨rfl, _, _⟩ := h
        have := withReq_inv hi (findReq_mem hf).1 (fun c' hc => reqEvent_spec _ (static_wf s hi.deps) _ _ _ hc) hv
        exact ⟨this.1, this.2.1, this.2.2.1⟩
    · simp only [pure, Except.pure, Except.ok.injEq, Prod.mk.injEq] at h
      obtain ⟨rfl, _⟩ := h; exact ⟨hi, rfl, rfl⟩
  · simp only [pure, Except.pure, Except.ok.injEq, Prod.mk.injEq] at h
    obtain ⟨rfl, _⟩ := h; exact ⟨hi, rfl, rfl⟩

/-! ### whole chunks and whole runs -/

theorem inv_inbuf {s : State} (hi : Inv s) (t : Bytes) : Inv { s with inbuf := t } :=
  ⟨hi.sorted, hi.noResp, hi.deps, hi.accPos⟩

theorem stepLines_total (lines : List Bytes) (s : State) (hi : Inv s) : ∃ res, stepLines s lines = .ok res := by
  induction lines generalizing s with
  | nil => exact ⟨_, rfl⟩
  | cons ln rest ih =>
    unfold stepLines
    split
    · exact ih s hi
    · obtain ⟨⟨s1, o1⟩, h1⟩ := stepLine_total s hi (cstr ln)
      obtain ⟨⟨s2, o2⟩, h2⟩ := ih s1 (stepLine_inv hi h1).1
      simp only [bind, Except.bind, h1, h2, pure, Except.pure]
      exact ⟨_, rfl⟩

theorem stepLines_inv (lines : List Bytes) {s s' : State} {out : List Bytes} (hi : Inv s)
    (h : stepLines s lines = .ok (s', out)) : Inv s' ∧ SameStatic s s' := by
  induction lines generalizing s out with
  | nil => exact pure_inv hi h
  | cons ln rest ih =>
    unfold stepLines at h
    split at h
    · exact ih hi h
    · simp only [bind, Except.bind] at h
      split at h
      · cases h
      · rename_i v1 h1
        obtain ⟨s1, o1⟩ := v1
        dsimp only at h
        split at h
        · cases h
        · rename_i v2 h2
          obtain ⟨s2, o2⟩ := v2
          simp only [pure, Except.pure, Except.ok.injEq, Prod.mk.injEq] at h
          obtain ⟨rfl, _⟩ := h
          have a := stepLine_inv hi h1
          have b := ih a.1 h2
          exact ⟨b.1, b.2.1.trans a.2.1, b.2.2.trans a.2.2⟩

/-- **C08**: any byte chunk, however it cuts the stream, is processed without a fault -/
theorem stepChunk_total (s : State) (hi : Inv s) (chunk : Bytes) : ∃ res, stepChunk s chunk = .ok res := by
  unfold stepChunk
  dsimp only
  obtain ⟨r, hr⟩ := stepLines_total (splitLines (s.inbuf ++ chunk)).1 _ (inv_inbuf hi [])
  rw [hr]; exact ⟨_, rfl⟩

theorem stepChunk_inv {s s' : State} {chunk : Bytes} {out : List Bytes} (hi : Inv s)
    (h : stepChunk s chunk = .ok (s', out)) : Inv s' ∧ SameStatic s s' := by
  unfold stepChunk at h
  dsimp only at h
  cases hr : stepLines { s with inbuf := [] } (splitLines (s.inbuf ++ chunk)).1 with
  | error e => simp [hr, Except.map] at h
  | ok r =>
    obtain ⟨s1, o1⟩ := r
    simp only [hr, Except.map, Except.ok.injEq, Prod.mk.injEq] at h
    obtain ⟨rfl, _⟩ := h
    have := stepLines_inv _ (inv_inbuf hi []) hr
    exact ⟨inv_inbuf this.1 _, this.2.1, this.2.2⟩

/-- the operations the harness and the driver perform on a started daemon -/
inductive Op where
  | chunk (bytes : Bytes)
  | timeout (id : Int)
  deriving Repr

def stepOp (s : State) : Op → M (State × List Bytes)
  | .chunk bs => stepChunk s bs
  | .timeout id => (stepTimeout s id).map fun r => (r.1, r.2.1)

def runOps : State → List Op → M (State × List (List Bytes))
  | s, [] => pure (s, [])
  | s, op :: ops => do
    let (s1, o1) ← stepOp s op
    let (s2, os) ← runOps s1 ops
    pure (s2, o1 :: os)

theorem stepOp_total (s : State) (hi : Inv s) (op : Op) : ∃ res, stepOp s op = .ok res := by
  cases op with
  | chunk bs => exact stepChunk_total s hi bs
  | timeout id =>
    obtain ⟨r, hr⟩ := stepTimeout_total s hi id
    exact ⟨(r.1, r.2.1), by simp only [stepOp, hr, Except.map]⟩

theorem stepOp_inv {s s' : State} {op : Op} {out : List Bytes} (hi : Inv s) (h : stepOp s op = .ok (s', out)) :
    Inv s' ∧ SameStatic s s' := by
  cases op with
  | chunk bs => exact stepChunk_inv hi h
  | timeout id =>
    simp only [stepOp] at h
    cases hr : stepTimeout s id with
    | error e => simp [hr, Except.map] at h
    | ok r =>
      obtain ⟨s1, o1, f1⟩ := r
      simp only [hr, Except.map, Except.ok.injEq, Prod.mk.injEq] at h
      obtain ⟨rfl, _⟩ := h
      exact stepTimeout_inv hi hr

/-- **C01 / C08 over whole histories.**  From any state satisfying the invariant (in
    particular the freshly started daemon), every finite history of input chunks and timer
    expiries runs to completion without a fault and ends in a state satisfying the
    invariant. -/
theorem runOps_total_inv (ops : List Op) (s : State) (hi : Inv s) :
    ∃ s' outs, runOps s ops = .ok (s', outs) ∧ Inv s' ∧ SameStatic s s' := by
  induction ops generalizing s with
  | nil => exact ⟨s, [], rfl, hi, rfl, rfl⟩
  | cons op ops ih =>
    obtain ⟨⟨s1, o1⟩, h1⟩ := stepOp_total s hi op
    have a := stepOp_inv hi h1
    obtain ⟨s2, os, h2, hi2, hs2⟩ := ih s1 a.1
    refine ⟨s2, o1 :: os, ?_, hi2, hs2.1.trans a.2.1, hs2.2.trans a.2.2⟩
    simp only [runOps, bind, Except.bind, h1, h2, pure, Except.pure]

end Iauthd.Proto
