import Iauthd.Proto.Step
/-
  Invariants of the Proto model (C01, C08, C10 and the frame part of C04/C07).

  * `CtxOk`      : a handler never leaves a request that is still in the table with
                   RESPONDED set, never changes the request's client id;
  * totality     : under the table invariant no `Fault` is reachable (C08 model part);
  * `Inv`        : ids unique and sorted, no stored request has RESPONDED (C01);
  * accounting   : `reqs.length` changes by the announcements / removals only (C10).
-/
set_option linter.unusedSimpArgs false
set_option linter.unusedVariables false
namespace Iauthd.Proto
open Iauthd

/-! ## flag facts -/

theorem subset_gotIdent {a f : Flags} (h : a.subset f = true) (ha : a.gotIdent = true) : f.gotIdent = true := by
  simp [Flags.subset] at h; simp_all

/-- facts about the static part that `calc_iauth_flags` and the module dependencies give:
    the class module is only loaded together with xquery (which asks for the ident), and
    RESPONDED is never a required flag -/
structure Static.wf (st : Static) : Prop where
  ident : st.hasClass = true → st.need.gotIdent = true
  noResp : st.need.responded = false

theorem static_wf (s : State) (h : s.hasClass = true → s.hasXq = true) : s.static.wf := by
  refine ⟨fun hc => ?_, ?_⟩
  · have := h hc
    simp [State.static, State.need, this]
  · simp only [State.static, State.need]; split <;> rfl

/-! ## per-request handlers keep the request's identity and never store RESPONDED -/

/-- what every handler guarantees about its result -/
structure CtxOk (c c' : Ctx) : Prop where
  client : c'.req.client = c.req.client
  resp : c'.gone = true ∨ c'.req.flags.responded = false

theorem finishReq_gone (c : Ctx) : (finishReq c).gone = true := rfl
theorem finishReq_req (c : Ctx) : (finishReq c).req = c.req := rfl
theorem emit_req (c : Ctx) (l : Bytes) : (c.emit l).req = c.req := rfl
theorem emit_gone (c : Ctx) (l : Bytes) : (c.emit l).gone = c.gone := rfl

theorem softDone_spec (c : Ctx) :
    (softDone c).req.client = c.req.client ∧ (softDone c).req.flags.responded = c.req.flags.responded
    ∧ (softDone c).gone = c.gone := by
  simp [softDone, updReq, Ctx.emit]

theorem gateNested_spec (st : Static) (c c' : Ctx) (h : gateNested st c = .ok c') :
    c'.req.client = c.req.client ∧ c'.req.flags.responded = c.req.flags.responded ∧ c'.gone = c.gone
    ∧ c'.req.flags.gotIdent = c.req.flags.gotIdent ∧ c'.lim = c.lim := by
  unfold gateNested at h
  dsimp only at h
  split at h
  · split at h
    · cases h
    · split at h
      · cases h; simp [softDone, updReq, Ctx.emit]
      · cases h; simp
  · cases h; simp

theorem trustUsername_spec (st : Static) (c c' : Ctx) (name : Bytes)
    (h : trustUsername st c name = .ok c') :
    c'.req.client = c.req.client ∧ c'.req.flags.responded = c.req.flags.responded ∧ c'.gone = c.gone
    ∧ (c.req.flags.gotIdent = true → c'.req.flags.gotIdent = true) ∧ c'.lim = c.lim := by
  unfold trustUsername at h
  simp only [bind, Except.bind, pure, Except.pure] at h
  split at h
  · have := gateNested_spec st _ _ h
    simp [updReq, Ctx.emit] at this
    simp [this]
  · cases h; simp [Ctx.emit]

theorem trustUsername_ok (st : Static) (c : Ctx) (name : Bytes) (hid : c.req.flags.gotIdent = true) :
    ∃ c', trustUsername st c name = .ok c' := by
  unfold trustUsername
  simp [Ctx.emit, hid, pure, Except.pure]

theorem bind_eq_ok {ε α β : Type} (x : Except ε α) (f : α → Except ε β) (b : β) :
    (x >>= f) = .ok b ↔ ∃ a, x = .ok a ∧ f a = .ok b := by
  cases x <;> simp [bind, Except.bind]

theorem classRules_spec (st : Static) (rules : List Rule) (c c' : Ctx) (rules' : List Rule)
    (h : classRules st rules c = .ok (c', rules')) :
    c'.req.client = c.req.client ∧ c'.req.flags.responded = c.req.flags.responded ∧ c'.gone = c.gone := by
  induction rules generalizing c c' rules' with
  | nil => simp [classRules, pure, Except.pure] at h; obtain ⟨rfl, _⟩ := h; simp
  | cons rule rest ih =>
    unfold classRules at h
    by_cases hm : ruleMatches c.svcs rule c.req = true
    · simp only [hm, if_true] at h
      by_cases ht : (wantsTrust rule c.req && !(trustName c.req).isEmpty) = true
      · simp only [ht, if_true, bind, Except.bind] at h
        split at h
        · cases h
        · rename_i c1 hx
          simp only [pure, Except.pure, Except.ok.injEq, Prod.mk.injEq] at h
          obtain ⟨rfl, _⟩ := h
          have := trustUsername_spec st _ _ _ hx
          simp [updReq, this]
      · simp only [ht, if_false, bind, Except.bind, pure, Except.pure, Except.ok.injEq, Prod.mk.injEq, Bool.false_eq_true] at h
        obtain ⟨rfl, _⟩ := h
        simp [updReq]
    · simp only [hm, if_false, Bool.false_eq_true, bind, Except.bind] at h
      split at h
      · cases h
      · rename_i v hx
        obtain ⟨c1, r1⟩ := v
        simp only [pure, Except.pure, Except.ok.injEq, Prod.mk.injEq] at h
        obtain ⟨rfl, _⟩ := h
        exact ih c c1 r1 hx

theorem classRules_ok (st : Static) (rules : List Rule) (c : Ctx) (hid : c.req.flags.gotIdent = true) :
    ∃ r, classRules st rules c = .ok r := by
  induction rules generalizing c with
  | nil => exact ⟨_, rfl⟩
  | cons rule rest ih =>
    unfold classRules
    by_cases hm : ruleMatches c.svcs rule c.req = true
    · simp only [hm, if_true]
      by_cases ht : (wantsTrust rule c.req && !(trustName c.req).isEmpty) = true
      · obtain ⟨c1, h1⟩ := trustUsername_ok st c (trustName c.req) hid
        simp only [ht, if_true, h1, bind, Except.bind, pure, Except.pure]
        exact ⟨_, rfl⟩
      · simp only [ht, if_false, bind, Except.bind, pure, Except.pure, Bool.false_eq_true]
        exact ⟨_, rfl⟩
    · obtain ⟨r, hr⟩ := ih c hid
      simp only [hm, if_false, hr, bind, Except.bind, pure, Except.pure, Bool.false_eq_true]
      exact ⟨_, rfl⟩

theorem classAssign_spec (st : Static) (c c' : Ctx) (h : classAssign st c = .ok c') :
    c'.req.client = c.req.client ∧ c'.req.flags.responded = c.req.flags.responded ∧ c'.gone = c.gone := by
  unfold classAssign at h
  by_cases he : (!c.req.cls.isEmpty) = true
  · simp only [he, if_true, pure, Except.pure, Except.ok.injEq] at h
    subst h; simp
  · simp only [he, if_false, Bool.false_eq_true, bind, Except.bind] at h
    split at h
    · cases h
    · rename_i v hx
      obtain ⟨c1, r1⟩ := v
      have := classRules_spec st _ _ _ _ hx
      split at h <;> (simp only [pure, Except.pure, Except.ok.injEq] at h; subst h; simp [this])

theorem classAssign_ok (st : Static) (c : Ctx) (hid : c.req.flags.gotIdent = true) :
    ∃ c', classAssign st c = .ok c' := by
  unfold classAssign
  by_cases he : (!c.req.cls.isEmpty) = true
  · simp only [he, if_true]; exact ⟨_, rfl⟩
  · obtain ⟨⟨c1, r1⟩, hr⟩ := classRules_ok st c.rules c hid
    simp only [he, if_false, hr, bind, Except.bind, Bool.false_eq_true]
    split <;> exact ⟨_, rfl⟩

/-- `iauth_accept` always removes the request -/
theorem accept_spec (st : Static) (c c' : Ctx) (h : accept st c = .ok c') :
    c'.req.client = c.req.client ∧ c'.gone = true := by
  unfold accept at h
  by_cases hr : c.req.flags.responded = true
  · simp [hr, bind, Except.bind, throw, throwThe, MonadExceptOf.throw] at h
  · simp only [hr, if_false, Bool.false_eq_true] at h
    by_cases hcl : st.hasClass = true
    · simp only [hcl, if_true, bind, Except.bind, pure, Except.pure] at h
      split at h
      · cases h
      · rename_i c1 hx
        simp only [Except.ok.injEq] at h
        subst h
        simp [finishReq, Ctx.emit, updReq, (classAssign_spec st _ _ hx).1]
    · simp only [hcl, if_false, bind, Except.bind, pure, Except.pure, Except.ok.injEq, Bool.false_eq_true] at h
      subst h
      simp [finishReq, Ctx.emit, updReq]

theorem accept_ok (st : Static) (hwf : st.wf) (c : Ctx) (hr : c.req.flags.responded = false)
    (hsub : st.need.subset c.req.flags = true) : ∃ c', accept st c = .ok c' := by
  unfold accept
  by_cases hc : st.hasClass = true
  · have hid := subset_gotIdent hsub (hwf.ident hc)
    obtain ⟨c1, h1⟩ := classAssign_ok st c hid
    simp only [hr, hc, h1, bind, Except.bind, pure, Except.pure, if_true, if_false, Bool.false_eq_true]
    exact ⟨_, rfl⟩
  · simp only [hr, hc, bind, Except.bind, pure, Except.pure, if_false, Bool.false_eq_true]
    exact ⟨_, rfl⟩

theorem kill_spec (c c' : Ctx) (reason : Bytes) (h : kill c reason = .ok c') :
    c'.req.client = c.req.client ∧ c'.gone = true := by
  unfold kill at h
  by_cases hr : c.req.flags.responded = true
  · simp [hr, bind, Except.bind, throw, throwThe, MonadExceptOf.throw] at h
  · simp only [hr, if_false, bind, Except.bind, pure, Except.pure, Except.ok.injEq, Bool.false_eq_true] at h
    subst h; simp [finishReq, Ctx.emit, updReq]

theorem kill_ok (c : Ctx) (reason : Bytes) (hr : c.req.flags.responded = false) : ∃ c', kill c reason = .ok c' := by
  unfold kill
  simp only [hr, bind, Except.bind, pure, Except.pure, if_false, Bool.false_eq_true]
  exact ⟨_, rfl⟩

/-- the gate either leaves the request alone (possibly marking soft-done) or removes it -/
theorem gate_spec (st : Static) (c c' : Ctx) (h : gate st c = .ok c') :
    c'.req.client = c.req.client ∧ (c'.gone = true ∨ (c'.gone = c.gone ∧ c'.req.flags.responded = c.req.flags.responded)) := by
  unfold gate at h
  dsimp only at h
  by_cases h1 : (c.req.holds == 0 && !c.req.flags.responded && st.need.subset c.req.flags) = true
  · simp only [h1, if_true] at h
    by_cases h2 : (c.req.soft == 0 || c.req.flags.timedOut) = true
    · simp only [h2, if_true] at h
      have := accept_spec st _ _ h; exact ⟨this.1, Or.inl this.2⟩
    · simp only [h2, if_false, Bool.false_eq_true] at h
      split at h <;> (simp only [pure, Except.pure, Except.ok.injEq] at h; subst h; simp [softDone, updReq, Ctx.emit])
  · simp only [h1, if_false, Bool.false_eq_true, pure, Except.pure, Except.ok.injEq] at h
    subst h; simp

theorem gate_ok (st : Static) (hwf : st.wf) (c : Ctx) : ∃ c', gate st c = .ok c' := by
  unfold gate
  dsimp only
  by_cases h1 : (c.req.holds == 0 && !c.req.flags.responded && st.need.subset c.req.flags) = true
  · have hcond := h1
    simp only [Bool.and_eq_true, Bool.not_eq_true'] at hcond
    by_cases h2 : (c.req.soft == 0 || c.req.flags.timedOut) = true
    · obtain ⟨c1, hc1⟩ := accept_ok st hwf c hcond.1.2 hcond.2
      exact ⟨c1, by simp only [h1, h2, if_true, hc1]⟩
    · by_cases h3 : (!c.req.flags.softDone) = true
      · exact ⟨softDone c, by simp only [h1, h2, h3, if_true, if_false, Bool.false_eq_true, pure, Except.pure]⟩
      · exact ⟨c, by simp only [h1, h2, h3, if_true, if_false, Bool.false_eq_true, pure, Except.pure]⟩
  · exact ⟨c, by simp only [h1, if_false, Bool.false_eq_true, pure, Except.pure]⟩

/-! ## xquery helpers are frame-preserving and fault-free -/

/-- what a helper may not touch: the id, the flags, presence in the table -/
def Frame (c c' : Ctx) : Prop :=
  c'.req.client = c.req.client ∧ c'.req.flags = c.req.flags ∧ c'.gone = c.gone

theorem Frame.refl (c : Ctx) : Frame c c := ⟨rfl, rfl, rfl⟩
theorem Frame.trans {a b c : Ctx} (h1 : Frame a b) (h2 : Frame b c) : Frame a c :=
  ⟨h2.1.trans h1.1, h2.2.1.trans h1.2.1, h2.2.2.trans h1.2.2⟩

theorem xqTake_frame (c : Ctx) (srv : Svc) (cli : XqCli) (i : Nat) : Frame c (xqTake c srv cli i) := by
  unfold xqTake
  dsimp only
  split <;> simp [Frame, updReq]

theorem xqCheckSlot_frame (p : Bool) (c : Ctx) (cli : XqCli) (i : Nat) : Frame c (xqCheckSlot p c cli i).1 := by
  unfold xqCheckSlot
  split
  · exact Frame.refl c
  · split
    · exact Frame.refl c
    · dsimp only
      refine Frame.trans ?_ (xqTake_frame _ _ _ _)
      simp [Frame]

theorem xqCheckLoop_frame (p : Bool) (is : List Nat) (c : Ctx) (cli : XqCli) : Frame c (xqCheckLoop p is c cli).1 := by
  induction is generalizing c cli with
  | nil => exact Frame.refl c
  | cons i is ih =>
    unfold xqCheckLoop
    exact (xqCheckSlot_frame p c cli i).trans (ih _ _)

theorem xqCheck_frame (p : Bool) (c : Ctx) : Frame c (xqCheck p c) := by
  unfold xqCheck
  split
  · exact Frame.refl c
  · have := xqCheckLoop_frame p (List.range c.svcs.length) c ‹XqCli›
    simp only [Frame, updReq] at this ⊢
    exact this

theorem xqCheckPassword_frame (c : Ctx) (cli : XqCli) (pw : Bytes) : Frame c (xqCheckPassword c cli pw) := by
  unfold xqCheckPassword
  split
  · exact Frame.refl c
  · dsimp only
    refine Frame.trans ?_ (xqCheck_frame true _)
    simp [Frame, updReq]

theorem xqMoreLoop_frame (pw : Bytes) (is : List Nat) (c : Ctx) (cli : XqCli) : Frame c (xqMoreLoop pw is c cli).1 := by
  induction is generalizing c cli with
  | nil => exact Frame.refl c
  | cons i is ih =>
    unfold xqMoreLoop
    split
    · exact ih _ _
    · split
      · exact ih _ _
      · split
        · exact ih _ _
        · refine Frame.trans ?_ (ih _ _)
          split <;> simp [Frame, updReq, Ctx.emit]

theorem xqPassword_frame (c c' : Ctx) (pw : Option Bytes) (h : xqPassword c pw = .ok c') : Frame c c' := by
  unfold xqPassword at h
  split at h
  · simp only [pure, Except.pure, Except.ok.injEq] at h; subst h; exact Frame.refl c
  · split at h
    · split at h
      · cases h
      · simp only [pure, Except.pure, Except.ok.injEq] at h; subst h; exact xqCheckPassword_frame _ _ _
    · simp only [pure, Except.pure, Except.ok.injEq] at h
      subst h
      have := xqMoreLoop_frame (pw.getD (b "(null)")) (List.range c.svcs.length) c ‹XqCli›
      simp only [Frame, updReq] at this ⊢
      exact this

theorem xqPassword_ok (c : Ctx) (pw : Bytes) : ∃ c', xqPassword c (some pw) = .ok c' := by
  unfold xqPassword
  split
  · exact ⟨_, rfl⟩
  · split <;> exact ⟨_, rfl⟩

/-! ## replies -/

/-- outcome shape shared by every handler that ends in the gate or a verdict -/
def Outcome (c c' : Ctx) : Prop :=
  c'.req.client = c.req.client ∧
    (c'.gone = true ∨ (c'.gone = c.gone ∧ c'.req.flags.responded = c.req.flags.responded))

theorem Outcome.of_frame_gate {st : Static} {c c1 c' : Ctx} (hf : Frame c c1) (hg : gate st c1 = .ok c') :
    Outcome c c' := by
  have := gate_spec st _ _ hg
  refine ⟨this.1.trans hf.1, ?_⟩
  rcases this.2 with h | ⟨h1, h2⟩
  · exact Or.inl h
  · exact Or.inr ⟨h1.trans hf.2.2, by rw [h2, hf.2.1]⟩

theorem unrefSvc_frame (c : Ctx) (i : Nat) : Frame c (unrefSvc c i) := by
  unfold unrefSvc
  split
  · split <;> simp [Frame]
  · exact Frame.refl c

/-- the context `xqFinish` hands to the gate -/
def xqFinishPre (i : Nat) (c : Ctx) (cli : XqCli) (srv : Svc) : Ctx :=
  let cli := { cli with ref := maskDel cli.ref i }
  let srv := { srv with refs := srv.refs - 1 }
  let c := { c with svcs := setSvc c.svcs i (some srv) }
  let c := if srv.refs == 0 then unrefSvc c i else c
  let c := if cli.ref.isEmpty then updReq c fun r => { r with soft := r.soft - 1 } else c
  updReq c fun r => { r with xq := some cli }

theorem xqFinish_eq (st : Static) (i : Nat) (c : Ctx) (cli : XqCli) (srv : Svc) :
    xqFinish st i c cli srv = gate st (xqFinishPre i c cli srv) := rfl

@[simp] theorem unrefSvc_req (c : Ctx) (i : Nat) : (unrefSvc c i).req = c.req := by
  unfold unrefSvc; split <;> (try split) <;> rfl
@[simp] theorem unrefSvc_gone (c : Ctx) (i : Nat) : (unrefSvc c i).gone = c.gone := by
  unfold unrefSvc; split <;> (try split) <;> rfl

theorem xqFinishPre_frame (i : Nat) (c : Ctx) (cli : XqCli) (srv : Svc) : Frame c (xqFinishPre i c cli srv) := by
  unfold xqFinishPre
  dsimp only
  split <;> split <;> simp [Frame, updReq]

theorem xqFinish_spec (st : Static) (i : Nat) (c c' : Ctx) (cli : XqCli) (srv : Svc)
    (h : xqFinish st i c cli srv = .ok c') : Outcome c c' := by
  rw [xqFinish_eq] at h
  exact Outcome.of_frame_gate (xqFinishPre_frame i c cli srv) h

theorem xqFinish_ok (st : Static) (hwf : st.wf) (i : Nat) (c : Ctx) (cli : XqCli) (srv : Svc) :
    ∃ c', xqFinish st i c cli srv = .ok c' := by
  rw [xqFinish_eq]; exact gate_ok st hwf _

theorem xqVouch_frame (c : Ctx) (cli : XqCli) (stamp : Bytes) : Frame c (xqVouch c cli stamp) := by
  unfold xqVouch
  dsimp only
  split <;> split <;> simp [Frame, updReq, Ctx.emit]

theorem Outcome.of_frame {c c1 c' : Ctx} (hf : Frame c c1) (ho : Outcome c1 c') : Outcome c c' := by
  refine ⟨ho.1.trans hf.1, ?_⟩
  rcases ho.2 with h | ⟨h1, h2⟩
  · exact Or.inl h
  · exact Or.inr ⟨h1.trans hf.2.2, by rw [h2, hf.2.1]⟩

theorem Outcome.refl (c : Ctx) : Outcome c c := ⟨rfl, Or.inr ⟨rfl, rfl⟩⟩

theorem emit_frame (c : Ctx) (l : Bytes) : Frame c (c.emit l) := by simp [Frame, Ctx.emit]

theorem xqReply_spec (st : Static) (c c' : Ctx) (svc : Bytes) (reply : Option Bytes)
    (h : xqReply st c svc reply = .ok c') : Outcome c c' := by
  unfold xqReply at h
  split at h
  · simp only [pure, Except.pure, Except.ok.injEq] at h; subst h; exact Outcome.refl c
  · split at h
    · simp only [pure, Except.pure, Except.ok.injEq] at h; subst h; exact Outcome.refl c
    · split at h
      · dsimp only at h
        split at h
        · exact Outcome.of_frame (emit_frame _ _) (xqFinish_spec _ _ _ _ _ _ h)
        · exact xqFinish_spec _ _ _ _ _ _ h
      · split at h
        · exact xqFinish_spec _ _ _ _ _ _ h
        · dsimp only at h
          split at h
          · exact Outcome.of_frame (xqVouch_frame _ _ _) (xqFinish_spec _ _ _ _ _ _ h)
          · exact xqFinish_spec _ _ _ _ _ _ h
        · split at h
          · have := kill_spec _ _ _ h
            exact ⟨this.1, Or.inl this.2⟩
          · split at h
            · exact Outcome.of_frame (emit_frame _ _) (xqFinish_spec _ _ _ _ _ _ h)
            · split at h
              · exact Outcome.of_frame (emit_frame _ _) (xqFinish_spec _ _ _ _ _ _ h)
              · simp only [pure, Except.pure, Except.ok.injEq] at h; subst h; exact Outcome.refl c

theorem xqReply_ok (st : Static) (hwf : st.wf) (c : Ctx) (svc : Bytes) (reply : Option Bytes)
    (hr : c.req.flags.responded = false) : ∃ c', xqReply st c svc reply = .ok c' := by
  unfold xqReply
  split
  · exact ⟨_, rfl⟩
  · split
    · exact ⟨_, rfl⟩
    · split
      · exact xqFinish_ok st hwf _ _ _ _
      · split
        · exact xqFinish_ok st hwf _ _ _ _
        · dsimp only
          split <;> exact xqFinish_ok st hwf _ _ _ _
        · split
          · exact kill_ok _ _ hr
          · split
            · exact xqFinish_ok st hwf _ _ _ _
            · split
              · exact xqFinish_ok st hwf _ _ _ _
              · exact ⟨_, rfl⟩

/-! ## server events on one request -/

/-- weaker than `Frame`: flags other than RESPONDED may change -/
def Keep (c c' : Ctx) : Prop :=
  c'.req.client = c.req.client ∧ c'.req.flags.responded = c.req.flags.responded ∧ c'.gone = c.gone

theorem Frame.keep {c c' : Ctx} (h : Frame c c') : Keep c c' := ⟨h.1, by rw [h.2.1], h.2.2⟩
theorem Keep.trans {a b c : Ctx} (h1 : Keep a b) (h2 : Keep b c) : Keep a c :=
  ⟨h2.1.trans h1.1, h2.2.1.trans h1.2.1, h2.2.2.trans h1.2.2⟩

theorem Outcome.of_keep_gate {st : Static} {c c1 c' : Ctx} (hk : Keep c c1) (hg : gate st c1 = .ok c') :
    Outcome c c' := by
  have := gate_spec st _ _ hg
  refine ⟨this.1.trans hk.1, ?_⟩
  rcases this.2 with h | ⟨h1, h2⟩
  · exact Or.inl h
  · exact Or.inr ⟨h1.trans hk.2.2, h2.trans hk.2.1⟩

theorem fieldChange_frame (st : Static) (p : Bool) (c : Ctx) : Frame c (fieldChange st p c) := by
  unfold fieldChange; split
  · exact xqCheck_frame p c
  · exact Frame.refl c

/-- the parameters the dispatcher guarantees to be present -/
def Ev.argsPresent : Ev → Prop
  | .hostname none => False
  | .nick none => False
  | .password none => False
  | _ => True

theorem reqEvent_spec (st : Static) (hwf : st.wf) (c c' : Ctx) (ev : Ev) (h : reqEvent st c ev = .ok c') : Outcome c c' := by
  cases ev with
  | hostname hn =>
    simp only [reqEvent] at h
    split at h
    · simp only [pure, Except.pure, Except.ok.injEq] at h; subst h; exact Outcome.refl c
    · split at h
      · cases h
      · refine Outcome.of_keep_gate ?_ h
        refine Keep.trans ?_ (fieldChange_frame st false _).keep
        simp [Keep, updReq]
  | noHostname =>
    simp only [reqEvent] at h
    refine Outcome.of_keep_gate ?_ h
    refine Keep.trans ?_ (fieldChange_frame st false _).keep
    simp [Keep, updReq]
  | password p =>
    simp only [reqEvent, bind, Except.bind] at h
    have hk0 : Keep c (updReq c fun r => { r with flags := { r.flags with gotPass := true } }) := by simp [Keep, updReq]
    by_cases hx : st.hasXq = true
    · simp only [hx, if_true] at h
      split at h
      · cases h
      · rename_i c1 hc1
        exact Outcome.of_keep_gate (hk0.trans (xqPassword_frame _ _ _ hc1).keep) h
    · simp only [hx, if_false, Bool.false_eq_true, pure, Except.pure] at h
      exact Outcome.of_keep_gate hk0 h
  | userInfo u r =>
    simp only [reqEvent] at h
    refine Outcome.of_keep_gate ?_ h
    refine Keep.trans ?_ (fieldChange_frame st false _).keep
    simp only [Keep, updReq]
    split <;> simp
  | ident i =>
    simp only [reqEvent] at h
    refine Outcome.of_keep_gate ?_ h
    refine Keep.trans ?_ (fieldChange_frame st false _).keep
    simp only [Keep, updReq]
    split
    · simp
    · split <;> simp
  | nick n =>
    simp only [reqEvent] at h
    split at h
    · cases h
    · refine Outcome.of_keep_gate ?_ h
      refine Keep.trans ?_ (fieldChange_frame st false _).keep
      simp [Keep, updReq]
  | hurry =>
    simp only [reqEvent] at h
    refine Outcome.of_keep_gate ?_ h
    refine Keep.trans ?_ (fieldChange_frame st false _).keep
    simp [Keep, updReq, Flags.or, hwf.noResp]
  | timeout =>
    simp only [reqEvent] at h
    refine Outcome.of_keep_gate ?_ h
    simp [Keep, updReq]

theorem reqEvent_ok (st : Static) (hwf : st.wf) (c : Ctx) (ev : Ev) (hev : ev.argsPresent) :
    ∃ c', reqEvent st c ev = .ok c' := by
  cases ev with
  | hostname hn =>
    cases hn with
    | none => exact absurd hev (by simp [Ev.argsPresent])
    | some hn =>
      simp only [reqEvent]
      split
      · exact ⟨_, rfl⟩
      · exact gate_ok st hwf _
  | noHostname => simp only [reqEvent]; exact gate_ok st hwf _
  | password p =>
    cases p with
    | none => exact absurd hev (by simp [Ev.argsPresent])
    | some p =>
      simp only [reqEvent, bind, Except.bind]
      by_cases hx : st.hasXq = true
      · obtain ⟨c1, h1⟩ := xqPassword_ok (updReq c fun r => { r with flags := { r.flags with gotPass := true } }) p
        simp only [hx, if_true, h1]
        exact gate_ok st hwf _
      · simp only [hx, if_false, Bool.false_eq_true, pure, Except.pure]
        exact gate_ok st hwf _
  | userInfo u r => simp only [reqEvent]; exact gate_ok st hwf _
  | ident i => simp only [reqEvent]; exact gate_ok st hwf _
  | nick n =>
    cases n with
    | none => exact absurd hev (by simp [Ev.argsPresent])
    | some n => simp only [reqEvent]; exact gate_ok st hwf _
  | hurry => simp only [reqEvent]; exact gate_ok st hwf _
  | timeout => simp only [reqEvent]; exact gate_ok st hwf _

end Iauthd.Proto
