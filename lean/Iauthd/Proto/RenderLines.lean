import Iauthd.Proto.RenderHex
/-
  C09 (model part), lines that are not client-directed: queries (`X`), global reports
  (`V a A O s S >`).
-/
set_option linter.unusedSimpArgs false
set_option linter.unusedVariables false
namespace Iauthd.Proto
open Iauthd Iauthd.Proto.Hist

theorem b_X : b "X " = [88, 32] := by decide
theorem b_colon : b " :" = [32, 58] := by decide

theorem xquery_eq (svc tag payload : Bytes) :
    xquery svc tag payload = (joinSp [[88], svc, tag] ++ 32 :: 58 :: payload.take 1023).take 1023 := by
  unfold xquery sendRaw truncBuf sp
  rw [b_X, b_colon]
  simp [joinSp, List.append_assoc]

/-- a query line is a well-formed `X <service> <routing tag> :<payload>` -/
theorem xquery_wellFormed {svc tag payload : Bytes} (hsvc : Word svc) (hsc : Clean svc) (hsl : svc.length ≤ 900)
    (htag : Word tag) (htc : Clean tag) (htl : tag.length ≤ 17) (htagOf : (tagOf tag).isSome = true)
    (hp : Clean payload) : wellFormed (xquery svc tag payload) = true := by
  rw [xquery_eq]
  have hX : Word ([88] : Bytes) := ⟨by simp, by intro c hc; simp at hc; subst hc; decide, by simp⟩
  have hW : ∀ w ∈ ([[88], svc, tag] : List Bytes), Word w := by
    intro w hw
    simp only [List.mem_cons, List.not_mem_nil, or_false] at hw
    rcases hw with rfl | rfl | rfl
    · exact hX
    · exact hsvc
    · exact htag
  have hlen : (joinSp [[88], svc, tag]).length + 2 ≤ 1023 := by
    simp only [joinSp, List.length_append, List.length_cons, List.length_nil]; omega
  rw [take_joinSp_trailing _ _ _ hlen]
  have ht := otokens_joinSp_trailing [[88], svc, tag] 16
    ((payload.take 1023).take (1023 - ((joinSp [[88], svc, tag]).length + 2))) (by simp) hW (by simp)
  have hC : Clean (joinSp [[88], svc, tag] ++ 32 :: 58 ::
      (payload.take 1023).take (1023 - ((joinSp [[88], svc, tag]).length + 2))) := by
    apply Clean.append
    · apply Clean.joinSp
      intro w hw
      simp only [List.mem_cons, List.not_mem_nil, or_false] at hw
      rcases hw with rfl | rfl | rfl
      · intro c hc; simp at hc; subst hc; decide
      · exact hsc
      · exact htc
    · exact Clean.cons (by decide) (by decide) (Clean.cons (by decide) (by decide) ((hp.take _).take _))
  unfold wellFormed parseOut
  rw [contains_false_of_clean hC]
  simp only [Bool.false_eq_true, if_false, ht, List.cons_append, List.nil_append]
  have hnc : clientLetters.contains (88 : UInt8) = false := by decide
  cases htg : tagOf tag with
  | none => rw [htg] at htagOf; cases htagOf
  | some v =>
    obtain ⟨cid, serial⟩ := v
    have h88 : (88 : UInt8) ∉ clientLetters := by decide
    simp [hnc, htg, h88]

/-- a global line: one of the letters `V a A O s > G`, alone or followed by a blank and anything
    that may travel in a line -/
theorem global_wellFormed (c : UInt8) (hc : c = 86 ∨ c = 97 ∨ c = 65 ∨ c = 79 ∨ c = 115 ∨ c = 62 ∨ c = 71)
    (tail : Bytes) (ht : tail = [] ∨ ∃ x, tail = 32 :: x) (hcl : Clean tail) :
    wellFormed ((c :: tail).take 1023) = true := by
  have hw : Word ([c] : Bytes) := by
    refine ⟨by simp, ?_, ?_⟩
    · intro x hx; simp at hx; subst hx
      rcases hc with rfl | rfl | rfl | rfl | rfl | rfl | rfl <;> decide
    · simp only [List.head?_cons, ne_eq, Option.some.injEq]
      rcases hc with rfl | rfl | rfl | rfl | rfl | rfl | rfl <;> decide
  have hcc : Clean ([c] : Bytes) := by
    intro x hx; simp at hx; subst hx
    rcases hc with rfl | rfl | rfl | rfl | rfl | rfl | rfl <;> decide
  have hC : Clean ((c :: tail).take 1023) := (Clean.append hcc hcl).take _
  have htoks : ∃ rest, otokens 16 ((c :: tail).take 1023) = [c] :: rest := by
    rcases ht with rfl | ⟨x, rfl⟩
    · exact ⟨[], by simpa using otokens_word_end hw 15⟩
    · have : (c :: 32 :: x).take 1023 = [c] ++ 32 :: x.take 1021 := by simp [List.take]
      rw [this, otokens_word_sp hw]
      exact ⟨_, rfl⟩
  obtain ⟨rest, hr⟩ := htoks
  unfold wellFormed parseOut
  rw [contains_false_of_clean hC]
  simp only [Bool.false_eq_true, if_false, hr]
  have hn : c ∉ clientLetters := by
    rcases hc with rfl | rfl | rfl | rfl | rfl | rfl | rfl <;> decide
  have hin : c ∈ b "VaAOs>G" := by
    rcases hc with rfl | rfl | rfl | rfl | rfl | rfl | rfl <;> decide
  have h88 : c ≠ 88 := by
    rcases hc with rfl | rfl | rfl | rfl | rfl | rfl | rfl <;> decide
  have h83 : c ≠ 83 := by
    rcases hc with rfl | rfl | rfl | rfl | rfl | rfl | rfl <;> decide
  simp [hn, hin, h88, h83]

/-- a statistics line `S <module> :<text>` -/
theorem stats_wellFormed {m text : Bytes} (hm : Word m) (hmc : Clean m) (hml : m.length ≤ 100) (ht : Clean text) :
    wellFormed ((joinSp [[83], m] ++ 32 :: 58 :: text).take 1023) = true := by
  have hS : Word ([83] : Bytes) := ⟨by simp, by intro c hc; simp at hc; subst hc; decide, by simp⟩
  have hW : ∀ w ∈ ([[83], m] : List Bytes), Word w := by
    intro w hw
    simp only [List.mem_cons, List.not_mem_nil, or_false] at hw
    rcases hw with rfl | rfl
    · exact hS
    · exact hm
  have hlen : (joinSp [[83], m]).length + 2 ≤ 1023 := by
    simp only [joinSp, List.length_append, List.length_cons, List.length_nil]; omega
  rw [take_joinSp_trailing _ _ _ hlen]
  have htk := otokens_joinSp_trailing [[83], m] 16 (text.take (1023 - ((joinSp [[83], m]).length + 2))) (by simp) hW (by simp)
  have hC : Clean (joinSp [[83], m] ++ 32 :: 58 :: text.take (1023 - ((joinSp [[83], m]).length + 2))) := by
    apply Clean.append
    · apply Clean.joinSp
      intro w hw
      simp only [List.mem_cons, List.not_mem_nil, or_false] at hw
      rcases hw with rfl | rfl
      · intro c hc; simp at hc; subst hc; decide
      · exact hmc
    · exact Clean.cons (by decide) (by decide) (Clean.cons (by decide) (by decide) (ht.take _))
  unfold wellFormed parseOut
  rw [contains_false_of_clean hC]
  simp only [Bool.false_eq_true, if_false, htk, List.cons_append, List.nil_append]
  have hnc : clientLetters.contains (83 : UInt8) = false := by decide
  have h83 : (83 : UInt8) ∉ clientLetters := by decide
  simp [hnc, h83]

end Iauthd.Proto
