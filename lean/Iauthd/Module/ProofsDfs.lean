import Iauthd.Module.ProofsLoad
/-
  The post-init walk with the repaired `module_dfs` (`dfsFixed`, `dfsLoop`,
  `walkRoots`, `postInitPhase`).

  Facts that hold for every graph: the walk terminates within its fuel, a positive
  mark means "post-init done, and so is everything reachable from here", hence no
  module on a dependency cycle ever gets a positive mark or a post-init.
  Under `ac` (a rank function decreasing along edges) the walk never reports a loop.
-/
set_option linter.unusedSectionVars false
set_option linter.unusedSimpArgs false
set_option linter.unusedVariables false

namespace Iauthd.Module

section
variable {α : Type} [DecidableEq α]

/-- same modules in the same order, same `depends` and handles, `rdepends` equal as sets -/
def Sim (s s' : St α) : Prop :=
  names s'.mods = names s.mods ∧
  ∀ a r, find? a s.mods = some r → ∃ r', find? a s'.mods = some r' ∧ r'.depends = r.depends ∧
          r'.handle = r.handle ∧ ∀ x, x ∈ r'.rdepends ↔ x ∈ r.rdepends

theorem Sim.refl (s : St α) : Sim s s :=
  ⟨rfl, fun _ r h => ⟨r, h, rfl, rfl, fun _ => Iff.rfl⟩⟩

theorem Sim.trans {s1 s2 s3 : St α} (h12 : Sim s1 s2) (h23 : Sim s2 s3) : Sim s1 s3 := by
  refine ⟨h23.1.trans h12.1, ?_⟩
  intro a r hr
  obtain ⟨r2, hr2, hd2, hh2, hx2⟩ := h12.2 a r hr
  obtain ⟨r3, hr3, hd3, hh3, hx3⟩ := h23.2 a r2 hr2
  exact ⟨r3, hr3, hd3.trans hd2, hh3.trans hh2, fun x => (hx3 x).trans (hx2 x)⟩

theorem Sim.names {s s' : St α} (h : Sim s s') (a : α) : a ∈ names s'.mods ↔ a ∈ names s.mods := by
  rw [h.1]

/-- and back: a record of `s'` comes from a record of `s` -/
theorem Sim.back {s s' : St α} (h : Sim s s') {a : α} {r' : Rec α} (hr' : find? a s'.mods = some r') :
    ∃ r, find? a s.mods = some r ∧ r'.depends = r.depends ∧ r'.handle = r.handle ∧
      ∀ x, x ∈ r'.rdepends ↔ x ∈ r.rdepends := by
  have ha : a ∈ Iauthd.Module.names s.mods := (h.names a).mp (mem_names_of_find? hr')
  obtain ⟨r, hr⟩ := mem_names_iff.mp ha
  obtain ⟨r2, hr2, hd, hh, hx⟩ := h.2 a r hr
  rw [hr'] at hr2
  injection hr2 with e
  subst e
  exact ⟨r, hr, hd, hh, hx⟩

/-- number of modules that no walk has entered yet (the fuel measure) -/
def unvis (s : St α) : Nat := (s.mods.filter (fun r => decide (r.visited = 0))).length

def NoCyclePI (G : α → List α) (s : St α) : Prop := ∀ a, Event.postInit a ∈ s.log → ¬ Reach1 G a a

variable (G : α → List α)

structure DInv (L : List α) (ac : Prop) (v : Int) (s : St α) : Prop where
  nodup : (names s.mods).Nodup
  handle : ∀ a r, find? a s.mods = some r → r.handle = true
  deps : ∀ a r, find? a s.mods = some r → r.depends = G a
  deps_in : ∀ a, a ∈ names s.mods → ∀ d, d ∈ G a → d ∈ names s.mods
  loaded : ∀ a, a ∈ names s.mods → Loaded G L a
  marks : ∀ a r, find? a s.mods = some r → r.visited = 0 ∨ r.visited > 0 ∨ r.visited = -v
  closed : ∀ a r, find? a s.mods = some r → r.visited > 0 →
            ∀ d, d ∈ G a → ∀ rd, find? d s.mods = some rd → rd.visited > 0
  nocyc : ∀ a r, find? a s.mods = some r → r.visited > 0 → ¬ Reach1 G a a
  pi_iff : ∀ a, Event.postInit a ∈ s.log ↔ ∃ r, find? a s.mods = some r ∧ r.visited > 0
  ended : ∀ a, a ∈ names s.mods → Event.ctorEnd a ∈ s.log
  nodtor : ∀ a, Event.dtor a ∉ s.log
  begun : ∀ a, Event.ctorBegin a ∈ s.log ↔ a ∈ names s.mods
  wo : ac → wo G s.log = true

variable {G}

theorem DInv.noCyclePI {L : List α} {ac : Prop} {v : Int} {s : St α} (h : DInv G L ac v s) : NoCyclePI G s := by
  intro a ha
  obtain ⟨r, hr, hv⟩ := (h.pi_iff a).mp ha
  exact h.nocyc a r hr hv

/-- everything reachable from a finished module is finished -/
theorem DInv.done_reach {L : List α} {ac : Prop} {v : Int} {s : St α} (h : DInv G L ac v s) {b x : α}
    (hb : ∃ r, find? b s.mods = some r ∧ r.visited > 0) (hr : Reach G b x) :
    ∃ r, find? x s.mods = some r ∧ r.visited > 0 := by
  induction hr with
  | refl => exact hb
  | tail _ hc ih =>
    obtain ⟨r, hr, hv⟩ := ih
    have hcn := h.deps_in _ (mem_names_of_find? hr) _ hc
    obtain ⟨rc, hrc⟩ := mem_names_iff.mp hcn
    exact ⟨rc, hrc, h.closed _ r hr hv _ hc rc hrc⟩

/-! ### changing one mark -/

def markStep (m : α) (x : Int) (s : St α) : St α := { s with mods := modify m (setVisited x) s.mods }

theorem find?_mark (a m : α) (x : Int) (s : St α) :
    find? a (markStep m x s).mods = (find? a s.mods).map (fun r => if a = m then setVisited x r else r) := by
  unfold markStep
  simp only
  rw [find?_modify' (by simp)]

theorem find?_mark_self {m : α} {x : Int} {s : St α} {r : Rec α} (h : find? m s.mods = some r) :
    find? m (markStep m x s).mods = some (setVisited x r) := by
  rw [find?_mark, h]; simp

theorem find?_mark_other {a m : α} {x : Int} {s : St α} (h : a ≠ m) :
    find? a (markStep m x s).mods = find? a s.mods := by
  rw [find?_mark]
  cases find? a s.mods <;> simp [h]

theorem names_mark (m : α) (x : Int) (s : St α) : names (markStep m x s).mods = names s.mods := by
  unfold markStep
  simp only
  rw [names_modify (by simp)]

theorem sim_mark (m : α) (x : Int) (s : St α) : Sim s (markStep m x s) := by
  refine ⟨names_mark m x s, ?_⟩
  intro a r hr
  by_cases e : a = m
  · subst e
    exact ⟨setVisited x r, find?_mark_self hr, rfl, rfl, fun _ => Iff.rfl⟩
  · exact ⟨r, by rw [find?_mark_other e]; exact hr, rfl, rfl, fun _ => Iff.rfl⟩

theorem unvis_mark_lt {m : α} {x : Int} {s : St α} {r : Rec α} (h : find? m s.mods = some r)
    (h0 : r.visited = 0) (hx : x ≠ 0) : unvis (markStep m x s) < unvis s := by
  unfold unvis markStep modify
  simp only
  apply length_filter_map_lt
  · intro q _ hq
    by_cases e : q.name = m
    · simp [e, setVisited] at hq; exact absurd hq hx
    · simpa [e] using hq
  · refine ⟨r, find?_mem h, by simp [h0], ?_⟩
    simp [find?_name h, setVisited, hx]

theorem unvis_mark_le {m : α} {x : Int} {s : St α} (hx : x ≠ 0) : unvis (markStep m x s) ≤ unvis s := by
  unfold unvis markStep modify
  simp only
  apply length_filter_map_le
  intro q _ hq
  by_cases e : q.name = m
  · simp [e, setVisited] at hq; exact absurd hq hx
  · simpa [e] using hq

/-! ### entering and leaving a module -/

theorem DInv.enter {L : List α} {ac : Prop} {v : Int} {s : St α} (h : DInv G L ac v s) (hv : v > 0)
    {m : α} {r : Rec α} (hr : find? m s.mods = some r) (h0 : r.visited = 0) :
    DInv G L ac v (markStep m (-v) s) := by
  have hlog : (markStep m (-v) s).log = s.log := rfl
  have hn := names_mark m (-v) s
  -- a record of the new state and where it came from
  have hfrom : ∀ a r', find? a (markStep m (-v) s).mods = some r' →
      ∃ r0, find? a s.mods = some r0 ∧ r'.depends = r0.depends ∧ r'.handle = r0.handle ∧
        ((a = m ∧ r'.visited = -v) ∨ (a ≠ m ∧ r'.visited = r0.visited)) := by
    intro a r' hr'
    rw [find?_mark, Option.map_eq_some_iff] at hr'
    obtain ⟨r0, hr0, e⟩ := hr'
    refine ⟨r0, hr0, ?_⟩
    by_cases ea : a = m
    · simp only [ea, if_true] at e; subst e
      exact ⟨rfl, rfl, Or.inl ⟨ea, rfl⟩⟩
    · simp only [ea, if_false] at e; subst e
      exact ⟨rfl, rfl, Or.inr ⟨ea, rfl⟩⟩
  constructor
  · rw [hn]; exact h.nodup
  · intro a r' hr'
    obtain ⟨r0, hr0, _, hh, _⟩ := hfrom a r' hr'
    rw [hh]; exact h.handle a r0 hr0
  · intro a r' hr'
    obtain ⟨r0, hr0, hd, _, _⟩ := hfrom a r' hr'
    rw [hd]; exact h.deps a r0 hr0
  · intro a ha d hd; rw [hn] at ha ⊢; exact h.deps_in a ha d hd
  · intro a ha; rw [hn] at ha; exact h.loaded a ha
  · intro a r' hr'
    obtain ⟨r0, hr0, _, _, hc⟩ := hfrom a r' hr'
    rcases hc with ⟨_, hc⟩ | ⟨_, hc⟩
    · exact Or.inr (Or.inr hc)
    · rw [hc]; exact h.marks a r0 hr0
  · intro a r' hr' hpos d hd rd' hrd'
    obtain ⟨r0, hr0, _, _, hc⟩ := hfrom a r' hr'
    obtain ⟨rd0, hrd0, _, _, hcd⟩ := hfrom d rd' hrd'
    rcases hc with ⟨_, hc⟩ | ⟨_, hc⟩
    · omega
    · rw [hc] at hpos
      have := h.closed a r0 hr0 hpos d hd rd0 hrd0
      rcases hcd with ⟨ed, _⟩ | ⟨_, hcd⟩
      · subst ed
        rw [hr] at hrd0; injection hrd0 with e; subst e
        omega
      · rw [hcd]; exact this
  · intro a r' hr' hpos
    obtain ⟨r0, hr0, _, _, hc⟩ := hfrom a r' hr'
    rcases hc with ⟨_, hc⟩ | ⟨_, hc⟩
    · omega
    · rw [hc] at hpos; exact h.nocyc a r0 hr0 hpos
  · intro a
    rw [hlog, h.pi_iff a]
    constructor
    · rintro ⟨r0, hr0, hpos⟩
      have hne : a ≠ m := by
        rintro rfl
        rw [hr] at hr0; injection hr0 with e; subst e; omega
      exact ⟨r0, by rw [find?_mark_other hne]; exact hr0, hpos⟩
    · rintro ⟨r', hr', hpos⟩
      obtain ⟨r0, hr0, _, _, hc⟩ := hfrom a r' hr'
      rcases hc with ⟨_, hc⟩ | ⟨_, hc⟩
      · omega
      · exact ⟨r0, hr0, hc ▸ hpos⟩
  · intro a ha; rw [hn] at ha; rw [hlog]; exact h.ended a ha
  · rw [hlog]; exact h.nodtor
  · intro a; rw [hlog, hn]; exact h.begun a
  · rw [hlog]; exact h.wo

theorem DInv.finish {L : List α} {ac : Prop} {v : Int} {s : St α} (h : DInv G L ac v s) (hv : v > 0)
    {m : α} {r : Rec α} (hr : find? m s.mods = some r) (hm : r.visited = -v)
    (hdeps : ∀ d, d ∈ G m → ∃ rd, find? d s.mods = some rd ∧ rd.visited > 0) :
    DInv G L ac v (markStep m v (logEv (Event.postInit m) s)) := by
  have hlog : (markStep m v (logEv (Event.postInit m) s)).log = Event.postInit m :: s.log := rfl
  have hmods : (logEv (Event.postInit m) s).mods = s.mods := rfl
  have hn : names (markStep m v (logEv (Event.postInit m) s)).mods = names s.mods := by
    rw [names_mark, hmods]
  have hfrom : ∀ a r', find? a (markStep m v (logEv (Event.postInit m) s)).mods = some r' →
      ∃ r0, find? a s.mods = some r0 ∧ r'.depends = r0.depends ∧ r'.handle = r0.handle ∧
        ((a = m ∧ r'.visited = v) ∨ (a ≠ m ∧ r'.visited = r0.visited)) := by
    intro a r' hr'
    rw [find?_mark, hmods, Option.map_eq_some_iff] at hr'
    obtain ⟨r0, hr0, e⟩ := hr'
    refine ⟨r0, hr0, ?_⟩
    by_cases ea : a = m
    · simp only [ea, if_true] at e; subst e
      exact ⟨rfl, rfl, Or.inl ⟨ea, rfl⟩⟩
    · simp only [ea, if_false] at e; subst e
      exact ⟨rfl, rfl, Or.inr ⟨ea, rfl⟩⟩
  have hmn : m ∈ names s.mods := mem_names_of_find? hr
  have hnotpi : Event.postInit m ∉ s.log := by
    intro hp
    obtain ⟨r0, hr0, hpos⟩ := (h.pi_iff m).mp hp
    rw [hr] at hr0; injection hr0 with e; subst e; omega
  constructor
  · rw [hn]; exact h.nodup
  · intro a r' hr'
    obtain ⟨r0, hr0, _, hh, _⟩ := hfrom a r' hr'
    rw [hh]; exact h.handle a r0 hr0
  · intro a r' hr'
    obtain ⟨r0, hr0, hd, _, _⟩ := hfrom a r' hr'
    rw [hd]; exact h.deps a r0 hr0
  · intro a ha d hd; rw [hn] at ha ⊢; exact h.deps_in a ha d hd
  · intro a ha; rw [hn] at ha; exact h.loaded a ha
  · intro a r' hr'
    obtain ⟨r0, hr0, _, _, hc⟩ := hfrom a r' hr'
    rcases hc with ⟨_, hc⟩ | ⟨_, hc⟩
    · exact Or.inr (Or.inl (hc ▸ hv))
    · rw [hc]; exact h.marks a r0 hr0
  · intro a r' hr' hpos d hd rd' hrd'
    obtain ⟨r0, hr0, _, _, hc⟩ := hfrom a r' hr'
    obtain ⟨rd0, hrd0, _, _, hcd⟩ := hfrom d rd' hrd'
    rcases hcd with ⟨_, hcd⟩ | ⟨_, hcd⟩
    · rw [hcd]; exact hv
    · rw [hcd]
      rcases hc with ⟨ea, _⟩ | ⟨_, hc⟩
      · subst ea
        obtain ⟨rd1, hrd1, hp1⟩ := hdeps d hd
        rw [hrd0] at hrd1; injection hrd1 with e; subst e
        exact hp1
      · rw [hc] at hpos
        exact h.closed a r0 hr0 hpos d hd rd0 hrd0
  · intro a r' hr' hpos
    obtain ⟨r0, hr0, _, _, hc⟩ := hfrom a r' hr'
    rcases hc with ⟨ea, _⟩ | ⟨_, hc⟩
    · subst ea
      intro hcyc
      obtain ⟨b, hb, hbr⟩ := hcyc.to_head
      obtain ⟨rm, hrm, hpm⟩ := h.done_reach (hdeps b hb) hbr
      rw [hr] at hrm; injection hrm with e; subst e; omega
    · rw [hc] at hpos; exact h.nocyc a r0 hr0 hpos
  · intro a
    rw [hlog]
    simp only [List.mem_cons, Event.postInit.injEq]
    constructor
    · rintro (ea | hp)
      · subst ea
        exact ⟨setVisited v r, by rw [find?_mark_self (by rw [hmods]; exact hr)], hv⟩
      · obtain ⟨r0, hr0, hpos⟩ := (h.pi_iff a).mp hp
        have hne : a ≠ m := by
          rintro rfl
          rw [hr] at hr0; injection hr0 with e; subst e; omega
        exact ⟨r0, by rw [find?_mark_other hne, hmods]; exact hr0, hpos⟩
    · rintro ⟨r', hr', hpos⟩
      obtain ⟨r0, hr0, _, _, hc⟩ := hfrom a r' hr'
      rcases hc with ⟨ea, _⟩ | ⟨_, hc⟩
      · exact Or.inl ea
      · exact Or.inr ((h.pi_iff a).mpr ⟨r0, hr0, hc ▸ hpos⟩)
  · intro a ha; rw [hn] at ha; rw [hlog]; exact List.mem_cons_of_mem _ (h.ended a ha)
  · intro a ha
    rw [hlog] at ha
    rcases List.mem_cons.mp ha with e | ha
    · cases e
    · exact h.nodtor a ha
  · intro a
    rw [hlog, hn]
    simp only [List.mem_cons, reduceCtorEq, false_or]
    exact h.begun a
  · intro hacv
    rw [hlog]
    simp only [Iauthd.Module.wo, okAt, Bool.and_eq_true, decide_eq_true_eq, List.all_eq_true]
    refine ⟨⟨⟨h.ended m hmn, hnotpi⟩, ?_⟩, h.wo hacv⟩
    intro d hd
    exact (h.pi_iff d).mpr (hdeps d hd)

/-! ### `module_dfs` -/

variable (G)

structure DPost (L : List α) (ac : Prop) (v : Int) (m : α) (s s' : St α) : Prop where
  inv : DInv G L ac v s'
  sim : Sim s s'
  mdone : ∃ r, find? m s'.mods = some r ∧ r.visited > 0
  stack : ∀ a r r', find? a s.mods = some r → find? a s'.mods = some r' → (r'.visited = -v ↔ r.visited = -v)
  donemono : ∀ a r r', find? a s.mods = some r → find? a s'.mods = some r' → r.visited > 0 → r'.visited > 0
  unv : unvis s' ≤ unvis s
  logmono : ∀ e, e ∈ s.log → e ∈ s'.log

def DfsOk (L : List α) (ac : Prop) (v : Int) (m : α) (s : St α) : DfsRes α → Prop
  | .done s' => DPost G L ac v m s s'
  | .loop s' => Sim s s' ∧ NoCyclePI G s' ∧ ¬ ac
  | .fatal s' w => (∃ a b, w = Why.loop a b) ∧ NoCyclePI G s' ∧ ¬ ac

structure DLoopPost (L : List α) (ac : Prop) (v : Int) (m : α) (s s' : St α) : Prop where
  inv : DInv G L ac v s'
  sim : Sim s s'
  depsdone : ∀ d, d ∈ G m → ∃ rd, find? d s'.mods = some rd ∧ rd.visited > 0
  stack : ∀ a r r', find? a s.mods = some r → find? a s'.mods = some r' → (r'.visited = -v ↔ r.visited = -v)
  donemono : ∀ a r r', find? a s.mods = some r → find? a s'.mods = some r' → r.visited > 0 → r'.visited > 0
  unv : unvis s' ≤ unvis s
  logmono : ∀ e, e ∈ s.log → e ∈ s'.log

def DLoopOk (L : List α) (ac : Prop) (v : Int) (m : α) (s : St α) : DfsRes α → Prop
  | .done s' => DLoopPost G L ac v m s s'
  | .loop s' => Sim s s' ∧ NoCyclePI G s' ∧ ¬ ac
  | .fatal s' w => (∃ a b, w = Why.loop a b) ∧ NoCyclePI G s' ∧ ¬ ac

variable {G}
variable (lt : α → α → Bool)

theorem dfsLoop_cons (rec : α → St α → DfsRes α) (m : α) (mark : Int) (d : α) (ds : List α) (s : St α) :
    dfsLoop lt rec m mark (d :: ds) s =
      match find? d (getOrCreate lt d s).mods with
      | none => .done (getOrCreate lt d s)
      | some other =>
        if other.visited = mark then .loop (getOrCreate lt d s)
        else match rec d (getOrCreate lt d s) with
          | .loop s2 => .fatal s2 (.loop m other.name)
          | .fatal s2 w => .fatal s2 w
          | .done s2 => dfsLoop lt rec m mark ds s2 := rfl

theorem dfsLoop_spec {L : List α} {ac : Prop} {v : Int} {f : Nat} (hv : v > 0) (rank : α → Nat)
    (hrank : ac → ∀ a d, Loaded G L a → d ∈ G a → rank d < rank a)
    (rec : α → St α → DfsRes α)
    (hrec : ∀ d s, DInv G L ac v s → d ∈ names s.mods → (∀ r, find? d s.mods = some r → r.visited ≠ -v) →
      unvis s < f → (ac → ∀ a r, find? a s.mods = some r → r.visited = -v → rank d < rank a) →
      DfsOk G L ac v d s (rec d s))
    (m : α) :
    ∀ ds s pre, pre ++ ds = G m → DInv G L ac v s →
      (∃ rm, find? m s.mods = some rm ∧ rm.visited = -v) →
      (∀ d, d ∈ pre → ∃ rd, find? d s.mods = some rd ∧ rd.visited > 0) → unvis s < f →
      (ac → ∀ a r, find? a s.mods = some r → r.visited = -v → rank m ≤ rank a) →
      DLoopOk G L ac v m s (dfsLoop lt rec m (-v) ds s) := by
  intro ds
  induction ds with
  | nil =>
    intro s pre hpre hinv _ hdone _ _
    simp only [List.append_nil] at hpre
    show DLoopPost G L ac v m s s
    exact {
      inv := hinv
      sim := Sim.refl s
      depsdone := fun d hd => hdone d (hpre ▸ hd)
      stack := by
        intro a r r' h1 h2; rw [h1] at h2; injection h2 with e; subst e; exact Iff.rfl
      donemono := by
        intro a r r' h1 h2 hp; rw [h1] at h2; injection h2 with e; subst e; exact hp
      unv := Nat.le_refl _
      logmono := fun _ h => h }
  | cons d ds ih =>
    intro s pre hpre hinv hm hdone hfuel hstack
    obtain ⟨rm, hrm, hrmv⟩ := hm
    have hmn : m ∈ names s.mods := mem_names_of_find? hrm
    have hdG : d ∈ G m := by rw [← hpre]; simp
    have hdn : d ∈ names s.mods := hinv.deps_in m hmn d hdG
    obtain ⟨other, hother⟩ := mem_names_iff.mp hdn
    rw [dfsLoop_cons, getOrCreate_of_mem lt hdn, hother]
    simp only
    have hrk : ac → rank d < rank m := fun hacv => hrank hacv m d (hinv.loaded m hmn) hdG
    by_cases hov : other.visited = -v
    · rw [if_pos hov]
      refine ⟨Sim.refl s, hinv.noCyclePI, ?_⟩
      intro hacv
      have h1 := hrk hacv
      have h2 := hstack hacv d other hother hov
      omega
    · rw [if_neg hov]
      have hres := hrec d s hinv hdn
        (by intro r hr; rw [hother] at hr; injection hr with e; subst e; exact hov) hfuel
        (by
          intro hacv a r hr hrv
          have h1 := hrk hacv
          have h2 := hstack hacv a r hr hrv
          omega)
      generalize rec d s = res at hres
      cases res with
      | loop s2 =>
        obtain ⟨_, h2, h3⟩ := hres
        exact ⟨⟨m, other.name, rfl⟩, h2, h3⟩
      | fatal s2 w => exact hres
      | done s2 =>
        have hp : DPost G L ac v d s s2 := hres
        simp only
        -- every record of `s` has a counterpart in `s2`
        have hfwd : ∀ a r, find? a s.mods = some r → ∃ r2, find? a s2.mods = some r2 :=
          fun a r hr => let ⟨r2, hr2, _⟩ := hp.sim.2 a r hr; ⟨r2, hr2⟩
        have hres2 := ih s2 (pre ++ [d]) (by rw [List.append_assoc]; exact hpre) hp.inv
          (by
            obtain ⟨r2, hr2⟩ := hfwd m rm hrm
            exact ⟨r2, hr2, (hp.stack m rm r2 hrm hr2).mpr hrmv⟩)
          (by
            intro d' hd'
            rcases List.mem_append.mp hd' with hd' | hd'
            · obtain ⟨rd, hrd, hpos⟩ := hdone d' hd'
              obtain ⟨r2, hr2⟩ := hfwd d' rd hrd
              exact ⟨r2, hr2, hp.donemono d' rd r2 hrd hr2 hpos⟩
            · simp only [List.mem_singleton] at hd'
              subst hd'
              exact hp.mdone)
          (by have := hp.unv; omega)
          (by
            intro hacv a r2 hr2 hr2v
            obtain ⟨r, hr, _⟩ := hp.sim.back hr2
            exact hstack hacv a r hr ((hp.stack a r r2 hr hr2).mp hr2v))
        generalize dfsLoop lt rec m (-v) ds s2 = res2 at hres2
        cases res2 with
        | loop s3 =>
          obtain ⟨h1, h2, h3⟩ := hres2
          exact ⟨hp.sim.trans h1, h2, h3⟩
        | fatal s3 w => exact hres2
        | done s3 =>
          have hq : DLoopPost G L ac v m s2 s3 := hres2
          show DLoopPost G L ac v m s s3
          exact {
            inv := hq.inv
            sim := hp.sim.trans hq.sim
            depsdone := hq.depsdone
            stack := by
              intro a r r3 hr hr3
              obtain ⟨r2, hr2⟩ := hfwd a r hr
              exact (hq.stack a r2 r3 hr2 hr3).trans (hp.stack a r r2 hr hr2)
            donemono := by
              intro a r r3 hr hr3 hpos
              obtain ⟨r2, hr2⟩ := hfwd a r hr
              exact hq.donemono a r2 r3 hr2 hr3 (hp.donemono a r r2 hr hr2 hpos)
            unv := Nat.le_trans hq.unv hp.unv
            logmono := fun e he => hq.logmono e (hp.logmono e he) }

theorem dfsFixed_succ (f : Nat) (m : α) (v : Int) (s : St α) :
    dfsFixed lt (f + 1) m v s =
      match find? m s.mods with
      | none => .done s
      | some r =>
        if r.visited > 0 then .done s
        else
          match dfsLoop lt (fun d => dfsFixed lt f d v) m (-v) r.depends (markStep m (-v) s) with
          | .done s2 => .done (markStep m v (if r.handle then logEv (.postInit m) s2 else s2))
          | other => other := rfl

theorem sim_of_mods_eq {s t s' : St α} (h : s'.mods = t.mods) (hs : Sim s t) : Sim s s' := by
  unfold Sim at hs ⊢
  rw [h]; exact hs

theorem unvis_of_mods_eq {t s' : St α} (h : s'.mods = t.mods) : unvis s' = unvis t := by
  unfold unvis; rw [h]

theorem dfsFixed_spec {L : List α} {ac : Prop} {v : Int} (hv : v > 0) (rank : α → Nat)
    (hrank : ac → ∀ a d, Loaded G L a → d ∈ G a → rank d < rank a) :
    ∀ f m s, DInv G L ac v s → m ∈ names s.mods → (∀ r, find? m s.mods = some r → r.visited ≠ -v) →
      unvis s < f → (ac → ∀ a r, find? a s.mods = some r → r.visited = -v → rank m < rank a) →
      DfsOk G L ac v m s (dfsFixed lt f m v s) := by
  intro f
  induction f with
  | zero => intro m s _ _ _ h; omega
  | succ f ih =>
    intro m s hinv hmn hnotstack hfuel hstack
    obtain ⟨r, hr⟩ := mem_names_iff.mp hmn
    rw [dfsFixed_succ, hr]
    simp only
    by_cases hpos : r.visited > 0
    · rw [if_pos hpos]
      show DPost G L ac v m s s
      exact {
        inv := hinv
        sim := Sim.refl s
        mdone := ⟨r, hr, hpos⟩
        stack := by
          intro a r1 r2 h1 h2; rw [h1] at h2; injection h2 with e; subst e; exact Iff.rfl
        donemono := by
          intro a r1 r2 h1 h2 hp; rw [h1] at h2; injection h2 with e; subst e; exact hp
        unv := Nat.le_refl _
        logmono := fun _ h => h }
    · rw [if_neg hpos]
      have h0 : r.visited = 0 := by
        rcases hinv.marks m r hr with h | h | h
        · exact h
        · exact absurd h hpos
        · exact absurd h (hnotstack r hr)
      have hinv1 : DInv G L ac v (markStep m (-v) s) := hinv.enter hv hr h0
      have hr1 : find? m (markStep m (-v) s).mods = some (setVisited (-v) r) := find?_mark_self hr
      have hloop := dfsLoop_spec lt hv rank hrank (fun d => dfsFixed lt f d v) (fun d s' => ih d s') m
        r.depends (markStep m (-v) s) [] (by simpa using hinv.deps m r hr) hinv1
        ⟨_, hr1, rfl⟩ (by simp)
        (by
          have : unvis (markStep m (-v) s) < unvis s := unvis_mark_lt hr h0 (by omega)
          omega)
        (by
          intro hacv a ra hra hrav
          by_cases e : a = m
          · subst e; exact Nat.le_refl _
          · rw [find?_mark_other e] at hra
            exact Nat.le_of_lt (hstack hacv a ra hra hrav))
      generalize dfsLoop lt (fun d => dfsFixed lt f d v) m (-v) r.depends (markStep m (-v) s) = res at hloop
      cases res with
      | loop s2 =>
        obtain ⟨h1, h2, h3⟩ := hloop
        exact ⟨(sim_mark m (-v) s).trans h1, h2, h3⟩
      | fatal s2 w => exact hloop
      | done s2 =>
        have hq : DLoopPost G L ac v m (markStep m (-v) s) s2 := hloop
        simp only
        rw [hinv.handle m r hr]
        simp only [if_true]
        obtain ⟨r2, hr2, _⟩ := hq.sim.2 m _ hr1
        have hr2v : r2.visited = -v := (hq.stack m _ r2 hr1 hr2).mpr rfl
        have hinv4 := hq.inv.finish hv hr2 hr2v hq.depsdone
        have hmods3 : (logEv (Event.postInit m) s2).mods = s2.mods := rfl
        have hfind4 : ∀ a, find? a (markStep m v (logEv (Event.postInit m) s2)).mods =
            (find? a s2.mods).map (fun r => if a = m then setVisited v r else r) := by
          intro a; rw [find?_mark, hmods3]
        show DPost G L ac v m s (markStep m v (logEv (Event.postInit m) s2))
        exact {
          inv := hinv4
          sim := ((sim_mark m (-v) s).trans hq.sim).trans
            (sim_of_mods_eq (t := markStep m v s2) rfl (sim_mark m v s2))
          mdone := ⟨setVisited v r2, by rw [hfind4, hr2]; simp, hv⟩
          stack := by
            intro a ra ra4 hra hra4
            rw [hfind4] at hra4
            by_cases e : a = m
            · subst e
              rw [hr] at hra; injection hra with e1; subst e1
              rw [hr2] at hra4
              simp at hra4; subst hra4
              simp only [setVisited]
              constructor <;> intro h <;> omega
            · have hra1 : find? a (markStep m (-v) s).mods = some ra := by
                rw [find?_mark_other e]; exact hra
              obtain ⟨ra2, hra2, _⟩ := hq.sim.2 a ra hra1
              rw [hra2] at hra4
              simp [e] at hra4; subst hra4
              exact hq.stack a ra ra2 hra1 hra2
          donemono := by
            intro a ra ra4 hra hra4 hp
            rw [hfind4] at hra4
            by_cases e : a = m
            · subst e
              rw [hr] at hra; injection hra with e1; subst e1
              omega
            · have hra1 : find? a (markStep m (-v) s).mods = some ra := by
                rw [find?_mark_other e]; exact hra
              obtain ⟨ra2, hra2, _⟩ := hq.sim.2 a ra hra1
              rw [hra2] at hra4
              simp [e] at hra4; subst hra4
              exact hq.donemono a ra ra2 hra1 hra2 hp
          unv := by
            have h1 : unvis (markStep m v (logEv (Event.postInit m) s2)) ≤ unvis (logEv (Event.postInit m) s2) :=
              unvis_mark_le (by omega)
            have h2 : unvis (logEv (Event.postInit m) s2) = unvis s2 := unvis_of_mods_eq rfl
            have h3 := hq.unv
            have h4 : unvis (markStep m (-v) s) ≤ unvis s := unvis_mark_le (by omega)
            omega
          logmono := fun e he => List.mem_cons_of_mem _ (hq.logmono e he) }

/-! ### the roots of the walk -/

/-- `rdepends` mirrors `depends` -/
def C1 (s : St α) : Prop :=
  ∀ a ra b rb, find? a s.mods = some ra → find? b s.mods = some rb → (a ∈ rb.rdepends ↔ b ∈ ra.depends)

theorem C1.of_sim {s s' : St α} (h : C1 s) (hs : Sim s s') : C1 s' := by
  intro a ra' b rb' ha' hb'
  obtain ⟨ra, hra, hda, _, _⟩ := hs.back ha'
  obtain ⟨rb, hrb, _, _, hxb⟩ := hs.back hb'
  rw [hxb a, hda]
  exact h a ra b rb hra hrb

/-- same records up to duplicates in `rdepends`, same log -/
def SimR (s s' : St α) : Prop :=
  names s'.mods = names s.mods ∧ s'.log = s.log ∧ unvis s' = unvis s ∧
  ∀ a r, find? a s.mods = some r → ∃ r', find? a s'.mods = some r' ∧ r'.depends = r.depends ∧
          r'.handle = r.handle ∧ r'.visited = r.visited ∧ ∀ x, x ∈ r'.rdepends ↔ x ∈ r.rdepends

theorem SimR.refl (s : St α) : SimR s s :=
  ⟨rfl, rfl, rfl, fun _ r h => ⟨r, h, rfl, rfl, rfl, fun _ => Iff.rfl⟩⟩

theorem SimR.trans {s1 s2 s3 : St α} (h12 : SimR s1 s2) (h23 : SimR s2 s3) : SimR s1 s3 := by
  refine ⟨h23.1.trans h12.1, h23.2.1.trans h12.2.1, h23.2.2.1.trans h12.2.2.1, ?_⟩
  intro a r hr
  obtain ⟨r2, hr2, hd2, hh2, hv2, hx2⟩ := h12.2.2.2 a r hr
  obtain ⟨r3, hr3, hd3, hh3, hv3, hx3⟩ := h23.2.2.2 a r2 hr2
  exact ⟨r3, hr3, hd3.trans hd2, hh3.trans hh2, hv3.trans hv2, fun x => (hx3 x).trans (hx2 x)⟩

theorem SimR.sim {s s' : St α} (h : SimR s s') : Sim s s' :=
  ⟨h.1, fun a r hr => let ⟨r', hr', hd, hh, _, hx⟩ := h.2.2.2 a r hr; ⟨r', hr', hd, hh, hx⟩⟩

theorem SimR.back {s s' : St α} (h : SimR s s') {a : α} {r' : Rec α} (hr' : find? a s'.mods = some r') :
    ∃ r, find? a s.mods = some r ∧ r'.depends = r.depends ∧ r'.handle = r.handle ∧
      r'.visited = r.visited := by
  have ha : a ∈ names s.mods := by rw [← h.1]; exact mem_names_of_find? hr'
  obtain ⟨r, hr⟩ := mem_names_iff.mp ha
  obtain ⟨r2, hr2, hd, hh, hv, _⟩ := h.2.2.2 a r hr
  rw [hr'] at hr2
  injection hr2 with e
  subst e
  exact ⟨r, hr, hd, hh, hv⟩

theorem DInv.of_simR {L : List α} {ac : Prop} {v : Int} {s s' : St α} (h : DInv G L ac v s) (hs : SimR s s') :
    DInv G L ac v s' := by
  constructor
  · rw [hs.1]; exact h.nodup
  · intro a r' hr'
    obtain ⟨r, hr, _, hh, _⟩ := hs.back hr'
    rw [hh]; exact h.handle a r hr
  · intro a r' hr'
    obtain ⟨r, hr, hd, _, _⟩ := hs.back hr'
    rw [hd]; exact h.deps a r hr
  · intro a ha d hd; rw [hs.1] at ha ⊢; exact h.deps_in a ha d hd
  · intro a ha; rw [hs.1] at ha; exact h.loaded a ha
  · intro a r' hr'
    obtain ⟨r, hr, _, _, hv⟩ := hs.back hr'
    rw [hv]; exact h.marks a r hr
  · intro a r' hr' hpos d hd rd' hrd'
    obtain ⟨r, hr, _, _, hv⟩ := hs.back hr'
    obtain ⟨rd, hrd, _, _, hvd⟩ := hs.back hrd'
    rw [hvd]
    exact h.closed a r hr (hv ▸ hpos) d hd rd hrd
  · intro a r' hr' hpos
    obtain ⟨r, hr, _, _, hv⟩ := hs.back hr'
    exact h.nocyc a r hr (hv ▸ hpos)
  · intro a
    rw [hs.2.1, h.pi_iff a]
    constructor
    · rintro ⟨r, hr, hpos⟩
      obtain ⟨r', hr', _, _, hv, _⟩ := hs.2.2.2 a r hr
      exact ⟨r', hr', hv ▸ hpos⟩
    · rintro ⟨r', hr', hpos⟩
      obtain ⟨r, hr, _, _, hv⟩ := hs.back hr'
      exact ⟨r, hr, hv ▸ hpos⟩
  · intro a ha; rw [hs.1] at ha; rw [hs.2.1]; exact h.ended a ha
  · rw [hs.2.1]; exact h.nodtor
  · intro a; rw [hs.2.1, hs.1]; exact h.begun a
  · rw [hs.2.1]; exact h.wo

theorem unvis_modify_addRdep (d n : α) (mods : List (Rec α)) :
    ((modify d (addRdep n) mods).filter (fun r => decide (r.visited = 0))).length =
      (mods.filter (fun r => decide (r.visited = 0))).length := by
  induction mods with
  | nil => rfl
  | cons x xs ih =>
    have hm : modify d (addRdep n) (x :: xs) = (if x.name = d then addRdep n x else x) :: modify d (addRdep n) xs := rfl
    rw [hm]
    have hv : (if x.name = d then addRdep n x else x).visited = x.visited := by
      by_cases e : x.name = d <;> simp [e, addRdep]
    simp only [List.filter_cons, hv]
    by_cases h0 : x.visited = 0
    · simp [h0, ih]
    · simp [h0, ih]

/-- appending a name that is already there -/
theorem simR_addRdep {s : St α} {d n : α} {rd : Rec α} (hd : find? d s.mods = some rd) (hn : n ∈ rd.rdepends) :
    SimR s { s with mods := modify d (addRdep n) s.mods } := by
  refine ⟨names_modify (by simp) _ _, rfl, ?_, ?_⟩
  · unfold unvis; exact unvis_modify_addRdep d n s.mods
  · intro a r hr
    simp only
    rw [find?_modify' (by simp), hr]
    by_cases e : a = d
    · subst e
      rw [hd] at hr; injection hr with e'; subst e'
      refine ⟨addRdep n rd, by simp, rfl, rfl, rfl, ?_⟩
      intro x
      simp only [addRdep, List.mem_append, List.mem_singleton]
      constructor
      · rintro (h | rfl)
        · exact h
        · exact hn
      · exact Or.inl
    · exact ⟨r, by simp [e], rfl, rfl, rfl, fun _ => Iff.rfl⟩

theorem rootAppend_cons (n d : α) (ds : List α) (s : St α) :
    rootAppend lt n (d :: ds) s =
      rootAppend lt n ds { getOrCreate lt d s with mods := modify d (addRdep n) (getOrCreate lt d s).mods } := rfl

theorem rootAppend_simR (n : α) : ∀ ds s,
    (∀ d, d ∈ ds → ∃ rd, find? d s.mods = some rd ∧ n ∈ rd.rdepends) → SimR s (rootAppend lt n ds s) := by
  intro ds
  induction ds with
  | nil => intro s _; exact SimR.refl s
  | cons d ds ih =>
    intro s h
    obtain ⟨rd, hrd, hn⟩ := h d (List.mem_cons_self ..)
    rw [rootAppend_cons, getOrCreate_of_mem lt (mem_names_of_find? hrd)]
    have h1 := simR_addRdep hrd hn
    refine h1.trans (ih _ ?_)
    intro d' hd'
    obtain ⟨rd', hrd', hn'⟩ := h d' (List.mem_cons_of_mem _ hd')
    obtain ⟨r2, hr2, _, _, _, hx⟩ := h1.2.2.2 d' rd' hrd'
    exact ⟨r2, hr2, (hx n).mpr hn'⟩

theorem DInv.weaken {L : List α} {ac : Prop} {v : Int} {s : St α} (h : DInv G L ac 0 s) : DInv G L ac v s := by
  have hm : ∀ a r, find? a s.mods = some r → r.visited = 0 ∨ r.visited > 0 ∨ r.visited = -v := by
    intro a r hr
    rcases h.marks a r hr with h0 | h0 | h0
    · exact Or.inl h0
    · exact Or.inr (Or.inl h0)
    · exact Or.inl (by omega)
  exact { h with marks := hm }

theorem DInv.strengthen {L : List α} {ac : Prop} {v : Int} {s : St α} (h : DInv G L ac v s)
    (hno : ∀ a r, find? a s.mods = some r → r.visited ≠ -v) : DInv G L ac 0 s := by
  have hm : ∀ a r, find? a s.mods = some r → r.visited = 0 ∨ r.visited > 0 ∨ r.visited = -0 := by
    intro a r hr
    rcases h.marks a r hr with h0 | h0 | h0
    · exact Or.inl h0
    · exact Or.inr (Or.inl h0)
    · exact absurd h0 (hno a r hr)
  exact { h with marks := hm }

variable (G)

structure WalkPost (L : List α) (ac : Prop) (ns : List α) (s s' : St α) : Prop where
  inv : DInv G L ac 0 s'
  sim : Sim s s'
  alldone : ∀ n, n ∈ ns → ∀ r', find? n s'.mods = some r' → r'.visited > 0
  donemono : ∀ a r r', find? a s.mods = some r → find? a s'.mods = some r' → r.visited > 0 → r'.visited > 0
  logmono : ∀ e, e ∈ s.log → e ∈ s'.log

def WalkOk (L : List α) (ac : Prop) (ns : List α) (s : St α) : DfsRes α → Prop
  | .done s' => WalkPost G L ac ns s s'
  | .loop s' => Sim s s' ∧ NoCyclePI G s' ∧ ¬ ac
  | .fatal s' w => (∃ a b, w = Why.loop a b) ∧ NoCyclePI G s' ∧ ¬ ac

variable {G}

theorem walkRoots_cons (dfs : α → Int → St α → DfsRes α) (n : α) (ns : List α) (visit : Int) (s : St α) :
    walkRoots lt dfs (n :: ns) visit s =
      match find? n s.mods with
      | none => walkRoots lt dfs ns visit s
      | some r =>
        if r.visited ≠ 0 then walkRoots lt dfs ns visit s
        else
          match dfs n (visit + 1) (rootAppend lt n r.depends s) with
          | .done s2 => walkRoots lt dfs ns (visit + 1) s2
          | other => other := rfl

theorem walkRoots_spec {L : List α} {ac : Prop} {f : Nat} (rank : α → Nat)
    (hrank : ac → ∀ a d, Loaded G L a → d ∈ G a → rank d < rank a) :
    ∀ ns visit s, visit ≥ 0 → DInv G L ac 0 s → C1 s → unvis s < f →
      WalkOk G L ac ns s (walkRoots lt (dfsFixed lt f) ns visit s) := by
  intro ns
  induction ns with
  | nil =>
    intro visit s _ hinv _ _
    show WalkPost G L ac [] s s
    exact {
      inv := hinv
      sim := Sim.refl s
      alldone := by intro n hn; cases hn
      donemono := by
        intro a r r' h1 h2 hp; rw [h1] at h2; injection h2 with e; subst e; exact hp
      logmono := fun _ h => h }
  | cons n ns ih =>
    intro visit s hvis hinv hc1 hfuel
    rw [walkRoots_cons]
    -- skipping `n`: the rest of the walk, then `n` is accounted for by `hn`
    have skip : (∀ s', Sim s s' → ∀ r', find? n s'.mods = some r' →
          (∀ a r r', find? a s.mods = some r → find? a s'.mods = some r' → r.visited > 0 → r'.visited > 0) →
          r'.visited > 0) →
        WalkOk G L ac (n :: ns) s (walkRoots lt (dfsFixed lt f) ns visit s) := by
      intro hn
      have h := ih visit s hvis hinv hc1 hfuel
      generalize walkRoots lt (dfsFixed lt f) ns visit s = res at h
      cases res with
      | loop s' => exact h
      | fatal s' w => exact h
      | done s' =>
        have hp : WalkPost G L ac ns s s' := h
        show WalkPost G L ac (n :: ns) s s'
        exact { hp with
          alldone := by
            intro n' hn' r' hr'
            rcases List.mem_cons.mp hn' with rfl | hn'
            · exact hn s' hp.sim r' hr' hp.donemono
            · exact hp.alldone n' hn' r' hr' }
    cases hfn : find? n s.mods with
    | none =>
      simp only
      apply skip
      intro s' hsim r' hr' _
      have : n ∈ names s.mods := (hsim.names n).mp (mem_names_of_find? hr')
      exact absurd this (find?_eq_none_iff.mp hfn)
    | some r =>
      simp only
      by_cases h0 : r.visited = 0
      · rw [if_neg (by simpa using h0)]
        have hnn : n ∈ names s.mods := mem_names_of_find? hfn
        have hv : visit + 1 > 0 := by omega
        have hrd : r.depends = G n := hinv.deps n r hfn
        have hsr : SimR s (rootAppend lt n r.depends s) := by
          apply rootAppend_simR
          intro d hd
          have hdn : d ∈ names s.mods := hinv.deps_in n hnn d (hrd ▸ hd)
          obtain ⟨rd, hrd'⟩ := mem_names_iff.mp hdn
          exact ⟨rd, hrd', (hc1 n r d rd hfn hrd').mpr hd⟩
        have hinv1 : DInv G L ac (visit + 1) (rootAppend lt n r.depends s) := hinv.weaken.of_simR hsr
        have hnonneg : ∀ a ra, find? a (rootAppend lt n r.depends s).mods = some ra → ra.visited ≥ 0 := by
          intro a ra hra
          obtain ⟨r0, hr0, _, _, hv0⟩ := hsr.back hra
          rcases hinv.marks a r0 hr0 with h | h | h <;> omega
        have hres := dfsFixed_spec lt hv rank hrank f n (rootAppend lt n r.depends s) hinv1
          (by rw [hsr.1]; exact hnn)
          (by intro ra hra; have := hnonneg n ra hra; omega)
          (by rw [hsr.2.2.1]; exact hfuel)
          (by intro _ a ra hra hrav; have := hnonneg a ra hra; omega)
        generalize dfsFixed lt f n (visit + 1) (rootAppend lt n r.depends s) = res at hres
        cases res with
        | loop s2 =>
          obtain ⟨h1, h2, h3⟩ := hres
          exact ⟨hsr.sim.trans h1, h2, h3⟩
        | fatal s2 w => exact hres
        | done s2 =>
          have hp : DPost G L ac (visit + 1) n (rootAppend lt n r.depends s) s2 := hres
          simp only
          have hsim2 : Sim s s2 := hsr.sim.trans hp.sim
          have hinv2 : DInv G L ac 0 s2 := by
            apply hp.inv.strengthen
            intro a r2 hr2 hr2v
            obtain ⟨r1, hr1, _⟩ := hp.sim.back hr2
            have := (hp.stack a r1 r2 hr1 hr2).mp hr2v
            have := hnonneg a r1 hr1
            omega
          have h2 := ih (visit + 1) s2 (by omega) hinv2 (hc1.of_sim hsim2)
            (by have := hp.unv; rw [hsr.2.2.1] at this; omega)
          -- transport of "done" from `s` to `s2`
          have hmono2 : ∀ a ra ra2, find? a s.mods = some ra → find? a s2.mods = some ra2 →
              ra.visited > 0 → ra2.visited > 0 := by
            intro a ra ra2 hra hra2 hpos
            obtain ⟨ra1, hra1, _, _, hv1, _⟩ := hsr.2.2.2 a ra hra
            exact hp.donemono a ra1 ra2 hra1 hra2 (hv1 ▸ hpos)
          generalize walkRoots lt (dfsFixed lt f) ns (visit + 1) s2 = res2 at h2
          cases res2 with
          | loop s3 =>
            obtain ⟨h1, h2', h3⟩ := h2
            exact ⟨hsim2.trans h1, h2', h3⟩
          | fatal s3 w => exact h2
          | done s3 =>
            have hq : WalkPost G L ac ns s2 s3 := h2
            show WalkPost G L ac (n :: ns) s s3
            exact {
              inv := hq.inv
              sim := hsim2.trans hq.sim
              alldone := by
                intro n' hn' r3 hr3
                rcases List.mem_cons.mp hn' with rfl | hn'
                · obtain ⟨rn2, hrn2, hpos⟩ := hp.mdone
                  exact hq.donemono n' rn2 r3 hrn2 hr3 hpos
                · exact hq.alldone n' hn' r3 hr3
              donemono := by
                intro a ra ra3 hra hra3 hpos
                obtain ⟨ra2, hra2, _⟩ := hsim2.2 a ra hra
                exact hq.donemono a ra2 ra3 hra2 hra3 (hmono2 a ra ra2 hra hra2 hpos)
              logmono := fun e he => hq.logmono e (hp.logmono e (by rw [hsr.2.1]; exact he)) }
      · rw [if_pos (by simpa using h0)]
        apply skip
        intro s' _ r' hr' hmono
        have hpos : r.visited > 0 := by
          rcases hinv.marks n r hfn with h | h | h
          · exact absurd h h0
          · exact h
          · exact absurd (by omega) h0
        exact hmono n r r' hfn hr' hpos

/-! ### the whole second half of `module_load_list` -/

theorem resetMarks_fresh {s : St α} (h : ∀ r, r ∈ s.mods → r.visited = 0) : resetMarks s = (s, 0) := by
  unfold resetMarks
  have h1 : s.mods.map (fun r => if r.visited ≠ 0 then setVisited 1 r else r) = s.mods := by
    have : s.mods.map (fun r => if r.visited ≠ 0 then setVisited 1 r else r) = s.mods.map id := by
      apply List.map_congr_left
      intro r hr
      simp [h r hr]
    rw [this, List.map_id]
  have h2 : (s.mods.any fun r => decide (r.visited ≠ 0)) = false := by
    rw [List.any_eq_false]
    intro r hr
    simp [h r hr]
  rw [h1, h2]
  rfl

theorem unvis_le_length (s : St α) : unvis s ≤ s.mods.length := List.length_filter_le _ _

variable {ok : α → Bool}

theorem Loaded'.dinv {L : List α} {ac : Prop} {s : St α} (h : Loaded' (G := G) (ok := ok) L ac s) :
    DInv G L ac 0 s := by
  have hnopi : ∀ a, Event.postInit a ∉ s.log := by
    intro a ha
    rcases h.onlyCtor _ ha with ⟨n, hn⟩ | ⟨n, hn⟩ <;> cases hn
  exact {
    nodup := h.nodup
    handle := fun a r hr => (h.fresh a r hr).1
    deps := h.deps
    deps_in := h.deps_in
    loaded := fun a ha => (h.names_iff a).mp ha
    marks := fun a r hr => Or.inl (h.fresh a r hr).2
    closed := by
      intro a r hr hpos
      have := (h.fresh a r hr).2
      omega
    nocyc := by
      intro a r hr hpos
      have := (h.fresh a r hr).2
      omega
    pi_iff := by
      intro a
      constructor
      · intro ha; exact absurd ha (hnopi a)
      · rintro ⟨r, hr, hpos⟩
        have := (h.fresh a r hr).2
        omega
    ended := h.ended
    nodtor := by
      intro a ha
      rcases h.onlyCtor _ ha with ⟨n, hn⟩ | ⟨n, hn⟩ <;> cases hn
    begun := h.begun
    wo := h.wo }

def PhaseOk (G : α → List α) (L : List α) (ac : Prop) (s : St α) : DfsRes α → Prop
  | .done s' => DInv G L ac 0 s' ∧ Sim s s' ∧ (∀ a r', find? a s'.mods = some r' → r'.visited > 0) ∧
      (∀ e, e ∈ s.log → e ∈ s'.log)
  | .loop s' => Sim s s' ∧ NoCyclePI G s' ∧ ¬ ac
  | .fatal s' w => (∃ a b, w = Why.loop a b) ∧ NoCyclePI G s' ∧ ¬ ac

theorem postInitPhase_spec {L : List α} {ac : Prop} (rank : α → Nat)
    (hrank : ac → ∀ a d, Loaded G L a → d ∈ G a → rank d < rank a)
    {s : St α} (h : Loaded' (G := G) (ok := ok) L ac s) :
    PhaseOk G L ac s (postInitPhase lt (dfsFixed lt) s) := by
  have hfresh : ∀ r, r ∈ s.mods → r.visited = 0 :=
    fun r hr => (h.fresh r.name r (find?_of_mem h.nodup hr)).2
  unfold postInitPhase
  rw [resetMarks_fresh hfresh]
  simp only
  have hw := walkRoots_spec lt rank hrank (names s.mods) 0 s (Int.le_refl 0) h.dinv h.c1
    (f := s.mods.length + 1) (by have := unvis_le_length s; omega)
  generalize walkRoots lt (dfsFixed lt (s.mods.length + 1)) (names s.mods) 0 s = res at hw
  cases res with
  | loop s' => exact hw
  | fatal s' w => exact hw
  | done s' =>
    have hp : WalkPost G L ac (names s.mods) s s' := hw
    refine ⟨hp.inv, hp.sim, ?_, hp.logmono⟩
    intro a r' hr'
    exact hp.alldone a ((hp.sim.names a).mp (mem_names_of_find? hr')) r' hr'

end
end Iauthd.Module
