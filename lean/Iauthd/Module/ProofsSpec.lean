import Iauthd.Module.ProofsBasic
/-
  What the checker `wo` (well-ordered log, newest event first) implies: every event
  occurs at most once, the events an event requires occur strictly before it, and
  the positions of the `ctor-end` events are a rank function that decreases along
  dependency edges.
-/
set_option linter.unusedSectionVars false
set_option linter.unusedSimpArgs false
set_option linter.unusedVariables false

namespace Iauthd.Module

section
variable {α : Type} [DecidableEq α] {G : α → List α}

theorem wo_cons (e : Event α) (older : List (Event α)) :
    wo G (e :: older) = (okAt G older e && wo G older) := rfl

theorem wo_tail {e : Event α} {older : List (Event α)} (h : wo G (e :: older) = true) : wo G older = true := by
  rw [wo_cons, Bool.and_eq_true] at h; exact h.2

theorem wo_head {e : Event α} {older : List (Event α)} (h : wo G (e :: older) = true) : okAt G older e = true := by
  rw [wo_cons, Bool.and_eq_true] at h; exact h.1

theorem wo_append_right : ∀ (l : List (Event α)) {older : List (Event α)}, wo G (l ++ older) = true → wo G older = true := by
  intro l
  induction l with
  | nil => intro _ h; exact h
  | cons x xs ih => intro _ h; exact ih (wo_tail h)

theorem wo_split {l : List (Event α)} {e : Event α} {older : List (Event α)} (h : wo G (l ++ e :: older) = true) :
    okAt G older e = true := wo_head (wo_append_right l h)

theorem okAt_not_mem {older : List (Event α)} {e : Event α} (h : okAt G older e = true) : e ∉ older := by
  cases e <;> simp [okAt] at h
  · exact h
  · exact h.1.2
  · exact h.1.2
  · exact h.1.2

theorem wo_nodup : ∀ {lg : List (Event α)}, wo G lg = true → lg.Nodup := by
  intro lg
  induction lg with
  | nil => intro _; exact List.nodup_nil
  | cons e older ih =>
    intro h
    exact List.nodup_cons.mpr ⟨okAt_not_mem (wo_head h), ih (wo_tail h)⟩

/-- what `okAt` says about a `ctor-end` -/
theorem okAt_ctorEnd {older : List (Event α)} {m : α} (h : okAt G older (Event.ctorEnd m) = true) :
    Event.ctorBegin m ∈ older ∧ Event.ctorEnd m ∉ older ∧ ∀ d, d ∈ G m → Event.ctorEnd d ∈ older := by
  simp [okAt] at h
  exact ⟨h.1.1, h.1.2, h.2⟩

theorem okAt_postInit {older : List (Event α)} {m : α} (h : okAt G older (Event.postInit m) = true) :
    Event.ctorEnd m ∈ older ∧ Event.postInit m ∉ older ∧ ∀ d, d ∈ G m → Event.postInit d ∈ older := by
  simp [okAt] at h
  exact ⟨h.1.1, h.1.2, h.2⟩

theorem okAt_dtor {older : List (Event α)} {m : α} (h : okAt G older (Event.dtor m) = true) :
    Event.ctorEnd m ∈ older ∧ Event.dtor m ∉ older ∧ ∀ d, d ∈ G m → Event.dtor d ∉ older := by
  simp [okAt] at h
  exact ⟨h.1.1, h.1.2, h.2⟩

/-- chronological reading of a split of the newest-first log -/
theorem before_of_split {l older : List (Event α)} {a b : Event α} (ha : a ∈ older) :
    Before (l ++ b :: older).reverse a b := by
  refine ⟨older.reverse, l.reverse, ?_, List.mem_reverse.mpr ha⟩
  simp [List.reverse_append]

theorem wo_ctorEnd_before {lg : List (Event α)} (h : wo G lg = true) {m d : α}
    (hm : Event.ctorEnd m ∈ lg) (hd : d ∈ G m) : Before lg.reverse (Event.ctorEnd d) (Event.ctorEnd m) := by
  obtain ⟨l, older, rfl⟩ := List.append_of_mem hm
  exact before_of_split ((okAt_ctorEnd (wo_split h)).2.2 d hd)

theorem wo_ctorBegin_before {lg : List (Event α)} (h : wo G lg = true) {m : α}
    (hm : Event.ctorEnd m ∈ lg) : Before lg.reverse (Event.ctorBegin m) (Event.ctorEnd m) := by
  obtain ⟨l, older, rfl⟩ := List.append_of_mem hm
  exact before_of_split (okAt_ctorEnd (wo_split h)).1

theorem wo_postInit_before {lg : List (Event α)} (h : wo G lg = true) {m d : α}
    (hm : Event.postInit m ∈ lg) (hd : d ∈ G m) : Before lg.reverse (Event.postInit d) (Event.postInit m) := by
  obtain ⟨l, older, rfl⟩ := List.append_of_mem hm
  exact before_of_split ((okAt_postInit (wo_split h)).2.2 d hd)

theorem wo_ctorEnd_before_postInit {lg : List (Event α)} (h : wo G lg = true) {m : α}
    (hm : Event.postInit m ∈ lg) : Before lg.reverse (Event.ctorEnd m) (Event.postInit m) := by
  obtain ⟨l, older, rfl⟩ := List.append_of_mem hm
  exact before_of_split (okAt_postInit (wo_split h)).1

/-- a module that finished constructing does not depend on itself -/
theorem wo_dep_ne {lg : List (Event α)} (h : wo G lg = true) {m d : α}
    (hm : Event.ctorEnd m ∈ lg) (hd : d ∈ G m) : d ≠ m := by
  obtain ⟨l, older, rfl⟩ := List.append_of_mem hm
  have hok := okAt_ctorEnd (wo_split h)
  rintro rfl
  exact hok.2.1 (hok.2.2 d hd)

theorem wo_dtor_before {lg : List (Event α)} (h : wo G lg = true) {m d : α}
    (hm : Event.dtor m ∈ lg) (hdd : Event.dtor d ∈ lg) (hd : d ∈ G m) (hne : d ≠ m) :
    Before lg.reverse (Event.dtor m) (Event.dtor d) := by
  obtain ⟨l, older, rfl⟩ := List.append_of_mem hm
  have hok := okAt_dtor (wo_split h)
  have hdl : Event.dtor d ∈ l := by
    rcases List.mem_append.mp hdd with h1 | h1
    · exact h1
    · rcases List.mem_cons.mp h1 with e | h2
      · injection e with e'; exact absurd e' hne
      · exact absurd h2 (hok.2.2 d hd)
  obtain ⟨l1, l2, rfl⟩ := List.append_of_mem hdl
  have : l1 ++ Event.dtor d :: l2 ++ Event.dtor m :: older = l1 ++ Event.dtor d :: (l2 ++ Event.dtor m :: older) := by
    simp
  rw [this]
  exact before_of_split (by simp)

/-! ### the positions of the `ctor-end` events as a rank -/

def rankOf : List (Event α) → α → Nat
  | [], _ => 0
  | e :: older, a => if e = Event.ctorEnd a then older.length + 1 else rankOf older a

theorem rankOf_le : ∀ (lg : List (Event α)) (a : α), rankOf lg a ≤ lg.length := by
  intro lg
  induction lg with
  | nil => intro a; exact Nat.le_refl _
  | cons e older ih =>
    intro a
    unfold rankOf
    by_cases h : e = Event.ctorEnd a
    · rw [if_pos h]; simp
    · rw [if_neg h]; have := ih a; simp; omega

theorem wo_ctorEnd_dep : ∀ {lg : List (Event α)}, wo G lg = true → ∀ {m d : α},
    Event.ctorEnd m ∈ lg → d ∈ G m → Event.ctorEnd d ∈ lg := by
  intro lg h m d hm hd
  obtain ⟨l, older, rfl⟩ := List.append_of_mem hm
  have := (okAt_ctorEnd (wo_split h)).2.2 d hd
  exact List.mem_append_right _ (List.mem_cons_of_mem _ this)

theorem rankOf_lt : ∀ {lg : List (Event α)}, wo G lg = true → ∀ {m d : α},
    Event.ctorEnd m ∈ lg → d ∈ G m → rankOf lg d < rankOf lg m := by
  intro lg
  induction lg with
  | nil => intro _ m d hm; cases hm
  | cons e older ih =>
    intro h m d hm hd
    have hok := wo_head h
    have hwo := wo_tail h
    unfold rankOf
    by_cases hem : e = Event.ctorEnd m
    · rw [if_pos hem]
      subst hem
      have hreq := okAt_ctorEnd hok
      have hne : ¬ (Event.ctorEnd m = Event.ctorEnd d) := by
        intro e'
        injection e' with e''
        subst e''
        exact hreq.2.1 (hreq.2.2 m hd)
      rw [if_neg hne]
      have := rankOf_le older d
      omega
    · rw [if_neg hem]
      have hm' : Event.ctorEnd m ∈ older := by
        rcases List.mem_cons.mp hm with e' | h'
        · exact absurd e'.symm hem
        · exact h'
      by_cases hed : e = Event.ctorEnd d
      · -- `ctor-end d` is the newest event, but `m` (older) already needed it
        subst hed
        have h1 : Event.ctorEnd d ∈ older := wo_ctorEnd_dep hwo hm' hd
        exact absurd h1 (okAt_ctorEnd hok).2.1
      · rw [if_neg hed]
        exact ih hwo hm' hd

/-! ### the checker's reachability computation is exact on a finite closed universe -/

theorem closure_succ (G : α → List α) (k : Nat) (S : List α) :
    closure G (k + 1) S = closure G k (S ++ S.flatMap G) := rfl

theorem closure_mono (G : α → List α) : ∀ k S x, x ∈ S → x ∈ closure G k S := by
  intro k
  induction k with
  | zero => intro S x h; exact h
  | succ k ih =>
    intro S x h
    rw [closure_succ]
    exact ih _ x (List.mem_append_left _ h)

theorem closure_sound (G : α → List α) : ∀ k S x, x ∈ closure G k S → ∃ s, s ∈ S ∧ Reach G s x := by
  intro k
  induction k with
  | zero => intro S x h; exact ⟨x, h, Reach.refl x⟩
  | succ k ih =>
    intro S x h
    rw [closure_succ] at h
    obtain ⟨s, hs, hr⟩ := ih _ x h
    rcases List.mem_append.mp hs with hs | hs
    · exact ⟨s, hs, hr⟩
    · obtain ⟨b, hb, hsb⟩ := List.mem_flatMap.mp hs
      exact ⟨b, hb, Reach.head hsb hr⟩

/-- how many names of the universe the set already holds -/
def cnt (U S : List α) : Nat := (U.filter (fun x => decide (x ∈ S))).length

theorem closed_reach {S : List α} (hcl : ∀ x, x ∈ S → ∀ d, d ∈ G x → d ∈ S) {s m : α} (hs : s ∈ S)
    (hr : Reach G s m) : m ∈ S := by
  induction hr with
  | refl => exact hs
  | tail _ hc ih => exact hcl _ ih _ hc

theorem closure_complete {U : List α} (hU : ∀ m, m ∈ U → ∀ d, d ∈ G m → d ∈ U) :
    ∀ k S, (∀ s, s ∈ S → s ∈ U) → U.length ≤ cnt U S + k →
      ∀ m, (∃ s, s ∈ S ∧ Reach G s m) → m ∈ closure G k S := by
  intro k
  induction k with
  | zero =>
    intro S hS hlen m hm
    obtain ⟨s, hs, hr⟩ := hm
    -- everything of `U` is in `S`
    have hmU : m ∈ U := by
      have : ∀ {x}, Reach G s x → x ∈ U := by
        intro x hx
        induction hx with
        | refl => exact hS s hs
        | tail _ hc ih => exact hU _ ih _ hc
      exact this hr
    apply Classical.byContradiction
    intro hn
    have hn : m ∉ S := hn
    have hlt : cnt U S < (U.filter (fun _ => true)).length := by
      unfold cnt
      apply length_filter_lt_of_imp
      · intro _ _ _; rfl
      · exact ⟨m, hmU, rfl, by simpa using hn⟩
    have : (U.filter (fun _ => true)).length = U.length := by simp
    omega
  | succ k ih =>
    intro S hS hlen m hm
    rw [closure_succ]
    have hS' : ∀ s, s ∈ S ++ S.flatMap G → s ∈ U := by
      intro s hs
      rcases List.mem_append.mp hs with hs | hs
      · exact hS s hs
      · obtain ⟨b, hb, hsb⟩ := List.mem_flatMap.mp hs
        exact hU b (hS b hb) s hsb
    by_cases hcl : ∀ x, x ∈ S → ∀ d, d ∈ G x → d ∈ S
    · obtain ⟨s, hs, hr⟩ := hm
      exact closure_mono G k _ m (List.mem_append_left _ (closed_reach hcl hs hr))
    · have hex : ∃ x, x ∈ S ∧ ∃ d, d ∈ G x ∧ d ∉ S := by
        apply Classical.byContradiction
        intro hne
        apply hcl
        intro x hx d hd
        apply Classical.byContradiction
        intro hdn
        exact hne ⟨x, hx, d, hd, hdn⟩
      obtain ⟨x, hx, d, hd, hdn⟩ := hex
      have hgrow : cnt U S < cnt U (S ++ S.flatMap G) := by
        unfold cnt
        apply length_filter_lt_of_imp
        · intro y _ hy
          simp only [decide_eq_true_eq] at hy ⊢
          exact List.mem_append_left _ hy
        · refine ⟨d, hU x (hS x hx) d hd, ?_, by simpa using hdn⟩
          simp only [decide_eq_true_eq]
          exact List.mem_append_right _ (List.mem_flatMap.mpr ⟨x, hx, hd⟩)
      apply ih _ hS' (by omega)
      obtain ⟨s, hs, hr⟩ := hm
      exact ⟨s, List.mem_append_left _ hs, hr⟩

theorem mem_closure_iff {U S : List α} (hU : ∀ m, m ∈ U → ∀ d, d ∈ G m → d ∈ U) (hS : ∀ s, s ∈ S → s ∈ U)
    (m : α) : m ∈ closure G U.length S ↔ ∃ s, s ∈ S ∧ Reach G s m :=
  ⟨closure_sound G _ S m, closure_complete hU _ S hS (by omega) m⟩

theorem mem_reachable_iff {U L : List α} (hcl : Closed G U L) (m : α) :
    m ∈ reachable G U L ↔ Loaded G L m := mem_closure_iff hcl.2 hcl.1 m

theorem onCycle_sound {U : List α} {m : α} (h : onCycle G U m = true) : Reach1 G m m := by
  unfold onCycle at h
  simp only [decide_eq_true_eq] at h
  obtain ⟨b, hb, hr⟩ := closure_sound G _ _ m h
  exact Reach1.of_head hb hr

theorem onCycle_iff {U : List α} (hU : ∀ m, m ∈ U → ∀ d, d ∈ G m → d ∈ U) {m : α} (hm : m ∈ U) :
    onCycle G U m = true ↔ Reach1 G m m := by
  constructor
  · exact onCycle_sound
  · intro h
    obtain ⟨b, hb, hr⟩ := h.to_head
    unfold onCycle
    simp only [decide_eq_true_eq]
    exact (mem_closure_iff hU (fun s hs => hU m hm s hs) m).mpr ⟨b, hb, hr⟩

theorem mustAbort_iff {ok : α → Bool} {U L : List α} (hcl : Closed G U L) :
    mustAbort G ok U L = true ↔ ∃ m, Loaded G L m ∧ (ok m = false ∨ Reach1 G m m) := by
  unfold mustAbort
  rw [List.any_eq_true]
  constructor
  · rintro ⟨m, hm, h⟩
    have hmL := (mem_reachable_iff hcl m).mp hm
    refine ⟨m, hmL, ?_⟩
    simp only [Bool.or_eq_true, Bool.not_eq_true'] at h
    rcases h with h | h
    · exact Or.inl h
    · exact Or.inr (onCycle_sound h)
  · rintro ⟨m, hmL, h⟩
    refine ⟨m, (mem_reachable_iff hcl m).mpr hmL, ?_⟩
    simp only [Bool.or_eq_true, Bool.not_eq_true']
    rcases h with h | h
    · exact Or.inl h
    · exact Or.inr ((onCycle_iff hcl.2 (hcl.loaded hmL)).mpr h)

end
end Iauthd.Module
