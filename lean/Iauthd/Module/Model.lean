/-
  Model of src/module.c (+ `const_string_vector_remove` of src/common.c) as driven by
  src/main.c: load the configured module list, run the post-init walk, and at exit
  unload everything.

  What a module *is* for the model:
    * `G : α → List α`   what the module's constructor passes to `module_depends`,
                         one name at a time, in this order;
    * `ok : α → Bool`    whether `dlopen` finds a shared object for the name.

  The functions mirror the C control flow, oddities included:
    * `load`        = `module_load`: the record is inserted into the `modules` set
                      *before* the constructor runs; `dependsLoop` = `module_depends`
                      called from inside the constructor: a name already in the set
                      (even a half-constructed one: a dependency cycle) is not loaded
                      again; both edge directions are recorded, duplicates included;
    * `postInitPhase` = second half of `module_load_list`: re-mark previously
                      visited modules with 1, then walk the set in name order; every
                      walk root first appends its own name *again* to the `rdepends`
                      of each of its dependencies, then runs `module_dfs`;
    * `dfsPinned`   = `module_dfs` of the pinned tree (one mark per walk);
      `dfsFixed`    = `module_dfs` after the repair of F20 (`-visit` while the module
                      is on the walk's stack, `visit` once it is finished);
    * `closeAll`    = `module_close_all`: passes over the set removing every module
                      whose `rdepends` is empty, until a pass removes nothing, then a
                      final sweep; `cleanup` = `module_cleanup` (removes *all*
                      occurrences of the module's name from each dependency's
                      `rdepends`, then runs the destructor).  `module_get` creates a
                      record for an unknown name (`getOrCreate`): a "phantom" without
                      a handle, whose `dlsym(NULL, …)` is a global lookup.
    * `LOG_FATAL` is `_exit(1)`: no destructor runs (`Res.fatal`, `DfsRes.fatal`);
      a `-1` that reaches `main` is `return EXIT_FAILURE`: the `atexit` chain runs
      (`call_exit_funcs` → `module_close_all`, later `module_clean` →
      `module_close_all` again and `assert(set_size(&modules) == 0)`).

  The `modules` set is a list of records kept sorted by `lt` (the order of
  `set_compare_charp`); C19 justifies reading the splay tree as a sorted list.
  Iteration with `set_first`/`set_next` over a set that only shrinks at the current
  node is modelled by iterating over the names present when the loop starts.

  Not modelled: `module_antidepends`, `module_is_backend` (no stub uses them; the
  shipped modules do not either), names that differ only in case (the set compares
  with `strcasecmp`, `dlopen` does not).

  Recursion in C is unbounded; here `load` and the two `dfs` take fuel.  Running out
  of fuel is the distinct outcome `Why.fuel`; `Iauthd.Properties.C20.fuel_suffices` shows it
  never happens, for any graph, when the fuel exceeds the number of names.
-/
namespace Iauthd.Module

inductive Event (α : Type) where
  | ctorBegin (m : α)
  | ctorEnd (m : α)
  | postInit (m : α)
  | dtor (m : α)
  deriving DecidableEq, Repr

/-- `struct module` -/
structure Rec (α : Type) where
  name : α
  depends : List α := []
  rdepends : List α := []
  handle : Bool := false
  visited : Int := 0
  deriving Repr

inductive Why (α : Type) where
  | none
  | loop (a b : α)          -- "Module dependency loop: a -> b"
  | unloadable (m : α)      -- "Unable to load module m: …"
  | fuel                    -- model artefact, never an outcome (fuel_suffices)
  deriving DecidableEq, Repr

/-- the `modules` set (sorted by name) and the event log, newest event first -/
structure St (α : Type) where
  mods : List (Rec α) := []
  log : List (Event α) := []

section
variable {α : Type} [DecidableEq α]

def find? (n : α) (mods : List (Rec α)) : Option (Rec α) :=
  mods.find? (fun r => decide (r.name = n))

def names (mods : List (Rec α)) : List α := mods.map (·.name)

/-- update the record called `n` (the updates used below never touch `name`) -/
def modify (n : α) (f : Rec α → Rec α) (mods : List (Rec α)) : List (Rec α) :=
  mods.map (fun r => if r.name = n then f r else r)

/-- `set_remove(&modules, module, 0)` minus the dispose call -/
def erase (n : α) (mods : List (Rec α)) : List (Rec α) :=
  mods.filter (fun r => decide (r.name ≠ n))

def addDep (d : α) (r : Rec α) : Rec α := { r with depends := r.depends ++ [d] }
def addRdep (m : α) (r : Rec α) : Rec α := { r with rdepends := r.rdepends ++ [m] }
/-- `const_string_vector_remove`: every occurrence goes -/
def dropRdep (m : α) (r : Rec α) : Rec α := { r with rdepends := r.rdepends.filter (fun x => decide (x ≠ m)) }
def setVisited (v : Int) (r : Rec α) : Rec α := { r with visited := v }
def setHandle (r : Rec α) : Rec α := { r with handle := true }

def logEv (e : Event α) (s : St α) : St α := { s with log := e :: s.log }

variable (lt : α → α → Bool)

/-- `set_insert` of a fresh node into the sorted list -/
def insertRec (r : Rec α) : List (Rec α) → List (Rec α)
  | [] => [r]
  | x :: xs => if lt r.name x.name then r :: x :: xs else x :: insertRec r xs

/-- `module_get`: find the record or create an empty one -/
def getOrCreate (n : α) (s : St α) : St α :=
  if (find? n s.mods).isSome then s else { s with mods := insertRec lt { name := n } s.mods }

/-! ### loading -/

inductive Res (α : Type) where
  | ok (s : St α)
  | fatal (s : St α) (w : Why α)

variable (G : α → List α) (ok : α → Bool)

/-- the body of `module_depends`, one call per declared name, `ld` = `module_load` -/
def dependsLoop (ld : α → St α → Res α) (m : α) : List α → St α → Res α
  | [], s => .ok s
  | d :: ds, s =>
    match (if (find? d s.mods).isSome then Res.ok s else ld d s) with
    | .fatal s' w => .fatal s' w
    | .ok s1 =>
      dependsLoop ld m ds { s1 with mods := modify d (addRdep m) (modify m (addDep d) s1.mods) }

/-- `module_load` -/
def load : Nat → α → St α → Res α
  | 0, _, s => .fatal s .fuel
  | f + 1, n, s =>
    if (find? n s.mods).isSome then .ok s
    else
      let s1 : St α := { s with mods := insertRec lt { name := n } s.mods }
      if ok n = false then .fatal s1 (.unloadable n)
      else
        let s2 : St α := { mods := modify n setHandle s1.mods, log := .ctorBegin n :: s1.log }
        match dependsLoop (load f) n (G n) s2 with
        | .fatal s' w => .fatal s' w
        | .ok s3 => .ok (logEv (.ctorEnd n) s3)

/-- first loop of `module_load_list` -/
def loadAll (fuel : Nat) : List α → St α → Res α
  | [], s => .ok s
  | n :: ns, s =>
    match load lt G ok fuel n s with
    | .fatal s' w => .fatal s' w
    | .ok s' => loadAll fuel ns s'

/-! ### the post-init walk -/

inductive DfsRes (α : Type) where
  | done (s : St α)               -- returned 0
  | loop (s : St α)               -- returned -1
  | fatal (s : St α) (w : Why α)  -- LOG_FATAL

/-- the `for` loop of `module_dfs`; `mark` is the value that means "loop" -/
def dfsLoop (rec : α → St α → DfsRes α) (m : α) (mark : Int) : List α → St α → DfsRes α
  | [], s => .done s
  | d :: ds, s =>
    let s1 := getOrCreate lt d s
    match find? d s1.mods with
    | none => .done s1   -- not reachable: getOrCreate made sure it exists
    | some other =>
      if other.visited = mark then .loop s1
      else
        match rec d s1 with
        | .loop s2 => .fatal s2 (.loop m other.name)
        | .fatal s2 w => .fatal s2 w
        | .done s2 => dfsLoop rec m mark ds s2

/-- `module_dfs` as pinned: one mark `visit` for "on the current path" and
    "finished earlier in this walk" alike. -/
def dfsPinned : Nat → α → Int → St α → DfsRes α
  | 0, _, _, s => .fatal s .fuel
  | f + 1, m, visit, s =>
    match find? m s.mods with
    | none => .done s
    | some r =>
      if r.visited ≠ 0 ∧ r.visited < visit then .done s
      else
        let s1 : St α := { s with mods := modify m (setVisited visit) s.mods }
        match dfsLoop lt (fun d => dfsPinned f d visit) m visit r.depends s1 with
        | .done s2 => .done (if r.handle then logEv (.postInit m) s2 else s2)
        | other => other

/-- `module_dfs` after the repair: `-visit` while on the stack, `visit` when finished. -/
def dfsFixed : Nat → α → Int → St α → DfsRes α
  | 0, _, _, s => .fatal s .fuel
  | f + 1, m, visit, s =>
    match find? m s.mods with
    | none => .done s
    | some r =>
      if r.visited > 0 then .done s
      else
        let s1 : St α := { s with mods := modify m (setVisited (-visit)) s.mods }
        match dfsLoop lt (fun d => dfsFixed f d visit) m (-visit) r.depends s1 with
        | .done s2 =>
          let s3 := if r.handle then logEv (.postInit m) s2 else s2
          .done { s3 with mods := modify m (setVisited visit) s3.mods }
        | other => other

/-- "Set visit count for previously visited modules" -/
def resetMarks (s : St α) : St α × Int :=
  ({ s with mods := s.mods.map (fun r => if r.visited ≠ 0 then setVisited 1 r else r) },
   if s.mods.any (fun r => decide (r.visited ≠ 0)) then 1 else 0)

/-- "Update rdepends list for this module's dependencies" (walk roots only) -/
def rootAppend (m : α) : List α → St α → St α
  | [], s => s
  | d :: ds, s =>
    let s1 := getOrCreate lt d s
    rootAppend m ds { s1 with mods := modify d (addRdep m) s1.mods }

def walkRoots (dfs : α → Int → St α → DfsRes α) : List α → Int → St α → DfsRes α
  | [], _, s => .done s
  | n :: ns, visit, s =>
    match find? n s.mods with
    | none => walkRoots dfs ns visit s
    | some r =>
      if r.visited ≠ 0 then walkRoots dfs ns visit s
      else
        match dfs n (visit + 1) (rootAppend lt n r.depends s) with
        | .done s2 => walkRoots dfs ns (visit + 1) s2
        | other => other

def postInitPhase (dfs : Nat → α → Int → St α → DfsRes α) (s : St α) : DfsRes α :=
  let (s1, v) := resetMarks s
  walkRoots lt (dfs (s1.mods.length + 1)) (names s1.mods) v s1

/-! ### unloading -/

/-- the module a global `dlsym(NULL, "module_destructor")` finds: the oldest module that
    is still open (argument: chronological log) -/
def firstOpen (chron : List (Event α)) : Option α :=
  (chron.filterMap fun e => match e with
    | .ctorBegin m => if chron.contains (.dtor m) then none else some m
    | _ => none).head?

/-- the dependency loop of `module_cleanup` -/
def cleanupDeps (m : α) : List α → St α → St α
  | [], s => s
  | d :: ds, s =>
    let s1 := getOrCreate lt d s
    cleanupDeps m ds { s1 with mods := modify d (dropRdep m) s1.mods }

/-- `module_cleanup` for a record that `set_remove` has already unlinked -/
def cleanup (r : Rec α) (s : St α) : St α :=
  let s1 := cleanupDeps lt r.name r.depends s
  if r.handle then logEv (.dtor r.name) s1
  else match firstOpen s1.log.reverse with
    | some x => logEv (.dtor x) s1
    | none => s1

/-- one `for` pass of the `do … while (progress)` loop -/
def closePass : List α → St α → Bool → St α × Bool
  | [], s, p => (s, p)
  | n :: ns, s, p =>
    match find? n s.mods with
    | none => closePass ns s p
    | some r =>
      if r.rdepends.isEmpty then closePass ns (cleanup lt r { s with mods := erase n s.mods }) true
      else closePass ns s p

/-- the `do … while (progress)` loop; the flag says the fuel was enough -/
def rounds : Nat → St α → St α × Bool
  | 0, s => (s, false)
  | k + 1, s =>
    match closePass lt (names s.mods) s false with
    | (s', true) => rounds k s'
    | (s', false) => (s', true)

/-- "Go through and remove any remaining modules." -/
def sweep : List α → St α → St α
  | [], s => s
  | n :: ns, s =>
    match find? n s.mods with
    | none => sweep ns s
    | some r => sweep ns (cleanup lt r { s with mods := erase n s.mods })

/-- `module_close_all` -/
def closeAll (s : St α) : St α × Bool :=
  match rounds lt (s.mods.length + 1) s with
  | (s1, fuelOk) => (sweep lt (names s1.mods) s1, fuelOk)

/-! ### the whole life of the process -/

structure Outcome (α : Type) where
  status : Nat                 -- exit status; 128 + n = killed by signal n
  why : Why α
  events : List (Event α)      -- chronological

/-- `exit(code)`: `call_exit_funcs` runs `module_close_all`, later `module_clean` runs it
    again and asserts that the set is empty. -/
def exitChain (code : Nat) (s : St α) : Outcome α :=
  match closeAll lt s with
  | (s1, f1) =>
    match closeAll lt s1 with
    | (s2, f2) =>
      if (f1 && f2) = false then { status := 255, why := .fuel, events := s2.log.reverse }
      else if s2.mods.isEmpty then { status := code, why := .none, events := s2.log.reverse }
      else { status := 134, why := .none, events := s2.log.reverse }

/-- `main`: one `module_load_list` call per list (the daemon makes exactly one). -/
def runLists (dfs : Nat → α → Int → St α → DfsRes α) (fuel : Nat) : List (List α) → St α → Outcome α
  | [], s => exitChain lt 0 s
  | l :: ls, s =>
    match loadAll lt G ok fuel l s with
    | .fatal s' w => { status := 1, why := w, events := s'.log.reverse }
    | .ok s1 =>
      match postInitPhase lt dfs s1 with
      | .fatal s' w => { status := 1, why := w, events := s'.log.reverse }
      | .loop s' => exitChain lt 1 s'
      | .done s2 => runLists dfs fuel ls s2

/-- the repaired daemon on configuration list `l` -/
def run (fuel : Nat) (l : List α) : Outcome α :=
  runLists lt G ok (dfsFixed lt) fuel [l] {}

/-- the pinned daemon -/
def runPinned (fuel : Nat) (l : List α) : Outcome α :=
  runLists lt G ok (dfsPinned lt) fuel [l] {}

end
end Iauthd.Module
