import Iauthd.Module.ProofsBasic
/-
  The loading phase (`load`, `dependsLoop`, `loadAll`): invariant, termination within
  the fuel, and what the state and the log look like afterwards.

  `ac` is a switch: the facts that need acyclicity (`wo`, "a module found in the set
  is already fully constructed") are stated under `ac →`, with `hac : ac → NoCycle`.
  Everything else holds for every graph.
-/
set_option linter.unusedSectionVars false
set_option linter.unusedSimpArgs false
set_option linter.unusedVariables false

namespace Iauthd.Module

section
variable {α : Type} [DecidableEq α]

/-- begun but not finished constructing: on `module_load`'s call stack -/
def Incomplete (s : St α) (x : α) : Prop := Event.ctorBegin x ∈ s.log ∧ Event.ctorEnd x ∉ s.log

def OnlyCtor (lg : List (Event α)) : Prop :=
  ∀ e, e ∈ lg → (∃ n, e = Event.ctorBegin n) ∨ (∃ n, e = Event.ctorEnd n)

/-- number of names of the universe that are not loaded yet (the fuel measure) -/
def unl (U : List α) (s : St α) : Nat := (U.filter (fun x => decide (x ∉ names s.mods))).length

theorem unl_le {U : List α} {s s' : St α} (h : ∀ x, x ∈ names s.mods → x ∈ names s'.mods) :
    unl U s' ≤ unl U s := by
  unfold unl
  apply length_filter_le_of_imp
  intro x _ hx
  simp only [decide_eq_true_eq] at hx ⊢
  exact fun hin => hx (h x hin)

theorem unl_lt {U : List α} {s s' : St α} (h : ∀ x, x ∈ names s.mods → x ∈ names s'.mods)
    {n : α} (hn : n ∈ U) (h1 : n ∉ names s.mods) (h2 : n ∈ names s'.mods) : unl U s' < unl U s := by
  unfold unl
  apply length_filter_lt_of_imp
  · intro x _ hx
    simp only [decide_eq_true_eq] at hx ⊢
    exact fun hin => hx (h x hin)
  · exact ⟨n, hn, by simpa using h1, by simpa using h2⟩

variable (G : α → List α) (ok : α → Bool)

structure LInv (L : List α) (ac : Prop) (s : St α) : Prop where
  nodup : (names s.mods).Nodup
  fresh : ∀ a r, find? a s.mods = some r → r.handle = true ∧ r.visited = 0
  okAll : ∀ a, a ∈ names s.mods → ok a = true
  deps_in : ∀ a r, find? a s.mods = some r → ∀ d, d ∈ r.depends → d ∈ names s.mods
  rdeps_in : ∀ a r, find? a s.mods = some r → ∀ x, x ∈ r.rdepends → x ∈ names s.mods
  c1 : ∀ a ra b rb, find? a s.mods = some ra → find? b s.mods = some rb →
        (a ∈ rb.rdepends ↔ b ∈ ra.depends)
  deps_done : ∀ a r, find? a s.mods = some r → Event.ctorEnd a ∈ s.log → r.depends = G a
  begun : ∀ a, Event.ctorBegin a ∈ s.log ↔ a ∈ names s.mods
  ended : ∀ a, Event.ctorEnd a ∈ s.log → Event.ctorBegin a ∈ s.log
  loaded : ∀ a, a ∈ names s.mods → Loaded G L a
  onlyCtor : OnlyCtor s.log
  wo : ac → wo G s.log = true

/-! ### recording one dependency edge -/

/-- the two appends at the end of `module_depends`' loop body -/
def edgeStep (m d : α) (s : St α) : St α :=
  { s with mods := modify d (addRdep m) (modify m (addDep d) s.mods) }

def edgeUpd (a m d : α) (r : Rec α) : Rec α :=
  { r with depends := r.depends ++ (if a = m then [d] else []),
           rdepends := r.rdepends ++ (if a = d then [m] else []) }

theorem find?_edge (a m d : α) (mods : List (Rec α)) :
    find? a (modify d (addRdep m) (modify m (addDep d) mods)) = (find? a mods).map (edgeUpd a m d) := by
  rw [find?_modify' (by simp), find?_modify' (by simp)]
  cases find? a mods with
  | none => rfl
  | some r =>
    cases r
    by_cases h1 : a = m
    · subst h1
      by_cases h2 : a = d
      · subst h2
        simp [edgeUpd, addDep, addRdep]
      · simp [h2, edgeUpd, addDep, addRdep]
    · by_cases h2 : a = d
      · subst h2
        simp [h1, edgeUpd, addDep, addRdep]
      · simp [h1, h2, edgeUpd, addDep, addRdep]

theorem names_edge (m d : α) (s : St α) : names (edgeStep m d s).mods = names s.mods := by
  unfold edgeStep
  simp only
  rw [names_modify (by simp), names_modify (by simp)]

theorem find?_edgeStep {a m d : α} {s : St α} {r2 : Rec α} (h : find? a (edgeStep m d s).mods = some r2) :
    ∃ r1, find? a s.mods = some r1 ∧ r2 = edgeUpd a m d r1 := by
  unfold edgeStep at h
  simp only at h
  rw [find?_edge, Option.map_eq_some_iff] at h
  obtain ⟨r1, h1, h2⟩ := h
  exact ⟨r1, h1, h2.symm⟩

variable {G ok}

theorem LInv.edge {L : List α} {ac : Prop} {s : St α} (h : LInv G ok L ac s) {m d : α}
    (hm : m ∈ names s.mods) (hd : d ∈ names s.mods) (hminc : Event.ctorEnd m ∉ s.log) :
    LInv G ok L ac (edgeStep m d s) := by
  have hn := names_edge m d s
  have hl : (edgeStep m d s).log = s.log := rfl
  constructor
  · rw [hn]; exact h.nodup
  · intro a r2 h2
    obtain ⟨r1, h1, rfl⟩ := find?_edgeStep h2
    exact h.fresh a r1 h1
  · intro a ha; rw [hn] at ha; exact h.okAll a ha
  · intro a r2 h2 x hx
    obtain ⟨r1, h1, rfl⟩ := find?_edgeStep h2
    rw [hn]
    simp only [edgeUpd, List.mem_append] at hx
    rcases hx with hx | hx
    · exact h.deps_in a r1 h1 x hx
    · by_cases e : a = m
      · simp [e] at hx; rw [hx]; exact hd
      · simp [e] at hx
  · intro a r2 h2 x hx
    obtain ⟨r1, h1, rfl⟩ := find?_edgeStep h2
    rw [hn]
    simp only [edgeUpd, List.mem_append] at hx
    rcases hx with hx | hx
    · exact h.rdeps_in a r1 h1 x hx
    · by_cases e : a = d
      · simp [e] at hx; rw [hx]; exact hm
      · simp [e] at hx
  · intro a ra2 b rb2 ha hb
    obtain ⟨ra, ha1, rfl⟩ := find?_edgeStep ha
    obtain ⟨rb, hb1, rfl⟩ := find?_edgeStep hb
    have := h.c1 a ra b rb ha1 hb1
    simp only [edgeUpd, List.mem_append]
    by_cases e1 : a = m <;> by_cases e2 : b = d <;> simp [e1, e2, this]
    · subst e1; subst e2; exact (h.c1 a ra b rb ha1 hb1)
    · subst e1
      constructor
      · rintro (h' | h')
        · exact Or.inl ((h.c1 a ra b rb ha1 hb1).mp h')
        · exact absurd h'.1 e2
      · rintro (h' | h')
        · exact Or.inl ((h.c1 a ra b rb ha1 hb1).mpr h')
        · exact absurd h' e2
    · subst e2
      constructor
      · rintro (h' | h')
        · exact Or.inl ((h.c1 a ra b rb ha1 hb1).mp h')
        · exact absurd h' e1
      · rintro (h' | h')
        · exact Or.inl ((h.c1 a ra b rb ha1 hb1).mpr h')
        · exact absurd h'.1 e1
  · intro a r2 h2 he
    obtain ⟨r1, h1, rfl⟩ := find?_edgeStep h2
    rw [hl] at he
    have hne : a ≠ m := fun e => hminc (e ▸ he)
    simp only [edgeUpd, hne, if_false, List.append_nil]
    exact h.deps_done a r1 h1 he
  · intro a; rw [hl, hn]; exact h.begun a
  · intro a; rw [hl]; exact h.ended a
  · intro a ha; rw [hn] at ha; exact h.loaded a ha
  · rw [hl]; exact h.onlyCtor
  · rw [hl]; exact h.wo

end
end Iauthd.Module
