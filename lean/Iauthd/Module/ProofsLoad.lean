import Iauthd.Module.ProofsBasic
/-
  The loading phase (`load`, `dependsLoop`, `loadAll`): invariant, termination within
  the fuel, and what the state and the log look like afterwards.

  `ac` is a switch: the facts that need acyclicity (`wo`, "a module found in the set
  is already fully constructed") are stated under `ac →`, with `hac : ac → NoCycle`.
  Everything else holds for every graph.
-/
set_option linter.unusedSectionVars false
set_option linter.unusedSimpArgs false
set_option linter.unusedVariables false

namespace Iauthd.Module

section
variable {α : Type} [DecidableEq α]

/-- begun but not finished constructing: on `module_load`'s call stack -/
def Incomplete (s : St α) (x : α) : Prop := Event.ctorBegin x ∈ s.log ∧ Event.ctorEnd x ∉ s.log

def OnlyCtor (lg : List (Event α)) : Prop :=
  ∀ e, e ∈ lg → (∃ n, e = Event.ctorBegin n) ∨ (∃ n, e = Event.ctorEnd n)

/-- number of names of the universe that are not loaded yet (the fuel measure) -/
def unl (U : List α) (s : St α) : Nat := (U.filter (fun x => decide (x ∉ names s.mods))).length

theorem unl_le {U : List α} {s s' : St α} (h : ∀ x, x ∈ names s.mods → x ∈ names s'.mods) :
    unl U s' ≤ unl U s := by
  unfold unl
  apply length_filter_le_of_imp
  intro x _ hx
  simp only [decide_eq_true_eq] at hx ⊢
  exact fun hin => hx (h x hin)

theorem unl_lt {U : List α} {s s' : St α} (h : ∀ x, x ∈ names s.mods → x ∈ names s'.mods)
    {n : α} (hn : n ∈ U) (h1 : n ∉ names s.mods) (h2 : n ∈ names s'.mods) : unl U s' < unl U s := by
  unfold unl
  apply length_filter_lt_of_imp
  · intro x _ hx
    simp only [decide_eq_true_eq] at hx ⊢
    exact fun hin => hx (h x hin)
  · exact ⟨n, hn, by simpa using h1, by simpa using h2⟩

variable (G : α → List α) (ok : α → Bool)

structure LInv (L : List α) (ac : Prop) (s : St α) : Prop where
  nodup : (names s.mods).Nodup
  fresh : ∀ a r, find? a s.mods = some r → r.handle = true ∧ r.visited = 0
  okAll : ∀ a, a ∈ names s.mods → ok a = true
  deps_in : ∀ a r, find? a s.mods = some r → ∀ d, d ∈ r.depends → d ∈ names s.mods
  rdeps_in : ∀ a r, find? a s.mods = some r → ∀ x, x ∈ r.rdepends → x ∈ names s.mods
  c1 : ∀ a ra b rb, find? a s.mods = some ra → find? b s.mods = some rb →
        (a ∈ rb.rdepends ↔ b ∈ ra.depends)
  deps_done : ∀ a r, find? a s.mods = some r → Event.ctorEnd a ∈ s.log → r.depends = G a
  begun : ∀ a, Event.ctorBegin a ∈ s.log ↔ a ∈ names s.mods
  ended : ∀ a, Event.ctorEnd a ∈ s.log → Event.ctorBegin a ∈ s.log
  loaded : ∀ a, a ∈ names s.mods → Loaded G L a
  onlyCtor : OnlyCtor s.log
  wo : ac → wo G s.log = true

/-! ### recording one dependency edge -/

/-- the two appends at the end of `module_depends`' loop body -/
def edgeStep (m d : α) (s : St α) : St α :=
  { s with mods := modify d (addRdep m) (modify m (addDep d) s.mods) }

def edgeUpd (a m d : α) (r : Rec α) : Rec α :=
  { r with depends := r.depends ++ (if a = m then [d] else []),
           rdepends := r.rdepends ++ (if a = d then [m] else []) }

theorem find?_edge (a m d : α) (mods : List (Rec α)) :
    find? a (modify d (addRdep m) (modify m (addDep d) mods)) = (find? a mods).map (edgeUpd a m d) := by
  rw [find?_modify' (by simp), find?_modify' (by simp)]
  cases find? a mods with
  | none => rfl
  | some r =>
    cases r
    by_cases h1 : a = m
    · subst h1
      by_cases h2 : a = d
      · subst h2
        simp [edgeUpd, addDep, addRdep]
      · simp [h2, edgeUpd, addDep, addRdep]
    · by_cases h2 : a = d
      · subst h2
        simp [h1, edgeUpd, addDep, addRdep]
      · simp [h1, h2, edgeUpd, addDep, addRdep]

theorem names_edge (m d : α) (s : St α) : names (edgeStep m d s).mods = names s.mods := by
  unfold edgeStep
  simp only
  rw [names_modify (by simp), names_modify (by simp)]

theorem find?_edgeStep {a m d : α} {s : St α} {r2 : Rec α} (h : find? a (edgeStep m d s).mods = some r2) :
    ∃ r1, find? a s.mods = some r1 ∧ r2 = edgeUpd a m d r1 := by
  unfold edgeStep at h
  simp only at h
  rw [find?_edge, Option.map_eq_some_iff] at h
  obtain ⟨r1, h1, h2⟩ := h
  exact ⟨r1, h1, h2.symm⟩

variable {G ok}

theorem LInv.edge {L : List α} {ac : Prop} {s : St α} (h : LInv G ok L ac s) {m d : α}
    (hm : m ∈ names s.mods) (hd : d ∈ names s.mods) (hminc : Event.ctorEnd m ∉ s.log) :
    LInv G ok L ac (edgeStep m d s) := by
  have hn := names_edge m d s
  have hl : (edgeStep m d s).log = s.log := rfl
  constructor
  · rw [hn]; exact h.nodup
  · intro a r2 h2
    obtain ⟨r1, h1, rfl⟩ := find?_edgeStep h2
    exact h.fresh a r1 h1
  · intro a ha; rw [hn] at ha; exact h.okAll a ha
  · intro a r2 h2 x hx
    obtain ⟨r1, h1, rfl⟩ := find?_edgeStep h2
    rw [hn]
    simp only [edgeUpd, List.mem_append] at hx
    rcases hx with hx | hx
    · exact h.deps_in a r1 h1 x hx
    · by_cases e : a = m
      · simp [e] at hx; rw [hx]; exact hd
      · simp [e] at hx
  · intro a r2 h2 x hx
    obtain ⟨r1, h1, rfl⟩ := find?_edgeStep h2
    rw [hn]
    simp only [edgeUpd, List.mem_append] at hx
    rcases hx with hx | hx
    · exact h.rdeps_in a r1 h1 x hx
    · by_cases e : a = d
      · simp [e] at hx; rw [hx]; exact hm
      · simp [e] at hx
  · intro a ra2 b rb2 ha hb
    obtain ⟨ra, ha1, rfl⟩ := find?_edgeStep ha
    obtain ⟨rb, hb1, rfl⟩ := find?_edgeStep hb
    have := h.c1 a ra b rb ha1 hb1
    simp only [edgeUpd, List.mem_append]
    by_cases e1 : a = m <;> by_cases e2 : b = d <;> simp [e1, e2, this] <;> (try exact this) <;> (try (rw [← e1]; exact this)) <;> (try (rw [← e2]; exact this))
  · intro a r2 h2 he
    obtain ⟨r1, h1, rfl⟩ := find?_edgeStep h2
    rw [hl] at he
    have hne : a ≠ m := fun e => hminc (e ▸ he)
    simp only [edgeUpd, hne, if_false, List.append_nil]
    exact h.deps_done a r1 h1 he
  · intro a; rw [hl, hn]; exact h.begun a
  · intro a; rw [hl]; exact h.ended a
  · intro a ha; rw [hn] at ha; exact h.loaded a ha
  · rw [hl]; exact h.onlyCtor
  · rw [hl]; exact h.wo

/-! ### the start of a constructor -/

variable (lt : α → α → Bool)

/-- `module_load` has inserted the record, opened the object, and the constructor has
    logged its start -/
def beginStep (n : α) (s : St α) : St α :=
  { mods := modify n setHandle (insertRec lt { name := n } s.mods), log := Event.ctorBegin n :: s.log }

theorem find?_begin {a n : α} {s : St α} (h : n ∉ names s.mods) :
    find? a (beginStep lt n s).mods =
      if a = n then some { name := n, handle := true } else find? a s.mods := by
  unfold beginStep
  simp only
  rw [find?_modify' (by simp), find?_insertRec lt _ _ h]
  by_cases e : a = n
  · subst e; simp [setHandle]
  · simp only [e, if_false]
    cases find? a s.mods <;> simp

theorem mem_names_begin {a n : α} {s : St α} :
    a ∈ names (beginStep lt n s).mods ↔ a = n ∨ a ∈ names s.mods := by
  unfold beginStep
  simp only
  rw [names_modify (by simp), mem_names_insertRec]

theorem LInv.begin {L : List α} {ac : Prop} {s : St α} (h : LInv G ok L ac s) {n : α}
    (hn : n ∉ names s.mods) (hok : ok n = true) (hL : Loaded G L n) :
    LInv G ok L ac (beginStep lt n s) := by
  have hlog : (beginStep lt n s).log = Event.ctorBegin n :: s.log := rfl
  have hnb : Event.ctorBegin n ∉ s.log := fun hb => hn ((h.begun n).mp hb)
  have hne : Event.ctorEnd n ∉ s.log := fun he => hnb (h.ended n he)
  constructor
  · unfold beginStep
    simp only
    rw [names_modify (by simp), nodup_names_insertRec]
    exact ⟨hn, h.nodup⟩
  · intro a r hr
    rw [find?_begin lt hn] at hr
    by_cases e : a = n
    · simp [e] at hr; subst hr; simp
    · simp only [e, if_false] at hr; exact h.fresh a r hr
  · intro a ha
    rcases (mem_names_begin lt).mp ha with rfl | ha
    · exact hok
    · exact h.okAll a ha
  · intro a r hr d hd
    rw [find?_begin lt hn] at hr
    by_cases e : a = n
    · simp [e] at hr; subst hr; simp at hd
    · simp only [e, if_false] at hr
      exact (mem_names_begin lt).mpr (Or.inr (h.deps_in a r hr d hd))
  · intro a r hr d hd
    rw [find?_begin lt hn] at hr
    by_cases e : a = n
    · simp [e] at hr; subst hr; simp at hd
    · simp only [e, if_false] at hr
      exact (mem_names_begin lt).mpr (Or.inr (h.rdeps_in a r hr d hd))
  · intro a ra b rb ha hb
    rw [find?_begin lt hn] at ha hb
    by_cases ea : a = n
    · simp [ea] at ha; subst ha
      by_cases eb : b = n
      · simp [eb] at hb; subst hb; simp
      · simp only [eb, if_false] at hb
        simp only [List.not_mem_nil, iff_false]
        intro hmem
        exact hn (ea ▸ h.rdeps_in b rb hb a hmem)
    · simp only [ea, if_false] at ha
      by_cases eb : b = n
      · simp [eb] at hb; subst hb
        simp only [List.not_mem_nil, false_iff]
        intro hmem
        exact hn (eb ▸ h.deps_in a ra ha b hmem)
      · simp only [eb, if_false] at hb
        exact h.c1 a ra b rb ha hb
  · intro a r hr he
    rw [find?_begin lt hn] at hr
    rw [hlog] at he
    simp only [List.mem_cons, reduceCtorEq, false_or] at he
    by_cases e : a = n
    · exact absurd (e ▸ he) hne
    · simp only [e, if_false] at hr
      exact h.deps_done a r hr he
  · intro a
    rw [hlog, mem_names_begin]
    simp only [List.mem_cons, Event.ctorBegin.injEq]
    rw [h.begun a]
  · intro a he
    rw [hlog] at he ⊢
    simp only [List.mem_cons, reduceCtorEq, false_or] at he
    exact List.mem_cons_of_mem _ (h.ended a he)
  · intro a ha
    rcases (mem_names_begin lt).mp ha with rfl | ha
    · exact hL
    · exact h.loaded a ha
  · intro e he
    rw [hlog] at he
    rcases List.mem_cons.mp he with rfl | he
    · exact Or.inl ⟨n, rfl⟩
    · exact h.onlyCtor e he
  · intro hacv
    rw [hlog]
    simp only [Iauthd.Module.wo, okAt, Bool.and_eq_true, decide_eq_true_eq]
    exact ⟨hnb, h.wo hacv⟩

/-- the constructor returns: `ctor-end` is logged -/
theorem LInv.finish {L : List α} {ac : Prop} {s : St α} (h : LInv G ok L ac s) {n : α}
    (hrec : ∃ r, find? n s.mods = some r ∧ r.depends = G n) (hinc : Incomplete s n)
    (hdeps : ac → ∀ d, d ∈ G n → Event.ctorEnd d ∈ s.log) :
    LInv G ok L ac (logEv (Event.ctorEnd n) s) := by
  have hlog : (logEv (Event.ctorEnd n) s).log = Event.ctorEnd n :: s.log := rfl
  have hmods : (logEv (Event.ctorEnd n) s).mods = s.mods := rfl
  constructor
  · rw [hmods]; exact h.nodup
  · rw [hmods]; exact h.fresh
  · rw [hmods]; exact h.okAll
  · rw [hmods]; exact h.deps_in
  · rw [hmods]; exact h.rdeps_in
  · rw [hmods]; exact h.c1
  · intro a r hr he
    rw [hmods] at hr
    rw [hlog] at he
    rcases List.mem_cons.mp he with e | he
    · obtain ⟨r', hr', hd⟩ := hrec
      have : a = n := by injection e
      subst this
      rw [hr] at hr'
      injection hr' with e'
      rw [e']; exact hd
    · exact h.deps_done a r hr he
  · intro a
    rw [hlog, hmods]
    simp only [List.mem_cons, reduceCtorEq, false_or]
    exact h.begun a
  · intro a he
    rw [hlog] at he ⊢
    rcases List.mem_cons.mp he with e | he
    · have : a = n := by injection e
      subst this
      exact List.mem_cons_of_mem _ hinc.1
    · exact List.mem_cons_of_mem _ (h.ended a he)
  · rw [hmods]; exact h.loaded
  · intro e he
    rw [hlog] at he
    rcases List.mem_cons.mp he with rfl | he
    · exact Or.inr ⟨n, rfl⟩
    · exact h.onlyCtor e he
  · intro hacv
    rw [hlog]
    simp only [Iauthd.Module.wo, okAt, Bool.and_eq_true, decide_eq_true_eq, List.all_eq_true]
    exact ⟨⟨⟨hinc.1, hinc.2⟩, hdeps hacv⟩, h.wo hacv⟩

/-! ### `module_depends` and `module_load` -/

variable (G ok)

/-- what a successful `module_load n` guarantees -/
structure LPost (L : List α) (ac : Prop) (s s' : St α) (n : α) : Prop where
  inv : LInv G ok L ac s'
  mem : n ∈ names s'.mods
  mono : ∀ x, x ∈ names s.mods → x ∈ names s'.mods
  inc : ∀ x, Incomplete s' x ↔ Incomplete s x
  logmono : ∀ e, e ∈ s.log → e ∈ s'.log
  keep : ∀ a r, find? a s.mods = some r → ∃ r', find? a s'.mods = some r' ∧ r'.depends = r.depends
  done : ac → Event.ctorEnd n ∈ s'.log

def LoadOk (L : List α) (ac : Prop) (s : St α) (n : α) : Res α → Prop
  | .ok s' => LPost G ok L ac s s' n
  | .fatal s' w => (∃ x, w = Why.unloadable x ∧ ok x = false ∧ Loaded G L x) ∧ OnlyCtor s'.log

/-- what the dependency loop of `m`'s constructor guarantees -/
structure LoopPost (L : List α) (ac : Prop) (m : α) (s s' : St α) : Prop where
  inv : LInv G ok L ac s'
  mrec : ∃ r, find? m s'.mods = some r ∧ r.depends = G m
  minc : Incomplete s' m
  mono : ∀ x, x ∈ names s.mods → x ∈ names s'.mods
  inc : ∀ x, Incomplete s' x ↔ Incomplete s x
  logmono : ∀ e, e ∈ s.log → e ∈ s'.log
  keep : ∀ a r, a ≠ m → find? a s.mods = some r → ∃ r', find? a s'.mods = some r' ∧ r'.depends = r.depends
  depsdone : ac → ∀ d, d ∈ G m → Event.ctorEnd d ∈ s'.log

def LoopOk (L : List α) (ac : Prop) (m : α) (s : St α) : Res α → Prop
  | .ok s' => LoopPost G ok L ac m s s'
  | .fatal s' w => (∃ x, w = Why.unloadable x ∧ ok x = false ∧ Loaded G L x) ∧ OnlyCtor s'.log

variable {G ok}

theorem dependsLoop_cons (ld : α → St α → Res α) (m d : α) (ds : List α) (s : St α) :
    dependsLoop ld m (d :: ds) s =
      match (if (find? d s.mods).isSome then Res.ok s else ld d s) with
      | .fatal s' w => .fatal s' w
      | .ok s1 => dependsLoop ld m ds (edgeStep m d s1) := rfl

/-- a module found in the set while something is still being constructed is itself
    fully constructed, unless there is a cycle -/
theorem found_done {L : List α} {ac : Prop} (hac : ac → NoCycle G L) {s : St α} (h : LInv G ok L ac s)
    {d : α} (hd : d ∈ names s.mods) (hreach : ac → ∀ x, Incomplete s x → Reach1 G x d) :
    ac → Event.ctorEnd d ∈ s.log := by
  intro hacv
  apply Classical.byContradiction
  intro hne
  have hinc : Incomplete s d := ⟨(h.begun d).mpr hd, hne⟩
  exact hac hacv d (h.loaded d hd) (hreach hacv d hinc)

theorem dependsLoop_spec {U L : List α} {ac : Prop} {f : Nat} (hac : ac → NoCycle G L)
    (ld : α → St α → Res α)
    (hld : ∀ d s, LInv G ok L ac s → Loaded G L d → unl U s < f →
            (ac → ∀ x, Incomplete s x → Reach1 G x d) → LoadOk G ok L ac s d (ld d s))
    (m : α) (hmL : Loaded G L m) :
    ∀ ds s, LInv G ok L ac s → (∃ r, find? m s.mods = some r ∧ r.depends ++ ds = G m) →
      Incomplete s m → unl U s < f → (ac → ∀ x, Incomplete s x → Reach G x m) →
      (ac → ∀ r, find? m s.mods = some r → ∀ d, d ∈ r.depends → Event.ctorEnd d ∈ s.log) →
      LoopOk G ok L ac m s (dependsLoop ld m ds s) := by
  intro ds
  induction ds with
  | nil =>
    intro s hinv hrec hminc _ _ hproc
    obtain ⟨r, hr, hrd⟩ := hrec
    simp only [List.append_nil] at hrd
    show LoopPost G ok L ac m s s
    exact {
      inv := hinv
      mrec := ⟨r, hr, hrd⟩
      minc := hminc
      mono := fun _ h => h
      inc := fun _ => Iff.rfl
      logmono := fun _ h => h
      keep := fun a r' _ h => ⟨r', h, rfl⟩
      depsdone := fun hacv d hd => hproc hacv r hr d (hrd ▸ hd) }
  | cons d ds ih =>
    intro s hinv hrec hminc hfuel hreach hproc
    obtain ⟨r, hr, hrd⟩ := hrec
    have hdG : d ∈ G m := by rw [← hrd]; simp
    have hdL : Loaded G L d := hmL.step hdG
    have hm : m ∈ names s.mods := mem_names_of_find? hr
    have hreach1 : ac → ∀ x, Incomplete s x → Reach1 G x d :=
      fun hacv x hx => ⟨m, hreach hacv x hx, hdG⟩
    rw [dependsLoop_cons]
    -- the state after `set_find` / `module_load`
    have hstep : LoadOk G ok L ac s d (if (find? d s.mods).isSome then Res.ok s else ld d s) := by
      by_cases hf : (find? d s.mods).isSome = true
      · rw [if_pos hf]
        have hd : d ∈ names s.mods := find?_isSome_iff.mp hf
        exact {
          inv := hinv
          mem := hd
          mono := fun _ h => h
          inc := fun _ => Iff.rfl
          logmono := fun _ h => h
          keep := fun a r' h => ⟨r', h, rfl⟩
          done := found_done hac hinv hd hreach1 }
      · rw [if_neg hf]
        exact hld d s hinv hdL hfuel hreach1
    generalize (if (find? d s.mods).isSome then Res.ok s else ld d s) = res at hstep
    cases res with
    | fatal s' w => exact hstep
    | ok s1 =>
      have hp : LPost G ok L ac s s1 d := hstep
      simp only
      have hm1 : m ∈ names s1.mods := hp.mono m hm
      have hminc1 : Incomplete s1 m := (hp.inc m).mpr hminc
      obtain ⟨r1, hr1, hr1d⟩ := hp.keep m r hr
      have hinv2 : LInv G ok L ac (edgeStep m d s1) := hp.inv.edge hm1 hp.mem hminc1.2
      have hlog2 : (edgeStep m d s1).log = s1.log := rfl
      have hn2 := names_edge m d s1
      have hfind2 : ∀ a, find? a (edgeStep m d s1).mods = (find? a s1.mods).map (edgeUpd a m d) := by
        intro a; exact find?_edge a m d s1.mods
      have hrec2 : ∃ r, find? m (edgeStep m d s1).mods = some r ∧ r.depends ++ ds = G m := by
        refine ⟨edgeUpd m m d r1, ?_, ?_⟩
        · rw [hfind2, hr1]; rfl
        · simp only [edgeUpd, if_true]
          rw [hr1d, List.append_assoc]
          exact hrd
      have hres := ih (edgeStep m d s1) hinv2 hrec2 (by exact hminc1)
        (by
          have : unl U (edgeStep m d s1) ≤ unl U s := unl_le (by intro x hx; rw [hn2]; exact hp.mono x hx)
          omega)
        (by
          intro hacv x hx
          have hx1 : Incomplete s1 x := hx
          exact hreach hacv x ((hp.inc x).mp hx1))
        (by
          intro hacv r2 hr2 d' hd'
          rw [hfind2, hr1] at hr2
          simp only [Option.map_some, Option.some.injEq] at hr2
          subst hr2
          rw [hlog2]
          simp only [edgeUpd, if_true, List.mem_append, List.mem_singleton] at hd'
          rcases hd' with hd' | rfl
          · rw [hr1d] at hd'
            exact hp.logmono _ (hproc hacv r hr d' hd')
          · exact hp.done hacv)
      generalize dependsLoop ld m ds (edgeStep m d s1) = res2 at hres
      cases res2 with
      | fatal s' w => exact hres
      | ok s3 =>
        have hq : LoopPost G ok L ac m (edgeStep m d s1) s3 := hres
        show LoopPost G ok L ac m s s3
        exact {
          inv := hq.inv
          mrec := hq.mrec
          minc := hq.minc
          mono := fun x hx => hq.mono x (by rw [hn2]; exact hp.mono x hx)
          inc := fun x => (hq.inc x).trans (show Incomplete s1 x ↔ Incomplete s x from hp.inc x)
          logmono := fun e he => hq.logmono e (hp.logmono e he)
          keep := by
            intro a ra hne hra
            obtain ⟨ra1, hra1, hra1d⟩ := hp.keep a ra hra
            have : find? a (edgeStep m d s1).mods = some (edgeUpd a m d ra1) := by rw [hfind2, hra1]; rfl
            obtain ⟨ra3, hra3, hra3d⟩ := hq.keep a _ hne this
            refine ⟨ra3, hra3, ?_⟩
            rw [hra3d]
            simp only [edgeUpd, hne, if_false, List.append_nil]
            exact hra1d
          depsdone := hq.depsdone }

theorem load_succ (f : Nat) (n : α) (s : St α) :
    load lt G ok (f + 1) n s =
      if (find? n s.mods).isSome then .ok s
      else if ok n = false then .fatal { s with mods := insertRec lt { name := n } s.mods } (.unloadable n)
      else match dependsLoop (load lt G ok f) n (G n) (beginStep lt n s) with
        | .fatal s' w => .fatal s' w
        | .ok s3 => .ok (logEv (.ctorEnd n) s3) := rfl

theorem load_spec {U L : List α} {ac : Prop} (hac : ac → NoCycle G L) (hcl : Closed G U L) :
    ∀ f n s, LInv G ok L ac s → Loaded G L n → unl U s < f →
      (ac → ∀ x, Incomplete s x → Reach1 G x n) → LoadOk G ok L ac s n (load lt G ok f n s) := by
  intro f
  induction f with
  | zero => intro n s _ _ h; omega
  | succ f ih =>
    intro n s hinv hnL hfuel hreach
    rw [load_succ]
    by_cases hf : (find? n s.mods).isSome = true
    · rw [if_pos hf]
      have hn : n ∈ names s.mods := find?_isSome_iff.mp hf
      exact {
        inv := hinv
        mem := hn
        mono := fun _ h => h
        inc := fun _ => Iff.rfl
        logmono := fun _ h => h
        keep := fun a r' h => ⟨r', h, rfl⟩
        done := found_done hac hinv hn hreach }
    · rw [if_neg hf]
      have hn : n ∉ names s.mods := fun h => hf (find?_isSome_iff.mpr h)
      by_cases hok : ok n = false
      · rw [if_pos hok]
        exact ⟨⟨n, rfl, hok, hnL⟩, hinv.onlyCtor⟩
      · rw [if_neg hok]
        have hok' : ok n = true := by simpa using hok
        have hinv2 : LInv G ok L ac (beginStep lt n s) := hinv.begin lt hn hok' hnL
        have hnb : Event.ctorBegin n ∉ s.log := fun hb => hn ((hinv.begun n).mp hb)
        have hne : Event.ctorEnd n ∉ s.log := fun he => hnb (hinv.ended n he)
        have hlog2 : (beginStep lt n s).log = Event.ctorBegin n :: s.log := rfl
        have hinc2 : ∀ x, Incomplete (beginStep lt n s) x ↔ (x = n ∨ Incomplete s x) := by
          intro x
          unfold Incomplete
          rw [hlog2]
          simp only [List.mem_cons, Event.ctorBegin.injEq, reduceCtorEq, false_or]
          constructor
          · rintro ⟨h1 | h1, h2⟩
            · exact Or.inl h1
            · exact Or.inr ⟨h1, h2⟩
          · rintro (rfl | ⟨h1, h2⟩)
            · exact ⟨Or.inl rfl, hne⟩
            · exact ⟨Or.inr h1, h2⟩
        have hmono2 : ∀ x, x ∈ names s.mods → x ∈ names (beginStep lt n s).mods :=
          fun x hx => (mem_names_begin lt).mpr (Or.inr hx)
        have hloop := dependsLoop_spec (U := U) hac (load lt G ok f) (fun d s' => ih d s') n hnL (G n)
          (beginStep lt n s) hinv2
          ⟨{ name := n, handle := true }, by rw [find?_begin lt hn]; simp, by simp⟩
          ((hinc2 n).mpr (Or.inl rfl))
          (by
            have : unl U (beginStep lt n s) < unl U s :=
              unl_lt hmono2 (hcl.loaded hnL) hn ((mem_names_begin lt).mpr (Or.inl rfl))
            omega)
          (by
            intro hacv x hx
            rcases (hinc2 x).mp hx with rfl | hx
            · exact Reach.refl _
            · obtain ⟨b, hb, hc⟩ := hreach hacv x hx
              exact Reach.tail hb hc)
          (by
            intro _ r hr d hd
            rw [find?_begin lt hn] at hr
            simp at hr
            subst hr
            simp at hd)
        generalize dependsLoop (load lt G ok f) n (G n) (beginStep lt n s) = res at hloop
        cases res with
        | fatal s' w => exact hloop
        | ok s3 =>
          have hq : LoopPost G ok L ac n (beginStep lt n s) s3 := hloop
          show LPost G ok L ac s (logEv (Event.ctorEnd n) s3) n
          have hlog4 : (logEv (Event.ctorEnd n) s3).log = Event.ctorEnd n :: s3.log := rfl
          exact {
            inv := hq.inv.finish hq.mrec hq.minc hq.depsdone
            mem := by
              obtain ⟨r, hr, _⟩ := hq.mrec
              exact mem_names_of_find? hr
            mono := fun x hx => hq.mono x (hmono2 x hx)
            inc := by
              intro x
              have h3 := hq.inc x
              have h2 := hinc2 x
              unfold Incomplete at h3 ⊢
              rw [hlog4]
              simp only [List.mem_cons, reduceCtorEq, false_or, Event.ctorEnd.injEq, not_or]
              constructor
              · rintro ⟨h1, hxn, h4⟩
                rcases h2.mp (h3.mp ⟨h1, h4⟩) with e | h5
                · exact absurd e hxn
                · exact h5
              · intro h5
                have h6 := h3.mpr (h2.mpr (Or.inr h5))
                refine ⟨h6.1, ?_, h6.2⟩
                rintro rfl
                exact hnb h5.1
            logmono := fun e he => List.mem_cons_of_mem _ (hq.logmono e (List.mem_cons_of_mem _ he))
            keep := by
              intro a r hr
              have hne : a ≠ n := by
                rintro rfl
                exact hn (mem_names_of_find? hr)
              have : find? a (beginStep lt n s).mods = some r := by
                rw [find?_begin lt hn]; simp [hne, hr]
              exact hq.keep a r hne this
            done := fun _ => List.mem_cons_self .. }

/-! ### the whole list -/

theorem unl_le_length (U : List α) (s : St α) : unl U s ≤ U.length := List.length_filter_le _ _

theorem LInv.init (L : List α) (ac : Prop) : LInv G ok L ac ({} : St α) := by
  constructor <;> simp [names, find?_nil, OnlyCtor, Iauthd.Module.wo]

def LoadAllOk (L : List α) (ac : Prop) (l : List α) (s : St α) : Res α → Prop
  | .ok s' => LInv G ok L ac s' ∧ (∀ x, x ∈ l → x ∈ names s'.mods) ∧
      (∀ x, x ∈ names s.mods → x ∈ names s'.mods) ∧ (∀ x, ¬ Incomplete s' x)
  | .fatal s' w => (∃ x, w = Why.unloadable x ∧ ok x = false ∧ Loaded G L x) ∧ OnlyCtor s'.log

theorem loadAll_cons (fuel : Nat) (n : α) (ns : List α) (s : St α) :
    loadAll lt G ok fuel (n :: ns) s =
      match load lt G ok fuel n s with
      | .fatal s' w => .fatal s' w
      | .ok s' => loadAll lt G ok fuel ns s' := rfl

theorem loadAll_spec {U L : List α} {ac : Prop} (hac : ac → NoCycle G L) (hcl : Closed G U L)
    {fuel : Nat} (hfuel : U.length < fuel) :
    ∀ l s, (∀ x, x ∈ l → x ∈ L) → LInv G ok L ac s → (∀ x, ¬ Incomplete s x) →
      LoadAllOk (G := G) (ok := ok) L ac l s (loadAll lt G ok fuel l s) := by
  intro l
  induction l with
  | nil =>
    intro s _ hinv hinc
    exact ⟨hinv, by simp, fun _ h => h, hinc⟩
  | cons n ns ih =>
    intro s hl hinv hinc
    rw [loadAll_cons]
    have hnL : Loaded G L n := ⟨n, hl n (List.mem_cons_self ..), Reach.refl n⟩
    have h1 := load_spec lt hac hcl fuel n s hinv hnL
      (by have := unl_le_length U s; omega)
      (fun _ x hx => absurd hx (hinc x))
    generalize load lt G ok fuel n s = res at h1
    cases res with
    | fatal s' w => exact h1
    | ok s1 =>
      have hp : LPost G ok L ac s s1 n := h1
      simp only
      have h2 := ih s1 (fun x hx => hl x (List.mem_cons_of_mem _ hx)) hp.inv
        (fun x hx => hinc x ((hp.inc x).mp hx))
      generalize loadAll lt G ok fuel ns s1 = res2 at h2
      cases res2 with
      | fatal s' w => exact h2
      | ok s2 =>
        obtain ⟨hi, hmem, hmono, hinc2⟩ := h2
        refine ⟨hi, ?_, fun x hx => hmono x (hp.mono x hx), hinc2⟩
        intro x hx
        rcases List.mem_cons.mp hx with rfl | hx
        · exact hmono x hp.mem
        · exact hmem x hx

/-- the state `module_load_list` hands to its second half -/
structure Loaded' (L : List α) (ac : Prop) (s : St α) : Prop where
  nodup : (names s.mods).Nodup
  fresh : ∀ a r, find? a s.mods = some r → r.handle = true ∧ r.visited = 0
  okAll : ∀ a, a ∈ names s.mods → ok a = true
  deps : ∀ a r, find? a s.mods = some r → r.depends = G a
  deps_in : ∀ a, a ∈ names s.mods → ∀ d, d ∈ G a → d ∈ names s.mods
  rdeps_in : ∀ a r, find? a s.mods = some r → ∀ x, x ∈ r.rdepends → x ∈ names s.mods
  c1 : ∀ a ra b rb, find? a s.mods = some ra → find? b s.mods = some rb →
        (a ∈ rb.rdepends ↔ b ∈ ra.depends)
  names_iff : ∀ a, a ∈ names s.mods ↔ Loaded G L a
  ended : ∀ a, a ∈ names s.mods → Event.ctorEnd a ∈ s.log
  begun : ∀ a, Event.ctorBegin a ∈ s.log ↔ a ∈ names s.mods
  onlyCtor : OnlyCtor s.log
  wo : ac → wo G s.log = true

theorem loaded_of_loadAll {L : List α} {ac : Prop} {s : St α} (hinv : LInv G ok L ac s)
    (hmem : ∀ x, x ∈ L → x ∈ names s.mods) (hinc : ∀ x, ¬ Incomplete s x) :
    Loaded' (G := G) (ok := ok) L ac s := by
  have hend : ∀ a, a ∈ names s.mods → Event.ctorEnd a ∈ s.log := by
    intro a ha
    apply Classical.byContradiction
    intro hne
    exact hinc a ⟨(hinv.begun a).mpr ha, hne⟩
  have hdeps : ∀ a r, find? a s.mods = some r → r.depends = G a :=
    fun a r hr => hinv.deps_done a r hr (hend a (mem_names_of_find? hr))
  have hdin : ∀ a, a ∈ names s.mods → ∀ d, d ∈ G a → d ∈ names s.mods := by
    intro a ha d hd
    obtain ⟨r, hr⟩ := mem_names_iff.mp ha
    exact hinv.deps_in a r hr d (hdeps a r hr ▸ hd)
  exact {
    nodup := hinv.nodup
    fresh := hinv.fresh
    okAll := hinv.okAll
    deps := hdeps
    deps_in := hdin
    rdeps_in := hinv.rdeps_in
    c1 := hinv.c1
    names_iff := by
      intro a
      constructor
      · exact hinv.loaded a
      · rintro ⟨l, hl, hr⟩
        induction hr with
        | refl => exact hmem l hl
        | tail _ hc ih => exact hdin _ ih _ hc
    ended := hend
    begun := hinv.begun
    onlyCtor := hinv.onlyCtor
    wo := hinv.wo }

end
end Iauthd.Module
