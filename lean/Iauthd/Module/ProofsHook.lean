import Iauthd.Module.Proofs
/-
  Modules without a post-init hook (README: the hook is optional).

  `module_dfs` walks a hook-less module exactly like any other and only skips the call, so the
  event log of a run with hook-less modules is the all-hooks log with their post-init events
  removed (`hideHookless`).  This file shows that whatever passes the all-hooks judge passes,
  after that removal, the judge that reads C20 *through* hook-less modules (`judgeH`): a hooked
  module is post-initialised after every hooked module it depends on transitively.
-/
namespace Iauthd.Module

set_option linter.unusedSectionVars false
section
variable {α : Type} [DecidableEq α]

theorem mem_hide_of_not_postInit {hk : α → Bool} {l : List (Event α)} {e : Event α}
    (h : ∀ m, e ≠ .postInit m) : e ∈ hideHookless hk l ↔ e ∈ l := by
  unfold hideHookless
  rw [List.mem_filter]
  constructor
  · exact fun hh => hh.1
  · intro hh
    refine ⟨hh, ?_⟩
    cases e with
    | postInit m => exact absurd rfl (h m)
    | _ => rfl

theorem mem_hide_postInit {hk : α → Bool} {l : List (Event α)} {m : α} :
    Event.postInit m ∈ hideHookless hk l ↔ Event.postInit m ∈ l ∧ hk m = true := by
  unfold hideHookless
  rw [List.mem_filter]

theorem hide_subset {hk : α → Bool} {l : List (Event α)} {e : Event α} (h : e ∈ hideHookless hk l) : e ∈ l := by
  unfold hideHookless at h
  exact (List.mem_filter.mp h).1

theorem hide_cons_postInit (hk : α → Bool) (m : α) (l : List (Event α)) :
    hideHookless hk (.postInit m :: l) = if hk m = true then .postInit m :: hideHookless hk l else hideHookless hk l := by
  simp only [hideHookless, List.filter_cons]

theorem hide_cons_other (hk : α → Bool) (e : Event α) (l : List (Event α)) (h : ∀ m, e ≠ .postInit m) :
    hideHookless hk (e :: l) = e :: hideHookless hk l := by
  cases e with
  | postInit m => exact absurd rfl (h m)
  | _ => simp only [hideHookless, List.filter_cons, if_true]

theorem hide_reverse (hk : α → Bool) (l : List (Event α)) :
    (hideHookless hk l).reverse = hideHookless hk l.reverse := by
  unfold hideHookless
  rw [List.filter_reverse]

/-- in a well-ordered all-hooks log, the post-init of `d` comes with those of its dependencies -/
theorem wo_postInit_deps (G : α → List α) : ∀ (l : List (Event α)), wo G l = true →
    ∀ d, Event.postInit d ∈ l → ∀ d', d' ∈ G d → Event.postInit d' ∈ l
  | [], _, d, h, _, _ => by cases h
  | e :: older, hw, d, h, d', hd' => by
    unfold wo at hw
    rw [Bool.and_eq_true] at hw
    rcases List.mem_cons.mp h with he | hin
    · subst he
      have h1 := hw.1
      unfold okAt at h1
      simp only [Bool.and_eq_true, List.all_eq_true, decide_eq_true_eq] at h1
      exact List.mem_cons_of_mem _ (h1.2 d' hd')
    · exact List.mem_cons_of_mem _ (wo_postInit_deps G older hw.2 d hin d' hd')

/-- … hence with those of everything reachable -/
theorem wo_postInit_closure (G : α → List α) (l : List (Event α)) (hw : wo G l = true) :
    ∀ (k : Nat) (S : List α), (∀ x, x ∈ S → Event.postInit x ∈ l) →
      ∀ x, x ∈ closure G k S → Event.postInit x ∈ l
  | 0, S, hS, x, hx => hS x hx
  | k + 1, S, hS, x, hx => by
    unfold closure at hx
    refine wo_postInit_closure G l hw k (S ++ S.flatMap G) ?_ x hx
    intro y hy
    rcases List.mem_append.mp hy with h | h
    · exact hS y h
    · obtain ⟨s, hs, hys⟩ := List.mem_flatMap.mp h
      exact wo_postInit_deps G l hw s (hS s hs) y hys

theorem okAt_hide {G : α → List α} {hk : α → Bool} {older : List (Event α)} {e : Event α}
    (hne : ∀ m, e ≠ .postInit m) (h : okAt G older e = true) : okAt G (hideHookless hk older) e = true := by
  cases e with
  | postInit m => exact absurd rfl (hne m)
  | ctorBegin m =>
    unfold okAt at h ⊢
    simp only [decide_eq_true_eq] at h ⊢
    exact fun hh => h (hide_subset hh)
  | ctorEnd m =>
    unfold okAt at h ⊢
    simp only [Bool.and_eq_true, List.all_eq_true, decide_eq_true_eq] at h ⊢
    refine ⟨⟨(mem_hide_of_not_postInit (by intro x hx; cases hx)).mpr h.1.1, fun hh => h.1.2 (hide_subset hh)⟩, ?_⟩
    intro d hd
    exact (mem_hide_of_not_postInit (by intro x hx; cases hx)).mpr (h.2 d hd)
  | dtor m =>
    unfold okAt at h ⊢
    simp only [Bool.and_eq_true, List.all_eq_true, decide_eq_true_eq] at h ⊢
    refine ⟨⟨(mem_hide_of_not_postInit (by intro x hx; cases hx)).mpr h.1.1, fun hh => h.1.2 (hide_subset hh)⟩, ?_⟩
    intro d hd hh
    exact h.2 d hd (hide_subset hh)

/-- a well-ordered all-hooks log stays well ordered, in the transitive reading, when the
    post-init events of hook-less modules are removed (newest-first form) -/
theorem woH_hide (G : α → List α) (hk : α → Bool) (U : List α) :
    ∀ l : List (Event α), wo G l = true → woH G hk U (hideHookless hk l) = true
  | [], _ => by simp [hideHookless, woH]
  | e :: older, hw => by
    have hw' := hw
    unfold wo at hw'
    rw [Bool.and_eq_true] at hw'
    have ih := woH_hide G hk U older hw'.2
    cases e with
    | postInit m =>
      rw [hide_cons_postInit]
      cases hkm : hk m with
      | false => simpa using ih
      | true =>
        simp only [if_true]
        unfold woH
        rw [Bool.and_eq_true]
        refine ⟨?_, ih⟩
        have h1 := hw'.1
        unfold okAt at h1
        simp only [Bool.and_eq_true, List.all_eq_true, decide_eq_true_eq] at h1
        unfold okAtH
        simp only [hkm, Bool.true_and, Bool.and_eq_true, List.all_eq_true, decide_eq_true_eq, Bool.or_eq_true,
          Bool.not_eq_true']
        refine ⟨⟨(mem_hide_of_not_postInit (by intro x hx; cases hx)).mpr h1.1.1, fun hh => h1.1.2 (hide_subset hh)⟩, ?_⟩
        intro d hd
        cases hkd : hk d with
        | false => exact Or.inl rfl
        | true =>
          refine Or.inr (mem_hide_postInit.mpr ⟨?_, hkd⟩)
          exact wo_postInit_closure G older hw'.2 U.length (G m) h1.2 d hd
    | ctorBegin m =>
      rw [hide_cons_other hk _ _ (by intro x hx; cases hx)]
      unfold woH
      rw [Bool.and_eq_true]
      exact ⟨by unfold okAtH; exact okAt_hide (by intro x hx; cases hx) hw'.1, ih⟩
    | ctorEnd m =>
      rw [hide_cons_other hk _ _ (by intro x hx; cases hx)]
      unfold woH
      rw [Bool.and_eq_true]
      exact ⟨by unfold okAtH; exact okAt_hide (by intro x hx; cases hx) hw'.1, ih⟩
    | dtor m =>
      rw [hide_cons_other hk _ _ (by intro x hx; cases hx)]
      unfold woH
      rw [Bool.and_eq_true]
      exact ⟨by unfold okAtH; exact okAt_hide (by intro x hx; cases hx) hw'.1, ih⟩

theorem wellOrderedH_hide (G : α → List α) (hk : α → Bool) (U : List α) (events : List (Event α))
    (h : wellOrdered G events = true) : wellOrderedH G hk U (hideHookless hk events) = true := by
  unfold wellOrderedH
  rw [hide_reverse]
  exact woH_hide G hk U _ h

theorem completeRunH_hide (hk : α → Bool) (L : List α) (events : List (Event α))
    (h : completeRun L events = true) : completeRunH hk L (hideHookless hk events) = true := by
  unfold completeRun at h
  unfold completeRunH
  simp only [Bool.and_eq_true, List.all_eq_true, decide_eq_true_eq] at h ⊢
  refine ⟨fun m hm => (mem_hide_of_not_postInit (by intro x hx; cases hx)).mpr (h.1 m hm), ?_⟩
  intro e he
  have h2 := h.2 e (hide_subset he)
  cases e with
  | ctorBegin m =>
    simp only [lifeComplete, lifeCompleteH, Bool.and_eq_true, decide_eq_true_eq, Bool.or_eq_true,
      Bool.not_eq_true'] at h2 ⊢
    refine ⟨⟨(mem_hide_of_not_postInit (by intro x hx; cases hx)).mpr h2.1.1, ?_⟩,
      (mem_hide_of_not_postInit (by intro x hx; cases hx)).mpr h2.2⟩
    cases hkm : hk m with
    | false => exact Or.inl rfl
    | true => exact Or.inr (mem_hide_postInit.mpr ⟨h2.1.2, hkm⟩)
  | _ => trivial

theorem constructedOk_hide (ok hk : α → Bool) (events : List (Event α))
    (h : constructedOk ok events = true) : constructedOk ok (hideHookless hk events) = true := by
  unfold constructedOk at h ⊢
  rw [List.all_eq_true] at h ⊢
  exact fun e he => h e (hide_subset he)

theorem postInitOfCycleMember_hide (G : α → List α) (hk : α → Bool) (U : List α) (events : List (Event α))
    (h : postInitOfCycleMember G U events = false) :
    postInitOfCycleMember G U (hideHookless hk events) = false := by
  unfold postInitOfCycleMember at h ⊢
  rw [List.any_eq_false] at h ⊢
  exact fun e he => h e (hide_subset he)

/-- whatever the all-hooks judge accepts, the hook-aware judge accepts once the post-init
    events of the hook-less modules are removed -/
theorem judgeH_of_judge (G : α → List α) (ok hk : α → Bool) (U L : List α) (status : Nat)
    (events : List (Event α)) (h : judge G ok U L status events = true) :
    judgeH G ok hk U L status (hideHookless hk events) = true := by
  unfold judge at h
  unfold judgeH
  split
  · rename_i hab
    rw [if_pos hab] at h
    simp only [Bool.and_eq_true, decide_eq_true_eq, Bool.not_eq_true'] at h ⊢
    exact ⟨h.1, postInitOfCycleMember_hide G hk U events h.2⟩
  · rename_i hab
    rw [if_neg hab] at h
    simp only [Bool.and_eq_true, decide_eq_true_eq] at h ⊢
    exact ⟨⟨⟨h.1.1.1, wellOrderedH_hide G hk U events h.1.1.2⟩, completeRunH_hide hk L events h.1.2⟩,
      constructedOk_hide ok hk events h.2⟩

/-- with every module hooked the two judges read the same log -/
theorem hide_all (events : List (Event α)) : hideHookless (fun _ => true) events = events := by
  unfold hideHookless
  rw [List.filter_eq_self]
  intro e _
  cases e <;> rfl

end
end Iauthd.Module
