import Iauthd.Module.Model
/-
  C20 read as a checker over what can be observed: the dependency graph `G` (what
  each constructor declares), which names are loadable (`ok`), the configuration
  list `L`, and what came back: exit status and the event log of the stub modules
  (`ctor-begin m`, `ctor-end m`, `post-init m`, `dtor m`).

  Nothing here mentions the model's records, marks or fuel.

  * `okAt G seen e`  — may event `e` happen after exactly the events `seen`?
      ctor-begin m : m was not constructed before                       (once)
      ctor-end m   : m began, did not end before, and every dependency's
                     ctor-end is already there         (deps fully constructed first)
      post-init m  : m is constructed, no earlier post-init of m, and every
                     dependency's post-init is already there
      dtor m       : m is constructed, no earlier dtor of m, and no dependency of m
                     has been destroyed yet          (dtor before those of its deps)
  * `wellOrdered G events` — every event is `okAt` the events before it.
  * `completeRun L events` — every listed module was constructed, and every module
    that was constructed also finished constructing, was post-initialised and was
    destroyed.  (Together with `wellOrdered` this forces the constructed set to be
    closed under dependencies and every life-cycle event to occur exactly once.)
  * `mustAbort G ok U L` — some module reachable from `L` is unloadable or lies on a
    dependency cycle (`U` = finite universe of names, used as the iteration bound).
  * `judge` — the verdict: a start-up that must abort has to exit non-zero and must
    not post-init a cycle member; otherwise the exit status is 0 and the log is a
    well-ordered complete run over loadable modules.
-/
namespace Iauthd.Module

section
variable {α : Type} [DecidableEq α]

def okAt (G : α → List α) (seen : List (Event α)) : Event α → Bool
  | .ctorBegin m => decide (Event.ctorBegin m ∉ seen)
  | .ctorEnd m =>
    decide (Event.ctorBegin m ∈ seen) && decide (Event.ctorEnd m ∉ seen) &&
      (G m).all fun d => decide (Event.ctorEnd d ∈ seen)
  | .postInit m =>
    decide (Event.ctorEnd m ∈ seen) && decide (Event.postInit m ∉ seen) &&
      (G m).all fun d => decide (Event.postInit d ∈ seen)
  | .dtor m =>
    decide (Event.ctorEnd m ∈ seen) && decide (Event.dtor m ∉ seen) &&
      (G m).all fun d => decide (Event.dtor d ∉ seen)

/-- well-orderedness of a log given newest event first -/
def wo (G : α → List α) : List (Event α) → Bool
  | [] => true
  | e :: older => okAt G older e && wo G older

/-- … of a chronological log -/
def wellOrdered (G : α → List α) (events : List (Event α)) : Bool := wo G events.reverse

def lifeComplete (events : List (Event α)) (m : α) : Bool :=
  decide (Event.ctorEnd m ∈ events) && decide (Event.postInit m ∈ events) && decide (Event.dtor m ∈ events)

def completeRun (L : List α) (events : List (Event α)) : Bool :=
  (L.all fun m => decide (Event.ctorBegin m ∈ events)) &&
  events.all fun e => match e with
    | .ctorBegin m => lifeComplete events m
    | _ => true

def constructedOk (ok : α → Bool) (events : List (Event α)) : Bool :=
  events.all fun e => match e with
    | .ctorBegin m => ok m
    | _ => true

/-- `k` rounds of "add all successors" -/
def closure (G : α → List α) : Nat → List α → List α
  | 0, S => S
  | k + 1, S => closure G k (S ++ S.flatMap G)

def reachable (G : α → List α) (U L : List α) : List α := closure G U.length L

def onCycle (G : α → List α) (U : List α) (m : α) : Bool :=
  decide (m ∈ closure G U.length (G m))

def mustAbort (G : α → List α) (ok : α → Bool) (U L : List α) : Bool :=
  (reachable G U L).any fun m => !ok m || onCycle G U m

def postInitOfCycleMember (G : α → List α) (U : List α) (events : List (Event α)) : Bool :=
  events.any fun e => match e with
    | .postInit m => onCycle G U m
    | _ => false

/-- in the chronological log `events`, `a` occurs (strictly) before an occurrence of `b` -/
def Before (events : List (Event α)) (a b : Event α) : Prop :=
  ∃ l1 l2, events = l1 ++ b :: l2 ∧ a ∈ l1

/-- what C20 demands of one observed run -/
def judge (G : α → List α) (ok : α → Bool) (U L : List α) (status : Nat) (events : List (Event α)) : Bool :=
  if mustAbort G ok U L then
    decide (status ≠ 0) && !postInitOfCycleMember G U events
  else
    decide (status = 0) && wellOrdered G events && completeRun L events && constructedOk ok events

/-! ### modules without a post-init hook

  README: `module_post_init` is optional.  A module without the hook (`hk m = false`) writes no
  post-init event; everything else about it is unchanged.  C20's "its post-init runs … after
  those of everything it depends on" then has to be read through such modules: a hooked module
  is post-initialised after every *hooked* module it depends on **transitively** (the path may
  lead through hook-less ones). -/

/-- the log of a run in which only the modules with `hk m` have a post-init hook -/
def hideHookless (hk : α → Bool) (events : List (Event α)) : List (Event α) :=
  events.filter fun e => match e with
    | .postInit m => hk m
    | _ => true

def okAtH (G : α → List α) (hk : α → Bool) (U : List α) (seen : List (Event α)) : Event α → Bool
  | .postInit m =>
    hk m && decide (Event.ctorEnd m ∈ seen) && decide (Event.postInit m ∉ seen) &&
      (closure G U.length (G m)).all fun d => !hk d || decide (Event.postInit d ∈ seen)
  | e => okAt G seen e

def woH (G : α → List α) (hk : α → Bool) (U : List α) : List (Event α) → Bool
  | [] => true
  | e :: older => okAtH G hk U older e && woH G hk U older

def wellOrderedH (G : α → List α) (hk : α → Bool) (U : List α) (events : List (Event α)) : Bool :=
  woH G hk U events.reverse

def lifeCompleteH (hk : α → Bool) (events : List (Event α)) (m : α) : Bool :=
  decide (Event.ctorEnd m ∈ events) && (!hk m || decide (Event.postInit m ∈ events)) && decide (Event.dtor m ∈ events)

def completeRunH (hk : α → Bool) (L : List α) (events : List (Event α)) : Bool :=
  (L.all fun m => decide (Event.ctorBegin m ∈ events)) &&
  events.all fun e => match e with
    | .ctorBegin m => lifeCompleteH hk events m
    | _ => true

/-- what C20 demands of one observed run when some modules have no post-init hook -/
def judgeH (G : α → List α) (ok : α → Bool) (hk : α → Bool) (U L : List α) (status : Nat)
    (events : List (Event α)) : Bool :=
  if mustAbort G ok U L then
    decide (status ≠ 0) && !postInitOfCycleMember G U events
  else
    decide (status = 0) && wellOrderedH G hk U events && completeRunH hk L events && constructedOk ok events

end
end Iauthd.Module
