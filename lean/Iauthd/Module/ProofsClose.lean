import Iauthd.Module.ProofsDfs
/-
  Unloading (`module_close_all`): `cleanup`, `closePass`, `rounds`, `sweep`.

  `CI`   — structural invariant of the set (dependencies present, `rdepends` mirrors
           `depends`): preserved by removing a module nobody depends on; no phantom
           record is created while it holds; the passes terminate within their fuel.
  `CLog` — what the log says: destroyed = removed, and the log stays well ordered.
  With a rank function decreasing along edges the passes empty the set.
-/
set_option linter.unusedSectionVars false
set_option linter.unusedSimpArgs false
set_option linter.unusedVariables false

namespace Iauthd.Module

section
variable {α : Type} [DecidableEq α] (lt : α → α → Bool)

theorem dropRdep_idem (m : α) (r : Rec α) : dropRdep m (dropRdep m r) = dropRdep m r := by
  simp [dropRdep, List.filter_filter]

theorem cleanupDeps_cons (m d : α) (ds : List α) (s : St α) :
    cleanupDeps lt m (d :: ds) s =
      cleanupDeps lt m ds { getOrCreate lt d s with mods := modify d (dropRdep m) (getOrCreate lt d s).mods } := rfl

/-- `module_cleanup`'s loop when every dependency is still in the set -/
theorem cleanupDeps_present (m : α) : ∀ ds s, (∀ d, d ∈ ds → d ∈ names s.mods) →
    names (cleanupDeps lt m ds s).mods = names s.mods ∧ (cleanupDeps lt m ds s).log = s.log ∧
    ∀ a, find? a (cleanupDeps lt m ds s).mods =
      (find? a s.mods).map (fun r => if a ∈ ds then dropRdep m r else r) := by
  intro ds
  induction ds with
  | nil =>
    intro s _
    refine ⟨rfl, rfl, ?_⟩
    intro a
    show find? a s.mods = (find? a s.mods).map _
    cases find? a s.mods <;> simp
  | cons d ds ih =>
    intro s h
    have hd : d ∈ names s.mods := h d (List.mem_cons_self ..)
    rw [cleanupDeps_cons, getOrCreate_of_mem lt hd]
    have hn1 : names (modify d (dropRdep m) s.mods) = names s.mods := names_modify (by simp) _ _
    obtain ⟨h1, h2, h3⟩ := ih { s with mods := modify d (dropRdep m) s.mods }
      (by intro d' hd'; simp only; rw [hn1]; exact h d' (List.mem_cons_of_mem _ hd'))
    refine ⟨h1.trans hn1, h2, ?_⟩
    intro a
    rw [h3 a]
    simp only
    rw [find?_modify' (by simp)]
    cases find? a s.mods with
    | none => rfl
    | some r =>
      simp only [Option.map_some, List.mem_cons]
      by_cases e1 : a = d <;> by_cases e2 : a ∈ ds <;> simp [e1, e2, dropRdep_idem]

/-! ### removing a module nobody depends on -/

structure CI (s : St α) : Prop where
  nodup : (names s.mods).Nodup
  handle : ∀ a r, find? a s.mods = some r → r.handle = true
  c2 : ∀ a r, find? a s.mods = some r → ∀ d, d ∈ r.depends → d ∈ names s.mods
  rdeps_in : ∀ a r, find? a s.mods = some r → ∀ x, x ∈ r.rdepends → x ∈ names s.mods
  c1 : C1 s

/-- `set_remove(&modules, module, 0)`: unlink, then `module_cleanup` -/
def removeStep (n : α) (r : Rec α) (s : St α) : St α := cleanup lt r { s with mods := erase n s.mods }

structure RemoveFacts (n : α) (r : Rec α) (s s' : St α) : Prop where
  names_iff : ∀ a, a ∈ names s'.mods ↔ a ∈ names s.mods ∧ a ≠ n
  nodup : (names s'.mods).Nodup
  log : s'.log = Event.dtor n :: s.log
  find : ∀ a, find? a s'.mods =
    if a = n then none else (find? a s.mods).map (fun q => if a ∈ r.depends then dropRdep n q else q)
  length : s'.mods.length < s.mods.length

theorem removeFacts {s : St α} (h : CI s) {n : α} {r : Rec α} (hr : find? n s.mods = some r)
    (hempty : r.rdepends = []) : RemoveFacts n r s (removeStep lt n r s) := by
  have hname : r.name = n := find?_name hr
  have hnn : n ∈ names s.mods := mem_names_of_find? hr
  have hnself : n ∉ r.depends := by
    intro hmem
    have := (h.c1 n r n r hr hr).mpr hmem
    rw [hempty] at this
    cases this
  have hpres : ∀ d, d ∈ r.depends → d ∈ names (erase n s.mods) := by
    intro d hd
    refine mem_names_erase.mpr ⟨h.c2 n r hr d hd, ?_⟩
    rintro rfl
    exact hnself hd
  obtain ⟨h1, h2, h3⟩ := cleanupDeps_present lt r.name r.depends { s with mods := erase n s.mods } hpres
  have hstep : removeStep lt n r s =
      logEv (Event.dtor r.name) (cleanupDeps lt r.name r.depends { s with mods := erase n s.mods }) := by
    unfold removeStep cleanup
    simp [h.handle n r hr]
  rw [hstep, hname] at *
  have hmods : (logEv (Event.dtor n) (cleanupDeps lt n r.depends { s with mods := erase n s.mods })).mods =
      (cleanupDeps lt n r.depends { s with mods := erase n s.mods }).mods := rfl
  exact {
    names_iff := by
      intro a
      rw [hmods, h1]
      exact mem_names_erase
    nodup := by
      rw [hmods, h1]
      exact nodup_names_erase h.nodup
    log := by
      show Event.dtor n :: (cleanupDeps lt n r.depends { s with mods := erase n s.mods }).log = _
      rw [h2]
    find := by
      intro a
      rw [hmods, h3 a]
      simp only
      rw [find?_erase]
      by_cases e : a = n <;> simp [e]
    length := by
      rw [hmods]
      have : (cleanupDeps lt n r.depends { s with mods := erase n s.mods }).mods.length =
          (erase n s.mods).length := by
        have := congrArg List.length h1
        simpa [names] using this
      rw [this]
      exact length_erase_lt hnn }

theorem CI.remove {s : St α} (h : CI s) {n : α} {r : Rec α} (hr : find? n s.mods = some r)
    (hempty : r.rdepends = []) : CI (removeStep lt n r s) := by
  have hf := removeFacts lt h hr hempty
  -- where a record of the new state comes from
  have hfrom : ∀ a q', find? a (removeStep lt n r s).mods = some q' →
      a ≠ n ∧ ∃ q, find? a s.mods = some q ∧ q'.depends = q.depends ∧ q'.handle = q.handle ∧
        (∀ x, x ∈ q'.rdepends ↔ x ∈ q.rdepends ∧ x ≠ n) := by
    intro a q' hq'
    rw [hf.find a] at hq'
    by_cases e : a = n
    · simp [e] at hq'
    · simp only [e, if_false, Option.map_eq_some_iff] at hq'
      obtain ⟨q, hq, e'⟩ := hq'
      refine ⟨e, q, hq, ?_⟩
      by_cases hd : a ∈ r.depends
      · simp only [hd, if_true] at e'; subst e'
        refine ⟨rfl, rfl, ?_⟩
        intro x
        simp [dropRdep, List.mem_filter]
      · simp only [hd, if_false] at e'; subst e'
        refine ⟨rfl, rfl, ?_⟩
        intro x
        constructor
        · intro hx
          refine ⟨hx, ?_⟩
          intro hxn
          rw [hxn] at hx
          exact hd ((h.c1 n r a q hr hq).mp hx)
        · exact fun hx => hx.1
  constructor
  · exact hf.nodup
  · intro a q' hq'
    obtain ⟨_, q, hq, _, hh, _⟩ := hfrom a q' hq'
    rw [hh]; exact h.handle a q hq
  · intro a q' hq' d hd
    obtain ⟨hne, q, hq, hdp, _, _⟩ := hfrom a q' hq'
    rw [hdp] at hd
    refine (hf.names_iff d).mpr ⟨h.c2 a q hq d hd, ?_⟩
    rintro rfl
    have := (h.c1 a q d r hq hr).mpr hd
    rw [hempty] at this
    cases this
  · intro a q' hq' x hx
    obtain ⟨hne, q, hq, _, _, hrd⟩ := hfrom a q' hq'
    obtain ⟨hx1, hx2⟩ := (hrd x).mp hx
    exact (hf.names_iff x).mpr ⟨h.rdeps_in a q hq x hx1, hx2⟩
  · intro a qa' b qb' ha' hb'
    obtain ⟨hnea, qa, hqa, hda, _, _⟩ := hfrom a qa' ha'
    obtain ⟨hneb, qb, hqb, _, _, hrb⟩ := hfrom b qb' hb'
    rw [hrb a, hda]
    constructor
    · intro hx; exact (h.c1 a qa b qb hqa hqb).mp hx.1
    · intro hx; exact ⟨(h.c1 a qa b qb hqa hqb).mpr hx, hnea⟩

variable (G : α → List α)

structure CLog (N0 : List α) (lg0 : List (Event α)) (s : St α) : Prop where
  keep : ∀ e, e ∈ lg0 → e ∈ s.log
  others : ∀ e, e ∈ s.log → (∃ a, e = Event.dtor a) ∨ e ∈ lg0
  deps : ∀ a r, find? a s.mods = some r → r.depends = G a
  sub : ∀ a, a ∈ names s.mods → a ∈ N0
  ended : ∀ a, a ∈ N0 → Event.ctorEnd a ∈ s.log
  dtor_iff : ∀ a, Event.dtor a ∈ s.log ↔ a ∈ N0 ∧ a ∉ names s.mods
  wo : wo G s.log = true

variable {G}

theorem CLog.remove {N0 : List α} {lg0 : List (Event α)} {s : St α} (hc : CI s) (h : CLog G N0 lg0 s)
    {n : α} {r : Rec α}
    (hr : find? n s.mods = some r) (hempty : r.rdepends = []) : CLog G N0 lg0 (removeStep lt n r s) := by
  have hf := removeFacts lt hc hr hempty
  have hnn : n ∈ names s.mods := mem_names_of_find? hr
  constructor
  · intro e he; rw [hf.log]; exact List.mem_cons_of_mem _ (h.keep e he)
  · intro e he
    rw [hf.log] at he
    rcases List.mem_cons.mp he with rfl | he
    · exact Or.inl ⟨n, rfl⟩
    · exact h.others e he
  · intro a q' hq'
    rw [hf.find a] at hq'
    by_cases e : a = n
    · simp [e] at hq'
    · simp only [e, if_false, Option.map_eq_some_iff] at hq'
      obtain ⟨q, hq, e'⟩ := hq'
      have : q'.depends = q.depends := by
        by_cases hd : a ∈ r.depends
        · simp only [hd, if_true] at e'; subst e'; rfl
        · simp only [hd, if_false] at e'; subst e'; rfl
      rw [this]; exact h.deps a q hq
  · intro a ha; exact h.sub a ((hf.names_iff a).mp ha).1
  · intro a ha; rw [hf.log]; exact List.mem_cons_of_mem _ (h.ended a ha)
  · intro a
    rw [hf.log, hf.names_iff a]
    simp only [List.mem_cons, Event.dtor.injEq]
    rw [h.dtor_iff a]
    constructor
    · rintro (rfl | ⟨h1, h2⟩)
      · exact ⟨h.sub a hnn, fun hx => hx.2 rfl⟩
      · exact ⟨h1, fun hx => h2 hx.1⟩
    · rintro ⟨h1, h2⟩
      by_cases e : a = n
      · exact Or.inl e
      · exact Or.inr ⟨h1, fun hx => h2 ⟨hx, e⟩⟩
  · rw [hf.log]
    simp only [Iauthd.Module.wo, okAt, Bool.and_eq_true, decide_eq_true_eq, List.all_eq_true]
    refine ⟨⟨⟨h.ended n (h.sub n hnn), ?_⟩, ?_⟩, h.wo⟩
    · intro hd; exact ((h.dtor_iff n).mp hd).2 hnn
    · intro d hd hdd
      have : d ∈ names s.mods := hc.c2 n r hr d (h.deps n r hr ▸ hd)
      exact ((h.dtor_iff d).mp hdd).2 this

/-! ### passes and rounds, for any invariant that survives a removal -/

theorem closePass_cons (n : α) (ns : List α) (s : St α) (p : Bool) :
    closePass lt (n :: ns) s p =
      match find? n s.mods with
      | none => closePass lt ns s p
      | some r =>
        if r.rdepends.isEmpty then closePass lt ns (removeStep lt n r s) true
        else closePass lt ns s p := rfl

theorem closePass_sticky : ∀ ns s, (closePass lt ns s true).2 = true := by
  intro ns
  induction ns with
  | nil => intro s; rfl
  | cons n ns ih =>
    intro s
    rw [closePass_cons]
    cases find? n s.mods with
    | none => exact ih s
    | some r =>
      simp only
      by_cases h : r.rdepends.isEmpty = true
      · rw [if_pos h]; exact ih _
      · rw [if_neg h]; exact ih _

theorem closePass_noprogress : ∀ ns s, (closePass lt ns s false).2 = false →
    (closePass lt ns s false).1 = s ∧ ∀ n, n ∈ ns → ∀ r, find? n s.mods = some r → r.rdepends ≠ [] := by
  intro ns
  induction ns with
  | nil => intro s _; exact ⟨rfl, by intro n hn; cases hn⟩
  | cons n ns ih =>
    intro s h
    rw [closePass_cons] at h ⊢
    cases hf : find? n s.mods with
    | none =>
      rw [hf] at h
      simp only at h ⊢
      obtain ⟨h1, h2⟩ := ih s h
      refine ⟨h1, ?_⟩
      intro n' hn' r hr
      rcases List.mem_cons.mp hn' with rfl | hn'
      · rw [hf] at hr; cases hr
      · exact h2 n' hn' r hr
    | some r =>
      rw [hf] at h
      simp only at h ⊢
      by_cases he : r.rdepends.isEmpty = true
      · rw [if_pos he] at h
        rw [closePass_sticky] at h
        cases h
      · rw [if_neg he] at h ⊢
        obtain ⟨h1, h2⟩ := ih s h
        refine ⟨h1, ?_⟩
        intro n' hn' r' hr'
        rcases List.mem_cons.mp hn' with rfl | hn'
        · rw [hf] at hr'; injection hr' with e; subst e
          intro hnil
          exact he (by simp [hnil])
        · exact h2 n' hn' r' hr'

theorem closePass_inv (P : St α → Prop)
    (hstep : ∀ s n r, P s → find? n s.mods = some r → r.rdepends = [] →
      P (removeStep lt n r s) ∧ (removeStep lt n r s).mods.length < s.mods.length) :
    ∀ ns s p, P s → P (closePass lt ns s p).1 ∧ (closePass lt ns s p).1.mods.length ≤ s.mods.length ∧
      ((closePass lt ns s p).2 = true → p = true ∨ (closePass lt ns s p).1.mods.length < s.mods.length) := by
  intro ns
  induction ns with
  | nil =>
    intro s p hP
    exact ⟨hP, Nat.le_refl _, fun h => Or.inl h⟩
  | cons n ns ih =>
    intro s p hP
    rw [closePass_cons]
    cases hf : find? n s.mods with
    | none => exact ih s p hP
    | some r =>
      simp only
      by_cases he : r.rdepends.isEmpty = true
      · rw [if_pos he]
        have hnil : r.rdepends = [] := by simpa using he
        obtain ⟨hP', hlen⟩ := hstep s n r hP hf hnil
        obtain ⟨h1, h2, _⟩ := ih (removeStep lt n r s) true hP'
        exact ⟨h1, by omega, fun _ => Or.inr (by omega)⟩
      · rw [if_neg he]
        exact ih s p hP

theorem rounds_succ (k : Nat) (s : St α) :
    rounds lt (k + 1) s =
      match closePass lt (names s.mods) s false with
      | (s', true) => rounds lt k s'
      | (s', false) => (s', true) := rfl

theorem rounds_inv (P : St α → Prop)
    (hstep : ∀ s n r, P s → find? n s.mods = some r → r.rdepends = [] →
      P (removeStep lt n r s) ∧ (removeStep lt n r s).mods.length < s.mods.length) :
    ∀ k s, P s → s.mods.length < k →
      (rounds lt k s).2 = true ∧ P (rounds lt k s).1 ∧
      (closePass lt (names (rounds lt k s).1.mods) (rounds lt k s).1 false).2 = false := by
  intro k
  induction k with
  | zero => intro s _ h; omega
  | succ k ih =>
    intro s hP hlen
    rw [rounds_succ]
    obtain ⟨h1, h2, h3⟩ := closePass_inv lt P hstep (names s.mods) s false hP
    have hnp := closePass_noprogress lt (names s.mods) s
    cases hres : closePass lt (names s.mods) s false with
    | mk s' p' =>
      rw [hres] at h1 h2 h3 hnp
      cases p' with
      | true =>
        simp only at h1 h2 h3 ⊢
        have : s'.mods.length < s.mods.length := by
          rcases h3 trivial with h | h
          · cases h
          · exact h
        exact ih s' h1 (by omega)
      | false =>
        simp only at h1 hnp ⊢
        obtain ⟨e, _⟩ := hnp trivial
        subst e
        refine ⟨trivial, hP, ?_⟩
        rw [hres]

/-! ### with a rank function the passes empty the set -/

theorem exists_max_rank (rank : α → Nat) : ∀ l : List α, l ≠ [] → ∃ m, m ∈ l ∧ ∀ x, x ∈ l → rank x ≤ rank m := by
  intro l
  induction l with
  | nil => intro h; exact absurd rfl h
  | cons a l ih =>
    intro _
    by_cases hl : l = []
    · subst hl
      exact ⟨a, List.mem_cons_self .., by intro x hx; simp at hx; subst hx; exact Nat.le_refl _⟩
    · obtain ⟨m, hm, hmax⟩ := ih hl
      by_cases h : rank m ≤ rank a
      · refine ⟨a, List.mem_cons_self .., ?_⟩
        intro x hx
        rcases List.mem_cons.mp hx with rfl | hx
        · exact Nat.le_refl _
        · exact Nat.le_trans (hmax x hx) h
      · refine ⟨m, List.mem_cons_of_mem _ hm, ?_⟩
        intro x hx
        rcases List.mem_cons.mp hx with rfl | hx
        · omega
        · exact hmax x hx

theorem no_progress_empty {N0 : List α} {lg0 : List (Event α)} {s : St α} (hc : CI s) (hl : CLog G N0 lg0 s) (rank : α → Nat)
    (hrank : ∀ a, a ∈ N0 → ∀ d, d ∈ G a → rank d < rank a)
    (hnp : ∀ n, n ∈ names s.mods → ∀ r, find? n s.mods = some r → r.rdepends ≠ []) : s.mods = [] := by
  apply Classical.byContradiction
  intro hne
  have hnn : names s.mods ≠ [] := by
    intro h
    apply hne
    simpa [names] using h
  obtain ⟨m, hm, hmax⟩ := exists_max_rank rank (names s.mods) hnn
  obtain ⟨rm, hrm⟩ := mem_names_iff.mp hm
  have hnonempty := hnp m hm rm hrm
  cases hrd : rm.rdepends with
  | nil => exact hnonempty hrd
  | cons x xs =>
    have hx : x ∈ rm.rdepends := by rw [hrd]; exact List.mem_cons_self ..
    have hxn := hc.rdeps_in m rm hrm x hx
    obtain ⟨rx, hrx⟩ := mem_names_iff.mp hxn
    have hmd : m ∈ rx.depends := (hc.c1 x rx m rm hrx hrm).mp hx
    rw [hl.deps x rx hrx] at hmd
    have h1 := hrank x (hl.sub x hxn) m hmd
    have h2 := hmax x hxn
    omega

theorem closeAll_empty {s : St α} (h : s.mods = []) : closeAll lt s = (s, true) := by
  unfold closeAll
  rw [h]
  simp only [List.length_nil, Nat.zero_add]
  rw [rounds_succ, h]
  simp [names, closePass, sweep, h]

theorem closeAll_acyclic {N0 : List α} {lg0 : List (Event α)} {s : St α} (hc : CI s) (hl : CLog G N0 lg0 s)
    (rank : α → Nat)
    (hrank : ∀ a, a ∈ N0 → ∀ d, d ∈ G a → rank d < rank a) :
    ∃ s1, closeAll lt s = (s1, true) ∧ s1.mods = [] ∧ CLog G N0 lg0 s1 := by
  have hr := rounds_inv lt (fun s => CI s ∧ CLog G N0 lg0 s)
    (by
      intro s n r hP hf he
      exact ⟨⟨hP.1.remove lt hf he, hP.2.remove lt hP.1 hf he⟩, (removeFacts lt hP.1 hf he).length⟩)
    (s.mods.length + 1) s ⟨hc, hl⟩ (by omega)
  obtain ⟨h1, ⟨hc1, hl1⟩, h3⟩ := hr
  have hnp := (closePass_noprogress lt _ _ h3).2
  have hempty := no_progress_empty hc1 hl1 rank hrank hnp
  refine ⟨(rounds lt (s.mods.length + 1) s).1, ?_, hempty, hl1⟩
  unfold closeAll
  cases hres : rounds lt (s.mods.length + 1) s with
  | mk s1 f1 =>
    rw [hres] at h1 hempty
    simp only at h1 hempty ⊢
    rw [hempty, h1]
    simp [names, sweep]

theorem exitChain_acyclic {N0 : List α} {lg0 : List (Event α)} {s : St α} (code : Nat) (hc : CI s)
    (hl : CLog G N0 lg0 s) (rank : α → Nat)
    (hrank : ∀ a, a ∈ N0 → ∀ d, d ∈ G a → rank d < rank a) :
    ∃ s1, exitChain lt code s = { status := code, why := .none, events := s1.log.reverse } ∧
      s1.mods = [] ∧ CLog G N0 lg0 s1 := by
  obtain ⟨s1, h1, he, hl1⟩ := closeAll_acyclic lt hc hl rank hrank
  refine ⟨s1, ?_, he, hl1⟩
  unfold exitChain
  rw [h1]
  simp only
  rw [closeAll_empty lt he]
  simp [he]

/-! ### for every state: unloading only adds destructor events -/

def LogExt (s s' : St α) : Prop := ∀ e, e ∈ s'.log → e ∈ s.log ∨ ∃ x, e = Event.dtor x

theorem LogExt.refl (s : St α) : LogExt s s := fun _ h => Or.inl h

theorem LogExt.trans {s1 s2 s3 : St α} (h12 : LogExt s1 s2) (h23 : LogExt s2 s3) : LogExt s1 s3 := by
  intro e he
  rcases h23 e he with h | h
  · exact h12 e h
  · exact Or.inr h

theorem getOrCreate_log (d : α) (s : St α) : (getOrCreate lt d s).log = s.log := by
  unfold getOrCreate
  split <;> rfl

theorem cleanupDeps_log (m : α) : ∀ ds s, (cleanupDeps lt m ds s).log = s.log := by
  intro ds
  induction ds with
  | nil => intro s; rfl
  | cons d ds ih =>
    intro s
    rw [cleanupDeps_cons, ih]
    exact getOrCreate_log lt d s

theorem cleanup_logExt (r : Rec α) (s : St α) : LogExt s (cleanup lt r s) := by
  intro e he
  unfold cleanup at he
  simp only at he
  split at he
  · rcases List.mem_cons.mp he with rfl | he
    · exact Or.inr ⟨_, rfl⟩
    · rw [cleanupDeps_log] at he; exact Or.inl he
  · split at he
    · rcases List.mem_cons.mp he with rfl | he
      · exact Or.inr ⟨_, rfl⟩
      · rw [cleanupDeps_log] at he; exact Or.inl he
    · rw [cleanupDeps_log] at he; exact Or.inl he

theorem removeStep_logExt (n : α) (r : Rec α) (s : St α) : LogExt s (removeStep lt n r s) :=
  cleanup_logExt lt r { s with mods := erase n s.mods }

theorem closePass_logExt : ∀ ns s p, LogExt s (closePass lt ns s p).1 := by
  intro ns
  induction ns with
  | nil => intro s p; exact LogExt.refl s
  | cons n ns ih =>
    intro s p
    rw [closePass_cons]
    cases find? n s.mods with
    | none => exact ih s p
    | some r =>
      simp only
      by_cases he : r.rdepends.isEmpty = true
      · rw [if_pos he]; exact (removeStep_logExt lt n r s).trans (ih _ _)
      · rw [if_neg he]; exact ih s p

theorem rounds_logExt : ∀ k s, LogExt s (rounds lt k s).1 := by
  intro k
  induction k with
  | zero => intro s; exact LogExt.refl s
  | succ k ih =>
    intro s
    rw [rounds_succ]
    have h := closePass_logExt lt (names s.mods) s false
    cases hres : closePass lt (names s.mods) s false with
    | mk s' p' =>
      rw [hres] at h
      cases p' with
      | true => exact h.trans (ih s')
      | false => exact h

theorem sweep_cons (n : α) (ns : List α) (s : St α) :
    sweep lt (n :: ns) s =
      match find? n s.mods with
      | none => sweep lt ns s
      | some r => sweep lt ns (removeStep lt n r s) := rfl

theorem sweep_logExt : ∀ ns s, LogExt s (sweep lt ns s) := by
  intro ns
  induction ns with
  | nil => intro s; exact LogExt.refl s
  | cons n ns ih =>
    intro s
    rw [sweep_cons]
    cases find? n s.mods with
    | none => exact ih s
    | some r => exact (removeStep_logExt lt n r s).trans (ih _)

theorem closeAll_logExt (s : St α) : LogExt s (closeAll lt s).1 := by
  unfold closeAll
  have h := rounds_logExt lt (s.mods.length + 1) s
  cases hres : rounds lt (s.mods.length + 1) s with
  | mk s1 f1 =>
    rw [hres] at h
    exact h.trans (sweep_logExt lt _ s1)

theorem exitChain_events (code : Nat) (s : St α) :
    ∀ e, e ∈ (exitChain lt code s).events → e ∈ s.log ∨ ∃ x, e = Event.dtor x := by
  have h1 := closeAll_logExt lt s
  unfold exitChain
  cases hr1 : closeAll lt s with
  | mk s1 f1 =>
    rw [hr1] at h1
    have h2 := closeAll_logExt lt s1
    cases hr2 : closeAll lt s1 with
    | mk s2 f2 =>
      rw [hr2] at h2
      have h12 := h1.trans h2
      intro e he
      simp only at he
      split at he
      · simp only [hr2] at he; exact h12 e (List.mem_reverse.mp he)
      · split at he
        · simp only [hr2] at he; exact h12 e (List.mem_reverse.mp he)
        · simp only [hr2] at he; exact h12 e (List.mem_reverse.mp he)

theorem exitChain_status_ne_zero {code : Nat} (hc : code ≠ 0) (s : St α) : (exitChain lt code s).status ≠ 0 := by
  unfold exitChain
  cases closeAll lt s with
  | mk s1 f1 =>
    cases closeAll lt s1 with
    | mk s2 f2 =>
      simp only
      split
      · simp
      · split
        · exact hc
        · simp

/-! ### what is left after the final sweep: phantom records only, and they go next time -/

/-- a record `module_get` made up: no dependencies in either direction -/
def Ph (s : St α) : Prop := ∀ a r, find? a s.mods = some r → r.depends = [] ∧ r.rdepends = []

theorem cleanupDeps_phantomish (S : α → Prop) (m : α) : ∀ ds s,
    (∀ a q, find? a s.mods = some q → ¬ S a → q.depends = [] ∧ q.rdepends = []) →
    ∀ a q, find? a (cleanupDeps lt m ds s).mods = some q → ¬ S a → q.depends = [] ∧ q.rdepends = [] := by
  intro ds
  induction ds with
  | nil => intro s h; exact h
  | cons d ds ih =>
    intro s h
    rw [cleanupDeps_cons]
    apply ih
    intro a q hq hS
    simp only at hq
    rw [find?_modify' (by simp), Option.map_eq_some_iff] at hq
    obtain ⟨q0, hq0, e⟩ := hq
    have hq0' : q0.depends = [] ∧ q0.rdepends = [] := by
      unfold getOrCreate at hq0
      by_cases hf : (find? d s.mods).isSome = true
      · rw [if_pos hf] at hq0
        exact h a q0 hq0 hS
      · rw [if_neg hf] at hq0
        simp only at hq0
        have hdn : d ∉ names s.mods := fun hd => hf (find?_isSome_iff.mpr hd)
        rw [find?_insertRec lt _ _ (by simpa using hdn)] at hq0
        by_cases e' : a = d
        · simp [e'] at hq0; subst hq0; exact ⟨rfl, rfl⟩
        · simp only [show ¬ a = ({ name := d } : Rec α).name from e', if_false] at hq0
          exact h a q0 hq0 hS
    by_cases e' : a = d
    · simp only [e', if_true] at e; subst e
      exact ⟨hq0'.1, by simp [dropRdep, hq0'.2]⟩
    · simp only [e', if_false] at e; subst e
      exact hq0'

theorem cleanup_mods (r : Rec α) (s : St α) :
    (cleanup lt r s).mods = (cleanupDeps lt r.name r.depends s).mods := by
  unfold cleanup
  simp only
  split
  · rfl
  · split <;> rfl

theorem sweep_phantoms : ∀ ns s,
    (∀ a q, find? a s.mods = some q → a ∉ ns → q.depends = [] ∧ q.rdepends = []) → Ph (sweep lt ns s) := by
  intro ns
  induction ns with
  | nil =>
    intro s h a q hq
    exact h a q hq (by simp)
  | cons n ns ih =>
    intro s h
    rw [sweep_cons]
    cases hf : find? n s.mods with
    | none =>
      apply ih
      intro a q hq hns
      apply h a q hq
      intro hmem
      rcases List.mem_cons.mp hmem with rfl | hmem
      · rw [hf] at hq; cases hq
      · exact hns hmem
    | some r =>
      apply ih
      intro a q hq hns
      unfold removeStep at hq
      rw [cleanup_mods] at hq
      refine cleanupDeps_phantomish lt (fun x => x ∈ ns) r.name r.depends _ ?_ a q hq hns
      intro a' q' hq' hns'
      simp only at hq'
      rw [find?_erase] at hq'
      by_cases e : a' = n
      · simp [e] at hq'
      · simp only [e, if_false] at hq'
        apply h a' q' hq'
        intro hmem
        rcases List.mem_cons.mp hmem with rfl | hmem
        · exact e rfl
        · exact hns' hmem

theorem ph_step (s : St α) (n : α) (r : Rec α) (hP : Ph s) (hf : find? n s.mods = some r)
    (_he : r.rdepends = []) : Ph (removeStep lt n r s) ∧ (removeStep lt n r s).mods.length < s.mods.length := by
  have hd : r.depends = [] := (hP n r hf).1
  have hm : (removeStep lt n r s).mods = erase n s.mods := by
    unfold removeStep
    rw [cleanup_mods, hd]
    rfl
  constructor
  · intro a q hq
    rw [hm, find?_erase] at hq
    by_cases e : a = n
    · simp [e] at hq
    · simp only [e, if_false] at hq
      exact hP a q hq
  · rw [hm]
    exact length_erase_lt (mem_names_of_find? hf)

/-- the `do … while` loops of both `module_close_all` calls of the exit path end within their
    fuel, whatever the graph -/
theorem exitChain_why {s : St α} (hc : CI s) (code : Nat) : (exitChain lt code s).why = Why.none := by
  -- first call
  have hr := rounds_inv lt CI
    (fun s n r hP hf he => ⟨hP.remove lt hf he, (removeFacts lt hP hf he).length⟩)
    (s.mods.length + 1) s hc (by omega)
  have hflag1 : (closeAll lt s).2 = true := by
    unfold closeAll
    cases hres : rounds lt (s.mods.length + 1) s with
    | mk s1 f1 => rw [hres] at hr; exact hr.1
  have hph : Ph (closeAll lt s).1 := by
    unfold closeAll
    cases hres : rounds lt (s.mods.length + 1) s with
    | mk s1 f1 =>
      simp only
      apply sweep_phantoms
      intro a q hq hn
      exact absurd (mem_names_of_find? hq) hn
  -- second call
  have hr2 := rounds_inv lt Ph (ph_step lt) ((closeAll lt s).1.mods.length + 1) (closeAll lt s).1 hph (by omega)
  have hflag2 : (closeAll lt (closeAll lt s).1).2 = true := by
    unfold closeAll at hr2 ⊢
    cases hres : rounds lt (s.mods.length + 1) s with
    | mk s1 f1 =>
      rw [hres] at hr2
      simp only at hr2 ⊢
      cases hres2 : rounds lt ((sweep lt (names s1.mods) s1).mods.length + 1) (sweep lt (names s1.mods) s1) with
      | mk s2 f2 => rw [hres2] at hr2; exact hr2.1
  unfold exitChain
  cases h1 : closeAll lt s with
  | mk s1 f1 =>
    rw [h1] at hflag1 hflag2
    cases h2 : closeAll lt s1 with
    | mk s2 f2 =>
      rw [h2] at hflag2
      have e1 : f1 = true := hflag1
      have e2 : f2 = true := hflag2
      subst e1; subst e2
      simp only [h2, Bool.and_self, Bool.true_eq_false, if_false]
      split <;> rfl

end
end Iauthd.Module
