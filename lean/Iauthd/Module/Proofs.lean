import Iauthd.Module.ProofsClose
import Iauthd.Module.ProofsSpec
/-
  Assembly: the whole run of the repaired daemon (`run`).
-/
set_option linter.unusedSectionVars false
set_option linter.unusedSimpArgs false
set_option linter.unusedVariables false

namespace Iauthd.Module

section
variable {α : Type} [DecidableEq α] (lt : α → α → Bool) {G : α → List α} {ok : α → Bool}

theorem run_eq (fuel : Nat) (L : List α) :
    run lt G ok fuel L =
      match loadAll lt G ok fuel L {} with
      | .fatal s' w => { status := 1, why := w, events := s'.log.reverse }
      | .ok s1 =>
        match postInitPhase lt (dfsFixed lt) s1 with
        | .fatal s' w => { status := 1, why := w, events := s'.log.reverse }
        | .loop s' => exitChain lt 1 s'
        | .done s2 => exitChain lt 0 s2 := rfl

/-- the state after a successful post-init phase satisfies the unloading invariants -/
theorem ci_of_phase {L : List α} {ac : Prop} {s1 s2 : St α} (h1 : Loaded' (G := G) (ok := ok) L ac s1)
    (hsim : Sim s1 s2) : CI s2 := by
  constructor
  · rw [hsim.1]; exact h1.nodup
  · intro a r' hr'
    obtain ⟨r, hr, _, hh, _⟩ := hsim.back hr'
    rw [hh]; exact (h1.fresh a r hr).1
  · intro a r' hr' d hd
    obtain ⟨r, hr, hdp, _, _⟩ := hsim.back hr'
    rw [hsim.1]
    rw [hdp, h1.deps a r hr] at hd
    exact h1.deps_in a (mem_names_of_find? hr) d hd
  · intro a r' hr' x hx
    obtain ⟨r, hr, _, _, hrd⟩ := hsim.back hr'
    rw [hsim.1]
    exact h1.rdeps_in a r hr x ((hrd x).mp hx)
  · exact C1.of_sim h1.c1 hsim

structure AcyclicRun (G : α → List α) (L : List α) (o : Outcome α) : Prop where
  status : o.status = 0
  why : o.why = Why.none
  wo : wo G o.events.reverse = true
  begun_iff : ∀ m, Event.ctorBegin m ∈ o.events ↔ Loaded G L m
  full : ∀ m, Loaded G L m →
    Event.ctorEnd m ∈ o.events ∧ Event.postInit m ∈ o.events ∧ Event.dtor m ∈ o.events

theorem run_acyclic {U L : List α} {fuel : Nat} (hcl : Closed G U L) (hfuel : U.length < fuel)
    (hnc : NoCycle G L) (hok : ∀ m, Loaded G L m → ok m = true) :
    AcyclicRun G L (run lt G ok fuel L) := by
  rw [run_eq]
  have hl := loadAll_spec (G := G) (ok := ok) lt (ac := True) (fun _ => hnc) hcl hfuel L {} (fun _ h => h)
    (LInv.init L True) (by intro x hx; exact absurd hx.1 (by simp))
  generalize loadAll lt G ok fuel L {} = res at hl
  cases res with
  | fatal s' w =>
    obtain ⟨⟨x, _, hx, hxL⟩, _⟩ := hl
    have := hok x hxL
    rw [this] at hx; cases hx
  | ok s1 =>
    obtain ⟨hinv, hmem, _, hinc⟩ := hl
    have h1 : Loaded' (G := G) (ok := ok) L True s1 := loaded_of_loadAll hinv hmem hinc
    simp only
    have hrk : ∀ a d, Loaded G L a → d ∈ G a → rankOf s1.log d < rankOf s1.log a := by
      intro a d ha hd
      exact rankOf_lt (h1.wo trivial) (h1.ended a ((h1.names_iff a).mpr ha)) hd
    have hp := postInitPhase_spec lt (rankOf s1.log) (fun _ => hrk) h1
    generalize postInitPhase lt (dfsFixed lt) s1 = res2 at hp
    cases res2 with
    | loop s' => exact absurd trivial hp.2.2
    | fatal s' w => exact absurd trivial hp.2.2
    | done s2 =>
      obtain ⟨hd2, hsim, hall, hlogmono⟩ := hp
      simp only
      have hci : CI s2 := ci_of_phase h1 hsim
      have hcl2 : CLog G (names s1.mods) s2.log s2 := {
        keep := fun _ h => h
        others := fun _ h => Or.inr h
        deps := hd2.deps
        sub := by intro a ha; rw [hsim.1] at ha; exact ha
        ended := by intro a ha; rw [← hsim.1] at ha; exact hd2.ended a ha
        dtor_iff := by
          intro a
          constructor
          · intro h; exact absurd h (hd2.nodtor a)
          · rintro ⟨h1', h2'⟩; rw [hsim.1] at h2'; exact absurd h1' h2'
        wo := hd2.wo trivial }
      obtain ⟨s3, he, hempty, hl3⟩ := exitChain_acyclic lt 0 hci hcl2 (rankOf s1.log)
        (by intro a ha d hd; exact hrk a d ((h1.names_iff a).mp ha) hd)
      rw [he]
      have hnames3 : ∀ a, a ∉ names s3.mods := by intro a; rw [hempty]; simp [names]
      -- events of the final log that are not destructor events come from `s2.log`
      have hcb : ∀ m, Event.ctorBegin m ∈ s3.log ↔ Event.ctorBegin m ∈ s2.log := by
        intro m
        constructor
        · intro h
          rcases hl3.others _ h with ⟨a, ha⟩ | h'
          · cases ha
          · exact h'
        · exact hl3.keep _
      exact {
        status := rfl
        why := rfl
        wo := by simpa using hl3.wo
        begun_iff := by
          intro m
          simp only [List.mem_reverse]
          rw [hcb m, hd2.begun m, hsim.1]
          exact h1.names_iff m
        full := by
          intro m hm
          have hm1 : m ∈ names s1.mods := (h1.names_iff m).mpr hm
          simp only [List.mem_reverse]
          refine ⟨hl3.ended m hm1, ?_, (hl3.dtor_iff m).mpr ⟨hm1, hnames3 m⟩⟩
          apply hl3.keep
          have hm2 : m ∈ names s2.mods := by rw [hsim.1]; exact hm1
          obtain ⟨r2, hr2⟩ := mem_names_iff.mp hm2
          exact (hd2.pi_iff m).mpr ⟨r2, hr2, hall m r2 hr2⟩ }

/-! ### every graph -/

structure AnyRun (G : α → List α) (ok : α → Bool) (L : List α) (o : Outcome α) : Prop where
  nofuel : o.why ≠ Why.fuel
  nocycpi : ∀ c, Reach1 G c c → Event.postInit c ∉ o.events
  zero_imp : o.status = 0 → NoCycle G L ∧ ∀ m, Loaded G L m → ok m = true
  unl : (∃ m, Loaded G L m ∧ ok m = false) →
    o.status = 1 ∧ (∃ x, o.why = Why.unloadable x ∧ ok x = false) ∧
      ∀ m, Event.postInit m ∉ o.events ∧ Event.dtor m ∉ o.events

theorem run_any {U L : List α} {fuel : Nat} (hcl : Closed G U L) (hfuel : U.length < fuel) :
    AnyRun G ok L (run lt G ok fuel L) := by
  rw [run_eq]
  have hl := loadAll_spec (G := G) (ok := ok) lt (ac := False) (fun h => h.elim) hcl hfuel L {} (fun _ h => h)
    (LInv.init L False) (by intro x hx; exact absurd hx.1 (by simp))
  generalize loadAll lt G ok fuel L {} = res at hl
  cases res with
  | fatal s' w =>
    obtain ⟨⟨x, rfl, hx, hxL⟩, honly⟩ := hl
    have hnone : ∀ m, Event.postInit m ∉ s'.log.reverse ∧ Event.dtor m ∉ s'.log.reverse := by
      intro m
      constructor <;> intro h <;>
        (rcases honly _ (List.mem_reverse.mp h) with ⟨n, hn⟩ | ⟨n, hn⟩ <;> cases hn)
    exact {
      nofuel := by simp
      nocycpi := fun c _ => (hnone c).1
      zero_imp := by intro h; simp at h
      unl := fun _ => ⟨rfl, ⟨x, rfl, hx⟩, hnone⟩ }
  | ok s1 =>
    obtain ⟨hinv, hmem, _, hinc⟩ := hl
    have h1 : Loaded' (G := G) (ok := ok) L False s1 := loaded_of_loadAll hinv hmem hinc
    have hallok : ∀ m, Loaded G L m → ok m = true := fun m hm => h1.okAll m ((h1.names_iff m).mpr hm)
    have hnounl : ¬ ∃ m, Loaded G L m ∧ ok m = false := by
      rintro ⟨m, hm, hf⟩
      rw [hallok m hm] at hf; cases hf
    simp only
    have hp := postInitPhase_spec lt (fun _ => 0) (fun (h : False) => h.elim) h1
    generalize postInitPhase lt (dfsFixed lt) s1 = res2 at hp
    cases res2 with
    | fatal s' w =>
      obtain ⟨⟨a, b, rfl⟩, hpi, _⟩ := hp
      exact {
        nofuel := by simp
        nocycpi := fun c hc h => hpi c (List.mem_reverse.mp h) hc
        zero_imp := by intro h; simp at h
        unl := fun h => absurd h hnounl }
    | loop s' =>
      obtain ⟨hsim, hpi, _⟩ := hp
      simp only
      have hci : CI s' := ci_of_phase h1 hsim
      exact {
        nofuel := by rw [exitChain_why lt hci]; simp
        nocycpi := by
          intro c hc h
          rcases exitChain_events lt 1 s' _ h with h' | ⟨x, hx⟩
          · exact hpi c h' hc
          · cases hx
        zero_imp := fun h => absurd h (exitChain_status_ne_zero lt (by omega) s')
        unl := fun h => absurd h hnounl }
    | done s2 =>
      obtain ⟨hd2, hsim, hall, _⟩ := hp
      simp only
      have hci : CI s2 := ci_of_phase h1 hsim
      exact {
        nofuel := by rw [exitChain_why lt hci]; simp
        nocycpi := by
          intro c hc h
          rcases exitChain_events lt 0 s2 _ h with h' | ⟨x, hx⟩
          · exact hd2.noCyclePI c h' hc
          · cases hx
        zero_imp := by
          intro _
          refine ⟨?_, hallok⟩
          intro m hm
          have hm2 : m ∈ names s2.mods := by rw [hsim.1]; exact (h1.names_iff m).mpr hm
          obtain ⟨r2, hr2⟩ := mem_names_iff.mp hm2
          exact hd2.nocyc m r2 hr2 (hall m r2 hr2)
        unl := fun h => absurd h hnounl }

/-! ### consequences of a well-ordered complete log, in terms of counts and positions -/

theorem count_of_wo {lg : List (Event α)} (h : wo G lg = true) (e : Event α) :
    lg.reverse.count e = if e ∈ lg then 1 else 0 := by
  rw [List.count_reverse]
  exact (wo_nodup h).count

theorem wo_begun_of_ended {lg : List (Event α)} (h : wo G lg = true) {m : α} (hm : Event.ctorEnd m ∈ lg) :
    Event.ctorBegin m ∈ lg := by
  obtain ⟨l, older, rfl⟩ := List.append_of_mem hm
  exact List.mem_append_right _ (List.mem_cons_of_mem _ (okAt_ctorEnd (wo_split h)).1)

theorem wo_ended_of_postInit {lg : List (Event α)} (h : wo G lg = true) {m : α} (hm : Event.postInit m ∈ lg) :
    Event.ctorEnd m ∈ lg := by
  obtain ⟨l, older, rfl⟩ := List.append_of_mem hm
  exact List.mem_append_right _ (List.mem_cons_of_mem _ (okAt_postInit (wo_split h)).1)

theorem wo_ended_of_dtor {lg : List (Event α)} (h : wo G lg = true) {m : α} (hm : Event.dtor m ∈ lg) :
    Event.ctorEnd m ∈ lg := by
  obtain ⟨l, older, rfl⟩ := List.append_of_mem hm
  exact List.mem_append_right _ (List.mem_cons_of_mem _ (okAt_dtor (wo_split h)).1)

/-- a rank function that decreases along edges rules out cycles (so `NoCycle` is satisfiable) -/
theorem noCycle_of_rank {L : List α} (rank : α → Nat) (h : ∀ a d, d ∈ G a → rank d < rank a) : NoCycle G L := by
  intro m _ hc
  obtain ⟨b, hr, hm⟩ := hc
  have hle : ∀ {x y}, Reach G x y → rank y ≤ rank x := by
    intro x y hxy
    induction hxy with
    | refl => exact Nat.le_refl _
    | tail _ hc ih => have := h _ _ hc; omega
  have h1 := hle hr
  have h2 := h b m hm
  omega

namespace AcyclicRun

variable {L : List α} {o : Outcome α}

theorem mem_rev (h : AcyclicRun G L o) (e : Event α) : e ∈ o.events.reverse ↔ e ∈ o.events := List.mem_reverse

theorem count (h : AcyclicRun G L o) (e : Event α) : o.events.count e = if e ∈ o.events then 1 else 0 := by
  have := count_of_wo h.wo e
  simpa using this

theorem not_loaded (h : AcyclicRun G L o) {m : α} (hm : ¬ Loaded G L m) :
    Event.ctorBegin m ∉ o.events ∧ Event.ctorEnd m ∉ o.events ∧ Event.postInit m ∉ o.events ∧
      Event.dtor m ∉ o.events := by
  have hb : Event.ctorBegin m ∉ o.events := fun hb => hm ((h.begun_iff m).mp hb)
  have he : Event.ctorEnd m ∉ o.events := by
    intro he
    exact hb (List.mem_reverse.mp (wo_begun_of_ended h.wo (List.mem_reverse.mpr he)))
  refine ⟨hb, he, ?_, ?_⟩
  · intro hp
    exact he (List.mem_reverse.mp (wo_ended_of_postInit h.wo (List.mem_reverse.mpr hp)))
  · intro hd
    exact he (List.mem_reverse.mp (wo_ended_of_dtor h.wo (List.mem_reverse.mpr hd)))

theorem before_ctorEnd (h : AcyclicRun G L o) {m d : α} (hm : Loaded G L m) (hd : d ∈ G m) :
    Before o.events (Event.ctorEnd d) (Event.ctorEnd m) := by
  have := wo_ctorEnd_before h.wo (List.mem_reverse.mpr (h.full m hm).1) hd
  simpa using this

theorem before_begin_end (h : AcyclicRun G L o) {m : α} (hm : Loaded G L m) :
    Before o.events (Event.ctorBegin m) (Event.ctorEnd m) := by
  have := wo_ctorBegin_before h.wo (List.mem_reverse.mpr (h.full m hm).1)
  simpa using this

theorem before_postInit (h : AcyclicRun G L o) {m d : α} (hm : Loaded G L m) (hd : d ∈ G m) :
    Before o.events (Event.postInit d) (Event.postInit m) := by
  have := wo_postInit_before h.wo (List.mem_reverse.mpr (h.full m hm).2.1) hd
  simpa using this

theorem before_end_postInit (h : AcyclicRun G L o) {m : α} (hm : Loaded G L m) :
    Before o.events (Event.ctorEnd m) (Event.postInit m) := by
  have := wo_ctorEnd_before_postInit h.wo (List.mem_reverse.mpr (h.full m hm).2.1)
  simpa using this

theorem before_dtor (h : AcyclicRun G L o) {m d : α} (hm : Loaded G L m) (hd : d ∈ G m) :
    Before o.events (Event.dtor m) (Event.dtor d) := by
  have hdL : Loaded G L d := hm.step hd
  have hne := wo_dep_ne h.wo (List.mem_reverse.mpr (h.full m hm).1) hd
  have := wo_dtor_before h.wo (List.mem_reverse.mpr (h.full m hm).2.2)
    (List.mem_reverse.mpr (h.full d hdL).2.2) hd hne
  simpa using this

theorem checker (h : AcyclicRun G L o) (hok : ∀ m, Loaded G L m → ok m = true) :
    wellOrdered G o.events = true ∧ completeRun L o.events = true ∧ constructedOk ok o.events = true := by
  refine ⟨h.wo, ?_, ?_⟩
  · unfold completeRun
    rw [Bool.and_eq_true, List.all_eq_true, List.all_eq_true]
    constructor
    · intro m hm
      simp only [decide_eq_true_eq]
      exact (h.begun_iff m).mpr ⟨m, hm, Reach.refl m⟩
    · intro e he
      cases e with
      | ctorBegin m =>
        have := h.full m ((h.begun_iff m).mp he)
        simp [lifeComplete, this]
      | _ => rfl
  · unfold constructedOk
    rw [List.all_eq_true]
    intro e he
    cases e with
    | ctorBegin m => exact hok m ((h.begun_iff m).mp he)
    | _ => rfl

end AcyclicRun

/-- the model satisfies the judge on every graph over a finite closed universe -/
theorem run_judge {U L : List α} {fuel : Nat} (hcl : Closed G U L) (hfuel : U.length < fuel) :
    judge G ok U L (run lt G ok fuel L).status (run lt G ok fuel L).events = true := by
  have hany := run_any (ok := ok) lt hcl hfuel
  unfold judge
  by_cases hab : mustAbort G ok U L = true
  · rw [if_pos hab]
    obtain ⟨m, hmL, hm⟩ := (mustAbort_iff hcl).mp hab
    have hst : (run lt G ok fuel L).status ≠ 0 := by
      intro h0
      obtain ⟨hnc, hallok⟩ := hany.zero_imp h0
      rcases hm with hm | hm
      · rw [hallok m hmL] at hm; cases hm
      · exact hnc m hmL hm
    have hpi : postInitOfCycleMember G U (run lt G ok fuel L).events = false := by
      unfold postInitOfCycleMember
      rw [List.any_eq_false]
      intro e he
      cases e with
      | postInit c =>
        simp only [Bool.not_eq_true]
        cases hc : onCycle G U c with
        | false => rfl
        | true => exact absurd he (hany.nocycpi c (onCycle_sound hc))
      | _ => simp
    simp [hst, hpi]
  · rw [if_neg hab]
    have hnone : ¬ ∃ m, Loaded G L m ∧ (ok m = false ∨ Reach1 G m m) := fun h => hab ((mustAbort_iff hcl).mpr h)
    have hnc : NoCycle G L := fun m hm hc => hnone ⟨m, hm, Or.inr hc⟩
    have hallok : ∀ m, Loaded G L m → ok m = true := by
      intro m hm
      cases h : ok m with
      | true => rfl
      | false => exact absurd ⟨m, hm, Or.inl h⟩ hnone
    have hrun := run_acyclic lt hcl hfuel hnc hallok
    obtain ⟨h1, h2, h3⟩ := hrun.checker hallok
    simp [hrun.status, h1, h2, h3]

end
end Iauthd.Module
