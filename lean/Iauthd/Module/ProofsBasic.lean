import Iauthd.Module.Spec
/-
  Lemmas about the record list (the `modules` set read as a function from names to
  records), about reachability in the declared graph, and about the checker `wo`.
-/
set_option linter.unusedSectionVars false
set_option linter.unusedSimpArgs false

namespace Iauthd.Module

section
variable {α : Type} [DecidableEq α]

/-! ### the record list as a partial function `find?` -/

theorem find?_nil (a : α) : find? a ([] : List (Rec α)) = none := rfl

theorem find?_cons (a : α) (x : Rec α) (xs : List (Rec α)) :
    find? a (x :: xs) = if x.name = a then some x else find? a xs := by
  unfold find?
  by_cases h : x.name = a <;> simp [List.find?_cons, h]

theorem find?_name {a : α} {mods : List (Rec α)} {r : Rec α} (h : find? a mods = some r) : r.name = a := by
  have := List.find?_some h
  simpa using this

theorem find?_mem {a : α} {mods : List (Rec α)} {r : Rec α} (h : find? a mods = some r) : r ∈ mods :=
  List.mem_of_find?_eq_some h

theorem find?_eq_none_iff {a : α} {mods : List (Rec α)} : find? a mods = none ↔ a ∉ names mods := by
  unfold find? names
  simp [List.find?_eq_none, List.mem_map]

theorem find?_isSome_iff {a : α} {mods : List (Rec α)} : (find? a mods).isSome = true ↔ a ∈ names mods := by
  cases h : find? a mods with
  | none => simp [find?_eq_none_iff.mp h]
  | some r =>
    simp
    have := find?_eq_none_iff (a := a) (mods := mods)
    rw [h] at this
    simpa using this

theorem mem_names_iff {a : α} {mods : List (Rec α)} : a ∈ names mods ↔ ∃ r, find? a mods = some r := by
  rw [← find?_isSome_iff]
  cases find? a mods <;> simp

theorem mem_names_of_find? {a : α} {mods : List (Rec α)} {r : Rec α} (h : find? a mods = some r) :
    a ∈ names mods := mem_names_iff.mpr ⟨r, h⟩

theorem find?_of_mem {mods : List (Rec α)} (hnd : (names mods).Nodup) {r : Rec α} (h : r ∈ mods) :
    find? r.name mods = some r := by
  induction mods with
  | nil => cases h
  | cons x xs ih =>
    rw [find?_cons]
    simp only [names, List.map_cons, List.nodup_cons] at hnd
    rcases List.mem_cons.mp h with rfl | hm
    · simp
    · have hne : x.name ≠ r.name := by
        intro e
        exact hnd.1 (e ▸ List.mem_map.mpr ⟨r, hm, rfl⟩)
      simp only [hne, if_false]
      exact ih hnd.2 hm

theorem names_modify {f : Rec α → Rec α} (hf : ∀ r, (f r).name = r.name) (m : α) (mods : List (Rec α)) :
    names (modify m f mods) = names mods := by
  unfold names modify
  rw [List.map_map]
  apply List.map_congr_left
  intro r _
  by_cases h : r.name = m <;> simp [h, hf]

theorem find?_modify {f : Rec α → Rec α} (hf : ∀ r, (f r).name = r.name) (a m : α) (mods : List (Rec α)) :
    find? a (modify m f mods) =
      match find? a mods with
      | some r => some (if a = m then f r else r)
      | none => none := by
  induction mods with
  | nil => rfl
  | cons x xs ih =>
    have hm : modify m f (x :: xs) = (if x.name = m then f x else x) :: modify m f xs := rfl
    rw [hm, find?_cons, find?_cons]
    have hn : (if x.name = m then f x else x).name = x.name := by
      by_cases h : x.name = m <;> simp [h, hf]
    rw [hn]
    by_cases hx : x.name = a
    · subst hx
      simp
    · simp only [hx, if_false]
      exact ih

theorem find?_modify' {f : Rec α → Rec α} (hf : ∀ r, (f r).name = r.name) (a m : α) (mods : List (Rec α)) :
    find? a (modify m f mods) = (find? a mods).map (fun r => if a = m then f r else r) := by
  rw [find?_modify hf]
  cases find? a mods <;> rfl

theorem length_modify (m : α) (f : Rec α → Rec α) (mods : List (Rec α)) :
    (modify m f mods).length = mods.length := by
  simp [modify]

variable (lt : α → α → Bool)

theorem insertRec_perm (r : Rec α) (mods : List (Rec α)) : (insertRec lt r mods).Perm (r :: mods) := by
  induction mods with
  | nil => exact List.Perm.refl _
  | cons x xs ih =>
    unfold insertRec
    by_cases h : lt r.name x.name = true
    · rw [if_pos h]
    · rw [if_neg h]
      exact (List.Perm.cons x ih).trans (List.Perm.swap r x xs)

theorem names_insertRec_perm (r : Rec α) (mods : List (Rec α)) :
    (names (insertRec lt r mods)).Perm (r.name :: names mods) :=
  (insertRec_perm lt r mods).map _

theorem mem_names_insertRec {a : α} (r : Rec α) (mods : List (Rec α)) :
    a ∈ names (insertRec lt r mods) ↔ a = r.name ∨ a ∈ names mods := by
  rw [(names_insertRec_perm lt r mods).mem_iff]
  simp

theorem nodup_names_insertRec (r : Rec α) (mods : List (Rec α)) :
    (names (insertRec lt r mods)).Nodup ↔ r.name ∉ names mods ∧ (names mods).Nodup := by
  rw [(names_insertRec_perm lt r mods).nodup_iff]
  simp

theorem length_insertRec (r : Rec α) (mods : List (Rec α)) :
    (insertRec lt r mods).length = mods.length + 1 := by
  rw [(insertRec_perm lt r mods).length_eq]
  simp

theorem find?_insertRec {a : α} (r : Rec α) (mods : List (Rec α)) (h : r.name ∉ names mods) :
    find? a (insertRec lt r mods) = if a = r.name then some r else find? a mods := by
  induction mods with
  | nil =>
    simp only [insertRec, find?_cons, find?_nil]
    by_cases e : a = r.name
    · simp [e]
    · have : ¬ r.name = a := fun h => e h.symm
      simp [e, this]
  | cons x xs ih =>
    have hx : x.name ≠ r.name := by
      intro e
      apply h
      simp [names, e]
    have hxs : r.name ∉ names xs := by
      intro e
      apply h
      simp only [names, List.map_cons, List.mem_cons]
      exact Or.inr e
    unfold insertRec
    by_cases hl : lt r.name x.name = true
    · rw [if_pos hl]
      rw [find?_cons]
      by_cases e : a = r.name
      · simp [e]
      · have : ¬ r.name = a := fun h => e h.symm
        simp [e, this]
    · rw [if_neg hl]
      rw [find?_cons, find?_cons, ih hxs]
      by_cases e : a = r.name
      · subst e
        simp [hx]
      · simp [e]

theorem find?_erase (a n : α) (mods : List (Rec α)) :
    find? a (erase n mods) = if a = n then none else find? a mods := by
  induction mods with
  | nil => simp [erase, find?_nil]
  | cons x xs ih =>
    have he : erase n (x :: xs) = if x.name ≠ n then x :: erase n xs else erase n xs := by
      simp [erase, List.filter_cons]
    rw [he]
    by_cases hx : x.name = n
    · rw [if_neg (by simpa using hx)]
      rw [ih, find?_cons]
      by_cases e : a = n
      · simp [e]
      · have : ¬ x.name = a := by rw [hx]; exact fun h => e h.symm
        simp [e, this]
    · rw [if_pos hx]
      rw [find?_cons, find?_cons, ih]
      by_cases e : a = n
      · subst e
        simp [hx]
      · simp [e]

theorem mem_names_erase {a n : α} {mods : List (Rec α)} :
    a ∈ names (erase n mods) ↔ a ∈ names mods ∧ a ≠ n := by
  simp only [names, erase, List.mem_map, List.mem_filter]
  constructor
  · rintro ⟨r, ⟨hr, hn⟩, rfl⟩
    exact ⟨⟨r, hr, rfl⟩, by simpa using hn⟩
  · rintro ⟨⟨r, hr, rfl⟩, hn⟩
    exact ⟨r, ⟨hr, by simpa using hn⟩, rfl⟩

theorem nodup_names_erase {n : α} {mods : List (Rec α)} (h : (names mods).Nodup) :
    (names (erase n mods)).Nodup := by
  have : List.Sublist (names (erase n mods)) (names mods) := by
    unfold names erase
    exact List.Sublist.map _ List.filter_sublist
  exact h.sublist this

theorem length_erase_lt {n : α} {mods : List (Rec α)} (h : n ∈ names mods) :
    (erase n mods).length < mods.length := by
  induction mods with
  | nil => simp [names] at h
  | cons x xs ih =>
    have he : erase n (x :: xs) = if x.name ≠ n then x :: erase n xs else erase n xs := by
      simp [erase, List.filter_cons]
    rw [he]
    by_cases hx : x.name = n
    · rw [if_neg (by simpa using hx)]
      simp only [List.length_cons]
      have : (erase n xs).length ≤ xs.length := List.length_filter_le _ _
      omega
    · rw [if_pos hx]
      simp only [List.length_cons]
      have : n ∈ names xs := by
        simp only [names, List.map_cons, List.mem_cons] at h
        rcases h with h | h
        · exact absurd h.symm hx
        · exact h
      have := ih this
      omega

/-- `module_get` on a name that is present changes nothing -/
theorem getOrCreate_of_mem {n : α} {s : St α} (h : n ∈ names s.mods) : getOrCreate lt n s = s := by
  unfold getOrCreate
  rw [find?_isSome_iff.mpr h]
  simp

/-! ### simple facts about the updaters -/

@[simp] theorem addDep_name (d : α) (r : Rec α) : (addDep d r).name = r.name := rfl
@[simp] theorem addRdep_name (d : α) (r : Rec α) : (addRdep d r).name = r.name := rfl
@[simp] theorem dropRdep_name (d : α) (r : Rec α) : (dropRdep d r).name = r.name := rfl
@[simp] theorem setVisited_name (v : Int) (r : Rec α) : (setVisited v r).name = r.name := rfl
@[simp] theorem setHandle_name (r : Rec α) : (setHandle r).name = r.name := rfl

/-! ### reachability in the declared graph -/

/-- `a →* c` -/
inductive Reach (G : α → List α) : α → α → Prop where
  | refl (a : α) : Reach G a a
  | tail {a b c : α} : Reach G a b → c ∈ G b → Reach G a c

theorem Reach.trans {G : α → List α} {a b c : α} (h1 : Reach G a b) (h2 : Reach G b c) : Reach G a c := by
  induction h2 with
  | refl => exact h1
  | tail _ hc ih => exact Reach.tail ih hc

theorem Reach.head {G : α → List α} {a b c : α} (h : b ∈ G a) (h2 : Reach G b c) : Reach G a c :=
  Reach.trans (Reach.tail (Reach.refl a) h) h2

/-- `a →+ c` -/
def Reach1 (G : α → List α) (a c : α) : Prop := ∃ b, Reach G a b ∧ c ∈ G b

theorem Reach1.of_head {G : α → List α} {a b c : α} (h : b ∈ G a) (h2 : Reach G b c) : Reach1 G a c := by
  induction h2 with
  | refl => exact ⟨a, Reach.refl a, h⟩
  | tail hr hc _ => exact ⟨_, Reach.head h hr, hc⟩

theorem Reach1.to_head {G : α → List α} {a c : α} (h : Reach1 G a c) : ∃ b, b ∈ G a ∧ Reach G b c := by
  obtain ⟨b, hr, hc⟩ := h
  induction hr generalizing c with
  | refl => exact ⟨c, hc, Reach.refl c⟩
  | tail hr' hb ih =>
    obtain ⟨b', hb', hr''⟩ := ih hb
    exact ⟨b', hb', Reach.tail hr'' hc⟩

/-- the modules the configuration list pulls in -/
def Loaded (G : α → List α) (L : List α) (m : α) : Prop := ∃ l, l ∈ L ∧ Reach G l m

/-- no dependency cycle among the modules pulled in -/
def NoCycle (G : α → List α) (L : List α) : Prop := ∀ m, Loaded G L m → ¬ Reach1 G m m

/-- `U` is a finite universe of names: it contains the list and is closed under `G` -/
def Closed (G : α → List α) (U L : List α) : Prop := (∀ l, l ∈ L → l ∈ U) ∧ ∀ m, m ∈ U → ∀ d, d ∈ G m → d ∈ U

theorem Loaded.step {G : α → List α} {L : List α} {m d : α} (h : Loaded G L m) (hd : d ∈ G m) : Loaded G L d := by
  obtain ⟨l, hl, hr⟩ := h
  exact ⟨l, hl, Reach.tail hr hd⟩

theorem Loaded.reach {G : α → List α} {L : List α} {m d : α} (h : Loaded G L m) (hd : Reach G m d) : Loaded G L d := by
  obtain ⟨l, hl, hr⟩ := h
  exact ⟨l, hl, hr.trans hd⟩

theorem Closed.loaded {G : α → List α} {U L : List α} (hc : Closed G U L) {m : α} (h : Loaded G L m) : m ∈ U := by
  obtain ⟨l, hl, hr⟩ := h
  induction hr with
  | refl => exact hc.1 _ hl
  | tail _ hd ih => exact hc.2 _ ih _ hd

/-! ### counting: how many candidates satisfy a predicate -/

theorem length_filter_le_of_imp {β : Type} (p q : β → Bool) (l : List β)
    (h : ∀ x, x ∈ l → q x = true → p x = true) : (l.filter q).length ≤ (l.filter p).length := by
  induction l with
  | nil => simp
  | cons x xs ih =>
    have ih' := ih (fun y hy => h y (List.mem_cons_of_mem _ hy))
    simp only [List.filter_cons]
    by_cases hq : q x = true
    · have := h x (List.mem_cons_self ..) hq
      rw [if_pos hq, if_pos this]
      simp only [List.length_cons]
      omega
    · rw [if_neg hq]
      by_cases hp : p x = true
      · rw [if_pos hp]
        simp only [List.length_cons]
        omega
      · rw [if_neg hp]
        exact ih'

theorem length_filter_lt_of_imp {β : Type} (p q : β → Bool) (l : List β)
    (h : ∀ x, x ∈ l → q x = true → p x = true)
    (hex : ∃ x, x ∈ l ∧ p x = true ∧ q x = false) : (l.filter q).length < (l.filter p).length := by
  induction l with
  | nil => obtain ⟨x, hx, _⟩ := hex; cases hx
  | cons x xs ih =>
    have hxs : ∀ y, y ∈ xs → q y = true → p y = true := fun y hy => h y (List.mem_cons_of_mem _ hy)
    have hle := length_filter_le_of_imp p q xs hxs
    simp only [List.filter_cons]
    obtain ⟨y, hy, hp, hq⟩ := hex
    rcases List.mem_cons.mp hy with rfl | hy'
    · rw [if_pos hp, if_neg (by simp [hq])]
      simp only [List.length_cons]
      omega
    · have ih' := ih hxs ⟨y, hy', hp, hq⟩
      by_cases hqx : q x = true
      · have := h x (List.mem_cons_self ..) hqx
        rw [if_pos hqx, if_pos this]
        simp only [List.length_cons]
        omega
      · rw [if_neg hqx]
        by_cases hpx : p x = true
        · rw [if_pos hpx]
          simp only [List.length_cons]
          omega
        · rw [if_neg hpx]
          exact ih'

theorem length_filter_map_le {β : Type} (p : β → Bool) (g : β → β) (l : List β)
    (h : ∀ r, r ∈ l → p (g r) = true → p r = true) :
    ((l.map g).filter p).length ≤ (l.filter p).length := by
  induction l with
  | nil => simp
  | cons x xs ih =>
    have ih' := ih (fun r hr => h r (List.mem_cons_of_mem _ hr))
    simp only [List.map_cons, List.filter_cons]
    by_cases hg : p (g x) = true
    · have := h x (List.mem_cons_self ..) hg
      simp only [hg, this, if_true, List.length_cons]
      omega
    · simp only [hg]
      by_cases hx : p x = true
      · simp only [hx, if_true, List.length_cons]
        simp at ih' ⊢
        omega
      · simp only [hx]
        simpa using ih'

theorem length_filter_map_lt {β : Type} (p : β → Bool) (g : β → β) (l : List β)
    (h : ∀ r, r ∈ l → p (g r) = true → p r = true)
    (hex : ∃ r, r ∈ l ∧ p r = true ∧ p (g r) = false) :
    ((l.map g).filter p).length < (l.filter p).length := by
  induction l with
  | nil => obtain ⟨r, hr, _⟩ := hex; cases hr
  | cons x xs ih =>
    have hxs : ∀ r, r ∈ xs → p (g r) = true → p r = true := fun r hr => h r (List.mem_cons_of_mem _ hr)
    have hle := length_filter_map_le p g xs hxs
    simp only [List.map_cons, List.filter_cons]
    obtain ⟨r, hr, hp, hq⟩ := hex
    rcases List.mem_cons.mp hr with rfl | hr'
    · simp only [hq, hp, if_true, List.length_cons]
      simp
      omega
    · have ih' := ih hxs ⟨r, hr', hp, hq⟩
      by_cases hg : p (g x) = true
      · have := h x (List.mem_cons_self ..) hg
        simp only [hg, this, if_true, List.length_cons]
        omega
      · simp only [hg]
        by_cases hx : p x = true
        · simp only [hx, if_true, List.length_cons]
          simp at ih' ⊢
          omega
        · simp only [hx]
          simpa using ih'

end
end Iauthd.Module
