import Iauthd.Addr.ProofsRound
/-
  The characters of a printed address: hex digits, ':' and '.', so the text can stand as one
  parameter of a protocol line (no blank, no line feed, no NUL).  Used by C09 (Proto engine).
-/
namespace Iauthd.Addr
open Iauthd

theorem hexChar_plain : ∀ n : Fin 16, hexChar n.val ≠ 32 ∧ hexChar n.val ≠ 10 ∧ hexChar n.val ≠ 0 := by decide

theorem digit_plain {x : UInt8} (h : Bytes.isDigit x = true) : x ≠ 32 ∧ x ≠ 10 ∧ x ≠ 0 := by
  unfold Bytes.isDigit at h
  simp only [Bool.and_eq_true, decide_eq_true_eq] at h
  refine ⟨?_, ?_, ?_⟩ <;> (intro e; subst e; revert h; decide)

theorem colonhex_plain {t : Bytes} (h : ∀ x ∈ t, x = 58 ∨ ∃ n, n < 16 ∧ x = hexChar n) :
    ∀ x ∈ t, x ≠ 32 ∧ x ≠ 10 ∧ x ≠ 0 := by
  intro x hx
  rcases h x hx with rfl | ⟨n, hn, rfl⟩
  · decide
  · exact hexChar_plain ⟨n, hn⟩

/-- no blank, line feed or NUL in the text `irc_ntop` prints, for every address -/
theorem ntop_plain (a : Addr) : ∀ x ∈ (ntop a 40).1, x ≠ 32 ∧ x ≠ 10 ∧ x ≠ 0 := by
  by_cases h4 : isIPv4 a = true
  · rw [ntop_ipv4 a h4]
    have h6 := a[6].isLt
    have h7 := a[7].isLt
    generalize a[6].toNat = g6 at *
    generalize a[7].toNat = g7 at *
    have o1 : (g6 * 65536 + g7) / 16777216 < 256 := by omega
    have o2 : (g6 * 65536 + g7) / 65536 % 256 < 256 := by omega
    have o3 : (g6 * 65536 + g7) / 256 % 256 < 256 := by omega
    have o4 : (g6 * 65536 + g7) % 256 < 256 := by omega
    intro x hx
    unfold dotted at hx
    simp only [List.mem_append, List.mem_cons, List.not_mem_nil, or_false] at hx
    rcases hx with (((((hx | hx) | hx) | hx) | hx) | hx) | hx
    · exact digit_plain (decOctet_chars _ o1 x hx).2.2
    · rw [hx]; decide
    · exact digit_plain (decOctet_chars _ o2 x hx).2.2
    · rw [hx]; decide
    · exact digit_plain (decOctet_chars _ o3 x hx).2.2
    · rw [hx]; decide
    · exact digit_plain (decOctet_chars _ o4 x hx).2.2
  · have h4' : isIPv4 a = false := by simpa using h4
    rw [(ntop_len a).2.2]
    have hlt := toNats_lt a
    rcases ntop_shape a h4' with hfull | ⟨l, r, hl, hlen, hr6, hsplit, htext⟩
    · rw [hfull]; exact colonhex_plain (joinC_chars a.toNats hlt)
    · rw [htext]
      rw [hsplit] at hlt
      have hltl : ∀ g ∈ l, g < 65536 := fun g hg => hlt g (by simp [hg])
      have hltr : ∀ g ∈ r, g < 65536 := fun g hg => hlt g (by simp [hg])
      apply colonhex_plain
      intro x hx
      unfold layoutText at hx
      simp only [List.mem_append, List.mem_cons, List.not_mem_nil, or_false] at hx
      rcases hx with (hx | hx | hx) | hx
      · exact joinC_chars l hltl x hx
      · exact Or.inl hx
      · exact Or.inl hx
      · exact joinC_chars r hltr x hx

end Iauthd.Addr
