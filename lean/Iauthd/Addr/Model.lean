import Iauthd.Util.Bytes
/-
  Character-level model of modules/iauth_misc.c (irc_ntop, irc_pton_ip4, irc_pton,
  irc_check_mask) and of the macro irc_inaddr_is_ipv4 (modules/iauth.h).

  Conventions
  * An address is 8 groups of 16 bits in HOST order (group value = ntohs(in6[i])); htons /
    ntohs are therefore invisible.  The IPv4 macro only compares groups with 0 / 65535, which
    is independent of the byte order.
  * A C string is the list of its bytes before the NUL.  `rd s i` is `s[i]` in C: index
    `length` reads the terminating NUL, anything beyond is `Fault.oob`.
  * Writes to `addr->in6[i]` are bounds-checked (`Fault.oob`), `part_start` is an
    `Option Nat` (dereferencing `none` is `Fault.nullDeref`).
  * `unsigned int` arithmetic that can wrap is written with explicit `% 2^32`.
  * Loops that C writes with `while`/`for` over the input are functions with a fuel
    argument; running out of fuel is `Fault.fuel` (proved impossible in Proofs.lean).

  `ntop` mirrors the repaired printer (fix_ntop.diff); the printer of the pinned snapshot
  is kept as `ntopPinned` (its counterexamples F7/F8 are theorems in Proofs.lean).
-/
namespace Iauthd.Addr

inductive Fault where
  | oob (site : String) (idx : Nat)
  | nullDeref (site : String)
  | fuel (site : String)
  deriving Repr, DecidableEq

abbrev M := Except Fault

abbrev Group := BitVec 16
abbrev Addr := Vector Group 8

def Addr.zero : Addr := Vector.replicate 8 0

def Addr.ofList (l : List Nat) : Addr :=
  Vector.ofFn fun (i : Fin 8) => BitVec.ofNat 16 (l.getD i.val 0)

def Addr.toNats (a : Addr) : List Nat := a.toList.map BitVec.toNat

/-! ### irc_inaddr_is_ipv4 -/

/-- `!in6_32[0] && !in6_32[1] && !in6[4] && in6[6] && (!in6[5] || in6[5] == 65535)` -/
def isIPv4 (a : Addr) : Bool :=
  a[0] == 0 && a[1] == 0 && a[2] == 0 && a[3] == 0 && a[4] == 0 && a[6] != 0
    && (a[5] == 0 || a[5] == 0xffff)

/-! ### irc_ntop -/

/-- `hexdigits[n]` for `n < 16` -/
def hexChar (n : Nat) : UInt8 := if n < 10 then UInt8.ofNat (48 + n) else UInt8.ofNat (87 + n)

/-- one group without leading zeros (C: `part >> 12`, `(part >> 8) & 15`, …) -/
def printGroup (part : Nat) : Bytes :=
  (if part ≥ 0x1000 then [hexChar (part / 4096)] else []) ++
  (if part ≥ 0x100 then [hexChar (part / 256 % 16)] else []) ++
  (if part ≥ 0x10 then [hexChar (part / 16 % 16)] else []) ++
  [hexChar (part % 16)]

/-- `%u` for a value below 1000 (the arguments are octets) -/
def decOctet (n : Nat) : Bytes :=
  (if n ≥ 100 then [UInt8.ofNat (48 + n / 100 % 10)] else []) ++
  (if n ≥ 10 then [UInt8.ofNat (48 + n / 10 % 10)] else []) ++
  [UInt8.ofNat (48 + n % 10)]

/-- the IPv4 branch: `"%u.%u.%u.%u"` of `(g6 << 16) | g7` -/
def dotted (g6 g7 : Nat) : Bytes :=
  let ip4 := g6 * 65536 + g7
  decOctet (ip4 / 16777216) ++ [46] ++ decOctet (ip4 / 65536 % 256) ++ [46] ++
  decOctet (ip4 / 256 % 256) ++ [46] ++ decOctet (ip4 % 256)

/-- state of the zero-run search -/
structure Run where
  maxStart : Nat := 0
  maxZeros : Nat := 0
  curr : Nat := 0
  deriving Repr, DecidableEq

/-- loop body of the pinned search: `curr_zeros` is only reset when a new maximum is recorded -/
def runStepPinned (r : Run) (ii : Nat) (g : Group) : Run :=
  if g == 0 then { r with curr := r.curr + 1 }
  else if r.curr > r.maxZeros then { maxStart := ii - r.curr, maxZeros := r.curr, curr := 0 }
  else r

/-- loop body of the repaired search: every non-zero group ends the current run -/
def runStep (r : Run) (ii : Nat) (g : Group) : Run :=
  if g == 0 then { r with curr := r.curr + 1 }
  else if r.curr > r.maxZeros then { maxStart := ii - r.curr, maxZeros := r.curr, curr := 0 }
  else { r with curr := 0 }

def runLoop (step : Run → Nat → Group → Run) : List Group → Nat → Run → Run
  | [], _, r => r
  | g :: gs, ii, r => runLoop step gs (ii + 1) (step r ii g)

/-- the search including the check after the loop; returns `(max_start, max_zeros)` -/
def runSearch (step : Run → Nat → Group → Run) (a : Addr) : Nat × Nat :=
  let r := runLoop step a.toList 0 {}
  if r.curr > r.maxZeros then (8 - r.curr, r.curr) else (r.maxStart, r.maxZeros)

/-- the printing loop; `thr` is 0 for the pinned code (`max_zeros > 0`) and 1 for the repaired
    one (`max_zeros > 1`).  Fuel 8 suffices because `ii` grows in every iteration. -/
def printLoop (a : Addr) (thr maxStart maxZeros : Nat) : Nat → Nat → Bytes
  | 0, _ => []
  | fuel + 1, ii =>
    if h : ii < 8 then
      if maxZeros > thr && ii == maxStart then
        (if ii == 0 then [48, 58] else []) ++ [58] ++
          printLoop a thr maxStart maxZeros fuel (ii + (maxZeros - 1) + 1)
      else
        printGroup a[ii].toNat ++ (if ii < 7 then [58] else []) ++
          printLoop a thr maxStart maxZeros fuel (ii + 1)
    else []

def ntopFullWith (step : Run → Nat → Group → Run) (thr : Nat) (a : Addr) : Bytes :=
  if isIPv4 a then dotted a[6].toNat a[7].toNat
  else
    let (ms, mz) := runSearch step a
    printLoop a thr ms mz 8 0

/-- what `APPEND` + the final NUL store (resp. `snprintf`) leave in a buffer of `outSize ≥ 1`
    bytes, and the returned length -/
def truncOut (full : Bytes) (outSize : Nat) : Bytes × Nat := (full.take (outSize - 1), full.length)

def ntopFull (a : Addr) : Bytes := ntopFullWith runStep 1 a
def ntopFullPinned (a : Addr) : Bytes := ntopFullWith runStepPinned 0 a

/-- `irc_ntop` after fix_ntop.diff -/
def ntop (a : Addr) (outSize : Nat) : Bytes × Nat := truncOut (ntopFull a) outSize
/-- `irc_ntop` of the pinned snapshot -/
def ntopPinned (a : Addr) (outSize : Nat) : Bytes × Nat := truncOut (ntopFullPinned a) outSize

/-! ### reading the input, writing the address -/

def rd (s : Bytes) (i : Nat) : M UInt8 :=
  if h : i < s.length then pure s[i]
  else if i = s.length then pure 0
  else throw (.oob "input" i)

def setG (a : Addr) (i : Nat) (v : Nat) (site : String) : M Addr :=
  if h : i < 8 then pure (a.set i (BitVec.ofNat 16 v)) else throw (.oob site i)

def getG (a : Addr) (i : Nat) (site : String) : M Group :=
  if h : i < 8 then pure a[i] else throw (.oob site i)

def isHexDigit (c : UInt8) : Bool :=
  (48 ≤ c.toNat && c.toNat ≤ 57) || (97 ≤ c.toNat && c.toNat ≤ 102) || (65 ≤ c.toNat && c.toNat ≤ 70)

/-- `ct_xdigit_val`: `char_types[c] & 15` -/
def xdigitVal (c : UInt8) : Nat :=
  if 48 ≤ c.toNat && c.toNat ≤ 57 then c.toNat - 48
  else if 97 ≤ c.toNat && c.toNat ≤ 102 then c.toNat - 87
  else if 65 ≤ c.toNat && c.toNat ≤ 70 then c.toNat - 55
  else 0

def u32 (n : Nat) : Nat := n % 4294967296
/-- unsigned 32-bit subtraction -/
def usub (a b : Nat) : Nat := (a + 4294967296 - b % 4294967296) % 4294967296

/-- `while (pred(input[++pos])) acc = f acc input[pos];` — returns the final `pos` (first
    index after the start whose byte fails `pred`) and `acc`. -/
def scan (s : Bytes) (pred : UInt8 → Bool) (f : Nat → UInt8 → Nat) : Nat → Nat → Nat → M (Nat × Nat)
  | 0, _, _ => throw (.fuel "scan")
  | fuel + 1, pos, acc => do
    let c ← rd s (pos + 1)
    if pred c then scan s pred f fuel (pos + 1) (f acc c) else pure (pos + 1, acc)

def decStep (acc : Nat) (c : UInt8) : Nat := u32 (acc * 10 + c.toNat - 48)
def keep (acc : Nat) (_ : UInt8) : Nat := acc
def isStar (c : UInt8) : Bool := c == 42

/-! ### irc_pton_ip4 -/

structure Ip4Ok where
  len : Nat
  ip : Nat
  /-- value stored through `pbits` (only stored when `pbits` is non-NULL) -/
  bits : Nat
  deriving Repr, DecidableEq

/-- `part << (24 - 8 * dots)` on x86: the shift count is taken modulo 32
    (`dots ≥ 4` is the undefined shift of F23) -/
def shl4 (part dots : Nat) : Nat := u32 (part <<< ((24 + 24 * dots) % 32))

/-- The `while (1) switch (input[pos])` loop.  `st` is the offset of `input` inside the
    string handed to `irc_pton`; `pos` is relative to it.  `none` = `return 0`. -/
def ip4Loop (s : Bytes) (st : Nat) (wantBits allowTrailing : Bool) :
    Nat → Nat → Nat → Nat → Nat → M (Option Ip4Ok)
  | 0, _, _, _, _ => throw (.fuel "irc_pton_ip4")
  | fuel + 1, pos, dots, part, ip => do
    let c ← rd s (st + pos)
    if c == 46 then
      let pos := pos + 1
      let c1 ← rd s (st + pos)
      if c1 == 46 then return none
      let ip := ip ||| shl4 part dots
      let dots := dots + 1
      if c1 == 42 then
        let (pos, _) ← scan s isStar keep (s.length + 1) (st + pos) 0
        let pos := pos - st
        let c2 ← rd s (st + pos)
        if c2 != 0 then return none
        return some { len := pos, ip := ip, bits := dots * 8 }
      ip4Loop s st wantBits allowTrailing fuel pos dots 0 ip
    else if c == 47 then
      if !wantBits && allowTrailing then
        return some { len := pos, ip := ip ||| shl4 part dots, bits := 32 }
      else if !wantBits then return none
      else
        let c1 ← rd s (st + pos + 1)
        if !Bytes.isDigit c1 then return none
        let (pos, bits) ← scan s Bytes.isDigit decStep (s.length + 1) (st + pos) 0
        let pos := pos - st
        if bits > 32 then return none
        return some { len := pos, ip := ip ||| shl4 part dots, bits := bits }
    else if Bytes.isDigit c then
      let part := part * 10 + (c.toNat - 48)
      if part > 255 then return none
      ip4Loop s st wantBits allowTrailing fuel (pos + 1) dots part ip
    else
      if dots < 3 then return none
      return some { len := pos, ip := ip ||| shl4 part dots, bits := 32 }

def ptonIp4 (s : Bytes) (st : Nat) (wantBits allowTrailing : Bool) : M (Option Ip4Ok) := do
  let c ← rd s st
  if c == 46 then return none
  ip4Loop s st wantBits allowTrailing (s.length + 1) 0 0 0 0

/-! ### irc_pton -/

structure PtonRes where
  /-- return value: characters consumed, 0 on error -/
  ret : Nat
  /-- `*addr` on return (partially filled on error) -/
  addr : Addr
  /-- `*bits` on return when `bits != NULL`; `none` = never written -/
  bits : Option Nat
  /-- the result depends on the indeterminate value of the local `ip4` (read after
      `irc_pton_ip4` failed): groups 6 and 7 and `*bits` are then unspecified -/
  uninit : Bool := false
  deriving Repr, DecidableEq

/-- state of the IPv6 loop -/
structure V6 where
  pos : Nat
  ii : Nat := 0
  cpos : Nat := 8
  part : Nat := 0
  partStart : Option Nat := none
  addr : Addr := Addr.zero
  bits : Option Nat := none
  deriving Repr, DecidableEq

inductive V6Out where
  /-- `return 0` -/
  | fail (st : V6)
  /-- `return pos` from inside the loop (the `*` case) -/
  | ret (st : V6)
  /-- `goto finish` / loop exit with `ii ≥ 8` -/
  | finish (st : V6)
  deriving Repr, DecidableEq

def setBits (wantBits : Bool) (old : Option Nat) (v : Nat) : Option Nat :=
  if wantBits then some v else old

/-- fix_pton_cidr.diff (only when `fx`): a "::" after seven parts stands for the eighth; the
    second colon is then skipped right away so that the empty part between the colons does
    not use up the last slot.  C: `if ((ii == 7) && (input[pos + 1] != ':') &&
    !ct_isxdigit(input[pos + 1])) part_start = input + ++pos;` — returns the new `pos`. -/
def skipSecondColon (fx : Bool) (s : Bytes) (ii pos : Nat) : M Nat :=
  if fx && ii == 7 then do
    let c2 ← rd s (pos + 1)
    if c2 != 58 && !isHexDigit c2 then pure (pos + 1) else pure pos
  else pure pos

/-- The `while (ii < 8) switch (input[pos])` loop.  `fx = false` is the parser of the pinned
    snapshot, `fx = true` the parser after fix_pton_cidr.diff (candidate repair of F26). -/
def v6Loop (fx : Bool) (s : Bytes) (wantBits allowTrailing : Bool) : Nat → V6 → M V6Out
  | 0, _ => throw (.fuel "irc_pton")
  | fuel + 1, st =>
    if st.ii ≥ 8 then pure (.finish st) else do
    let c ← rd s st.pos
    if isHexDigit c then
      let part := st.part * 16 + xdigitVal c          -- (part << 4) | ct_xdigit_val(c)
      if part > 0xffff then return .fail { st with pos := st.pos + 1, part := part }
      v6Loop fx s wantBits allowTrailing fuel { st with pos := st.pos + 1, part := part }
    else if c == 58 then
      let pos := st.pos + 1
      let c1 ← rd s pos
      if c1 == 46 then return .fail { st with pos := pos, partStart := some pos }
      let addr ← setG st.addr st.ii st.part "irc_pton ':'"
      let ii := st.ii + 1
      if c1 == 58 then
        if st.cpos < 8 then
          return .fail { st with pos := pos, partStart := some pos, addr := addr, ii := ii, part := 0 }
        let pos ← skipSecondColon fx s ii pos
        v6Loop fx s wantBits allowTrailing fuel
          { st with pos := pos, partStart := some pos, addr := addr, ii := ii, part := 0, cpos := ii }
      else
        v6Loop fx s wantBits allowTrailing fuel
          { st with pos := pos, partStart := some pos, addr := addr, ii := ii, part := 0 }
    else if c == 46 then
      match st.partStart with
      | none => throw (.nullDeref "irc_pton '.': part_start")
      | some ps =>
        let r ← ptonIp4 s ps wantBits allowTrailing
        match r with
        | none => return .fail st
        | some r =>
          -- irc_pton_ip4 has already stored `*bits`
          let st := { st with bits := setBits wantBits st.bits r.bits }
          if r.len == 0 || st.ii > 6 then return .fail st
          let addr ← setG st.addr st.ii (r.ip / 65536) "irc_pton memcpy"
          let addr ← setG addr (st.ii + 1) (r.ip % 65536) "irc_pton memcpy"
          return .finish { st with addr := addr, bits := setBits wantBits st.bits (u32 (r.bits + 96)),
                                   ii := st.ii + 2, pos := ps + r.len }
    else if c == 47 then
      let addr ← setG st.addr st.ii st.part "irc_pton '/'"
      let st := { st with addr := addr, ii := st.ii + 1 }
      if !wantBits then
        return (if allowTrailing then .finish st else .fail st)
      let c1 ← rd s (st.pos + 1)
      if !Bytes.isDigit c1 then
        return (if allowTrailing then .finish st else .fail st)
      let (pos, part) ← scan s Bytes.isDigit decStep (s.length + 1) st.pos 0
      let st := { st with pos := pos, part := part }
      if part > 128 then return .fail st
      return .finish { st with bits := some part }
    else if c == 42 then
      let (pos, _) ← scan s isStar keep (s.length + 1) st.pos 0
      let st := { st with pos := pos }
      let c1 ← rd s pos
      if c1 != 0 || st.cpos < 8 then return .fail st
      return .ret { st with bits := setBits wantBits st.bits (st.ii * 16) }
    else
      let addr ← setG st.addr st.ii st.part "irc_pton default"
      let st := { st with addr := addr, ii := st.ii + 1 }
      if st.cpos == 8 && st.ii < 8 then return .fail st
      return .finish { st with bits := setBits wantBits st.bits 128 }

/-- `finish:` — shift the groups after `::` up and zero the middle -/
def finishShift (addr : Addr) (ii cpos : Nat) : M Addr := do
  if cpos < 8 then
    let addr ← (List.range (usub ii cpos)).foldlM (init := addr) fun a jj => do
      let v ← getG a (usub (usub ii jj) 1) "irc_pton shift read"
      setG a (usub 7 jj) v.toNat "irc_pton shift write"
    (List.range (usub 8 ii)).foldlM (init := addr) fun a jj =>
      setG a (u32 (cpos + jj)) 0 "irc_pton zero fill"
  else pure addr

/-- `for (; isspace(input[pos]); ++pos) {}` -/
def skipSpace (s : Bytes) : Nat → Nat → M Nat
  | 0, _ => throw (.fuel "isspace")
  | fuel + 1, pos => do
    let c ← rd s pos
    if Bytes.isSpace c then skipSpace s fuel (pos + 1) else pure pos

/-- `strchr(input, c)` as an index -/
def strchr (s : Bytes) (c : UInt8) : Option Nat := s.findIdx? (· == c)

/-- the common tail: `if (input[pos] != '\0' && !allow_trailing) return 0; return pos;` -/
def ptonTail (s : Bytes) (allowTrailing : Bool) (pos : Nat) (addr : Addr) (bits : Option Nat)
    (uninit : Bool := false) : M PtonRes := do
  let c ← rd s pos
  if c != 0 && !allowTrailing then return { ret := 0, addr, bits, uninit }
  return { ret := pos, addr, bits, uninit }

/-- the test for a leading `::` in front of the IPv6 loop; `none` = `return 0` -/
def v6Start (s : Bytes) (pos : Nat) : M (Option V6) := do
  let c ← rd s pos
  if c == 58 then
    let c1 ← rd s (pos + 1)
    if c1 != 58 then return none
    let c2 ← rd s (pos + 2)
    if c2 == 58 then return none
    return some { pos := pos + 2, cpos := 0, partStart := some (pos + 2) }
  else return some { pos := pos }

/-- `colon && (!dot || (dot > colon))` -/
def isV6Text (s : Bytes) : Bool :=
  match strchr s 58, strchr s 46 with
  | some c, some d => decide (d > c)
  | some _, none => true
  | none, _ => false

def ptonWith (fx : Bool) (input : Bytes) (wantBits allowTrailing : Bool) : M PtonRes := do
  let s := input
  let pos ← skipSpace s (s.length + 1) 0
  if isV6Text s then
    match ← v6Start s pos with
    | none => return { ret := 0, addr := Addr.zero, bits := none }
    | some st0 =>
      match ← v6Loop fx s wantBits allowTrailing (s.length + 2) st0 with
      | .fail st => return { ret := 0, addr := st.addr, bits := st.bits }
      | .ret st => return { ret := st.pos, addr := st.addr, bits := st.bits }
      | .finish st =>
        let addr ← finishShift st.addr st.ii st.cpos
        ptonTail s allowTrailing st.pos addr st.bits
  else if (strchr s 46).isSome then
    match ← ptonIp4 s pos wantBits allowTrailing with
    | some r =>
      let pos := pos + r.len
      if pos != 0 then
        let addr ← setG Addr.zero 5 65535 "irc_pton v4"
        let addr ← setG addr 6 (r.ip / 65536) "irc_pton v4"
        let addr ← setG addr 7 (r.ip % 65536) "irc_pton v4"
        ptonTail s allowTrailing pos addr (setBits wantBits none (u32 (r.bits + 96)))
      else ptonTail s allowTrailing pos Addr.zero (setBits wantBits none r.bits)
    | none =>
      -- `pos += 0; if (pos)`: after leading blanks the uninitialised `ip4` is used
      if pos != 0 then
        let addr ← setG Addr.zero 5 65535 "irc_pton v4"
        ptonTail s allowTrailing pos addr none (uninit := true)
      else ptonTail s allowTrailing pos Addr.zero none
  else do
    let c ← rd s pos
    if c == 42 then
      let (pos, _) ← scan s isStar keep (s.length + 1) pos 0
      ptonTail s allowTrailing pos Addr.zero (setBits wantBits none 0)
    else ptonTail s allowTrailing pos Addr.zero none

/-- `irc_pton` as it is in the repository now (F26 not repaired) -/
def pton (input : Bytes) (wantBits allowTrailing : Bool) : M PtonRes := ptonWith false input wantBits allowTrailing

/-- `irc_pton` after fix_pton_cidr.diff -/
def ptonFixed (input : Bytes) (wantBits allowTrailing : Bool) : M PtonRes := ptonWith true input wantBits allowTrailing

/-! ### irc_check_mask -/

/-- The `for` loop runs over the group index; here over the zipped group lists.
    `for (ii = 0; ii < 8 && bits > 16; bits -= 16, ++ii) if (a[ii] != m[ii]) return 0;`
    `if (ii < 8 && bits > 0 && ((a[ii] ^ m[ii]) >> (16 - bits))) return 0; return 1;` -/
def checkMaskL : List Group → List Group → Nat → Bool
  | a :: as, m :: ms, bits =>
    if bits > 16 then
      if a != m then false else checkMaskL as ms (bits - 16)
    else if bits > 0 && ((a ^^^ m) >>> (16 - bits)) != 0 then false
    else true
  | _, _, _ => true

def checkMask (a m : Addr) (bits : Nat) : Bool := checkMaskL a.toList m.toList bits

end Iauthd.Addr
