import Iauthd.Addr.ProofsMask
import Iauthd.Addr.ProofsSafe
import Iauthd.Addr.ProofsRef
import Iauthd.Addr.ProofsRound
import Iauthd.Addr.ProofsMaskText
/-
  Counterexamples for the pinned snapshot (kept as theorems so that the record of what was
  wrong is checked on every build) and other concrete facts about the parser model.
-/
namespace Iauthd.Addr

/-- F7: `1:0:0:2:0:3:0:0` is printed as `1:0:0:2:0::` by the pinned printer (group 5 lost). -/
theorem ntopPinned_F7 :
    ntopPinned (Addr.ofList [1, 0, 0, 2, 0, 3, 0, 0]) 40 = ([49, 58, 48, 58, 48, 58, 50, 58, 48, 58, 58], 11) := by
  decide

/-- F8: `0:1:2:3:4:5:6:7` is printed as `0::1:2:3:4:5:6:7` by the pinned printer. -/
theorem ntopPinned_F8 :
    ntopPinned (Addr.ofList [0, 1, 2, 3, 4, 5, 6, 7]) 40 = ([48, 58, 58, 49, 58, 50, 58, 51, 58, 52, 58, 53, 58, 54, 58, 55], 16) := by
  decide

/-- … and the reference grammar does not read these texts back: C12 fails for the pinned printer. -/
theorem ntopPinned_F7_not_roundtrip :
    refParse (ntopPinned (Addr.ofList [1, 0, 0, 2, 0, 3, 0, 0]) 40).1 ≠ some (Addr.ofList [1, 0, 0, 2, 0, 3, 0, 0]) := by
  decide

theorem ntopPinned_F8_rejected :
    refParse (ntopPinned (Addr.ofList [0, 1, 2, 3, 4, 5, 6, 7]) 40).1 = none := by
  decide

/-- the repaired printer on the same two addresses: `1::2:0:3:0:0` and `0:1:2:3:4:5:6:7` -/
theorem ntop_F7_fixed :
    ntop (Addr.ofList [1, 0, 0, 2, 0, 3, 0, 0]) 40 = ([49, 58, 58, 50, 58, 48, 58, 51, 58, 48, 58, 48], 12) := by
  decide

theorem ntop_F8_fixed :
    ntop (Addr.ofList [0, 1, 2, 3, 4, 5, 6, 7]) 40 = ([48, 58, 49, 58, 50, 58, 51, 58, 52, 58, 53, 58, 54, 58, 55], 15) := by
  decide

/-! ### concrete facts about the (unrepaired) parser -/

/-- F23: `1.2.3.4.5` is accepted as 5.2.3.4 (shift count out of range, x86 masking);
    outside C13's wording, modelled, never alarmed. -/
theorem pton_F23 : (pton [49, 46, 50, 46, 51, 46, 52, 46, 53] false false).toOption
    = some ⟨9, Addr.ofList [0, 0, 0, 0, 0, 65535, 0x502, 0x304], none, false⟩ := by decide

/-- `" ."` with trailing text allowed "succeeds" (returns 1) on the uninitialised `ip4`. -/
theorem pton_uninit_witness : (pton [32, 46] true true).toOption
    = some ⟨1, Addr.ofList [0, 0, 0, 0, 0, 65535, 0, 0], none, true⟩ := by decide

/-- F26: the CIDR text `1:2:3:4:5:6:7::/112` is rejected (the seven groups and the "::"
    fill all eight slots, the loop ends before it sees the '/'). -/
theorem pton_F26_cidr_rejected :
    ((pton [49, 58, 50, 58, 51, 58, 52, 58, 53, 58, 54, 58, 55, 58, 58, 47, 49, 49, 50] true false).toOption.map
      (·.ret)) = some 0 := by decide

/-- F26, plain form: `1:2:3:4:5:6:7::` is accepted but `*bits` is never written. -/
theorem pton_F26_bits_unwritten :
    (pton [49, 58, 50, 58, 51, 58, 52, 58, 53, 58, 54, 58, 55, 58, 58] true false).toOption
      = some ⟨15, Addr.ofList [1, 2, 3, 4, 5, 6, 7, 0], none, false⟩ := by decide

/-- `1:2:3:4:5:6:7:8:` (trailing colon after eight groups) is accepted. -/
theorem pton_trailing_colon :
    (pton [49, 58, 50, 58, 51, 58, 52, 58, 53, 58, 54, 58, 55, 58, 56, 58] false false).toOption
      = some ⟨16, Addr.ofList [1, 2, 3, 4, 5, 6, 7, 8], none, false⟩ := by decide

/-! ### the same texts after fix_pton_cidr.diff (`ptonFixed = ptonWith true`) -/

/-- `1:2:3:4:5:6:7::/112` is then read as 1:2:3:4:5:6:7:0/112 -/
theorem ptonFixed_F26_cidr :
    (ptonFixed [49, 58, 50, 58, 51, 58, 52, 58, 53, 58, 54, 58, 55, 58, 58, 47, 49, 49, 50] true false).toOption
      = some ⟨19, Addr.ofList [1, 2, 3, 4, 5, 6, 7, 0], some 112, false⟩ := by decide

/-- … and the plain form sets `*bits` to 128 -/
theorem ptonFixed_F26_plain :
    (ptonFixed [49, 58, 50, 58, 51, 58, 52, 58, 53, 58, 54, 58, 55, 58, 58] true false).toOption
      = some ⟨15, Addr.ofList [1, 2, 3, 4, 5, 6, 7, 0], some 128, false⟩ := by decide

/-- `1:2:3:4:5:6:7::8` stays rejected, `1:2:3:4:5:6:7:::` too -/
theorem ptonFixed_still_rejects :
    ((ptonFixed [49, 58, 50, 58, 51, 58, 52, 58, 53, 58, 54, 58, 55, 58, 58, 56] false false).toOption.map (·.ret)) = some 0 ∧
    ((ptonFixed [49, 58, 50, 58, 51, 58, 52, 58, 53, 58, 54, 58, 55, 58, 58, 58] false false).toOption.map (·.ret)) = some 0 := by
  decide

end Iauthd.Addr
