import Iauthd.Addr.Spec
namespace Iauthd.Addr

/-- F7: `1:0:0:2:0:3:0:0` is printed as `1:0:0:2:0::` by the pinned printer (group 5 lost). -/
theorem ntopPinned_F7 :
    ntopPinned (Addr.ofList [1, 0, 0, 2, 0, 3, 0, 0]) 40 = ([49, 58, 48, 58, 48, 58, 50, 58, 48, 58, 58], 11) := by
  decide

/-- F8: `0:1:2:3:4:5:6:7` is printed as `0::1:2:3:4:5:6:7` by the pinned printer. -/
theorem ntopPinned_F8 :
    ntopPinned (Addr.ofList [0, 1, 2, 3, 4, 5, 6, 7]) 40 = ([48, 58, 58, 49, 58, 50, 58, 51, 58, 52, 58, 53, 58, 54, 58, 55], 16) := by
  decide

end Iauthd.Addr
