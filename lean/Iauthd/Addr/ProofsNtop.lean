import Iauthd.Addr.Spec
/-
  C12, the printer: a closed description of every text `irc_ntop` (repaired) produces.

  `ntop_shape`: for a non-IPv4 address the text is either the 8 groups joined by ':' or
  `L :: R` where `L` (non-empty) and `R` are ':'-joined groups and the address is
  `L ++ zeros ++ R` with at least one zero group standing behind the "::".
  Everything else (no leading colon, length, round trips) is derived from this shape.
-/
set_option linter.unusedVariables false
namespace Iauthd.Addr

/-- groups `gs` printed from index `ii` on, each followed by ':' unless its index is 7 -/
def segL : List Nat → Nat → Bytes
  | [], _ => []
  | g :: rest, ii => printGroup g ++ (if ii < 7 then [58] else []) ++ segL rest (ii + 1)

theorem toNats_length (a : Addr) : a.toNats.length = 8 := by simp [Addr.toNats]

theorem toNats_drop (a : Addr) (ii : Nat) (h : ii < 8) :
    a.toNats.drop ii = a[ii].toNat :: a.toNats.drop (ii + 1) := by
  have hl : ii < a.toNats.length := by rw [toNats_length]; exact h
  rw [List.drop_eq_getElem_cons hl]
  simp [Addr.toNats]

/-- past the run (or when nothing is compressed) the loop prints the remaining groups -/
theorem printLoop_rest (a : Addr) (thr ms mz : Nat) :
    ∀ (fuel ii : Nat), (mz ≤ thr ∨ ms < ii) → 8 ≤ ii + fuel →
      printLoop a thr ms mz fuel ii = segL (a.toNats.drop ii) ii := by
  intro fuel
  induction fuel with
  | zero =>
    intro ii _ h
    have : a.toNats.drop ii = [] := by
      apply List.drop_eq_nil_of_le; rw [toNats_length]; omega
    simp [printLoop, this, segL]
  | succ fuel ih =>
    intro ii hc h
    unfold printLoop
    by_cases hii : ii < 8
    · have hcond : (decide (mz > thr) && ii == ms) = false := by
        rcases hc with hc | hc
        · simp; intro h; omega
        · simp; intro _; omega
      simp only [hii, ↓reduceDIte, hcond]
      rw [toNats_drop a ii hii, segL, ih (ii + 1) (by omega) (by omega)]
      simp
    · have : a.toNats.drop ii = [] := by
        apply List.drop_eq_nil_of_le; rw [toNats_length]; omega
      simp [hii, this, segL]

/-- before the run: groups up to the run, the "::" (with the leading "0" at index 0), the rest -/
theorem printLoop_run (a : Addr) (thr ms mz : Nat) (hmz : thr < mz) (hms : ms < 8) :
    ∀ (fuel ii : Nat), ii ≤ ms → 8 ≤ ii + fuel →
      printLoop a thr ms mz fuel ii =
        segL ((a.toNats.drop ii).take (ms - ii)) ii ++ (if ms = 0 then [48, 58] else []) ++ [58] ++
          segL (a.toNats.drop (ms + mz)) (ms + mz) := by
  intro fuel
  induction fuel with
  | zero => intro ii h1 h2; omega
  | succ fuel ih =>
    intro ii h1 h2
    unfold printLoop
    have hii : ii < 8 := by omega
    by_cases he : ii = ms
    · subst he
      have hcond : (decide (mz > thr) && ii == ii) = true := by simp; omega
      simp only [hii, ↓reduceDIte, hcond, ↓reduceIte]
      have hnext : ii + (mz - 1) + 1 = ii + mz := by omega
      rw [hnext, printLoop_rest a thr ii mz fuel (ii + mz) (Or.inr (by omega)) (by omega)]
      simp [segL]
    · have hcond : (decide (mz > thr) && ii == ms) = false := by simp; intro _; exact he
      simp only [hii, ↓reduceDIte, hcond]
      rw [ih (ii + 1) (by omega) (by omega), toNats_drop a ii hii]
      have h7 : ii < 7 := by omega
      have hk : ms - ii = (ms - (ii + 1)) + 1 := by omega
      rw [hk, List.take_succ_cons, segL]
      simp [h7]

/-! ### the zero-run search returns a run of zero groups -/

/-- groups `lo ≤ i < hi` of `l` are zero -/
def ZeroRange (l : List Group) (lo hi : Nat) : Prop := ∀ i, lo ≤ i → i < hi → l[i]? = some 0

/-- loop invariant of the repaired search after `ii` groups -/
structure RunInv (l : List Group) (ii : Nat) (r : Run) : Prop where
  curr_le : r.curr ≤ ii
  curr_zero : ZeroRange l (ii - r.curr) ii
  max_le : r.maxStart + r.maxZeros ≤ ii
  max_zero : ZeroRange l r.maxStart (r.maxStart + r.maxZeros)

theorem runStep_inv (l : List Group) (ii : Nat) (r : Run) (g : Group) (hg : l[ii]? = some g)
    (inv : RunInv l ii r) : RunInv l (ii + 1) (runStep r ii g) := by
  unfold runStep
  split
  · rename_i h0
    have h0' : g = 0 := by simpa using h0
    refine ⟨by simp; exact inv.curr_le, ?_, by have := inv.max_le; simp; omega, inv.max_zero⟩
    intro i h1 h2
    by_cases hi : i = ii
    · subst hi; rw [hg, h0']
    · exact inv.curr_zero i (by simp at h1; omega) (by omega)
  · split
    · rename_i hgt
      refine ⟨by simp, by intro i h1 h2; simp at h1; omega, by have := inv.curr_le; simp; omega, ?_⟩
      intro i h1 h2
      have := inv.curr_le
      exact inv.curr_zero i h1 (by simp at h2; omega)
    · refine ⟨by simp, by intro i h1 h2; simp at h1; omega, by have := inv.max_le; simp; omega,
        inv.max_zero⟩

theorem runLoop_inv (l : List Group) :
    ∀ (rest : List Group) (ii : Nat) (r : Run), l.drop ii = rest → ii ≤ l.length → RunInv l ii r →
      RunInv l l.length (runLoop runStep rest ii r) := by
  intro rest
  induction rest with
  | nil =>
    intro ii r hd hle inv
    have hge : l.length ≤ ii := by
      have := congrArg List.length hd
      simp at this; omega
    have : ii = l.length := by omega
    subst this
    simpa [runLoop] using inv
  | cons g rest ih =>
    intro ii r hd hle inv
    have hlt : ii < l.length := by
      have := congrArg List.length hd
      simp at this; omega
    have hg : l[ii]? = some g := by
      rw [List.drop_eq_getElem_cons hlt] at hd
      have := (List.cons.inj hd).1
      simp [hlt, this]
    have hrest : l.drop (ii + 1) = rest := by
      rw [List.drop_eq_getElem_cons hlt] at hd
      exact (List.cons.inj hd).2
    simp only [runLoop]
    exact ih (ii + 1) _ hrest (by omega) (runStep_inv l ii r g hg inv)

/-- the repaired search returns a run `[ms, ms+mz)` of zero groups inside the address -/
theorem runSearch_sound (a : Addr) :
    (runSearch runStep a).1 + (runSearch runStep a).2 ≤ 8 ∧
      ZeroRange a.toList (runSearch runStep a).1 ((runSearch runStep a).1 + (runSearch runStep a).2) := by
  have inv := runLoop_inv a.toList a.toList 0 {} (by simp) (by simp)
    ⟨by simp, by intro i h1 h2; simp at h2, by simp, by intro i h1 h2; simp at h2⟩
  have hlen : a.toList.length = 8 := by simp
  rw [hlen] at inv
  unfold runSearch
  simp only
  split
  · rename_i hgt
    have := inv.curr_le
    refine ⟨by simp; omega, ?_⟩
    intro i h1 h2
    exact inv.curr_zero i (by simpa using h1) (by simp at h2; omega)
  · exact ⟨inv.max_le, inv.max_zero⟩

/-! ### the shape of the printed text -/

/-- pieces joined by ':' -/
def joinC : List Bytes → Bytes
  | [] => []
  | [x] => x
  | x :: y :: rest => x ++ [58] ++ joinC (y :: rest)

/-- `L::R` -/
def layoutText (l r : List Nat) : Bytes :=
  joinC (l.map printGroup) ++ [58, 58] ++ joinC (r.map printGroup)

theorem segL_end : ∀ (gs : List Nat) (ii : Nat), ii + gs.length = 8 →
    segL gs ii = joinC (gs.map printGroup) := by
  intro gs
  induction gs with
  | nil => intro ii _; simp [segL, joinC]
  | cons g rest ih =>
    intro ii h
    cases rest with
    | nil =>
      have : ¬ ii < 7 := by simp at h; omega
      simp [segL, joinC, this]
    | cons g' rest' =>
      have h7 : ii < 7 := by simp at h; omega
      rw [segL, ih (ii + 1) (by simp at h ⊢; omega)]
      simp [joinC, h7]

theorem segL_mid : ∀ (gs : List Nat) (ii : Nat), ii + gs.length ≤ 7 → gs ≠ [] →
    segL gs ii = joinC (gs.map printGroup) ++ [58] := by
  intro gs
  induction gs with
  | nil => intro ii _ h; exact absurd rfl h
  | cons g rest ih =>
    intro ii h _
    have h7 : ii < 7 := by simp at h; omega
    cases rest with
    | nil => simp [segL, joinC, h7]
    | cons g' rest' =>
      rw [segL, ih (ii + 1) (by simp at h ⊢; omega) (by simp)]
      simp [joinC, h7]

theorem zero_run_split (a : Addr) (ms mz : Nat) (hle : ms + mz ≤ 8)
    (hz : ZeroRange a.toList ms (ms + mz)) :
    a.toNats = a.toNats.take ms ++ List.replicate mz 0 ++ a.toNats.drop (ms + mz) := by
  have hmid : (a.toNats.drop ms).take mz = List.replicate mz 0 := by
    rw [List.eq_replicate_iff]
    refine ⟨by simp [toNats_length]; omega, ?_⟩
    intro b hb
    rw [List.mem_iff_getElem] at hb
    obtain ⟨j, hj, hbj⟩ := hb
    have hj' : j < mz := by simp [toNats_length] at hj; omega
    have := hz (ms + j) (by omega) (by omega)
    rw [← hbj]
    simp only [List.getElem_take, List.getElem_drop, Addr.toNats, List.getElem_map]
    have hlt : ms + j < a.toList.length := by simp; omega
    rw [List.getElem?_eq_getElem hlt] at this
    have := Option.some.inj this
    rw [this]; rfl
  rw [← hmid]
  have : a.toNats.drop (ms + mz) = (a.toNats.drop ms).drop mz := by rw [List.drop_drop]
  rw [this, List.append_assoc, List.take_append_drop, List.take_append_drop]

theorem printGroup_zero : printGroup 0 = [48] := by decide

/-- **Shape of the printed text** (repaired printer, non-IPv4 branch). -/
theorem ntop_shape (a : Addr) (h4 : isIPv4 a = false) :
    ntopFull a = joinC (a.toNats.map printGroup) ∨
    ∃ l r, l ≠ [] ∧ l.length + r.length ≤ 7 ∧ (r = [] → l.length ≤ 6) ∧
      a.toNats = l ++ List.replicate (8 - (l.length + r.length)) 0 ++ r ∧
      ntopFull a = layoutText l r := by
  obtain ⟨hle, hz⟩ := runSearch_sound a
  unfold ntopFull ntopFullWith
  simp only [h4, Bool.false_eq_true, ↓reduceIte]
  generalize (runSearch runStep a).1 = ms at *
  generalize (runSearch runStep a).2 = mz at *
  by_cases hmz : mz ≤ 1
  · left
    rw [printLoop_rest a 1 ms mz 8 0 (Or.inl hmz) (by omega)]
    simp only [List.drop_zero]
    exact segL_end _ 0 (by rw [toNats_length])
  · right
    have hms : ms < 8 := by omega
    have hsplit := zero_run_split a ms mz hle hz
    have hR : segL (a.toNats.drop (ms + mz)) (ms + mz) = joinC ((a.toNats.drop (ms + mz)).map printGroup) :=
      segL_end _ _ (by simp [toNats_length]; omega)
    rw [printLoop_run a 1 ms mz (by omega) hms 8 0 (by omega) (by omega)]
    simp only [List.drop_zero, Nat.sub_zero]
    by_cases h0 : ms = 0
    · subst h0
      refine ⟨[0], a.toNats.drop mz, by simp, by simp [toNats_length]; omega, by intro _; simp, ?_, ?_⟩
      · have : 8 - ([0].length + (a.toNats.drop mz).length) = mz - 1 := by
          simp [toNats_length]; omega
        rw [this]
        have hrep : [0] ++ List.replicate (mz - 1) 0 = List.replicate mz 0 := by
          have : mz = (mz - 1) + 1 := by omega
          rw [this, List.replicate_succ]; simp
        rw [hrep]
        simpa using hsplit
      · simp only [Nat.zero_add] at hR
        simp [layoutText, joinC, printGroup_zero, segL, hR]
    · refine ⟨a.toNats.take ms, a.toNats.drop (ms + mz), ?_, ?_, ?_, ?_, ?_⟩
      · intro hnil
        have := congrArg List.length hnil
        simp [toNats_length] at this; omega
      · simp [toNats_length]; omega
      · intro hnil
        have := congrArg List.length hnil
        simp [toNats_length] at this
        simp [toNats_length]; omega
      · have : 8 - ((a.toNats.take ms).length + (a.toNats.drop (ms + mz)).length) = mz := by
          simp [toNats_length]; omega
        rw [this]; exact hsplit
      · have hL : segL (a.toNats.take ms) 0 = joinC ((a.toNats.take ms).map printGroup) ++ [58] := by
          apply segL_mid
          · simp [toNats_length]; omega
          · intro hnil
            have := congrArg List.length hnil
            simp [toNats_length] at this; omega
        rw [hL, hR]
        simp [layoutText, h0]

end Iauthd.Addr
