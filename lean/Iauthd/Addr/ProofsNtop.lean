import Iauthd.Addr.Spec
/-
  C12, the printer: a closed description of every text `irc_ntop` (repaired) produces.

  `ntop_shape`: for a non-IPv4 address the text is either the 8 groups joined by ':' or
  `L :: R` where `L` (non-empty) and `R` are ':'-joined groups and the address is
  `L ++ zeros ++ R` with at least one zero group standing behind the "::".
  Everything else (no leading colon, length, round trips) is derived from this shape.
-/
set_option linter.unusedVariables false
namespace Iauthd.Addr

/-- groups `gs` printed from index `ii` on, each followed by ':' unless its index is 7 -/
def segL : List Nat → Nat → Bytes
  | [], _ => []
  | g :: rest, ii => printGroup g ++ (if ii < 7 then [58] else []) ++ segL rest (ii + 1)

theorem toNats_length (a : Addr) : a.toNats.length = 8 := by simp [Addr.toNats]

theorem toNats_drop (a : Addr) (ii : Nat) (h : ii < 8) :
    a.toNats.drop ii = a[ii].toNat :: a.toNats.drop (ii + 1) := by
  have hl : ii < a.toNats.length := by rw [toNats_length]; exact h
  rw [List.drop_eq_getElem_cons hl]
  simp [Addr.toNats]

/-- past the run (or when nothing is compressed) the loop prints the remaining groups -/
theorem printLoop_rest (a : Addr) (thr ms mz : Nat) :
    ∀ (fuel ii : Nat), (mz ≤ thr ∨ ms < ii) → 8 ≤ ii + fuel →
      printLoop a thr ms mz fuel ii = segL (a.toNats.drop ii) ii := by
  intro fuel
  induction fuel with
  | zero =>
    intro ii _ h
    have : a.toNats.drop ii = [] := by
      apply List.drop_eq_nil_of_le; rw [toNats_length]; omega
    simp [printLoop, this, segL]
  | succ fuel ih =>
    intro ii hc h
    unfold printLoop
    by_cases hii : ii < 8
    · have hcond : (decide (mz > thr) && ii == ms) = false := by
        rcases hc with hc | hc
        · simp; intro h; omega
        · simp; intro _; omega
      simp only [hii, ↓reduceDIte, hcond]
      rw [toNats_drop a ii hii, segL, ih (ii + 1) (by omega) (by omega)]
      simp
    · have : a.toNats.drop ii = [] := by
        apply List.drop_eq_nil_of_le; rw [toNats_length]; omega
      simp [hii, this, segL]

/-- before the run: groups up to the run, the "::" (with the leading "0" at index 0), the rest -/
theorem printLoop_run (a : Addr) (thr ms mz : Nat) (hmz : thr < mz) (hms : ms < 8) :
    ∀ (fuel ii : Nat), ii ≤ ms → 8 ≤ ii + fuel →
      printLoop a thr ms mz fuel ii =
        segL ((a.toNats.drop ii).take (ms - ii)) ii ++ (if ms = 0 then [48, 58] else []) ++ [58] ++
          segL (a.toNats.drop (ms + mz)) (ms + mz) := by
  intro fuel
  induction fuel with
  | zero => intro ii h1 h2; omega
  | succ fuel ih =>
    intro ii h1 h2
    unfold printLoop
    have hii : ii < 8 := by omega
    by_cases he : ii = ms
    · subst he
      have hcond : (decide (mz > thr) && ii == ii) = true := by simp; omega
      simp only [hii, ↓reduceDIte, hcond, ↓reduceIte]
      have hnext : ii + (mz - 1) + 1 = ii + mz := by omega
      rw [hnext, printLoop_rest a thr ii mz fuel (ii + mz) (Or.inr (by omega)) (by omega)]
      simp [segL]
    · have hcond : (decide (mz > thr) && ii == ms) = false := by simp; intro _; exact he
      simp only [hii, ↓reduceDIte, hcond]
      rw [ih (ii + 1) (by omega) (by omega), toNats_drop a ii hii]
      have h7 : ii < 7 := by omega
      have hk : ms - ii = (ms - (ii + 1)) + 1 := by omega
      rw [hk, List.take_succ_cons, segL]
      simp [h7]

/-! ### the zero-run search returns a run of zero groups -/

/-- groups `lo ≤ i < hi` of `l` are zero -/
def ZeroRange (l : List Group) (lo hi : Nat) : Prop := ∀ i, lo ≤ i → i < hi → l[i]? = some 0

/-- loop invariant of the repaired search after `ii` groups -/
structure RunInv (l : List Group) (ii : Nat) (r : Run) : Prop where
  curr_le : r.curr ≤ ii
  curr_zero : ZeroRange l (ii - r.curr) ii
  max_le : r.maxStart + r.maxZeros ≤ ii
  max_zero : ZeroRange l r.maxStart (r.maxStart + r.maxZeros)

theorem runStep_inv (l : List Group) (ii : Nat) (r : Run) (g : Group) (hg : l[ii]? = some g)
    (inv : RunInv l ii r) : RunInv l (ii + 1) (runStep r ii g) := by
  unfold runStep
  split
  · rename_i h0
    have h0' : g = 0 := by simpa using h0
    refine ⟨by simp; exact inv.curr_le, ?_, by have := inv.max_le; simp; omega, inv.max_zero⟩
    intro i h1 h2
    by_cases hi : i = ii
    · subst hi; rw [hg, h0']
    · exact inv.curr_zero i (by simp at h1; omega) (by omega)
  · split
    · rename_i hgt
      refine ⟨by simp, by intro i h1 h2; simp at h1; omega, by have := inv.curr_le; simp; omega, ?_⟩
      intro i h1 h2
      have := inv.curr_le
      exact inv.curr_zero i h1 (by simp at h2; omega)
    · refine ⟨by simp, by intro i h1 h2; simp at h1; omega, by have := inv.max_le; simp; omega,
        inv.max_zero⟩

theorem runLoop_inv (l : List Group) :
    ∀ (rest : List Group) (ii : Nat) (r : Run), l.drop ii = rest → ii ≤ l.length → RunInv l ii r →
      RunInv l l.length (runLoop runStep rest ii r) := by
  intro rest
  induction rest with
  | nil =>
    intro ii r hd hle inv
    have hge : l.length ≤ ii := by
      have := congrArg List.length hd
      simp at this; omega
    have : ii = l.length := by omega
    subst this
    simpa [runLoop] using inv
  | cons g rest ih =>
    intro ii r hd hle inv
    have hlt : ii < l.length := by
      have := congrArg List.length hd
      simp at this; omega
    have hg : l[ii]? = some g := by
      rw [List.drop_eq_getElem_cons hlt] at hd
      have := (List.cons.inj hd).1
      simp [hlt, this]
    have hrest : l.drop (ii + 1) = rest := by
      rw [List.drop_eq_getElem_cons hlt] at hd
      exact (List.cons.inj hd).2
    simp only [runLoop]
    exact ih (ii + 1) _ hrest (by omega) (runStep_inv l ii r g hg inv)

/-- the repaired search returns a run `[ms, ms+mz)` of zero groups inside the address -/
theorem runSearch_sound (a : Addr) :
    (runSearch runStep a).1 + (runSearch runStep a).2 ≤ 8 ∧
      ZeroRange a.toList (runSearch runStep a).1 ((runSearch runStep a).1 + (runSearch runStep a).2) := by
  have inv := runLoop_inv a.toList a.toList 0 {} (by simp) (by simp)
    ⟨by simp, by intro i h1 h2; simp at h2, by simp, by intro i h1 h2; simp at h2⟩
  have hlen : a.toList.length = 8 := by simp
  rw [hlen] at inv
  unfold runSearch
  simp only
  split
  · rename_i hgt
    have := inv.curr_le
    refine ⟨by simp; omega, ?_⟩
    intro i h1 h2
    exact inv.curr_zero i (by simpa using h1) (by simp at h2; omega)
  · exact ⟨inv.max_le, inv.max_zero⟩

end Iauthd.Addr
