import Iauthd.Addr.ProofsPton4
/-
  C13, documented netmask texts: `*`, `a.b.c.d/n`, `a.b.*` yield the documented network and
  prefix length (theorems `star`, `cidr4`, `wild4`).
-/
set_option linter.unusedVariables false
namespace Iauthd.Addr

/-- `while (pred(input[++pos]))` over a known run of matching bytes -/
theorem scan_run (s : Bytes) (pred : UInt8 → Bool) (f : Nat → UInt8 → Nat) (h0 : pred 0 = false)
    (tail : Bytes) (htail : tail = [] ∨ ∃ c rest, tail = c :: rest ∧ pred c = false) :
    ∀ (run : Bytes) (fuel pos acc : Nat), (∀ x ∈ run, pred x = true) → pos < s.length →
      s.drop (pos + 1) = run ++ tail →
      scan s pred f (fuel + run.length + 1) pos acc = pure (pos + 1 + run.length, run.foldl f acc) := by
  intro run
  induction run with
  | nil =>
    intro fuel pos acc _ hp hd
    rw [show fuel + ([] : Bytes).length + 1 = fuel + 1 from rfl, scan]
    simp only [List.nil_append] at hd
    rcases htail with rfl | ⟨c, rest, rfl, hc⟩
    · simp [rd_drop_nil hd (by omega), h0]
    · simp [rd_drop_cons hd, hc]
  | cons x xs ih =>
    intro fuel pos acc hall hp hd
    have hx : pred x = true := hall x (by simp)
    have d1 := drop_cons_props (by simpa using hd : s.drop (pos + 1) = x :: (xs ++ tail))
    rw [show fuel + (x :: xs).length + 1 = (fuel + xs.length + 1) + 1 from by simp; omega, scan]
    simp only [rd_drop_cons (by simpa using hd : s.drop (pos + 1) = x :: (xs ++ tail)), pure_bind, hx, ↓reduceIte]
    rw [ih fuel (pos + 1) (f acc x) (fun y hy => hall y (by simp [hy])) d1.1 d1.2.2]
    simp only [List.length_cons, List.foldl_cons]
    congr 2; omega

theorem foldl_keep (l : Bytes) (acc : Nat) : l.foldl keep acc = acc := by
  induction l generalizing acc with
  | nil => rfl
  | cons x xs ih => simp [List.foldl_cons, keep, ih]

/-! ### `*` -/

/-- **`*`, `**`, …** : every address, prefix length 0 -/
theorem star (fx : Bool) (k : Nat) (wb : Bool) :
    ptonWith fx (List.replicate (k + 1) 42) wb false =
      .ok ⟨k + 1, Addr.zero, setBits wb none 0, false⟩ := by
  generalize hs : List.replicate (k + 1) (42 : UInt8) = s
  have hlen : s.length = k + 1 := by rw [← hs]; simp
  have hc : s = 42 :: List.replicate k 42 := by rw [← hs, List.replicate_succ]
  have hskip := skipSpace_nonspace s 42 _ hc (by decide)
  have hall : ∀ x ∈ s, x = (42 : UInt8) := by
    intro x hx; rw [← hs] at hx; exact (List.mem_replicate.mp hx).2
  have hv6 := isV6Text_false_of s (by intro x hx; rw [hall x hx]; decide)
  have hnodot : (strchr s 46).isSome = false := by
    have : strchr s 46 = none := by
      unfold strchr
      rw [List.findIdx?_eq_none_iff]
      intro x hx; rw [hall x hx]; decide
    rw [this]; rfl
  have hd0 : s.drop 0 = 42 :: List.replicate k 42 := by simpa using hc
  have hscan := scan_run s isStar keep isStar_zero [] (Or.inl rfl) (List.replicate k 42) 1 0 0
    (by intro x hx; rw [(List.mem_replicate.mp hx).2]; decide) (by omega)
    (by rw [hc]; simp)
  rw [foldl_keep] at hscan
  have hfuel : s.length + 1 = 1 + (List.replicate k (42 : UInt8)).length + 1 := by simp [hlen]; omega
  have hpos : 0 + 1 + (List.replicate k (42 : UInt8)).length = s.length := by simp [hlen]; omega
  unfold ptonWith
  simp only [hskip, pure_bind, hv6, Bool.false_eq_true, ↓reduceIte, hnodot, rd_drop_cons hd0, beq_self_eq_true]
  simp only [hfuel, hscan, pure_bind, hpos]
  rw [← hlen]
  exact ptonTail_end s false _ _

/-! ### `a.b.c.d/n` -/

theorem digitChar_toNat : ∀ d : Fin 10, (digitChar d.val).toNat = 48 + d.val := by decide

theorem decStep_digit (acc d : Nat) (hd : d < 10) (hacc : acc < 100) : decStep acc (digitChar d) = acc * 10 + d := by
  unfold decStep u32
  rw [digitChar_toNat ⟨d, hd⟩]
  simp only
  omega

/-- the decimal value of a printed number below 256, as the `/nn` loop computes it -/
theorem dec_fold (n : Nat) (hn : n < 256) : (decOctet n).foldl decStep 0 = n := by
  rcases decOctet_cases' n hn with ⟨h, e⟩ | ⟨h1, h2, e⟩ | ⟨h1, e⟩ <;> rw [e] <;>
    simp only [List.foldl_cons, List.foldl_nil]
  · rw [decStep_digit 0 n h (by omega)]; omega
  · rw [decStep_digit 0 (n / 10) (by omega) (by omega), decStep_digit _ (n % 10) (by omega) (by omega)]; omega
  · rw [decStep_digit 0 (n / 100) (by omega) (by omega), decStep_digit _ (n / 10 % 10) (by omega) (by omega),
        decStep_digit _ (n % 10) (by omega) (by omega)]
    omega

/-- `/n` at the end of the text, netmask requested -/
theorem ip4_slash (s : Bytes) (st : Nat) (tr : Bool) (fuel pos dots part ip n : Nat) (hn : n < 256)
    (hd : s.drop (st + pos) = 47 :: decOctet n) :
    ip4Loop s st true tr (fuel + 1) pos dots part ip =
      pure (if n > 32 then none else some ⟨pos + 1 + (decOctet n).length, ip ||| shl4 part dots, n⟩) := by
  rw [ip4Loop]
  have e1 : ((47 : UInt8) == 46) = false := by decide
  obtain ⟨d0, r0, hd0, e0, _⟩ := decOctet_head n hn
  have d1 := drop_cons_props hd
  have hd1 : s.drop (st + pos + 1) = digitChar d0 :: r0 := by rw [d1.2.2, e0]; rfl
  obtain ⟨_, _, _, t4, _, _, _⟩ := digitChar_tests hd0
  have hlen := drop_len hd (by simp)
  simp only [List.length_cons] at hlen
  have hscan := scan_run s Bytes.isDigit decStep isDigit_zero [] (Or.inl rfl) (decOctet n) (st + pos + 1) (st + pos) 0
    (fun x hx => (decOctet_chars n hn x hx).2.2) d1.1 (by simpa using d1.2.2)
  rw [dec_fold n hn] at hscan
  have hfuel : s.length + 1 = st + pos + 1 + (decOctet n).length + 1 := by omega
  simp only [rd_drop_cons hd, pure_bind, e1, Bool.false_eq_true, ↓reduceIte, beq_self_eq_true, Bool.not_true,
    Bool.false_and, rd_drop_cons hd1, t4, hfuel, hscan]
  have hp : st + pos + 1 + (decOctet n).length - st = pos + 1 + (decOctet n).length := by omega
  rw [hp]
  split <;> rfl

/-- **`a.b.c.d/n`**, `n ≤ 32`: the IPv4-mapped network as written and prefix length `96 + n` -/
theorem cidr4 (fx : Bool) (o1 o2 o3 o4 n : Nat) (h1 : o1 < 256) (h2 : o2 < 256) (h3 : o3 < 256) (h4 : o4 < 256)
    (hn : n ≤ 32) :
    ptonWith fx (quadText o1 o2 o3 o4 ++ 47 :: decOctet n) true false =
      .ok ⟨(quadText o1 o2 o3 o4 ++ 47 :: decOctet n).length, mapped4 o1 o2 o3 o4, some (96 + n), false⟩ := by
  generalize ht : quadText o1 o2 o3 o4 ++ 47 :: decOctet n = t
  have hn256 : n < 256 := by omega
  have hnc : ∀ x ∈ t, x ≠ (58 : UInt8) := by
    intro x hx
    rw [← ht] at hx
    simp only [List.mem_append, List.mem_cons] at hx
    rcases hx with hx | hx | hx
    · exact quadText_chars o1 o2 o3 o4 h1 h2 h3 h4 x hx
    · rw [hx]; decide
    · exact (decOctet_chars n hn256 x hx).1
  have hdot : (46 : UInt8) ∈ t := by rw [← ht]; simp [quadText]
  obtain ⟨d, rest, hd10, hc⟩ : ∃ d rest, d < 10 ∧ t = digitChar d :: rest := by
    obtain ⟨d, rest, hd, e⟩ := decOctet_head' o1 h1
      (46 :: (decOctet o2 ++ 46 :: (decOctet o3 ++ 46 :: decOctet o4)) ++ 47 :: decOctet n)
    refine ⟨d, rest, hd, ?_⟩
    rw [← ht, ← e]; simp [quadText]
  obtain ⟨t1, _, _, _, _, t6, _⟩ := digitChar_tests hd10
  have hskip := skipSpace_nonspace t _ rest hc t6
  have hv6 := isV6Text_false_of t hnc
  have hsome := strchr_isSome_of t 46 hdot
  have hd0 : t.drop 0 = quadText o1 o2 o3 o4 ++ 47 :: decOctet n := by simp [ht]
  have htlen : t.length = (quadText o1 o2 o3 o4).length + 1 + (decOctet n).length := by
    rw [← ht]; simp; omega
  obtain ⟨e1, d1⟩ := ip4_quad t 0 true false o1 o2 o3 o4 h1 h2 h3 h4 (47 :: decOctet n)
    (1 + (decOctet n).length + 1) hd0
  have e2 := ip4_slash t 0 false ((decOctet n).length + 1) (quadText o1 o2 o3 o4).length 3 o4
    (((0 ||| o1 * 16777216) ||| o2 * 65536) ||| o3 * 256) n hn256 d1
  have hn32 : ¬ n > 32 := by omega
  have hip : ptonIp4 t 0 true false = pure (some ⟨t.length, ((o1 * 256 + o2) * 256 + o3) * 256 + o4, n⟩) := by
    unfold ptonIp4
    have hd' : t.drop 0 = digitChar d :: rest := by simpa using hc
    simp only [rd_drop_cons hd', pure_bind, t1, Bool.false_eq_true, ↓reduceIte]
    rw [show t.length + 1 = 1 + (decOctet n).length + 1 + (quadText o1 o2 o3 o4).length from by omega, e1,
        show 1 + (decOctet n).length + 1 = (decOctet n).length + 1 + 1 from by omega, e2,
        (shl4_vals o4 h4).2.2.2, or4 o1 o2 o3 o4 h1 h2 h3 h4]
    simp only [hn32, ↓reduceIte]
    rw [htlen]
  have hlen : t.length ≠ 0 := by rw [hc]; simp
  have hhi : (((o1 * 256 + o2) * 256 + o3) * 256 + o4) / 65536 = o1 * 256 + o2 := by omega
  have hlo : (((o1 * 256 + o2) * 256 + o3) * 256 + o4) % 65536 = o3 * 256 + o4 := by omega
  unfold ptonWith
  simp only [hskip, pure_bind, hv6, Bool.false_eq_true, ↓reduceIte, hsome, hip, Nat.zero_add, bne_iff_ne, ne_eq,
    hlen, not_false_eq_true, setG_eq (by decide : 5 < 8), setG_eq (by decide : 6 < 8), setG_eq (by decide : 7 < 8),
    hhi, hlo, v4_addr]
  have hb : setBits true none (u32 (n + 96)) = some (96 + n) := by
    simp only [setBits, u32, ↓reduceIte]; congr 1; omega
  rw [hb]
  exact ptonTail_end t false _ _

/-! ### `a.b.*` -/

/-- `.*` at the end of the text -/
theorem ip4_dotstar (s : Bytes) (st : Nat) (wb tr : Bool) (fuel pos dots part ip : Nat)
    (hd : s.drop (st + pos) = [46, 42]) :
    ip4Loop s st wb tr (fuel + 1) pos dots part ip =
      pure (some ⟨pos + 2, ip ||| shl4 part dots, (dots + 1) * 8⟩) := by
  rw [ip4Loop]
  have d1 := drop_cons_props hd
  have hd1 : s.drop (st + (pos + 1)) = [42] := by rw [← Nat.add_assoc]; exact d1.2.2
  have d2 := drop_cons_props hd1
  have hlen := drop_len hd (by simp)
  simp only [List.length_cons, List.length_nil] at hlen
  have e1 : ((42 : UInt8) == 46) = false := by decide
  have hscan := scan_run s isStar keep isStar_zero [] (Or.inl rfl) [] s.length (st + (pos + 1)) 0
    (by intro x hx; cases hx) d2.1 (by simpa using d2.2.2)
  have hd3 : s.drop (st + (pos + 2)) = [] := by
    have := d2.2.2
    rw [show st + (pos + 1) + 1 = st + (pos + 2) from by omega] at this
    exact this
  have e2 : ((0 : UInt8) != 0) = false := by decide
  simp only [rd_drop_cons hd, pure_bind, beq_self_eq_true, ↓reduceIte, rd_drop_cons hd1, e1, Bool.false_eq_true]
  rw [show s.length + 1 = s.length + ([] : Bytes).length + 1 from rfl, hscan]
  simp only [pure_bind, List.length_nil, Nat.add_zero, List.foldl_nil]
  have hp : st + (pos + 1) + 1 - st = pos + 2 := by omega
  rw [hp, rd_drop_nil hd3 (by omega)]
  simp only [pure_bind, e2, Bool.false_eq_true, ↓reduceIte]

/-- **`a.b.*`**: the IPv4-mapped network a.b.0.0 and prefix length 96 + 16 -/
theorem wild4 (fx : Bool) (o1 o2 : Nat) (h1 : o1 < 256) (h2 : o2 < 256) :
    ptonWith fx (decOctet o1 ++ 46 :: (decOctet o2 ++ [46, 42])) true false =
      .ok ⟨(decOctet o1 ++ 46 :: (decOctet o2 ++ [46, 42])).length, mapped4 o1 o2 0 0, some 112, false⟩ := by
  generalize ht : decOctet o1 ++ 46 :: (decOctet o2 ++ [46, 42]) = t
  have hnc : ∀ x ∈ t, x ≠ (58 : UInt8) := by
    intro x hx
    rw [← ht] at hx
    simp only [List.mem_append, List.mem_cons, List.not_mem_nil, or_false] at hx
    rcases hx with hx | hx | hx | hx | hx
    · exact (decOctet_chars o1 h1 x hx).1
    · rw [hx]; decide
    · exact (decOctet_chars o2 h2 x hx).1
    · rw [hx]; decide
    · rw [hx]; decide
  have hdot : (46 : UInt8) ∈ t := by rw [← ht]; simp
  obtain ⟨d, rest, hd10, hc⟩ : ∃ d rest, d < 10 ∧ t = digitChar d :: rest := by
    obtain ⟨d, rest, hd, e⟩ := decOctet_head' o1 h1 (46 :: (decOctet o2 ++ [46, 42]))
    exact ⟨d, rest, hd, by rw [← ht, e]⟩
  obtain ⟨t1, _, _, _, _, t6, _⟩ := digitChar_tests hd10
  have hskip := skipSpace_nonspace t _ rest hc t6
  have hv6 := isV6Text_false_of t hnc
  have hsome := strchr_isSome_of t 46 hdot
  generalize hL1 : (decOctet o1).length = L1
  generalize hL2 : (decOctet o2).length = L2
  have htlen : t.length = L1 + 1 + L2 + 2 := by rw [← ht]; simp [hL1, hL2]; omega
  have hd0 : t.drop (0 + 0) = decOctet o1 ++ (46 :: (decOctet o2 ++ [46, 42])) := by simp [ht]
  obtain ⟨a1, b1⟩ := ip4_octet t 0 true false (L2 + 3 + 1) 0 0 0 o1 _ hd0 h1
  rw [hL1] at a1 b1
  obtain ⟨d2, r2, hd2, e2⟩ := decOctet_head' o2 h2 [46, 42]
  have b1' : t.drop (0 + (0 + L1)) = 46 :: digitChar d2 :: r2 := by rw [b1, e2]
  have c1 := ip4_dot t 0 true false (2 + 1 + L2) (0 + L1) 0 o1 0 d2 r2 b1' hd2
  have b1'' : t.drop (0 + (0 + L1 + 1)) = decOctet o2 ++ [46, 42] := by
    rw [← Nat.add_assoc]; exact (drop_cons_props b1).2.2
  obtain ⟨a2, b2⟩ := ip4_octet t 0 true false (2 + 1) (0 + L1 + 1) (0 + 1) (0 ||| shl4 o1 0) o2 _ b1'' h2
  rw [hL2] at a2 b2
  have c2 := ip4_dotstar t 0 true false 2 (0 + L1 + 1 + L2) (0 + 1) o2 (0 ||| shl4 o1 0) b2
  have hor : (0 ||| o1 * 16777216) ||| o2 * 65536 = (o1 * 256 + o2) * 65536 := by
    have := or_pack o1 (o2 * 65536) 24 (by omega)
    simp only [Nat.reducePow] at this
    rw [Nat.zero_or, this]; omega
  have hip : ptonIp4 t 0 true false = pure (some ⟨t.length, (o1 * 256 + o2) * 65536, 16⟩) := by
    unfold ptonIp4
    have hd' : t.drop 0 = digitChar d :: rest := by simpa using hc
    simp only [rd_drop_cons hd', pure_bind, t1, Bool.false_eq_true, ↓reduceIte]
    rw [show t.length + 1 = L2 + 3 + 1 + L1 from by omega, a1,
        show L2 + 3 + 1 = 2 + 1 + L2 + 1 from by omega, c1, a2, c2,
        (shl4_vals o1 h1).1, (shl4_vals o2 h2).2.1, hor]
    congr 3
    omega
  have hlen : t.length ≠ 0 := by rw [hc]; simp
  have hhi : (o1 * 256 + o2) * 65536 / 65536 = o1 * 256 + o2 := by omega
  have hlo : (o1 * 256 + o2) * 65536 % 65536 = 0 * 256 + 0 := by omega
  unfold ptonWith
  simp only [hskip, pure_bind, hv6, Bool.false_eq_true, ↓reduceIte, hsome, hip, Nat.zero_add, bne_iff_ne, ne_eq,
    hlen, not_false_eq_true, setG_eq (by decide : 5 < 8), setG_eq (by decide : 6 < 8), setG_eq (by decide : 7 < 8),
    hhi, hlo, v4_addr]
  have hb : setBits true none (u32 (16 + 96)) = some 112 := by decide
  rw [hb]
  exact ptonTail_end t false _ _

end Iauthd.Addr
