import Iauthd.Addr.ProofsSafe
import Iauthd.Addr.ProofsShift
import Iauthd.Addr.ProofsRef
/-
  C12: the daemon's own parser reads the printed text back:
  `ntop_pton : pton (ntop a) = ok (length, canon a)` for every address.
  Symbolic execution of the IPv6 loop / the dotted-quad loop over the text shapes of
  `ntop_shape`, by macro-step lemmas ("one hex digit", "one group", "one colon", …).
-/
set_option linter.unusedVariables false
namespace Iauthd.Addr

/-! ### reading a known text -/

theorem drop_cons_props {s : Bytes} {p : Nat} {c : UInt8} {rest : Bytes} (h : s.drop p = c :: rest) :
    p < s.length ∧ charAt s p = c ∧ s.drop (p + 1) = rest := by
  have hlt : p < s.length := by
    by_cases hp : p < s.length
    · exact hp
    · have : s.drop p = [] := List.drop_eq_nil_of_le (by omega)
      rw [this] at h; cases h
  refine ⟨hlt, ?_, ?_⟩
  · rw [List.drop_eq_getElem_cons hlt] at h
    rw [charAt_getElem hlt]; exact (List.cons.inj h).1
  · rw [List.drop_eq_getElem_cons hlt] at h
    exact (List.cons.inj h).2

theorem drop_nil_props {s : Bytes} {p : Nat} (h : s.drop p = []) (hp : p ≤ s.length) :
    p = s.length ∧ charAt s p = 0 := by
  have : s.length ≤ p := by
    have := congrArg List.length h
    simp at this; omega
  have e : p = s.length := by omega
  refine ⟨e, ?_⟩
  subst e
  simp [charAt, List.getD_eq_getElem?_getD]

theorem rd_drop_cons {s : Bytes} {p : Nat} {c : UInt8} {rest : Bytes} (h : s.drop p = c :: rest) :
    rd s p = pure c := by
  obtain ⟨h1, h2, _⟩ := drop_cons_props h
  rw [rd_eq (by omega), h2]

theorem rd_drop_nil {s : Bytes} {p : Nat} (h : s.drop p = []) (hp : p ≤ s.length) : rd s p = pure 0 := by
  obtain ⟨_, h2⟩ := drop_nil_props h hp
  rw [rd_eq hp, h2]

/-! ### macro steps of the IPv6 loop -/

/-- one hex digit -/
theorem v6_digit (fx : Bool) (s : Bytes) (wb tr : Bool) (fuel pos ii cpos part : Nat) (ps : Option Nat) (addr : Addr)
    (bits : Option Nat) (n : Nat) (tail : Bytes)
    (hd : s.drop pos = hexChar n :: tail) (hn : n < 16) (hii : ii < 8) (hpart : part * 16 + n ≤ 65535) :
    v6Loop fx s wb tr (fuel + 1) ⟨pos, ii, cpos, part, ps, addr, bits⟩ =
      v6Loop fx s wb tr fuel ⟨pos + 1, ii, cpos, part * 16 + n, ps, addr, bits⟩ := by
  rw [v6Loop]
  have hge : ¬ (ii ≥ 8) := by omega
  simp only [hge, ↓reduceIte, rd_drop_cons hd, pure_bind, isHex_hexChar hn, xval_hexChar hn]
  have : ¬ (part * 16 + n > 65535) := by omega
  simp only [this, ↓reduceIte]

/-- the digits of one printed group -/
theorem v6_group (fx : Bool) (s : Bytes) (wb tr : Bool) (fuel pos ii cpos : Nat) (ps : Option Nat) (addr : Addr)
    (bits : Option Nat) (g : Nat) (tail : Bytes)
    (hd : s.drop pos = printGroup g ++ tail) (hg : g < 65536) (hii : ii < 8) :
    v6Loop fx s wb tr (fuel + (printGroup g).length) ⟨pos, ii, cpos, 0, ps, addr, bits⟩ =
      v6Loop fx s wb tr fuel ⟨pos + (printGroup g).length, ii, cpos, g, ps, addr, bits⟩ ∧
    s.drop (pos + (printGroup g).length) = tail := by
  have hdrop : s.drop (pos + (printGroup g).length) = tail := by
    rw [← List.drop_drop, hd]; simp
  refine ⟨?_, hdrop⟩
  rcases printGroup_cases g hg with ⟨h, e⟩ | ⟨h1, h2, e⟩ | ⟨h1, h2, e⟩ | ⟨h1, e⟩ <;> rw [e] at hd ⊢ <;>
    simp only [List.length_cons, List.length_nil, List.cons_append, List.nil_append] at hd ⊢
  · rw [v6_digit fx s wb tr fuel pos ii cpos 0 ps addr bits g _ hd h hii (by omega)]
    simp
  · have d1 := drop_cons_props hd
    rw [show fuel + (0 + 1 + 1) = (fuel + 1) + 1 from by omega,
        v6_digit fx s wb tr (fuel + 1) pos ii cpos 0 ps addr bits (g / 16) _ hd (by omega) hii (by omega),
        v6_digit fx s wb tr fuel (pos + 1) ii cpos _ ps addr bits (g % 16) _ d1.2.2 (by omega) hii (by omega)]
    congr 2 <;> omega
  · have d1 := drop_cons_props hd
    have d2 := drop_cons_props d1.2.2
    rw [show fuel + (0 + 1 + 1 + 1) = (fuel + 1 + 1) + 1 from by omega,
        v6_digit fx s wb tr (fuel + 1 + 1) pos ii cpos 0 ps addr bits (g / 256) _ hd (by omega) hii (by omega),
        v6_digit fx s wb tr (fuel + 1) (pos + 1) ii cpos _ ps addr bits (g / 16 % 16) _ d1.2.2 (by omega) hii (by omega),
        v6_digit fx s wb tr fuel (pos + 1 + 1) ii cpos _ ps addr bits (g % 16) _ d2.2.2 (by omega) hii (by omega)]
    congr 2 <;> omega
  · have d1 := drop_cons_props hd
    have d2 := drop_cons_props d1.2.2
    have d3 := drop_cons_props d2.2.2
    rw [show fuel + (0 + 1 + 1 + 1 + 1) = (fuel + 1 + 1 + 1) + 1 from by omega,
        v6_digit fx s wb tr (fuel + 1 + 1 + 1) pos ii cpos 0 ps addr bits (g / 4096) _ hd (by omega) hii (by omega),
        v6_digit fx s wb tr (fuel + 1 + 1) (pos + 1) ii cpos _ ps addr bits (g / 256 % 16) _ d1.2.2 (by omega) hii (by omega),
        v6_digit fx s wb tr (fuel + 1) (pos + 1 + 1) ii cpos _ ps addr bits (g / 16 % 16) _ d2.2.2 (by omega) hii (by omega),
        v6_digit fx s wb tr fuel (pos + 1 + 1 + 1) ii cpos _ ps addr bits (g % 16) _ d3.2.2 (by omega) hii (by omega)]
    congr 2 <;> omega

/-- a ':' followed by neither ':' nor '.' -/
theorem v6_colon (fx : Bool) (s : Bytes) (wb tr : Bool) (fuel pos ii cpos part : Nat) (ps : Option Nat) (addr : Addr)
    (bits : Option Nat) (tail : Bytes)
    (hd : s.drop pos = 58 :: tail) (hii : ii < 8)
    (h1 : charAt s (pos + 1) ≠ 46) (h2 : charAt s (pos + 1) ≠ 58) :
    v6Loop fx s wb tr (fuel + 1) ⟨pos, ii, cpos, part, ps, addr, bits⟩ =
      v6Loop fx s wb tr fuel ⟨pos + 1, ii + 1, cpos, 0, some (pos + 1), addr.set ii (BitVec.ofNat 16 part) hii, bits⟩ := by
  rw [v6Loop]
  have hge : ¬ (ii ≥ 8) := by omega
  have hlt := (drop_cons_props hd).1
  have hx : isHexDigit (58 : UInt8) = false := by decide
  have e1 : (charAt s (pos + 1) == 46) = false := by simpa using h1
  have e2 : (charAt s (pos + 1) == 58) = false := by simpa using h2
  simp only [hge, ↓reduceIte, rd_drop_cons hd, pure_bind, hx, Bool.false_eq_true, beq_self_eq_true,
    rd_eq (by omega : pos + 1 ≤ s.length), e1, e2, setG_eq hii]

/-- the first ':' of a "::" (no earlier "::") -/
theorem v6_dcolon (fx : Bool) (s : Bytes) (wb tr : Bool) (fuel pos ii part : Nat) (ps : Option Nat) (addr : Addr)
    (bits : Option Nat) (tail : Bytes)
    (hd : s.drop pos = 58 :: 58 :: tail) (hii : ii < 8) (h7 : ii + 1 ≠ 7) :
    v6Loop fx s wb tr (fuel + 1) ⟨pos, ii, 8, part, ps, addr, bits⟩ =
      v6Loop fx s wb tr fuel ⟨pos + 1, ii + 1, ii + 1, 0, some (pos + 1), addr.set ii (BitVec.ofNat 16 part) hii, bits⟩ := by
  rw [v6Loop]
  have hge : ¬ (ii ≥ 8) := by omega
  have d1 := drop_cons_props hd
  have hlt := d1.1
  have hc1 : charAt s (pos + 1) = 58 := (drop_cons_props d1.2.2).2.1
  have hx : isHexDigit (58 : UInt8) = false := by decide
  have e1 : ((58 : UInt8) == 46) = false := by decide
  have e3 : ¬ ((8 : Nat) < 8) := by omega
  simp only [hge, ↓reduceIte, rd_drop_cons hd, pure_bind, hx, Bool.false_eq_true, beq_self_eq_true,
    rd_eq (by omega : pos + 1 ≤ s.length), hc1, e1, e3, setG_eq hii, skipSecondColon_ne7 fx s _ _ h7]

/-- the end of the string inside the loop: the `default` case -/
theorem v6_nul (fx : Bool) (s : Bytes) (wb tr : Bool) (fuel pos ii cpos part : Nat) (ps : Option Nat) (addr : Addr)
    (bits : Option Nat) (hd : s.drop pos = []) (hp : pos ≤ s.length) (hii : ii < 8)
    (hc : ¬ (cpos = 8 ∧ ii + 1 < 8)) :
    v6Loop fx s wb tr (fuel + 1) ⟨pos, ii, cpos, part, ps, addr, bits⟩ =
      pure (.finish ⟨pos, ii + 1, cpos, part, ps, addr.set ii (BitVec.ofNat 16 part) hii, setBits wb bits 128⟩) := by
  rw [v6Loop]
  have hge : ¬ (ii ≥ 8) := by omega
  have hx : isHexDigit (0 : UInt8) = false := by decide
  have e1 : ((0 : UInt8) == 58) = false := by decide
  have e2 : ((0 : UInt8) == 46) = false := by decide
  have e3 : ((0 : UInt8) == 47) = false := by decide
  have e4 : ((0 : UInt8) == 42) = false := by decide
  have e5 : (cpos == 8 && decide (ii + 1 < 8)) = false := by
    by_cases h8 : cpos = 8
    · subst h8
      have : ¬ (ii + 1 < 8) := fun h => hc ⟨rfl, h⟩
      simp [this]
    · simp [h8]
  simp only [hge, ↓reduceIte, rd_drop_nil hd hp, pure_bind, hx, Bool.false_eq_true, e1, e2, e3, e4,
    setG_eq hii, e5]

/-! ### a run of `group ':'` units -/

/-- the text `g0:g1:…gk:` (every group followed by a colon) -/
def units : List Nat → Bytes
  | [] => []
  | g :: gs => printGroup g ++ 58 :: units gs

/-- storing consecutive groups from index `k` -/
def storeAll (addr : Addr) : Nat → List Nat → Addr
  | _, [] => addr
  | k, g :: gs => storeAll (if h : k < 8 then addr.set k (BitVec.ofNat 16 g) h else addr) (k + 1) gs

/-- a text that is empty or starts with neither '.' nor ':' (what may follow a single ':') -/
def Benign (t : Bytes) : Prop := t = [] ∨ ∃ c rest, t = c :: rest ∧ c ≠ 46 ∧ c ≠ 58

theorem Benign.hex {n : Nat} (hn : n < 16) (rest : Bytes) : Benign (hexChar n :: rest) :=
  Or.inr ⟨_, rest, rfl, hexChar_ne_dot hn, hexChar_ne_colon hn⟩

theorem benign_char {s : Bytes} {p : Nat} {t : Bytes} (hb : Benign t) (hd : s.drop p = t) (hp : p ≤ s.length) :
    charAt s p ≠ 46 ∧ charAt s p ≠ 58 := by
  rcases hb with rfl | ⟨c, rest, rfl, h1, h2⟩
  · rw [(drop_nil_props hd hp).2]; decide
  · rw [(drop_cons_props hd).2.1]
    exact ⟨h1, h2⟩

theorem benign_group (g : Nat) (hg : g < 65536) (tail : Bytes) : Benign (printGroup g ++ tail) := by
  obtain ⟨n, rest, hn, e⟩ := printGroup_head g hg
  rw [e]; exact Benign.hex hn _

theorem benign_units (gs : List Nat) (h : ∀ g ∈ gs, g < 65536) (tail : Bytes) (ht : Benign tail) :
    Benign (units gs ++ tail) := by
  cases gs with
  | nil => simpa [units] using ht
  | cons g rest =>
    simp only [units, List.append_assoc]
    exact benign_group g (h g (by simp)) _

theorem run_units (fx : Bool) (s : Bytes) (wb tr : Bool) (cpos : Nat) (bits : Option Nat) (tail : Bytes) (ht : Benign tail) :
    ∀ (gs : List Nat) (fuel pos ii : Nat) (ps : Option Nat) (addr : Addr),
      s.drop pos = units gs ++ tail → (∀ g ∈ gs, g < 65536) → ii + gs.length ≤ 8 →
      (∃ ps', v6Loop fx s wb tr (fuel + (units gs).length) ⟨pos, ii, cpos, 0, ps, addr, bits⟩ =
        v6Loop fx s wb tr fuel ⟨pos + (units gs).length, ii + gs.length, cpos, 0, ps', storeAll addr ii gs, bits⟩) ∧
      s.drop (pos + (units gs).length) = tail := by
  intro gs
  induction gs with
  | nil =>
    intro fuel pos ii ps addr hd _ _
    exact ⟨⟨ps, by simp [units, storeAll]⟩, by simpa [units] using hd⟩
  | cons g rest ih =>
    intro fuel pos ii ps addr hd hall hlen
    have hg : g < 65536 := hall g (by simp)
    have hii : ii < 8 := by simp at hlen; omega
    simp only [units, List.append_assoc, List.cons_append] at hd
    obtain ⟨e1, d1⟩ := v6_group fx s wb tr (fuel + (units rest).length + 1) pos ii cpos ps addr bits g _ hd hg hii
    have d1' := drop_cons_props d1
    have hb := benign_char (benign_units rest (fun x hx => hall x (by simp [hx])) tail ht) d1'.2.2 (by omega)
    have e2 := v6_colon fx s wb tr (fuel + (units rest).length) (pos + (printGroup g).length) ii cpos g ps addr bits _
      d1 hii hb.1 hb.2
    obtain ⟨⟨ps', e3⟩, d3⟩ := ih fuel (pos + (printGroup g).length + 1) (ii + 1)
      (some (pos + (printGroup g).length + 1)) (addr.set ii (BitVec.ofNat 16 g) hii) d1'.2.2
      (fun x hx => hall x (by simp [hx])) (by simp at hlen; omega)
    have hlen' : (units (g :: rest)).length = (units rest).length + 1 + (printGroup g).length := by
      simp [units]; omega
    refine ⟨⟨ps', ?_⟩, ?_⟩
    · rw [hlen', show fuel + ((units rest).length + 1 + (printGroup g).length)
            = fuel + (units rest).length + 1 + (printGroup g).length from by omega, e1, e2, e3]
      simp only [storeAll, hii, ↓reduceDIte, List.length_cons]
      congr 2 <;> omega
    · rw [hlen', show pos + ((units rest).length + 1 + (printGroup g).length)
            = pos + (printGroup g).length + 1 + (units rest).length from by omega]
      exact d3

theorem joinC_units : ∀ (init : List Nat) (last : Nat),
    joinC ((init ++ [last]).map printGroup) = units init ++ printGroup last := by
  intro init
  induction init with
  | nil => intro last; simp [joinC, units]
  | cons g rest ih =>
    intro last
    have := ih last
    cases hr : rest ++ [last] with
    | nil => simp at hr
    | cons x xs =>
      rw [hr] at this
      simp only [List.cons_append, List.map_cons, hr, joinC, units, List.append_assoc]
      rw [List.map_cons] at this
      rw [this]
      simp

theorem storeAll_append (addr : Addr) : ∀ (xs ys : List Nat) (k : Nat),
    storeAll addr k (xs ++ ys) = storeAll (storeAll addr k xs) (k + xs.length) ys := by
  intro xs
  induction xs generalizing addr with
  | nil => intro ys k; simp [storeAll]
  | cons x rest ih =>
    intro ys k
    simp only [List.cons_append, storeAll, List.length_cons]
    rw [ih]
    congr 1; omega

theorem drop_len {s : Bytes} {p : Nat} {t : Bytes} (h : s.drop p = t) (hne : t ≠ []) :
    p + t.length = s.length := by
  have := congrArg List.length h
  simp at this
  have : t.length ≠ 0 := by
    intro h0; exact hne (List.eq_nil_of_length_eq_zero h0)
  omega

/-- from the start of the last ':'-joined run to the end of the string -/
theorem run_joinC_end (fx : Bool) (s : Bytes) (wb tr : Bool) (cpos : Nat) (bits : Option Nat)
    (init : List Nat) (last : Nat) (fuel pos ii : Nat) (ps : Option Nat) (addr : Addr)
    (hd : s.drop pos = joinC ((init ++ [last]).map printGroup))
    (hall : ∀ g ∈ init ++ [last], g < 65536) (hlen : ii + init.length + 1 ≤ 8)
    (hc : ¬ (cpos = 8 ∧ ii + init.length + 1 < 8)) :
    ∃ ps', v6Loop fx s wb tr (fuel + (joinC ((init ++ [last]).map printGroup)).length + 1)
        ⟨pos, ii, cpos, 0, ps, addr, bits⟩ =
      pure (.finish ⟨s.length, ii + init.length + 1, cpos, last, ps',
        storeAll addr ii (init ++ [last]), setBits wb bits 128⟩) := by
  rw [joinC_units] at hd ⊢
  have hlast : last < 65536 := hall last (by simp)
  have hinit : ∀ g ∈ init, g < 65536 := fun g hg => hall g (by simp [hg])
  have hd' : s.drop pos = units init ++ (printGroup last ++ []) := by simpa using hd
  obtain ⟨⟨ps1, e1⟩, d1⟩ := run_units fx s wb tr cpos bits _ (benign_group last hlast []) init
    (fuel + 1 + (printGroup last).length) pos ii ps addr hd' hinit (by omega)
  obtain ⟨e2, d2⟩ := v6_group fx s wb tr (fuel + 1) (pos + (units init).length) (ii + init.length) cpos ps1
    (storeAll addr ii init) bits last [] d1 hlast (by omega)
  have hne : printGroup last ++ [] ≠ [] := by
    simp; exact (printGroup_chars last hlast).1
  have hl := drop_len d1 hne
  have hpos : pos + (units init).length + (printGroup last).length = s.length := by
    simp at hl; omega
  have e3 := v6_nul fx s wb tr fuel (pos + (units init).length + (printGroup last).length) (ii + init.length)
    cpos last ps1 (storeAll addr ii init) bits d2 (by omega) (by omega) hc
  refine ⟨ps1, ?_⟩
  rw [show fuel + (units init ++ printGroup last).length + 1
        = fuel + 1 + (printGroup last).length + (units init).length from by simp; omega, e1, e2, e3,
      storeAll_append]
  simp only [storeAll, hpos]
  have hk : ii + init.length < 8 := by omega
  simp [hk]

/-! ### group lists and stored addresses -/

/-- element `j` of a list of group values (0 beyond the end) -/
def nAt (l : List Nat) (j : Nat) : Nat := (l[j]?).getD 0

theorem nAt_append_left {l r : List Nat} {j : Nat} (h : j < l.length) : nAt (l ++ r) j = nAt l j := by
  simp [nAt, List.getElem?_append_left h]

theorem nAt_append_right {l r : List Nat} {j : Nat} (h : l.length ≤ j) :
    nAt (l ++ r) j = nAt r (j - l.length) := by
  simp [nAt, List.getElem?_append_right h]

theorem nAt_replicate (n j : Nat) : nAt (List.replicate n 0) j = 0 := by
  simp [nAt, List.getElem?_replicate]
  split <;> simp

theorem nAt_nil (j : Nat) : nAt [] j = 0 := by simp [nAt]
theorem nAt_cons_zero (x : Nat) (xs : List Nat) : nAt (x :: xs) 0 = x := by simp [nAt]
theorem nAt_cons_succ (x : Nat) (xs : List Nat) (j : Nat) : nAt (x :: xs) (j + 1) = nAt xs j := by simp [nAt]

theorem nAt_beyond {l : List Nat} {j : Nat} (h : l.length ≤ j) : nAt l j = 0 := by
  simp [nAt, List.getElem?_eq_none h]

/-- the index arithmetic of `finish:` on `L ++ 0 :: R` with `sh` zero groups inserted -/
theorem idx_shift (l r : List Nat) (j sh : Nat) :
    (if j < l.length then nAt (l ++ 0 :: r) j
     else if j < l.length + sh then 0 else nAt (l ++ 0 :: r) (j - sh))
      = nAt (l ++ List.replicate (sh + 1) 0 ++ r) j := by
  by_cases h1 : j < l.length
  · rw [if_pos h1, nAt_append_left h1, List.append_assoc, nAt_append_left h1]
  · rw [if_neg h1, List.append_assoc, nAt_append_right (by omega : l.length ≤ j)]
    by_cases h2 : j < l.length + sh
    · rw [if_pos h2, nAt_append_left (by simp; omega), nAt_replicate]
    · rw [if_neg h2, nAt_append_right (by omega : l.length ≤ j - sh)]
      by_cases h3 : j - sh - l.length = 0
      · rw [h3, nAt_cons_zero, nAt_append_left (by simp; omega), nAt_replicate]
      · obtain ⟨m, hm⟩ : ∃ m, j - sh - l.length = m + 1 := ⟨j - sh - l.length - 1, by omega⟩
        rw [hm, nAt_cons_succ, nAt_append_right (by simp; omega)]
        congr 1; simp; omega

theorem gAt_zero (j : Nat) : gAt Addr.zero j = 0 := by
  unfold gAt Addr.zero
  by_cases h : j < 8
  · simp [Vector.getElem?_eq_getElem h]
  · have : (Vector.replicate 8 (0 : Group))[j]? = none := by simp; omega
    rw [this]; rfl

theorem gAt_beyond (a : Addr) {j : Nat} (h : 8 ≤ j) : gAt a j = 0 := by
  unfold gAt
  have : a[j]? = none := by simp; omega
  simp [this]

theorem gAt_storeAll : ∀ (gs : List Nat) (addr : Addr) (k j : Nat), k + gs.length ≤ 8 →
    gAt (storeAll addr k gs) j =
      if k ≤ j ∧ j < k + gs.length then BitVec.ofNat 16 (nAt gs (j - k)) else gAt addr j := by
  intro gs
  induction gs with
  | nil =>
    intro addr k j _
    have : ¬ (k ≤ j ∧ j < k + ([] : List Nat).length) := by simp
    rw [if_neg this]; rfl
  | cons g rest ih =>
    intro addr k j hlen
    have hk : k < 8 := by simp at hlen; omega
    simp only [storeAll, hk, ↓reduceDIte]
    rw [ih _ (k + 1) j (by simp at hlen; omega), gAt_set]
    by_cases h1 : j = k
    · subst h1
      have h2 : ¬ (j + 1 ≤ j ∧ j < j + 1 + rest.length) := by omega
      have h3 : j ≤ j ∧ j < j + (g :: rest).length := by simp
      rw [if_neg h2, if_pos rfl, if_pos h3, Nat.sub_self, nAt_cons_zero]
    · by_cases h2 : k + 1 ≤ j ∧ j < k + 1 + rest.length
      · have h3 : k ≤ j ∧ j < k + (g :: rest).length := by simp; omega
        obtain ⟨m, hm⟩ : ∃ m, j - k = m + 1 := ⟨j - k - 1, by omega⟩
        rw [if_pos h2, if_pos h3, hm, nAt_cons_succ]
        congr 2; omega
      · have h3 : ¬ (k ≤ j ∧ j < k + (g :: rest).length) := by simp; omega
        rw [if_neg h2, if_neg h1, if_neg h3]

theorem gAt_storeAll_zero (gs : List Nat) (j : Nat) (h : gs.length ≤ 8) :
    gAt (storeAll Addr.zero 0 gs) j = BitVec.ofNat 16 (nAt gs j) := by
  rw [gAt_storeAll gs Addr.zero 0 j (by omega)]
  by_cases hj : j < gs.length
  · rw [if_pos ⟨Nat.zero_le _, by omega⟩]; simp
  · rw [if_neg (by omega), gAt_zero, nAt_beyond (by omega)]; rfl

theorem gAt_toNats (a : Addr) (j : Nat) : gAt a j = BitVec.ofNat 16 (nAt a.toNats j) := by
  by_cases h : j < 8
  · rw [← gAt_getElem a j h]
    have : a.toNats[j]? = some a[j].toNat := by
      simp [Addr.toNats, h]
    simp [nAt, this]
  · rw [gAt_beyond a (by omega), nAt_beyond (by rw [toNats_length]; omega)]; rfl

/-! ### the prelude of `irc_pton` on a printed text -/

theorem hexChar_not_space : ∀ n : Fin 16, Bytes.isSpace (hexChar n.val) = false := by decide

theorem skipSpace_nonspace (s : Bytes) (c : UInt8) (rest : Bytes) (hs : s = c :: rest)
    (hc : Bytes.isSpace c = false) : skipSpace s (s.length + 1) 0 = pure 0 := by
  rw [skipSpace]
  have hd : s.drop 0 = c :: rest := by simpa using hs
  simp only [rd_drop_cons hd, pure_bind, hc, Bool.false_eq_true, ↓reduceIte]

theorem isV6Text_of (s : Bytes) (h58 : (58 : UInt8) ∈ s) (h46 : ∀ x ∈ s, x ≠ (46 : UInt8)) :
    isV6Text s = true := by
  unfold isV6Text
  have hdot : strchr s 46 = none := by
    unfold strchr
    rw [List.findIdx?_eq_none_iff]
    intro x hx
    simpa using h46 x hx
  have hcol : strchr s 58 ≠ none := by
    unfold strchr
    rw [Ne, List.findIdx?_eq_none_iff]
    intro h
    have := h 58 h58
    simp at this
  rw [hdot]
  cases hc : strchr s 58 with
  | none => exact absurd hc hcol
  | some c => rfl

theorem v6Start_plain (s : Bytes) (c : UInt8) (rest : Bytes) (hs : s = c :: rest) (hc : c ≠ 58) :
    v6Start s 0 = pure (some { pos := 0 }) := by
  unfold v6Start
  have hd : s.drop 0 = c :: rest := by simpa using hs
  have : (c == 58) = false := by simpa using hc
  simp only [rd_drop_cons hd, pure_bind, this, Bool.false_eq_true, ↓reduceIte]

theorem joinC_chars : ∀ (gs : List Nat), (∀ g ∈ gs, g < 65536) →
    ∀ x ∈ joinC (gs.map printGroup), x = 58 ∨ ∃ n, n < 16 ∧ x = hexChar n := by
  intro gs
  induction gs with
  | nil => intro _ x hx; simp [joinC] at hx
  | cons g rest ih =>
    intro hall x hx
    have hg := (printGroup_chars g (hall g (by simp))).2.2
    cases rest with
    | nil =>
      simp only [List.map_cons, List.map_nil, joinC] at hx
      exact Or.inr (hg x hx)
    | cons g' rest' =>
      simp only [List.map_cons, joinC, List.mem_append, List.mem_singleton] at hx
      rcases hx with (hx | hx) | hx
      · exact Or.inr (hg x hx)
      · exact Or.inl hx
      · exact ih (fun y hy => hall y (by simp [hy])) x (by simpa using hx)

theorem text_no_dot {t : Bytes} (h : ∀ x ∈ t, x = 58 ∨ ∃ n, n < 16 ∧ x = hexChar n) :
    ∀ x ∈ t, x ≠ (46 : UInt8) := by
  intro x hx
  rcases h x hx with rfl | ⟨n, hn, rfl⟩
  · decide
  · exact hexChar_ne_dot hn

theorem ptonTail_end (s : Bytes) (tr : Bool) (addr : Addr) (bits : Option Nat) :
    ptonTail s tr s.length addr bits false = pure ⟨s.length, addr, bits, false⟩ := by
  unfold ptonTail
  have hd : s.drop s.length = [] := by simp
  simp [rd_drop_nil hd (Nat.le_refl _)]

/-- the parser reads the eight ':'-joined groups of any address back -/
theorem pton_full (fx : Bool) (a : Addr) (wb : Bool) :
    ptonWith fx (joinC (a.toNats.map printGroup)) wb false =
      pure ⟨(joinC (a.toNats.map printGroup)).length, a, setBits wb none 128, false⟩ := by
  have hlt := toNats_lt a
  have hl8 := toNats_length a
  have hne : a.toNats ≠ [] := by intro h; rw [h] at hl8; simp at hl8
  obtain ⟨init, last, hsplit⟩ : ∃ init last, a.toNats = init ++ [last] :=
    ⟨a.toNats.dropLast, a.toNats.getLast hne, (List.dropLast_concat_getLast hne).symm⟩
  have hinit : init.length = 7 := by
    have := congrArg List.length hsplit
    simp [hl8] at this; omega
  generalize ht : joinC (a.toNats.map printGroup) = t
  have hchars := joinC_chars a.toNats hlt
  rw [ht] at hchars
  -- first character
  obtain ⟨c, rest, hc, hcr⟩ : ∃ c rest, t = c :: rest ∧ ∃ n, n < 16 ∧ c = hexChar n := by
    cases hn : a.toNats with
    | nil => exact absurd hn hne
    | cons g gs =>
      obtain ⟨n, tl, hn16, hp⟩ := printGroup_head g (hlt g (by rw [hn]; simp))
      rw [← ht, hn]
      cases gs with
      | nil => exact ⟨hexChar n, tl, by simp [joinC, hp], n, hn16, rfl⟩
      | cons g' gs' => exact ⟨hexChar n, _, by simp [joinC, hp]; rfl, n, hn16, rfl⟩
  obtain ⟨n, hn16, hcn⟩ := hcr
  have h58 : (58 : UInt8) ∈ t := by
    rw [← ht]
    cases hn : a.toNats with
    | nil => exact absurd hn hne
    | cons g gs =>
      cases gs with
      | nil => rw [hn] at hl8; simp at hl8
      | cons g' gs' => simp [joinC]
  have hskip := skipSpace_nonspace t c rest hc (by rw [hcn]; exact hexChar_not_space ⟨n, hn16⟩)
  have hv6 := isV6Text_of t h58 (text_no_dot hchars)
  have hstart := v6Start_plain t c rest hc (by rw [hcn]; exact hexChar_ne_colon hn16)
  have hd : t.drop 0 = joinC ((init ++ [last]).map printGroup) := by rw [← hsplit, ht]; rfl
  obtain ⟨ps', hloop⟩ := run_joinC_end fx t wb false 8 none init last 1 0 0 none Addr.zero hd
    (by rw [← hsplit]; exact hlt) (by omega) (by omega)
  have hfuel : t.length + 2 = 1 + (joinC ((init ++ [last]).map printGroup)).length + 1 := by
    rw [← hsplit, ht]; omega
  have haddr : storeAll Addr.zero 0 (init ++ [last]) = a := by
    rw [← hsplit]
    apply addr_ext_gAt
    intro k hk
    rw [gAt_storeAll_zero _ _ (by omega), gAt_toNats]
  unfold ptonWith
  simp only [hskip, pure_bind, hv6, ↓reduceIte, hstart, hfuel, hloop, finishShift_none, haddr]
  exact ptonTail_end t false a _

/-! ### the `L::R` texts -/

theorem benign_joinC (gs : List Nat) (h : ∀ g ∈ gs, g < 65536) : Benign (joinC (gs.map printGroup)) := by
  cases gs with
  | nil => exact Or.inl (by simp [joinC])
  | cons g rest =>
    obtain ⟨n, tl, hn, hp⟩ := printGroup_head g (h g (by simp))
    cases rest with
    | nil => simp only [List.map, joinC, hp]; exact Benign.hex hn _
    | cons g' rest' => simp only [List.map, joinC, hp, List.cons_append]; exact Benign.hex hn _

theorem storeAll_single (addr : Addr) (k v : Nat) (h : k < 8) :
    addr.set k (BitVec.ofNat 16 v) h = storeAll addr k [v] := by
  simp [storeAll, h]

/-- the IPv6 loop over `L::R` -/
theorem layout_loop (fx : Bool) (wb : Bool) (linit : List Nat) (llast : Nat) (r : List Nat)
    (hall : ∀ g ∈ linit ++ [llast] ++ r, g < 65536)
    (hlen : (linit ++ [llast]).length + r.length ≤ 7) (hr : r = [] → (linit ++ [llast]).length ≤ 6) :
    ∃ ps' part,
      v6Loop fx (layoutText (linit ++ [llast]) r) wb false ((layoutText (linit ++ [llast]) r).length + 2)
          { pos := 0 } =
        pure (.finish ⟨(layoutText (linit ++ [llast]) r).length,
          (linit ++ [llast]).length + 1 + (if r = [] then [0] else r).length, (linit ++ [llast]).length, part, ps',
          storeAll Addr.zero 0 (linit ++ [llast] ++ 0 :: (if r = [] then [0] else r)), setBits wb none 128⟩) := by
  generalize ht : layoutText (linit ++ [llast]) r = t
  have hlinit : ∀ g ∈ linit, g < 65536 := fun g hg => hall g (by simp [hg])
  have hllast : llast < 65536 := hall llast (by simp)
  have hrr : ∀ g ∈ r, g < 65536 := fun g hg => hall g (by simp [hg])
  have htext : t = units linit ++ (printGroup llast ++ 58 :: 58 :: joinC (r.map printGroup)) := by
    rw [← ht, layoutText, joinC_units]; simp
  have hlen1 : linit.length + 1 + r.length ≤ 7 := by simpa using hlen
  have hd0 : t.drop 0 = units linit ++ (printGroup llast ++ 58 :: 58 :: joinC (r.map printGroup)) := by
    simpa using htext
  have htlen : t.length = (units linit).length + (printGroup llast).length + 2 + (joinC (r.map printGroup)).length := by
    rw [htext]; simp; omega
  -- L's leading units
  obtain ⟨⟨ps1, e1⟩, d1⟩ := run_units fx t wb false 8 none _ (benign_group llast hllast _) linit
    ((printGroup llast).length + 1 + 1 + ((joinC (r.map printGroup)).length + 2)) 0 0 none Addr.zero hd0 hlinit (by omega)
  -- L's last group
  obtain ⟨e2, d2⟩ := v6_group fx t wb false (1 + 1 + ((joinC (r.map printGroup)).length + 2))
    (0 + (units linit).length) (0 + linit.length) 8 ps1 (storeAll Addr.zero 0 linit) none llast _ d1 hllast (by omega)
  -- "::"
  have hi1 : 0 + linit.length < 8 := by omega
  have hne7 : 0 + linit.length + 1 ≠ 7 := by
    by_cases hre : r = []
    · have := hr hre; simp at this; omega
    · have : r.length ≠ 0 := fun h => hre (List.eq_nil_of_length_eq_zero h)
      omega
  have e3 := v6_dcolon fx t wb false (1 + ((joinC (r.map printGroup)).length + 2))
    (0 + (units linit).length + (printGroup llast).length) (0 + linit.length) llast ps1
    (storeAll Addr.zero 0 linit) none _ d2 hi1 hne7
  have d3 := (drop_cons_props d2).2.2
  have d4 := (drop_cons_props d3).2.2
  have hp3 := (drop_cons_props d3).1
  have hb := benign_char (benign_joinC r hrr) d4 (by omega)
  have hi2 : 0 + linit.length + 1 < 8 := by omega
  have e4 := v6_colon fx t wb false ((joinC (r.map printGroup)).length + 2)
    (0 + (units linit).length + (printGroup llast).length + 1) (0 + linit.length + 1) (0 + linit.length + 1) 0
    (some (0 + (units linit).length + (printGroup llast).length + 1))
    ((storeAll Addr.zero 0 linit).set (0 + linit.length) (BitVec.ofNat 16 llast) hi1) none _ d3 hi2 hb.1 hb.2
  have hfuel : t.length + 2 = (printGroup llast).length + 1 + 1 + ((joinC (r.map printGroup)).length + 2) + (units linit).length := by
    omega
  rw [hfuel, e1,
    show (printGroup llast).length + 1 + 1 + ((joinC (r.map printGroup)).length + 2)
      = 1 + 1 + ((joinC (r.map printGroup)).length + 2) + (printGroup llast).length from by omega, e2,
    show 1 + 1 + ((joinC (r.map printGroup)).length + 2) = 1 + ((joinC (r.map printGroup)).length + 2) + 1 from by omega,
    e3, show 1 + ((joinC (r.map printGroup)).length + 2) = (joinC (r.map printGroup)).length + 2 + 1 from by omega, e4]
  have hA : ((storeAll Addr.zero 0 linit).set (0 + linit.length) (BitVec.ofNat 16 llast) hi1).set
      (0 + linit.length + 1) (BitVec.ofNat 16 0) hi2 = storeAll Addr.zero 0 (linit ++ [llast] ++ [0]) := by
    rw [storeAll_single, storeAll_single, storeAll_append, storeAll_append]
    simp
  rw [hA]
  by_cases hre : r = []
  · subst hre
    have hl6 : linit.length + 1 ≤ 6 := by simpa using hr rfl
    have hj : joinC (([] : List Nat).map printGroup) = [] := by simp [joinC]
    rw [hj] at d4 htlen ⊢
    have hpos : 0 + (units linit).length + (printGroup llast).length + 1 + 1 = t.length := by
      simp at htlen; omega
    have hi3 : 0 + linit.length + 1 + 1 < 8 := by omega
    have e5 := v6_nul fx t wb false 1 (0 + (units linit).length + (printGroup llast).length + 1 + 1)
      (0 + linit.length + 1 + 1) (0 + linit.length + 1) 0
      (some (0 + (units linit).length + (printGroup llast).length + 1 + 1))
      (storeAll Addr.zero 0 (linit ++ [llast] ++ [0])) none d4 (by omega) hi3 (by omega)
    refine ⟨some (0 + (units linit).length + (printGroup llast).length + 1 + 1), 0, ?_⟩
    rw [show ([] : Bytes).length + 2 = 1 + 1 from rfl, e5, storeAll_single]
    have hA2 : storeAll (storeAll Addr.zero 0 (linit ++ [llast] ++ [0])) (0 + linit.length + 1 + 1) [0]
        = storeAll Addr.zero 0 (linit ++ [llast] ++ 0 :: [0]) := by
      have := storeAll_append Addr.zero (linit ++ [llast] ++ [0]) [0] 0
      rw [show linit ++ [llast] ++ 0 :: [0] = linit ++ [llast] ++ [0] ++ [0] from by simp, this]
      congr 1; simp
    have hii : 0 + linit.length + 1 + 1 + 1 = (linit ++ [llast]).length + 1 + ([0] : List Nat).length := by
      simp
    have hcp : 0 + linit.length + 1 = (linit ++ [llast]).length := by simp
    rw [hA2, hpos, hii, hcp]
    simp [setBits]
  · simp only [hre, ↓reduceIte]
    obtain ⟨rinit, rlast, hrs⟩ : ∃ rinit rlast, r = rinit ++ [rlast] :=
      ⟨r.dropLast, r.getLast hre, (List.dropLast_concat_getLast hre).symm⟩
    have hrl : r.length = rinit.length + 1 := by rw [hrs]; simp
    have d4' : t.drop (0 + (units linit).length + (printGroup llast).length + 1 + 1)
        = joinC ((rinit ++ [rlast]).map printGroup) := by rw [← hrs]; exact d4
    obtain ⟨ps5, e5⟩ := run_joinC_end fx t wb false (0 + linit.length + 1) none rinit rlast 1
      (0 + (units linit).length + (printGroup llast).length + 1 + 1) (0 + linit.length + 1 + 1)
      (some (0 + (units linit).length + (printGroup llast).length + 1 + 1))
      (storeAll Addr.zero 0 (linit ++ [llast] ++ [0])) d4' (by rw [← hrs]; exact hrr) (by omega) (by omega)
    refine ⟨ps5, rlast, ?_⟩
    rw [show (joinC (r.map printGroup)).length + 2 = 1 + (joinC ((rinit ++ [rlast]).map printGroup)).length + 1 from by
          rw [hrs]; omega, e5, ← hrs]
    have hA2 : storeAll (storeAll Addr.zero 0 (linit ++ [llast] ++ [0])) (0 + linit.length + 1 + 1) r
        = storeAll Addr.zero 0 (linit ++ [llast] ++ 0 :: r) := by
      have := storeAll_append Addr.zero (linit ++ [llast] ++ [0]) r 0
      rw [show linit ++ [llast] ++ 0 :: r = linit ++ [llast] ++ [0] ++ r from by simp, this]
      congr 1; simp
    have hii : 0 + linit.length + 1 + 1 + rinit.length + 1 = (linit ++ [llast]).length + 1 + r.length := by
      simp; omega
    have hcp : 0 + linit.length + 1 = (linit ++ [llast]).length := by simp
    rw [hA2, hii, hcp]

/-- the parser reads `L::R` back as `L ++ zeros ++ R` -/
theorem pton_layout (fx : Bool) (a : Addr) (wb : Bool) (l r : List Nat) (hl : l ≠ []) (hlen : l.length + r.length ≤ 7)
    (hr6 : r = [] → l.length ≤ 6)
    (hsplit : a.toNats = l ++ List.replicate (8 - (l.length + r.length)) 0 ++ r) :
    ptonWith fx (layoutText l r) wb false = pure ⟨(layoutText l r).length, a, setBits wb none 128, false⟩ := by
  have hlt := toNats_lt a
  rw [hsplit] at hlt
  have hltl : ∀ g ∈ l, g < 65536 := fun g hg => hlt g (by simp [hg])
  have hltr : ∀ g ∈ r, g < 65536 := fun g hg => hlt g (by simp [hg])
  obtain ⟨linit, llast, hls⟩ : ∃ linit llast, l = linit ++ [llast] :=
    ⟨l.dropLast, l.getLast hl, (List.dropLast_concat_getLast hl).symm⟩
  obtain ⟨ps', part, hloop⟩ := layout_loop fx wb linit llast r
    (by intro g hg; rw [← hls] at hg; simp at hg; rcases hg with hg | hg; exact hltl g hg; exact hltr g hg)
    (by rw [← hls]; exact hlen) (by rw [← hls]; exact hr6)
  rw [← hls] at hloop
  generalize ht : layoutText l r = t at *
  -- characters of the text
  have hchars : ∀ x ∈ t, x = 58 ∨ ∃ n, n < 16 ∧ x = hexChar n := by
    intro x hx
    rw [← ht, layoutText] at hx
    simp only [List.mem_append, List.mem_cons, List.not_mem_nil, or_false] at hx
    rcases hx with (hx | hx | hx) | hx
    · exact joinC_chars l hltl x hx
    · exact Or.inl hx
    · exact Or.inl hx
    · exact joinC_chars r hltr x hx
  have h58 : (58 : UInt8) ∈ t := by rw [← ht, layoutText]; simp
  obtain ⟨c, rest, hc, n, hn16, hcn⟩ : ∃ c rest, t = c :: rest ∧ ∃ n, n < 16 ∧ c = hexChar n := by
    cases hl' : l with
    | nil => exact absurd hl' hl
    | cons g gs =>
      obtain ⟨n, tl, hn16, hp⟩ := printGroup_head g (hltl g (by rw [hl']; simp))
      rw [← ht, layoutText, hl']
      cases gs with
      | nil => exact ⟨hexChar n, _, by simp [joinC, hp]; rfl, n, hn16, rfl⟩
      | cons g' gs' => exact ⟨hexChar n, _, by simp [joinC, hp]; rfl, n, hn16, rfl⟩
  have hskip := skipSpace_nonspace t c rest hc (by rw [hcn]; exact hexChar_not_space ⟨n, hn16⟩)
  have hv6 := isV6Text_of t h58 (text_no_dot hchars)
  have hstart := v6Start_plain t c rest hc (by rw [hcn]; exact hexChar_ne_colon hn16)
  -- the shift
  have hr'len : (if r = [] then [0] else r).length = (if r = [] then 1 else r.length) := by
    by_cases h : r = [] <;> simp [h]
  generalize hr'def : (if r = [] then [0] else r) = r' at *
  have hii : l.length + 1 + r'.length ≤ 8 := by
    rw [hr'len]
    by_cases h : r = []
    · have := hr6 h; simp [h]; omega
    · simp [h]; omega
  obtain ⟨res, hres, hspec⟩ := finishShift_spec (storeAll Addr.zero 0 (l ++ 0 :: r'))
    (l.length + 1 + r'.length) l.length (by omega) (by omega) hii
  have hresa : res = a := by
    apply addr_ext_gAt
    intro k hk
    have hX : (l ++ 0 :: r').length ≤ 8 := by simp; omega
    rw [hspec k hk, gAt_storeAll_zero _ _ hX, gAt_storeAll_zero _ _ hX, gAt_toNats a k]
    have key := idx_shift l r' k (8 - (l.length + 1 + r'.length))
    have hcombine : (if k < l.length then BitVec.ofNat 16 (nAt (l ++ 0 :: r') k)
        else if k < l.length + (8 - (l.length + 1 + r'.length)) then (0 : Group)
        else BitVec.ofNat 16 (nAt (l ++ 0 :: r') (k - (8 - (l.length + 1 + r'.length)))))
        = BitVec.ofNat 16 (if k < l.length then nAt (l ++ 0 :: r') k
          else if k < l.length + (8 - (l.length + 1 + r'.length)) then 0
          else nAt (l ++ 0 :: r') (k - (8 - (l.length + 1 + r'.length)))) := by
      by_cases h1 : k < l.length
      · rw [if_pos h1, if_pos h1]
      · rw [if_neg h1, if_neg h1]
        by_cases h2 : k < l.length + (8 - (l.length + 1 + r'.length))
        · rw [if_pos h2, if_pos h2]; rfl
        · rw [if_neg h2, if_neg h2]
    rw [hcombine, key, hsplit]
    congr 2
    by_cases h : r = []
    · subst h
      have h6 := hr6 rfl
      simp only [↓reduceIte] at hr'def
      subst hr'def
      simp only [List.length_cons, List.length_nil, List.append_nil]
      have e : 8 - (l.length + 0) = (8 - (l.length + 1 + (0 + 1)) + 1) + 1 := by omega
      rw [e, List.replicate_succ' (n := 8 - (l.length + 1 + (0 + 1)) + 1), List.append_assoc]
    · simp only [h, ↓reduceIte] at hr'def
      subst hr'def
      have : 8 - (l.length + 1 + r.length) + 1 = 8 - (l.length + r.length) := by omega
      rw [this]
  unfold ptonWith
  simp only [hskip, pure_bind, hv6, ↓reduceIte, hstart, hloop, hres, hresa]
  exact ptonTail_end t false a _

end Iauthd.Addr
