import Iauthd.Addr.Model
/-
  The properties' own reading (C12, C13), over observable values only: texts, addresses,
  return values.  Nothing here looks at how the model computes.

  * `refParse` — a small RFC 4291 §2.2 / dotted-quad reference grammar, the stand-in for
    `inet_pton(AF_INET6, …)` followed by `inet_pton(AF_INET, …)` mapped to ::ffff:a.b.c.d
    (the judge compares it with glibc on every generated text).
  * `canon` — IPv4-compatible (::a.b.c.d, what the macro calls IPv4 with group 5 = 0)
    canonicalises to IPv4-mapped.
  * `prefixEq` — equality of the leading `min n 128` bits of the 128-bit values.
  * `docParse` — the documented CIDR / wildcard texts and what they denote.
-/
namespace Iauthd.Addr

/-! ### addresses as numbers -/

/-- the 128-bit value, most significant group first -/
def val128 (a : Addr) : Nat := a.toList.foldl (fun acc g => acc * 65536 + g.toNat) 0

/-- the leading `min n 128` bits agree -/
def prefixEq (a m : Addr) (n : Nat) : Bool :=
  val128 a / 2 ^ (128 - min n 128) == val128 m / 2 ^ (128 - min n 128)

/-- ::a.b.c.d (groups 0–5 zero, group 6 non-zero) ↦ ::ffff:a.b.c.d; identity elsewhere -/
def canon (a : Addr) : Addr :=
  if a[0] == 0 && a[1] == 0 && a[2] == 0 && a[3] == 0 && a[4] == 0 && a[5] == 0 && a[6] != 0
  then a.set 5 0xffff else a

/-! ### reference grammar -/

def hexVal? (c : UInt8) : Option Nat :=
  if 48 ≤ c.toNat ∧ c.toNat ≤ 57 then some (c.toNat - 48)
  else if 97 ≤ c.toNat ∧ c.toNat ≤ 102 then some (c.toNat - 87)
  else if 65 ≤ c.toNat ∧ c.toNat ≤ 70 then some (c.toNat - 55)
  else none

/-- `1*4HEXDIG` -/
def refGroup (t : Bytes) : Option Nat :=
  if t.length = 0 ∨ t.length > 4 then none
  else t.foldl (fun acc c => match acc, hexVal? c with
    | some a, some v => some (a * 16 + v)
    | _, _ => none) (some 0)

/-- decimal octet: 1–3 digits, value ≤ 255, no leading zero except "0" itself -/
def refOctet (t : Bytes) : Option Nat :=
  if t.length = 0 ∨ t.length > 3 then none
  else if t.length > 1 ∧ t.head? = some 48 then none
  else if t.all Bytes.isDigit then
    let v := t.foldl (fun acc c => acc * 10 + (c.toNat - 48)) 0
    if v ≤ 255 then some v else none
  else none

/-- split at every occurrence of `c` (always at least one piece) -/
def splitAt (c : UInt8) : Bytes → List Bytes
  | [] => [[]]
  | x :: xs =>
    if x == c then [] :: splitAt c xs
    else match splitAt c xs with
      | [] => [[x]]
      | p :: ps => (x :: p) :: ps

/-- dotted quad → two 16-bit groups -/
def refQuad (t : Bytes) : Option (List Nat) :=
  match (splitAt 46 t).map refOctet with
  | [some a, some b, some c, some d] => some [a * 256 + b, c * 256 + d]
  | _ => none

/-- a `:`-separated list of groups; the last piece may be a dotted quad when `v4ok` -/
def refSide (t : Bytes) (v4ok : Bool) : Option (List Nat) :=
  if t.isEmpty then some [] else
  let rec go : List Bytes → Option (List Nat)
    | [] => some []
    | [p] => match refGroup p with
      | some g => some [g]
      | none => if v4ok then refQuad p else none
    | p :: ps => match refGroup p, go ps with
      | some g, some r => some (g :: r)
      | _, _ => none
  go (splitAt 58 t)

/-- position of the first "::" -/
def findDouble : Bytes → Nat → Option Nat
  | a :: b :: rest, i => if a == 58 && b == 58 then some i else findDouble (b :: rest) (i + 1)
  | _, _ => none

def refParse6 (t : Bytes) : Option Addr :=
  match findDouble t 0 with
  | none =>
    match refSide t true with
    | some gs => if gs.length = 8 then some (Addr.ofList gs) else none
    | none => none
  | some i =>
    match refSide (t.take i) false, refSide (t.drop (i + 2)) true with
    | some l, some r =>
      if l.length + r.length ≤ 7 then
        some (Addr.ofList (l ++ List.replicate (8 - (l.length + r.length)) 0 ++ r))
      else none
    | _, _ => none

def refParse4 (t : Bytes) : Option Addr :=
  match refQuad t with
  | some [hi, lo] => some (Addr.ofList [0, 0, 0, 0, 0, 65535, hi, lo])
  | _ => none

/-- the standard-library reading of an address text -/
def refParse (t : Bytes) : Option Addr :=
  match refParse6 t with
  | some a => some a
  | none => refParse4 t

/-! ### documented netmask texts (modules/iauth.h, doc comment of `irc_pton`) -/

/-- canonical decimal (no sign, no leading zero except "0"), at most 3 digits -/
def refDec (t : Bytes) : Option Nat :=
  if t.length = 0 ∨ t.length > 3 then none
  else if t.length > 1 ∧ t.head? = some 48 then none
  else if t.all Bytes.isDigit then some (t.foldl (fun acc c => acc * 10 + (c.toNat - 48)) 0)
  else none

def allSome {α : Type} : List (Option α) → Option (List α)
  | [] => some []
  | none :: _ => none
  | some x :: xs => (allSome xs).map (x :: ·)

/-- 1–4 octets `a[.b[.c[.d]]]` → the two low groups, missing octets zero -/
def refPartialQuad (t : Bytes) : Option (Nat × List Nat) :=
  match allSome ((splitAt 46 t).map refOctet) with
  | some os =>
    if os.length = 0 ∨ os.length > 4 then none
    else
      let o := os ++ List.replicate (4 - os.length) 0
      some (os.length, [o[0]! * 256 + o[1]!, o[2]! * 256 + o[3]!])
  | none => none

def mapped (lo : List Nat) : Addr := Addr.ofList ([0, 0, 0, 0, 0, 65535] ++ lo)

/-- What a documented netmask text (CIDR or wildcard) denotes: network address as written
    and prefix length.
    * a plain address (what the standard parser accepts)  → that address, 128
    * RFC 4291 text with a dotted-quad tail `/n`, n ≤ 32   → the address, 96 + n
    * `*` (one or more)                              → ::/0
    * `a.b[.c[.d]]/n`, n ≤ 32 ("192.168/16")         → mapped (missing octets 0), 96 + n
    * `a.*`, `a.b.*`, `a.b.c.*`                       → mapped, 96 + 8·(octets given)
    * RFC 4291 IPv6 text (hex groups only) `/n`, n ≤ 128; also `x:y/n` with fewer than 8
      groups and no `::`                             → groups then zeros, n
    * `x:*`, `x:y:*`, … (1–7 groups, no `::`)        → groups then zeros, 16·(groups given) -/
def docParse (t : Bytes) : Option (Addr × Nat) :=
  if !t.isEmpty && t.all (· == 42) then some (Addr.zero, 0) else
  let isV6 := t.contains 58
  match splitAt 47 t with
  | [body] =>
    -- a plain address is the netmask of exactly that address
    if let some a := refParse body then some (a, 128) else
    if !isV6 then
      let ps := splitAt 46 body
      if ps.length ≥ 2 ∧ ps.length ≤ 4 ∧ ps.getLast? = some [42] then
        match refPartialQuad (([46] : Bytes).intercalate ps.dropLast) with
        | some (k, lo) => some (mapped lo, 96 + 8 * k)
        | none => none
      else none
    else if body.contains 46 then none
    else
      let ps := splitAt 58 body
      if ps.length ≥ 2 ∧ ps.length ≤ 8 ∧ ps.getLast? = some [42] then
        match allSome (ps.dropLast.map refGroup) with
        | some gs => some (Addr.ofList gs, 16 * gs.length)
        | none => none
      else none
  | [body, len] =>
    match refDec len with
    | none => none
    | some n =>
      if !isV6 then
        match refPartialQuad body with
        | some (k, lo) => if n ≤ 32 ∧ k ≥ 2 then some (mapped lo, 96 + n) else none
        | none => none
      else if body.contains 46 then
        -- RFC 4291 text ending in a dotted quad: `/n` counts the bits of the quad, as in a.b.c.d/n
        match refParse6 body with
        | some a => if n ≤ 32 then some (a, 96 + n) else none
        | none => none
      else if n > 128 then none
      else
        match refParse6 body with
        | some a => some (a, n)
        | none =>
          match allSome ((splitAt 58 body).map refGroup) with
          | some gs => if gs.length ≤ 8 then some (Addr.ofList gs, n) else none
          | none => none
  | _ => none

/-! ### the judged predicates -/

/-- C12 on one observed round trip: the address, the text printed for it, and what the
    code's own parser and the standard parser made of that text, and the text printed for
    the reparsed address.  Returns the name of the first clause that fails. -/
def c12Check (a : Addr) (ret : Nat) (text : Bytes) (pret : Nat) (paddr : Addr)
    (lok : Bool) (laddr : Addr) (text2 : Bytes) : Option String :=
  if ret ≠ text.length then some "returned-length"
  else if text.length ≥ 40 then some "buffer-size"
  else if text.head? = some 58 then some "leading-colon"
  else if text.isEmpty then some "empty-text"
  else match refParse text with
    | none => some "reference-parser-rejects"
    | some r =>
      if r ≠ canon a then some "reference-parser-differs"
      else if !lok then some "libc-rejects"
      else if laddr ≠ canon a then some "libc-differs"
      else if pret ≠ text.length then some "own-parser-rejects"
      else if paddr ≠ canon a then some "own-parser-differs"
      else if text2 ≠ text then some "not-idempotent"
      else none

/-- C12 on a bare `ntop` observation (documented buffer) -/
def c12NtopCheck (a : Addr) (outSize ret : Nat) (text : Bytes) : Option String :=
  if outSize < 40 then
    (if text.length ≥ outSize then some "overflows-buffer" else none)
  else if ret ≠ text.length then some "returned-length"
  else if text.length ≥ 40 then some "buffer-size"
  else if text.head? = some 58 then some "leading-colon"
  else match refParse text with
    | none => some "reference-parser-rejects"
    | some r => if r ≠ canon a then some "reference-parser-differs" else none

/-- C13 on an observed mask test -/
def c13MaskCheck (a m : Addr) (n : Nat) (res : Bool) : Option String :=
  if res ≠ prefixEq a m n then some "mask-result" else none

/-- C13 on an observed `irc_pton` call.  `ret/addr/bits` are what the code returned.
    * a call that consumes the whole of a text the standard parser also accepts: same
      address;
    * bits requested on a documented netmask text: whole text consumed, documented
      network and prefix length;
    * anything else: no constraint here (memory safety is watched by the sanitizers). -/
def c13PtonCheck (s : Bytes) (wantBits _allowTrailing : Bool) (ret : Nat) (addr : Addr)
    (bits : Option Nat) : Option String :=
  if ret > s.length then some "consumed-more-than-input"
  else
    let plain : Option String :=
      match refParse s with
      | some r => if ret = s.length ∧ s.length > 0 ∧ addr ≠ r then some "differs-from-standard-parser" else none
      | none => none
    match plain with
    | some e => some e
    | none =>
      if wantBits then
        match docParse s with
        | some (net, n) =>
          if ret ≠ s.length then some "documented-netmask-rejected"
          else if addr ≠ net then some "documented-netmask-network"
          else if bits ≠ some n then some "documented-netmask-length"
          else none
        | none => none
      else none

end Iauthd.Addr
