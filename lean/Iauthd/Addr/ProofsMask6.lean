import Iauthd.Addr.ProofsMaskText
import Iauthd.Addr.ProofsRound
/-
  C13, documented IPv6 netmask texts:
    * `x:y:*`      (`wild6`)  — the groups as written, prefix length 16 · (number of groups);
    * `<addr>/n`   (`cidr6`)  — for every address in the text the daemon prints for it and every
                                n ≤ 128: that address, prefix length n.
  The loop lemmas of ProofsPton.lean are restated over a *terminator*: what follows the last group
  is either the end of the string or "/n".
-/
set_option linter.unusedVariables false
namespace Iauthd.Addr

/-! ### front end -/

/-- `irc_pton` on a text that starts with a hex digit, has a ':' and no '.' goes straight into
    the IPv6 loop at position 0 -/
theorem ptonWith_v6_front (fx : Bool) (t : Bytes) (wb tr : Bool) (n : Nat) (rest : Bytes) (hn : n < 16)
    (hc : t = hexChar n :: rest) (h58 : (58 : UInt8) ∈ t) (h46 : ∀ x ∈ t, x ≠ (46 : UInt8)) :
    ptonWith fx t wb tr = (do
      match ← v6Loop fx t wb tr (t.length + 2) { pos := 0 } with
      | .fail st => return { ret := 0, addr := st.addr, bits := st.bits }
      | .ret st => return { ret := st.pos, addr := st.addr, bits := st.bits }
      | .finish st =>
        let addr ← finishShift st.addr st.ii st.cpos
        ptonTail t tr st.pos addr st.bits) := by
  have hskip := skipSpace_nonspace t _ rest hc (hexChar_not_space ⟨n, hn⟩)
  have hv6 := isV6Text_of t h58 h46
  have hstart := v6Start_plain t _ rest hc (hexChar_ne_colon hn)
  unfold ptonWith
  simp only [hskip, pure_bind, hv6, ↓reduceIte, hstart]
  rfl

theorem units_chars : ∀ (gs : List Nat), (∀ g ∈ gs, g < 65536) →
    ∀ x ∈ units gs, x = 58 ∨ ∃ n, n < 16 ∧ x = hexChar n := by
  intro gs
  induction gs with
  | nil => intro _ x hx; simp [units] at hx
  | cons g rest ih =>
    intro hall x hx
    simp only [units, List.mem_append, List.mem_cons] at hx
    rcases hx with hx | hx | hx
    · exact Or.inr ((printGroup_chars g (hall g (by simp))).2.2 x hx)
    · exact Or.inl hx
    · exact ih (fun y hy => hall y (by simp [hy])) x hx

theorem units_head (g : Nat) (gs : List Nat) (hg : g < 65536) (tail : Bytes) :
    ∃ n rest, n < 16 ∧ units (g :: gs) ++ tail = hexChar n :: rest := by
  obtain ⟨n, tl, hn, hp⟩ := printGroup_head g hg
  exact ⟨n, _, hn, by simp only [units, hp, List.cons_append]; rfl⟩

theorem units_colon (g : Nat) (gs : List Nat) : (58 : UInt8) ∈ units (g :: gs) := by
  simp [units]

/-! ### `x:y:*` -/

/-- a run of '*' closing the text, no "::" before it -/
theorem v6_star (fx : Bool) (s : Bytes) (wb tr : Bool) (fuel pos ii part : Nat) (ps : Option Nat) (addr : Addr)
    (bits : Option Nat) (k : Nat) (hd : s.drop pos = List.replicate (k + 1) 42) (hii : ii < 8) :
    v6Loop fx s wb tr (fuel + 1) ⟨pos, ii, 8, part, ps, addr, bits⟩ =
      pure (.ret ⟨pos + (k + 1), ii, 8, part, ps, addr, setBits wb bits (ii * 16)⟩) := by
  rw [v6Loop]
  have hge : ¬ (ii ≥ 8) := by omega
  have hd' : s.drop pos = 42 :: List.replicate k 42 := by rw [hd, List.replicate_succ]
  have d1 := drop_cons_props hd'
  have hlen := drop_len hd (by simp)
  simp only [List.length_replicate] at hlen
  have hx : isHexDigit (42 : UInt8) = false := by decide
  have e1 : ((42 : UInt8) == 58) = false := by decide
  have e2 : ((42 : UInt8) == 46) = false := by decide
  have e3 : ((42 : UInt8) == 47) = false := by decide
  have hscan := scan_run s isStar keep isStar_zero [] (Or.inl rfl) (List.replicate k 42) (pos + 1) pos 0
    (by intro x hx; rw [(List.mem_replicate.mp hx).2]; decide) d1.1 (by simpa using d1.2.2)
  rw [foldl_keep] at hscan
  have hfuel : s.length + 1 = pos + 1 + (List.replicate k (42 : UInt8)).length + 1 := by simp; omega
  have hend : s.drop (pos + 1 + (List.replicate k (42 : UInt8)).length) = [] := by
    apply List.drop_eq_nil_of_le; simp; omega
  have e5 : ((0 : UInt8) != 0) = false := by decide
  have e6 : ¬ ((8 : Nat) < 8) := by omega
  simp only [hge, ↓reduceIte, rd_drop_cons hd', pure_bind, hx, Bool.false_eq_true, e1, e2, e3, beq_self_eq_true,
    hfuel, hscan, rd_drop_nil hend (by simp; omega), e5, e6, decide_false, Bool.or_self]
  simp only [List.length_replicate]
  congr 3
  omega

/-- **`x:y:*`** (one to seven groups, then a run of '*'): the groups as written, zeros after them,
    prefix length 16 per group -/
theorem wild6 (fx : Bool) (wb : Bool) (g : Nat) (gs : List Nat) (hlen : (g :: gs).length ≤ 7)
    (hall : ∀ x ∈ g :: gs, x < 65536) (k : Nat) :
    ptonWith fx (units (g :: gs) ++ List.replicate (k + 1) 42) wb false =
      .ok ⟨(units (g :: gs) ++ List.replicate (k + 1) 42).length, storeAll Addr.zero 0 (g :: gs),
        setBits wb none ((g :: gs).length * 16), false⟩ := by
  generalize ht : units (g :: gs) ++ List.replicate (k + 1) 42 = t
  obtain ⟨n, rest, hn, hc⟩ := units_head g gs (hall g (by simp)) (List.replicate (k + 1) 42)
  rw [ht] at hc
  have h58 : (58 : UInt8) ∈ t := by rw [← ht]; exact List.mem_append_left _ (units_colon g gs)
  have h46 : ∀ x ∈ t, x ≠ (46 : UInt8) := by
    intro x hx
    rw [← ht] at hx
    rcases List.mem_append.mp hx with hx | hx
    · rcases units_chars _ hall x hx with rfl | ⟨m, hm, rfl⟩
      · decide
      · exact hexChar_ne_dot hm
    · rw [(List.mem_replicate.mp hx).2]; decide
  have hd0 : t.drop 0 = units (g :: gs) ++ List.replicate (k + 1) 42 := by simpa using ht.symm
  have hben : Benign (List.replicate (k + 1) (42 : UInt8)) :=
    Or.inr ⟨42, List.replicate k 42, by rw [List.replicate_succ], by decide, by decide⟩
  obtain ⟨⟨ps1, e1⟩, d1⟩ := run_units fx t wb false 8 none _ hben (g :: gs) (k + 2 + 1) 0 0 none Addr.zero hd0 hall
    (by simp at hlen ⊢; omega)
  have e2 := v6_star fx t wb false (k + 2) (0 + (units (g :: gs)).length) (0 + (g :: gs).length) 0 ps1
    (storeAll Addr.zero 0 (g :: gs)) none k d1 (by simp at hlen ⊢; omega)
  have htlen : t.length = (units (g :: gs)).length + (k + 1) := by rw [← ht]; simp
  rw [ptonWith_v6_front fx t wb false n rest hn hc h58 h46,
    show t.length + 2 = k + 2 + 1 + (units (g :: gs)).length from by omega, e1, e2]
  simp only [pure_bind, Nat.zero_add, htlen]
  rfl

/-! ### terminators: what the loop does where the groups end -/

/-- at the terminator `term` of the text `s` the loop stores the pending group and finishes -/
def TermStep (fx : Bool) (s : Bytes) (wb tr : Bool) (term : Bytes) (bo : Option Nat → Option Nat) : Prop :=
  ∀ (fuel pos ii cpos part : Nat) (ps : Option Nat) (addr : Addr) (bits : Option Nat) (hii : ii < 8),
    s.drop pos = term → pos ≤ s.length → ¬ (cpos = 8 ∧ ii + 1 < 8) →
    ∃ part', v6Loop fx s wb tr (fuel + 1) ⟨pos, ii, cpos, part, ps, addr, bits⟩ =
      pure (.finish ⟨pos + term.length, ii + 1, cpos, part', ps, addr.set ii (BitVec.ofNat 16 part) hii, bo bits⟩)

theorem termStep_nul (fx : Bool) (s : Bytes) (wb tr : Bool) :
    TermStep fx s wb tr [] (fun b => setBits wb b 128) := by
  intro fuel pos ii cpos part ps addr bits hii hd hp hc
  exact ⟨part, by simpa using v6_nul fx s wb tr fuel pos ii cpos part ps addr bits hd hp hii hc⟩

/-- `/n` at the end of the text, netmask requested, n ≤ 128 -/
theorem v6_slash (fx : Bool) (s : Bytes) (tr : Bool) (fuel pos ii cpos part : Nat) (ps : Option Nat) (addr : Addr)
    (bits : Option Nat) (n : Nat) (hn : n ≤ 128) (hd : s.drop pos = 47 :: decOctet n) (hii : ii < 8) :
    v6Loop fx s true tr (fuel + 1) ⟨pos, ii, cpos, part, ps, addr, bits⟩ =
      pure (.finish ⟨pos + 1 + (decOctet n).length, ii + 1, cpos, n, ps, addr.set ii (BitVec.ofNat 16 part) hii, some n⟩) := by
  rw [v6Loop]
  have hn256 : n < 256 := by omega
  have hge : ¬ (ii ≥ 8) := by omega
  have hx : isHexDigit (47 : UInt8) = false := by decide
  have e1 : ((47 : UInt8) == 58) = false := by decide
  have e2 : ((47 : UInt8) == 46) = false := by decide
  obtain ⟨d0, r0, hd0, e0, _⟩ := decOctet_head n hn256
  have d1 := drop_cons_props hd
  have hd1 : s.drop (pos + 1) = digitChar d0 :: r0 := by rw [d1.2.2, e0]; rfl
  obtain ⟨_, _, _, t4, _, _, _⟩ := digitChar_tests hd0
  have hlen := drop_len hd (by simp)
  simp only [List.length_cons] at hlen
  have hscan := scan_run s Bytes.isDigit decStep isDigit_zero [] (Or.inl rfl) (decOctet n) (pos + 1) pos 0
    (fun x hx => (decOctet_chars n hn256 x hx).2.2) d1.1 (by simpa using d1.2.2)
  rw [dec_fold n hn256] at hscan
  have hfuel : s.length + 1 = pos + 1 + (decOctet n).length + 1 := by omega
  have hn128 : ¬ (n > 128) := by omega
  simp only [hge, ↓reduceIte, rd_drop_cons hd, pure_bind, hx, Bool.false_eq_true, e1, e2, beq_self_eq_true,
    setG_eq hii, Bool.not_true, rd_drop_cons hd1, t4, hfuel, hscan, hn128]

theorem termStep_slash (fx : Bool) (s : Bytes) (tr : Bool) (n : Nat) (hn : n ≤ 128) :
    TermStep fx s true tr (47 :: decOctet n) (fun _ => some n) := by
  intro fuel pos ii cpos part ps addr bits hii hd hp hc
  exact ⟨n, by simpa [Nat.add_assoc, Nat.add_comm 1] using v6_slash fx s tr fuel pos ii cpos part ps addr bits n hn hd hii⟩

theorem benign_slash (n : Nat) : Benign (47 :: decOctet n) := Or.inr ⟨47, _, rfl, by decide, by decide⟩
theorem benign_nil : Benign [] := Or.inl rfl

/-- the last stretch `g:…:last` followed by the terminator -/
theorem run_joinC_term (fx : Bool) (s : Bytes) (wb tr : Bool) (cpos : Nat) (bits : Option Nat)
    (term : Bytes) (bo : Option Nat → Option Nat) (hT : TermStep fx s wb tr term bo)
    (init : List Nat) (last : Nat) (fuel pos ii : Nat) (ps : Option Nat) (addr : Addr)
    (hd : s.drop pos = joinC ((init ++ [last]).map printGroup) ++ term)
    (hall : ∀ g ∈ init ++ [last], g < 65536) (hlen : ii + init.length + 1 ≤ 8)
    (hc : ¬ (cpos = 8 ∧ ii + init.length + 1 < 8)) :
    ∃ ps' part', v6Loop fx s wb tr (fuel + (joinC ((init ++ [last]).map printGroup)).length + 1)
        ⟨pos, ii, cpos, 0, ps, addr, bits⟩ =
      pure (.finish ⟨pos + (joinC ((init ++ [last]).map printGroup)).length + term.length, ii + init.length + 1, cpos,
        part', ps', storeAll addr ii (init ++ [last]), bo bits⟩) := by
  rw [joinC_units] at hd ⊢
  have hlast : last < 65536 := hall last (by simp)
  have hinit : ∀ g ∈ init, g < 65536 := fun g hg => hall g (by simp [hg])
  have hd' : s.drop pos = units init ++ (printGroup last ++ term) := by simpa using hd
  obtain ⟨⟨ps1, e1⟩, d1⟩ := run_units fx s wb tr cpos bits _ (benign_group last hlast term) init
    (fuel + 1 + (printGroup last).length) pos ii ps addr hd' hinit (by omega)
  obtain ⟨e2, d2⟩ := v6_group fx s wb tr (fuel + 1) (pos + (units init).length) (ii + init.length) cpos ps1
    (storeAll addr ii init) bits last term d1 hlast (by omega)
  have hpos : pos + (units init).length + (printGroup last).length ≤ s.length := by
    have hl := congrArg List.length d1
    simp only [List.length_drop, List.length_append] at hl
    have hne := (printGroup_chars last hlast).1
    have : 0 < (printGroup last).length := List.length_pos_iff.mpr hne
    omega
  have hi : ii + init.length < 8 := by omega
  obtain ⟨part', e3⟩ := hT fuel (pos + (units init).length + (printGroup last).length) (ii + init.length)
    cpos last ps1 (storeAll addr ii init) bits hi d2 hpos (by omega)
  refine ⟨ps1, part', ?_⟩
  rw [show fuel + (units init ++ printGroup last).length + 1
        = fuel + 1 + (printGroup last).length + (units init).length from by simp; omega, e1, e2, e3,
      storeAll_append]
  simp only [storeAll, hi, ↓reduceDIte, List.length_append]
  congr 3
  omega

/-- the eight ':'-joined groups of any address, then the terminator -/
theorem pton_full_term (fx : Bool) (a : Addr) (wb : Bool) (term : Bytes) (bo : Option Nat → Option Nat)
    (hT : TermStep fx (joinC (a.toNats.map printGroup) ++ term) wb false term bo)
    (h46 : ∀ x ∈ term, x ≠ (46 : UInt8)) :
    ptonWith fx (joinC (a.toNats.map printGroup) ++ term) wb false =
      pure ⟨(joinC (a.toNats.map printGroup) ++ term).length, a, bo none, false⟩ := by
  have hlt := toNats_lt a
  have hl8 := toNats_length a
  have hne : a.toNats ≠ [] := by intro h; rw [h] at hl8; simp at hl8
  obtain ⟨init, last, hsplit⟩ : ∃ init last, a.toNats = init ++ [last] :=
    ⟨a.toNats.dropLast, a.toNats.getLast hne, (List.dropLast_concat_getLast hne).symm⟩
  have hinit : init.length = 7 := by
    have := congrArg List.length hsplit
    simp [hl8] at this; omega
  obtain ⟨g, gs, hgs⟩ : ∃ g gs, init = g :: gs := by
    cases init with
    | nil => simp at hinit
    | cons g gs => exact ⟨g, gs, rfl⟩
  have hltI : ∀ x ∈ init ++ [last], x < 65536 := by rw [← hsplit]; exact hlt
  have hJ : joinC (a.toNats.map printGroup) = units (g :: gs) ++ printGroup last := by
    rw [hsplit, joinC_units, hgs]
  generalize ht : joinC (a.toNats.map printGroup) ++ term = t at *
  have htext : t = units (g :: gs) ++ (printGroup last ++ term) := by rw [← ht, hJ]; simp
  obtain ⟨n, rest, hn, hc⟩ := units_head g gs (hltI g (by simp [hgs])) (printGroup last ++ term)
  rw [← htext] at hc
  have h58 : (58 : UInt8) ∈ t := by rw [htext]; exact List.mem_append_left _ (units_colon g gs)
  have hnd : ∀ x ∈ t, x ≠ (46 : UInt8) := by
    intro x hx
    rw [← ht] at hx
    rcases List.mem_append.mp hx with hx | hx
    · exact text_no_dot (joinC_chars a.toNats hlt) x hx
    · exact h46 x hx
  have hd : t.drop 0 = joinC ((init ++ [last]).map printGroup) ++ term := by rw [← hsplit, ht]; rfl
  obtain ⟨ps', part', hloop⟩ := run_joinC_term fx t wb false 8 none term bo hT init last (term.length + 1) 0 0 none Addr.zero hd
    hltI (by omega) (by omega)
  have htlen : t.length = (joinC ((init ++ [last]).map printGroup)).length + term.length := by
    rw [← hsplit, ← ht]; simp
  have haddr : storeAll Addr.zero 0 (init ++ [last]) = a := by
    rw [← hsplit]
    apply addr_ext_gAt
    intro k hk
    rw [gAt_storeAll_zero _ _ (by omega), gAt_toNats]
  rw [ptonWith_v6_front fx t wb false n rest hn hc h58 hnd,
    show t.length + 2 = term.length + 1 + (joinC ((init ++ [last]).map printGroup)).length + 1 from by omega, hloop]
  simp only [pure_bind, finishShift_none, haddr, Nat.zero_add, ← htlen]
  exact ptonTail_end t false a _

/-- the IPv6 loop over `L::R` followed by the terminator -/
theorem layout_loop_term (fx : Bool) (wb : Bool) (term : Bytes) (bo : Option Nat → Option Nat)
    (linit : List Nat) (llast : Nat) (r : List Nat)
    (hT : TermStep fx (layoutText (linit ++ [llast]) r ++ term) wb false term bo) (hbt : Benign term)
    (hall : ∀ g ∈ linit ++ [llast] ++ r, g < 65536)
    (hlen : (linit ++ [llast]).length + r.length ≤ 7) (hr : r = [] → (linit ++ [llast]).length ≤ 6) :
    ∃ ps' part,
      v6Loop fx (layoutText (linit ++ [llast]) r ++ term) wb false ((layoutText (linit ++ [llast]) r ++ term).length + 2)
          { pos := 0 } =
        pure (.finish ⟨(layoutText (linit ++ [llast]) r ++ term).length,
          (linit ++ [llast]).length + 1 + (if r = [] then [0] else r).length, (linit ++ [llast]).length, part, ps',
          storeAll Addr.zero 0 (linit ++ [llast] ++ 0 :: (if r = [] then [0] else r)), bo none⟩) := by
  generalize ht : layoutText (linit ++ [llast]) r ++ term = t at *
  have hlinit : ∀ g ∈ linit, g < 65536 := fun g hg => hall g (by simp [hg])
  have hllast : llast < 65536 := hall llast (by simp)
  have hrr : ∀ g ∈ r, g < 65536 := fun g hg => hall g (by simp [hg])
  have htext : t = units linit ++ (printGroup llast ++ 58 :: 58 :: (joinC (r.map printGroup) ++ term)) := by
    rw [← ht, layoutText, joinC_units]; simp
  have hlen1 : linit.length + 1 + r.length ≤ 7 := by simpa using hlen
  have hd0 : t.drop 0 = units linit ++ (printGroup llast ++ 58 :: 58 :: (joinC (r.map printGroup) ++ term)) := by
    simpa using htext
  have htlen : t.length = (units linit).length + (printGroup llast).length + 2 + (joinC (r.map printGroup)).length
      + term.length := by
    rw [htext]; simp; omega
  generalize hR : (joinC (r.map printGroup)).length + term.length = RL at *
  -- L's leading units
  obtain ⟨⟨ps1, e1⟩, d1⟩ := run_units fx t wb false 8 none _ (benign_group llast hllast _) linit
    ((printGroup llast).length + 1 + 1 + (RL + 2)) 0 0 none Addr.zero hd0 hlinit (by omega)
  -- L's last group
  obtain ⟨e2, d2⟩ := v6_group fx t wb false (1 + 1 + (RL + 2))
    (0 + (units linit).length) (0 + linit.length) 8 ps1 (storeAll Addr.zero 0 linit) none llast _ d1 hllast (by omega)
  -- "::"
  have hi1 : 0 + linit.length < 8 := by omega
  have hne7 : 0 + linit.length + 1 ≠ 7 := by
    by_cases hre : r = []
    · have := hr hre; simp at this; omega
    · have : r.length ≠ 0 := fun h => hre (List.eq_nil_of_length_eq_zero h)
      omega
  have e3 := v6_dcolon fx t wb false (1 + (RL + 2))
    (0 + (units linit).length + (printGroup llast).length) (0 + linit.length) llast ps1
    (storeAll Addr.zero 0 linit) none _ d2 hi1 hne7
  have d3 := (drop_cons_props d2).2.2
  have d4 := (drop_cons_props d3).2.2
  have hp3 := (drop_cons_props d3).1
  have hbR : Benign (joinC (r.map printGroup) ++ term) := by
    by_cases hre : r = []
    · subst hre; simpa [joinC] using hbt
    · rcases benign_joinC r hrr with h | ⟨c, rest, h, h1, h2⟩
      · exfalso
        cases r with
        | nil => exact hre rfl
        | cons g gs =>
          obtain ⟨n, tl, _, hp⟩ := printGroup_head g (hrr g (by simp))
          cases gs with
          | nil => simp [joinC, hp] at h
          | cons g' gs' => simp [joinC, hp] at h
      · exact Or.inr ⟨c, rest ++ term, by rw [h]; rfl, h1, h2⟩
  have hb := benign_char hbR d4 (by omega)
  have hi2 : 0 + linit.length + 1 < 8 := by omega
  have e4 := v6_colon fx t wb false (RL + 2)
    (0 + (units linit).length + (printGroup llast).length + 1) (0 + linit.length + 1) (0 + linit.length + 1) 0
    (some (0 + (units linit).length + (printGroup llast).length + 1))
    ((storeAll Addr.zero 0 linit).set (0 + linit.length) (BitVec.ofNat 16 llast) hi1) none _ d3 hi2 hb.1 hb.2
  have hfuel : t.length + 2 = (printGroup llast).length + 1 + 1 + (RL + 2) + (units linit).length := by
    omega
  rw [hfuel, e1,
    show (printGroup llast).length + 1 + 1 + (RL + 2)
      = 1 + 1 + (RL + 2) + (printGroup llast).length from by omega, e2,
    show 1 + 1 + (RL + 2) = 1 + (RL + 2) + 1 from by omega,
    e3, show 1 + (RL + 2) = RL + 2 + 1 from by omega, e4]
  have hA : ((storeAll Addr.zero 0 linit).set (0 + linit.length) (BitVec.ofNat 16 llast) hi1).set
      (0 + linit.length + 1) (BitVec.ofNat 16 0) hi2 = storeAll Addr.zero 0 (linit ++ [llast] ++ [0]) := by
    rw [storeAll_single, storeAll_single, storeAll_append, storeAll_append]
    simp
  rw [hA]
  by_cases hre : r = []
  · subst hre
    have hl6 : linit.length + 1 ≤ 6 := by simpa using hr rfl
    have hj : joinC (([] : List Nat).map printGroup) = [] := by simp [joinC]
    rw [hj] at d4 htlen hR
    simp only [List.nil_append, List.length_nil, Nat.add_zero] at d4 htlen
    simp only [List.length_nil, Nat.zero_add] at hR
    have hpos : 0 + (units linit).length + (printGroup llast).length + 1 + 1 + term.length = t.length := by
      omega
    have hi3 : 0 + linit.length + 1 + 1 < 8 := by omega
    obtain ⟨part', e5⟩ := hT (RL + 1) (0 + (units linit).length + (printGroup llast).length + 1 + 1)
      (0 + linit.length + 1 + 1) (0 + linit.length + 1) 0
      (some (0 + (units linit).length + (printGroup llast).length + 1 + 1))
      (storeAll Addr.zero 0 (linit ++ [llast] ++ [0])) none hi3 d4 (by omega) (by omega)
    refine ⟨some (0 + (units linit).length + (printGroup llast).length + 1 + 1), part', ?_⟩
    rw [show RL + 2 = RL + 1 + 1 from rfl, e5, storeAll_single]
    have hA2 : storeAll (storeAll Addr.zero 0 (linit ++ [llast] ++ [0])) (0 + linit.length + 1 + 1) [0]
        = storeAll Addr.zero 0 (linit ++ [llast] ++ 0 :: [0]) := by
      have := storeAll_append Addr.zero (linit ++ [llast] ++ [0]) [0] 0
      rw [show linit ++ [llast] ++ 0 :: [0] = linit ++ [llast] ++ [0] ++ [0] from by simp, this]
      congr 1; simp
    have hii : 0 + linit.length + 1 + 1 + 1 = (linit ++ [llast]).length + 1 + ([0] : List Nat).length := by
      simp
    have hcp : 0 + linit.length + 1 = (linit ++ [llast]).length := by simp
    rw [hA2, hpos, hii, hcp]
    simp
  · simp only [hre, ↓reduceIte]
    obtain ⟨rinit, rlast, hrs⟩ : ∃ rinit rlast, r = rinit ++ [rlast] :=
      ⟨r.dropLast, r.getLast hre, (List.dropLast_concat_getLast hre).symm⟩
    have hrl : r.length = rinit.length + 1 := by rw [hrs]; simp
    have d4' : t.drop (0 + (units linit).length + (printGroup llast).length + 1 + 1)
        = joinC ((rinit ++ [rlast]).map printGroup) ++ term := by rw [← hrs]; exact d4
    obtain ⟨ps5, part5, e5⟩ := run_joinC_term fx t wb false (0 + linit.length + 1) none term bo hT rinit rlast
      (term.length + 1)
      (0 + (units linit).length + (printGroup llast).length + 1 + 1) (0 + linit.length + 1 + 1)
      (some (0 + (units linit).length + (printGroup llast).length + 1 + 1))
      (storeAll Addr.zero 0 (linit ++ [llast] ++ [0])) d4' (by rw [← hrs]; exact hrr) (by omega) (by omega)
    refine ⟨ps5, part5, ?_⟩
    rw [show RL + 2 = term.length + 1 + (joinC ((rinit ++ [rlast]).map printGroup)).length + 1 from by
          rw [← hrs]; omega, e5, ← hrs]
    have hA2 : storeAll (storeAll Addr.zero 0 (linit ++ [llast] ++ [0])) (0 + linit.length + 1 + 1) r
        = storeAll Addr.zero 0 (linit ++ [llast] ++ 0 :: r) := by
      have := storeAll_append Addr.zero (linit ++ [llast] ++ [0]) r 0
      rw [show linit ++ [llast] ++ 0 :: r = linit ++ [llast] ++ [0] ++ r from by simp, this]
      congr 1; simp
    have hii : 0 + linit.length + 1 + 1 + rinit.length + 1 = (linit ++ [llast]).length + 1 + r.length := by
      simp; omega
    have hcp : 0 + linit.length + 1 = (linit ++ [llast]).length := by simp
    have hpos : 0 + (units linit).length + (printGroup llast).length + 1 + 1 + (joinC (r.map printGroup)).length
        + term.length = t.length := by omega
    rw [hA2, hii, hcp, hpos]

/-- the parser reads `L::R<term>` back as `L ++ zeros ++ R` -/
theorem pton_layout_term (fx : Bool) (a : Addr) (wb : Bool) (term : Bytes) (bo : Option Nat → Option Nat)
    (l r : List Nat) (hl : l ≠ []) (hlen : l.length + r.length ≤ 7)
    (hr6 : r = [] → l.length ≤ 6)
    (hsplit : a.toNats = l ++ List.replicate (8 - (l.length + r.length)) 0 ++ r)
    (hT : TermStep fx (layoutText l r ++ term) wb false term bo) (hbt : Benign term)
    (h46 : ∀ x ∈ term, x ≠ (46 : UInt8)) :
    ptonWith fx (layoutText l r ++ term) wb false = pure ⟨(layoutText l r ++ term).length, a, bo none, false⟩ := by
  have hlt := toNats_lt a
  rw [hsplit] at hlt
  have hltl : ∀ g ∈ l, g < 65536 := fun g hg => hlt g (by simp [hg])
  have hltr : ∀ g ∈ r, g < 65536 := fun g hg => hlt g (by simp [hg])
  obtain ⟨linit, llast, hls⟩ : ∃ linit llast, l = linit ++ [llast] :=
    ⟨l.dropLast, l.getLast hl, (List.dropLast_concat_getLast hl).symm⟩
  obtain ⟨ps', part, hloop⟩ := layout_loop_term fx wb term bo linit llast r (by rw [← hls]; exact hT) hbt
    (by intro g hg; rw [← hls] at hg; simp at hg; rcases hg with hg | hg; exact hltl g hg; exact hltr g hg)
    (by rw [← hls]; exact hlen) (by rw [← hls]; exact hr6)
  rw [← hls] at hloop
  -- characters of the text
  have hcharsL : ∀ x ∈ layoutText l r, x = 58 ∨ ∃ n, n < 16 ∧ x = hexChar n := by
    intro x hx
    rw [layoutText] at hx
    simp only [List.mem_append, List.mem_cons, List.not_mem_nil, or_false] at hx
    rcases hx with (hx | hx | hx) | hx
    · exact joinC_chars l hltl x hx
    · exact Or.inl hx
    · exact Or.inl hx
    · exact joinC_chars r hltr x hx
  obtain ⟨c, rest, hc, n, hn16, hcn⟩ : ∃ c rest, layoutText l r ++ term = c :: rest ∧ ∃ n, n < 16 ∧ c = hexChar n := by
    cases hl' : l with
    | nil => exact absurd hl' hl
    | cons g gs =>
      obtain ⟨n, tl, hn16, hp⟩ := printGroup_head g (hltl g (by rw [hl']; simp))
      rw [layoutText]
      cases gs with
      | nil => exact ⟨hexChar n, _, by simp [joinC, hp]; rfl, n, hn16, rfl⟩
      | cons g' gs' => exact ⟨hexChar n, _, by simp [joinC, hp]; rfl, n, hn16, rfl⟩
  generalize ht : layoutText l r ++ term = t at *
  have hnd : ∀ x ∈ t, x ≠ (46 : UInt8) := by
    intro x hx
    rw [← ht] at hx
    rcases List.mem_append.mp hx with hx | hx
    · exact text_no_dot hcharsL x hx
    · exact h46 x hx
  have h58 : (58 : UInt8) ∈ t := by rw [← ht, layoutText]; simp
  -- the shift
  have hr'len : (if r = [] then [0] else r).length = (if r = [] then 1 else r.length) := by
    by_cases h : r = [] <;> simp [h]
  generalize hr'def : (if r = [] then [0] else r) = r' at *
  have hii : l.length + 1 + r'.length ≤ 8 := by
    rw [hr'len]
    by_cases h : r = []
    · have := hr6 h; simp [h]; omega
    · simp [h]; omega
  obtain ⟨res, hres, hspec⟩ := finishShift_spec (storeAll Addr.zero 0 (l ++ 0 :: r'))
    (l.length + 1 + r'.length) l.length (by omega) (by omega) hii
  have hresa : res = a := by
    apply addr_ext_gAt
    intro k hk
    have hX : (l ++ 0 :: r').length ≤ 8 := by simp; omega
    rw [hspec k hk, gAt_storeAll_zero _ _ hX, gAt_storeAll_zero _ _ hX, gAt_toNats a k]
    have key := idx_shift l r' k (8 - (l.length + 1 + r'.length))
    have hcombine : (if k < l.length then BitVec.ofNat 16 (nAt (l ++ 0 :: r') k)
        else if k < l.length + (8 - (l.length + 1 + r'.length)) then (0 : Group)
        else BitVec.ofNat 16 (nAt (l ++ 0 :: r') (k - (8 - (l.length + 1 + r'.length)))))
        = BitVec.ofNat 16 (if k < l.length then nAt (l ++ 0 :: r') k
          else if k < l.length + (8 - (l.length + 1 + r'.length)) then 0
          else nAt (l ++ 0 :: r') (k - (8 - (l.length + 1 + r'.length)))) := by
      by_cases h1 : k < l.length
      · rw [if_pos h1, if_pos h1]
      · rw [if_neg h1, if_neg h1]
        by_cases h2 : k < l.length + (8 - (l.length + 1 + r'.length))
        · rw [if_pos h2, if_pos h2]; rfl
        · rw [if_neg h2, if_neg h2]
    rw [hcombine, key, hsplit]
    congr 2
    by_cases h : r = []
    · subst h
      have h6 := hr6 rfl
      simp only [↓reduceIte] at hr'def
      subst hr'def
      simp only [List.length_cons, List.length_nil, List.append_nil]
      have e : 8 - (l.length + 0) = (8 - (l.length + 1 + (0 + 1)) + 1) + 1 := by omega
      rw [e, List.replicate_succ' (n := 8 - (l.length + 1 + (0 + 1)) + 1), List.append_assoc]
    · simp only [h, ↓reduceIte] at hr'def
      subst hr'def
      have : 8 - (l.length + 1 + r.length) + 1 = 8 - (l.length + r.length) := by omega
      rw [this]
  rw [hcn] at hc
  rw [ptonWith_v6_front fx t wb false n rest hn16 hc h58 hnd, hloop]
  simp only [pure_bind, hres, hresa]
  exact ptonTail_end t false a _

/-! ### `<addr>/n` -/

/-- **`x:y::/n`** — for every address that is not printed as a dotted quad, every `n ≤ 128`: the
    text the daemon prints for the address, followed by `/n`, read as a netmask, is that address
    with prefix length `n`. -/
theorem cidr6 (fx : Bool) (a : Addr) (h4 : isIPv4 a = false) (n : Nat) (hn : n ≤ 128) :
    ptonWith fx (ntopFull a ++ 47 :: decOctet n) true false =
      .ok ⟨(ntopFull a ++ 47 :: decOctet n).length, a, some n, false⟩ := by
  have h46 : ∀ x ∈ (47 :: decOctet n : Bytes), x ≠ (46 : UInt8) := by
    intro x hx
    rcases List.mem_cons.mp hx with rfl | hx
    · decide
    · exact (decOctet_chars n (by omega) x hx).2.1
  rcases ntop_shape a h4 with hfull | ⟨l, r, hl, hlen, hr6, hsplit, htext⟩
  · rw [hfull]
    exact pton_full_term fx a true _ _ (termStep_slash fx _ false n hn) h46
  · rw [htext]
    exact pton_layout_term fx a true _ _ l r hl hlen hr6 hsplit (termStep_slash fx _ false n hn) (benign_slash n) h46

/-- the same statement for the text as `irc_ntop` hands it out (40-byte buffer) -/
theorem ntop_cidr6 (fx : Bool) (a : Addr) (h4 : isIPv4 a = false) (n : Nat) (hn : n ≤ 128) :
    ptonWith fx ((ntop a 40).1 ++ 47 :: decOctet n) true false =
      .ok ⟨((ntop a 40).1 ++ 47 :: decOctet n).length, a, some n, false⟩ := by
  rw [(ntop_len a).2.2]
  exact cidr6 fx a h4 n hn

/-! ### `a.*` and `a.b.c.*` -/

/-- **`a.*`**: the IPv4-mapped network a.0.0.0 and prefix length 96 + 8 -/
theorem wild4_1 (fx : Bool) (o1 : Nat) (h1 : o1 < 256) :
    ptonWith fx (decOctet o1 ++ [46, 42]) true false =
      .ok ⟨(decOctet o1 ++ [46, 42]).length, mapped4 o1 0 0 0, some 104, false⟩ := by
  generalize ht : decOctet o1 ++ [46, 42] = t
  have hnc : ∀ x ∈ t, x ≠ (58 : UInt8) := by
    intro x hx
    rw [← ht] at hx
    simp only [List.mem_append, List.mem_cons, List.not_mem_nil, or_false] at hx
    rcases hx with hx | hx | hx
    · exact (decOctet_chars o1 h1 x hx).1
    · rw [hx]; decide
    · rw [hx]; decide
  have hdot : (46 : UInt8) ∈ t := by rw [← ht]; simp
  obtain ⟨d, rest, hd10, hc⟩ : ∃ d rest, d < 10 ∧ t = digitChar d :: rest := by
    obtain ⟨d, rest, hd, e⟩ := decOctet_head' o1 h1 [46, 42]
    exact ⟨d, rest, hd, by rw [← ht, e]⟩
  obtain ⟨t1, _, _, _, _, t6, _⟩ := digitChar_tests hd10
  have hskip := skipSpace_nonspace t _ rest hc t6
  have hv6 := isV6Text_false_of t hnc
  have hsome := strchr_isSome_of t 46 hdot
  generalize hL1 : (decOctet o1).length = L1
  have htlen : t.length = L1 + 2 := by rw [← ht]; simp [hL1]
  have hd0 : t.drop (0 + 0) = decOctet o1 ++ [46, 42] := by simp [ht]
  obtain ⟨a1, b1⟩ := ip4_octet t 0 true false (2 + 1) 0 0 0 o1 _ hd0 h1
  rw [hL1] at a1 b1
  have c2 := ip4_dotstar t 0 true false 2 (0 + L1) 0 o1 0 b1
  have hip : ptonIp4 t 0 true false = pure (some ⟨t.length, o1 * 16777216, 8⟩) := by
    unfold ptonIp4
    have hd' : t.drop 0 = digitChar d :: rest := by simpa using hc
    simp only [rd_drop_cons hd', pure_bind, t1, Bool.false_eq_true, ↓reduceIte]
    rw [show t.length + 1 = 2 + 1 + L1 from by omega, a1, c2, (shl4_vals o1 h1).1, Nat.zero_or]
    congr 3
    omega
  have hlen : t.length ≠ 0 := by rw [hc]; simp
  have hhi : o1 * 16777216 / 65536 = o1 * 256 + 0 := by omega
  have hlo : o1 * 16777216 % 65536 = 0 * 256 + 0 := by omega
  unfold ptonWith
  simp only [hskip, pure_bind, hv6, Bool.false_eq_true, ↓reduceIte, hsome, hip, Nat.zero_add, bne_iff_ne, ne_eq,
    hlen, not_false_eq_true, setG_eq (by decide : 5 < 8), setG_eq (by decide : 6 < 8), setG_eq (by decide : 7 < 8),
    hhi, hlo, v4_addr]
  have hb : setBits true none (u32 (8 + 96)) = some 104 := by decide
  rw [hb]
  exact ptonTail_end t false _ _

/-- **`a.b.c.*`**: the IPv4-mapped network a.b.c.0 and prefix length 96 + 24 -/
theorem wild4_3 (fx : Bool) (o1 o2 o3 : Nat) (h1 : o1 < 256) (h2 : o2 < 256) (h3 : o3 < 256) :
    ptonWith fx (decOctet o1 ++ 46 :: (decOctet o2 ++ 46 :: (decOctet o3 ++ [46, 42]))) true false =
      .ok ⟨(decOctet o1 ++ 46 :: (decOctet o2 ++ 46 :: (decOctet o3 ++ [46, 42]))).length, mapped4 o1 o2 o3 0,
        some 120, false⟩ := by
  generalize ht : decOctet o1 ++ 46 :: (decOctet o2 ++ 46 :: (decOctet o3 ++ [46, 42])) = t
  have hnc : ∀ x ∈ t, x ≠ (58 : UInt8) := by
    intro x hx
    rw [← ht] at hx
    simp only [List.mem_append, List.mem_cons, List.not_mem_nil, or_false] at hx
    rcases hx with hx | hx | hx | hx | hx | hx | hx
    · exact (decOctet_chars o1 h1 x hx).1
    · rw [hx]; decide
    · exact (decOctet_chars o2 h2 x hx).1
    · rw [hx]; decide
    · exact (decOctet_chars o3 h3 x hx).1
    · rw [hx]; decide
    · rw [hx]; decide
  have hdot : (46 : UInt8) ∈ t := by rw [← ht]; simp
  obtain ⟨d, rest, hd10, hc⟩ : ∃ d rest, d < 10 ∧ t = digitChar d :: rest := by
    obtain ⟨d, rest, hd, e⟩ := decOctet_head' o1 h1 (46 :: (decOctet o2 ++ 46 :: (decOctet o3 ++ [46, 42])))
    exact ⟨d, rest, hd, by rw [← ht, e]⟩
  obtain ⟨t1, _, _, _, _, t6, _⟩ := digitChar_tests hd10
  have hskip := skipSpace_nonspace t _ rest hc t6
  have hv6 := isV6Text_false_of t hnc
  have hsome := strchr_isSome_of t 46 hdot
  generalize hL1 : (decOctet o1).length = L1
  generalize hL2 : (decOctet o2).length = L2
  generalize hL3 : (decOctet o3).length = L3
  have htlen : t.length = L1 + 1 + L2 + 1 + L3 + 2 := by rw [← ht]; simp [hL1, hL2, hL3]; omega
  have hd0 : t.drop (0 + 0) = decOctet o1 ++ (46 :: (decOctet o2 ++ 46 :: (decOctet o3 ++ [46, 42]))) := by simp [ht]
  obtain ⟨a1, b1⟩ := ip4_octet t 0 true false (L3 + 3 + 1 + L2 + 1) 0 0 0 o1 _ hd0 h1
  rw [hL1] at a1 b1
  obtain ⟨d2, r2, hd2, e2⟩ := decOctet_head' o2 h2 (46 :: (decOctet o3 ++ [46, 42]))
  have b1' : t.drop (0 + (0 + L1)) = 46 :: digitChar d2 :: r2 := by rw [b1, e2]
  have c1 := ip4_dot t 0 true false (L3 + 3 + 1 + L2) (0 + L1) 0 o1 0 d2 r2 b1' hd2
  have b1'' : t.drop (0 + (0 + L1 + 1)) = decOctet o2 ++ 46 :: (decOctet o3 ++ [46, 42]) := by
    rw [← Nat.add_assoc]; exact (drop_cons_props b1).2.2
  obtain ⟨a2, b2⟩ := ip4_octet t 0 true false (L3 + 3 + 1) (0 + L1 + 1) (0 + 1) (0 ||| shl4 o1 0) o2 _ b1'' h2
  rw [hL2] at a2 b2
  obtain ⟨d3, r3, hd3, e3⟩ := decOctet_head' o3 h3 [46, 42]
  have b2' : t.drop (0 + (0 + L1 + 1 + L2)) = 46 :: digitChar d3 :: r3 := by rw [b2, e3]
  have c2 := ip4_dot t 0 true false (L3 + 3) (0 + L1 + 1 + L2) (0 + 1) o2 (0 ||| shl4 o1 0) d3 r3 b2' hd3
  have b2'' : t.drop (0 + (0 + L1 + 1 + L2 + 1)) = decOctet o3 ++ [46, 42] := by
    rw [← Nat.add_assoc]; exact (drop_cons_props b2).2.2
  obtain ⟨a3, b3⟩ := ip4_octet t 0 true false (2 + 1) (0 + L1 + 1 + L2 + 1) (0 + 1 + 1)
    ((0 ||| shl4 o1 0) ||| shl4 o2 (0 + 1)) o3 _ b2'' h3
  rw [hL3] at a3 b3
  have c3 := ip4_dotstar t 0 true false 2 (0 + L1 + 1 + L2 + 1 + L3) (0 + 1 + 1) o3
    ((0 ||| shl4 o1 0) ||| shl4 o2 (0 + 1)) b3
  have hor : (((0 ||| o1 * 16777216) ||| o2 * 65536) ||| o3 * 256) = ((o1 * 256 + o2) * 256 + o3) * 256 := by
    have := or4 o1 o2 o3 0 h1 h2 h3 (by omega)
    simpa using this
  have hip : ptonIp4 t 0 true false = pure (some ⟨t.length, ((o1 * 256 + o2) * 256 + o3) * 256, 24⟩) := by
    unfold ptonIp4
    have hd' : t.drop 0 = digitChar d :: rest := by simpa using hc
    simp only [rd_drop_cons hd', pure_bind, t1, Bool.false_eq_true, ↓reduceIte]
    rw [show t.length + 1 = L3 + 3 + 1 + L2 + 1 + L1 from by omega, a1, c1,
        show L3 + 3 + 1 + L2 = L3 + 3 + 1 + L2 from rfl, a2,
        show L3 + 3 + 1 = L3 + 3 + 1 from rfl, c2,
        show L3 + 3 = 2 + 1 + L3 from by omega, a3, c3,
        (shl4_vals o1 h1).1, (shl4_vals o2 h2).2.1, (shl4_vals o3 h3).2.2.1, hor]
    congr 3
    omega
  have hlen : t.length ≠ 0 := by rw [hc]; simp
  have hhi : ((o1 * 256 + o2) * 256 + o3) * 256 / 65536 = o1 * 256 + o2 := by omega
  have hlo : ((o1 * 256 + o2) * 256 + o3) * 256 % 65536 = o3 * 256 + 0 := by omega
  unfold ptonWith
  simp only [hskip, pure_bind, hv6, Bool.false_eq_true, ↓reduceIte, hsome, hip, Nat.zero_add, bne_iff_ne, ne_eq,
    hlen, not_false_eq_true, setG_eq (by decide : 5 < 8), setG_eq (by decide : 6 < 8), setG_eq (by decide : 7 < 8),
    hhi, hlo, v4_addr]
  have hb : setBits true none (u32 (24 + 96)) = some 120 := by decide
  rw [hb]
  exact ptonTail_end t false _ _

end Iauthd.Addr
