import Iauthd.Addr.Spec
/-
  C13, memory safety of the parser model: for every input string and both flags `pton`
  returns `.ok` — no read past the NUL, no group index outside 0..7, `part_start` is never
  NULL when the `.` case dereferences it, and the fuel given to every loop suffices.
-/
set_option linter.unusedVariables false
namespace Iauthd.Addr

/-- the byte `s[i]` of the C string (0 at and beyond the NUL) -/
def charAt (s : Bytes) (i : Nat) : UInt8 := s.getD i 0

theorem rd_eq {s : Bytes} {i : Nat} (h : i ≤ s.length) : rd s i = pure (charAt s i) := by
  unfold rd charAt
  by_cases hi : i < s.length
  · simp [hi, List.getD_eq_getElem?_getD]
  · have : i = s.length := by omega
    subst this
    simp [List.getD_eq_getElem?_getD]

theorem charAt_lt {s : Bytes} {i : Nat} (h : charAt s i ≠ 0) : i < s.length := by
  unfold charAt at h
  by_cases hi : i < s.length
  · exact hi
  · exfalso; apply h
    have : s[i]? = none := by simp; omega
    simp [List.getD_eq_getElem?_getD, this]

theorem charAt_getElem {s : Bytes} {i : Nat} (h : i < s.length) : charAt s i = s[i] := by
  simp [charAt, List.getD_eq_getElem?_getD, h]

/-- `x` returns normally with a value satisfying `P` -/
def Safe {α : Type} (x : M α) (P : α → Prop) : Prop := ∃ a, x = .ok a ∧ P a

theorem Safe.pure {α : Type} {P : α → Prop} {a : α} (h : P a) : Safe (Pure.pure a : M α) P :=
  ⟨a, rfl, h⟩

theorem Safe.bind {α β : Type} {x : M α} {f : α → M β} {Q : α → Prop} {P : β → Prop}
    (hx : Safe x Q) (hf : ∀ a, Q a → Safe (f a) P) : Safe (x >>= f) P := by
  obtain ⟨a, rfl, ha⟩ := hx
  exact hf a ha

theorem Safe.mono {α : Type} {x : M α} {P Q : α → Prop} (hx : Safe x P) (h : ∀ a, P a → Q a) :
    Safe x Q := by
  obtain ⟨a, e, ha⟩ := hx
  exact ⟨a, e, h a ha⟩

theorem Safe.isOk {α : Type} {x : M α} {P : α → Prop} (hx : Safe x P) : x.isOk = true := by
  obtain ⟨a, rfl, _⟩ := hx; rfl

/-! ### the small loops -/

theorem scan_safe (s : Bytes) (pred : UInt8 → Bool) (f : Nat → UInt8 → Nat) (h0 : pred 0 = false) :
    ∀ (fuel pos acc : Nat), pos < s.length → s.length ≤ pos + fuel →
      Safe (scan s pred f fuel pos acc) (fun r => pos < r.1 ∧ r.1 ≤ s.length) := by
  intro fuel
  induction fuel with
  | zero => intro pos acc h1 h2; omega
  | succ fuel ih =>
    intro pos acc h1 h2
    unfold scan
    rw [rd_eq (by omega : pos + 1 ≤ s.length)]
    simp only [pure_bind]
    split
    · rename_i hp
      have hne : charAt s (pos + 1) ≠ 0 := by intro h; rw [h, h0] at hp; exact absurd hp (by simp)
      have := charAt_lt hne
      refine (ih (pos + 1) _ this (by omega)).mono ?_
      intro r hr; exact ⟨by omega, hr.2⟩
    · exact Safe.pure ⟨by simp, by simp; omega⟩

theorem isStar_zero : isStar 0 = false := by decide
theorem isDigit_zero : Bytes.isDigit 0 = false := by decide

theorem skipSpace_safe (s : Bytes) :
    ∀ (fuel pos : Nat), pos ≤ s.length → s.length < pos + fuel →
      Safe (skipSpace s fuel pos) (fun p => pos ≤ p ∧ p ≤ s.length ∧
        ∀ i, pos ≤ i → i < p → Bytes.isSpace (charAt s i) = true) := by
  intro fuel
  induction fuel with
  | zero => intro pos h1 h2; omega
  | succ fuel ih =>
    intro pos h1 h2
    unfold skipSpace
    rw [rd_eq h1]
    simp only [pure_bind]
    split
    · rename_i hp
      have hne : charAt s pos ≠ 0 := by
        intro h; rw [h] at hp; exact absurd hp (by decide)
      have := charAt_lt hne
      refine (ih (pos + 1) (by omega) (by omega)).mono ?_
      intro p ⟨hp1, hp2, hp3⟩
      refine ⟨by omega, hp2, ?_⟩
      intro i hi1 hi2
      by_cases hi : i = pos
      · subst hi; exact hp
      · exact hp3 i (by omega) hi2
    · exact Safe.pure ⟨Nat.le_refl _, h1, by intro i h1 h2; omega⟩

/-! ### irc_pton_ip4 -/

theorem ne_zero_of_beq {c : UInt8} {k : UInt8} (h : (c == k) = true) (hk : k ≠ 0) : c ≠ 0 := by
  have : c = k := by simpa using h
  rw [this]; exact hk

theorem ip4Loop_safe (s : Bytes) (st : Nat) (wb tr : Bool) :
    ∀ (fuel pos dots part ip : Nat), st + pos ≤ s.length → s.length < st + pos + fuel →
      Safe (ip4Loop s st wb tr fuel pos dots part ip)
        (fun r => ∀ x, r = some x → st + x.len ≤ s.length) := by
  intro fuel
  induction fuel with
  | zero => intro pos dots part ip h1 h2; omega
  | succ fuel ih =>
    intro pos dots part ip h1 h2
    unfold ip4Loop
    rw [rd_eq h1]
    simp only [pure_bind]
    split
    · -- '.'
      rename_i hc
      have hlt := charAt_lt (ne_zero_of_beq hc (by decide))
      rw [rd_eq (by omega : st + (pos + 1) ≤ s.length)]
      simp only [pure_bind]
      split
      · exact Safe.pure (by intro x hx; cases hx)
      · split
        · rename_i hc1
          have hlt1 := charAt_lt (ne_zero_of_beq hc1 (by decide))
          refine Safe.bind (scan_safe s isStar keep isStar_zero _ _ _ hlt1 (by omega)) ?_
          rintro ⟨p, acc⟩ ⟨hp1, hp2⟩
          simp only at hp1 hp2
          simp only
          have hp : st + (p - st) = p := by omega
          rw [hp, rd_eq hp2]
          simp only [pure_bind]
          split
          · exact Safe.pure (by intro x hx; cases hx)
          · refine Safe.pure ?_
            intro x hx
            cases hx
            simp only; omega
        · exact ih _ _ _ _ (by omega) (by omega)
    · split
      · -- '/'
        rename_i _ hc
        have hlt := charAt_lt (ne_zero_of_beq hc (by decide))
        split
        · refine Safe.pure ?_
          intro x hx; cases hx; simpa using h1
        · split
          · exact Safe.pure (by intro x hx; cases hx)
          · rw [rd_eq (by omega : st + pos + 1 ≤ s.length)]
            simp only [pure_bind]
            split
            · exact Safe.pure (by intro x hx; cases hx)
            · refine Safe.bind (scan_safe s Bytes.isDigit decStep isDigit_zero _ _ _ hlt (by omega)) ?_
              rintro ⟨p, acc⟩ ⟨hp1, hp2⟩
              simp only at hp1 hp2
              simp only
              split
              · exact Safe.pure (by intro x hx; cases hx)
              · refine Safe.pure ?_
                intro x hx; cases hx
                simp only; omega
      · split
        · -- digit
          rename_i _ _ hc
          have hne : charAt s (st + pos) ≠ 0 := by
            intro h; rw [h] at hc; exact absurd hc (by decide)
          have hlt := charAt_lt hne
          split
          · exact Safe.pure (by intro x hx; cases hx)
          · exact ih _ _ _ _ (by omega) (by omega)
        · split
          · exact Safe.pure (by intro x hx; cases hx)
          · refine Safe.pure ?_
            intro x hx; cases hx; simpa using h1

theorem ptonIp4_safe (s : Bytes) (st : Nat) (wb tr : Bool) (h : st ≤ s.length) :
    Safe (ptonIp4 s st wb tr) (fun r => ∀ x, r = some x → st + x.len ≤ s.length) := by
  unfold ptonIp4
  rw [rd_eq h]
  simp only [pure_bind]
  split
  · exact Safe.pure (by intro x hx; cases hx)
  · exact ip4Loop_safe s st wb tr _ 0 0 0 0 (by omega) (by omega)

/-! ### the IPv6 loop -/

theorem setG_eq {a : Addr} {i v : Nat} {site : String} (h : i < 8) :
    setG a i v site = pure (a.set i (BitVec.ofNat 16 v)) := by
  simp [setG, h]

theorem getG_eq {a : Addr} {i : Nat} {site : String} (h : i < 8) : getG a i site = pure a[i] := by
  simp [getG, h]

/-- loop invariant of the IPv6 loop (`pos0` = position after the leading blanks) -/
structure Inv (s : Bytes) (pos0 : Nat) (st : V6) : Prop where
  pos_le : st.pos ≤ s.length
  ii_le : st.ii ≤ 8
  cpos : st.cpos = 8 ∨ st.cpos ≤ st.ii
  ps : ∀ p, st.partStart = some p → p ≤ s.length
  hexrun : st.partStart = none →
    pos0 ≤ st.pos ∧ ∀ i, pos0 ≤ i → i < st.pos → isHexDigit (charAt s i) = true

/-- what `finishShift` and the tail need from the loop's result -/
def OutOK (s : Bytes) : V6Out → Prop
  | .finish st => st.pos ≤ s.length ∧ st.ii ≤ 8 ∧ (st.cpos = 8 ∨ st.cpos ≤ st.ii)
  | _ => True

/-- facts established before the loop: only blanks before `pos0`; a colon before every dot -/
structure Ctx (s : Bytes) (pos0 : Nat) : Prop where
  spaces : ∀ i, i < pos0 → Bytes.isSpace (charAt s i) = true
  colonFirst : ∀ d, d < s.length → charAt s d = 46 → ∃ c, c < d ∧ charAt s c = 58

/-- the `.` case never sees a NULL `part_start` -/
theorem partStart_ne_none {s : Bytes} {pos0 : Nat} {st : V6} (ctx : Ctx s pos0) (inv : Inv s pos0 st)
    (hdot : charAt s st.pos = 46) : st.partStart ≠ none := by
  intro hnone
  obtain ⟨h0, hhex⟩ := inv.hexrun hnone
  have hlt : st.pos < s.length := charAt_lt (by rw [hdot]; decide)
  obtain ⟨c, hc1, hc2⟩ := ctx.colonFirst st.pos hlt hdot
  by_cases hc : c < pos0
  · have := ctx.spaces c hc
    rw [hc2] at this; exact absurd this (by decide)
  · have := hhex c (by omega) hc1
    rw [hc2] at this; exact absurd this (by decide)

theorem isHexDigit_zero : isHexDigit 0 = false := by decide

theorem skipSecondColon_safe (fx : Bool) (s : Bytes) (ii pos : Nat) (h : pos < s.length) :
    Safe (skipSecondColon fx s ii pos) (fun p => pos ≤ p ∧ p ≤ s.length) := by
  unfold skipSecondColon
  split
  · rw [rd_eq (by omega : pos + 1 ≤ s.length)]
    simp only [pure_bind]
    split
    · exact Safe.pure ⟨by omega, by omega⟩
    · exact Safe.pure ⟨Nat.le_refl _, by omega⟩
  · exact Safe.pure ⟨Nat.le_refl _, by omega⟩

theorem skipSecondColon_ne7 (fx : Bool) (s : Bytes) (ii pos : Nat) (h : ii ≠ 7) :
    skipSecondColon fx s ii pos = pure pos := by
  unfold skipSecondColon
  have : (fx && ii == 7) = false := by simp [h]
  simp [this]

theorem v6Loop_safe (fx : Bool) (s : Bytes) (pos0 : Nat) (wb tr : Bool) (ctx : Ctx s pos0) :
    ∀ (fuel : Nat) (st : V6), Inv s pos0 st → s.length < st.pos + fuel →
      Safe (v6Loop fx s wb tr fuel st) (OutOK s) := by
  intro fuel
  induction fuel with
  | zero => intro st inv h; have := inv.pos_le; omega
  | succ fuel ih =>
    intro st inv hfuel
    unfold v6Loop
    split
    · exact Safe.pure ⟨inv.pos_le, inv.ii_le, inv.cpos⟩
    · rename_i hii
      have hii8 : st.ii < 8 := by omega
      rw [rd_eq inv.pos_le]
      simp only [pure_bind]
      split
      · -- hex digit
        rename_i hc
        have hne : charAt s st.pos ≠ 0 := by
          intro h; rw [h] at hc; exact absurd hc (by decide)
        have hlt := charAt_lt hne
        split
        · exact Safe.pure trivial
        · refine ih _ ⟨hlt, inv.ii_le, inv.cpos, inv.ps, ?_⟩ (by simp; omega)
          intro hn
          obtain ⟨h0, hhex⟩ := inv.hexrun hn
          refine ⟨by simp; omega, ?_⟩
          intro i hi1 hi2
          by_cases hi : i = st.pos
          · subst hi; exact hc
          · exact hhex i hi1 (by simp at hi2; omega)
      · split
        · -- ':'
          rename_i _ hc
          have hlt := charAt_lt (ne_zero_of_beq hc (by decide))
          rw [rd_eq (by omega : st.pos + 1 ≤ s.length)]
          simp only [pure_bind]
          split
          · exact Safe.pure trivial
          · rw [setG_eq hii8]
            simp only [pure_bind]
            split
            · rename_i hc58
              have hlt' : st.pos + 1 < s.length := charAt_lt (ne_zero_of_beq hc58 (by decide))
              split
              · exact Safe.pure trivial
              · refine Safe.bind (skipSecondColon_safe fx s (st.ii + 1) (st.pos + 1) hlt') ?_
                intro p ⟨hp1, hp2⟩
                refine ih _ ⟨hp2, by simp; omega, Or.inr (by simp), ?_, ?_⟩ (by simp; omega)
                · intro q hq; simp at hq; omega
                · intro hn; simp at hn
            · refine ih _ ⟨hlt, by simp; omega, ?_, ?_, ?_⟩ (by simp; omega)
              · rcases inv.cpos with h | h
                · exact Or.inl h
                · exact Or.inr (by simp; omega)
              · intro p hp; simp at hp; omega
              · intro hn; simp at hn
        · split
          · -- '.'
            rename_i _ _ hc
            have hdot : charAt s st.pos = 46 := by simpa using hc
            have hps := partStart_ne_none ctx inv hdot
            split
            · rename_i hnone; exact absurd hnone hps
            · rename_i ps hsome
              have hpsle := inv.ps ps hsome
              refine Safe.bind (ptonIp4_safe s ps wb tr hpsle) ?_
              intro r hr
              split
              · exact Safe.pure trivial
              · rename_i r'
                split
                · exact Safe.pure trivial
                · rename_i hcond
                  have hcond' : ¬ (st.ii > 6) := by
                    intro h; apply hcond; simp [h]
                  rw [setG_eq (by omega : st.ii < 8)]
                  simp only [pure_bind]
                  rw [setG_eq (by omega : st.ii + 1 < 8)]
                  simp only [pure_bind]
                  refine Safe.pure ⟨?_, ?_, ?_⟩
                  · exact hr r' rfl
                  · simp; omega
                  · rcases inv.cpos with h | h
                    · exact Or.inl h
                    · exact Or.inr (by simp; omega)
          · split
            · -- '/'
              rename_i _ _ _ hc
              have hlt := charAt_lt (ne_zero_of_beq hc (by decide))
              rw [setG_eq hii8]
              simp only [pure_bind]
              have hcp : st.cpos = 8 ∨ st.cpos ≤ st.ii + 1 := by
                rcases inv.cpos with h | h
                · exact Or.inl h
                · exact Or.inr (by omega)
              split
              · refine Safe.pure ?_
                split
                · exact ⟨inv.pos_le, by simp; omega, hcp⟩
                · trivial
              · rw [rd_eq (by show st.pos + 1 ≤ s.length; omega)]
                simp only [pure_bind]
                split
                · refine Safe.pure ?_
                  split
                  · exact ⟨inv.pos_le, by simp; omega, hcp⟩
                  · trivial
                · refine Safe.bind (scan_safe s Bytes.isDigit decStep isDigit_zero _ _ _ hlt (by omega)) ?_
                  rintro ⟨p, acc⟩ ⟨hp1, hp2⟩
                  simp only at hp1 hp2
                  simp only
                  split
                  · exact Safe.pure trivial
                  · exact Safe.pure ⟨hp2, by simp; omega, hcp⟩
            · split
              · -- '*'
                rename_i _ _ _ _ hc
                have hlt := charAt_lt (ne_zero_of_beq hc (by decide))
                refine Safe.bind (scan_safe s isStar keep isStar_zero _ _ _ hlt (by omega)) ?_
                rintro ⟨p, acc⟩ ⟨hp1, hp2⟩
                simp only at hp1 hp2
                simp only
                rw [rd_eq hp2]
                simp only [pure_bind]
                split
                · exact Safe.pure trivial
                · exact Safe.pure trivial
              · -- default
                rw [setG_eq hii8]
                simp only [pure_bind]
                split
                · exact Safe.pure trivial
                · refine Safe.pure ⟨inv.pos_le, by simp; omega, ?_⟩
                  rcases inv.cpos with h | h
                  · exact Or.inl h
                  · exact Or.inr (by simp; omega)

/-! ### before and after the loop -/

theorem v6Start_safe (s : Bytes) (pos0 : Nat) (h : pos0 ≤ s.length) :
    Safe (v6Start s pos0) (fun o => ∀ st, o = some st → Inv s pos0 st) := by
  unfold v6Start
  rw [rd_eq h]
  simp only [pure_bind]
  split
  · rename_i hc
    have hlt := charAt_lt (ne_zero_of_beq hc (by decide))
    rw [rd_eq (by omega : pos0 + 1 ≤ s.length)]
    simp only [pure_bind]
    split
    · exact Safe.pure (by intro st h; cases h)
    · rename_i hc1
      have hc1' : charAt s (pos0 + 1) = 58 := by simpa using hc1
      have hlt1 : pos0 + 1 < s.length := charAt_lt (by rw [hc1']; decide)
      rw [rd_eq (by omega : pos0 + 2 ≤ s.length)]
      simp only [pure_bind]
      split
      · exact Safe.pure (by intro st h; cases h)
      · refine Safe.pure ?_
        intro st hst
        cases hst
        exact ⟨by simp; omega, by simp, Or.inr (by simp), by intro p hp; simp at hp; omega,
               by intro hn; simp at hn⟩
  · refine Safe.pure ?_
    intro st hst
    cases hst
    exact ⟨h, by simp, Or.inl rfl, by intro p hp; simp at hp,
           by intro _; exact ⟨Nat.le_refl _, by intro i h1 h2; simp at h2; omega⟩⟩

theorem strchr_some {s : Bytes} {c : UInt8} {i : Nat} (h : strchr s c = some i) :
    i < s.length ∧ charAt s i = c ∧ ∀ j, j < i → charAt s j ≠ c := by
  unfold strchr at h
  rw [List.findIdx?_eq_some_iff_getElem] at h
  obtain ⟨hi, hc, hj⟩ := h
  refine ⟨hi, ?_, ?_⟩
  · rw [charAt_getElem hi]; simpa using hc
  · intro j hji
    have := hj j hji
    rw [charAt_getElem (by omega : j < s.length)]
    simpa using this

theorem strchr_none {s : Bytes} {c : UInt8} (h : strchr s c = none) :
    ∀ j, j < s.length → charAt s j ≠ c := by
  unfold strchr at h
  rw [List.findIdx?_eq_none_iff] at h
  intro j hj
  rw [charAt_getElem hj]
  have := h s[j] (List.getElem_mem hj)
  simpa using this

theorem colonFirst_of_isV6Text {s : Bytes} (h : isV6Text s = true) :
    ∀ d, d < s.length → charAt s d = 46 → ∃ c, c < d ∧ charAt s c = 58 := by
  intro d hd hdot
  unfold isV6Text at h
  split at h
  · rename_i c d0 hc hd0
    have hdc : d0 > c := by simpa using h
    obtain ⟨_, hc2, _⟩ := strchr_some hc
    obtain ⟨_, _, hd3⟩ := strchr_some hd0
    refine ⟨c, ?_, hc2⟩
    by_cases hlt : d < d0
    · exact absurd hdot (hd3 d hlt)
    · omega
  · rename_i c hc hd0
    exact absurd hdot (strchr_none hd0 d hd)
  · cases h

theorem foldlM_safe {α β : Type} (f : β → α → M β) (l : List α)
    (h : ∀ b x, x ∈ l → Safe (f b x) (fun _ => True)) :
    ∀ init, Safe (l.foldlM f init) (fun _ => True) := by
  induction l with
  | nil => intro init; exact Safe.pure trivial
  | cons x xs ih =>
    intro init
    rw [List.foldlM_cons]
    refine Safe.bind (h init x (by simp)) ?_
    intro b _
    exact ih (fun b y hy => h b y (by simp [hy])) b

theorem finishShift_safe (addr : Addr) (ii cpos : Nat) (hii : ii ≤ 8) (hc : cpos = 8 ∨ cpos ≤ ii) :
    Safe (finishShift addr ii cpos) (fun _ => True) := by
  unfold finishShift
  split
  · rename_i hlt
    have hci : cpos ≤ ii := by omega
    refine Safe.bind (foldlM_safe _ _ ?_ addr) ?_
    · intro a jj hjj
      have hjj' : jj < ii - cpos := by
        have := List.mem_range.mp hjj
        unfold usub at this; omega
      have h1 : usub (usub ii jj) 1 < 8 := by unfold usub; omega
      have h2 : usub 7 jj < 8 := by unfold usub; omega
      rw [getG_eq h1]
      simp only [pure_bind]
      rw [setG_eq h2]
      exact Safe.pure trivial
    · intro a _
      refine foldlM_safe _ _ ?_ a
      intro b jj hjj
      have hjj' : jj < 8 - ii := by
        have := List.mem_range.mp hjj
        unfold usub at this; omega
      have h1 : u32 (cpos + jj) < 8 := by unfold u32; omega
      rw [setG_eq h1]
      exact Safe.pure trivial
  · exact Safe.pure trivial

theorem ptonTail_safe (s : Bytes) (tr : Bool) (pos : Nat) (addr : Addr) (bits : Option Nat)
    (u : Bool) (h : pos ≤ s.length) : Safe (ptonTail s tr pos addr bits u) (fun _ => True) := by
  unfold ptonTail
  rw [rd_eq h]
  simp only [pure_bind]
  split <;> exact Safe.pure trivial

/-- **Memory safety of the parser**: for every input and both flags the model of `irc_pton`
    returns normally: no out-of-bounds read of the string, no out-of-bounds group access, no
    NULL `part_start` in the `.` case, no loop runs out of fuel. -/
theorem pton_safe' (fx : Bool) (input : Bytes) (wb tr : Bool) : Safe (ptonWith fx input wb tr) (fun _ => True) := by
  unfold ptonWith
  refine Safe.bind (skipSpace_safe input _ 0 (by omega) (by omega)) ?_
  intro pos0 ⟨_, hle, hsp⟩
  split
  · rename_i hv6
    have ctx : Ctx input pos0 := ⟨fun i hi => hsp i (by omega) hi, colonFirst_of_isV6Text hv6⟩
    refine Safe.bind (v6Start_safe input pos0 hle) ?_
    intro o ho
    split
    · exact Safe.pure trivial
    · rename_i st0
      have inv := ho st0 rfl
      refine Safe.bind (v6Loop_safe fx input pos0 wb tr ctx _ st0 inv (by omega)) ?_
      intro out hout
      split
      · exact Safe.pure trivial
      · exact Safe.pure trivial
      · rename_i st
        obtain ⟨h1, h2, h3⟩ := hout
        refine Safe.bind (finishShift_safe st.addr st.ii st.cpos h2 h3) ?_
        intro a _
        exact ptonTail_safe _ _ _ _ _ _ h1
  · split
    · refine Safe.bind (ptonIp4_safe input pos0 wb tr hle) ?_
      intro r hr
      split
      · rename_i x
        have hx := hr x rfl
        simp only
        split
        · rw [setG_eq (by decide : 5 < 8)]
          simp only [pure_bind]
          rw [setG_eq (by decide : 6 < 8)]
          simp only [pure_bind]
          rw [setG_eq (by decide : 7 < 8)]
          simp only [pure_bind]
          exact ptonTail_safe _ _ _ _ _ _ hx
        · exact ptonTail_safe _ _ _ _ _ _ hx
      · split
        · rw [setG_eq (by decide : 5 < 8)]
          simp only [pure_bind]
          exact ptonTail_safe _ _ _ _ _ _ hle
        · exact ptonTail_safe _ _ _ _ _ _ hle
    · rw [rd_eq hle]
      simp only [pure_bind]
      split
      · rename_i hc
        have hlt := charAt_lt (ne_zero_of_beq hc (by decide))
        refine Safe.bind (scan_safe input isStar keep isStar_zero _ _ _ hlt (by omega)) ?_
        rintro ⟨p, acc⟩ ⟨hp1, hp2⟩
        exact ptonTail_safe _ _ _ _ _ _ hp2
      · exact ptonTail_safe _ _ _ _ _ _ hle

theorem pton_safe (fx : Bool) (input : Bytes) (wantBits allowTrailing : Bool) :
    (ptonWith fx input wantBits allowTrailing).isOk = true :=
  (pton_safe' fx input wantBits allowTrailing).isOk

/-! ### where the uninitialised `ip4` can be read -/

theorem ptonTail_uninit (s : Bytes) (tr : Bool) (pos : Nat) (addr : Addr) (bits : Option Nat)
    (u : Bool) (h : pos ≤ s.length) : Safe (ptonTail s tr pos addr bits u) (fun r => r.uninit = u) := by
  unfold ptonTail
  rw [rd_eq h]
  simp only [pure_bind]
  split <;> exact Safe.pure rfl

/-- The result of `irc_pton` depends on the uninitialised local `ip4` only when the input
    starts with a blank (the pinned code then uses `ip4` although `irc_pton_ip4` failed). -/
theorem pton_uninit_only_after_blank (fx : Bool) (input : Bytes) (wb tr : Bool) :
    Safe (ptonWith fx input wb tr) (fun r => r.uninit = true → Bytes.isSpace (charAt input 0) = true) := by
  have ff : ∀ {r : PtonRes}, r.uninit = false → (r.uninit = true → Bytes.isSpace (charAt input 0) = true) := by
    intro r h1 h2; rw [h1] at h2; cases h2
  unfold ptonWith
  refine Safe.bind (skipSpace_safe input _ 0 (by omega) (by omega)) ?_
  intro pos0 ⟨_, hle, hsp⟩
  split
  · rename_i hv6
    have ctx : Ctx input pos0 := ⟨fun i hi => hsp i (by omega) hi, colonFirst_of_isV6Text hv6⟩
    refine Safe.bind (v6Start_safe input pos0 hle) ?_
    intro o ho
    split
    · exact Safe.pure (ff rfl)
    · rename_i st0
      have inv := ho st0 rfl
      refine Safe.bind (v6Loop_safe fx input pos0 wb tr ctx _ st0 inv (by omega)) ?_
      intro out hout
      split
      · exact Safe.pure (ff rfl)
      · exact Safe.pure (ff rfl)
      · rename_i st
        obtain ⟨h1, h2, h3⟩ := hout
        refine Safe.bind (finishShift_safe st.addr st.ii st.cpos h2 h3) ?_
        intro a _
        exact (ptonTail_uninit _ _ _ _ _ _ h1).mono (fun r hr => ff hr)
  · split
    · refine Safe.bind (ptonIp4_safe input pos0 wb tr hle) ?_
      intro r hr
      split
      · rename_i x
        have hx := hr x rfl
        simp only
        split
        · rw [setG_eq (by decide : 5 < 8)]
          simp only [pure_bind]
          rw [setG_eq (by decide : 6 < 8)]
          simp only [pure_bind]
          rw [setG_eq (by decide : 7 < 8)]
          simp only [pure_bind]
          exact (ptonTail_uninit _ _ _ _ _ _ hx).mono (fun r hr => ff hr)
        · exact (ptonTail_uninit _ _ _ _ _ _ hx).mono (fun r hr => ff hr)
      · split
        · rename_i hpos
          have hp0 : 0 < pos0 := by
            have : pos0 ≠ 0 := by simpa using hpos
            omega
          rw [setG_eq (by decide : 5 < 8)]
          simp only [pure_bind]
          exact (ptonTail_uninit _ _ _ _ _ _ hle).mono (fun r _ _ => hsp 0 (by omega) hp0)
        · exact (ptonTail_uninit _ _ _ _ _ _ hle).mono (fun r hr => ff hr)
    · rw [rd_eq hle]
      simp only [pure_bind]
      split
      · rename_i hc
        have hlt := charAt_lt (ne_zero_of_beq hc (by decide))
        refine Safe.bind (scan_safe input isStar keep isStar_zero _ _ _ hlt (by omega)) ?_
        rintro ⟨p, acc⟩ ⟨hp1, hp2⟩
        exact (ptonTail_uninit _ _ _ _ _ _ hp2).mono (fun r hr => ff hr)
      · exact (ptonTail_uninit _ _ _ _ _ _ hle).mono (fun r hr => ff hr)

end Iauthd.Addr
