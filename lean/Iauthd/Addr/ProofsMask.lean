import Iauthd.Addr.Spec
/-
  C13, first half: `irc_check_mask` is exactly "the leading min(n,128) bits are equal",
  for every address, mask and (unbounded) length.
-/
set_option linter.unusedVariables false
namespace Iauthd.Addr

/-- value of a list of groups, most significant first (`val128` on lists) -/
def valL (gs : List Group) : Nat := gs.foldl (fun acc g => acc * 65536 + g.toNat) 0

theorem foldl_val (gs : List Group) (acc : Nat) :
    gs.foldl (fun acc g => acc * 65536 + g.toNat) acc = acc * 2 ^ (16 * gs.length) + valL gs := by
  induction gs generalizing acc with
  | nil => simp [valL]
  | cons g gs ih =>
    simp only [List.foldl_cons, List.length_cons, valL]
    rw [ih, ih (0 * 65536 + g.toNat)]
    have : (2:Nat) ^ (16 * (gs.length + 1)) = 65536 * 2 ^ (16 * gs.length) := by
      rw [Nat.mul_add, Nat.pow_add]; simp [Nat.mul_comm]
    rw [this]
    simp [Nat.add_mul, Nat.mul_assoc, Nat.add_assoc]

theorem valL_cons (g : Group) (gs : List Group) :
    valL (g :: gs) = g.toNat * 2 ^ (16 * gs.length) + valL gs := by
  simp only [valL, List.foldl_cons]
  rw [foldl_val]; simp [valL]

theorem valL_lt (gs : List Group) : valL gs < 2 ^ (16 * gs.length) := by
  induction gs with
  | nil => simp [valL]
  | cons g gs ih =>
    rw [valL_cons]
    have hg : g.toNat < 65536 := g.isLt
    have : (2:Nat) ^ (16 * (gs.length + 1)) = 65536 * 2 ^ (16 * gs.length) := by
      rw [Nat.mul_add, Nat.pow_add]; simp [Nat.mul_comm]
    simp only [List.length_cons]
    rw [this]
    calc g.toNat * 2 ^ (16 * gs.length) + valL gs
        < g.toNat * 2 ^ (16 * gs.length) + 2 ^ (16 * gs.length) := by omega
      _ = (g.toNat + 1) * 2 ^ (16 * gs.length) := by rw [Nat.add_mul]; simp
      _ ≤ 65536 * 2 ^ (16 * gs.length) := Nat.mul_le_mul_right _ (by omega)

theorem div_low {a A W e : Nat} (hA : A < 2 ^ W) (he : e ≤ W) :
    (a * 2 ^ W + A) / 2 ^ e = a * 2 ^ (W - e) + A / 2 ^ e := by
  have hW : (2:Nat) ^ W = 2 ^ (W - e) * 2 ^ e := by rw [← Nat.pow_add]; congr 1; omega
  rw [hW, ← Nat.mul_assoc, Nat.add_comm, Nat.add_mul_div_right _ _ (Nat.two_pow_pos e), Nat.add_comm]

theorem div_low_lt {A W e : Nat} (hA : A < 2 ^ W) (he : e ≤ W) : A / 2 ^ e < 2 ^ (W - e) := by
  rw [Nat.div_lt_iff_lt_mul (Nat.two_pow_pos e), ← Nat.pow_add]
  have : W - e + e = W := by omega
  rw [this]; exact hA

theorem div_high {a A W e : Nat} (hA : A < 2 ^ W) (he : W ≤ e) :
    (a * 2 ^ W + A) / 2 ^ e = a / 2 ^ (e - W) := by
  have hE : (2:Nat) ^ e = 2 ^ W * 2 ^ (e - W) := by rw [← Nat.pow_add]; congr 1; omega
  rw [hE, ← Nat.div_div_eq_div_mul]
  congr 1
  rw [Nat.add_comm, Nat.add_mul_div_right _ _ (Nat.two_pow_pos W), Nat.div_eq_of_lt hA]; simp

theorem split_eq {x y r s P : Nat} (hr : r < P) (hs : s < P) :
    x * P + r = y * P + s ↔ x = y ∧ r = s := by
  constructor
  · intro h
    have hP : 0 < P := by omega
    have h1 : (x * P + r) / P = x := by
      rw [Nat.add_comm, Nat.add_mul_div_right _ _ hP, Nat.div_eq_of_lt hr]; simp
    have h2 : (y * P + s) / P = y := by
      rw [Nat.add_comm, Nat.add_mul_div_right _ _ hP, Nat.div_eq_of_lt hs]; simp
    have hxy : x = y := by rw [← h1, ← h2, h]
    subst hxy
    exact ⟨rfl, by omega⟩
  · rintro ⟨rfl, rfl⟩; rfl


theorem group_shift (a m : Group) (k : Nat) :
    ((a ^^^ m) >>> k) = 0 ↔ a.toNat / 2 ^ k = m.toNat / 2 ^ k := by
  rw [BitVec.ushiftRight_xor_distrib]
  have hx : (a >>> k ^^^ m >>> k = 0) ↔ a >>> k = m >>> k := by
    exact BitVec.xor_eq_zero_iff (x := a >>> k) (y := m >>> k)
  rw [hx]
  constructor
  · intro h
    have := congrArg BitVec.toNat h
    simpa [BitVec.toNat_ushiftRight, Nat.shiftRight_eq_div_pow] using this
  · intro h
    apply BitVec.eq_of_toNat_eq
    simpa [BitVec.toNat_ushiftRight, Nat.shiftRight_eq_div_pow] using h

theorem checkMaskL_spec (as ms : List Group) (n : Nat) (hlen : as.length = ms.length) :
    checkMaskL as ms n = true ↔
      valL as / 2 ^ (16 * as.length - min n (16 * as.length))
        = valL ms / 2 ^ (16 * as.length - min n (16 * as.length)) := by
  induction as generalizing ms n with
  | nil =>
    cases ms with
    | nil => simp [checkMaskL, valL]
    | cons _ _ => simp at hlen
  | cons a as ih =>
    cases ms with
    | nil => simp at hlen
    | cons m ms =>
      have hl : as.length = ms.length := by simpa using hlen
      have hA := valL_lt as
      have hM := valL_lt ms
      rw [← hl] at hM
      rw [valL_cons, valL_cons, ← hl]
      simp only [List.length_cons]
      generalize hW : 16 * as.length = W at *
      have hW1 : 16 * (as.length + 1) = W + 16 := by omega
      rw [hW1]
      unfold checkMaskL
      by_cases hn : n > 16
      · simp only [hn, ↓reduceIte]
        have hmin : W + 16 - min n (W + 16) = W - min (n - 16) W := by omega
        rw [hmin]
        have he : W - min (n - 16) W ≤ W := by omega
        rw [div_low hA he, div_low hM he, split_eq (div_low_lt hA he) (div_low_lt hM he)]
        have := ih ms (n - 16) hl
        by_cases ham : a = m
        · subst ham; simp [this]
        · have : a.toNat ≠ m.toNat := fun h => ham (BitVec.eq_of_toNat_eq h)
          simp [ham, this]
      · simp only [hn, ↓reduceIte]
        have hmin : W + 16 - min n (W + 16) = W + (16 - n) := by omega
        rw [hmin]
        have he : W ≤ W + (16 - n) := by omega
        rw [div_high hA he, div_high hM he]
        have hk : W + (16 - n) - W = 16 - n := by omega
        rw [hk]
        by_cases h0 : n = 0
        · subst h0
          have ha : a.toNat / 2 ^ 16 = 0 := Nat.div_eq_of_lt a.isLt
          have hm : m.toNat / 2 ^ 16 = 0 := Nat.div_eq_of_lt m.isLt
          simp [ha, hm]
        · have hpos : n > 0 := by omega
          rw [← group_shift]
          simp [hpos]

theorem val128_eq (a : Addr) : val128 a = valL a.toList := rfl

/-- `irc_check_mask(a, m, n)` succeeds exactly when the top `min n 128` bits of the two
    128-bit values are equal — all addresses, all masks, every `n`. -/
theorem mask_spec (a m : Addr) (n : Nat) :
    checkMask a m n = true ↔
      val128 a / 2 ^ (128 - min n 128) = val128 m / 2 ^ (128 - min n 128) := by
  have h := checkMaskL_spec a.toList m.toList n (by simp)
  simpa [checkMask, val128_eq] using h

/-- the same, as an equation between the model and the spec predicate the judge uses -/
theorem mask_spec_bool (a m : Addr) (n : Nat) : checkMask a m n = prefixEq a m n := by
  have h := mask_spec a m n
  unfold prefixEq
  cases hc : checkMask a m n
  · have : ¬ (val128 a / 2 ^ (128 - min n 128) = val128 m / 2 ^ (128 - min n 128)) := by
      rw [← h, hc]; simp
    simp [this]
  · have := h.mp hc
    simp [this]

end Iauthd.Addr
