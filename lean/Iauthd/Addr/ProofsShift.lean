import Iauthd.Addr.ProofsSafe
/-
  The `finish:` block of `irc_pton` (shift the groups after "::" to the top, zero the gap),
  characterised group by group for every `(ii, cpos)`.
-/
set_option linter.unusedVariables false
namespace Iauthd.Addr

/-- group `k` of an address (0 outside 0..7) -/
def gAt (a : Addr) (k : Nat) : Group := a[k]?.getD 0

theorem gAt_set (a : Addr) (i : Nat) (v : Group) (h : i < 8) (k : Nat) :
    gAt (a.set i v h) k = if k = i then v else gAt a k := by
  unfold gAt
  rw [Vector.getElem?_set]
  by_cases hk : k = i
  · subst hk; simp
  · have : ¬ i = k := fun e => hk e.symm
    simp [this, hk]

theorem gAt_getElem (a : Addr) (k : Nat) (h : k < 8) : a[k] = gAt a k := by
  simp [gAt, Vector.getElem?_eq_getElem h]

theorem addr_ext_gAt (a b : Addr) (h : ∀ k, k < 8 → gAt a k = gAt b k) : a = b := by
  apply Vector.ext
  intro i hi
  rw [gAt_getElem a i hi, gAt_getElem b i hi]
  exact h i hi

theorem ofNat_toNat16 (v : Group) : BitVec.ofNat 16 v.toNat = v := by
  simp [BitVec.ofNat_toNat]

/-- first loop of `finish:` after `n` iterations -/
theorem shift_loop (addr : Addr) (ii : Nat) (hii : ii ≤ 8) :
    ∀ n, n ≤ ii →
      ∃ r, (List.range n).foldlM (fun a jj => do
              let v ← getG a (usub (usub ii jj) 1) "irc_pton shift read"
              setG a (usub 7 jj) v.toNat "irc_pton shift write") addr = Except.ok r ∧
        ∀ k, k < 8 → gAt r k = if 8 - n ≤ k then gAt addr (k - (8 - ii)) else gAt addr k := by
  intro n
  induction n with
  | zero =>
    intro _
    refine ⟨addr, rfl, ?_⟩
    intro k hk
    have h3 : ¬ (8 - 0 ≤ k) := by omega
    rw [if_neg h3]
  | succ n ih =>
    intro hn
    obtain ⟨r, hr, hspec⟩ := ih (by omega)
    have h1 : usub (usub ii n) 1 = ii - n - 1 := by unfold usub; omega
    have h2 : usub 7 n = 7 - n := by unfold usub; omega
    have hi1 : ii - n - 1 < 8 := by omega
    have hi2 : 7 - n < 8 := by omega
    rw [List.range_succ, List.foldlM_append, hr]
    simp only [List.foldlM_cons, List.foldlM_nil, h1, h2, getG_eq hi1, setG_eq hi2, ofNat_toNat16]
    refine ⟨_, rfl, ?_⟩
    intro k hk
    rw [gAt_set, gAt_getElem r _ hi1, hspec _ hi1]
    have hno : ¬ (8 - n ≤ ii - n - 1) := by omega
    rw [if_neg hno]
    by_cases hk7 : k = 7 - n
    · subst hk7
      have h3 : 8 - (n + 1) ≤ 7 - n := by omega
      have h4 : 7 - n - (8 - ii) = ii - n - 1 := by omega
      rw [if_pos rfl, if_pos h3, h4]
    · rw [if_neg hk7, hspec k hk]
      by_cases hc : 8 - n ≤ k
      · have h3 : 8 - (n + 1) ≤ k := by omega
        rw [if_pos hc, if_pos h3]
      · have h3 : ¬ (8 - (n + 1) ≤ k) := by omega
        rw [if_neg hc, if_neg h3]

/-- second loop of `finish:` after `m` iterations -/
theorem fill_loop (addr : Addr) (cpos : Nat) :
    ∀ m, cpos + m ≤ 8 →
      ∃ r, (List.range m).foldlM (fun a jj => setG a (u32 (cpos + jj)) 0 "irc_pton zero fill") addr
            = Except.ok r ∧
        ∀ k, k < 8 → gAt r k = if cpos ≤ k ∧ k < cpos + m then 0 else gAt addr k := by
  intro m
  induction m with
  | zero =>
    intro _
    refine ⟨addr, rfl, ?_⟩
    intro k hk
    have h3 : ¬ (cpos ≤ k ∧ k < cpos + 0) := by omega
    rw [if_neg h3]
  | succ m ih =>
    intro hm
    obtain ⟨r, hr, hspec⟩ := ih (by omega)
    have h1 : u32 (cpos + m) = cpos + m := by unfold u32; omega
    have hi : cpos + m < 8 := by omega
    rw [List.range_succ, List.foldlM_append, hr]
    simp only [List.foldlM_cons, List.foldlM_nil, h1, setG_eq hi]
    refine ⟨_, rfl, ?_⟩
    intro k hk
    rw [gAt_set]
    by_cases hkm : k = cpos + m
    · subst hkm
      have h3 : cpos ≤ cpos + m ∧ cpos + m < cpos + (m + 1) := by omega
      rw [if_pos rfl, if_pos h3]; rfl
    · rw [if_neg hkm, hspec k hk]
      by_cases hc : cpos ≤ k ∧ k < cpos + m
      · have h3 : cpos ≤ k ∧ k < cpos + (m + 1) := by omega
        rw [if_pos hc, if_pos h3]
      · have h3 : ¬ (cpos ≤ k ∧ k < cpos + (m + 1)) := by omega
        rw [if_neg hc, if_neg h3]

/-- **`finish:`** — groups below `cpos` stay, `8 - ii` zero groups are inserted, the groups
    `cpos .. ii-1` move to the top. -/
theorem finishShift_spec (addr : Addr) (ii cpos : Nat) (hc : cpos < 8) (hci : cpos ≤ ii) (hii : ii ≤ 8) :
    ∃ r, finishShift addr ii cpos = Except.ok r ∧
      ∀ k, k < 8 → gAt r k =
        if k < cpos then gAt addr k else if k < cpos + (8 - ii) then 0 else gAt addr (k - (8 - ii)) := by
  unfold finishShift
  simp only [hc, ↓reduceIte]
  have hu1 : usub ii cpos = ii - cpos := by unfold usub; omega
  have hu2 : usub 8 ii = 8 - ii := by unfold usub; omega
  obtain ⟨r1, hr1, hs1⟩ := shift_loop addr ii hii (ii - cpos) (by omega)
  obtain ⟨r2, hr2, hs2⟩ := fill_loop r1 cpos (8 - ii) (by omega)
  rw [hu1, hu2]
  refine ⟨r2, ?_, ?_⟩
  · rw [hr1]
    exact hr2
  · intro k hk
    rw [hs2 k hk]
    by_cases h1 : k < cpos
    · have h3 : ¬ (cpos ≤ k ∧ k < cpos + (8 - ii)) := by omega
      have h4 : ¬ (8 - (ii - cpos) ≤ k) := by omega
      rw [if_neg h3, if_pos h1, hs1 k hk, if_neg h4]
    · by_cases h2 : k < cpos + (8 - ii)
      · have h3 : cpos ≤ k ∧ k < cpos + (8 - ii) := by omega
        rw [if_pos h3, if_neg h1, if_pos h2]
      · have h3 : ¬ (cpos ≤ k ∧ k < cpos + (8 - ii)) := by omega
        have h4 : 8 - (ii - cpos) ≤ k := by omega
        rw [if_neg h3, if_neg h1, if_neg h2, hs1 k hk, if_pos h4]

theorem finishShift_none (addr : Addr) (ii : Nat) : finishShift addr ii 8 = Except.ok addr := by
  unfold finishShift
  simp
  rfl

end Iauthd.Addr
