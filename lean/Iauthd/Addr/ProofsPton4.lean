import Iauthd.Addr.ProofsPton
/-
  C12 (IPv4 branch) and C13 (documented IPv4 netmask texts): symbolic execution of
  `irc_pton_ip4` over dotted decimal texts.
-/
set_option linter.unusedVariables false
namespace Iauthd.Addr

/-! ### packing octets -/

theorem or_pack (hi lo i : Nat) (h : lo < 2 ^ i) : (hi * 2 ^ i) ||| lo = hi * 2 ^ i + lo := by
  rw [← Nat.shiftLeft_eq, ← Nat.shiftLeft_add_eq_or_of_lt h]

theorem shl4_vals (p : Nat) (hp : p < 256) :
    shl4 p 0 = p * 16777216 ∧ shl4 p 1 = p * 65536 ∧ shl4 p 2 = p * 256 ∧ shl4 p 3 = p := by
  unfold shl4 u32
  simp only [Nat.shiftLeft_eq]
  refine ⟨?_, ?_, ?_, ?_⟩ <;> simp <;> omega

theorem or4 (o1 o2 o3 o4 : Nat) (h1 : o1 < 256) (h2 : o2 < 256) (h3 : o3 < 256) (h4 : o4 < 256) :
    (((0 ||| o1 * 16777216) ||| o2 * 65536) ||| o3 * 256) ||| o4 = ((o1 * 256 + o2) * 256 + o3) * 256 + o4 := by
  rw [Nat.zero_or]
  have e1 : o1 * 16777216 ||| o2 * 65536 = (o1 * 256 + o2) * 65536 := by
    have := or_pack o1 (o2 * 65536) 24 (by omega)
    simp only [Nat.reducePow] at this
    rw [this]; omega
  have e2 : (o1 * 256 + o2) * 65536 ||| o3 * 256 = ((o1 * 256 + o2) * 256 + o3) * 256 := by
    have := or_pack (o1 * 256 + o2) (o3 * 256) 16 (by omega)
    simp only [Nat.reducePow] at this
    rw [this]; omega
  have e3 : ((o1 * 256 + o2) * 256 + o3) * 256 ||| o4 = ((o1 * 256 + o2) * 256 + o3) * 256 + o4 := by
    have := or_pack ((o1 * 256 + o2) * 256 + o3) o4 8 (by omega)
    simpa using this
  rw [e1, e2, e3]

/-! ### macro steps of the dotted-quad loop -/

theorem digitChar_tests {d : Nat} (hd : d < 10) :
    (digitChar d == 46) = false ∧ (digitChar d == 47) = false ∧ (digitChar d == 42) = false ∧
      Bytes.isDigit (digitChar d) = true ∧ (digitChar d).toNat - 48 = d ∧ Bytes.isSpace (digitChar d) = false ∧
      digitChar d ≠ 58 := by
  have : ∀ d : Fin 10, (digitChar d.val == 46) = false ∧ (digitChar d.val == 47) = false ∧
      (digitChar d.val == 42) = false ∧ Bytes.isDigit (digitChar d.val) = true ∧
      (digitChar d.val).toNat - 48 = d.val ∧ Bytes.isSpace (digitChar d.val) = false ∧ digitChar d.val ≠ 58 := by
    decide
  exact this ⟨d, hd⟩

/-- one decimal digit -/
theorem ip4_digit (s : Bytes) (st : Nat) (wb tr : Bool) (fuel pos dots part ip d : Nat) (tail : Bytes)
    (hd : s.drop (st + pos) = digitChar d :: tail) (hd10 : d < 10) (hp : part * 10 + d ≤ 255) :
    ip4Loop s st wb tr (fuel + 1) pos dots part ip = ip4Loop s st wb tr fuel (pos + 1) dots (part * 10 + d) ip := by
  rw [ip4Loop]
  obtain ⟨t1, t2, _, t4, t5, _, _⟩ := digitChar_tests hd10
  have : ¬ (part * 10 + d > 255) := by omega
  simp only [rd_drop_cons hd, pure_bind, t1, t2, t4, t5, Bool.false_eq_true, ↓reduceIte, this]

/-- the digits of one printed octet -/
theorem ip4_octet (s : Bytes) (st : Nat) (wb tr : Bool) (fuel pos dots ip n : Nat) (tail : Bytes)
    (hd : s.drop (st + pos) = decOctet n ++ tail) (hn : n < 256) :
    ip4Loop s st wb tr (fuel + (decOctet n).length) pos dots 0 ip =
      ip4Loop s st wb tr fuel (pos + (decOctet n).length) dots n ip ∧
    s.drop (st + (pos + (decOctet n).length)) = tail := by
  have hdrop : s.drop (st + (pos + (decOctet n).length)) = tail := by
    rw [← Nat.add_assoc, ← List.drop_drop, hd]; simp
  refine ⟨?_, hdrop⟩
  rcases decOctet_cases' n hn with ⟨h, e⟩ | ⟨h1, h2, e⟩ | ⟨h1, e⟩ <;> rw [e] at hd ⊢ <;>
    simp only [List.length_cons, List.length_nil, List.cons_append, List.nil_append] at hd ⊢
  · rw [ip4_digit s st wb tr fuel pos dots 0 ip n _ hd h (by omega)]
    simp
  · have d1 := drop_cons_props hd
    rw [show fuel + (0 + 1 + 1) = (fuel + 1) + 1 from by omega,
        ip4_digit s st wb tr (fuel + 1) pos dots 0 ip (n / 10) _ hd (by omega) (by omega),
        ip4_digit s st wb tr fuel (pos + 1) dots _ ip (n % 10) _ (by rw [← Nat.add_assoc]; exact d1.2.2) (by omega) (by omega)]
    congr 1 <;> omega
  · have d1 := drop_cons_props hd
    have d2 := drop_cons_props d1.2.2
    rw [show fuel + (0 + 1 + 1 + 1) = (fuel + 1 + 1) + 1 from by omega,
        ip4_digit s st wb tr (fuel + 1 + 1) pos dots 0 ip (n / 100) _ hd (by omega) (by omega),
        ip4_digit s st wb tr (fuel + 1) (pos + 1) dots _ ip (n / 10 % 10) _ (by rw [← Nat.add_assoc]; exact d1.2.2) (by omega) (by omega),
        ip4_digit s st wb tr fuel (pos + 1 + 1) dots _ ip (n % 10) _ (by rw [← Nat.add_assoc, ← Nat.add_assoc]; exact d2.2.2) (by omega) (by omega)]
    congr 1 <;> omega

/-- a '.' followed by a digit -/
theorem ip4_dot (s : Bytes) (st : Nat) (wb tr : Bool) (fuel pos dots part ip d : Nat) (tail : Bytes)
    (hd : s.drop (st + pos) = 46 :: digitChar d :: tail) (hd10 : d < 10) :
    ip4Loop s st wb tr (fuel + 1) pos dots part ip =
      ip4Loop s st wb tr fuel (pos + 1) (dots + 1) 0 (ip ||| shl4 part dots) := by
  rw [ip4Loop]
  have d1 := drop_cons_props hd
  have hd1 : s.drop (st + (pos + 1)) = digitChar d :: tail := by rw [← Nat.add_assoc]; exact d1.2.2
  obtain ⟨t1, _, t3, _, _, _, _⟩ := digitChar_tests hd10
  simp only [rd_drop_cons hd, pure_bind, beq_self_eq_true, ↓reduceIte, rd_drop_cons hd1, t1, t3,
    Bool.false_eq_true]

/-- the end of the text after the fourth octet -/
theorem ip4_end (s : Bytes) (st : Nat) (wb tr : Bool) (fuel pos dots part ip : Nat)
    (hd : s.drop (st + pos) = []) (hp : st + pos ≤ s.length) (hdots : ¬ dots < 3) :
    ip4Loop s st wb tr (fuel + 1) pos dots part ip =
      pure (some ⟨pos, ip ||| shl4 part dots, 32⟩) := by
  rw [ip4Loop]
  have e1 : ((0 : UInt8) == 46) = false := by decide
  have e2 : ((0 : UInt8) == 47) = false := by decide
  have e3 : Bytes.isDigit (0 : UInt8) = false := by decide
  simp only [rd_drop_nil hd hp, pure_bind, e1, e2, e3, Bool.false_eq_true, ↓reduceIte, hdots]

/-! ### a whole dotted quad -/

/-- the text `o1.o2.o3.o4` -/
def quadText (o1 o2 o3 o4 : Nat) : Bytes :=
  decOctet o1 ++ 46 :: (decOctet o2 ++ 46 :: (decOctet o3 ++ 46 :: decOctet o4))

theorem decOctet_head' (n : Nat) (hn : n < 256) (tail : Bytes) :
    ∃ d rest, d < 10 ∧ decOctet n ++ tail = digitChar d :: rest := by
  obtain ⟨d, rest, hd, e, _⟩ := decOctet_head n hn
  exact ⟨d, rest ++ tail, hd, by rw [e]; rfl⟩

/-- the loop over four octets, up to (not including) whatever follows the fourth -/
theorem ip4_quad (s : Bytes) (st : Nat) (wb tr : Bool) (o1 o2 o3 o4 : Nat)
    (h1 : o1 < 256) (h2 : o2 < 256) (h3 : o3 < 256) (h4 : o4 < 256) (tail : Bytes) (fuel : Nat)
    (hd : s.drop st = quadText o1 o2 o3 o4 ++ tail) :
    ip4Loop s st wb tr (fuel + (quadText o1 o2 o3 o4).length) 0 0 0 0 =
      ip4Loop s st wb tr fuel (quadText o1 o2 o3 o4).length 3 o4
        (((0 ||| o1 * 16777216) ||| o2 * 65536) ||| o3 * 256) ∧
    s.drop (st + (quadText o1 o2 o3 o4).length) = tail := by
  have hd0 : s.drop (st + 0) = decOctet o1 ++ (46 :: (decOctet o2 ++ 46 :: (decOctet o3 ++ 46 :: (decOctet o4 ++ tail)))) := by
    simpa [quadText] using hd
  generalize hL1 : (decOctet o1).length = L1
  generalize hL2 : (decOctet o2).length = L2
  generalize hL3 : (decOctet o3).length = L3
  generalize hL4 : (decOctet o4).length = L4
  have hlen : (quadText o1 o2 o3 o4).length = L1 + 1 + L2 + 1 + L3 + 1 + L4 := by
    simp [quadText, hL1, hL2, hL3, hL4]; omega
  -- first octet and dot
  obtain ⟨a1, b1⟩ := ip4_octet s st wb tr (fuel + L4 + 1 + L3 + 1 + L2 + 1) 0 0 0 o1 _ hd0 h1
  rw [hL1] at a1 b1
  obtain ⟨d2, r2, hd2, e2⟩ := decOctet_head' o2 h2 (46 :: (decOctet o3 ++ 46 :: (decOctet o4 ++ tail)))
  have b1' : s.drop (st + (0 + L1)) = 46 :: digitChar d2 :: r2 := by rw [b1, e2]
  have c1 := ip4_dot s st wb tr (fuel + L4 + 1 + L3 + 1 + L2) (0 + L1) 0 o1 0 d2 r2 b1' hd2
  have b1'' : s.drop (st + (0 + L1 + 1)) = decOctet o2 ++ (46 :: (decOctet o3 ++ 46 :: (decOctet o4 ++ tail))) := by
    rw [← Nat.add_assoc]; exact (drop_cons_props b1).2.2
  -- second
  obtain ⟨a2, b2⟩ := ip4_octet s st wb tr (fuel + L4 + 1 + L3 + 1) (0 + L1 + 1) (0 + 1) (0 ||| shl4 o1 0) o2 _ b1'' h2
  rw [hL2] at a2 b2
  obtain ⟨d3, r3, hd3, e3⟩ := decOctet_head' o3 h3 (46 :: (decOctet o4 ++ tail))
  have b2' : s.drop (st + (0 + L1 + 1 + L2)) = 46 :: digitChar d3 :: r3 := by rw [b2, e3]
  have c2 := ip4_dot s st wb tr (fuel + L4 + 1 + L3) (0 + L1 + 1 + L2) (0 + 1) o2 (0 ||| shl4 o1 0) d3 r3 b2' hd3
  have b2'' : s.drop (st + (0 + L1 + 1 + L2 + 1)) = decOctet o3 ++ (46 :: (decOctet o4 ++ tail)) := by
    rw [← Nat.add_assoc]; exact (drop_cons_props b2).2.2
  -- third
  obtain ⟨a3, b3⟩ := ip4_octet s st wb tr (fuel + L4 + 1) (0 + L1 + 1 + L2 + 1) (0 + 1 + 1)
    (0 ||| shl4 o1 0 ||| shl4 o2 (0 + 1)) o3 _ b2'' h3
  rw [hL3] at a3 b3
  obtain ⟨d4, r4, hd4, e4⟩ := decOctet_head' o4 h4 tail
  have b3' : s.drop (st + (0 + L1 + 1 + L2 + 1 + L3)) = 46 :: digitChar d4 :: r4 := by rw [b3, e4]
  have c3 := ip4_dot s st wb tr (fuel + L4) (0 + L1 + 1 + L2 + 1 + L3) (0 + 1 + 1) o3
    (0 ||| shl4 o1 0 ||| shl4 o2 (0 + 1)) d4 r4 b3' hd4
  have b3'' : s.drop (st + (0 + L1 + 1 + L2 + 1 + L3 + 1)) = decOctet o4 ++ tail := by
    rw [← Nat.add_assoc]; exact (drop_cons_props b3).2.2
  -- fourth
  obtain ⟨a4, b4⟩ := ip4_octet s st wb tr fuel (0 + L1 + 1 + L2 + 1 + L3 + 1) (0 + 1 + 1 + 1)
    (0 ||| shl4 o1 0 ||| shl4 o2 (0 + 1) ||| shl4 o3 (0 + 1 + 1)) o4 tail b3'' h4
  rw [hL4] at a4 b4
  refine ⟨?_, ?_⟩
  · rw [hlen, show fuel + (L1 + 1 + L2 + 1 + L3 + 1 + L4) = fuel + L4 + 1 + L3 + 1 + L2 + 1 + L1 from by omega,
      a1, c1, a2, c2, a3, c3, a4]
    rw [(shl4_vals o1 h1).1, (shl4_vals o2 h2).2.1, (shl4_vals o3 h3).2.2.1]
    congr 1; omega
  · rw [hlen, show L1 + 1 + L2 + 1 + L3 + 1 + L4 = 0 + L1 + 1 + L2 + 1 + L3 + 1 + L4 from by omega]
    exact b4

theorem quadText_chars (o1 o2 o3 o4 : Nat) (h1 : o1 < 256) (h2 : o2 < 256) (h3 : o3 < 256) (h4 : o4 < 256) :
    ∀ x ∈ quadText o1 o2 o3 o4, x ≠ (58 : UInt8) := by
  intro x hx
  unfold quadText at hx
  simp only [List.mem_append, List.mem_cons] at hx
  rcases hx with hx | hx | hx | hx | hx | hx | hx
  · exact (decOctet_chars _ h1 x hx).1
  · rw [hx]; decide
  · exact (decOctet_chars _ h2 x hx).1
  · rw [hx]; decide
  · exact (decOctet_chars _ h3 x hx).1
  · rw [hx]; decide
  · exact (decOctet_chars _ h4 x hx).1

theorem isV6Text_false_of (s : Bytes) (h : ∀ x ∈ s, x ≠ (58 : UInt8)) : isV6Text s = false := by
  unfold isV6Text
  have : strchr s 58 = none := by
    unfold strchr
    rw [List.findIdx?_eq_none_iff]
    intro x hx
    simpa using h x hx
  rw [this]

theorem strchr_isSome_of (s : Bytes) (c : UInt8) (h : c ∈ s) : (strchr s c).isSome = true := by
  cases hs : strchr s c with
  | some i => rfl
  | none =>
    exfalso
    unfold strchr at hs
    rw [List.findIdx?_eq_none_iff] at hs
    have := hs c h
    simp at this

/-- the IPv4-mapped address a.b.c.d -/
def mapped4 (o1 o2 o3 o4 : Nat) : Addr := Addr.ofList [0, 0, 0, 0, 0, 65535, o1 * 256 + o2, o3 * 256 + o4]

theorem v4_addr (hi lo : Nat) :
    ((Addr.zero.set 5 (BitVec.ofNat 16 65535) (by decide)).set 6 (BitVec.ofNat 16 hi) (by decide)).set 7
      (BitVec.ofNat 16 lo) (by decide) = Addr.ofList [0, 0, 0, 0, 0, 65535, hi, lo] := by
  apply Vector.ext
  intro i hi'
  simp only [Addr.ofList, Addr.zero, Vector.getElem_ofFn]
  match i, hi' with
  | 0, _ => simp
  | 1, _ => simp
  | 2, _ => simp
  | 3, _ => simp
  | 4, _ => simp
  | 5, _ => simp
  | 6, _ => simp
  | 7, _ => simp

/-- a plain dotted quad is read as the IPv4-mapped address; with `bits` requested the
    prefix length is 128 -/
theorem pton_quad (fx : Bool) (o1 o2 o3 o4 : Nat) (h1 : o1 < 256) (h2 : o2 < 256) (h3 : o3 < 256) (h4 : o4 < 256)
    (wb : Bool) :
    ptonWith fx (quadText o1 o2 o3 o4) wb false =
      pure ⟨(quadText o1 o2 o3 o4).length, mapped4 o1 o2 o3 o4, setBits wb none 128, false⟩ := by
  generalize ht : quadText o1 o2 o3 o4 = t
  have hnc : ∀ x ∈ t, x ≠ (58 : UInt8) := by rw [← ht]; exact quadText_chars o1 o2 o3 o4 h1 h2 h3 h4
  have hdot : (46 : UInt8) ∈ t := by rw [← ht]; simp [quadText]
  obtain ⟨d, rest, hd10, hc⟩ : ∃ d rest, d < 10 ∧ t = digitChar d :: rest := by
    obtain ⟨d, rest, hd, e⟩ := decOctet_head' o1 h1 (46 :: (decOctet o2 ++ 46 :: (decOctet o3 ++ 46 :: decOctet o4)))
    exact ⟨d, rest, hd, by rw [← ht, quadText, e]⟩
  obtain ⟨t1, _, _, _, _, t6, _⟩ := digitChar_tests hd10
  have hskip := skipSpace_nonspace t _ rest hc t6
  have hv6 := isV6Text_false_of t hnc
  have hsome := strchr_isSome_of t 46 hdot
  have hd0 : t.drop 0 = quadText o1 o2 o3 o4 ++ [] := by simp [ht]
  obtain ⟨e1, d1⟩ := ip4_quad t 0 wb false o1 o2 o3 o4 h1 h2 h3 h4 [] 1 hd0
  rw [ht] at e1 d1
  have e2 := ip4_end t 0 wb false 0 t.length 3 o4 (((0 ||| o1 * 16777216) ||| o2 * 65536) ||| o3 * 256)
    d1 (by omega) (by omega)
  have hip : ptonIp4 t 0 wb false = pure (some ⟨t.length, ((o1 * 256 + o2) * 256 + o3) * 256 + o4, 32⟩) := by
    unfold ptonIp4
    have hd' : t.drop 0 = digitChar d :: rest := by simpa using hc
    simp only [rd_drop_cons hd', pure_bind, t1, Bool.false_eq_true, ↓reduceIte]
    rw [show t.length + 1 = 1 + t.length from by omega, e1, e2, (shl4_vals o4 h4).2.2.2, or4 o1 o2 o3 o4 h1 h2 h3 h4]
  have hlen : t.length ≠ 0 := by rw [hc]; simp
  have hhi : (((o1 * 256 + o2) * 256 + o3) * 256 + o4) / 65536 = o1 * 256 + o2 := by omega
  have hlo : (((o1 * 256 + o2) * 256 + o3) * 256 + o4) % 65536 = o3 * 256 + o4 := by omega
  unfold ptonWith
  simp only [hskip, pure_bind, hv6, Bool.false_eq_true, ↓reduceIte, hsome, hip, Nat.zero_add, bne_iff_ne, ne_eq,
    hlen, not_false_eq_true, setG_eq (by decide : 5 < 8), setG_eq (by decide : 6 < 8), setG_eq (by decide : 7 < 8),
    hhi, hlo, v4_addr]
  have hb : setBits wb none (u32 (32 + 96)) = setBits wb none 128 := by simp [u32]
  rw [hb]
  exact ptonTail_end t false _ _

end Iauthd.Addr
