import Iauthd.Addr.ProofsPton4
/-
  C12, the round trip through the daemon's own parser, for every address.
-/
set_option linter.unusedVariables false
namespace Iauthd.Addr

theorem dotted_eq_quad (g6 g7 : Nat) :
    dotted g6 g7 = quadText ((g6 * 65536 + g7) / 16777216) ((g6 * 65536 + g7) / 65536 % 256)
      ((g6 * 65536 + g7) / 256 % 256) ((g6 * 65536 + g7) % 256) := by
  simp [dotted, quadText]

theorem octets_pack (g6 g7 : Nat) (h6 : g6 < 65536) (h7 : g7 < 65536) :
    (g6 * 65536 + g7) / 16777216 * 256 + (g6 * 65536 + g7) / 65536 % 256 = g6 ∧
    (g6 * 65536 + g7) / 256 % 256 * 256 + (g6 * 65536 + g7) % 256 = g7 := by
  have e1 : (g6 * 65536 + g7) / 16777216 = g6 / 256 := by omega
  have e2 : (g6 * 65536 + g7) / 65536 = g6 := by omega
  have e3 : (g6 * 65536 + g7) / 256 = g6 * 256 + g7 / 256 := by omega
  have e4 : (g6 * 65536 + g7) % 256 = g7 % 256 := by omega
  rw [e1, e2, e3, e4]
  clear e1 e2 e3 e4
  constructor <;> omega

/-- IPv4 (mapped / compatible) addresses: the parser reads the dotted quad as IPv4-mapped;
    asked for a netmask (`wb`), it reports the plain address as its own /128 -/
theorem ntop_pton_v4_wb (fx : Bool) (a : Addr) (wb : Bool) (h4 : isIPv4 a = true) :
    ptonWith fx (ntopFull a) wb false = pure ⟨(ntopFull a).length, canon a, setBits wb none 128, false⟩ := by
  have htext : ntopFull a = dotted a[6].toNat a[7].toNat := by
    unfold ntopFull ntopFullWith; simp [h4]
  have h6 := a[6].isLt
  have h7 := a[7].isLt
  rw [htext, canon_of_ipv4 a h4]
  generalize a[6].toNat = g6 at *
  generalize a[7].toNat = g7 at *
  rw [dotted_eq_quad]
  have o1 : (g6 * 65536 + g7) / 16777216 < 256 := by omega
  have o2 : (g6 * 65536 + g7) / 65536 % 256 < 256 := by omega
  have o3 : (g6 * 65536 + g7) / 256 % 256 < 256 := by omega
  have o4 : (g6 * 65536 + g7) % 256 < 256 := by omega
  rw [pton_quad fx _ _ _ _ o1 o2 o3 o4 wb]
  obtain ⟨hhi, hlo⟩ := octets_pack g6 g7 h6 h7
  simp only [mapped4, hhi, hlo]

/-- all other addresses: the parser reads the text back as the same address (and as a /128) -/
theorem ntop_pton_v6_wb (fx : Bool) (a : Addr) (wb : Bool) (h4 : isIPv4 a = false) :
    ptonWith fx (ntopFull a) wb false = pure ⟨(ntopFull a).length, a, setBits wb none 128, false⟩ := by
  rcases ntop_shape a h4 with hfull | ⟨l, r, hl, hlen, hr6, hsplit, htext⟩
  · rw [hfull]; exact pton_full fx a wb
  · rw [htext]; exact pton_layout fx a wb l r hl hlen hr6 hsplit

/-- **C12 / C13, own parser**: for every address, `irc_pton` accepts the whole text printed by
    `irc_ntop` and yields the same address, IPv4-compatible addresses canonicalising to
    IPv4-mapped; when a netmask is asked for (`wb`, as the class rules' `address` criterion
    does) the plain address is reported with prefix length 128; no fault on the way. -/
theorem ntop_pton_wb (fx : Bool) (a : Addr) (wb : Bool) :
    ptonWith fx (ntop a 40).1 wb false = .ok ⟨(ntop a 40).1.length, canon a, setBits wb none 128, false⟩ := by
  rw [(ntop_len a).2.2]
  by_cases h4 : isIPv4 a = true
  · exact ntop_pton_v4_wb fx a wb h4
  · have h4' : isIPv4 a = false := by simpa using h4
    rw [canon_of_not_ipv4 a h4']
    exact ntop_pton_v6_wb fx a wb h4'

theorem ntop_pton_v4 (fx : Bool) (a : Addr) (h4 : isIPv4 a = true) :
    ptonWith fx (ntopFull a) false false = pure ⟨(ntopFull a).length, canon a, none, false⟩ :=
  ntop_pton_v4_wb fx a false h4

theorem ntop_pton_v6 (fx : Bool) (a : Addr) (h4 : isIPv4 a = false) :
    ptonWith fx (ntopFull a) false false = pure ⟨(ntopFull a).length, a, none, false⟩ :=
  ntop_pton_v6_wb fx a false h4

/-- **C12, own parser**: for every address, `irc_pton` (no netmask, no trailing text) accepts
    the whole text printed by `irc_ntop` and yields the same address, IPv4-compatible
    addresses canonicalising to IPv4-mapped; no fault on the way. -/
theorem ntop_pton (fx : Bool) (a : Addr) :
    ptonWith fx (ntop a 40).1 false false = .ok ⟨(ntop a 40).1.length, canon a, none, false⟩ :=
  ntop_pton_wb fx a false

/-- printing the canonical form gives the same text -/
theorem ntop_canon (a : Addr) : ntopFull (canon a) = ntopFull a := by
  by_cases h4 : isIPv4 a = true
  · have hc := canon_of_ipv4 a h4
    obtain ⟨x0, x1, x2, x3, x4, x5, x6, x7, rfl⟩ := addr_cases a
    have h4c : isIPv4 (canon #v[x0, x1, x2, x3, x4, x5, x6, x7]) = true := by
      rw [hc]
      unfold isIPv4 at h4 ⊢
      simp at h4
      simp [Addr.ofList, Vector.getElem_ofFn, h4.1.2]
    have t1 : ntopFull (canon #v[x0, x1, x2, x3, x4, x5, x6, x7])
        = dotted (canon #v[x0, x1, x2, x3, x4, x5, x6, x7])[6].toNat (canon #v[x0, x1, x2, x3, x4, x5, x6, x7])[7].toNat := by
      unfold ntopFull ntopFullWith; simp [h4c]
    have t2 : ntopFull #v[x0, x1, x2, x3, x4, x5, x6, x7] = dotted x6.toNat x7.toNat := by
      unfold ntopFull ntopFullWith; simp [h4]
    rw [t1, t2, hc]
    simp [Addr.ofList, Vector.getElem_ofFn]
  · have h4' : isIPv4 a = false := by simpa using h4
    rw [canon_of_not_ipv4 a h4']

/-- **C12, idempotence**: whatever plain address text was accepted, printing the parsed
    address, parsing that text and printing again reproduces the same text (and the second
    parse consumes the whole text). -/
theorem print_parse_print (fx : Bool) (s : Bytes) (r : PtonRes) (h : ptonWith fx s false false = .ok r)
    (hacc : r.ret ≠ 0) :
    ∃ r', ptonWith fx (ntop r.addr 40).1 false false = .ok r' ∧ r'.ret = (ntop r.addr 40).1.length ∧
      (ntop r'.addr 40).1 = (ntop r.addr 40).1 := by
  refine ⟨_, ntop_pton fx r.addr, rfl, ?_⟩
  rw [(ntop_len (canon r.addr)).2.2, (ntop_len r.addr).2.2]
  exact ntop_canon r.addr

end Iauthd.Addr
