import Iauthd.Addr.ProofsNtop
/-
  C12: facts about the characters of the printed text — no leading ':', fits the
  documented 40-byte buffer (39 characters + NUL).
-/
set_option linter.unusedVariables false
namespace Iauthd.Addr

theorem hexChar_props : ∀ n : Fin 16, isHexDigit (hexChar n.val) = true ∧ xdigitVal (hexChar n.val) = n.val ∧
    hexVal? (hexChar n.val) = some n.val ∧ hexChar n.val ≠ 58 ∧ hexChar n.val ≠ 46 ∧ hexChar n.val ≠ 0 := by
  decide

theorem isHex_hexChar {n : Nat} (h : n < 16) : isHexDigit (hexChar n) = true := (hexChar_props ⟨n, h⟩).1
theorem xval_hexChar {n : Nat} (h : n < 16) : xdigitVal (hexChar n) = n := (hexChar_props ⟨n, h⟩).2.1
theorem hexVal_hexChar {n : Nat} (h : n < 16) : hexVal? (hexChar n) = some n := (hexChar_props ⟨n, h⟩).2.2.1
theorem hexChar_ne_colon {n : Nat} (h : n < 16) : hexChar n ≠ 58 := (hexChar_props ⟨n, h⟩).2.2.2.1
theorem hexChar_ne_dot {n : Nat} (h : n < 16) : hexChar n ≠ 46 := (hexChar_props ⟨n, h⟩).2.2.2.2.1

/-- the four possible spellings of a group -/
theorem printGroup_cases (g : Nat) (hg : g < 65536) :
    (g < 16 ∧ printGroup g = [hexChar g]) ∨
    (16 ≤ g ∧ g < 256 ∧ printGroup g = [hexChar (g / 16), hexChar (g % 16)]) ∨
    (256 ≤ g ∧ g < 4096 ∧ printGroup g = [hexChar (g / 256), hexChar (g / 16 % 16), hexChar (g % 16)]) ∨
    (4096 ≤ g ∧ printGroup g = [hexChar (g / 4096), hexChar (g / 256 % 16), hexChar (g / 16 % 16), hexChar (g % 16)]) := by
  unfold printGroup
  by_cases h1 : g < 16
  · left
    have a : ¬ g ≥ 4096 := by omega
    have b : ¬ g ≥ 256 := by omega
    have c : ¬ g ≥ 16 := by omega
    have d : g % 16 = g := Nat.mod_eq_of_lt h1
    simp [a, b, c, d, h1]
  · by_cases h2 : g < 256
    · right; left
      have a : ¬ g ≥ 4096 := by omega
      have b : ¬ g ≥ 256 := by omega
      have c : g ≥ 16 := by omega
      have d : g / 16 % 16 = g / 16 := Nat.mod_eq_of_lt (by omega)
      simp [a, b, c, d, h2]
    · by_cases h3 : g < 4096
      · right; right; left
        have a : ¬ g ≥ 4096 := by omega
        have b : g ≥ 256 := by omega
        have c : g ≥ 16 := by omega
        have d : g / 256 % 16 = g / 256 := Nat.mod_eq_of_lt (by omega)
        simp [a, b, c, d, h3]
      · right; right; right
        have a : g ≥ 4096 := by omega
        have b : g ≥ 256 := by omega
        have c : g ≥ 16 := by omega
        simp [a, b, c]

/-- every character of a printed group is a lower-case hex digit `hexChar n`, n < 16 -/
theorem printGroup_chars (g : Nat) (hg : g < 65536) :
    printGroup g ≠ [] ∧ (printGroup g).length ≤ 4 ∧ ∀ c ∈ printGroup g, ∃ n, n < 16 ∧ c = hexChar n := by
  rcases printGroup_cases g hg with ⟨h, e⟩ | ⟨h1, h2, e⟩ | ⟨h1, h2, e⟩ | ⟨h1, e⟩ <;> rw [e] <;>
    refine ⟨by simp, by simp, ?_⟩ <;> intro c hc <;> simp at hc
  · exact ⟨g, h, hc⟩
  · rcases hc with hc | hc
    · exact ⟨_, by omega, hc⟩
    · exact ⟨_, by omega, hc⟩
  · rcases hc with hc | hc | hc
    · exact ⟨_, by omega, hc⟩
    · exact ⟨_, by omega, hc⟩
    · exact ⟨_, by omega, hc⟩
  · rcases hc with hc | hc | hc | hc
    · exact ⟨_, by omega, hc⟩
    · exact ⟨_, by omega, hc⟩
    · exact ⟨_, by omega, hc⟩
    · exact ⟨_, by omega, hc⟩

theorem printGroup_head (g : Nat) (hg : g < 65536) : ∃ n rest, n < 16 ∧ printGroup g = hexChar n :: rest := by
  obtain ⟨hne, _, hall⟩ := printGroup_chars g hg
  cases hp : printGroup g with
  | nil => exact absurd hp hne
  | cons c rest =>
    obtain ⟨n, hn, hc⟩ := hall c (by rw [hp]; simp)
    exact ⟨n, rest, hn, by rw [hc]⟩

theorem toNats_lt (a : Addr) : ∀ g ∈ a.toNats, g < 65536 := by
  intro g hg
  simp only [Addr.toNats, List.mem_map] at hg
  obtain ⟨x, _, rfl⟩ := hg
  exact x.isLt

/-- the digit characters -/
theorem digit_props : ∀ d : Fin 10, UInt8.ofNat (48 + d.val) ≠ 58 ∧ UInt8.ofNat (48 + d.val) ≠ 46 ∧
    Bytes.isDigit (UInt8.ofNat (48 + d.val)) = true ∧ (UInt8.ofNat (48 + d.val)).toNat - 48 = d.val := by
  decide

theorem decOctet_cases (n : Nat) (hn : n < 256) :
    (n < 10 ∧ decOctet n = [UInt8.ofNat (48 + n)]) ∨
    (10 ≤ n ∧ n < 100 ∧ decOctet n = [UInt8.ofNat (48 + n / 10), UInt8.ofNat (48 + n % 10)]) ∨
    (100 ≤ n ∧ decOctet n = [UInt8.ofNat (48 + n / 100), UInt8.ofNat (48 + n / 10 % 10), UInt8.ofNat (48 + n % 10)]) := by
  unfold decOctet
  by_cases h1 : n < 10
  · left
    have a : ¬ n ≥ 100 := by omega
    have b : ¬ n ≥ 10 := by omega
    have d : n % 10 = n := Nat.mod_eq_of_lt h1
    simp [a, b, d, h1]
  · by_cases h2 : n < 100
    · right; left
      have a : ¬ n ≥ 100 := by omega
      have b : n ≥ 10 := by omega
      have d : n / 10 % 10 = n / 10 := Nat.mod_eq_of_lt (by omega)
      simp [a, b, d, h2]
    · right; right
      have a : n ≥ 100 := by omega
      have b : n ≥ 10 := by omega
      have d : n / 100 % 10 = n / 100 := Nat.mod_eq_of_lt (by omega)
      simp [a, b, d]

theorem decOctet_head (n : Nat) (hn : n < 256) :
    ∃ d rest, d < 10 ∧ decOctet n = UInt8.ofNat (48 + d) :: rest ∧ rest.length ≤ 2 := by
  rcases decOctet_cases n hn with ⟨h, e⟩ | ⟨h1, h2, e⟩ | ⟨h1, e⟩
  · exact ⟨n, [], h, e, by simp⟩
  · exact ⟨n / 10, _, by omega, e, by simp⟩
  · exact ⟨n / 100, _, by omega, e, by simp⟩

/-! ### lengths -/

theorem joinC_length_le : ∀ (xs : List Bytes), (∀ x ∈ xs, x.length ≤ 4) → xs ≠ [] →
    (joinC xs).length + 1 ≤ 5 * xs.length := by
  intro xs
  induction xs with
  | nil => intro _ h; exact absurd rfl h
  | cons x rest ih =>
    intro hall _
    have hx := hall x (by simp)
    cases rest with
    | nil => simp [joinC]; omega
    | cons y rest' =>
      have := ih (fun z hz => hall z (by simp [hz])) (by simp)
      simp only [joinC, List.length_append, List.length_cons, List.length_nil] at this ⊢
      omega

theorem joinC_length_le' (xs : List Bytes) (h : ∀ x ∈ xs, x.length ≤ 4) :
    (joinC xs).length ≤ 5 * xs.length := by
  cases xs with
  | nil => simp [joinC]
  | cons x rest => have := joinC_length_le (x :: rest) h (by simp); omega

theorem map_printGroup_len (gs : List Nat) (h : ∀ g ∈ gs, g < 65536) :
    ∀ x ∈ gs.map printGroup, x.length ≤ 4 := by
  intro x hx
  rw [List.mem_map] at hx
  obtain ⟨g, hg, rfl⟩ := hx
  exact (printGroup_chars g (h g hg)).2.1

theorem dotted_props (g6 g7 : Nat) (h6 : g6 < 65536) (h7 : g7 < 65536) :
    (dotted g6 g7).length ≤ 15 ∧ (dotted g6 g7).head? ≠ some 58 := by
  unfold dotted
  simp only
  have o1 : (g6 * 65536 + g7) / 16777216 < 256 := by omega
  have o2 : (g6 * 65536 + g7) / 65536 % 256 < 256 := by omega
  have o3 : (g6 * 65536 + g7) / 256 % 256 < 256 := by omega
  have o4 : (g6 * 65536 + g7) % 256 < 256 := by omega
  obtain ⟨d1, r1, hd1, e1, l1⟩ := decOctet_head _ o1
  obtain ⟨d2, r2, hd2, e2, l2⟩ := decOctet_head _ o2
  obtain ⟨d3, r3, hd3, e3, l3⟩ := decOctet_head _ o3
  obtain ⟨d4, r4, hd4, e4, l4⟩ := decOctet_head _ o4
  rw [e1, e2, e3, e4]
  refine ⟨by simp; omega, ?_⟩
  simp only [List.cons_append, List.head?_cons]
  intro h
  exact (digit_props ⟨d1, hd1⟩).1 (Option.some.inj h)

/-- the full text is at most 39 characters long and does not begin with ':' -/
theorem ntopFull_props (a : Addr) : (ntopFull a).length ≤ 39 ∧ (ntopFull a).head? ≠ some 58 ∧ ntopFull a ≠ [] := by
  by_cases h4 : isIPv4 a = true
  · have : ntopFull a = dotted a[6].toNat a[7].toNat := by
      unfold ntopFull ntopFullWith; simp [h4]
    rw [this]
    obtain ⟨h1, h2⟩ := dotted_props a[6].toNat a[7].toNat a[6].isLt a[7].isLt
    refine ⟨by omega, h2, ?_⟩
    intro hnil; rw [hnil] at h2
    unfold dotted at hnil
    simp at hnil
  · have h4' : isIPv4 a = false := by simpa using h4
    rcases ntop_shape a h4' with hfull | ⟨l, r, hl, hlen, hr6, hsplit, htext⟩
    · rw [hfull]
      have hlt := toNats_lt a
      have hl8 := toNats_length a
      have hlen := joinC_length_le (a.toNats.map printGroup) (map_printGroup_len _ hlt)
        (by intro h; have := congrArg List.length h; simp [hl8] at this)
      simp only [List.length_map, hl8] at hlen
      cases hn : a.toNats with
      | nil => rw [hn] at hl8; simp at hl8
      | cons g rest =>
        have hg : g < 65536 := hlt g (by rw [hn]; simp)
        obtain ⟨n, tl, hn16, hp⟩ := printGroup_head g hg
        rw [hn] at hlen
        refine ⟨by omega, ?_, ?_⟩
        · cases rest with
          | nil => simp [joinC, hp]; exact hexChar_ne_colon hn16
          | cons g' rest' => simp [joinC, hp]; exact hexChar_ne_colon hn16
        · cases rest with
          | nil => simp [joinC, hp]
          | cons g' rest' => simp [joinC, hp]
    · rw [htext]
      have hlt := toNats_lt a
      rw [hsplit] at hlt
      have hltl : ∀ g ∈ l, g < 65536 := fun g hg => hlt g (by simp [hg])
      have hltr : ∀ g ∈ r, g < 65536 := fun g hg => hlt g (by simp [hg])
      have h1 := joinC_length_le (l.map printGroup) (map_printGroup_len _ hltl) (by simpa using hl)
      have h2 := joinC_length_le' (r.map printGroup) (map_printGroup_len _ hltr)
      simp only [List.length_map] at h1 h2
      cases hn : l with
      | nil => exact absurd hn hl
      | cons g rest =>
        have hg : g < 65536 := hltl g (by rw [hn]; simp)
        obtain ⟨n, tl, hn16, hp⟩ := printGroup_head g hg
        unfold layoutText
        refine ⟨by simp only [List.length_append, List.length_cons, List.length_nil]; rw [← hn]; omega, ?_, ?_⟩
        · cases rest with
          | nil => simp [joinC, hp]; exact hexChar_ne_colon hn16
          | cons g' rest' => simp [joinC, hp]; exact hexChar_ne_colon hn16
        · simp

/-- `irc_ntop` never produces a text that begins with ':' (the line protocol would read
    it as a trailing argument). -/
theorem ntop_no_colon (a : Addr) (outSize : Nat) : (ntop a outSize).1.head? ≠ some 58 := by
  obtain ⟨_, h, _⟩ := ntopFull_props a
  unfold ntop truncOut
  simp only
  cases hn : ntopFull a with
  | nil => simp
  | cons c rest =>
    rw [hn] at h
    cases hs : outSize - 1 with
    | zero => simp
    | succ k => simpa using h

/-- the documented buffer (IRC_NTOP_MAX = 40) is never too small: the returned length is at
    most 39, equals the length of the stored text, and nothing is cut off -/
theorem ntop_len (a : Addr) :
    (ntop a 40).2 ≤ 39 ∧ (ntop a 40).1.length = (ntop a 40).2 ∧ (ntop a 40).1 = ntopFull a := by
  obtain ⟨h, _, _⟩ := ntopFull_props a
  unfold ntop truncOut
  simp only
  have : (ntopFull a).take (40 - 1) = ntopFull a := List.take_of_length_le (by omega)
  rw [this]
  exact ⟨h, rfl, rfl⟩

/-- the IPv4 branch: an address the macro classifies as IPv4 is printed as the dotted quad
    of its two low groups -/
theorem ntop_ipv4 (a : Addr) (h : isIPv4 a = true) : (ntop a 40).1 = dotted a[6].toNat a[7].toNat := by
  rw [(ntop_len a).2.2]
  unfold ntopFull ntopFullWith
  simp [h]

end Iauthd.Addr
