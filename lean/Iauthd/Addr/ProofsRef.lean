import Iauthd.Addr.ProofsText
/-
  C12: the printed text denotes the same address for the reference (standard) grammar:
  `ntop_ref : refParse (ntop a) = some (canon a)` for every address.
-/
set_option linter.unusedVariables false
namespace Iauthd.Addr

/-- **hex round trip**: the group printer followed by the reference group parser -/
theorem hex_roundtrip (g : Nat) (hg : g < 65536) : refGroup (printGroup g) = some g := by
  rcases printGroup_cases g hg with ⟨h, e⟩ | ⟨h1, h2, e⟩ | ⟨h1, h2, e⟩ | ⟨h1, e⟩ <;> rw [e] <;>
    simp only [refGroup, List.length_cons, List.length_nil, List.foldl_cons, List.foldl_nil]
  · rw [hexVal_hexChar h]; simp
  · rw [hexVal_hexChar (by omega : g / 16 < 16), hexVal_hexChar (by omega : g % 16 < 16)]
    simp; omega
  · rw [hexVal_hexChar (by omega : g / 256 < 16), hexVal_hexChar (by omega : g / 16 % 16 < 16),
        hexVal_hexChar (by omega : g % 16 < 16)]
    simp; omega
  · rw [hexVal_hexChar (by omega : g / 4096 < 16), hexVal_hexChar (by omega : g / 256 % 16 < 16),
        hexVal_hexChar (by omega : g / 16 % 16 < 16), hexVal_hexChar (by omega : g % 16 < 16)]
    simp; omega

/-! ### splitting and joining -/

theorem splitAt_nosep (c : UInt8) : ∀ t : Bytes, (∀ x ∈ t, x ≠ c) → splitAt c t = [t] := by
  intro t
  induction t with
  | nil => intro _; rfl
  | cons x xs ih =>
    intro h
    have hx : (x == c) = false := by simpa using h x (by simp)
    rw [splitAt, ih (fun y hy => h y (by simp [hy]))]
    simp [hx]

theorem splitAt_append (c : UInt8) (rest : Bytes) :
    ∀ p : Bytes, (∀ x ∈ p, x ≠ c) → splitAt c (p ++ c :: rest) = p :: splitAt c rest := by
  intro p
  induction p with
  | nil => intro _; simp [splitAt]
  | cons x xs ih =>
    intro h
    have hx : (x == c) = false := by simpa using h x (by simp)
    rw [List.cons_append, splitAt, ih (fun y hy => h y (by simp [hy]))]
    simp [hx]

theorem splitAt_joinC (c : UInt8) (hc : c = 58) :
    ∀ ps : List Bytes, ps ≠ [] → (∀ p ∈ ps, ∀ x ∈ p, x ≠ c) → splitAt c (joinC ps) = ps := by
  intro ps
  induction ps with
  | nil => intro h; exact absurd rfl h
  | cons p rest ih =>
    intro _ hall
    cases rest with
    | nil => simp only [joinC]; exact splitAt_nosep c p (hall p (by simp))
    | cons q rest' =>
      simp only [joinC, List.append_assoc, List.singleton_append]
      rw [← hc, splitAt_append c _ p (hall p (by simp)),
          ih (by simp) (fun p' hp' => hall p' (by simp [hp']))]

theorem printGroup_no (g : Nat) (hg : g < 65536) (k : UInt8) (hk : k = 58 ∨ k = 46) :
    ∀ x ∈ printGroup g, x ≠ k := by
  intro x hx
  obtain ⟨n, hn, rfl⟩ := (printGroup_chars g hg).2.2 x hx
  rcases hk with rfl | rfl
  · exact hexChar_ne_colon hn
  · exact hexChar_ne_dot hn

theorem pieces_no_colon (gs : List Nat) (h : ∀ g ∈ gs, g < 65536) :
    ∀ p ∈ gs.map printGroup, ∀ x ∈ p, x ≠ (58 : UInt8) := by
  intro p hp
  rw [List.mem_map] at hp
  obtain ⟨g, hg, rfl⟩ := hp
  exact printGroup_no g (h g hg) 58 (Or.inl rfl)

theorem refSide_go_map (v4ok : Bool) : ∀ gs : List Nat, gs ≠ [] → (∀ g ∈ gs, g < 65536) →
    refSide.go v4ok (gs.map printGroup) = some gs := by
  intro gs
  induction gs with
  | nil => intro h; exact absurd rfl h
  | cons g rest ih =>
    intro _ hall
    have hg := hex_roundtrip g (hall g (by simp))
    cases rest with
    | nil => simp [refSide.go, hg]
    | cons g' rest' =>
      have := ih (by simp) (fun x hx => hall x (by simp [hx]))
      simp only [List.map_cons] at this ⊢
      simp [refSide.go, hg, this]

theorem joinC_ne_nil (ps : List Bytes) (hne : ps ≠ []) (h : ∀ p ∈ ps, p ≠ []) : joinC ps ≠ [] := by
  cases ps with
  | nil => exact absurd rfl hne
  | cons p rest =>
    have hp := h p (by simp)
    cases rest with
    | nil => simpa [joinC] using hp
    | cons q r => simp [joinC]

/-- the reference grammar reads ':'-joined printed groups back -/
theorem refSide_joinC (v4ok : Bool) (gs : List Nat) (h : ∀ g ∈ gs, g < 65536) :
    refSide (joinC (gs.map printGroup)) v4ok = some gs := by
  unfold refSide
  cases gs with
  | nil => simp [joinC]
  | cons g rest =>
    have hne : joinC ((g :: rest).map printGroup) ≠ [] := by
      apply joinC_ne_nil _ (by simp)
      intro p hp
      rw [List.mem_map] at hp
      obtain ⟨x, hx, rfl⟩ := hp
      exact (printGroup_chars x (h x hx)).1
    have hemp : (joinC ((g :: rest).map printGroup)).isEmpty = false := by
      cases hj : joinC ((g :: rest).map printGroup) with
      | nil => exact absurd hj hne
      | cons _ _ => rfl
    simp only [hemp, Bool.false_eq_true, ↓reduceIte]
    rw [splitAt_joinC 58 rfl _ (by simp) (pieces_no_colon _ h)]
    exact refSide_go_map v4ok _ (by simp) h

/-! ### addresses as group lists -/

theorem addr_cases (a : Addr) : ∃ x0 x1 x2 x3 x4 x5 x6 x7 : Group, a = #v[x0, x1, x2, x3, x4, x5, x6, x7] := by
  refine ⟨a[0], a[1], a[2], a[3], a[4], a[5], a[6], a[7], ?_⟩
  apply Vector.ext
  intro i hi
  match i, hi with
  | 0, _ => rfl
  | 1, _ => rfl
  | 2, _ => rfl
  | 3, _ => rfl
  | 4, _ => rfl
  | 5, _ => rfl
  | 6, _ => rfl
  | 7, _ => rfl

theorem ofList_toNats (a : Addr) : Addr.ofList a.toNats = a := by
  obtain ⟨x0, x1, x2, x3, x4, x5, x6, x7, rfl⟩ := addr_cases a
  apply Vector.ext
  intro i hi
  simp only [Addr.ofList, Addr.toNats, Vector.getElem_ofFn]
  match i, hi with
  | 0, _ => simp
  | 1, _ => simp
  | 2, _ => simp
  | 3, _ => simp
  | 4, _ => simp
  | 5, _ => simp
  | 6, _ => simp
  | 7, _ => simp

theorem canon_of_not_ipv4 (a : Addr) (h : isIPv4 a = false) : canon a = a := by
  unfold canon
  split
  · rename_i hc
    exfalso
    unfold isIPv4 at h
    simp at hc h
    obtain ⟨⟨⟨⟨⟨⟨h0, h1⟩, h2⟩, h3⟩, h4⟩, h5⟩, h6⟩ := hc
    exact (h h0 h1 h2 h3 h4 h6).1 h5
  · rfl

theorem canon_of_ipv4 (a : Addr) (h : isIPv4 a = true) :
    canon a = Addr.ofList [0, 0, 0, 0, 0, 65535, a[6].toNat, a[7].toNat] := by
  obtain ⟨x0, x1, x2, x3, x4, x5, x6, x7, rfl⟩ := addr_cases a
  unfold isIPv4 at h
  simp at h
  obtain ⟨⟨⟨⟨⟨⟨h0, h1⟩, h2⟩, h3⟩, h4⟩, h6⟩, h5⟩ := h
  subst h0 h1 h2 h3 h4
  unfold canon
  apply Vector.ext
  intro i hi
  rcases h5 with h5 | h5 <;> subst h5 <;> simp [h6, Addr.ofList, Vector.getElem_ofFn] <;>
  match i, hi with
  | 0, _ => simp
  | 1, _ => simp
  | 2, _ => simp
  | 3, _ => simp
  | 4, _ => simp
  | 5, _ => simp
  | 6, _ => simp
  | 7, _ => simp

/-! ### locating the "::" -/

theorem findDouble_skip (tail : Bytes) : ∀ (p : Bytes) (i : Nat), (∀ x ∈ p, x ≠ (58 : UInt8)) →
    findDouble (p ++ tail) i = findDouble tail (i + p.length) := by
  intro p
  induction p with
  | nil => intro i _; simp
  | cons x xs ih =>
    intro i h
    have hx : (x == 58) = false := by simpa using h x (by simp)
    have ih' := ih (i + 1) (fun y hy => h y (by simp [hy]))
    cases hxt : xs ++ tail with
    | nil =>
      have h1 : xs = [] := (List.append_eq_nil_iff.mp hxt).1
      have h2 : tail = [] := (List.append_eq_nil_iff.mp hxt).2
      subst h1 h2
      simp [findDouble]
    | cons b rest =>
      rw [List.cons_append, hxt, findDouble]
      simp only [hx, Bool.false_and, Bool.false_eq_true, ↓reduceIte]
      rw [← hxt, ih']
      have : i + 1 + xs.length = i + (x :: xs).length := by simp; omega
      rw [this]

theorem findDouble_none (t : Bytes) (i : Nat) (h : ∀ x ∈ t, x ≠ (58 : UInt8)) : findDouble t i = none := by
  have := findDouble_skip [] t i h
  simpa [findDouble] using this

theorem joinC_head (ps : List Bytes) (p : Bytes) (c : UInt8) (rest : Bytes) (tl : List Bytes)
    (h : p = c :: rest) : ∃ r, joinC (p :: tl) = c :: r := by
  cases tl with
  | nil => exact ⟨rest, by simp [joinC, h]⟩
  | cons q tl' => exact ⟨rest ++ [58] ++ joinC (q :: tl'), by simp [joinC, h]⟩

/-- no "::" inside ':'-joined non-empty colon-free pieces -/
theorem findDouble_joinC (tail : Bytes) : ∀ (ps : List Bytes) (i : Nat), ps ≠ [] →
    (∀ p ∈ ps, p ≠ [] ∧ ∀ x ∈ p, x ≠ (58 : UInt8)) →
    findDouble (joinC ps ++ tail) i = findDouble tail (i + (joinC ps).length) := by
  intro ps
  induction ps with
  | nil => intro i h; exact absurd rfl h
  | cons p rest ih =>
    intro i _ hall
    have hp := hall p (by simp)
    cases rest with
    | nil => simp only [joinC]; exact findDouble_skip tail p i hp.2
    | cons q rest' =>
      have hq := hall q (by simp)
      obtain ⟨c, qr, rfl⟩ := List.exists_cons_of_ne_nil hq.1
      have ih' := ih (i + p.length + 1) (by simp) (fun x hx => hall x (by simp [hx]))
      obtain ⟨r, hr⟩ := joinC_head [] (c :: qr) c qr rest' rfl
      have hc : (c == 58) = false := by
        have := hq.2 c (by simp)
        simpa using this
      have hcond : ((58 : UInt8) == 58 && c == 58) = false := by simp [hc]
      have e1 : joinC (p :: (c :: qr) :: rest') ++ tail = p ++ (58 :: c :: (r ++ tail)) := by
        simp only [joinC, List.append_assoc, List.cons_append, List.nil_append]
        rw [hr]
        simp
      have e2 : c :: (r ++ tail) = joinC ((c :: qr) :: rest') ++ tail := by rw [hr]; rfl
      rw [e1, findDouble_skip _ p i hp.2, findDouble]
      simp only [hcond, Bool.false_eq_true, ↓reduceIte]
      rw [e2, ih']
      have : i + p.length + 1 + (joinC ((c :: qr) :: rest')).length
          = i + (joinC (p :: (c :: qr) :: rest')).length := by simp [joinC]; omega
      rw [this]

theorem pieces_ok (gs : List Nat) (h : ∀ g ∈ gs, g < 65536) :
    ∀ p ∈ gs.map printGroup, p ≠ [] ∧ ∀ x ∈ p, x ≠ (58 : UInt8) := by
  intro p hp
  refine ⟨?_, pieces_no_colon gs h p hp⟩
  rw [List.mem_map] at hp
  obtain ⟨g, hg, rfl⟩ := hp
  exact (printGroup_chars g (h g hg)).1

/-! ### the reference grammar reads the printed text back -/

theorem refParse6_full (a : Addr) :
    refParse6 (joinC (a.toNats.map printGroup)) = some a := by
  have hlt := toNats_lt a
  have hne : a.toNats.map printGroup ≠ [] := by
    intro h; have := congrArg List.length h; simp [toNats_length] at this
  have hfd : findDouble (joinC (a.toNats.map printGroup)) 0 = none := by
    have := findDouble_joinC [] _ 0 hne (pieces_ok _ hlt)
    simpa [findDouble] using this
  unfold refParse6
  rw [hfd]
  simp only
  rw [refSide_joinC true _ hlt]
  simp [toNats_length, ofList_toNats]

theorem refParse6_layout (a : Addr) (l r : List Nat) (hl : l ≠ []) (hlen : l.length + r.length ≤ 7)
    (hsplit : a.toNats = l ++ List.replicate (8 - (l.length + r.length)) 0 ++ r) :
    refParse6 (layoutText l r) = some a := by
  have hlt := toNats_lt a
  rw [hsplit] at hlt
  have hltl : ∀ g ∈ l, g < 65536 := fun g hg => hlt g (by simp [hg])
  have hltr : ∀ g ∈ r, g < 65536 := fun g hg => hlt g (by simp [hg])
  have hne : l.map printGroup ≠ [] := by simpa using hl
  have htext : layoutText l r = joinC (l.map printGroup) ++ (58 :: 58 :: joinC (r.map printGroup)) := by
    simp [layoutText]
  have hfd : findDouble (layoutText l r) 0 = some (joinC (l.map printGroup)).length := by
    rw [htext, findDouble_joinC _ _ 0 hne (pieces_ok _ hltl), findDouble]
    simp
  unfold refParse6
  rw [hfd]
  simp only
  have htake : (layoutText l r).take (joinC (l.map printGroup)).length = joinC (l.map printGroup) := by
    rw [htext]; simp
  have hdrop : (layoutText l r).drop ((joinC (l.map printGroup)).length + 2) = joinC (r.map printGroup) := by
    rw [htext, ← List.drop_drop]; simp
  rw [htake, hdrop, refSide_joinC false _ hltl, refSide_joinC true _ hltr]
  simp only [hlen, ↓reduceIte]
  rw [← hsplit, ofList_toNats]

/-- non-IPv4 addresses: the reference grammar reads the text back as the same address -/
theorem ntop_ref_v6 (a : Addr) (h4 : isIPv4 a = false) : refParse (ntopFull a) = some a := by
  unfold refParse
  rcases ntop_shape a h4 with hfull | ⟨l, r, hl, hlen, hr6, hsplit, htext⟩
  · rw [hfull, refParse6_full]
  · rw [htext, refParse6_layout a l r hl hlen hsplit]

/-! ### the IPv4 branch -/

theorem digit_props2 : ∀ d : Fin 10, (UInt8.ofNat (48 + d.val) = 48 → d.val = 0) := by decide

/-- the decimal digit character for `d < 10`, opaque to `simp` -/
def digitChar (d : Nat) : UInt8 := UInt8.ofNat (48 + d)

theorem digitChar_props {d : Nat} (hd : d < 10) :
    digitChar d ≠ 58 ∧ digitChar d ≠ 46 ∧ Bytes.isDigit (digitChar d) = true ∧
      (digitChar d).toNat - 48 = d ∧ (digitChar d = 48 → d = 0) := by
  have h1 := digit_props ⟨d, hd⟩
  have h2 := digit_props2 ⟨d, hd⟩
  exact ⟨h1.1, h1.2.1, h1.2.2.1, h1.2.2.2, h2⟩

theorem decOctet_cases' (n : Nat) (hn : n < 256) :
    (n < 10 ∧ decOctet n = [digitChar n]) ∨
    (10 ≤ n ∧ n < 100 ∧ decOctet n = [digitChar (n / 10), digitChar (n % 10)]) ∨
    (100 ≤ n ∧ decOctet n = [digitChar (n / 100), digitChar (n / 10 % 10), digitChar (n % 10)]) :=
  decOctet_cases n hn

theorem decOctet_chars (n : Nat) (hn : n < 256) :
    ∀ x ∈ decOctet n, x ≠ (58 : UInt8) ∧ x ≠ (46 : UInt8) ∧ Bytes.isDigit x = true := by
  intro x hx
  have key : ∀ d, d < 10 → x = digitChar d → x ≠ (58 : UInt8) ∧ x ≠ (46 : UInt8) ∧ Bytes.isDigit x = true := by
    intro d hd e
    have := digitChar_props hd
    rw [e]; exact ⟨this.1, this.2.1, this.2.2.1⟩
  rcases decOctet_cases' n hn with ⟨h, e⟩ | ⟨h1, h2, e⟩ | ⟨h1, e⟩ <;> rw [e] at hx <;>
    simp only [List.mem_cons, List.not_mem_nil, or_false] at hx
  · exact key n h hx
  · rcases hx with hx | hx
    · exact key _ (by omega) hx
    · exact key _ (by omega) hx
  · rcases hx with hx | hx | hx
    · exact key _ (by omega) hx
    · exact key _ (by omega) hx
    · exact key _ (by omega) hx

/-- **decimal round trip** for an octet -/
theorem dec_roundtrip (n : Nat) (hn : n < 256) : refOctet (decOctet n) = some n := by
  rcases decOctet_cases' n hn with ⟨h, e⟩ | ⟨h1, h2, e⟩ | ⟨h1, e⟩ <;> rw [e] <;> unfold refOctet
  · obtain ⟨_, _, a3, a4, _⟩ := digitChar_props h
    generalize digitChar n = c at *
    simp [a3, a4]; omega
  · obtain ⟨_, _, a3, a4, a5⟩ := digitChar_props (by omega : n / 10 < 10)
    obtain ⟨_, _, b3, b4, _⟩ := digitChar_props (by omega : n % 10 < 10)
    have hne : digitChar (n / 10) ≠ 48 := by intro h; have := a5 h; omega
    generalize digitChar (n / 10) = c at *
    generalize digitChar (n % 10) = d at *
    simp [a3, a4, b3, b4, hne]; omega
  · obtain ⟨_, _, a3, a4, a5⟩ := digitChar_props (by omega : n / 100 < 10)
    obtain ⟨_, _, b3, b4, _⟩ := digitChar_props (by omega : n / 10 % 10 < 10)
    obtain ⟨_, _, c3, c4, _⟩ := digitChar_props (by omega : n % 10 < 10)
    have hne : digitChar (n / 100) ≠ 48 := by intro h; have := a5 h; omega
    generalize digitChar (n / 100) = c at *
    generalize digitChar (n / 10 % 10) = d at *
    generalize digitChar (n % 10) = e' at *
    simp [a3, a4, b3, b4, c3, c4, hne]; omega

theorem refQuad_dotted (g6 g7 : Nat) (h6 : g6 < 65536) (h7 : g7 < 65536) :
    refQuad (dotted g6 g7) = some [g6, g7] := by
  have o1 : (g6 * 65536 + g7) / 16777216 < 256 := by omega
  have o2 : (g6 * 65536 + g7) / 65536 % 256 < 256 := by omega
  have o3 : (g6 * 65536 + g7) / 256 % 256 < 256 := by omega
  have o4 : (g6 * 65536 + g7) % 256 < 256 := by omega
  have n1 : ∀ x ∈ decOctet ((g6 * 65536 + g7) / 16777216), x ≠ (46 : UInt8) := fun x hx => (decOctet_chars _ o1 x hx).2.1
  have n2 : ∀ x ∈ decOctet ((g6 * 65536 + g7) / 65536 % 256), x ≠ (46 : UInt8) := fun x hx => (decOctet_chars _ o2 x hx).2.1
  have n3 : ∀ x ∈ decOctet ((g6 * 65536 + g7) / 256 % 256), x ≠ (46 : UInt8) := fun x hx => (decOctet_chars _ o3 x hx).2.1
  have n4 : ∀ x ∈ decOctet ((g6 * 65536 + g7) % 256), x ≠ (46 : UInt8) := fun x hx => (decOctet_chars _ o4 x hx).2.1
  unfold refQuad dotted
  simp only [List.append_assoc, List.cons_append, List.nil_append]
  rw [splitAt_append 46 _ _ n1, splitAt_append 46 _ _ n2, splitAt_append 46 _ _ n3, splitAt_nosep 46 _ n4]
  simp only [List.map_cons, List.map_nil, dec_roundtrip _ o1, dec_roundtrip _ o2, dec_roundtrip _ o3,
    dec_roundtrip _ o4]
  have e1 : (g6 * 65536 + g7) / 16777216 = g6 / 256 := by omega
  have e2 : (g6 * 65536 + g7) / 65536 = g6 := by omega
  have e3 : (g6 * 65536 + g7) / 256 = g6 * 256 + g7 / 256 := by omega
  have e4 : (g6 * 65536 + g7) % 256 = g7 % 256 := by omega
  rw [e1, e2, e3, e4]
  clear e1 e2 e3 e4 o1 o2 o3 o4 n1 n2 n3 n4
  congr 2
  · omega
  · congr 1; omega

theorem dotted_no_colon (g6 g7 : Nat) (h6 : g6 < 65536) (h7 : g7 < 65536) :
    ∀ x ∈ dotted g6 g7, x ≠ (58 : UInt8) := by
  have o1 : (g6 * 65536 + g7) / 16777216 < 256 := by omega
  have o2 : (g6 * 65536 + g7) / 65536 % 256 < 256 := by omega
  have o3 : (g6 * 65536 + g7) / 256 % 256 < 256 := by omega
  have o4 : (g6 * 65536 + g7) % 256 < 256 := by omega
  intro x hx
  unfold dotted at hx
  simp only [List.mem_append, List.mem_singleton] at hx
  rcases hx with ((((((hx | hx) | hx) | hx) | hx) | hx) | hx)
  · exact (decOctet_chars _ o1 x hx).1
  · rw [hx]; decide
  · exact (decOctet_chars _ o2 x hx).1
  · rw [hx]; decide
  · exact (decOctet_chars _ o3 x hx).1
  · rw [hx]; decide
  · exact (decOctet_chars _ o4 x hx).1

theorem dotted_length_ge (g6 g7 : Nat) : 7 ≤ (dotted g6 g7).length := by
  have l : ∀ n, 1 ≤ (decOctet n).length := by
    intro n; unfold decOctet
    simp only [List.length_append, List.length_cons, List.length_nil]; omega
  unfold dotted
  simp only [List.length_append, List.length_cons, List.length_nil]
  have := l ((g6 * 65536 + g7) / 16777216)
  have := l ((g6 * 65536 + g7) / 65536 % 256)
  have := l ((g6 * 65536 + g7) / 256 % 256)
  have := l ((g6 * 65536 + g7) % 256)
  omega

/-- IPv4 addresses (mapped and compatible): the reference grammar reads the dotted quad as
    the IPv4-mapped address -/
theorem ntop_ref_v4 (a : Addr) (h4 : isIPv4 a = true) : refParse (ntopFull a) = some (canon a) := by
  have htext : ntopFull a = dotted a[6].toNat a[7].toNat := by
    unfold ntopFull ntopFullWith; simp [h4]
  have h6 := a[6].isLt
  have h7 := a[7].isLt
  rw [htext, canon_of_ipv4 a h4]
  generalize a[6].toNat = g6 at *
  generalize a[7].toNat = g7 at *
  have hq := refQuad_dotted g6 g7 h6 h7
  have hnc := dotted_no_colon g6 g7 h6 h7
  have hlen := dotted_length_ge g6 g7
  have h6none : refParse6 (dotted g6 g7) = none := by
    unfold refParse6
    rw [findDouble_none _ 0 hnc]
    simp only
    have hside : refSide (dotted g6 g7) true = some [g6, g7] := by
      unfold refSide
      have hemp : (dotted g6 g7).isEmpty = false := by
        cases hd : dotted g6 g7 with
        | nil => rw [hd] at hlen; simp at hlen
        | cons _ _ => rfl
      simp only [hemp, Bool.false_eq_true, ↓reduceIte]
      rw [splitAt_nosep 58 _ hnc]
      have hg : refGroup (dotted g6 g7) = none := by
        unfold refGroup
        have : (dotted g6 g7).length > 4 := by omega
        simp [this]
      simp [refSide.go, hg, hq]
    rw [hside]
    simp
  unfold refParse
  rw [h6none]
  simp only
  unfold refParse4
  rw [hq]

/-- **C12, reference reading**: for every address the printed text is accepted by the
    reference (RFC 4291 / dotted-quad) grammar and denotes the same address, IPv4-compatible
    addresses canonicalising to IPv4-mapped. -/
theorem ntop_ref (a : Addr) : refParse (ntop a 40).1 = some (canon a) := by
  rw [(ntop_len a).2.2]
  by_cases h4 : isIPv4 a = true
  · exact ntop_ref_v4 a h4
  · have h4' : isIPv4 a = false := by simpa using h4
    rw [ntop_ref_v6 a h4', canon_of_not_ipv4 a h4']

end Iauthd.Addr
