import Iauthd.Conf.Spec
/-
  The gap numbers of `Spec.Layout` denote *every* gap of the general grammar: each list of
  pieces (blank bytes, newlines, C comments, C++ comments with NUL-free bodies) is `decodeGap` of
  its `gapOfPieces` number.  So a theorem quantified over all layouts (C16) covers every
  sequence of blanks and comments, not a finite alphabet of them.
-/
namespace Iauthd.Conf.Spec
open Iauthd

theorem natBytes_pos (n : Nat) (h : n ≠ 0) : natBytes n = UInt8.ofNat (n % 256) :: natBytes (n / 256) := by
  rw [natBytes]; simp [h]

theorem natBytes_zero : natBytes 0 = [] := by
  rw [natBytes]; simp

theorem bytesNat_sentinel_pos (bs : Bytes) : bytesNat (bs ++ [1]) ≠ 0 := by
  induction bs with
  | nil => simp [bytesNat]
  | cons c r ih => simp only [List.cons_append, bytesNat]; omega

theorem natBytes_bytesNat (bs : Bytes) : natBytes (bytesNat (bs ++ [1])) = bs ++ [1] := by
  induction bs with
  | nil =>
    have : bytesNat ([] ++ [1]) = 1 := by simp [bytesNat]
    rw [this, natBytes_pos 1 (by omega)]
    have h2 : (1 : Nat) / 256 = 0 := by omega
    rw [h2, natBytes_zero]; rfl
  | cons c r ih =>
    have hp := bytesNat_sentinel_pos r
    have hlt : c.toNat < 256 := UInt8.toNat_lt c
    simp only [List.cons_append, bytesNat]
    rw [natBytes_pos _ (by omega)]
    have h1 : (c.toNat + 256 * bytesNat (r ++ [1])) % 256 = c.toNat := by omega
    have h2 : (c.toNat + 256 * bytesNat (r ++ [1])) / 256 = bytesNat (r ++ [1]) := by omega
    rw [h1, h2, ih]
    simp

def PieceNN : GapPiece → Prop
  | .ws _ => True
  | .nl => True
  | .block b => ∀ c ∈ b, c ≠ 0
  | .line t => ∀ c ∈ t, c ≠ 0

theorem takeWhile_nn (b rest : Bytes) (h : ∀ c ∈ b, c ≠ 0) : (b ++ 0 :: rest).takeWhile (· != 0) = b := by
  induction b with
  | nil => simp
  | cons c b ih =>
    have hc : c ≠ 0 := h c (by simp)
    simp only [List.cons_append, List.takeWhile_cons, bne_iff_ne, ne_eq, hc, not_false_eq_true, if_true]
    rw [ih (fun x hx => h x (by simp [hx]))]

theorem dropWhile_nn (b rest : Bytes) (h : ∀ c ∈ b, c ≠ 0) : (b ++ 0 :: rest).dropWhile (· != 0) = 0 :: rest := by
  induction b with
  | nil => simp
  | cons c b ih =>
    have hc : c ≠ 0 := h c (by simp)
    simp only [List.cons_append, List.dropWhile_cons, bne_iff_ne, ne_eq, hc, not_false_eq_true, if_true]
    exact ih (fun x hx => h x (by simp [hx]))

theorem decode_encode (ps : List GapPiece) (hv : ∀ p ∈ ps, PieceNN p) :
    ∀ f, (encodePieces ps).length ≤ f → decodePieces f (encodePieces ps) = ps := by
  induction ps with
  | nil => intro f _; cases f <;> rfl
  | cons p ps ih =>
    have ih' := ih (fun q hq => hv q (by simp [hq]))
    have hp := hv p (by simp)
    intro f hf
    cases p with
    | ws c =>
      simp only [encodePieces, List.length_cons] at hf
      obtain ⟨f', rfl⟩ : ∃ f', f = f' + 1 := ⟨f - 1, by omega⟩
      show GapPiece.ws c :: decodePieces f' (encodePieces ps) = _
      rw [ih' f' (by omega)]
    | nl =>
      simp only [encodePieces, List.length_cons] at hf
      obtain ⟨f', rfl⟩ : ∃ f', f = f' + 1 := ⟨f - 1, by omega⟩
      show GapPiece.nl :: decodePieces f' (encodePieces ps) = _
      rw [ih' f' (by omega)]
    | block b =>
      simp only [encodePieces, List.length_cons, List.length_append] at hf
      obtain ⟨f', rfl⟩ : ∃ f', f = f' + 1 := ⟨f - 1, by omega⟩
      show GapPiece.block ((b ++ 0 :: encodePieces ps).takeWhile (· != 0)) ::
        decodePieces f' (((b ++ 0 :: encodePieces ps).dropWhile (· != 0)).drop 1) = _
      rw [takeWhile_nn b _ hp, dropWhile_nn b _ hp]
      simp only [List.drop_succ_cons, List.drop_zero]
      rw [ih' f' (by omega)]
    | line t =>
      simp only [encodePieces, List.length_cons, List.length_append] at hf
      obtain ⟨f', rfl⟩ : ∃ f', f = f' + 1 := ⟨f - 1, by omega⟩
      show GapPiece.line ((t ++ 0 :: encodePieces ps).takeWhile (· != 0)) ::
        decodePieces f' (((t ++ 0 :: encodePieces ps).dropWhile (· != 0)).drop 1) = _
      rw [takeWhile_nn t _ hp, dropWhile_nn t _ hp]
      simp only [List.drop_succ_cons, List.drop_zero]
      rw [ih' f' (by omega)]

/-- **the gap grammar is complete**: every list of pieces is the gap some number denotes -/
theorem decodeGap_gapOfPieces (ps : List GapPiece) (hv : ∀ p ∈ ps, PieceNN p) :
    36 ≤ gapOfPieces ps ∧ decodeGap (gapOfPieces ps - 36) = ps := by
  refine ⟨by unfold gapOfPieces; omega, ?_⟩
  have : gapOfPieces ps - 36 = bytesNat (encodePieces ps ++ [1]) := by unfold gapOfPieces; omega
  rw [this]
  unfold decodeGap
  simp only [natBytes_bytesNat, List.dropLast_concat]
  exact decode_encode ps hv _ (Nat.le_refl _)

theorem gapAny_gapOfPieces (ps : List GapPiece) (hv : ∀ p ∈ ps, PieceNN p) :
    gapAny (gapOfPieces ps) = renderPieces false ps ∧ gapFlat (gapOfPieces ps) = renderPieces true ps := by
  obtain ⟨h36, hd⟩ := decodeGap_gapOfPieces ps hv
  unfold gapAny gapFlat
  have hn : ¬ gapOfPieces ps < 36 := by omega
  rw [if_neg hn, if_neg hn, hd]
  exact ⟨rfl, rfl⟩

end Iauthd.Conf.Spec
