import Iauthd.Conf.Lex
/-
  Conf engine, part 2: `conf_parse_entry` and the scratch tree it builds.

  The scratch tree (`struct conf_parse::root`) is a tree of `PNode`s; every `struct set`
  is a list sorted by `conf_object_cmp` (strcasecmp of names, then node type) — the
  abstraction proved for src/set.c in C19.

  `Variant` selects, defect by defect (DESIGN §1.3), the pinned text of config.c
  (`false`) or the repaired one (`true`).
-/
namespace Iauthd.Conf

structure Variant where
  f9 : Bool    -- host/service pointers cleared in the scratch node after the move
  f10 : Bool   -- no second `parse->curr--` after `name value}`
  f11 : Bool   -- comma list un-reads the terminator that ended it
  f12 : Bool   -- `}` (nested) and end of input accepted as entry terminators
  f13 : Bool   -- string reverting to a NULL default notifies
  f14 : Bool   -- the parser caches the plain parse of a string it stores
  f15 : Bool   -- list registration installs the default iff the node is not present
  f16 : Bool   -- inaddr registration installs the defaults iff the node is not present
  deriving Repr, DecidableEq

def Variant.pinned : Variant := ⟨false, false, false, false, false, false, false, false⟩
def Variant.fixed : Variant := ⟨true, true, true, true, true, true, true, true⟩

/-- node of the scratch tree.  `cap` of a list: `value.size != 0` (the vector was
    allocated at some point), which `conf_register_string_list` tests. -/
inductive PNode where
  | str (name : Bytes) (value : Bytes)
  | inaddr (name : Bytes) (host : Bytes) (service : Option Bytes)
  | list (name : Bytes) (items : List Bytes) (cap : Bool)
  | obj (name : Bytes) (kids : List PNode)
  deriving Repr, Inhabited

def PNode.name : PNode → Bytes
  | .str n _ | .inaddr n _ _ | .list n _ _ | .obj n _ => n

/-- `enum conf_node_type` -/
def PNode.kind : PNode → Nat
  | .str .. => 0 | .inaddr .. => 1 | .list .. => 2 | .obj .. => 3

/-- `conf_object_cmp` on (name, type) keys -/
def keyCmp (n1 : Bytes) (k1 : Nat) (n2 : Bytes) (k2 : Nat) : Int :=
  let r := Bytes.strcasecmp n1 n2
  if r == 0 then (k1 : Int) - (k2 : Int) else r

/-- `set_find` in a scratch set: the element that compares equal -/
def pfind (name : Bytes) (kind : Nat) : List PNode → Option PNode
  | [] => none
  | n :: ns => if keyCmp name kind n.name n.kind == 0 then some n else pfind name kind ns

/-- `conf_parse_get_child` followed by the caller's update: `mk none` builds a fresh
    node, `mk (some old)` updates the one already there (which keeps its own name). -/
def upsert (name : Bytes) (kind : Nat) (mk : Option PNode → PNode) : List PNode → List PNode
  | [] => [mk none]
  | n :: ns =>
    let c := keyCmp name kind n.name n.kind
    if c == 0 then mk (some n) :: ns
    else if c < 0 then mk none :: n :: ns
    else n :: upsert name kind mk ns

/-- length of the common prefix under `strcmp` equality (the `differ` loop) -/
def commonPrefix : List Bytes → List Bytes → Nat
  | a :: as, b :: bs => if a == b then commonPrefix as bs + 1 else 0
  | _, _ => 0

/-- `conf_set_string_list_value` on a scratch node (no hook there): new contents and
    whether the vector now owns storage. -/
def setListCap (old : List Bytes) (cap : Bool) (new : List Bytes) : Bool :=
  cap || decide (commonPrefix old new < new.length)

def nonNull (site : String) : Option Bytes → Except ParseErr Bytes
  | some b => .ok b
  | none => .error (.fault (.nullDeref site))

/-- the `while (1)` loop of the `(` case; `pos` is just after `(` or after a comma -/
def parenLoop (d : Bytes) : Nat → Nat → List Bytes → Except ParseErr (List Bytes × Nat)
  | 0, _, _ => .error .outOfFuel
  | fuel + 1, pos, acc => do
    let (ch, p) ← wsAt false d pos
    if ch == 0 then .error .prematureEof
    else if ch == 41 then .ok (acc, p)
    else
      let p ← unread p
      let (v?, p) ← parseString d p
      let v ← nonNull "string_vector_append(NULL) in paren list" v?
      let acc := acc ++ [v]
      let (ch, p) ← wsAt false d p
      if ch == 0 then .error .prematureEof
      else if ch == 41 then .ok (acc, p)
      else if ch != 44 then .error .expectedComma
      else parenLoop d fuel p acc

/-- the `while (1)` loop of the comma-list case; `pos` is just after a comma -/
def commaLoop (V : Variant) (d : Bytes) : Nat → Nat → List Bytes → Except ParseErr (List Bytes × Nat)
  | 0, _, _ => .error .outOfFuel
  | fuel + 1, pos, acc => do
    let (ch, p) ← wsAt true d pos
    if ch == 0 then (if V.f12 then .ok (acc, p) else .error .prematureEof)
    else if ch == 10 then (if V.f11 then do let p ← unread p; .ok (acc, p) else .ok (acc, p))
    else
      let p ← unread p
      let (v?, p) ← parseString d p
      let v ← nonNull "string_vector_append(NULL) in comma list" v?
      let acc := acc ++ [v]
      let (ch, p) ← wsAt true d p
      if ch == 0 then (if V.f12 then .ok (acc, p) else .error .prematureEof)
      else if ch == 10 || ch == 59 || (V.f12 && ch == 125) then
        (if V.f11 || ch == 125 then do let p ← unread p; .ok (acc, p) else .ok (acc, p))
      else if ch != 44 then .error .expectedComma
      else commaLoop V d fuel p acc

/-- the check at the bottom of `conf_parse_entry` -/
def entryEnd (V : Variant) (d : Bytes) (isRoot : Bool) (kids : List PNode) (pos : Nat) :
    Except ParseErr (List PNode × Nat) := do
  let (ch, p) ← wsAt true d pos
  if V.f12 && ch == 0 then .ok (kids, p)
  else if V.f12 && ch == 125 && !isRoot then do let p ← unread p; .ok (kids, p)
  else if ch != 59 && ch != 10 then .error .expectedSemicolon
  else .ok (kids, p)

def kidsOf : Option PNode → List PNode
  | some (.obj _ ks) => ks
  | _ => []

/-- store a list value (`conf_parse_get_child` + `conf_set_string_list_value`) -/
def putList (name : Bytes) (items : List Bytes) (kids : List PNode) : List PNode :=
  upsert name 2 (fun
    | some (.list n old cap) => .list n items (setListCap old cap items)
    | _ => .list name items (setListCap [] false items)) kids

def putStr (name : Bytes) (s : Bytes) (kids : List PNode) : List PNode :=
  upsert name 0 (fun
    | some (.str n _) => .str n s
    | _ => .str name s) kids

def putInaddr (name : Bytes) (host : Bytes) (svc : Option Bytes) (kids : List PNode) : List PNode :=
  upsert name 1 (fun
    | some (.inaddr n _ _) => .inaddr n host svc
    | _ => .inaddr name host svc) kids

def putObj (name : Bytes) (sub : List PNode) (kids : List PNode) : List PNode :=
  upsert name 3 (fun
    | some (.obj n _) => .obj n sub
    | _ => .obj name sub) kids

/-- the `(` case; `pos` is just after the parenthesis -/
def entryParen (V : Variant) (d : Bytes) (isRoot : Bool) (kids : List PNode) (fuel : Nat)
    (name? : Option Bytes) (pos : Nat) : Except ParseErr (List PNode × Nat) := do
  let name ← nonNull "conf_parse_get_child(NULL name)" name?
  let (items, p) ← parenLoop d fuel pos []
  entryEnd V d isRoot (putList name items kids) p

/-- the last `else` of `conf_parse_entry`: bare value, comma list or host/service pair;
    `pos` is just after the character that `conf_parse_whitespace` returned -/
def entryValue (V : Variant) (d : Bytes) (isRoot : Bool) (kids : List PNode) (fuel : Nat)
    (name? : Option Bytes) (pos : Nat) : Except ParseErr (List PNode × Nat) := do
  let name ← nonNull "conf_parse_get_child(NULL name)" name?
  let p ← unread pos
  let (s?, p) ← parseString d p
  let (ch, p) ← wsAt true d p
  if ch == 59 || ch == 10 || ch == 125 || (V.f12 && ch == 0) then do
    let s ← nonNull "string value" s?
    let p ← (if ch == 0 then .ok p else unread p)
    let kids := putStr name s kids
    if ch == 125 && !isRoot then
      (if V.f10 then .ok (kids, p) else do let p ← unread p; .ok (kids, p))
    else entryEnd V d isRoot kids p
  else if ch == 44 then do                                         -- ','
    let s ← nonNull "string_vector_append(NULL)" s?
    let (items, p) ← commaLoop V d fuel p [s]
    entryEnd V d isRoot (putList name items kids) p
  else do
    let s ← nonNull "hostname" s?
    let p ← unread p
    let (svc?, p) ← parseString d p
    entryEnd V d isRoot (putInaddr name s svc? kids) p

mutual
/-- `conf_parse_entry(parse, parent)`: `kids` are the parent's contents, `isRoot` is
    `parent == &parse->root`. -/
def parseEntry (V : Variant) (d : Bytes) : Nat → Bool → List PNode → Nat → Except ParseErr (List PNode × Nat)
  | 0, _, _, _ => .error .outOfFuel
  | fuel + 1, isRoot, kids, pos => do
    let (name?, p) ← parseString d pos
    let (ch, p) ← wsAt false d p
    if ch == 0 then .ok (kids, p)
    else if ch == 40 then entryParen V d isRoot kids fuel name? p            -- '('
    else if ch == 123 then do                                                -- '{'
      let name ← nonNull "conf_parse_get_child(NULL name)" name?
      let (sub, p) ← objLoop V d fuel (kidsOf (pfind name 3 kids)) p
      entryEnd V d isRoot (putObj name sub kids) p
    else entryValue V d isRoot kids fuel name? p

/-- the `while (1)` loop of the `{` case; `kids` are the object's contents so far -/
def objLoop (V : Variant) (d : Bytes) : Nat → List PNode → Nat → Except ParseErr (List PNode × Nat)
  | 0, _, _ => .error .outOfFuel
  | fuel + 1, kids, pos => do
    let (ch, p) ← wsAt false d pos
    if ch == 125 then .ok (kids, p)
    else if ch == 0 then .error .prematureEof
    else
      let p ← unread p
      let (kids, p) ← parseEntry V d fuel false kids p
      objLoop V d fuel kids p
end

/-- `while (*parse.curr) conf_parse_entry(&parse, &parse.root);` -/
def topLoop (V : Variant) (d : Bytes) : Nat → List PNode → Nat → Except ParseErr (List PNode)
  | 0, _, _ => .error .outOfFuel
  | fuel + 1, kids, pos =>
    if pos > d.length then .error (.fault (.oob "*parse.curr" pos))
    else if pos == d.length then .ok kids
    else do
      let (kids, p) ← parseEntry V d fuel true kids pos
      topLoop V d fuel kids p

def parseFuel (d : Bytes) : Nat := 2 * d.length + 4

/-- the parsing half of `conf_read`: scratch root contents or the `longjmp` code.
    An empty file is a "system error": `fread(data, 0, 1, file)` returns 0. -/
def parseFile (V : Variant) (body : Bytes) : Except ParseErr (List PNode) :=
  if body.isEmpty then .error .systemError
  else let d := fileData body; topLoop V d (parseFuel d) [] 0

end Iauthd.Conf
