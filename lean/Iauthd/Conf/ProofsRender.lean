import Iauthd.Conf.ProofsParse
import Iauthd.Conf.Spec
/-
  C16, lexical part: what `Spec.render` writes for a string is read back byte for byte
  (`string_roundtrip` for every escape choice, `bare_roundtrip`), and every gap of the
  layout alphabet is skipped (`ws_skip`).
-/
set_option linter.unusedSimpArgs false
namespace Iauthd.Conf
open Iauthd.Conf.Spec (Esc StrLay encByte encBody hexEsc hexDigitL hexDigitU namedEsc bslOk renderStr canBare isTokenByte
  gapAny gapFlat gapTable gapTableFlat GapPiece blockBodyOk lineTextOk wsByteOk renderPiece renderPieces decodeGap)

/-! ### hex digits -/

theorem hexDigitL_spec (n : Nat) (h : n < 16) : isXDigit (hexDigitL n) = true ∧ xdigitVal (hexDigitL n) = n := by
  have : n = 0 ∨ n = 1 ∨ n = 2 ∨ n = 3 ∨ n = 4 ∨ n = 5 ∨ n = 6 ∨ n = 7 ∨ n = 8 ∨ n = 9 ∨ n = 10 ∨ n = 11 ∨
      n = 12 ∨ n = 13 ∨ n = 14 ∨ n = 15 := by omega
  rcases this with h | h | h | h | h | h | h | h | h | h | h | h | h | h | h | h <;> subst h <;> decide

theorem hexDigitU_spec (n : Nat) (h : n < 16) : isXDigit (hexDigitU n) = true ∧ xdigitVal (hexDigitU n) = n := by
  have : n = 0 ∨ n = 1 ∨ n = 2 ∨ n = 3 ∨ n = 4 ∨ n = 5 ∨ n = 6 ∨ n = 7 ∨ n = 8 ∨ n = 9 ∨ n = 10 ∨ n = 11 ∨
      n = 12 ∨ n = 13 ∨ n = 14 ∨ n = 15 := by omega
  rcases this with h | h | h | h | h | h | h | h | h | h | h | h | h | h | h | h <;> subst h <;> decide

theorem byte_of_nibbles (b : UInt8) : UInt8.ofNat (b.toNat / 16 * 16 + b.toNat % 16) = b := by
  have : b.toNat / 16 * 16 + b.toNat % 16 = b.toNat := by omega
  rw [this]; simp

/-! ### the second pass on what the encoder writes -/

theorem decodeQ_plain (c : UInt8) (tail : Bytes) (h1 : c ≠ 34) (h2 : c ≠ 92) (ht : tail ≠ []) :
    decodeQ (c :: tail) = (decodeQ tail).map fun r => (c :: r.1, r.2 + 1) := by
  have b1 : (c == 34) = false := by simpa using h1
  have b2 : (c != 92) = true := by simpa using h2
  match tail, ht with
  | [e], _ => simp [decodeQ, b1, b2]
  | [e, h], _ => simp [decodeQ, b1, b2]
  | e :: h :: h' :: r, _ => simp [decodeQ, b1, b2]

theorem decodeQ_esc (e : UInt8) (tail : Bytes) (he : e ≠ 120) (ht : tail ≠ []) :
    decodeQ (92 :: e :: tail) = (decodeQ tail).map fun r => (escByte e :: r.1, r.2 + 2) := by
  have b : (e != 120) = true := by simpa using he
  match tail, ht with
  | [h], _ => simp [decodeQ, b]
  | h :: h' :: r, _ => simp [decodeQ, b]

theorem decodeQ_hex (h1 h2 : UInt8) (tail : Bytes) (x1 : isXDigit h1 = true) (x2 : isXDigit h2 = true) :
    decodeQ (92 :: 120 :: h1 :: h2 :: tail) =
      (decodeQ tail).map fun r => (UInt8.ofNat (xdigitVal h1 * 16 + xdigitVal h2) :: r.1, r.2 + 4) := by
  simp [decodeQ, x1, x2]

theorem hexEsc_decode (upper : Bool) (b : UInt8) (tail : Bytes) :
    decodeQ (hexEsc upper b ++ tail) = (decodeQ tail).map fun r => (b :: r.1, r.2 + 4) := by
  have h1 : b.toNat / 16 < 16 := by have := b.toNat_lt; omega
  have h2 : b.toNat % 16 < 16 := by omega
  cases upper with
  | false =>
    simp only [hexEsc, Bool.false_eq_true, if_false, List.cons_append, List.nil_append]
    rw [decodeQ_hex _ _ _ (hexDigitL_spec _ h1).1 (hexDigitL_spec _ h2).1,
      (hexDigitL_spec _ h1).2, (hexDigitL_spec _ h2).2, byte_of_nibbles]
  | true =>
    simp only [hexEsc, if_true, List.cons_append, List.nil_append]
    rw [decodeQ_hex _ _ _ (hexDigitU_spec _ h1).1 (hexDigitU_spec _ h2).1,
      (hexDigitU_spec _ h1).2, (hexDigitU_spec _ h2).2, byte_of_nibbles]


theorem namedEsc_spec (b c : UInt8) (h : namedEsc b = some c) : c ≠ 120 ∧ escByte c = b := by
  unfold namedEsc at h
  split at h; · simp at h; subst h; rename_i e; simp at e; subst e; decide
  split at h; · simp at h; subst h; rename_i e; simp at e; subst e; decide
  split at h; · simp at h; subst h; rename_i e; simp at e; subst e; decide
  split at h; · simp at h; subst h; rename_i e; simp at e; subst e; decide
  split at h; · simp at h; subst h; rename_i e; simp at e; subst e; decide
  split at h; · simp at h; subst h; rename_i e; simp at e; subst e; decide
  split at h; · simp at h; subst h; rename_i e; simp at e; subst e; decide
  simp at h

theorem bslOk_spec (b : UInt8) (h : bslOk b = true) : b ≠ 120 ∧ escByte b = b := by
  unfold bslOk at h
  simp only [Bool.not_eq_true', Bool.or_eq_false_iff, beq_eq_false_iff_ne] at h
  obtain ⟨⟨⟨⟨⟨⟨⟨⟨h1, h2⟩, h3⟩, h4⟩, h5⟩, h6⟩, h7⟩, h8⟩, _⟩ := h
  refine ⟨h8, ?_⟩
  simp [escByte, h1, h2, h3, h4, h5, h6, h7]

theorem encByte_decode (e : Esc) (b : UInt8) (tail : Bytes) (ht : tail ≠ []) :
    decodeQ (encByte e b ++ tail) = (decodeQ tail).map fun r => (b :: r.1, r.2 + (encByte e b).length) := by
  cases e with
  | raw =>
    unfold encByte
    simp only
    split
    · rw [hexEsc_decode]; simp [hexEsc]
    · rename_i hb
      simp only [Bool.or_eq_true, beq_iff_eq, not_or] at hb
      simp only [List.cons_append, List.nil_append, List.length_singleton]
      exact decodeQ_plain b tail hb.1.1 hb.1.2 ht
  | named =>
    unfold encByte
    simp only
    split
    · rename_i c hc
      obtain ⟨c1, c2⟩ := namedEsc_spec b c hc
      simp only [List.cons_append, List.nil_append]
      rw [decodeQ_esc c tail c1 ht, c2]; rfl
    · rw [hexEsc_decode]; simp [hexEsc]
  | hex => simp only [encByte]; rw [hexEsc_decode]; simp [hexEsc]
  | hexU => simp only [encByte]; rw [hexEsc_decode]; simp [hexEsc]
  | bsl =>
    unfold encByte
    simp only
    split
    · rename_i hb
      obtain ⟨c1, c2⟩ := bslOk_spec b hb
      simp only [List.cons_append, List.nil_append]
      rw [decodeQ_esc b tail c1 ht, c2]; rfl
    · rw [hexEsc_decode]; simp [hexEsc]

/-- C16 (`string_roundtrip`): whatever escape is chosen for each byte, the second pass of
    `conf_parse_string` decodes the body back to the original bytes and stops at the
    closing quote -/
theorem string_roundtrip (s : Bytes) : ∀ (escs : List Esc) (rest : Bytes),
    decodeQ (encBody escs s ++ 34 :: rest) = .ok (s, (encBody escs s).length) := by
  induction s with
  | nil =>
    intro escs rest
    cases escs <;> (simp only [encBody, List.nil_append, List.length_nil]; match rest with | [] => rfl | [_] => rfl | [_, _] => rfl | _ :: _ :: _ :: _ => rfl)
  | cons b bs ih =>
    intro escs rest
    cases escs with
    | nil =>
      simp only [encBody, List.append_assoc]
      rw [encByte_decode _ _ _ (by simp), ih [] rest]
      simp [Except.map]; omega
    | cons e es =>
      simp only [encBody, List.append_assoc]
      rw [encByte_decode _ _ _ (by simp), ih es rest]
      simp [Except.map]; omega


theorem encByte_scan (e : Esc) (b : UInt8) (tail : Bytes) :
    scanQ (encByte e b ++ tail) = (scanQ tail).map (· + (encByte e b).length) := by
  have hexcase : ∀ upper, scanQ (hexEsc upper b ++ tail) = (scanQ tail).map (· + (hexEsc upper b).length) := by
    intro upper
    have h1 : b.toNat / 16 < 16 := by have := b.toNat_lt; omega
    have h2 : b.toNat % 16 < 16 := by omega
    cases upper with
    | false =>
      have p1 := xdigit_plain _ (hexDigitL_spec _ h1).1
      have p2 := xdigit_plain _ (hexDigitL_spec _ h2).1
      simp only [hexEsc, Bool.false_eq_true, if_false, List.cons_append, List.nil_append]
      rw [scanQ_esc, scanQ_plain _ _ p1.1 p1.2, scanQ_plain _ _ p2.1 p2.2]
      cases scanQ tail <;> simp
    | true =>
      have p1 := xdigit_plain _ (hexDigitU_spec _ h1).1
      have p2 := xdigit_plain _ (hexDigitU_spec _ h2).1
      simp only [hexEsc, if_true, List.cons_append, List.nil_append]
      rw [scanQ_esc, scanQ_plain _ _ p1.1 p1.2, scanQ_plain _ _ p2.1 p2.2]
      cases scanQ tail <;> simp
  cases e with
  | raw =>
    unfold encByte
    simp only
    split
    · exact hexcase false
    · rename_i hb
      simp only [Bool.or_eq_true, beq_iff_eq, not_or] at hb
      simp only [List.cons_append, List.nil_append, List.length_singleton]
      exact scanQ_plain b tail hb.1.1 hb.1.2
  | named =>
    unfold encByte
    simp only
    split
    · simp only [List.cons_append, List.nil_append]
      rw [scanQ_esc]; rfl
    · exact hexcase false
  | hex => exact hexcase false
  | hexU => exact hexcase true
  | bsl =>
    unfold encByte
    simp only
    split
    · simp only [List.cons_append, List.nil_append]
      rw [scanQ_esc]; rfl
    · exact hexcase false

/-- the sizing pass finds the closing quote the encoder wrote -/
theorem scan_roundtrip (s : Bytes) : ∀ (escs : List Esc) (rest : Bytes),
    scanQ (encBody escs s ++ 34 :: rest) = some (encBody escs s).length := by
  induction s with
  | nil => intro escs rest; cases escs <;> (simp only [encBody, List.nil_append, List.length_nil]; cases rest <;> simp [scanQ])
  | cons b bs ih =>
    intro escs rest
    cases escs with
    | nil =>
      simp only [encBody, List.append_assoc]
      rw [encByte_scan, ih [] rest]; simp; omega
    | cons e es =>
      simp only [encBody, List.append_assoc]
      rw [encByte_scan, ih es rest]; simp; omega


/-! ### barewords -/

theorem isTokenByte_eq (c : UInt8) : isTokenByte c = isToken c := by
  simp [isTokenByte, isToken, isAlnum, Bool.or_assoc]

theorem takeWhile_append_stop {α} (p : α → Bool) (s rest : List α) (hs : s.all p = true)
    (hr : ∀ x, rest.head? = some x → p x = false) : (s ++ rest).takeWhile p = s := by
  induction s with
  | nil =>
    cases rest with
    | nil => rfl
    | cons x xs => simp [List.takeWhile, hr x rfl]
  | cons a as ih =>
    simp only [List.all_cons, Bool.and_eq_true] at hs
    simp [List.takeWhile, hs.1, ih hs.2]

/-! ### gaps -/

/-- `g` is skipped by `conf_parse_whitespace(parse, care)` whatever follows -/
def GapOK (care : Bool) (g : Bytes) : Prop :=
  ∀ tail, wsGo care .norm (g ++ tail) = bump g.length (wsGo care .norm tail)

theorem bump_bump (a b : Nat) (r : UInt8 × Nat) : bump a (bump b r) = bump (b + a) r := by
  simp [bump, Nat.add_assoc]

theorem gapOK_nil (care : Bool) : GapOK care [] := by intro tail; simp [bump]

theorem gapOK_append {care : Bool} {a b : Bytes} (ha : GapOK care a) (hb : GapOK care b) : GapOK care (a ++ b) := by
  intro tail
  rw [List.append_assoc, ha, hb, bump_bump]; simp [Nat.add_comm]

theorem ws_space (care : Bool) (c : UInt8) (hs : isSpaceC c = true) (hn : c ≠ 10) : GapOK care [c] := by
  intro tail
  have : (c == 10) = false := by simpa using hn
  cases tail with
  | nil => simp [wsGo, this, hs, bump]
  | cons d r => simp [wsGo, this, hs]

theorem ws_nl : GapOK false [10] := by
  intro tail
  cases tail with
  | nil => simp [wsGo, bump]
  | cons d r => simp [wsGo]

theorem gapTable_lit : gapTable = [[], [32], [10], [9], [47,42,99,42,47], [47,47,99,10], [32,32], [47,42,42,47],
   [32,47,42,32,97,42,98,32,47,32,42,32,42,47,32], [10,9,47,47,32,120,10,32]] := by decide +kernel
theorem gapTableFlat_lit : gapTableFlat = [[], [32], [32], [9], [47,42,99,42,47], [47,42,99,42,47], [32,32], [47,42,42,47],
   [32,47,42,32,97,42,98,32,47,32,42,32,42,47,32], [9,47,42,32,120,32,42,47,32]] := by decide +kernel

theorem mod10_cases (g : Nat) : g % 10 = 0 ∨ g % 10 = 1 ∨ g % 10 = 2 ∨ g % 10 = 3 ∨ g % 10 = 4 ∨ g % 10 = 5 ∨
    g % 10 = 6 ∨ g % 10 = 7 ∨ g % 10 = 8 ∨ g % 10 = 9 := by omega

theorem gapOK_sp (care : Bool) : GapOK care [32] := ws_space care 32 (by decide) (by decide)
theorem gapOK_tab (care : Bool) : GapOK care [9] := ws_space care 9 (by decide) (by decide)

theorem ws_open_block (care : Bool) (rest : Bytes) : wsGo care .norm (47 :: 42 :: rest) = bump 2 (wsGo care .block rest) := by
  have : isSpaceC 47 = false := by decide
  simp [wsGo, this]
theorem ws_open_line (care : Bool) (rest : Bytes) : wsGo care .norm (47 :: 47 :: rest) = bump 2 (wsGo care .line rest) := by
  have : isSpaceC 47 = false := by decide
  simp [wsGo, this]
theorem ws_block_step (care : Bool) (c d : UInt8) (rest : Bytes) (h : ¬ (c = 42 ∧ d = 47)) :
    wsGo care .block (c :: d :: rest) = bump 1 (wsGo care .block (d :: rest)) := by
  have : (c == 42 && d == 47) = false := by
    simp only [Bool.and_eq_false_iff, beq_eq_false_iff_ne]
    by_cases hc : c = 42
    · exact .inr fun hd => h ⟨hc, hd⟩
    · exact .inl hc
  simp [wsGo, this]
theorem ws_block_close (care : Bool) (rest : Bytes) : wsGo care .block (42 :: 47 :: rest) = bump 2 (wsGo care .norm rest) := by
  simp [wsGo]
theorem ws_line_step (care : Bool) (c : UInt8) (rest : Bytes) (h : c ≠ 10) :
    wsGo care .line (c :: rest) = bump 1 (wsGo care .line rest) := by
  have : (c == 10) = false := by simpa using h
  simp [wsGo, this]
theorem ws_line_close (rest : Bytes) : wsGo false .line (10 :: rest) = bump 1 (wsGo false .norm rest) := by
  simp [wsGo]

theorem gapOK_c4 (care : Bool) : GapOK care [47,42,99,42,47] := by
  intro tail
  simp only [List.cons_append, List.nil_append]
  rw [ws_open_block, ws_block_step _ _ _ _ (by decide), ws_block_close]
  simp [bump]
theorem gapOK_c7 (care : Bool) : GapOK care [47,42,42,47] := by
  intro tail
  simp only [List.cons_append, List.nil_append]
  rw [ws_open_block, ws_block_close]
  simp [bump]
theorem gapOK_c8core (care : Bool) : GapOK care [47,42,32,97,42,98,32,47,32,42,32,42,47] := by
  intro tail
  simp only [List.cons_append, List.nil_append]
  rw [ws_open_block, ws_block_step _ _ _ _ (by decide), ws_block_step _ _ _ _ (by decide),
    ws_block_step _ _ _ _ (by decide), ws_block_step _ _ _ _ (by decide), ws_block_step _ _ _ _ (by decide),
    ws_block_step _ _ _ _ (by decide), ws_block_step _ _ _ _ (by decide), ws_block_step _ _ _ _ (by decide),
    ws_block_step _ _ _ _ (by decide), ws_block_close]
  simp [bump]
theorem gapOK_c9core (care : Bool) : GapOK care [47,42,32,120,32,42,47] := by
  intro tail
  simp only [List.cons_append, List.nil_append]
  rw [ws_open_block, ws_block_step _ _ _ _ (by decide), ws_block_step _ _ _ _ (by decide),
    ws_block_step _ _ _ _ (by decide), ws_block_close]
  simp [bump]
theorem gapOK_line5 : GapOK false [47,47,99,10] := by
  intro tail
  simp only [List.cons_append, List.nil_append]
  rw [ws_open_line, ws_line_step _ _ _ (by decide), ws_line_close]
  simp [bump]
theorem gapOK_line9 : GapOK false [47,47,32,120,10] := by
  intro tail
  simp only [List.cons_append, List.nil_append]
  rw [ws_open_line, ws_line_step _ _ _ (by decide), ws_line_step _ _ _ (by decide), ws_line_close]
  simp [bump]

/-! ### gaps of the general grammar -/

theorem block_skip (care : Bool) (B tail : Bytes) (h : blockBodyOk B = true) :
    wsGo care .block (B ++ 42 :: 47 :: tail) = bump (B.length + 2) (wsGo care .norm tail) := by
  induction B with
  | nil => simpa using ws_block_close care tail
  | cons c B' ih =>
    cases B' with
    | nil =>
      simp only [List.cons_append, List.nil_append]
      rw [ws_block_step _ _ _ _ (by intro ⟨_, h2⟩; exact absurd h2 (by decide)), ws_block_close, bump_bump]
      simp
    | cons d B'' =>
      simp only [blockBodyOk, Bool.and_eq_true, Bool.not_eq_true', Bool.and_eq_false_iff] at h
      obtain ⟨⟨_, hcd⟩, hrest⟩ := h
      have hstep : ¬ (c = 42 ∧ d = 47) := by
        intro ⟨h1, h2⟩
        rcases hcd with hh | hh
        · simp [h1] at hh
        · simp [h2] at hh
      have := ih hrest
      simp only [List.cons_append] at this ⊢
      rw [ws_block_step _ _ _ _ hstep, this, bump_bump]
      simp

theorem gapOK_block (care : Bool) (B : Bytes) (h : blockBodyOk B = true) : GapOK care ([47, 42] ++ B ++ [42, 47]) := by
  intro tail
  have e : [47, 42] ++ B ++ [42, 47] ++ tail = 47 :: 42 :: (B ++ 42 :: 47 :: tail) := by simp
  rw [e, ws_open_block, block_skip care B tail h, bump_bump]
  simp

theorem line_skip (T tail : Bytes) (h : lineTextOk T = true) :
    wsGo false .line (T ++ 10 :: tail) = bump (T.length + 1) (wsGo false .norm tail) := by
  induction T with
  | nil => simpa using ws_line_close tail
  | cons c T' ih =>
    simp only [lineTextOk, List.all_cons, Bool.and_eq_true, bne_iff_ne, ne_eq] at h
    have h' : lineTextOk T' = true := by simpa [lineTextOk] using h.2
    simp only [List.cons_append]
    rw [ws_line_step _ _ _ h.1.2, ih h', bump_bump]
    simp

theorem gapOK_line (T : Bytes) (h : lineTextOk T = true) : GapOK false ([47, 47] ++ T ++ [10]) := by
  intro tail
  have e : [47, 47] ++ T ++ [10] ++ tail = 47 :: 47 :: (T ++ 10 :: tail) := by simp
  rw [e, ws_open_line, line_skip T tail h, bump_bump]
  simp

theorem blockBodyOk_nil : blockBodyOk [] = true := rfl
theorem lineTextOk_nil : lineTextOk [] = true := rfl

theorem wsByteOk_space (c : UInt8) (h : wsByteOk c = true) : isSpaceC c = true ∧ c ≠ 10 := by
  simp only [wsByteOk, Bool.or_eq_true, beq_iff_eq] at h
  rcases h with (((h | h) | h) | h) | h <;> subst h <;> decide

theorem gapOK_wsByte (care : Bool) (c : UInt8) : GapOK care [if wsByteOk c then c else 32] := by
  by_cases h : wsByteOk c = true
  · rw [if_pos h]; exact ws_space care c (wsByteOk_space c h).1 (wsByteOk_space c h).2
  · rw [if_neg h]; exact gapOK_sp care

theorem gapOK_blockOpt (care : Bool) (B : Bytes) :
    GapOK care ([47, 42] ++ (if blockBodyOk B then B else []) ++ [42, 47]) := by
  by_cases h : blockBodyOk B = true
  · rw [if_pos h]; exact gapOK_block care B h
  · rw [if_neg h]; exact gapOK_block care [] rfl

theorem gapOK_lineOpt (T : Bytes) : GapOK false ([47, 47] ++ (if lineTextOk T then T else []) ++ [10]) := by
  by_cases h : lineTextOk T = true
  · rw [if_pos h]; exact gapOK_line T h
  · rw [if_neg h]; exact gapOK_line [] rfl

/-- every piece rendered for a newline-free position is skipped with and without `care_eof` -/
theorem renderPiece_flat_ok (care : Bool) (p : GapPiece) : GapOK care (renderPiece true p) := by
  cases p with
  | ws c => exact gapOK_wsByte care c
  | nl => simpa [renderPiece] using gapOK_sp care
  | block B => exact gapOK_blockOpt care B
  | line T => simpa [renderPiece] using gapOK_blockOpt care T

theorem renderPiece_any_ok (p : GapPiece) : GapOK false (renderPiece false p) := by
  cases p with
  | ws c => exact gapOK_wsByte false c
  | nl => simpa [renderPiece] using ws_nl
  | block B => exact gapOK_blockOpt false B
  | line T => simpa [renderPiece] using gapOK_lineOpt T

theorem renderPieces_flat_ok (care : Bool) (ps : List GapPiece) : GapOK care (renderPieces true ps) := by
  induction ps with
  | nil => exact gapOK_nil care
  | cons p ps ih => exact gapOK_append (renderPiece_flat_ok care p) ih

theorem renderPieces_any_ok (ps : List GapPiece) : GapOK false (renderPieces false ps) := by
  induction ps with
  | nil => exact gapOK_nil false
  | cons p ps ih => exact gapOK_append (renderPiece_any_ok p) ih

theorem gapFlat_ok (care : Bool) (g : Nat) : GapOK care (gapFlat g) := by
  unfold gapFlat
  by_cases hg : g < 36
  · rw [if_pos hg, gapTableFlat_lit]
    rcases mod10_cases g with h | h | h | h | h | h | h | h | h | h <;> rw [h] <;> simp only [List.getD_cons_zero, List.getD_cons_succ]
    · exact gapOK_nil care
    · exact gapOK_sp care
    · exact gapOK_sp care
    · exact gapOK_tab care
    · exact gapOK_c4 care
    · exact gapOK_c4 care
    · simpa using gapOK_append (gapOK_sp care) (gapOK_sp care)
    · exact gapOK_c7 care
    · simpa using gapOK_append (gapOK_sp care) (gapOK_append (gapOK_c8core care) (gapOK_sp care))
    · simpa using gapOK_append (gapOK_tab care) (gapOK_append (gapOK_c9core care) (gapOK_sp care))
  · rw [if_neg hg]; exact renderPieces_flat_ok care _

theorem gapAny_ok (g : Nat) : GapOK false (gapAny g) := by
  unfold gapAny
  by_cases hg : g < 36
  · rw [if_pos hg, gapTable_lit]
    rcases mod10_cases g with h | h | h | h | h | h | h | h | h | h <;> rw [h] <;> simp only [List.getD_cons_zero, List.getD_cons_succ]
    · exact gapOK_nil false
    · exact gapOK_sp false
    · exact ws_nl
    · exact gapOK_tab false
    · exact gapOK_c4 false
    · exact gapOK_line5
    · simpa using gapOK_append (gapOK_sp false) (gapOK_sp false)
    · exact gapOK_c7 false
    · simpa using gapOK_append (gapOK_sp false) (gapOK_append (gapOK_c8core false) (gapOK_sp false))
    · simpa using gapOK_append ws_nl (gapOK_append (gapOK_tab false) (gapOK_append gapOK_line9 (gapOK_sp false)))
  · rw [if_neg hg]; exact renderPieces_any_ok _

end Iauthd.Conf
