import Iauthd.Conf.ProofsHeap
/-
  C15, values: after a successful load the live tree is *settled* with respect to the
  file — every node the file mentions carries the file's value (with a consistent cached
  parse), every other node is registered and sits at its registered default, nothing
  else is left (`load_settles`) — and loading the same content again changes nothing and
  notifies nobody (`load_idempotent`).
-/
set_option linter.unusedSimpArgs false
namespace Iauthd.Conf

/-! ### the tree up to ownership tokens -/

def stripO (o : Option OStr) : Option OStr := o.map fun x => ⟨0, x.val⟩

mutual
def strip : Node → Node
  | .inaddr b h s dh ds => .inaddr b (stripO h) (stripO s) dh ds
  | .obj b kids => .obj b (stripL kids)
  | .str b v d sub p => .str b v d sub p.norm
  | .list b v c d => .list b v c d
def stripL : List Node → List Node
  | [] => []
  | n :: ns => strip n :: stripL ns
end

/-- the cached parse agrees with the value (so that seeing the same value again is not a change) -/
def cacheOK (sv : Bool) (sub : SubTy) (value : Option Bytes) (parsed : Parsed) : Prop :=
  match value with
  | none => parsed.isZero = true
  | some v =>
    match sub with
    | .plain => parsed = .ptr v
    | .float => False
    | _ => (parseTyped sv sub v).2 = true → typedSame parsed (parseTyped sv sub v).1 = true

/-- the value of a node is its registered default -/
def ValDefault (sv : Bool) : Node → Prop
  | .str _ v d sub parsed => v = d ∧ cacheOK sv sub d parsed
  | .inaddr _ h s dh ds => h.map (·.val) = dh ∧ s.map (·.val) = ds
  | .list _ v _ d => v = d
  | .obj _ _ => True

/-- a node the file does not mention: registered, not present, at its registered default -/
def AtDefault (sv : Bool) (t : Node) : Prop :=
  t.base.present = false ∧ t.base.specified = true ∧ ValDefault sv t

mutual
/-- a live node carries what the file says for it -/
inductive NodeSettled (sv : Bool) : PNode → Node → Prop where
  | str {n v b d sub parsed} : b.present = true → cacheOK sv sub (some v) parsed →
      NodeSettled sv (.str n v) (.str b (some v) d sub parsed)
  | inaddr {n host svc b ho so dh ds} : b.present = true → ho.val = host → so.map (·.val) = orElse' svc ds →
      NodeSettled sv (.inaddr n host svc) (.inaddr b (some ho) so dh ds)
  | list {n items c b cap d} : b.present = true → NodeSettled sv (.list n items c) (.list b items cap d)
  | obj {n pk b kids} : b.present = true → Settled sv pk kids → NodeSettled sv (.obj n pk) (.obj b kids)
/-- a list of live siblings is aligned with the file's entries for their parent -/
inductive Settled (sv : Bool) : List PNode → List Node → Prop where
  | nil : Settled sv [] []
  | both {p ps t ts} : t.name = p.name → t.kind = p.kind → NodeSettled sv p t → Settled sv ps ts →
      Settled sv (p :: ps) (t :: ts)
  | absent {ps t ts} : AtDefault sv t →
      (∀ p ps', ps = p :: ps' → keyCmp t.name t.kind p.name p.kind < 0) → Settled sv ps ts →
      Settled sv ps (t :: ts)
end


theorem strcasecmp_self (x : Bytes) : Bytes.strcasecmp x x = 0 := by
  induction x with
  | nil => rfl
  | cons a as ih => simp [Bytes.strcasecmp, ih]

theorem keyCmp_self (n : Bytes) (k : Nat) : keyCmp n k n k = 0 := by
  simp [keyCmp, strcasecmp_self]

theorem toLive_name_kind (V : Variant) (p : PNode) (h : Heap) :
    (toLive V p h).1.name = p.name ∧ (toLive V p h).1.kind = p.kind := by
  cases p <;> simp [toLive, Node.name, Node.base, Node.kind, PNode.name, PNode.kind]

mutual
theorem toLive_settled (V : Variant) (h14 : V.f14 = true) (sv : Bool) :
    (p : PNode) → ∀ h, NodeSettled sv p (toLive V p h).1
  | .str n v, h => by
    simp only [toLive, h14, if_true]
    exact .str rfl (by simp [cacheOK])
  | .inaddr n host svc, h => by
    simp only [toLive]
    refine .inaddr rfl rfl ?_
    cases svc <;> simp [Heap.dupOpt, Heap.alloc, orElse']
  | .list n xs c, h => by simp only [toLive]; exact .list rfl
  | .obj n kids, h => by simp only [toLive]; exact .obj rfl (toLiveList_settled V h14 sv kids h)
theorem toLiveList_settled (V : Variant) (h14 : V.f14 = true) (sv : Bool) :
    (ps : List PNode) → ∀ h, Settled sv ps (toLiveList V ps h).1
  | [], h => by simp only [toLiveList]; exact .nil
  | p :: ps, h => by
    simp only [toLiveList]
    exact .both (toLive_name_kind V p h).1 (toLive_name_kind V p h).2 (toLive_settled V h14 sv p h)
      (toLiveList_settled V h14 sv ps _)
end


/-! ### what the per-node updates compute -/

theorem orElse'_none {a b : Option Bytes} (h : orElse' a b = none) : a = none := by
  cases a <;> simp_all [orElse']

theorem strParse_value (V : Variant) (sv : Bool) (value d : Option Bytes) (sub : SubTy) (parsed : Parsed) (hook : Bool)
    (r : StrRes) (h : strParse V sv value d sub parsed hook = .ok r) :
    r.value = orElse' value d ∧ cacheOK sv sub r.value r.parsed := by
  unfold strParse at h
  generalize hv : orElse' value d = ov at *
  cases ov with
  | none =>
    simp at h; subst h
    simp [cacheOK, Parsed.isZero]
  | some v =>
    simp only at h
    unfold strParseSome at h
    cases sub with
    | plain =>
      cases parsed with
      | zero => simp at h; subst h; simp [cacheOK]
      | ptr b => simp at h; subst h; simp [cacheOK]
      | num n =>
        dsimp only at h
        split at h
        · simp at h; subst h; simp [cacheOK]
        · simp at h
    | float => simp at h
    | boolean | integer | interval | volume =>
      all_goals
        dsimp only at h
        split at h
        · rename_i hnok
          simp at h; subst h
          simp only [cacheOK, true_and]
          intro hok; simp [hok] at hnok
        · split at h
          · rename_i hsame
            simp at h; subst h
            simp only [cacheOK, true_and]
            intro _; exact hsame
          · simp at h; subst h
            simp [cacheOK, typedSame]

theorem strParse_idem (V : Variant) (sv : Bool) (value d : Option Bytes) (sub : SubTy) (parsed : Parsed) (hook : Bool)
    (r : StrRes) (hc : cacheOK sv sub (orElse' value d) parsed)
    (h : strParse V sv value d sub parsed hook = .ok r) :
    r.value = orElse' value d ∧ r.parsed.norm = parsed.norm ∧ r.fire = false := by
  unfold strParse at h
  generalize hv : orElse' value d = ov at *
  cases ov with
  | none =>
    have hval := orElse'_none hv
    simp at h; subst h
    simp only [cacheOK] at hc
    cases parsed <;> simp_all [Parsed.isZero, Parsed.norm]
  | some v =>
    simp only at h
    unfold strParseSome at h
    cases sub with
    | plain =>
      simp only [cacheOK] at hc
      subst hc
      simp at h; subst h; simp
    | float => simp at h
    | boolean | integer | interval | volume =>
      all_goals
        simp only [cacheOK] at hc
        dsimp only at h
        split at h
        · simp at h; subst h; simp
        · rename_i hok
          have := hc (by simpa using hok)
          simp [this] at h; subst h; simp


/-- `!a != !b || (a && b && strcasecmp(a, b))` on values -/
def ciDiff (a b : Option Bytes) : Bool :=
  (a.isSome != b.isSome) || (match a, b with | some x, some y => Bytes.strcasecmp x y != 0 | _, _ => false)

theorem ciDiff_self (a : Option Bytes) : ciDiff a a = false := by
  cases a <;> simp [ciDiff, strcasecmp_self]

theorem read_val {h : Heap} {site : String} {x : OStr} {v : Bytes} (hr : h.read site x = .ok v) : v = x.val := by
  unfold Heap.read at hr; split at hr <;> simp at hr; exact hr.symm

theorem ciPart_val (h : Heap) (site : String) (a b : Option OStr) (c : Bool) (hc : ciPart h site a b = .ok c) :
    c = ciDiff (a.map (·.val)) (b.map (·.val)) := by
  cases a with
  | none => cases b <;> simp [ciPart] at hc <;> subst hc <;> simp [ciDiff]
  | some x =>
    cases b with
    | none => simp [ciPart] at hc; subst hc; simp [ciDiff]
    | some y =>
      simp only [ciPart, Option.isSome_some, bne_self_eq_false, Bool.false_eq_true, if_false, bind, Except.bind] at hc
      cases hx : h.read site x with
      | error f => simp [hx] at hc
      | ok xv =>
        cases hy : h.read site y with
        | error f => simp [hx, hy] at hc
        | ok yv =>
          simp [hx, hy] at hc
          simp [ciDiff, ← read_val hx, ← read_val hy, hc]

/-- what the comparison of the CONF_INADDR case decides, on values -/
def pairDiff (h oh s os : Option Bytes) : Bool := ciDiff h oh || ciDiff s os

theorem inaddrChanged_val (h : Heap) (host oh svc os : Option OStr) (c : Bool)
    (hc : inaddrChanged h host oh svc os = .ok c) :
    c = pairDiff (host.map (·.val)) (oh.map (·.val)) (svc.map (·.val)) (os.map (·.val)) := by
  unfold inaddrChanged at hc
  simp only [bind, Except.bind] at hc
  cases h1 : ciPart h "strcasecmp(target->hostname, orig_hostname)" host oh with
  | error f => simp [h1] at hc
  | ok c1 =>
    have e1 := ciPart_val _ _ _ _ _ h1
    simp only [h1] at hc
    cases c1 with
    | true => simp at hc; simp [pairDiff, ← e1, hc]
    | false =>
      simp at hc
      have e2 := ciPart_val _ _ _ _ _ hc
      simp [pairDiff, ← e1, e2]

theorem pickOrDup_val (x : Option OStr) (d : Option Bytes) (hp : Heap) :
    (pickOrDup x d hp).1.map (·.val) = orElse' (x.map (·.val)) d := by
  cases x with
  | some x => simp [pickOrDup, orElse']
  | none => cases d <;> simp [pickOrDup, orElse', Heap.dupOpt, Heap.alloc]

theorem fire_hooks (x : Eff) (c : Bool) (k : Nat) (p : List Bytes) :
    (x.fire c k p).hooks = x.hooks ++ (if c then [⟨k, p⟩] else []) := by
  unfold Eff.fire; split <;> simp_all

theorem updInaddr_val (V : Variant) (h9 : V.f9 = true) (path : List Bytes) (b : Base) (oh os sh ss : Option OStr) (dh ds : Option Bytes)
    (e e' : Eff) (n : Node) (h : updInaddr V path b oh os dh ds (some (sh, ss)) e = .ok (n, e')) :
    ∃ host svc, n = .inaddr b host svc dh ds ∧
      host.map (·.val) = orElse' (sh.map (·.val)) dh ∧ svc.map (·.val) = orElse' (ss.map (·.val)) ds ∧
      e'.hooks = e.hooks ++ (if pairDiff (host.map (·.val)) (oh.map (·.val)) (svc.map (·.val)) (os.map (·.val)) && b.hook
                              then [⟨1, path⟩] else []) := by
  unfold updInaddr at h
  simp only [h9, if_true, bind, Except.bind] at h
  split at h
  · simp at h
  · rename_i c hc
    have hcv := inaddrChanged_val _ _ _ _ _ _ hc
    split at h
    · simp at h
    · split at h
      · simp at h
      · simp at h
        obtain ⟨hn, he⟩ := h
        refine ⟨_, _, hn.symm, pickOrDup_val _ _ _, pickOrDup_val _ _ _, ?_⟩
        subst he
        simp only [fire_hooks]
        rw [← hcv]


/-! ### one node: in both trees / only in the live tree -/

theorem finishNode_present (n : Node) (e : Eff) :
    finishNode n true e = .ok (some (n.setBase { n.base with present := true }), e) := by
  simp [finishNode]

theorem finishNode_absent (n : Node) (e e' : Eff) (r : Option Node) (h : finishNode n false e = .ok (r, e')) :
    (r = none ∧ n.base.specified = false) ∨
    (r = some (n.setBase { n.base with present := false }) ∧ e' = e ∧ n.base.specified = true) := by
  unfold finishNode at h
  dsimp only at h
  cases hs : n.base.specified with
  | false =>
    simp [hs, bind, Except.bind] at h
    split at h <;> simp at h
    exact .inl ⟨h.1.symm, rfl⟩
  | true =>
    simp [hs] at h
    obtain ⟨h1, h2⟩ := h
    subst h1 h2
    exact .inr ⟨by simp [hs], rfl, rfl⟩

theorem setList_val (v : List Bytes) (cap : Bool) (new : List Bytes) : (setList v cap new).1 = new := by
  unfold setList
  split
  · rename_i h; simpa using h
  · rfl

theorem setBase_name_kind (n : Node) (b : Base) : (n.setBase b).kind = n.kind ∧ (n.setBase b).base = b := by
  cases n <;> simp [Node.setBase, Node.kind, Node.base]

/-- in both trees: the live node takes the file's value -/
theorem leaf_settles (V : Variant) (h9 : V.f9 = true) (sv : Bool) (path : List Bytes) (t : Node) (p : PNode) (h0 : Heap)
    (e e' : Eff) (n : Node) (hk : t.kind ≠ 3) (hkind : p.kind = t.kind)
    (h : replaceLeaf V sv path t (some (toLive V p h0).1) e = .ok (n, e')) :
    NodeSettled sv p (n.setBase { n.base with present := true }) ∧ n.base.name = t.base.name ∧ n.kind = t.kind := by
  cases t with
  | obj b k => simp [Node.kind] at hk
  | str b v d sub parsed =>
    cases p with
    | str pn pv =>
      simp only [toLive, replaceLeaf, bind, Except.bind] at h
      split at h
      · simp at h
      · rename_i r hr
        obtain ⟨hv1, hv2⟩ := strParse_value _ _ _ _ _ _ _ _ hr
        simp at h
        obtain ⟨hn, _⟩ := h
        subst hn
        simp only [orElse'] at hv1
        rw [hv1] at hv2
        refine ⟨?_, rfl, rfl⟩
        simp only [Node.setBase, Node.base, hv1]
        exact .str rfl hv2
    | _ => simp [PNode.kind, Node.kind] at hkind
  | list b v cap d =>
    cases p with
    | list pn items c =>
      simp only [toLive, replaceLeaf] at h
      simp at h
      obtain ⟨hn, _⟩ := h
      subst hn
      refine ⟨?_, rfl, rfl⟩
      simp only [Node.setBase, Node.base, setList_val]
      exact .list rfl
    | _ => simp [PNode.kind, Node.kind] at hkind
  | inaddr b oh os dh ds =>
    cases p with
    | inaddr pn host svc =>
      simp only [toLive, replaceLeaf] at h
      obtain ⟨nh, ns, hn, hh, hs, _⟩ := updInaddr_val V h9 path b oh os _ _ dh ds e e' n h
      subst hn
      refine ⟨?_, rfl, rfl⟩
      simp only [Node.setBase, Node.base]
      cases nh with
      | none => simp [Heap.alloc, orElse'] at hh
      | some ho =>
        refine .inaddr rfl ?_ ?_
        · simpa [Heap.alloc, orElse'] using hh
        · rw [hs]
          cases svc <;> simp [Heap.dupOpt, Heap.alloc, orElse']
    | _ => simp [PNode.kind, Node.kind] at hkind


theorem valDefault_setBase (sv : Bool) (n : Node) (b : Base) : ValDefault sv (n.setBase b) ↔ ValDefault sv n := by
  cases n <;> simp [Node.setBase, ValDefault]

theorem updInaddr_none (V : Variant) (path : List Bytes) (b : Base) (oh os : Option OStr) (dh ds : Option Bytes) (e : Eff) :
    updInaddr V path b oh os dh ds none e = updInaddr V path b oh os dh ds (some (none, none)) e := by
  simp [updInaddr]

/-- only in the live tree: the node goes back to its default -/
theorem leaf_reverts (V : Variant) (h9 : V.f9 = true) (sv : Bool) (path : List Bytes) (t : Node)
    (e e' : Eff) (n : Node) (hk : t.kind ≠ 3) (h : replaceLeaf V sv path t none e = .ok (n, e')) :
    ValDefault sv n ∧ n.base = t.base ∧ n.kind = t.kind := by
  cases t with
  | obj b k => simp [Node.kind] at hk
  | str b v d sub parsed =>
    simp only [replaceLeaf, bind, Except.bind] at h
    split at h
    · simp at h
    · rename_i r hr
      obtain ⟨hv1, hv2⟩ := strParse_value _ _ _ _ _ _ _ _ hr
      simp at h
      obtain ⟨hn, _⟩ := h
      subst hn
      simp only [orElse'] at hv1
      rw [hv1] at hv2
      exact ⟨⟨hv1, hv2⟩, rfl, rfl⟩
  | list b v cap d =>
    simp only [replaceLeaf] at h
    simp at h
    obtain ⟨hn, _⟩ := h
    subst hn
    exact ⟨by simp [ValDefault, setList_val], rfl, rfl⟩
  | inaddr b oh os dh ds =>
    simp only [replaceLeaf, updInaddr_none] at h
    obtain ⟨nh, ns, hn, hh, hs, _⟩ := updInaddr_val V h9 path b oh os _ _ dh ds e e' n h
    subst hn
    exact ⟨⟨by simpa [orElse'] using hh, by simpa [orElse'] using hs⟩, rfl, rfl⟩


theorem stripO_eq {a b : Option OStr} (h : a.map (·.val) = b.map (·.val)) : stripO a = stripO b := by
  cases a <;> cases b <;> simp_all [stripO]

theorem base_present_eta (b : Base) (v : Bool) (h : b.present = v) : { b with present := v } = b := by
  cases b; simp_all

theorem fire_false (x : Eff) (k : Nat) (p : List Bytes) : x.fire false k p = x := by
  simp [Eff.fire]

/-- in both trees and already settled: nothing changes, nobody is told -/
theorem leaf_idem_both (V : Variant) (h9 : V.f9 = true) (sv : Bool) (path : List Bytes) (t : Node) (p : PNode) (h0 : Heap)
    (e e' : Eff) (n : Node) (hk : t.kind ≠ 3) (hs : NodeSettled sv p t)
    (h : replaceLeaf V sv path t (some (toLive V p h0).1) e = .ok (n, e')) :
    strip (n.setBase { n.base with present := true }) = strip t ∧ e'.hooks = e.hooks := by
  cases hs with
  | obj _ _ => simp [Node.kind] at hk
  | @str pn v b d sub parsed hp hc =>
    simp only [toLive, replaceLeaf, bind, Except.bind] at h
    split at h
    · simp at h
    · rename_i r hr
      obtain ⟨i1, i2, i3⟩ := strParse_idem _ _ _ _ _ _ _ _ (by simpa [orElse'] using hc) hr
      simp at h
      obtain ⟨hn, he⟩ := h
      subst hn he
      simp only [orElse'] at i1
      simp only [Node.setBase, Node.base, strip, i1, i2, i3, fire_false, base_present_eta b true hp, and_self]
  | @list pn items c b cap d hp =>
    simp only [toLive, replaceLeaf, setList, beq_self_eq_true, if_true] at h
    simp at h
    obtain ⟨hn, he⟩ := h
    subst hn he
    simp only [Node.setBase, Node.base, strip, fire_false, base_present_eta b true hp, and_self]
  | @inaddr pn host svc b ho so dh ds hp hh hsv =>
    simp only [toLive, replaceLeaf] at h
    obtain ⟨nh, ns, hn, e1, e2, e3⟩ := updInaddr_val V h9 path b (some ho) so _ _ dh ds e e' n h
    subst hn
    have v1 : nh.map (·.val) = (some ho).map (·.val) := by
      rw [e1]; simp [orElse', Heap.alloc, hh]
    have v2 : ns.map (·.val) = so.map (·.val) := by
      rw [e2, hsv]; cases svc <;> simp [orElse', Heap.dupOpt, Heap.alloc]
    refine ⟨?_, ?_⟩
    · simp only [Node.setBase, Node.base, strip, base_present_eta b true hp, stripO_eq v1, stripO_eq v2]
    · rw [e3, v1, v2]; simp [pairDiff, ciDiff_self]

/-- only in the live tree and already at its default: nothing changes, nobody is told -/
theorem leaf_idem_absent (V : Variant) (h9 : V.f9 = true) (sv : Bool) (path : List Bytes) (t : Node)
    (e e' : Eff) (n : Node) (hk : t.kind ≠ 3) (hd : AtDefault sv t)
    (h : replaceLeaf V sv path t none e = .ok (n, e')) :
    strip (n.setBase { n.base with present := false }) = strip t ∧ e'.hooks = e.hooks := by
  obtain ⟨hp, _, hv⟩ := hd
  cases t with
  | obj b k => simp [Node.kind] at hk
  | str b v d sub parsed =>
    obtain ⟨hvd, hc⟩ := hv
    subst hvd
    simp only [replaceLeaf, bind, Except.bind] at h
    split at h
    · simp at h
    · rename_i r hr
      obtain ⟨i1, i2, i3⟩ := strParse_idem _ _ _ _ _ _ _ _ (by simpa [orElse'] using hc) hr
      simp at h
      obtain ⟨hn, he⟩ := h
      subst hn he
      simp only [orElse'] at i1
      simp only [Node.base] at hp
      simp only [Node.setBase, Node.base, strip, i1, i2, i3, fire_false, base_present_eta b false hp, and_self]
  | list b v cap d =>
    simp only [ValDefault] at hv
    subst hv
    simp only [replaceLeaf, setList, beq_self_eq_true, if_true] at h
    simp at h
    obtain ⟨hn, he⟩ := h
    subst hn he
    simp only [Node.base] at hp
    simp only [Node.setBase, Node.base, strip, fire_false, base_present_eta b false hp, and_self]
  | inaddr b oh os dh ds =>
    obtain ⟨d1, d2⟩ := hv
    simp only [replaceLeaf, updInaddr_none] at h
    obtain ⟨nh, ns, hn, e1, e2, e3⟩ := updInaddr_val V h9 path b oh os _ _ dh ds e e' n h
    subst hn
    have v1 : nh.map (·.val) = oh.map (·.val) := by rw [e1, d1]; simp [orElse']
    have v2 : ns.map (·.val) = os.map (·.val) := by rw [e2, d2]; simp [orElse']
    simp only [Node.base] at hp
    refine ⟨?_, ?_⟩
    · simp only [Node.setBase, Node.base, strip, base_present_eta b false hp, stripO_eq v1, stripO_eq v2]
    · rw [e3, v1, v2]; simp [pairDiff, ciDiff_self]


/-! ### the whole walk -/

theorem bind_ok {ε α β : Type} {x : Except ε α} {f : α → Except ε β} {v : β} (h : (x >>= f) = .ok v) :
    ∃ a, x = .ok a ∧ f a = .ok v := by
  cases x with
  | error e => simp [bind, Except.bind] at h
  | ok a => exact ⟨a, rfl, h⟩

theorem toLive_obj_kind (V : Variant) (p : PNode) (h0 : Heap) (hk : p.kind = 3) :
    ∃ n pk, p = .obj n pk ∧ (toLive V p h0).1 = .obj ⟨n, true, false, false⟩ (toLiveList V pk h0).1 := by
  cases p with
  | obj n pk => exact ⟨n, pk, rfl, by simp [toLive]⟩
  | _ => simp [PNode.kind] at hk

theorem node_obj_of_kind (t : Node) (hk : t.kind = 3) : ∃ b kids, t = .obj b kids := by
  cases t with
  | obj b kids => exact ⟨b, kids, rfl⟩
  | _ => simp [Node.kind] at hk

theorem load_settles_aux (V : Variant) (h9 : V.f9 = true) (h14 : V.f14 = true) (sv : Bool) : ∀ fuel,
    (∀ pfx t p h0 e r e', p.kind = t.kind → replaceNode V sv fuel pfx t (some (toLive V p h0).1) e = .ok (r, e') →
      ∃ t', r = some t' ∧ NodeSettled sv p t' ∧ t'.base.name = t.base.name ∧ t'.kind = t.kind) ∧
    (∀ pfx t e r e', replaceNode V sv fuel pfx t none e = .ok (r, e') →
      r = none ∨ ∃ t', r = some t' ∧ AtDefault sv t' ∧ t'.base.name = t.base.name ∧ t'.kind = t.kind) ∧
    (∀ pfx ts ps h0 e rs m e', walk V sv fuel pfx ts (toLiveList V ps h0).1 e = .ok (rs, m, e') → Settled sv ps rs) ∧
    (∀ pfx ts e rs m e', revertAll V sv fuel pfx ts e = .ok (rs, m, e') → Settled sv [] rs) := by
  intro fuel
  induction fuel with
  | zero =>
    refine ⟨?_, ?_, ?_, ?_⟩ <;> intros <;> simp_all [replaceNode, walk, revertAll]
  | succ fuel ih =>
    obtain ⟨ihS, ihN, ihW, ihA⟩ := ih
    refine ⟨?_, ?_, ?_, ?_⟩
    · -- in both
      intro pfx t p h0 e r e' hkind h
      by_cases hleaf : t.kind ≠ 3
      · rw [replaceNode_leaf V sv fuel pfx t _ e hleaf] at h
        obtain ⟨⟨n, e1⟩, hl, hfin⟩ := bind_ok h
        obtain ⟨s1, s2, s3⟩ := leaf_settles V h9 sv _ t p h0 e e1 n hleaf hkind hl
        simp only [Option.isSome_some, finishNode_present] at hfin
        simp at hfin
        refine ⟨_, hfin.1.symm, s1, ?_, ?_⟩
        · rw [(setBase_name_kind _ _).2]; exact s2
        · rw [(setBase_name_kind _ _).1]; exact s3
      · have hk3 : t.kind = 3 := by omega
        obtain ⟨b, kids, rfl⟩ := node_obj_of_kind t hk3
        obtain ⟨n, pk, rfl, hs⟩ := toLive_obj_kind V p h0 (by rw [hkind, hk3])
        rw [hs] at h
        simp only [replaceNode] at h
        obtain ⟨⟨kids', m, e1⟩, hw, hfin⟩ := bind_ok h
        have st := ihW _ _ _ _ _ _ _ _ hw
        simp only [finishNode_present] at hfin
        simp at hfin
        exact ⟨_, hfin.1.symm, by simpa [Node.setBase, Node.base] using NodeSettled.obj (b := { b with present := true }) rfl st, rfl, rfl⟩
    · -- only in the live tree
      intro pfx t e r e' h
      by_cases hleaf : t.kind ≠ 3
      · rw [replaceNode_leaf V sv fuel pfx t _ e hleaf] at h
        obtain ⟨⟨n, e1⟩, hl, hfin⟩ := bind_ok h
        obtain ⟨s1, s2, s3⟩ := leaf_reverts V h9 sv _ t e e1 n hleaf hl
        simp only [Option.isSome_none] at hfin
        rcases finishNode_absent n e1 e' r hfin with ⟨hr, _⟩ | ⟨hr, _, hsp⟩
        · exact .inl hr
        · refine .inr ⟨_, hr, ⟨?_, ?_, (valDefault_setBase sv n _).mpr s1⟩, ?_, ?_⟩
          · rw [(setBase_name_kind _ _).2]
          · rw [(setBase_name_kind _ _).2]; exact hsp
          · rw [(setBase_name_kind _ _).2, s2]
          · rw [(setBase_name_kind _ _).1]; exact s3
      · have hk3 : t.kind = 3 := by omega
        obtain ⟨b, kids, rfl⟩ := node_obj_of_kind t hk3
        simp only [replaceNode] at h
        have key : ∀ (kids' : List Node) (e1 : Eff), finishNode (.obj b kids') false e1 = .ok (r, e') →
            r = none ∨ ∃ t', r = some t' ∧ AtDefault sv t' ∧ t'.base.name = (Node.obj b kids).base.name ∧ t'.kind = (Node.obj b kids).kind := by
          intro kids' e1 hfin
          rcases finishNode_absent _ e1 e' r hfin with ⟨hr, _⟩ | ⟨hr, _, hsp⟩
          · exact .inl hr
          · exact .inr ⟨_, hr, ⟨rfl, hsp, trivial⟩, rfl, rfl⟩
        split at h
        · obtain ⟨⟨kids', m, e1⟩, _, hfin⟩ := bind_ok h
          exact key _ _ hfin
        · exact key _ _ h
    · -- walk
      intro pfx ts ps h0 e rs m e' h
      cases ts with
      | nil =>
        cases ps with
        | nil =>
          simp [toLiveList, walk] at h
          rw [h.1]; exact .nil
        | cons p ps =>
          simp only [toLiveList, walk] at h
          obtain ⟨⟨rest, m1, e1⟩, hw, hrest⟩ := bind_ok h
          simp at hrest
          rw [← hrest.1]
          exact .both (toLive_name_kind V p h0).1 (toLive_name_kind V p h0).2 (toLive_settled V h14 sv p h0)
            (ihW _ _ _ _ _ _ _ _ hw)
      | cons t ts =>
        cases ps with
        | nil =>
          simp only [toLiveList, walk] at h
          obtain ⟨⟨r, e1⟩, hr, h2⟩ := bind_ok h
          obtain ⟨⟨rest, m1, e2⟩, hw, hrest⟩ := bind_ok h2
          simp at hrest
          rw [← hrest.1]
          have st := ihW pfx ts [] h0 e1 rest m1 e2 (by simpa [toLiveList] using hw)
          rcases ihN _ _ _ _ _ hr with rfl | ⟨t', rfl, hd, _, _⟩
          · simpa using st
          · exact .absent hd (by intro p ps' hp; simp at hp) st
        | cons p ps =>
          simp only [toLiveList, walk] at h
          have hnk := toLive_name_kind V p h0
          have hnk1 : (toLive V p h0).1.base.name = p.name := hnk.1
          by_cases hgt : keyCmp t.name t.kind (toLive V p h0).1.name (toLive V p h0).1.kind > 0
          · simp only [hgt, if_true] at h
            obtain ⟨⟨rest, m1, e1⟩, hw, hrest⟩ := bind_ok h
            simp at hrest
            rw [← hrest.1]
            exact .both hnk.1 hnk.2 (toLive_settled V h14 sv p h0) (ihW _ _ _ _ _ _ _ _ hw)
          · simp only [hgt, if_false] at h
            by_cases hlt : keyCmp t.name t.kind (toLive V p h0).1.name (toLive V p h0).1.kind < 0
            · simp only [hlt, if_true] at h
              obtain ⟨⟨r, e1⟩, hr, h2⟩ := bind_ok h
              obtain ⟨⟨rest, m1, e2⟩, hw, hrest⟩ := bind_ok h2
              simp at hrest
              rw [← hrest.1]
              have st := ihW pfx ts (p :: ps) h0 e1 rest m1 e2 (by simpa [toLiveList] using hw)
              rcases ihN _ _ _ _ _ hr with rfl | ⟨t', rfl, hd, hn', hk'⟩
              · simpa using st
              · refine .absent hd ?_ st
                intro p' ps' hp
                simp at hp
                obtain ⟨rfl, _⟩ := hp
                simp only [Node.name] at hlt ⊢
                rw [hn', hk']
                rw [hnk1, hnk.2] at hlt
                exact hlt
            · simp only [hlt, if_false] at h
              have heq : keyCmp t.name t.kind (toLive V p h0).1.name (toLive V p h0).1.kind = 0 := by omega
              obtain ⟨⟨r, e1⟩, hr, h2⟩ := bind_ok h
              obtain ⟨⟨rest, m1, e2⟩, hw, hrest⟩ := bind_ok h2
              simp at hrest
              rw [← hrest.1]
              have hkind : p.kind = t.kind := by rw [← hnk.2]; exact (keyCmp_zero_kind heq).symm
              obtain ⟨t', rfl, hs, hn', hk'⟩ := ihS _ (t.rename (toLive V p h0).1.name) _ _ _ _ _ (by simpa using hkind) hr
              refine .both ?_ ?_ hs (ihW _ _ _ _ _ _ _ _ hw)
              · have := Node.rename_name t (toLive V p h0).1.name
                show t'.base.name = p.name
                rw [hn']; exact this.trans hnk.1
              · rw [hk', Node.rename_kind, hkind]
    · -- revertAll
      intro pfx ts e rs m e' h
      cases ts with
      | nil => simp [revertAll] at h; rw [h.1]; exact .nil
      | cons t ts =>
        simp only [revertAll] at h
        obtain ⟨⟨r, e1⟩, hr, h2⟩ := bind_ok h
        obtain ⟨⟨rest, m1, e2⟩, hw, hrest⟩ := bind_ok h2
        simp at hrest
        rw [← hrest.1]
        have st := ihA _ _ _ _ _ _ hw
        rcases ihN _ _ _ _ _ hr with rfl | ⟨t', rfl, hd, _, _⟩
        · simpa using st
        · exact .absent hd (by intro p ps' hp; simp at hp) st


theorem stripL_append (a b : List Node) : stripL (a ++ b) = stripL a ++ stripL b := by
  induction a with
  | nil => simp [stripL]
  | cons x xs ih => simp [stripL, ih]

theorem reload_idem_aux (V : Variant) (h9 : V.f9 = true) (sv : Bool) : ∀ fuel,
    (∀ pfx t p h0 e r e', NodeSettled sv p t → replaceNode V sv fuel pfx t (some (toLive V p h0).1) e = .ok (r, e') →
      ∃ t', r = some t' ∧ strip t' = strip t ∧ e'.hooks = e.hooks) ∧
    (∀ pfx t e r e', AtDefault sv t → replaceNode V sv fuel pfx t none e = .ok (r, e') →
      ∃ t', r = some t' ∧ strip t' = strip t ∧ e'.hooks = e.hooks) ∧
    (∀ pfx ts ps h0 e rs m e', Settled sv ps ts → walk V sv fuel pfx ts (toLiveList V ps h0).1 e = .ok (rs, m, e') →
      stripL rs = stripL ts ∧ m = false ∧ e'.hooks = e.hooks) := by
  intro fuel
  induction fuel with
  | zero => refine ⟨?_, ?_, ?_⟩ <;> intros <;> simp_all [replaceNode, walk]
  | succ fuel ih =>
    obtain ⟨ihS, ihN, ihW⟩ := ih
    refine ⟨?_, ?_, ?_⟩
    · intro pfx t p h0 e r e' hs h
      by_cases hleaf : t.kind ≠ 3
      · rw [replaceNode_leaf V sv fuel pfx t _ e hleaf] at h
        obtain ⟨⟨n, e1⟩, hl, hfin⟩ := bind_ok h
        obtain ⟨s1, s2⟩ := leaf_idem_both V h9 sv _ t p h0 e e1 n hleaf hs hl
        simp only [Option.isSome_some, finishNode_present] at hfin
        simp at hfin
        exact ⟨_, hfin.1.symm, s1, by rw [← hfin.2]; exact s2⟩
      · cases hs with
        | str _ _ => simp [Node.kind] at hleaf
        | inaddr _ _ _ => simp [Node.kind] at hleaf
        | list _ => simp [Node.kind] at hleaf
        | @obj n pk b kids hp hk =>
          simp only [toLive, replaceNode] at h
          obtain ⟨⟨kids', m, e1⟩, hw, hfin⟩ := bind_ok h
          obtain ⟨w1, w2, w3⟩ := ihW _ _ _ _ _ _ _ _ hk hw
          subst w2
          simp only [finishNode_present, Bool.false_and, fire_false] at hfin
          simp at hfin
          refine ⟨_, hfin.1.symm, ?_, by rw [← hfin.2]; exact w3⟩
          simp only [Node.setBase, Node.base, strip, w1, base_present_eta b true hp]
    · intro pfx t e r e' hd h
      by_cases hleaf : t.kind ≠ 3
      · rw [replaceNode_leaf V sv fuel pfx t _ e hleaf] at h
        obtain ⟨⟨n, e1⟩, hl, hfin⟩ := bind_ok h
        obtain ⟨s1, s2⟩ := leaf_idem_absent V h9 sv _ t e e1 n hleaf hd hl
        obtain ⟨_, hb, _⟩ := leaf_reverts V h9 sv _ t e e1 n hleaf hl
        simp only [Option.isSome_none] at hfin
        rcases finishNode_absent n e1 e' r hfin with ⟨_, hsp⟩ | ⟨hr, he, _⟩
        · rw [hb, hd.2.1] at hsp; simp at hsp
        · exact ⟨_, hr, s1, by rw [he]; exact s2⟩
      · have hk3 : t.kind = 3 := by omega
        obtain ⟨b, kids, rfl⟩ := node_obj_of_kind t hk3
        obtain ⟨hp, hsp, _⟩ := hd
        simp only [Node.base] at hp hsp
        simp only [replaceNode, hp, Bool.false_eq_true, if_false] at h
        rcases finishNode_absent _ e e' r h with ⟨_, hsp'⟩ | ⟨hr, he, _⟩
        · simp only [Node.base] at hsp'; rw [hsp] at hsp'; simp at hsp'
        · refine ⟨_, hr, ?_, by rw [he]⟩
          simp only [Node.setBase, Node.base, strip, base_present_eta b false hp]
    · intro pfx ts ps h0 e rs m e' hs h
      cases hs with
      | nil =>
        simp [toLiveList, walk] at h
        rw [h.1, h.2.1, h.2.2]; exact ⟨rfl, rfl, rfl⟩
      | @both p ps t ts hname hkd hn hrest =>
        simp only [toLiveList, walk] at h
        have hnk := toLive_name_kind V p h0
        have hnk1 : (toLive V p h0).1.name = p.name := hnk.1
        have heq : keyCmp t.name t.kind (toLive V p h0).1.name (toLive V p h0).1.kind = 0 := by
          rw [hnk1, hnk.2, hname, hkd]; exact keyCmp_self _ _
        have h1 : ¬ keyCmp t.name t.kind (toLive V p h0).1.name (toLive V p h0).1.kind > 0 := by omega
        have h2 : ¬ keyCmp t.name t.kind (toLive V p h0).1.name (toLive V p h0).1.kind < 0 := by omega
        simp only [h1, h2, if_false] at h
        rw [hnk1, ← hname, Node.rename_self] at h
        obtain ⟨⟨r, e1⟩, hr, h3⟩ := bind_ok h
        obtain ⟨⟨rest, m1, e2⟩, hw, hres⟩ := bind_ok h3
        simp at hres
        obtain ⟨t', rfl, st, he1⟩ := ihS _ _ _ _ _ _ _ hn hr
        obtain ⟨w1, w2, w3⟩ := ihW _ _ _ _ _ _ _ _ hrest hw
        rw [← hres.1, ← hres.2.1, ← hres.2.2]
        exact ⟨by simp [stripL, st, w1], by simp [w2], by rw [w3, he1]⟩
      | @absent ps t ts hd hord hrest =>
        cases ps with
        | nil =>
          simp only [toLiveList, walk] at h
          obtain ⟨⟨r, e1⟩, hr, h3⟩ := bind_ok h
          obtain ⟨⟨rest, m1, e2⟩, hw, hres⟩ := bind_ok h3
          simp at hres
          obtain ⟨t', rfl, st, he1⟩ := ihN _ _ _ _ _ hd hr
          obtain ⟨w1, w2, w3⟩ := ihW pfx ts [] h0 e1 rest m1 e2 hrest (by simpa [toLiveList] using hw)
          rw [← hres.1, ← hres.2.1, ← hres.2.2]
          exact ⟨by simp [stripL, st, w1], by simp [w2], by rw [w3, he1]⟩
        | cons p ps =>
          simp only [toLiveList, walk] at h
          have hnk := toLive_name_kind V p h0
          have hnk1 : (toLive V p h0).1.name = p.name := hnk.1
          have hlt : keyCmp t.name t.kind (toLive V p h0).1.name (toLive V p h0).1.kind < 0 := by
            rw [hnk1, hnk.2]; exact hord p ps rfl
          have h1 : ¬ keyCmp t.name t.kind (toLive V p h0).1.name (toLive V p h0).1.kind > 0 := by omega
          simp only [h1, hlt, if_false, if_true] at h
          obtain ⟨⟨r, e1⟩, hr, h3⟩ := bind_ok h
          obtain ⟨⟨rest, m1, e2⟩, hw, hres⟩ := bind_ok h3
          simp at hres
          obtain ⟨t', rfl, st, he1⟩ := ihN _ _ _ _ _ hd hr
          obtain ⟨w1, w2, w3⟩ := ihW pfx ts (p :: ps) h0 e1 rest m1 e2 hrest (by simpa [toLiveList] using hw)
          rw [← hres.1, ← hres.2.1, ← hres.2.2]
          exact ⟨by simp [stripL, st, w1], by simp [w2], by rw [w3, he1]⟩


/-! ### headline statements -/

theorem confRead_ok_inv (V : Variant) (sv : Bool) (st st' : State) (body : Bytes) (o : ReadOut) (scratch : List PNode)
    (hp : parseFile V body = .ok scratch) (h : confRead V sv st body = .ok (st', o)) :
    ∃ m e', walk V sv (mergeFuel st.kids (toLiveList V scratch st.heap).1) [] st.kids (toLiveList V scratch st.heap).1
        { heap := (toLiveList V scratch st.heap).2 } = .ok (st'.kids, m, e') ∧ o.hooks = e'.hooks ∧ o.rc = 0 := by
  unfold confRead at h
  rw [hp] at h
  dsimp only at h
  obtain ⟨⟨kids, m, e'⟩, hw, h2⟩ := bind_ok h
  obtain ⟨hp', _, h3⟩ := bind_ok h2
  simp at h3
  refine ⟨m, e', ?_, ?_, ?_⟩
  · rw [hw, ← h3.1]
  · rw [← h3.2]
  · rw [← h3.2]

/-- C15, first sentence: after a successful load every node the file mentions carries the
    file's value, every other node is registered and at its registered default, and
    nothing else is left — whatever was loaded or registered before. -/
theorem load_settles (V : Variant) (h9 : V.f9 = true) (h14 : V.f14 = true) (sv : Bool) (st st' : State)
    (body : Bytes) (o : ReadOut) (scratch : List PNode)
    (hp : parseFile V body = .ok scratch) (h : confRead V sv st body = .ok (st', o)) :
    Settled sv scratch st'.kids := by
  obtain ⟨m, e', hw, _, _⟩ := confRead_ok_inv V sv st st' body o scratch hp h
  exact (load_settles_aux V h9 h14 sv _).2.2.1 _ _ _ _ _ _ _ _ hw

/-- a settled list spells every entry of the file as the file does (names only *compare* ignoring
    case): each file entry has a live node with its exact name and kind -/
theorem Settled.spelling {sv : Bool} : ∀ {ps : List PNode} {ts : List Node}, Settled sv ps ts →
    ∀ p ∈ ps, ∃ t ∈ ts, t.name = p.name ∧ t.kind = p.kind
  | _, _, .nil, p, hp => by cases hp
  | _, _, .both hn hk _ hrest, p, hp => by
    rcases List.mem_cons.mp hp with rfl | hp'
    · exact ⟨_, List.mem_cons_self .., hn, hk⟩
    · obtain ⟨t, ht, h⟩ := hrest.spelling p hp'
      exact ⟨t, List.mem_cons_of_mem _ ht, h⟩
  | _, _, .absent _ _ hrest, p, hp => by
    obtain ⟨t, ht, h⟩ := hrest.spelling p hp
    exact ⟨t, List.mem_cons_of_mem _ ht, h⟩

/-- C15 / C17: after a successful load every top-level entry of the file is in the live tree under
    the file's own spelling of its name (on the pinned tree an entry that an earlier file had spelled
    differently kept the old spelling: finding F33) -/
theorem load_spelling (V : Variant) (h9 : V.f9 = true) (h14 : V.f14 = true) (sv : Bool) (st st' : State)
    (body : Bytes) (o : ReadOut) (scratch : List PNode)
    (hp : parseFile V body = .ok scratch) (h : confRead V sv st body = .ok (st', o)) :
    ∀ p ∈ scratch, ∃ t ∈ st'.kids, t.name = p.name ∧ t.kind = p.kind :=
  (load_settles V h9 h14 sv st st' body o scratch hp h).spelling

/-- C15, second sentence: loading the same content twice changes nothing (up to the
    identity of freshly allocated strings) and notifies nobody. -/
theorem load_idempotent (V : Variant) (h9 : V.f9 = true) (h14 : V.f14 = true) (sv : Bool) (st st1 st2 : State)
    (body : Bytes) (o1 o2 : ReadOut)
    (h1 : confRead V sv st body = .ok (st1, o1)) (h2 : confRead V sv st1 body = .ok (st2, o2)) :
    o2.hooks = [] ∧ stripL st2.kids = stripL st1.kids ∧ o2.rc = o1.rc := by
  cases hp : parseFile V body with
  | error e =>
    cases e with
    | fault f => exact absurd hp (parse_no_fault V body f)
    | _ =>
      simp only [confRead, hp] at h1 h2
      simp at h1 h2
      obtain ⟨rfl, rfl⟩ := h1
      obtain ⟨rfl, rfl⟩ := h2
      exact ⟨rfl, rfl, rfl⟩
  | ok scratch =>
    have hs := load_settles V h9 h14 sv st st1 body o1 scratch hp h1
    obtain ⟨_, _, _, _, r1⟩ := confRead_ok_inv V sv st st1 body o1 scratch hp h1
    obtain ⟨m, e', hw, hh, r2⟩ := confRead_ok_inv V sv st1 st2 body o2 scratch hp h2
    obtain ⟨w1, _, w3⟩ := (reload_idem_aux V h9 sv _).2.2 _ _ _ _ _ _ _ _ hs hw
    exact ⟨by rw [hh, w3], w1, by rw [r1, r2]⟩

/-- with the ownership invariant the two loads do succeed -/
theorem load_twice (V : Variant) (h9 : V.f9 = true) (h14 : V.f14 = true) (sv : Bool) (st : State) (body : Bytes)
    (hst : StateOK st) :
    ∃ st1 o1 st2 o2, confRead V sv st body = .ok (st1, o1) ∧ confRead V sv st1 body = .ok (st2, o2) ∧
      o2.hooks = [] ∧ stripL st2.kids = stripL st1.kids ∧ o2.rc = o1.rc := by
  obtain ⟨st1, o1, h1, ok1⟩ := merge_no_fault V h9 sv st body hst
  obtain ⟨st2, o2, h2, _⟩ := merge_no_fault V h9 sv st1 body ok1
  exact ⟨st1, o1, st2, o2, h1, h2, load_idempotent V h9 h14 sv st st1 st2 body o1 o2 h1 h2⟩

end Iauthd.Conf
