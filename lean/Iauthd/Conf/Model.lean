import Iauthd.Conf.Lex
import Iauthd.Conf.Parse
import Iauthd.Conf.Typed
import Iauthd.Conf.Tree
/-
  Model of src/config.c (engine `Conf`).  The pieces:

    Lex.lean    conf_parse_whitespace, conf_parse_string            (bytes → tokens)
    Parse.lean  conf_parse_entry, the scratch tree, `parseFile`     (tokens → scratch tree)
    Typed.lean  conf_parse_boolean / integer / interval / volume
    Tree.lean   live tree, conf_register_*, conf_parse_string_value,
                conf_replace_value (`walk`), `confRead`, `confRegister`

  `Variant` (Parse.lean) selects the pinned or the repaired text of config.c defect by
  defect; `Variant.fixed` is what the theorems are about, `Variant.pinned` what the
  `decide`-checked counterexamples are about.
-/
