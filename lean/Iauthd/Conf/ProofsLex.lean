import Iauthd.Conf.Lex
/-
  Lemmas about the lexer: how far `conf_parse_whitespace` moves, that an un-read
  character is found again, that the two passes of `conf_parse_string` agree.
-/
namespace Iauthd.Conf

/-- the data the parser sees never contains a NUL -/
def NoNul (s : Bytes) : Prop := ∀ c ∈ s, c ≠ 0

theorem noNul_cstr (b : Bytes) : NoNul (Bytes.cstr b) := by
  induction b with
  | nil => intro c h; simp [Bytes.cstr] at h
  | cons x xs ih =>
    intro c h
    unfold Bytes.cstr at h
    split at h
    · simp at h
    · rename_i hx
      simp at h
      rcases h with rfl | h
      · intro e; apply hx; simp [e]
      · exact ih c h

theorem NoNul.tail {c : UInt8} {s : Bytes} (h : NoNul (c :: s)) : NoNul s :=
  fun x hx => h x (List.mem_cons_of_mem _ hx)

theorem NoNul.head {c : UInt8} {s : Bytes} (h : NoNul (c :: s)) : c ≠ 0 :=
  h c (List.mem_cons_self ..)

theorem NoNul.drop {s : Bytes} (h : NoNul s) (n : Nat) : NoNul (s.drop n) :=
  fun x hx => h x (List.mem_of_mem_drop hx)

theorem wsGo_le (care : Bool) (m : WsMode) (s : Bytes) : (wsGo care m s).2 ≤ s.length := by
  fun_induction wsGo care m s <;> simp_all [bump] <;> omega

theorem wsGo_pos (care : Bool) (m : WsMode) (s : Bytes) (h : (wsGo care m s).1 ≠ 0) :
    1 ≤ (wsGo care m s).2 := by
  fun_induction wsGo care m s <;> simp_all [bump]

theorem wsGo_zero (care : Bool) (m : WsMode) (s : Bytes) (hn : NoNul s) (h : (wsGo care m s).1 = 0) :
    (wsGo care m s).2 = s.length := by
  fun_induction wsGo care m s <;> simp_all [NoNul, bump]


theorem wsGo_false_ne10 (m : WsMode) (s : Bytes) : (wsGo false m s).1 ≠ 10 := by
  fun_induction wsGo false m s <;> simp_all [bump]

/-- `ch` followed by `t` is where `conf_parse_whitespace` stops and returns `ch` -/
def Stop (ch : UInt8) (t : Bytes) : Prop :=
  ch ≠ 0 ∧ ch ≠ 10 ∧ isSpaceC ch = false ∧ (ch = 47 → t.head? ≠ some 42 ∧ t.head? ≠ some 47)

theorem wsGo_stop (ch : UInt8) (t : Bytes) (h : Stop ch t) : wsGo false .norm (ch :: t) = (ch, 1) := by
  obtain ⟨h0, h10, hs, h47⟩ := h
  cases t with
  | nil => simp [wsGo, h10, hs]
  | cons d rest =>
    by_cases hc : ch = 47
    · subst hc
      have := h47 rfl
      simp at this
      simp [wsGo, this, hs]
    · simp [wsGo, h10, hs, hc]

theorem drop_cons_pred {α} (c : α) (s : List α) (n : Nat) (h : 1 ≤ n) : (c :: s).drop n = s.drop (n - 1) := by
  cases n with
  | zero => omega
  | succ k => simp

theorem wsGo_stops (care : Bool) (m : WsMode) (s : Bytes) (hn : NoNul s)
    (h0 : (wsGo care m s).1 ≠ 0) (h10 : (wsGo care m s).1 ≠ 10) :
    ∃ t, s.drop ((wsGo care m s).2 - 1) = (wsGo care m s).1 :: t ∧ Stop (wsGo care m s).1 t := by
  fun_induction wsGo care m s
  all_goals (try (simp_all [bump, NoNul, Stop]; done))
  all_goals
    rename_i ih
    have hk := wsGo_pos _ _ _ h0
    obtain ⟨t, ht, hs⟩ := ih (fun x hx => hn x (by simp_all)) h0 h10
    refine ⟨t, ?_, hs⟩
    simp only [bump] at hk ⊢
    first
    | (rw [show ∀ k, k + 1 - 1 = k from fun k => rfl, drop_cons_pred _ _ _ hk]; exact ht)
    | (rw [show ∀ k, k + 2 - 1 = k + 1 from fun k => rfl, List.drop_succ_cons, drop_cons_pred _ _ _ hk]; exact ht)

/-- an un-read character (not a newline) is found again, immediately -/
theorem wsGo_reread (care : Bool) (m : WsMode) (s : Bytes) (hn : NoNul s)
    (h0 : (wsGo care m s).1 ≠ 0) (h10 : (wsGo care m s).1 ≠ 10) :
    wsGo false .norm (s.drop ((wsGo care m s).2 - 1)) = ((wsGo care m s).1, 1) := by
  obtain ⟨t, ht, hs⟩ := wsGo_stops care m s hn h0 h10
  rw [ht]; exact wsGo_stop _ _ hs


/-! ### the two passes of `conf_parse_string` agree -/

theorem xdigit_plain (h : UInt8) (hx : isXDigit h = true) : h ≠ 34 ∧ h ≠ 92 := by
  constructor <;> (intro e; subst e; revert hx; decide)

theorem scanQ_plain (c : UInt8) (rest : Bytes) (h1 : c ≠ 34) (h2 : c ≠ 92) :
    scanQ (c :: rest) = (scanQ rest).map (· + 1) := by
  cases rest <;> simp [scanQ, h1, h2]

theorem scanQ_esc (e : UInt8) (rest : Bytes) : scanQ (92 :: e :: rest) = (scanQ rest).map (· + 2) := by
  rw [scanQ]; simp

theorem decode_step (s tail : Bytes) (k : Nat) (g : Bytes → Bytes)
    (hs : scanQ s = (scanQ tail).map (· + k))
    (ih : ∀ q, scanQ tail = some q → ∃ bs, decodeQ tail = .ok (bs, q) ∧ bs.length ≤ q)
    (hg : ∀ b, (g b).length ≤ b.length + k) :
    ∀ q, scanQ s = some q →
      ∃ bs, Except.map (fun r => (g r.1, r.2 + k)) (decodeQ tail) = .ok (bs, q) ∧ bs.length ≤ q := by
  intro q hq
  rw [hs] at hq
  obtain ⟨q', hst, rfl⟩ : ∃ q', scanQ tail = some q' ∧ q = q' + k := by
    cases h : scanQ tail <;> simp_all
  obtain ⟨bs, hd, hl⟩ := ih q' hst
  refine ⟨g bs, ?_, ?_⟩
  · simp [hd, Except.map]
  · have := hg bs; omega

theorem ne_of_beq_false {a b : UInt8} (h : ¬(a == b) = true) : a ≠ b := by simpa using h
theorem eq_of_not_bne {a b : UInt8} (h : ¬(a != b) = true) : a = b := by simpa using h
theorem ne_of_bne {a b : UInt8} (h : (a != b) = true) : a ≠ b := by simpa using h

theorem decodeQ_of_scanQ (s : Bytes) : ∀ q, scanQ s = some q →
    ∃ bs, decodeQ s = .ok (bs, q) ∧ bs.length ≤ q := by
  fun_induction decodeQ s
  all_goals (try (intro q hq; simp_all [scanQ]; done))
  case case5 c e h1 h2 ih =>
    exact decode_step _ _ 1 _ (scanQ_plain _ _ (ne_of_beq_false h1) (ne_of_bne h2)) ih (by intro b; (try simp only [List.length_cons]); omega)
  case case8 c e x h1 h2 ih =>
    exact decode_step _ _ 1 _ (scanQ_plain _ _ (ne_of_beq_false h1) (ne_of_bne h2)) ih (by intro b; (try simp only [List.length_cons]); omega)
  case case9 c e x h1 h2 h3 ih =>
    obtain rfl := eq_of_not_bne h2
    exact decode_step _ _ 2 _ (scanQ_esc _ _) ih (by intro b; (try simp only [List.length_cons]); omega)
  case case10 c e x h1 h2 h3 h4 ih =>
    obtain rfl := eq_of_not_bne h2
    exact decode_step _ _ 2 (fun b => b) (scanQ_esc _ _) ih (by intro b; (try simp only [List.length_cons]); omega)
  case case11 c e x h1 h2 h3 h4 =>
    intro q hq
    obtain rfl := eq_of_not_bne h2
    have hx : isXDigit x = true := by simpa using h4
    have := xdigit_plain x hx
    simp [scanQ, this.1, this.2] at hq
  case case13 c e x y rest h1 h2 ih =>
    exact decode_step _ _ 1 _ (scanQ_plain _ _ (ne_of_beq_false h1) (ne_of_bne h2)) ih (by intro b; (try simp only [List.length_cons]); omega)
  case case14 c e x y rest h1 h2 h3 ih =>
    obtain rfl := eq_of_not_bne h2
    exact decode_step _ _ 2 _ (scanQ_esc _ _) ih (by intro b; (try simp only [List.length_cons]); omega)
  case case15 c e x y rest h1 h2 h3 h4 ih =>
    obtain rfl := eq_of_not_bne h2
    exact decode_step _ _ 2 (fun b => b) (scanQ_esc _ _) ih (by intro b; (try simp only [List.length_cons]); omega)
  case case16 c e x y rest h1 h2 h3 h4 h5 ih =>
    obtain rfl := eq_of_not_bne h2
    have hx : isXDigit x = true := by simpa using h4
    have px := xdigit_plain x hx
    refine decode_step _ _ 3 (fun b => b) ?_ ih (by intro b; (try simp only [List.length_cons]); omega)
    rw [scanQ_esc, scanQ_plain _ _ px.1 px.2]
    cases scanQ (y :: rest) <;> simp
  case case17 c e x y rest h1 h2 h3 h4 h5 ih =>
    obtain rfl := eq_of_not_bne h2
    have hx : isXDigit x = true := by simpa using h4
    have hy : isXDigit y = true := by simpa using h5
    have px := xdigit_plain x hx
    have py := xdigit_plain y hy
    refine decode_step _ _ 4 _ ?_ ih (by intro b; (try simp only [List.length_cons]); omega)
    rw [scanQ_esc, scanQ_plain _ _ px.1 px.2, scanQ_plain _ _ py.1 py.2]
    cases scanQ rest <;> simp

end Iauthd.Conf
