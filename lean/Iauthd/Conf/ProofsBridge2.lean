import Iauthd.Conf.ProofsRoundtrip2
import Iauthd.Conf.ProofsBridge
/-
  C16, bridge, general form: what `Spec.render` writes — for EVERY document with NUL-free
  strings and EVERY layout — is a text of the shape `RBlock`, hence parsed back by the
  repaired parser to the document's canonical tree (`C16_full`).
-/
set_option linter.unusedSimpArgs false
namespace Iauthd.Conf
open Iauthd.Conf.Spec (Val Esc StrLay Term ValLay EntLay Layout renderStr renderVal renderEntries renderItems renderTerm
  joinGap gapAny gapFlat canBare isTokenByte encBody lastByte render)

/-- items of a comma list after the first one -/
theorem citems_rc : ∀ (xs : List Bytes) (items : List (StrLay × Nat × Nat)), xs ≠ [] → (∀ x ∈ xs, NoNul x) →
    ∃ body trail bl, renderItems true xs items = body ++ trail ∧ RCItems xs body bl ∧ GapOK true trail ∧ GapOK false trail
  | [], _, h, _ => absurd rfl h
  | [x], [], _, hn =>
    ⟨[] ++ renderStr {} x, [], _, by simp [renderItems], .last [] x _ _ (gapOK_nil true) (hn x (by simp)) (renderStr_rstr {} x),
      gapOK_nil true, gapOK_nil false⟩
  | [x], l :: ls, _, hn =>
    ⟨gapFlat l.2.1 ++ renderStr l.1 x, gapFlat l.2.2, _, by simp [renderItems],
      .last _ x _ _ (gapFlat_ok true _) (hn x (by simp)) (renderStr_rstr l.1 x), gapFlat_ok true _, gapFlat_ok false _⟩
  | x :: y :: rest, [], _, hn => by
    obtain ⟨body, trail, bl, e, hr, t1, t2⟩ := citems_rc (y :: rest) [] (by simp) (fun z hz => hn z (List.mem_cons_of_mem _ hz))
    refine ⟨[] ++ renderStr {} x ++ [] ++ [44] ++ body, trail, bl, ?_, ?_, t1, t2⟩
    · simp only [renderItems, e]; simp
    · exact .cons [] x _ [] _ (y :: rest) body bl (gapOK_nil true) (hn x (by simp)) (renderStr_rstr {} x) (gapOK_nil true) hr
  | x :: y :: rest, l :: ls, _, hn => by
    obtain ⟨body, trail, bl, e, hr, t1, t2⟩ := citems_rc (y :: rest) ls (by simp) (fun z hz => hn z (List.mem_cons_of_mem _ hz))
    refine ⟨gapFlat l.2.1 ++ renderStr l.1 x ++ gapFlat l.2.2 ++ [44] ++ body, trail, bl, ?_, ?_, t1, t2⟩
    · simp only [renderItems, e]; simp
    · exact .cons _ x _ _ _ (y :: rest) body bl (gapFlat_ok true _) (hn x (by simp)) (renderStr_rstr l.1 x) (gapFlat_ok true _) hr


theorem follows_prefix (b : Bool) (a x : Bytes) (ha : a ≠ []) (h : Follows b (a ++ x)) : Follows b a := by
  intro hb y hy
  apply h hb y
  cases a with
  | nil => exact absurd rfl ha
  | cons c cs => simpa using hy

/-- the closing gap of an object or of the file -/
def ClosingGap (g : Bytes) : Prop := GapOK false g ∧ CareSplit g

theorem closing_gapAny (g : Nat) : ClosingGap (gapAny g) := ⟨gapAny_ok g, gapAny_care g⟩
theorem closing_nil : ClosingGap [] := ⟨gapOK_nil false, .inl (gapOK_nil true)⟩

mutual
/-- a value as `Spec.renderVal` writes it: a flat gap (comma lists only), the value proper,
    a flat gap (comma lists only) -/
theorem bridge_val2 : (v : Val) → (lv : ValLay) → ValNN v →
    ∃ lead rv trail bv, renderVal v lv = lead ++ rv ++ trail ∧ GapOK true lead ∧ GapOK false lead ∧
      GapOK true trail ∧ RVal2 v rv bv
  | .str s, lv, hn => by
    have key : ∀ l, ∃ lead rv trail bv, renderStr l s = lead ++ rv ++ trail ∧ GapOK true lead ∧ GapOK false lead ∧
        GapOK true trail ∧ RVal2 (.str s) rv bv :=
      fun l => ⟨[], _, [], _, by simp, gapOK_nil true, gapOK_nil false, gapOK_nil true, .str s _ _ hn (renderStr_rstr l s)⟩
    cases lv <;> simpa [renderVal] using key _
  | .pair h s, lv, hn => by
    have key : ∀ lh ls (g : Bytes), GapOK true g → ∃ lead rv trail bv, joinGap (renderStr lh h) g (renderStr ls s) = lead ++ rv ++ trail ∧
        GapOK true lead ∧ GapOK false lead ∧ GapOK true trail ∧ RVal2 (.pair h s) rv bv := by
      intro lh ls g hg
      obtain ⟨g', e, hg', hf⟩ := joinGap_spec true h _ (renderStr lh h) g (renderStr ls s) (renderStr_rstr lh h) hg
      exact ⟨[], _, [], _, by rw [e]; simp, gapOK_nil true, gapOK_nil false, gapOK_nil true,
        .pair h s _ _ g' _ (ls.bare && canBare s) hn.1 hn.2 (renderStr_rstr lh h) hg' hf (renderStr_rstr ls s)⟩
    cases lv with
    | pair lh g ls => simpa [renderVal] using key lh ls (gapFlat g) (gapFlat_ok true g)
    | str _ => simpa [renderVal] using key {} {} [] (gapOK_nil true)
    | list _ _ _ _ => simpa [renderVal] using key {} {} [] (gapOK_nil true)
    | obj _ _ _ => simpa [renderVal] using key {} {} [] (gapOK_nil true)
  | .list xs, lv, hn => by
    have paren : ∀ (og cg : Bytes) items, GapOK false og → GapOK false cg →
        ∃ lead rv trail bv, [40] ++ og ++ renderItems false xs items ++ cg ++ [41] = lead ++ rv ++ trail ∧
          GapOK true lead ∧ GapOK false lead ∧ GapOK true trail ∧ RVal2 (.list xs) rv bv := by
      intro og cg items h1 h2
      have := items_ritems xs items og cg h1 h2 hn
      exact ⟨[], [40] ++ (og ++ renderItems false xs items ++ cg) ++ [41], [], false, by simp, gapOK_nil true, gapOK_nil false,
        gapOK_nil true, RVal2.list xs _ this⟩
    cases lv with
    | list p og items cg =>
      simp only [renderVal]
      by_cases hp : (p || decide (xs.length < 2)) = true
      · simp only [hp, if_true]
        exact paren (gapAny og) (gapAny cg) items (gapAny_ok _) (gapAny_ok _)
      · simp only [hp, Bool.false_eq_true, if_false]
        simp only [Bool.or_eq_true, decide_eq_true_eq, not_or, Nat.not_lt] at hp
        match xs, hp.2, hn with
        | x :: y :: rest, _, hn =>
          cases items with
          | nil =>
            obtain ⟨body, trail, bl, e, hr, t1, t2⟩ := citems_rc (y :: rest) [] (by simp) (fun z hz => hn z (List.mem_cons_of_mem _ hz))
            refine ⟨[], renderStr {} x ++ [] ++ [44] ++ body, trail, bl, ?_, gapOK_nil true, gapOK_nil false, t1,
              .clist x _ [] _ (y :: rest) body bl (hn x (by simp)) (renderStr_rstr {} x) (gapOK_nil true) hr⟩
            simp only [renderItems, e]; simp
          | cons l ls =>
            obtain ⟨body, trail, bl, e, hr, t1, t2⟩ := citems_rc (y :: rest) ls (by simp) (fun z hz => hn z (List.mem_cons_of_mem _ hz))
            refine ⟨gapFlat l.2.1, renderStr l.1 x ++ gapFlat l.2.2 ++ [44] ++ body, trail, bl, ?_, gapFlat_ok true _,
              gapFlat_ok false _, t1,
              .clist x _ _ _ (y :: rest) body bl (hn x (by simp)) (renderStr_rstr l.1 x) (gapFlat_ok true _) hr⟩
            simp only [renderItems, e]; simp
    | str _ => simpa [renderVal] using paren [] [] [] (gapOK_nil false) (gapOK_nil false)
    | pair _ _ _ => simpa [renderVal] using paren [] [] [] (gapOK_nil false) (gapOK_nil false)
    | obj _ _ _ => simpa [renderVal] using paren [] [] [] (gapOK_nil false) (gapOK_nil false)
  | .obj es, lv, hn => by
    have key : ∀ (og cg : Bytes) ls, GapOK false og → ClosingGap cg →
        ∃ lead rv trail bv, [123] ++ og ++ renderEntries true es ls ++ cg ++ [125] = lead ++ rv ++ trail ∧
          GapOK true lead ∧ GapOK false lead ∧ GapOK true trail ∧ RVal2 (.obj es) rv bv := by
      intro og cg ls h1 h2
      have hb := bridge_block es ls hn true og cg h1 h2
      exact ⟨[], [123] ++ (og ++ renderEntries true es ls ++ cg) ++ [125], [], false, by simp, gapOK_nil true, gapOK_nil false,
        gapOK_nil true, RVal2.obj es _ hb⟩
    cases lv with
    | obj og ls cg => simpa [renderVal] using key (gapAny og) (gapAny cg) ls (gapAny_ok _) (closing_gapAny _)
    | str _ => simpa [renderVal] using key [] [] [] (gapOK_nil false) closing_nil
    | pair _ _ _ => simpa [renderVal] using key [] [] [] (gapOK_nil false) closing_nil
    | list _ _ _ _ => simpa [renderVal] using key [] [] [] (gapOK_nil false) closing_nil

/-- entries as `Spec.renderEntries` writes them, between an incoming gap and the closing gap -/
theorem bridge_block : (es : List (Bytes × Val)) → (ls : List EntLay) → EntsNN es →
    ∀ (lastOk : Bool) (g0 cg : Bytes), GapOK false g0 → ClosingGap cg →
    RBlock es (g0 ++ renderEntries lastOk es ls ++ cg)
  | [], ls, _, lastOk, g0, cg, hg0, hcg => by
    simpa [renderEntries] using RBlock.nil (g0 ++ cg) (gapOK_append hg0 hcg.1)
  | (n, v) :: es, [], hn, lastOk, g0, cg, hg0, hcg => by
    obtain ⟨hnn, hvn, hen⟩ := hn
    obtain ⟨lead, rv, trail, bv, ev, l1, l2, t1, hrv⟩ := bridge_val2 v (.str {}) hvn
    obtain ⟨sep', ej, hsep', hfol⟩ := joinGap_spec false n _ (renderStr {} n) [] (renderVal v (.str {})) (renderStr_rstr {} n)
      (gapOK_nil false)
    have hb' := bridge_block es [] hen lastOk [] cg (gapOK_nil false) hcg
    obtain ⟨c, tl, hrvc⟩ := rval2_head hrv
    have hfol2 : Follows (({} : StrLay).bare && canBare n) ((sep' ++ lead) ++ rv) := by
      rw [ev] at hfol
      apply follows_prefix _ ((sep' ++ lead) ++ rv) trail (by rw [hrvc]; simp)
      simpa [List.append_assoc] using hfol
    have r := RBlock.term n v es g0 _ (sep' ++ lead) rv trail _ bv 59 _ hg0 hnn (renderStr_rstr {} n) (gapOK_append hsep' l2) hrv
      hfol2 t1 (.inl rfl) hb'
    simp only [renderEntries]
    rw [ej, ev]
    simpa [List.append_assoc] using r
  | (n, v) :: es, (pre, ln, sep, lv, pt, term) :: ls, hn, lastOk, g0, cg, hg0, hcg => by
    obtain ⟨hnn, hvn, hen⟩ := hn
    obtain ⟨lead, rv, trail, bv, ev, l1, l2, t1, hrv⟩ := bridge_val2 v lv hvn
    obtain ⟨sep', ej, hsep', hfol⟩ := joinGap_spec false n _ (renderStr ln n) (gapAny sep) (renderVal v lv) (renderStr_rstr ln n)
      (gapAny_ok sep)
    obtain ⟨c, tl, hrvc⟩ := rval2_head hrv
    have hfol2 : Follows (ln.bare && canBare n) ((sep' ++ lead) ++ rv) := by
      rw [ev] at hfol
      apply follows_prefix _ ((sep' ++ lead) ++ rv) trail (by rw [hrvc]; simp)
      simpa [List.append_assoc] using hfol
    simp only [renderEntries]
    rw [ej, ev]
    have semiCase : RBlock ((n, v) :: es) (g0 ++ (gapAny pre ++ (renderStr ln n ++ sep' ++ (lead ++ rv ++ trail)) ++ gapFlat pt ++
        renderTerm Term.semi ++ renderEntries lastOk es ls) ++ cg) := by
      have hb' := bridge_block es ls hen lastOk [] cg (gapOK_nil false) hcg
      have r := RBlock.term n v es (g0 ++ gapAny pre) _ (sep' ++ lead) rv (trail ++ gapFlat pt) _ bv 59 _
        (gapOK_append hg0 (gapAny_ok _)) hnn (renderStr_rstr ln n) (gapOK_append hsep' l2) hrv hfol2
        (gapOK_append t1 (gapFlat_ok true pt)) (.inl rfl) hb'
      simp only [renderTerm]
      simpa [List.append_assoc] using r
    by_cases hopen : (term == Term.none && !(lastOk && es.isEmpty)) = true
    · simp only [hopen, if_true]
      exact semiCase
    · simp only [hopen, Bool.false_eq_true, if_false]
      cases term with
      | semi => exact semiCase
      | none =>
        -- no terminator: this is the last entry and what follows is the closing gap
        have hes : es = [] := by
          simp only [beq_self_eq_true, Bool.true_and, Bool.not_eq_true', Bool.not_eq_false, Bool.and_eq_true] at hopen
          exact List.isEmpty_iff.mp hopen.2
        subst hes
        have hW : CareSplit (trail ++ gapFlat pt ++ cg) := by
          have := careSplit_prefix (gapOK_append t1 (gapFlat_ok true pt)) hcg.2
          simpa [List.append_assoc] using this
        have r := RBlock.open n v (g0 ++ gapAny pre) _ (sep' ++ lead) rv (trail ++ gapFlat pt ++ cg) _ bv
          (gapOK_append hg0 (gapAny_ok _)) hnn (renderStr_rstr ln n) (gapOK_append hsep' l2) hrv hfol2 hW
        simp only [renderTerm, renderEntries]
        simpa [List.append_assoc] using r
      | nl =>
        have hb' := bridge_block es ls hen lastOk [] cg (gapOK_nil false) hcg
        have r := RBlock.term n v es (g0 ++ gapAny pre) _ (sep' ++ lead) rv (trail ++ gapFlat pt) _ bv 10 _
          (gapOK_append hg0 (gapAny_ok _)) hnn (renderStr_rstr ln n) (gapOK_append hsep' l2) hrv hfol2
          (gapOK_append t1 (gapFlat_ok true pt)) (.inr rfl) hb'
        simp only [renderTerm]
        simpa [List.append_assoc] using r
      | both =>
        have hb' := bridge_block es ls hen lastOk [10] cg ws_nl hcg
        have r := RBlock.term n v es (g0 ++ gapAny pre) _ (sep' ++ lead) rv (trail ++ gapFlat pt) _ bv 59 _
          (gapOK_append hg0 (gapAny_ok _)) hnn (renderStr_rstr ln n) (gapOK_append hsep' l2) hrv hfol2
          (gapOK_append t1 (gapFlat_ok true pt)) (.inl rfl) hb'
        simp only [renderTerm]
        simpa [List.append_assoc] using r
end


theorem rblock_nil_doc {es : List (Bytes × Val)} (h : RBlock es []) : es = [] := by
  cases hes : es with
  | nil => rfl
  | cons e es' =>
    exfalso
    subst hes
    generalize hb : ([] : Bytes) = blk at h
    cases h with
    | term n v es pre rn sep rv pt bn bv t rest _ _ hrn _ _ _ _ _ _ =>
      obtain ⟨c, tl, e, _⟩ := rstr_head hrn
      have := congrArg List.length hb
      rw [e] at this; simp at this
    | «open» n v pre rn sep rv W bn bv _ _ hrn _ _ _ _ =>
      obtain ⟨c, tl, e, _⟩ := rstr_head hrn
      have := congrArg List.length hb
      rw [e] at this; simp at this

/-- C16, full statement for the repaired parser (F10, F11, F12): every document with
    NUL-free strings, under EVERY layout (any string form, any gap, any terminator
    including none before `}` and at end of input, lists in either form), is read back
    from `Spec.render doc layout` as its canonical tree. -/
theorem C16_full (V : Variant) (hV : FixedParser V) (doc : Spec.Doc) (lay : Layout) (hnn : EntsNN doc) :
    ∃ t, parseFile V (render doc lay) = .ok t ∧ t.map toC = Spec.canonTree doc := by
  refine ⟨pfold doc [], ?_, pfold_canonTree doc⟩
  have hb := bridge_block doc lay.entries hnn true [] (gapAny lay.post) (gapOK_nil false) (closing_gapAny _)
  simp only [List.nil_append] at hb
  have hnul : NoNul (renderEntries true doc lay.entries ++ gapAny lay.post) :=
    noNul_append (renderEntries_noNul doc lay.entries true hnn) (gapAny_noNul _)
  unfold render
  dsimp only
  by_cases hemp : (renderEntries true doc lay.entries ++ gapAny lay.post).isEmpty = true
  · simp only [hemp, if_true]
    rw [List.isEmpty_iff.mp hemp] at hb
    have hd := rblock_nil_doc hb
    subst hd
    exact parse_rendered2 V hV [] [10] (.nil [10] ws_nl) (noNul_lit _ (by decide)) (by simp)
  · simp only [hemp, Bool.false_eq_true, if_false]
    exact parse_rendered2 V hV doc _ hb hnul (by intro h; apply hemp; simp [h])

theorem fixed_parser : FixedParser Variant.fixed := ⟨rfl, rfl, rfl⟩

end Iauthd.Conf
