import Iauthd.Conf.Tree
import Iauthd.Conf.ProofsParse
/-
  C15, ownership: with the host/service pointers cleared in the scratch node after the
  move (`Variant.f9`), merging a scratch tree into the live tree frees every string
  exactly once and never reads a freed one (`merge_no_fault`).
-/
set_option linter.unusedSimpArgs false
namespace Iauthd.Conf

/-! ### tokens held by a tree -/

def otoks (o : Option OStr) : List Nat := o.toList.map (·.tok)

mutual
def tokens : Node → List Nat
  | .inaddr _ h s _ _ => otoks h ++ otoks s
  | .obj _ kids => tokensL kids
  | .str .. => []
  | .list .. => []
def tokensL : List Node → List Nat
  | [] => []
  | n :: ns => tokens n ++ tokensL ns
end

def tokensO : Option Node → List Nat
  | none => []
  | some n => tokens n

/-- every live token is below the allocation counter -/
def HeapOK (h : Heap) : Prop := ∀ t ∈ h.live, t < h.next

/-- the tokens in `l` are pairwise distinct and allocated -/
def Owns (h : Heap) (l : List Nat) : Prop := l.Nodup ∧ ∀ t ∈ l, t ∈ h.live

theorem Owns.perm {h : Heap} {l l' : List Nat} (o : Owns h l) (p : l.Perm l') : Owns h l' :=
  ⟨p.nodup_iff.mp o.1, fun t ht => o.2 t (p.mem_iff.mpr ht)⟩

theorem Owns.tail {h : Heap} {a : List Nat} {b : List Nat} (o : Owns h (a ++ b)) : Owns h b :=
  ⟨(List.nodup_append.mp o.1).2.1, fun t ht => o.2 t (List.mem_append_right _ ht)⟩

theorem Owns.head {h : Heap} {a : List Nat} {b : List Nat} (o : Owns h (a ++ b)) : Owns h a :=
  ⟨(List.nodup_append.mp o.1).1, fun t ht => o.2 t (List.mem_append_left _ ht)⟩

theorem free_ok {h : Heap} {t : Nat} {rest : List Nat} (site : String) (hk : HeapOK h) (o : Owns h (t :: rest)) :
    ∃ h', h.free site t = .ok h' ∧ HeapOK h' ∧ Owns h' rest ∧ h'.next = h.next := by
  have hin : t ∈ h.live := o.2 t (List.mem_cons_self ..)
  refine ⟨{ h with live := h.live.erase t }, by simp [Heap.free, hin], ?_, ?_, rfl⟩
  · intro x hx; exact hk x (List.mem_of_mem_erase hx)
  · have nd := List.nodup_cons.mp o.1
    refine ⟨nd.2, fun x hx => ?_⟩
    have hne : x ≠ t := fun e => nd.1 (e ▸ hx)
    exact (List.mem_erase_of_ne hne).mpr (o.2 x (List.mem_cons_of_mem _ hx))

theorem freeOpt_ok {h : Heap} (o? : Option OStr) {rest : List Nat} (site : String) (hk : HeapOK h)
    (o : Owns h (otoks o? ++ rest)) :
    ∃ h', h.freeOpt site o? = .ok h' ∧ HeapOK h' ∧ Owns h' rest ∧ h'.next = h.next := by
  cases o? with
  | none => exact ⟨h, rfl, hk, by simpa [otoks] using o, rfl⟩
  | some x => simpa [Heap.freeOpt, otoks] using free_ok site hk (by simpa [otoks] using o)

theorem alloc_ok {h : Heap} (v : Bytes) {l : List Nat} (hk : HeapOK h) (o : Owns h l) :
    HeapOK (h.alloc v).2 ∧ Owns (h.alloc v).2 ((h.alloc v).1.tok :: l) := by
  simp only [Heap.alloc]
  refine ⟨?_, ?_, ?_⟩
  · intro t ht
    simp at ht
    rcases ht with rfl | ht
    · simp
    · have := hk t ht; simp; omega
  · refine List.nodup_cons.mpr ⟨fun hin => ?_, o.1⟩
    have := hk _ (o.2 _ hin); omega
  · intro t ht
    simp at ht ⊢
    rcases ht with rfl | ht
    · exact .inl rfl
    · exact .inr (o.2 t ht)

theorem dupOpt_ok {h : Heap} (v : Option Bytes) {l : List Nat} (hk : HeapOK h) (o : Owns h l) :
    HeapOK (h.dupOpt v).2 ∧ Owns (h.dupOpt v).2 (otoks (h.dupOpt v).1 ++ l) := by
  cases v with
  | none => simpa [Heap.dupOpt, otoks] using And.intro hk o
  | some b => simpa [Heap.dupOpt, otoks] using alloc_ok b hk o

theorem read_ok {h : Heap} {l : List Nat} (site : String) (x : OStr) (o : Owns h l) (hx : x.tok ∈ l) :
    h.read site x = .ok x.val := by
  simp [Heap.read, o.2 _ hx]


mutual
theorem freeNode_ok : (n : Node) → ∀ (h : Heap) (frame : List Nat), HeapOK h → Owns h (tokens n ++ frame) →
    ∃ h', freeNode n h = .ok h' ∧ HeapOK h' ∧ Owns h' frame ∧ h'.next = h.next
  | .inaddr b ho so dh ds, h, frame, hk, o => by
    simp only [tokens, List.append_assoc] at o
    obtain ⟨h1, e1, k1, o1, n1⟩ := freeOpt_ok ho "conf_object_cleanup: hostname" hk o
    obtain ⟨h2, e2, k2, o2, n2⟩ := freeOpt_ok so "conf_object_cleanup: service" k1 o1
    exact ⟨h2, by simp [freeNode, e1, e2, bind, Except.bind], k2, o2, by omega⟩
  | .obj b kids, h, frame, hk, o => by
    simp only [tokens] at o
    simpa [freeNode] using freeNodes_ok kids h frame hk o
  | .str .., h, frame, hk, o => ⟨h, by simp [freeNode], hk, by simpa [tokens] using o, rfl⟩
  | .list .., h, frame, hk, o => ⟨h, by simp [freeNode], hk, by simpa [tokens] using o, rfl⟩
theorem freeNodes_ok : (ns : List Node) → ∀ (h : Heap) (frame : List Nat), HeapOK h → Owns h (tokensL ns ++ frame) →
    ∃ h', freeNodes ns h = .ok h' ∧ HeapOK h' ∧ Owns h' frame ∧ h'.next = h.next
  | [], h, frame, hk, o => ⟨h, by simp [freeNodes], hk, by simpa [tokensL] using o, rfl⟩
  | n :: ns, h, frame, hk, o => by
    simp only [tokensL, List.append_assoc] at o
    obtain ⟨h1, e1, k1, o1, n1⟩ := freeNode_ok n h _ hk o
    obtain ⟨h2, e2, k2, o2, n2⟩ := freeNodes_ok ns h1 frame k1 o1
    exact ⟨h2, by simp [freeNodes, e1, e2, bind, Except.bind], k2, o2, by omega⟩
end

mutual
theorem toLive_ok (V : Variant) : (p : PNode) → ∀ (h : Heap) (frame : List Nat), HeapOK h → Owns h frame →
    HeapOK (toLive V p h).2 ∧ Owns (toLive V p h).2 (tokens (toLive V p h).1 ++ frame)
  | .str n v, h, frame, hk, o => by simpa [toLive, tokens] using And.intro hk o
  | .list n xs c, h, frame, hk, o => by simpa [toLive, tokens] using And.intro hk o
  | .inaddr n host svc, h, frame, hk, o => by
    have a := alloc_ok host hk o
    have d := dupOpt_ok svc a.1 a.2
    have e1 : otoks (some (h.alloc host).1) = [(h.alloc host).1.tok] := rfl
    simp only [toLive, tokens, e1]
    refine ⟨d.1, d.2.perm ?_⟩
    simp
  | .obj n kids, h, frame, hk, o => by
    simpa [toLive, tokens] using toLiveList_ok V kids h frame hk o
theorem toLiveList_ok (V : Variant) : (ps : List PNode) → ∀ (h : Heap) (frame : List Nat), HeapOK h → Owns h frame →
    HeapOK (toLiveList V ps h).2 ∧ Owns (toLiveList V ps h).2 (tokensL (toLiveList V ps h).1 ++ frame)
  | [], h, frame, hk, o => by simpa [toLiveList, tokensL] using And.intro hk o
  | p :: ps, h, frame, hk, o => by
    have a := toLive_ok V p h frame hk o
    have b := toLiveList_ok V ps (toLive V p h).2 _ a.1 a.2
    simp only [toLiveList, tokensL]
    refine ⟨b.1, b.2.perm ?_⟩
    simp only [List.append_assoc]
    exact List.perm_append_comm_assoc _ _ _
end


/-- permutations of concatenations, by counting -/
macro "perm_tac" : tactic =>
  `(tactic| (rw [List.perm_iff_count]; intro a; simp only [List.count_append, List.count_cons, List.count_nil]; omega))

theorem pickOrDup_ok (x : Option OStr) (d : Option Bytes) (hp : Heap) (l : List Nat) (hk : HeapOK hp)
    (o : Owns hp (otoks x ++ l)) :
    HeapOK (pickOrDup x d hp).2 ∧ Owns (pickOrDup x d hp).2 (otoks (pickOrDup x d hp).1 ++ l) := by
  cases x with
  | some x => exact ⟨hk, o⟩
  | none => exact dupOpt_ok d hk (by simpa [otoks] using o)

theorem ciPart_ok (h : Heap) (site : String) (a b : Option OStr) (l : List Nat) (o : Owns h l)
    (ha : ∀ x, a = some x → x.tok ∈ l) (hb : ∀ x, b = some x → x.tok ∈ l) :
    ∃ c, ciPart h site a b = .ok c := by
  cases a with
  | none => cases b <;> simp [ciPart]
  | some x =>
    cases b with
    | none => simp [ciPart]
    | some y =>
      simp [ciPart, read_ok site x o (ha x rfl), read_ok site y o (hb y rfl), bind, Except.bind]

theorem mem_otoks {o : Option OStr} {x : OStr} (h : o = some x) : x.tok ∈ otoks o := by
  subst h; simp [otoks]

theorem inaddrChanged_ok (h : Heap) (host oh svc os : Option OStr) (l : List Nat) (o : Owns h l)
    (h1 : ∀ x, host = some x → x.tok ∈ l) (h2 : ∀ x, oh = some x → x.tok ∈ l)
    (h3 : ∀ x, svc = some x → x.tok ∈ l) (h4 : ∀ x, os = some x → x.tok ∈ l) :
    ∃ c, inaddrChanged h host oh svc os = .ok c := by
  unfold inaddrChanged
  obtain ⟨c1, e1⟩ := ciPart_ok h "strcasecmp(target->hostname, orig_hostname)" host oh l o h1 h2
  obtain ⟨c2, e2⟩ := ciPart_ok h "strcasecmp(target->service, orig_service)" svc os l o h3 h4
  simp only [e1, e2, bind, Except.bind]
  cases c1 <;> simp

theorem updInaddr_core (V : Variant) (h9 : V.f9 = true) (path : List Bytes) (b : Base) (oh os sh ss : Option OStr)
    (dh ds : Option Bytes) (e : Eff) (frame : List Nat) (hk : HeapOK e.heap)
    (o : Owns e.heap (otoks oh ++ otoks os ++ (otoks sh ++ otoks ss) ++ frame)) :
    ∃ host svc e', updInaddr V path b oh os dh ds (some (sh, ss)) e = .ok (.inaddr b host svc dh ds, e') ∧
      HeapOK e'.heap ∧ Owns e'.heap (otoks host ++ otoks svc ++ frame) ∧ e'.residue = e.residue := by
  have o' : Owns e.heap (otoks sh ++ (otoks ss ++ otoks oh ++ otoks os ++ frame)) := o.perm (by perm_tac)
  have p1 := pickOrDup_ok sh dh e.heap _ hk o'
  rcases hA : pickOrDup sh dh e.heap with ⟨host, hpA⟩
  rw [hA] at p1
  have o2 : Owns hpA (otoks ss ++ (otoks host ++ otoks oh ++ otoks os ++ frame)) := p1.2.perm (by perm_tac)
  have p2 := pickOrDup_ok ss ds hpA _ p1.1 o2
  rcases hB : pickOrDup ss ds hpA with ⟨svc, hpB⟩
  rw [hB] at p2
  dsimp only at p2
  obtain ⟨c, hc⟩ := inaddrChanged_ok hpB host oh svc os _ p2.2
    (fun x hx => by simp [mem_otoks hx]) (fun x hx => by simp [mem_otoks hx])
    (fun x hx => by simp [mem_otoks hx]) (fun x hx => by simp [mem_otoks hx])
  have o3 : Owns hpB (otoks oh ++ (otoks os ++ (otoks host ++ otoks svc ++ frame))) := p2.2.perm (by perm_tac)
  obtain ⟨h1, f1, k1, o4, _⟩ := freeOpt_ok oh "xfree(orig_hostname)" p2.1 o3
  obtain ⟨h2, f2, k2, o5, _⟩ := freeOpt_ok os "xfree(orig_service)" k1 o4
  have hfire : ∀ (x : Eff) (c : Bool) k p, (x.fire c k p).heap = x.heap ∧ (x.fire c k p).residue = x.residue := by
    intro x c k p; unfold Eff.fire; split <;> exact ⟨rfl, rfl⟩
  have hres : ∃ e', updInaddr V path b oh os dh ds (some (sh, ss)) e = .ok (.inaddr b host svc dh ds, e') ∧
      e'.heap = h2 ∧ e'.residue = e.residue := by
    unfold updInaddr
    simp only [h9, if_true, hA, hB, hc, bind, Except.bind, (hfire _ _ _ _).1, f1, f2]
    exact ⟨_, rfl, rfl, by simp [(hfire _ _ _ _).2]⟩
  obtain ⟨e', he, hh, hr⟩ := hres
  exact ⟨host, svc, e', he, hh ▸ k2, hh ▸ o5, hr⟩

theorem updInaddr_ok (V : Variant) (h9 : V.f9 = true) (path : List Bytes) (b : Base) (oh os : Option OStr)
    (dh ds : Option Bytes) (src : Option (Option OStr × Option OStr)) (e : Eff) (frame : List Nat)
    (hk : HeapOK e.heap)
    (o : Owns e.heap (otoks oh ++ otoks os ++ (match src with | some x => otoks x.1 ++ otoks x.2 | none => []) ++ frame)) :
    ∃ host svc e', updInaddr V path b oh os dh ds src e = .ok (.inaddr b host svc dh ds, e') ∧
      HeapOK e'.heap ∧ Owns e'.heap (otoks host ++ otoks svc ++ frame) ∧ e'.residue = e.residue := by
  cases src with
  | some x => obtain ⟨sh, ss⟩ := x; exact updInaddr_core V h9 path b oh os sh ss dh ds e frame hk o
  | none =>
    have := updInaddr_core V h9 path b oh os none none dh ds e frame hk (by simpa [otoks] using o)
    simpa [updInaddr] using this


/-! ### well-formed cached parses (no `p_string` read of a number, no float) -/

def strOK (sub : SubTy) (parsed : Parsed) : Bool :=
  sub != .float && (sub != .plain || (match parsed with | .num n => n == 0 | _ => true))

mutual
def nodeOK : Node → Bool
  | .str _ _ _ sub parsed => strOK sub parsed
  | .obj _ kids => nodesOK kids
  | .inaddr .. => true
  | .list .. => true
def nodesOK : List Node → Bool
  | [] => true
  | n :: ns => nodeOK n && nodesOK ns
end

theorem strParse_ok (V : Variant) (sv : Bool) (value dflt : Option Bytes) (sub : SubTy) (parsed : Parsed) (hook : Bool)
    (h : strOK sub parsed = true) :
    ∃ r, strParse V sv value dflt sub parsed hook = .ok r ∧ strOK sub r.parsed = true := by
  unfold strParse
  split
  · refine ⟨_, rfl, ?_⟩
    simp [strOK] at h ⊢; exact h.1
  · rename_i v _
    unfold strParseSome
    cases sub with
    | plain =>
      cases parsed with
      | zero => exact ⟨_, rfl, by simp [strOK]⟩
      | ptr b => exact ⟨_, rfl, by simp [strOK]⟩
      | num n =>
        have : n = 0 := by simpa [strOK] using h
        subst this
        exact ⟨_, rfl, by simp [strOK]⟩
    | float => simp [strOK] at h
    | boolean | integer | interval | volume =>
      all_goals
        dsimp only
        split
        · exact ⟨_, rfl, by simp [strOK]⟩
        · split
          · exact ⟨_, rfl, by simp [strOK]⟩
          · exact ⟨_, rfl, by simp [strOK]⟩

def Compat (t : Node) (s : Option Node) : Prop := ∀ x, s = some x → x.kind = t.kind

theorem tokens_setBase (n : Node) (b : Base) : tokens (n.setBase b) = tokens n := by
  cases n <;> simp [Node.setBase, tokens]

theorem nodeOK_setBase (n : Node) (b : Base) : nodeOK (n.setBase b) = nodeOK n := by
  cases n <;> simp [Node.setBase, nodeOK]

theorem fire_heap (x : Eff) (c : Bool) (k : Nat) (p : List Bytes) :
    (x.fire c k p).heap = x.heap ∧ (x.fire c k p).residue = x.residue := by
  unfold Eff.fire; split <;> exact ⟨rfl, rfl⟩

theorem finishNode_ok (n : Node) (present : Bool) (e : Eff) (frame : List Nat) (hk : HeapOK e.heap)
    (o : Owns e.heap (tokens n ++ frame)) :
    ∃ r e', finishNode n present e = .ok (r, e') ∧ HeapOK e'.heap ∧ Owns e'.heap (tokensO r ++ frame) ∧
      e'.residue = e.residue ∧ (∀ x, r = some x → nodeOK x = nodeOK n) := by
  unfold finishNode
  dsimp only
  split
  · obtain ⟨h', f, k, o', _⟩ := freeNode_ok n e.heap frame hk o
    exact ⟨none, { e with heap := h' }, by simp [f, bind, Except.bind], k, by simpa [tokensO] using o', rfl, by simp⟩
  · exact ⟨_, _, rfl, hk, by simpa [tokensO, tokens_setBase] using o, rfl, by
      intro x hx; simp at hx; subst hx; exact nodeOK_setBase _ _⟩


theorem replaceLeaf_ok (V : Variant) (h9 : V.f9 = true) (sv : Bool) (path : List Bytes) (t : Node) (s : Option Node)
    (e : Eff) (frame : List Nat) (hkind : t.kind ≠ 3) (hc : Compat t s) (hok : nodeOK t = true)
    (hk : HeapOK e.heap) (o : Owns e.heap (tokens t ++ tokensO s ++ frame)) :
    ∃ n e', replaceLeaf V sv path t s e = .ok (n, e') ∧ HeapOK e'.heap ∧ Owns e'.heap (tokens n ++ frame) ∧
      e'.residue = e.residue ∧ nodeOK n = true := by
  cases t with
  | obj b kids => simp [Node.kind] at hkind
  | str b v d sub parsed =>
    have hs : strOK sub parsed = true := by simpa [nodeOK] using hok
    cases s with
    | none =>
      obtain ⟨r, hr, hr2⟩ := strParse_ok V sv none d sub parsed b.hook hs
      refine ⟨_, _, by simp [replaceLeaf, hr, bind, Except.bind]; exact ⟨rfl, rfl⟩, ?_, ?_, ?_, ?_⟩
      · simpa [(fire_heap _ _ _ _).1] using hk
      · simpa [(fire_heap _ _ _ _).1, tokens, tokensO] using o
      · simp [(fire_heap _ _ _ _).2]
      · simpa [nodeOK] using hr2
    | some x =>
      have hx := hc x rfl
      cases x with
      | str b' sval d' sub' parsed' =>
        obtain ⟨r, hr, hr2⟩ := strParse_ok V sv sval d sub parsed b.hook hs
        refine ⟨_, _, by simp [replaceLeaf, hr, bind, Except.bind]; exact ⟨rfl, rfl⟩, ?_, ?_, ?_, ?_⟩
        · simpa [(fire_heap _ _ _ _).1] using hk
        · simpa [(fire_heap _ _ _ _).1, tokens, tokensO] using o
        · simp [(fire_heap _ _ _ _).2]
        · simpa [nodeOK] using hr2
      | _ => simp [Node.kind] at hx
  | list b v cap d =>
    cases s with
    | none =>
      refine ⟨_, _, by simp [replaceLeaf]; exact ⟨rfl, rfl⟩, ?_, ?_, ?_, ?_⟩
      · simpa [(fire_heap _ _ _ _).1] using hk
      · simpa [(fire_heap _ _ _ _).1, tokens, tokensO] using o
      · simp [(fire_heap _ _ _ _).2]
      · simp [nodeOK]
    | some x =>
      have hx := hc x rfl
      cases x with
      | list b' sval c' d' =>
        refine ⟨_, _, by simp [replaceLeaf]; exact ⟨rfl, rfl⟩, ?_, ?_, ?_, ?_⟩
        · simpa [(fire_heap _ _ _ _).1] using hk
        · simpa [(fire_heap _ _ _ _).1, tokens, tokensO] using o
        · simp [(fire_heap _ _ _ _).2]
        · simp [nodeOK]
      | _ => simp [Node.kind] at hx
  | inaddr b oh os dh ds =>
    cases s with
    | none =>
      obtain ⟨host, svc, e', he, k', o', r'⟩ := updInaddr_ok V h9 path b oh os dh ds none e frame hk
        (by simpa [tokens, tokensO] using o)
      exact ⟨_, e', by simpa [replaceLeaf] using he, k', by simpa [tokens] using o', r', by simp [nodeOK]⟩
    | some x =>
      have hx := hc x rfl
      cases x with
      | inaddr b' sh ss dh' ds' =>
        obtain ⟨host, svc, e', he, k', o', r'⟩ := updInaddr_ok V h9 path b oh os dh ds (some (sh, ss)) e frame hk
          (by simpa [tokens, tokensO] using o)
        exact ⟨_, e', by simpa [replaceLeaf] using he, k', by simpa [tokens] using o', r', by simp [nodeOK]⟩
      | _ => simp [Node.kind] at hx


/-! ### the merge never faults -/

def sizeO : Option Node → Nat
  | none => 0
  | some n => nodeSize n

def nodeOKO : Option Node → Bool
  | none => true
  | some n => nodeOK n

@[simp] theorem tokens_rename (n : Node) (nm : Bytes) : tokens (n.rename nm) = tokens n := by
  cases n <;> simp [Node.rename, Node.setBase, tokens]
@[simp] theorem nodeOK_rename (n : Node) (nm : Bytes) : nodeOK (n.rename nm) = nodeOK n := by
  cases n <;> simp [Node.rename, Node.setBase, nodeOK]
@[simp] theorem nodeSize_rename (n : Node) (nm : Bytes) : nodeSize (n.rename nm) = nodeSize n := by
  cases n <;> simp [Node.rename, Node.setBase, nodeSize]

theorem nodeSize_pos (n : Node) : 1 ≤ nodeSize n := by
  cases n <;> simp [nodeSize]

theorem tokensL_append (a b : List Node) : tokensL (a ++ b) = tokensL a ++ tokensL b := by
  induction a with
  | nil => simp [tokensL]
  | cons x xs ih => simp [tokensL, ih]

theorem nodesOK_append (a b : List Node) : nodesOK (a ++ b) = (nodesOK a && nodesOK b) := by
  induction a with
  | nil => simp [nodesOK]
  | cons x xs ih => simp [nodesOK, ih, Bool.and_assoc]

theorem tokensL_toList (r : Option Node) : tokensL r.toList = tokensO r := by
  cases r <;> simp [tokensL, tokensO]

theorem nodesOK_toList (r : Option Node) : nodesOK r.toList = nodeOKO r := by
  cases r <;> simp [nodesOK, nodeOKO]

theorem keyCmp_zero_kind {n1 n2 : Bytes} {k1 k2 : Nat} (h : keyCmp n1 k1 n2 k2 = 0) : k1 = k2 := by
  by_cases hr : Bytes.strcasecmp n1 n2 = 0
  · simp [keyCmp, hr] at h; omega
  · simp [keyCmp, hr] at h

theorem replaceNode_leaf (V : Variant) (sv : Bool) (fuel : Nat) (pfx : List Bytes) (t : Node) (s : Option Node) (e : Eff)
    (h : t.kind ≠ 3) :
    replaceNode V sv (fuel + 1) pfx t s e =
      (replaceLeaf V sv (pfx ++ [t.name]) t s e >>= fun r => finishNode r.1 s.isSome r.2) := by
  cases t with
  | obj b k => simp [Node.kind] at h
  | _ => cases s <;> simp [replaceNode] <;> rfl

macro "perm_tok" : tactic =>
  `(tactic| (rw [List.perm_iff_count]; intro a;
             simp only [tokensL, tokensO, tokens, List.count_append, List.count_cons, List.count_nil, List.append_nil]; omega))

/-- what a successful step of the merge guarantees -/
def StepOK (e e' : Eff) (toks frame : List Nat) : Prop :=
  HeapOK e'.heap ∧ Owns e'.heap (toks ++ frame) ∧ e'.residue = e.residue

theorem merge_ok (V : Variant) (h9 : V.f9 = true) (sv : Bool) : ∀ fuel,
    (∀ pfx t s e frame, 2 * (nodeSize t + sizeO s) ≤ fuel → Compat t s → nodeOK t = true → nodeOKO s = true →
      HeapOK e.heap → Owns e.heap (tokens t ++ tokensO s ++ frame) →
      ∃ r e', replaceNode V sv fuel pfx t s e = .ok (r, e') ∧ StepOK e e' (tokensO r) frame ∧ nodeOKO r = true) ∧
    (∀ pfx ts ss e frame, 2 * (nodesSize ts + nodesSize ss) + 1 ≤ fuel → nodesOK ts = true → nodesOK ss = true →
      HeapOK e.heap → Owns e.heap (tokensL ts ++ tokensL ss ++ frame) →
      ∃ rs m e', walk V sv fuel pfx ts ss e = .ok (rs, m, e') ∧ StepOK e e' (tokensL rs) frame ∧ nodesOK rs = true) ∧
    (∀ pfx ts e frame, 2 * nodesSize ts + 1 ≤ fuel → nodesOK ts = true →
      HeapOK e.heap → Owns e.heap (tokensL ts ++ frame) →
      ∃ rs m e', revertAll V sv fuel pfx ts e = .ok (rs, m, e') ∧ StepOK e e' (tokensL rs) frame ∧ nodesOK rs = true) := by
  intro fuel
  induction fuel with
  | zero =>
    refine ⟨?_, ?_, ?_⟩
    · intro _ t _ _ _ h; have := nodeSize_pos t; omega
    · intro _ _ _ _ _ h; omega
    · intro _ _ _ _ h; omega
  | succ fuel ih =>
    obtain ⟨ihR, ihW, ihA⟩ := ih
    refine ⟨?_, ?_, ?_⟩
    · -- replaceNode
      intro pfx t s e frame hf hc hok hoks hk o
      by_cases hleaf : t.kind ≠ 3
      · rw [replaceNode_leaf V sv fuel pfx t s e hleaf]
        obtain ⟨n, e1, hl, k1, o1, r1, ok1⟩ := replaceLeaf_ok V h9 sv (pfx ++ [t.name]) t s e frame hleaf hc hok hk o
        obtain ⟨r, e2, hfin, k2, o2, r2, ok2⟩ := finishNode_ok n s.isSome e1 frame k1 o1
        refine ⟨r, e2, by simp [hl, bind, Except.bind, hfin], ⟨k2, o2, by rw [r2, r1]⟩, ?_⟩
        cases r with
        | none => rfl
        | some x => simpa [nodeOKO, ok2 x rfl] using ok1
      cases t with
      | obj b kids =>
        cases s with
        | none =>
          simp only [replaceNode]
          by_cases hp : b.present = true
          · simp only [hp, if_true]
            obtain ⟨rs, m, e1, hw, ⟨k1, o1, r1⟩, ok1⟩ := ihA (pfx ++ [b.name]) kids e frame
              (by simp [nodeSize, sizeO] at hf; omega) (by simpa [nodeOK] using hok) hk (by simpa [tokens, tokensO] using o)
            obtain ⟨r, e2, hfin, k2, o2, r2, ok2⟩ := finishNode_ok (.obj b rs) false (e1.fire (m && b.hook) 3 (pfx ++ [b.name])) frame
              (by simpa [(fire_heap _ _ _ _).1] using k1) (by simpa [(fire_heap _ _ _ _).1, tokens] using o1)
            refine ⟨r, e2, by simp [hw, bind, Except.bind, hfin], ⟨k2, o2, ?_⟩, ?_⟩
            · rw [r2, (fire_heap _ _ _ _).2, r1]
            · cases r with
              | none => rfl
              | some x => simpa [nodeOKO, nodeOK, ok2 x rfl] using ok1
          · simp only [hp, if_false]
            obtain ⟨r, e2, hfin, k2, o2, r2, ok2⟩ := finishNode_ok (.obj b kids) false e frame hk (by simpa [tokensO] using o)
            refine ⟨r, e2, hfin, ⟨k2, o2, r2⟩, ?_⟩
            cases r with
            | none => rfl
            | some x => simpa [nodeOKO, ok2 x rfl] using hok
        | some x =>
          have hx := hc x rfl
          cases x with
          | obj b' skids =>
            simp only [replaceNode]
            obtain ⟨rs, m, e1, hw, ⟨k1, o1, r1⟩, ok1⟩ := ihW (pfx ++ [b.name]) kids skids e frame
              (by simp [nodeSize, sizeO] at hf; omega) (by simpa [nodeOK] using hok) (by simpa [nodeOKO, nodeOK] using hoks)
              hk (by simpa [tokens, tokensO] using o)
            obtain ⟨r, e2, hfin, k2, o2, r2, ok2⟩ := finishNode_ok (.obj b rs) true (e1.fire (m && b.hook) 3 (pfx ++ [b.name])) frame
              (by simpa [(fire_heap _ _ _ _).1] using k1) (by simpa [(fire_heap _ _ _ _).1, tokens] using o1)
            refine ⟨r, e2, by simp [hw, bind, Except.bind, hfin], ⟨k2, o2, ?_⟩, ?_⟩
            · rw [r2, (fire_heap _ _ _ _).2, r1]
            · cases r with
              | none => rfl
              | some x => simpa [nodeOKO, nodeOK, ok2 x rfl] using ok1
          | _ => simp [Node.kind] at hx
      | _ => simp [Node.kind] at hleaf
    · -- walk
      intro pfx ts ss e frame hf hts hss hk o
      cases ts with
      | nil =>
        cases ss with
        | nil => exact ⟨[], false, e, by simp [walk], ⟨hk, by simpa [tokensL] using o, rfl⟩, rfl⟩
        | cons s ss =>
          have hs := nodeSize_pos s
          simp only [nodesOK, Bool.and_eq_true] at hss
          obtain ⟨rest, m, e1, hw, ⟨k1, o1, r1⟩, ok1⟩ := ihW pfx [] ss e (tokens s ++ frame)
            (by simp [nodesSize] at hf ⊢; omega) rfl hss.2 hk (o.perm (by perm_tok))
          refine ⟨s :: rest, true, e1, by simp [walk, hw, bind, Except.bind], ⟨k1, o1.perm (by perm_tok), r1⟩, ?_⟩
          simp [nodesOK, hss.1, ok1]
      | cons t ts =>
        have ht := nodeSize_pos t
        simp only [nodesOK, Bool.and_eq_true] at hts
        cases ss with
        | nil =>
          obtain ⟨r, e1, hr, ⟨k1, o1, r1⟩, ok1⟩ := ihR pfx t none e (tokensL ts ++ frame)
            (by simp [nodesSize, sizeO] at hf ⊢; omega) (by intro x hx; simp at hx) hts.1 rfl hk (o.perm (by perm_tok))
          obtain ⟨rest, m, e2, hw, ⟨k2, o2, r2⟩, ok2⟩ := ihW pfx ts [] e1 (tokensO r ++ frame)
            (by simp [nodesSize] at hf ⊢; omega) hts.2 rfl k1 (o1.perm (by perm_tok))
          refine ⟨r.toList ++ rest, m || r.isNone, e2, by simp [walk, hr, hw, bind, Except.bind],
            ⟨k2, ?_, by rw [r2, r1]⟩, ?_⟩
          · rw [tokensL_append, tokensL_toList]; exact o2.perm (by perm_tok)
          · rw [nodesOK_append, nodesOK_toList, ok1, ok2]; rfl
        | cons s ss =>
          have hs := nodeSize_pos s
          simp only [nodesOK, Bool.and_eq_true] at hss
          simp only [walk]
          by_cases hgt : keyCmp t.name t.kind s.name s.kind > 0
          · simp only [hgt, if_true]
            obtain ⟨rest, m, e1, hw, ⟨k1, o1, r1⟩, ok1⟩ := ihW pfx (t :: ts) ss e (tokens s ++ frame)
              (by simp [nodesSize] at hf ⊢; omega) (by simp [nodesOK, hts]) hss.2 hk (o.perm (by perm_tok))
            refine ⟨s :: rest, true, e1, by simp [hw, bind, Except.bind], ⟨k1, o1.perm (by perm_tok), r1⟩, ?_⟩
            simp [nodesOK, hss.1, ok1]
          · simp only [hgt, if_false]
            by_cases hlt : keyCmp t.name t.kind s.name s.kind < 0
            · simp only [hlt, if_true]
              obtain ⟨r, e1, hr, ⟨k1, o1, r1⟩, ok1⟩ := ihR pfx t none e (tokensL ts ++ tokensL (s :: ss) ++ frame)
                (by simp [nodesSize, sizeO] at hf ⊢; omega) (by intro x hx; simp at hx) hts.1 rfl hk (o.perm (by perm_tok))
              obtain ⟨rest, m, e2, hw, ⟨k2, o2, r2⟩, ok2⟩ := ihW pfx ts (s :: ss) e1 (tokensO r ++ frame)
                (by simp [nodesSize] at hf ⊢; omega) hts.2 (by simp [nodesOK, hss]) k1 (o1.perm (by perm_tok))
              refine ⟨r.toList ++ rest, m || r.isNone, e2, by simp [hr, hw, bind, Except.bind],
                ⟨k2, ?_, by rw [r2, r1]⟩, ?_⟩
              · rw [tokensL_append, tokensL_toList]; exact o2.perm (by perm_tok)
              · rw [nodesOK_append, nodesOK_toList, ok1, ok2]; rfl
            · simp only [hlt, if_false]
              have heq : keyCmp t.name t.kind s.name s.kind = 0 := by omega
              have hkind := keyCmp_zero_kind heq
              obtain ⟨r, e1, hr, ⟨k1, o1, r1⟩, ok1⟩ := ihR pfx (t.rename s.name) (some s) e (tokensL ts ++ tokensL ss ++ frame)
                (by simp [nodesSize, sizeO] at hf ⊢; omega)
                (by intro x hx; simp at hx; subst hx; simpa using hkind.symm)
                (by simpa using hts.1) (by simpa [nodeOKO] using hss.1) hk
                (by rw [tokens_rename]; exact o.perm (by perm_tok))
              obtain ⟨rest, m, e2, hw, ⟨k2, o2, r2⟩, ok2⟩ := ihW pfx ts ss e1 (tokensO r ++ frame)
                (by simp [nodesSize] at hf ⊢; omega) hts.2 hss.2 k1 (o1.perm (by perm_tok))
              refine ⟨r.toList ++ rest, m || (t.name != s.name), e2, by simp [hr, hw, bind, Except.bind],
                ⟨k2, ?_, by rw [r2, r1]⟩, ?_⟩
              · rw [tokensL_append, tokensL_toList]; exact o2.perm (by perm_tok)
              · rw [nodesOK_append, nodesOK_toList, ok1, ok2]; rfl
    · -- revertAll
      intro pfx ts e frame hf hts hk o
      cases ts with
      | nil => exact ⟨[], false, e, by simp [revertAll], ⟨hk, by simpa [tokensL] using o, rfl⟩, rfl⟩
      | cons t ts =>
        have ht := nodeSize_pos t
        simp only [nodesOK, Bool.and_eq_true] at hts
        obtain ⟨r, e1, hr, ⟨k1, o1, r1⟩, ok1⟩ := ihR pfx t none e (tokensL ts ++ frame)
          (by simp [nodesSize, sizeO] at hf ⊢; omega) (by intro x hx; simp at hx) hts.1 rfl hk (o.perm (by perm_tok))
        obtain ⟨rest, m, e2, hw, ⟨k2, o2, r2⟩, ok2⟩ := ihA pfx ts e1 (tokensO r ++ frame)
          (by simp [nodesSize] at hf ⊢; omega) hts.2 k1 (o1.perm (by perm_tok))
        refine ⟨r.toList ++ rest, m || r.isNone, e2, by simp [revertAll, hr, hw, bind, Except.bind],
          ⟨k2, ?_, by rw [r2, r1]⟩, ?_⟩
        · rw [tokensL_append, tokensL_toList]; exact o2.perm (by perm_tok)
        · rw [nodesOK_append, nodesOK_toList, ok1, ok2]; rfl


mutual
theorem toLive_nodeOK (V : Variant) : (p : PNode) → ∀ h, nodeOK (toLive V p h).1 = true
  | .str n v, h => by cases hf : V.f14 <;> simp [toLive, nodeOK, strOK, hf]
  | .inaddr n a b, h => by simp [toLive, nodeOK]
  | .list n xs c, h => by simp [toLive, nodeOK]
  | .obj n kids, h => by simpa [toLive, nodeOK] using toLiveList_nodesOK V kids h
theorem toLiveList_nodesOK (V : Variant) : (ps : List PNode) → ∀ h, nodesOK (toLiveList V ps h).1 = true
  | [], h => by simp [toLiveList, nodesOK]
  | p :: ps, h => by
    simp only [toLiveList, nodesOK, Bool.and_eq_true]
    exact ⟨toLive_nodeOK V p h, toLiveList_nodesOK V ps _⟩
end

/-- the invariant of the model state: every host/service string in the live tree is
    allocated, no two nodes share one, and no cached parse is of the wrong kind -/
def StateOK (st : State) : Prop :=
  HeapOK st.heap ∧ Owns st.heap (tokensL st.kids) ∧ nodesOK st.kids = true

theorem stateOK_init : StateOK {} := ⟨by intro t h; simp at h, ⟨by simp [tokensL], by intro t h; simp [tokensL] at h⟩, rfl⟩

/-- C15 (`merge_no_fault`): with the F9 repair, a load — whatever the file, whatever the
    prior state — commits no double free and no use after free, and re-establishes the
    ownership invariant.  (False for the pinned text: `Cex.f9_pinned_use_after_free`.) -/
theorem merge_no_fault (V : Variant) (h9 : V.f9 = true) (sv : Bool) (st : State) (body : Bytes) (hst : StateOK st) :
    ∃ st' o, confRead V sv st body = .ok (st', o) ∧ StateOK st' := by
  obtain ⟨hk, ho, hok⟩ := hst
  unfold confRead
  cases hp : parseFile V body with
  | error e =>
    cases e with
    | fault f => exact absurd hp (parse_no_fault V body f)
    | _ => exact ⟨st, _, rfl, hk, ho, hok⟩
  | ok scratch =>
    have tl := toLiveList_ok V scratch st.heap (tokensL st.kids) hk ho
    have tok := toLiveList_nodesOK V scratch st.heap
    rcases hL : toLiveList V scratch st.heap with ⟨snodes, hp1⟩
    rw [hL] at tl tok
    dsimp only at tl tok ⊢
    obtain ⟨rs, m, e', hw, ⟨k1, o1, r1⟩, ok1⟩ := (merge_ok V h9 sv (mergeFuel st.kids snodes)).2.1 [] st.kids snodes
      { heap := hp1 } [] (by simp [mergeFuel]) hok tok tl.1 (tl.2.perm (by perm_tok))
    have : e'.residue = [] := r1
    simp only [hL, hw, bind, Except.bind, this, List.foldlM, pure, Except.pure]
    exact ⟨_, _, rfl, k1, by simpa using o1, ok1⟩

end Iauthd.Conf
