import Iauthd.Util.Bytes
/-
  Conf engine, part 3: the typed value parsers of src/config.c
  (`conf_parse_boolean`, `_integer`, `_interval`, `_volume`).

  Every parser returns `(value, success)`; values are the 32-bit patterns the C
  functions return (`int` results are shown as their unsigned pattern).  Inputs are C
  strings (NUL-free).  `strtoul(…, 0)` is modelled after glibc (C locale, LP64).
-/
namespace Iauthd.Conf

inductive SubTy where
  | plain | boolean | integer | float | interval | volume
  deriving Repr, DecidableEq, Inhabited

def SubTy.ofCode : Nat → SubTy
  | 1 => .boolean | 2 => .integer | 3 => .float | 4 => .interval | 5 => .volume | _ => .plain
def SubTy.code : SubTy → Nat
  | .plain => 0 | .boolean => 1 | .integer => 2 | .float => 3 | .interval => 4 | .volume => 5

def u32 (n : Nat) : Nat := n % 4294967296
def u64max : Nat := 18446744073709551615

def bs (s : String) : Bytes := s.toUTF8.toList

/-- `conf_parse_boolean` -/
def parseBoolean (v : Bytes) : Nat × Bool :=
  if v == bs "0" || v == bs "false" || v == bs "off" || v == bs "disabled" || v == bs "no" then (0, true)
  else if v == bs "1" || v == bs "true" || v == bs "on" || v == bs "enabled" || v == bs "yes" then (1, true)
  else (0, false)

/-- value of a digit in `base`, if it is one -/
def digitVal (base : Nat) (c : UInt8) : Option Nat :=
  let v : Option Nat :=
    if 48 ≤ c.toNat && c.toNat ≤ 57 then some (c.toNat - 48)
    else if 97 ≤ c.toNat && c.toNat ≤ 122 then some (c.toNat - 87)
    else if 65 ≤ c.toNat && c.toNat ≤ 90 then some (c.toNat - 55)
    else none
  match v with
  | some x => if x < base then some x else none
  | none => none

/-- digits of `base` from the front of `s`: (accumulated value, unbounded; number of
    digits consumed) -/
def accDigits (base : Nat) : Bytes → Nat → Nat → Nat × Nat
  | [], acc, n => (acc, n)
  | c :: rest, acc, n =>
    match digitVal base c with
    | none => (acc, n)
    | some x => accDigits base rest (acc * base + x) (n + 1)

def skipSpaces : Bytes → Nat
  | [] => 0
  | c :: rest => if Bytes.isSpace c then skipSpaces rest + 1 else 0

/-- optional sign: (negative?, characters consumed) -/
def signOf : Bytes → Bool × Nat
  | 45 :: _ => (true, 1)
  | 43 :: _ => (false, 1)
  | _ => (false, 0)

/-- base 0: (base, length of the `0x` prefix) -/
def baseOf : Bytes → Nat × Nat
  | 48 :: x :: h :: _ =>
    if (x == 120 || x == 88) && (digitVal 16 h).isSome then (16, 2) else (8, 0)
  | 48 :: _ => (8, 0)
  | _ => (10, 0)

/-- `strtoul(s, &eov, 0)`: (result, offset of `eov`) -/
def strtoul0 (s : Bytes) : Nat × Nat :=
  let sp := skipSpaces s
  let s1 := s.drop sp
  let sg := signOf s1
  let s2 := s1.drop sg.2
  let bp := baseOf s2
  let an := accDigits bp.1 (s2.drop bp.2) 0 0
  if an.2 == 0 then (0, 0)             -- no conversion: eov = s
  else
    let v := if an.1 > u64max then u64max else if sg.1 then (18446744073709551616 - an.1) % 18446744073709551616 else an.1
    (v, sp + sg.2 + bp.2 + an.2)

/-- `conf_parse_integer`: the `unsigned long` truncated to `int` -/
def parseInteger (v : Bytes) : Nat × Bool :=
  let (ul, e) := strtoul0 v
  if e == v.length then (u32 ul, true) else (0, false)

/-- loop state of `conf_parse_interval` -/
def intervalGo : Bytes → Nat → Nat → Nat → Nat × Bool
  | [], total, part, _ => (u32 (total + part), true)
  | c :: rest, total, part, colons =>
    if 48 ≤ c.toNat && c.toNat ≤ 57 then intervalGo rest total (u32 (part * 10 + (c.toNat - 48))) colons
    else if c == 100 then intervalGo rest (u32 (total + part * 86400)) 0 colons      -- d
    else if c == 104 then intervalGo rest (u32 (total + part * 3600)) 0 colons       -- h
    else if c == 109 then intervalGo rest (u32 (total + part * 60)) 0 colons         -- m
    else if c == 115 then intervalGo rest (u32 (total + part)) 0 colons              -- s
    else if c == 121 then intervalGo rest (u32 (total + part * 31536000)) 0 colons   -- y
    else if c == 58 then                                                                -- ':'
      if colons == 0 then intervalGo rest (u32 (total + part * 3600)) 0 1
      else if colons == 1 then intervalGo rest (u32 (total + part * 60)) 0 2
      else (u32 (total + part), false)
    else (u32 (total + part), false)

/-- `conf_parse_interval` -/
def parseInterval (v : Bytes) : Nat × Bool := intervalGo v 0 0 0

/-- loop of `conf_parse_volume`.  `strict = false` is the pinned text: the `switch` has
    no `default`, so a character that is neither a digit nor a unit is skipped and
    `success` is always 1.  `strict = true` rejects at such a character. -/
def volumeGo (strict : Bool) : Bytes → Nat → Nat → Nat × Bool
  | [], total, part => (u32 (total + part), true)
  | c :: rest, total, part =>
    if 48 ≤ c.toNat && c.toNat ≤ 57 then volumeGo strict rest total (u32 (part * 10 + (c.toNat - 48)))
    else if c == 66 || c == 98 then volumeGo strict rest (u32 (total + part)) 0
    else if c == 71 || c == 103 then volumeGo strict rest (u32 (total + u32 (part * 1073741824))) 0
    else if c == 75 || c == 107 then volumeGo strict rest (u32 (total + u32 (part * 1024))) 0
    else if c == 77 || c == 109 then volumeGo strict rest (u32 (total + u32 (part * 1048576))) 0
    else if strict then (u32 (total + part), false)
    else volumeGo strict rest total part

/-- `conf_parse_volume` -/
def parseVolume (strict : Bool) (v : Bytes) : Nat × Bool := volumeGo strict v 0 0

/-- dispatch used by `conf_parse_string_value` for the typed subtypes -/
def parseTyped (strictVolume : Bool) : SubTy → Bytes → Nat × Bool
  | .boolean, v => parseBoolean v
  | .integer, v => parseInteger v
  | .interval, v => parseInterval v
  | .volume, v => parseVolume strictVolume v
  | _, _ => (0, false)            -- plain is handled by the caller; float is not modelled

end Iauthd.Conf
