import Iauthd.Conf.Parse
import Iauthd.Conf.Spec
/-
  C16, meaning: the tree `conf_parse_entry` accumulates for a sequence of entries is the
  canonical tree of the document (`Spec.canonTree`): later duplicates override earlier
  ones, repeated objects merge, siblings in key order.
-/
set_option linter.unusedSimpArgs false
namespace Iauthd.Conf
open Iauthd.Conf.Spec (Val CNode canonAdd canonFold canonTree place kidsAt keyEq keyLt)

/-- what the property can see of a scratch node -/
def toC : PNode → CNode
  | .str n v => .str n v
  | .inaddr n h s => .pair n h (s.getD [])
  | .list n xs _ => .list n xs
  | .obj n kids => .obj n (kids.map toC)

/-- the scratch tree the parser builds for a document (mirror of `Spec.canonAdd`/`canonFold`
    on the parser's own operations) -/
def padd (n : Bytes) : Val → List PNode → List PNode
  | .str s, kids => putStr n s kids
  | .pair h s, kids => putInaddr n h (some s) kids
  | .list xs, kids => putList n xs kids
  | .obj es, kids => putObj n (pfoldAux es (kidsOf (pfind n 3 kids))) kids
where
  pfoldAux : List (Bytes × Val) → List PNode → List PNode
    | [], kids => kids
    | (n, v) :: es, kids => pfoldAux es (padd n v kids)


def pfold (es : List (Bytes × Val)) (kids : List PNode) : List PNode := padd.pfoldAux es kids

theorem toC_name_kind (p : PNode) : (toC p).name = p.name ∧ (toC p).kind = p.kind := by
  cases p <;> simp [toC, CNode.name, CNode.kind, PNode.name, PNode.kind]

theorem keyCmp_eq (n1 : Bytes) (k1 : Nat) (n2 : Bytes) (k2 : Nat) :
    (keyCmp n1 k1 n2 k2 == 0) = keyEq n1 k1 n2 k2 := by
  unfold keyCmp keyEq
  by_cases h : Bytes.strcasecmp n1 n2 = 0
  · simp only [h, beq_self_eq_true, if_true, Bool.true_and]
    by_cases hk : k1 = k2
    · simp [hk]
    · have : ((k1 : Int) - (k2 : Int) == 0) = false := by
        simp only [beq_eq_false_iff_ne, ne_eq]; omega
      simp [this, hk]
  · have hb : (Bytes.strcasecmp n1 n2 == 0) = false := by simpa using h
    simp [hb, h]

theorem keyCmp_lt (n1 : Bytes) (k1 : Nat) (n2 : Bytes) (k2 : Nat) :
    decide (keyCmp n1 k1 n2 k2 < 0) = keyLt n1 k1 n2 k2 := by
  unfold keyCmp keyLt
  by_cases h : Bytes.strcasecmp n1 n2 = 0
  · simp only [h, beq_self_eq_true, if_true, Bool.true_and]
    by_cases hk : k1 < k2
    · have : (k1 : Int) - (k2 : Int) < 0 := by omega
      simp [hk, this]
    · have : ¬ ((k1 : Int) - (k2 : Int) < 0) := by omega
      simp [hk, this]
  · have hb : (Bytes.strcasecmp n1 n2 == 0) = false := by simpa using h
    simp [hb, h]

/-- `node` under another name -/
def rename (node : CNode) (nm : Bytes) : CNode :=
  match node with
  | .str _ v => .str nm v
  | .pair _ h s => .pair nm h s
  | .list _ xs => .list nm xs
  | .obj _ ks => .obj nm ks

theorem keyCmp_zero_kind' {n1 n2 : Bytes} {k1 k2 : Nat} (h : (keyCmp n1 k1 n2 k2 == 0) = true) : k1 = k2 := by
  rw [keyCmp_eq] at h
  simp only [keyEq, Bool.and_eq_true, beq_iff_eq] at h
  exact h.2

/-- `upsert` (find-or-create at the sorted position, the old node keeps its name) is the
    property's `place`, provided the update agrees with `place`'s overwrite -/
theorem upsert_place (name : Bytes) (kind : Nat) (mk : Option PNode → PNode) (node : CNode)
    (hname : node.name = name) (hkind : node.kind = kind)
    (hnew : toC (mk none) = node)
    (hold : ∀ p, p.kind = kind → toC (mk (some p)) = rename node p.name) :
    ∀ kids, (upsert name kind mk kids).map toC = place node (kids.map toC) := by
  intro kids
  induction kids with
  | nil => simp [upsert, place, hnew]
  | cons p ps ih =>
    obtain ⟨pn, pk⟩ := toC_name_kind p
    simp only [upsert, List.map_cons, place, hname, hkind, pn, pk]
    rw [← keyCmp_eq]
    by_cases h0 : (keyCmp name kind p.name p.kind == 0) = true
    · simp only [h0, if_true, List.map_cons, hold p (keyCmp_zero_kind' h0).symm]
      cases node <;> rfl
    · simp only [h0, if_false, Bool.false_eq_true]
      rw [← keyCmp_lt]
      by_cases hl : keyCmp name kind p.name p.kind < 0
      · simp [hl, hnew]
      · simp [hl, ih]

theorem pfind_kidsAt (n : Bytes) (kids : List PNode) :
    (kidsOf (pfind n 3 kids)).map toC = kidsAt n (kids.map toC) := by
  induction kids with
  | nil => simp [pfind, kidsOf, kidsAt]
  | cons p ps ih =>
    obtain ⟨pn, pk⟩ := toC_name_kind p
    simp only [pfind, List.map_cons, kidsAt, pn, pk]
    rw [← keyCmp_eq]
    by_cases h0 : (keyCmp n 3 p.name p.kind == 0) = true
    · simp only [h0, if_true]
      cases p <;> simp [kidsOf, toC]
    · simp only [h0, if_false, Bool.false_eq_true]
      exact ih

mutual
theorem padd_canon : (n : Bytes) → (v : Val) → ∀ kids, (padd n v kids).map toC = canonAdd n v (kids.map toC)
  | n, .str s, kids => by
    simp only [padd, canonAdd, putStr]
    exact upsert_place n 0 _ (.str n s) rfl rfl (by simp [toC]) (by intro p hp; cases p <;> simp_all [toC, rename, PNode.kind, PNode.name]) kids
  | n, .pair h s, kids => by
    simp only [padd, canonAdd, putInaddr]
    exact upsert_place n 1 _ (.pair n h s) rfl rfl (by simp [toC]) (by intro p hp; cases p <;> simp_all [toC, rename, PNode.kind, PNode.name]) kids
  | n, .list xs, kids => by
    simp only [padd, canonAdd, putList]
    exact upsert_place n 2 _ (.list n xs) rfl rfl (by simp [toC]) (by intro p hp; cases p <;> simp_all [toC, rename, PNode.kind, PNode.name]) kids
  | n, .obj es, kids => by
    simp only [padd, canonAdd, putObj]
    have ih := pfold_canon es (kidsOf (pfind n 3 kids))
    rw [pfind_kidsAt] at ih
    rw [← ih]
    exact upsert_place n 3 _ (.obj n ((padd.pfoldAux es (kidsOf (pfind n 3 kids))).map toC)) rfl rfl
      (by simp [toC]) (by intro p hp; cases p <;> simp_all [toC, rename, PNode.kind, PNode.name]) kids
theorem pfold_canon : (es : List (Bytes × Val)) → ∀ kids, (padd.pfoldAux es kids).map toC = canonFold es (kids.map toC)
  | [], kids => by simp [padd.pfoldAux, canonFold]
  | (n, v) :: es, kids => by
    simp only [padd.pfoldAux, canonFold]
    rw [pfold_canon es (padd n v kids), padd_canon n v kids]
end

/-- the parser's accumulated tree for a document is the canonical tree of the document -/
theorem pfold_canonTree (doc : Spec.Doc) : (pfold doc []).map toC = canonTree doc := by
  simpa [pfold, canonTree] using pfold_canon doc []

end Iauthd.Conf
