import Iauthd.Conf.ProofsRoundtrip
/-
  C16, bridge: what `Spec.render` writes for a document under a layout whose entries are
  all terminated (`;`, newline or both) and whose lists are parenthesised is a text of
  the shape `REntries … ++ gap`, hence (ProofsRoundtrip) parsed back to the document's tree.
-/
set_option linter.unusedSimpArgs false
namespace Iauthd.Conf
open Iauthd.Conf.Spec (Val Esc StrLay Term ValLay EntLay Layout renderStr renderVal renderEntries renderItems renderTerm
  joinGap gapAny gapFlat canBare isTokenByte encBody lastByte render)

theorem canBare_spec (s : Bytes) (h : canBare s = true) : s ≠ [] ∧ s.all isToken = true := by
  unfold canBare at h
  simp only [Bool.and_eq_true, Bool.not_eq_true', List.isEmpty_eq_false_iff] at h
  refine ⟨h.1, ?_⟩
  have := h.2
  rw [List.all_eq_true] at this ⊢
  intro x hx
  rw [← isTokenByte_eq]; exact this x hx

/-- `renderStr` is a rendering in the sense of `RStr` -/
theorem renderStr_rstr (l : StrLay) (s : Bytes) : RStr s (l.bare && canBare s) (renderStr l s) := by
  unfold renderStr
  by_cases h : (l.bare && canBare s) = true
  · simp only [h, if_true]
    simp only [Bool.and_eq_true] at h
    obtain ⟨h1, h2⟩ := canBare_spec s h.2
    exact .bare s h1 h2
  · have hf : (l.bare && canBare s) = false := by simpa using h
    simp only [hf, Bool.false_eq_true, if_false]
    exact .quoted s l.escs


theorem lastByte_all (p : UInt8 → Bool) : ∀ (s : Bytes), s ≠ [] → s.all p = true → ∃ a, lastByte s = some a ∧ p a = true
  | [], h, _ => absurd rfl h
  | [b], _, ha => ⟨b, rfl, by simpa using ha⟩
  | b :: c :: rest, _, ha => by
    simp only [List.all_cons, Bool.and_eq_true] at ha
    obtain ⟨a, h1, h2⟩ := lastByte_all p (c :: rest) (by simp) (by simp [ha.2])
    exact ⟨a, by simpa [lastByte] using h1, h2⟩

/-- `joinGap` inserts a skippable gap after which a bareword on the left is safe -/
theorem joinGap_spec (care : Bool) (s : Bytes) (b : Bool) (left gap right : Bytes) (hl : RStr s b left) (hg : GapOK care gap) :
    ∃ g', joinGap left gap right = left ++ g' ++ right ∧ GapOK care g' ∧ Follows b (g' ++ right) := by
  unfold joinGap
  dsimp only
  generalize ht : (gap.isEmpty && (match lastByte left, right.head? with
     | some a, some b => isTokenByte a && isTokenByte b
     | _, _ => false)) = touching
  cases touching with
  | true =>
    refine ⟨[32], by simp, gapOK_sp care, ?_⟩
    intro _ x hx
    simp at hx; subst hx; decide
  | false =>
    refine ⟨gap, by simp, hg, ?_⟩
    intro hb x hx
    cases gap with
    | cons a as => simp at hx; subst hx; exact gapOK_head hg a as rfl
    | nil =>
      simp only [List.nil_append] at hx
      subst hb
      cases hl with
      | bare hne hall =>
        obtain ⟨a, ha1, ha2⟩ := lastByte_all isToken s hne hall
        simp only [List.isEmpty_nil, Bool.true_and, ha1, hx] at ht
        rw [isTokenByte_eq, isTokenByte_eq, ha2] at ht
        simpa using ht


theorem items_ritems : ∀ (xs : List Bytes) (items : List (StrLay × Nat × Nat)) (g0 g1 : Bytes),
    GapOK false g0 → GapOK false g1 → (∀ x ∈ xs, NoNul x) →
    RItems xs (g0 ++ renderItems false xs items ++ g1)
  | [], items, g0, g1, h0, h1, _ => by
    simpa [renderItems] using RItems.nil (g0 ++ g1) (gapOK_append h0 h1)
  | [x], [], g0, g1, h0, h1, hn => by
    have := RItems.last g0 x (renderStr {} x) g1 _ h0 (hn x (by simp)) (renderStr_rstr {} x) h1
    simpa [renderItems] using this
  | [x], l :: ls, g0, g1, h0, h1, hn => by
    have := RItems.last (g0 ++ gapAny l.2.1) x (renderStr l.1 x) (gapAny l.2.2 ++ g1) _
      (gapOK_append h0 (gapAny_ok _)) (hn x (by simp)) (renderStr_rstr l.1 x) (gapOK_append (gapAny_ok _) h1)
    simpa [renderItems] using this
  | x :: y :: rest, [], g0, g1, h0, h1, hn => by
    have ih := items_ritems (y :: rest) [] [] g1 (gapOK_nil false) h1 (fun z hz => hn z (List.mem_cons_of_mem _ hz))
    have := RItems.cons g0 x (renderStr {} x) [] _ (y :: rest) _ h0 (hn x (by simp)) (renderStr_rstr {} x) (gapOK_nil false)
      (by simp) ih
    simpa [renderItems] using this
  | x :: y :: rest, l :: ls, g0, g1, h0, h1, hn => by
    have ih := items_ritems (y :: rest) ls [] g1 (gapOK_nil false) h1 (fun z hz => hn z (List.mem_cons_of_mem _ hz))
    have := RItems.cons (g0 ++ gapAny l.2.1) x (renderStr l.1 x) (gapAny l.2.2) _ (y :: rest) _
      (gapOK_append h0 (gapAny_ok _)) (hn x (by simp)) (renderStr_rstr l.1 x) (gapAny_ok _) (by simp) ih
    simpa [renderItems] using this


/-! ### the layout family: terminated entries, parenthesised lists -/

def termOk : Term → Bool
  | .none => false
  | _ => true

mutual
def valOk : Val → ValLay → Bool
  | .str _, .str _ => true
  | .pair _ _, .pair _ _ _ => true
  | .list xs, .list paren _ _ _ => paren || decide (xs.length < 2)
  | .obj es, .obj _ ls _ => entsOk es ls
  | _, _ => false
def entsOk : List (Bytes × Val) → List EntLay → Bool
  | [], _ => true
  | _ :: _, [] => false
  | (_, v) :: es, (_, _, _, lv, _, term) :: ls => termOk term && valOk v lv && entsOk es ls
end

mutual
/-- all strings of the document are C strings -/
def ValNN : Val → Prop
  | .str s => NoNul s
  | .pair h s => NoNul h ∧ NoNul s
  | .list xs => ∀ x ∈ xs, NoNul x
  | .obj es => EntsNN es
def EntsNN : List (Bytes × Val) → Prop
  | [] => True
  | (n, v) :: es => NoNul n ∧ ValNN v ∧ EntsNN es
end

mutual
theorem bridge_val : (v : Val) → (lv : ValLay) → valOk v lv = true → ValNN v → ∃ bv, RVal v (renderVal v lv) bv
  | .str s, .str l, _, hn => ⟨_, by simpa [renderVal] using RVal.str s _ _ hn (renderStr_rstr l s)⟩
  | .pair h s, .pair lh g ls, _, hn => by
    obtain ⟨g', e, hg', hf⟩ := joinGap_spec true h _ (renderStr lh h) (gapFlat g) (renderStr ls s) (renderStr_rstr lh h) (gapFlat_ok true g)
    refine ⟨(ls.bare && canBare s), ?_⟩
    simp only [renderVal, e]
    exact RVal.pair h s _ _ g' _ _ hn.1 hn.2 (renderStr_rstr lh h) hg' hf (renderStr_rstr ls s)
  | .list xs, .list paren og items cg, hok, hn => by
    refine ⟨false, ?_⟩
    simp only [valOk] at hok
    simp only [renderVal, hok, if_true]
    have := items_ritems xs items (gapAny og) (gapAny cg) (gapAny_ok _) (gapAny_ok _) hn
    have r := RVal.list xs _ this
    simpa using r
  | .obj es, .obj og ls cg, hok, hn => by
    simp only [valOk] at hok
    obtain ⟨body, tg, e, hb, htg⟩ := bridge_ents es ls hok hn true (gapAny og) (gapAny_ok _)
    refine ⟨false, ?_⟩
    have r := RVal.obj es body (tg ++ gapAny cg) hb (gapOK_append htg (gapAny_ok _))
    simp only [renderVal]
    have e' : [123] ++ gapAny og ++ renderEntries true es ls ++ gapAny cg ++ [125] =
        [123] ++ body ++ (tg ++ gapAny cg) ++ [125] := by
      have : gapAny og ++ renderEntries true es ls = body ++ tg := e
      calc [123] ++ gapAny og ++ renderEntries true es ls ++ gapAny cg ++ [125]
          = [123] ++ (gapAny og ++ renderEntries true es ls) ++ gapAny cg ++ [125] := by simp
        _ = [123] ++ body ++ (tg ++ gapAny cg) ++ [125] := by rw [this]; simp
    rw [e']; exact r
  | .str _, .pair .., h, _ | .str _, .list .., h, _ | .str _, .obj .., h, _ => by simp [valOk] at h
  | .pair .., .str _, h, _ | .pair .., .list .., h, _ | .pair .., .obj .., h, _ => by simp [valOk] at h
  | .list _, .str _, h, _ | .list _, .pair .., h, _ | .list _, .obj .., h, _ => by simp [valOk] at h
  | .obj _, .str _, h, _ | .obj _, .pair .., h, _ | .obj _, .list .., h, _ => by simp [valOk] at h

theorem bridge_ents : (es : List (Bytes × Val)) → (ls : List EntLay) → entsOk es ls = true → EntsNN es →
    ∀ (lastOk : Bool) (g0 : Bytes), GapOK false g0 →
    ∃ body tg, g0 ++ renderEntries lastOk es ls = body ++ tg ∧ REntries es body ∧ GapOK false tg
  | [], ls, _, _, lastOk, g0, hg0 => ⟨[], g0, by simp [renderEntries], .nil, hg0⟩
  | (n, v) :: es, [], h, _, _, _, _ => by simp [entsOk] at h
  | (n, v) :: es, (pre, ln, sep, lv, pt, term) :: ls, hok, hn, lastOk, g0, hg0 => by
    simp only [entsOk, Bool.and_eq_true] at hok
    obtain ⟨⟨hterm, hv⟩, hrest⟩ := hok
    obtain ⟨hnn, hvn, hen⟩ := hn
    obtain ⟨bv, hrv⟩ := bridge_val v lv hv hvn
    obtain ⟨sep', ej, hsep', hfol⟩ := joinGap_spec false n _ (renderStr ln n) (gapAny sep) (renderVal v lv)
      (renderStr_rstr ln n) (gapAny_ok sep)
    -- terminator: one byte, and possibly a newline left over for the next gap
    have hT : ∃ t g1, (t = 59 ∨ t = 10) ∧ GapOK false g1 ∧
        renderTerm (if (term == Term.none && !(lastOk && es.isEmpty)) = true then Term.semi else term) = t :: g1 := by
      cases term with
      | none => simp [termOk] at hterm
      | semi => exact ⟨59, [], .inl rfl, gapOK_nil false, by simp [renderTerm]⟩
      | nl => exact ⟨10, [], .inr rfl, gapOK_nil false, by simp [renderTerm]⟩
      | both => exact ⟨59, [10], .inl rfl, ws_nl, by simp [renderTerm]⟩
    obtain ⟨t, g1, ht, hg1, eT⟩ := hT
    obtain ⟨body', tg, e', hb', htg⟩ := bridge_ents es ls hrest hen lastOk g1 hg1
    refine ⟨(g0 ++ gapAny pre) ++ renderStr ln n ++ sep' ++ renderVal v lv ++ gapFlat pt ++ [t] ++ body', tg, ?_, ?_, htg⟩
    · simp only [renderEntries, ej, eT]
      simp only [List.append_assoc, List.cons_append, List.nil_append, List.singleton_append] at e' ⊢
      rw [← e']
    · exact REntries.cons n v es _ _ sep' _ _ _ bv t body' (gapOK_append hg0 (gapAny_ok _)) hnn (renderStr_rstr ln n)
        hsep' hrv hfol (gapFlat_ok true pt) ht hb'
end


/-! ### the rendering contains no NUL byte -/

theorem noNul_append {a b : Bytes} (ha : NoNul a) (hb : NoNul b) : NoNul (a ++ b) := by
  intro c hc
  rcases List.mem_append.mp hc with h | h
  · exact ha c h
  · exact hb c h

theorem noNul_nil : NoNul [] := by intro c h; simp at h

theorem noNul_lit (l : Bytes) (h : l.all (· != 0) = true) : NoNul l := by
  intro c hc
  have := List.all_eq_true.mp h c hc
  simpa using this

theorem blockBodyOk_noNul (B : Bytes) (h : Spec.blockBodyOk B = true) : NoNul B := by
  induction B with
  | nil => exact noNul_nil
  | cons c B' ih =>
    cases B' with
    | nil =>
      simp only [Spec.blockBodyOk, bne_iff_ne, ne_eq] at h
      intro x hx; simp at hx; subst hx; exact h
    | cons d B'' =>
      simp only [Spec.blockBodyOk, Bool.and_eq_true, bne_iff_ne, ne_eq] at h
      intro x hx
      rcases List.mem_cons.mp hx with rfl | hx
      · exact h.1.1
      · exact ih h.2 x hx

theorem lineTextOk_noNul (T : Bytes) (h : Spec.lineTextOk T = true) : NoNul T := by
  intro c hc
  have := List.all_eq_true.mp h c hc
  simp only [Bool.and_eq_true, bne_iff_ne, ne_eq] at this
  exact this.1

theorem noNul_optBlock (B : Bytes) : NoNul ([47, 42] ++ (if Spec.blockBodyOk B then B else []) ++ [42, 47]) := by
  refine noNul_append (noNul_append (noNul_lit _ (by decide)) ?_) (noNul_lit _ (by decide))
  by_cases h : Spec.blockBodyOk B = true
  · rw [if_pos h]; exact blockBodyOk_noNul B h
  · rw [if_neg h]; exact noNul_nil

theorem renderPiece_noNul (flat : Bool) (p : Spec.GapPiece) : NoNul (Spec.renderPiece flat p) := by
  cases p with
  | ws c =>
    intro x hx
    simp only [Spec.renderPiece, List.mem_singleton] at hx
    subst hx
    by_cases h : Spec.wsByteOk c = true
    · rw [if_pos h]
      simp only [Spec.wsByteOk, Bool.or_eq_true, beq_iff_eq] at h
      rcases h with (((h | h) | h) | h) | h <;> subst h <;> decide
    · rw [if_neg h]; decide
  | nl => cases flat <;> exact noNul_lit _ (by decide)
  | block B => exact noNul_optBlock B
  | line T =>
    cases flat
    · simp only [Spec.renderPiece, Bool.false_eq_true, if_false]
      refine noNul_append (noNul_append (noNul_lit _ (by decide)) ?_) (noNul_lit _ (by decide))
      by_cases h : Spec.lineTextOk T = true
      · rw [if_pos h]; exact lineTextOk_noNul T h
      · rw [if_neg h]; exact noNul_nil
    · simpa [Spec.renderPiece] using noNul_optBlock T

theorem renderPieces_noNul (flat : Bool) (ps : List Spec.GapPiece) : NoNul (Spec.renderPieces flat ps) := by
  induction ps with
  | nil => exact noNul_nil
  | cons p ps ih => exact noNul_append (renderPiece_noNul flat p) ih

theorem gapAny_noNul (g : Nat) : NoNul (gapAny g) := by
  unfold gapAny
  by_cases hg : g < 36
  · rw [if_pos hg, gapTable_lit]
    rcases mod10_cases g with h | h | h | h | h | h | h | h | h | h <;> rw [h] <;>
      simp only [List.getD_cons_zero, List.getD_cons_succ] <;> exact noNul_lit _ (by decide)
  · rw [if_neg hg]; exact renderPieces_noNul false _

theorem gapFlat_noNul (g : Nat) : NoNul (gapFlat g) := by
  unfold gapFlat
  by_cases hg : g < 36
  · rw [if_pos hg, gapTableFlat_lit]
    rcases mod10_cases g with h | h | h | h | h | h | h | h | h | h <;> rw [h] <;>
      simp only [List.getD_cons_zero, List.getD_cons_succ] <;> exact noNul_lit _ (by decide)
  · rw [if_neg hg]; exact renderPieces_noNul true _

theorem hexDigit_ne_zero (n : Nat) (hn : n < 16) : Spec.hexDigitL n ≠ 0 ∧ Spec.hexDigitU n ≠ 0 := by
  have : n = 0 ∨ n = 1 ∨ n = 2 ∨ n = 3 ∨ n = 4 ∨ n = 5 ∨ n = 6 ∨ n = 7 ∨ n = 8 ∨ n = 9 ∨ n = 10 ∨ n = 11 ∨
      n = 12 ∨ n = 13 ∨ n = 14 ∨ n = 15 := by omega
  rcases this with h | h | h | h | h | h | h | h | h | h | h | h | h | h | h | h <;> subst h <;> decide

theorem encByte_noNul (e : Esc) (b : UInt8) : NoNul (Spec.encByte e b) := by
  have hx : ∀ u, NoNul (Spec.hexEsc u b) := by
    intro u c hc
    simp only [Spec.hexEsc, List.mem_cons, List.mem_nil_iff, or_false] at hc
    rcases hc with rfl | rfl | rfl | rfl
    · decide
    · decide
    · have h1 : b.toNat / 16 < 16 := by have := b.toNat_lt; omega
      cases u <;> simp [(hexDigit_ne_zero _ h1).1, (hexDigit_ne_zero _ h1).2]
    · have h2 : b.toNat % 16 < 16 := by omega
      cases u <;> simp [(hexDigit_ne_zero _ h2).1, (hexDigit_ne_zero _ h2).2]
  cases e with
  | raw =>
    unfold Spec.encByte; simp only; split
    · exact hx false
    · rename_i h; simp only [Bool.or_eq_true, beq_iff_eq, not_or] at h
      intro c hc; simp at hc; subst hc; exact h.2
  | named =>
    unfold Spec.encByte; simp only; split
    · rename_i c hc
      intro x hx'; simp at hx'
      rcases hx' with rfl | rfl
      · decide
      · unfold Spec.namedEsc at hc
        repeat (split at hc; · (simp at hc; subst hc; decide))
        simp at hc
    · exact hx false
  | hex => exact hx false
  | hexU => exact hx true
  | bsl =>
    unfold Spec.encByte; simp only; split
    · rename_i h
      intro x hx'; simp at hx'
      rcases hx' with rfl | rfl
      · decide
      · intro e; subst e; simp [Spec.bslOk] at h
    · exact hx false

theorem encBody_noNul : ∀ (escs : List Esc) (s : Bytes), NoNul (encBody escs s)
  | _, [] => by cases ‹List Esc› <;> exact noNul_nil
  | [], b :: rest => by simp only [encBody]; exact noNul_append (encByte_noNul _ _) (encBody_noNul [] rest)
  | e :: es, b :: rest => by simp only [encBody]; exact noNul_append (encByte_noNul _ _) (encBody_noNul es rest)

theorem renderStr_noNul (l : StrLay) (s : Bytes) (hs : NoNul s) : NoNul (renderStr l s) := by
  unfold renderStr
  split
  · exact hs
  · exact noNul_append (noNul_append (noNul_lit [34] (by decide)) (encBody_noNul _ _)) (noNul_lit [34] (by decide))

theorem joinGap_noNul (l g r : Bytes) (hl : NoNul l) (hg : NoNul g) (hr : NoNul r) : NoNul (joinGap l g r) := by
  unfold joinGap
  dsimp only
  generalize (g.isEmpty && (match lastByte l, r.head? with
     | some a, some b => isTokenByte a && isTokenByte b
     | _, _ => false)) = touching
  cases touching with
  | true => exact noNul_append (noNul_append hl (noNul_lit [32] (by decide))) hr
  | false => exact noNul_append (noNul_append hl hg) hr

theorem renderItems_noNul (flat : Bool) : ∀ (xs : List Bytes) (items : List (StrLay × Nat × Nat)), (∀ x ∈ xs, NoNul x) →
    NoNul (renderItems flat xs items)
  | [], _, _ => by simp only [renderItems]; exact noNul_nil
  | [x], [], hn => by simp only [renderItems]; exact renderStr_noNul _ _ (hn x (by simp))
  | [x], l :: ls, hn => by
    simp only [renderItems]
    refine noNul_append (noNul_append ?_ (renderStr_noNul _ _ (hn x (by simp)))) ?_ <;>
      (cases flat <;> simp only [Bool.false_eq_true, if_false, if_true] <;> first | exact gapAny_noNul _ | exact gapFlat_noNul _)
  | x :: y :: rest, [], hn => by
    simp only [renderItems]
    exact noNul_append (noNul_append (renderStr_noNul _ _ (hn x (by simp))) (noNul_lit [44] (by decide)))
      (renderItems_noNul flat (y :: rest) [] (fun z hz => hn z (List.mem_cons_of_mem _ hz)))
  | x :: y :: rest, l :: ls, hn => by
    simp only [renderItems]
    refine noNul_append (noNul_append (noNul_append (noNul_append ?_ (renderStr_noNul _ _ (hn x (by simp)))) ?_)
      (noNul_lit [44] (by decide))) (renderItems_noNul flat (y :: rest) ls (fun z hz => hn z (List.mem_cons_of_mem _ hz))) <;>
      (cases flat <;> simp only [Bool.false_eq_true, if_false, if_true] <;> first | exact gapAny_noNul _ | exact gapFlat_noNul _)


theorem renderTerm_noNul (t : Term) : NoNul (renderTerm t) := by
  cases t <;> simp only [renderTerm] <;> first | exact noNul_nil | exact noNul_lit _ (by decide)

mutual
theorem renderVal_noNul : (v : Val) → (lv : ValLay) → ValNN v → NoNul (renderVal v lv)
  | .str s, .str l, hn => by simp only [renderVal]; exact renderStr_noNul _ _ hn
  | .str s, .pair .., hn | .str s, .list .., hn | .str s, .obj .., hn => by
    simp only [renderVal]; exact renderStr_noNul _ _ hn
  | .pair h s, .pair lh g ls, hn => by
    simp only [renderVal]
    exact joinGap_noNul _ _ _ (renderStr_noNul _ _ hn.1) (gapFlat_noNul _) (renderStr_noNul _ _ hn.2)
  | .pair h s, .str _, hn | .pair h s, .list .., hn | .pair h s, .obj .., hn => by
    simp only [renderVal]
    exact joinGap_noNul _ _ _ (renderStr_noNul _ _ hn.1) noNul_nil (renderStr_noNul _ _ hn.2)
  | .list xs, .list paren og items cg, hn => by
    simp only [renderVal]
    split
    · exact noNul_append (noNul_append (noNul_append (noNul_append (noNul_lit [40] (by decide)) (gapAny_noNul _))
        (renderItems_noNul _ _ _ hn)) (gapAny_noNul _)) (noNul_lit [41] (by decide))
    · exact renderItems_noNul _ _ _ hn
  | .list xs, .str _, hn | .list xs, .pair .., hn | .list xs, .obj .., hn => by
    simp only [renderVal]
    exact noNul_append (noNul_append (noNul_lit [40] (by decide)) (renderItems_noNul _ _ _ hn)) (noNul_lit [41] (by decide))
  | .obj es, .obj og ls cg, hn => by
    simp only [renderVal]
    exact noNul_append (noNul_append (noNul_append (noNul_append (noNul_lit [123] (by decide)) (gapAny_noNul _))
      (renderEntries_noNul es ls true hn)) (gapAny_noNul _)) (noNul_lit [125] (by decide))
  | .obj es, .str _, hn | .obj es, .pair .., hn | .obj es, .list .., hn => by
    simp only [renderVal]
    exact noNul_append (noNul_append (noNul_lit [123] (by decide)) (renderEntries_noNul es [] true hn)) (noNul_lit [125] (by decide))
theorem renderEntries_noNul : (es : List (Bytes × Val)) → (ls : List EntLay) → (lastOk : Bool) → EntsNN es →
    NoNul (renderEntries lastOk es ls)
  | [], _, _, _ => by simp only [renderEntries]; exact noNul_nil
  | (n, v) :: es, [], lastOk, hn => by
    simp only [renderEntries]
    exact noNul_append (noNul_append (joinGap_noNul _ _ _ (renderStr_noNul _ _ hn.1) noNul_nil (renderVal_noNul v _ hn.2.1))
      (noNul_lit [59] (by decide))) (renderEntries_noNul es [] lastOk hn.2.2)
  | (n, v) :: es, (pre, ln, sep, lv, pt, term) :: ls, lastOk, hn => by
    simp only [renderEntries]
    exact noNul_append (noNul_append (noNul_append (noNul_append (gapAny_noNul _)
      (joinGap_noNul _ _ _ (renderStr_noNul _ _ hn.1) (gapAny_noNul _) (renderVal_noNul v lv hn.2.1)))
      (gapFlat_noNul _)) (renderTerm_noNul _)) (renderEntries_noNul es ls lastOk hn.2.2)
end

/-- C16 for the layout family "every entry terminated (`;`, newline or both),
    parenthesised lists": any string form (bare, quoted with any escape per byte), any
    gap of the layout alphabet anywhere, host/service pairs, nested objects, repeated
    keys.  The text `Spec.render` writes is read back as the document's canonical tree —
    by the pinned parser as well as by the repaired one (`V` arbitrary). -/
theorem C16_partial (V : Variant) (doc : Spec.Doc) (lay : Layout)
    (hfam : entsOk doc lay.entries = true) (hnn : EntsNN doc) :
    ∃ t, parseFile V (render doc lay) = .ok t ∧ t.map toC = Spec.canonTree doc := by
  refine ⟨pfold doc [], ?_, pfold_canonTree doc⟩
  obtain ⟨body, tg, e, hb, htg⟩ := bridge_ents doc lay.entries hfam hnn true [] (gapOK_nil false)
  simp only [List.nil_append] at e
  have hnul : NoNul (renderEntries true doc lay.entries ++ gapAny lay.post) :=
    noNul_append (renderEntries_noNul doc lay.entries true hnn) (gapAny_noNul _)
  unfold render
  dsimp only
  by_cases hemp : (renderEntries true doc lay.entries ++ gapAny lay.post).isEmpty = true
  · -- nothing at all was written: the file is a single newline
    simp only [hemp, if_true]
    have he : renderEntries true doc lay.entries = [] := by
      have := List.isEmpty_iff.mp hemp
      exact (List.append_eq_nil_iff.mp this).1
    rw [he] at e
    have hb0 : body = [] := (List.append_eq_nil_iff.mp e.symm).1
    subst hb0
    have := parse_rendered V doc [] [10] hb ws_nl (noNul_lit _ (by decide)) (by simp)
    simpa using this
  · simp only [hemp, Bool.false_eq_true, if_false]
    rw [e] at hnul hemp ⊢
    have := parse_rendered V doc body (tg ++ gapAny lay.post) hb (gapOK_append htg (gapAny_ok _))
      (by simpa [List.append_assoc] using hnul) (by intro h; apply hemp; simp [List.append_assoc] at h ⊢; simp [h])
    simpa [List.append_assoc] using this

end Iauthd.Conf
