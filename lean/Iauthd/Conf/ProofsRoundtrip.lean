import Iauthd.Conf.ProofsRender
import Iauthd.Conf.ProofsCanon
/-
  C16, structure: a rendering of a document — names and values in any admissible string
  form, any gaps from the layout alphabet, parenthesised lists, host/service pairs,
  nested objects, every entry terminated by `;` or a newline — is parsed back to the
  tree `pfold doc` (= `canonTree doc`, ProofsCanon.lean).
-/
set_option linter.unusedSimpArgs false
namespace Iauthd.Conf
open Iauthd.Conf.Spec (Val Esc encBody)

/-! ### positions -/

theorem drop_app {d a b : Bytes} {pos : Nat} (h : d.drop pos = a ++ b) : d.drop (pos + a.length) = b := by
  rw [← List.drop_drop, h]; simp

theorem pos_le_of_drop {d s : Bytes} {pos : Nat} (h : d.drop pos = s) (hs : s ≠ []) : pos < d.length := by
  by_cases hp : pos < d.length
  · exact hp
  · rw [List.drop_eq_nil_of_le (by omega)] at h; exact absurd h.symm hs

theorem ws_stop' (care : Bool) (c : UInt8) (t : Bytes) (hs : isSpaceC c = false) (h47 : c ≠ 47) (h10 : c ≠ 10) :
    wsGo care .norm (c :: t) = (c, 1) := by
  have b10 : (c == 10) = false := by simpa using h10
  have b47 : (c != 47) = true := by simpa using h47
  cases t with
  | nil => simp [wsGo, b10, hs]
  | cons d r => simp [wsGo, b10, hs, b47]

theorem ws_stop_nl (t : Bytes) : wsGo true .norm (10 :: t) = (10, 1) := by
  cases t <;> simp [wsGo]

/-- a character at which `conf_parse_whitespace` stops, whatever follows -/
def StopCh (care : Bool) (c : UInt8) : Prop :=
  (isSpaceC c = false ∧ c ≠ 47 ∧ c ≠ 10) ∨ (c = 10 ∧ care = true)

theorem wsAt_gap (care : Bool) (d : Bytes) (pos : Nat) (g : Bytes) (c : UInt8) (t : Bytes)
    (hg : GapOK care g) (hc : StopCh care c) (hd : d.drop pos = g ++ c :: t) :
    wsAt care d pos = .ok (c, pos + g.length + 1) := by
  have hp : pos ≤ d.length := Nat.le_of_lt (pos_le_of_drop hd (by simp))
  rw [wsAt_eq care d pos hp, hd, hg]
  rcases hc with ⟨h1, h2, h3⟩ | ⟨rfl, rfl⟩
  · rw [ws_stop' care c t h1 h2 h3]; simp [bump]; omega
  · rw [ws_stop_nl]; simp [bump]; omega

theorem wsAt_gap_eof (care : Bool) (d : Bytes) (pos : Nat) (g : Bytes) (hp : pos ≤ d.length)
    (hg : GapOK care g) (hd : d.drop pos = g) : wsAt care d pos = .ok (0, d.length) := by
  rw [wsAt_eq care d pos hp, hd]
  have := hg []
  rw [List.append_nil] at this
  rw [this]
  have hl : g.length = d.length - pos := by rw [← hd]; simp
  simp [wsGo, bump]; omega


/-! ### strings -/

/-- `r` is a way of writing the string `s`; `bare` = as a bareword -/
inductive RStr : Bytes → Bool → Bytes → Prop where
  | bare (s : Bytes) : s ≠ [] → s.all isToken = true → RStr s true s
  | quoted (s : Bytes) (escs : List Esc) : RStr s false ([34] ++ encBody escs s ++ [34])

/-- what may follow a string: after a bareword, no token character -/
def Follows (bare : Bool) (tail : Bytes) : Prop :=
  bare = true → ∀ x, tail.head? = some x → isToken x = false

theorem cstr_noNul (s : Bytes) (h : NoNul s) : Bytes.cstr s = s := by
  induction s with
  | nil => rfl
  | cons c cs ih =>
    have hc : (c == 0) = false := by simpa using h.head
    simp [Bytes.cstr, hc, ih h.tail]

theorem token_stop (c : UInt8) (h : isToken c = true) : isSpaceC c = false ∧ c ≠ 47 ∧ c ≠ 10 ∧ c ≠ 0 ∧ c ≠ 34 := by
  refine ⟨?_, ?_, ?_, ?_, ?_⟩
  · cases hs : isSpaceC c with
    | false => rfl
    | true =>
      exfalso
      simp only [isSpaceC, Bool.or_eq_true, beq_iff_eq, Bool.and_eq_true, decide_eq_true_eq] at hs
      simp only [isToken, isAlnum, Bool.or_eq_true, Bool.and_eq_true, decide_eq_true_eq, beq_iff_eq] at h
      rcases hs with rfl | hs
      · simp at h
      · rcases h with (((((h | h) | h) | h) | h) | h) | h <;> first | omega | (subst h; simp at hs)
  all_goals (intro e; subst e; revert h; decide)

/-- `conf_parse_string` on a rendering of `s` (after any gap): returns `s`, cursor just behind -/
theorem parseString_at (d : Bytes) (pos : Nat) (g : Bytes) (s : Bytes) (b : Bool) (r rest : Bytes)
    (hg : GapOK false g) (hs : NoNul s) (hr : RStr s b r) (hf : Follows b rest)
    (hd : d.drop pos = g ++ r ++ rest) :
    parseString d pos = .ok (some s, pos + g.length + r.length) := by
  cases hr with
  | bare hne hall =>
    obtain ⟨c, cs, rfl⟩ := List.exists_cons_of_ne_nil hne
    simp only [List.all_cons, Bool.and_eq_true] at hall
    obtain ⟨t1, t2, t3, t4, t5⟩ := token_stop c hall.1
    have hw := wsAt_gap false d pos g c (cs ++ rest) hg (.inl ⟨t1, t2, t3⟩) (by simpa using hd)
    unfold parseString
    rw [hw]
    have c0 : (c == 0) = false := by simpa using t4
    have c34 : (c == 34) = false := by simpa using t5
    simp only [c0, c34, hall.1, Bool.false_eq_true, if_false, if_true]
    have hd2 : d.drop (pos + g.length + 1) = cs ++ rest := by
      have := drop_app (a := g ++ [c]) (b := cs ++ rest) (by simpa using hd)
      simpa [Nat.add_assoc] using this
    rw [hd2, takeWhile_append_stop isToken cs rest hall.2 (hf rfl)]
    simp; omega
  | quoted escs =>
    have hw := wsAt_gap false d pos g 34 (encBody escs s ++ 34 :: rest) hg (.inl ⟨by decide, by decide, by decide⟩)
      (by simpa using hd)
    unfold parseString
    rw [hw]
    have hd2 : d.drop (pos + g.length + 1) = encBody escs s ++ 34 :: rest := by
      have := drop_app (a := g ++ [34]) (b := encBody escs s ++ 34 :: rest) (by simpa using hd)
      simpa [Nat.add_assoc] using this
    have c0 : ((34 : UInt8) == 0) = false := by decide
    simp only [c0, Bool.false_eq_true, if_false, beq_self_eq_true, if_true, hd2, scan_roundtrip, string_roundtrip]
    obtain ⟨bs, hb1, hb2⟩ := decodeQ_of_scanQ _ _ (scan_roundtrip s escs rest)
    rw [string_roundtrip] at hb1
    have hsb : s = bs := by
      injection hb1 with h1; injection h1 with h2 _
    subst hsb
    have : ¬ (s.length + 1 > (encBody escs s).length + 2) := by omega
    simp only [this, if_false, cstr_noNul s hs]
    simp; omega


theorem gapOK_head {care : Bool} {g : Bytes} (hg : GapOK care g) (c : UInt8) (g' : Bytes) (h : g = c :: g') :
    isToken c = false := by
  cases ht : isToken c with
  | false => rfl
  | true =>
    exfalso
    obtain ⟨t1, t2, t3, t4, _⟩ := token_stop c ht
    have := hg []
    rw [List.append_nil, h, ws_stop' care c g' t1 t2 t3] at this
    simp [bump, wsGo] at this
    exact t4 this.1

/-- after a gap and then a non-token character, a bareword may end -/
theorem follows_gap {care : Bool} (b : Bool) (g : Bytes) (c : UInt8) (t : Bytes) (hg : GapOK care g) (hc : isToken c = false) :
    Follows b (g ++ c :: t) := by
  intro _ x hx
  cases g with
  | nil => simp at hx; subst hx; exact hc
  | cons a as => simp at hx; subst hx; exact gapOK_head hg a as rfl

theorem rstr_head {s : Bytes} {b : Bool} {r : Bytes} (h : RStr s b r) :
    ∃ c t, r = c :: t ∧ (c = 34 ∨ isToken c = true) := by
  cases h with
  | bare hne hall =>
    obtain ⟨c, cs, rfl⟩ := List.exists_cons_of_ne_nil hne
    simp only [List.all_cons, Bool.and_eq_true] at hall
    exact ⟨c, cs, rfl, .inr hall.1⟩
  | quoted escs => exact ⟨34, encBody escs s ++ [34], by simp, .inl rfl⟩

theorem strhead_stop (care : Bool) (c : UInt8) (h : c = 34 ∨ isToken c = true) :
    StopCh care c ∧ c ≠ 0 ∧ c ≠ 40 ∧ c ≠ 41 ∧ c ≠ 123 ∧ c ≠ 125 ∧ c ≠ 59 ∧ c ≠ 10 ∧ c ≠ 44 := by
  rcases h with rfl | h
  · exact ⟨.inl ⟨by decide, by decide, by decide⟩, by decide, by decide, by decide, by decide, by decide, by decide, by decide, by decide⟩
  · obtain ⟨t1, t2, t3, t4, _⟩ := token_stop c h
    refine ⟨.inl ⟨t1, t2, t3⟩, t4, ?_, ?_, ?_, ?_, ?_, t3, ?_⟩ <;> (intro e; subst e; revert h; decide)

/-! ### lists in parentheses -/

/-- the items of a parenthesised list, written with gaps and commas (without the parentheses) -/
inductive RItems : List Bytes → Bytes → Prop where
  | nil (g : Bytes) : GapOK false g → RItems [] g
  | last (g1 x r g2 : Bytes) (b : Bool) : GapOK false g1 → NoNul x → RStr x b r → GapOK false g2 →
      RItems [x] (g1 ++ r ++ g2)
  | cons (g1 x r g2 : Bytes) (b : Bool) (xs : List Bytes) (body : Bytes) : GapOK false g1 → NoNul x → RStr x b r →
      GapOK false g2 → xs ≠ [] → RItems xs body → RItems (x :: xs) (g1 ++ r ++ g2 ++ [44] ++ body)

theorem parenLoop_at (d : Bytes) : ∀ (xs : List Bytes) (body : Bytes), RItems xs body →
    ∀ (fuel pos : Nat) (acc : List Bytes) (rest : Bytes), d.drop pos = body ++ 41 :: rest → d.length - pos < fuel →
      parenLoop d fuel pos acc = .ok (acc ++ xs, pos + body.length + 1) := by
  intro xs body hr
  induction hr with
  | nil g hg =>
    intro fuel pos acc rest hd hf
    cases fuel with
    | zero => omega
    | succ fuel =>
      unfold parenLoop
      rw [wsAt_gap false d pos g 41 rest hg (.inl ⟨by decide, by decide, by decide⟩) hd]
      simp [bind, Except.bind]
  | last g1 x r g2 b hg1 hx hrs hg2 =>
    intro fuel pos acc rest hd hf
    cases fuel with
    | zero => omega
    | succ fuel =>
      obtain ⟨c, t, rfl, hc⟩ := rstr_head hrs
      obtain ⟨st, c0, _, c41, _⟩ := strhead_stop false c hc
      unfold parenLoop
      rw [wsAt_gap false d pos g1 c (t ++ g2 ++ 41 :: rest) hg1 st (by simpa using hd)]
      have e0 : (c == 0) = false := by simpa using c0
      have e41 : (c == 41) = false := by simpa using c41
      simp only [e0, e41, Bool.false_eq_true, if_false, bind, Except.bind]
      rw [unread_ok _ (by omega)]
      simp only [Nat.add_sub_cancel]
      have hd1 : d.drop (pos + g1.length) = [] ++ (c :: t) ++ (g2 ++ 41 :: rest) := by
        have := drop_app (a := g1) (b := (c :: t) ++ g2 ++ 41 :: rest) (by simpa using hd)
        simpa using this
      rw [parseString_at d _ [] x b (c :: t) _ (gapOK_nil false) hx hrs
        (follows_gap b g2 41 rest hg2 (by decide)) hd1]
      simp only [nonNull, List.length_nil, Nat.add_zero]
      have hd2 : d.drop (pos + g1.length + (c :: t).length) = g2 ++ 41 :: rest := by
        have := drop_app (a := c :: t) (b := g2 ++ 41 :: rest) (by simpa using hd1)
        simpa using this
      rw [wsAt_gap false d _ g2 41 rest hg2 (.inl ⟨by decide, by decide, by decide⟩) hd2]
      simp
      omega
  | cons g1 x r g2 b xs body hg1 hx hrs hg2 hne hrest ih =>
    intro fuel pos acc rest hd hf
    cases fuel with
    | zero => omega
    | succ fuel =>
      obtain ⟨c, t, rfl, hc⟩ := rstr_head hrs
      obtain ⟨st, c0, _, c41, _⟩ := strhead_stop false c hc
      unfold parenLoop
      rw [wsAt_gap false d pos g1 c (t ++ g2 ++ 44 :: body ++ 41 :: rest) hg1 st (by simpa using hd)]
      have e0 : (c == 0) = false := by simpa using c0
      have e41 : (c == 41) = false := by simpa using c41
      simp only [e0, e41, Bool.false_eq_true, if_false, bind, Except.bind]
      rw [unread_ok _ (by omega)]
      simp only [Nat.add_sub_cancel]
      have hd1 : d.drop (pos + g1.length) = [] ++ (c :: t) ++ (g2 ++ 44 :: (body ++ 41 :: rest)) := by
        have := drop_app (a := g1) (b := (c :: t) ++ g2 ++ 44 :: body ++ 41 :: rest) (by simpa using hd)
        simpa using this
      rw [parseString_at d _ [] x b (c :: t) _ (gapOK_nil false) hx hrs
        (follows_gap b g2 44 _ hg2 (by decide)) hd1]
      simp only [nonNull, List.length_nil, Nat.add_zero]
      have hd2 : d.drop (pos + g1.length + (c :: t).length) = g2 ++ 44 :: (body ++ 41 :: rest) := by
        have := drop_app (a := c :: t) (b := g2 ++ 44 :: (body ++ 41 :: rest)) (by simpa using hd1)
        simpa using this
      rw [wsAt_gap false d _ g2 44 _ hg2 (.inl ⟨by decide, by decide, by decide⟩) hd2]
      have hd3 : d.drop (pos + g1.length + (c :: t).length + g2.length + 1) = body ++ 41 :: rest := by
        have := drop_app (a := g2 ++ [44]) (b := body ++ 41 :: rest) (by simpa using hd2)
        simpa [Nat.add_assoc] using this
      have hlen : pos + g1.length + (c :: t).length + g2.length + 1 ≤ d.length := by
        have := pos_le_of_drop hd3 (by simp); omega
      simp only [show ((44 : UInt8) == 0) = false by decide, show ((44 : UInt8) == 41) = false by decide,
        show ((44 : UInt8) != 44) = false by decide, Bool.false_eq_true, if_false]
      rw [ih fuel _ (acc ++ [x]) rest hd3 (by omega)]
      simp
      omega


/-! ### values and entries -/

mutual
/-- `r` is a way of writing the value; the flag: it ends with a bareword -/
inductive RVal : Val → Bytes → Bool → Prop where
  | str (s r : Bytes) (b : Bool) : NoNul s → RStr s b r → RVal (.str s) r b
  | pair (h s rh rs g : Bytes) (bh bs : Bool) : NoNul h → NoNul s → RStr h bh rh → GapOK true g →
      Follows bh (g ++ rs) → RStr s bs rs → RVal (.pair h s) (rh ++ g ++ rs) bs
  | list (xs : List Bytes) (body : Bytes) : RItems xs body → RVal (.list xs) ([40] ++ body ++ [41]) false
  | obj (es : List (Bytes × Val)) (body cg : Bytes) : REntries es body → GapOK false cg →
      RVal (.obj es) ([123] ++ body ++ cg ++ [125]) false
/-- `body` is a way of writing the entries, each one terminated by `;` or a newline -/
inductive REntries : List (Bytes × Val) → Bytes → Prop where
  | nil : REntries [] []
  | cons (n : Bytes) (v : Val) (es : List (Bytes × Val)) (pre rn sep rv pt : Bytes) (bn bv : Bool) (t : UInt8) (body : Bytes) :
      GapOK false pre → NoNul n → RStr n bn rn → GapOK false sep → RVal v rv bv → Follows bn (sep ++ rv) →
      GapOK true pt → (t = 59 ∨ t = 10) → REntries es body →
      REntries ((n, v) :: es) (pre ++ rn ++ sep ++ rv ++ pt ++ [t] ++ body)
end

theorem entryEnd_at (V : Variant) (d : Bytes) (isRoot : Bool) (kids : List PNode) (pos : Nat) (pt : Bytes) (t : UInt8)
    (rest : Bytes) (hpt : GapOK true pt) (ht : t = 59 ∨ t = 10) (hd : d.drop pos = pt ++ t :: rest) :
    entryEnd V d isRoot kids pos = .ok (kids, pos + pt.length + 1) := by
  unfold entryEnd
  have st : StopCh true t := by
    rcases ht with rfl | rfl
    · exact .inl ⟨by decide, by decide, by decide⟩
    · exact .inr ⟨rfl, rfl⟩
  rw [wsAt_gap true d pos pt t rest hpt st hd]
  rcases ht with rfl | rfl <;> simp [bind, Except.bind]


theorem term_nontoken (t : UInt8) (ht : t = 59 ∨ t = 10) : isToken t = false := by
  rcases ht with rfl | rfl <;> decide

theorem val_str_at (V : Variant) (d : Bytes) (isRoot : Bool) (kids : List PNode) (fuel : Nat) (n s r pt : Bytes) (b : Bool)
    (t : UInt8) (rest : Bytes) (p : Nat) (hp : 1 ≤ p) (hs : NoNul s) (hr : RStr s b r) (hpt : GapOK true pt)
    (ht : t = 59 ∨ t = 10) (hd : d.drop (p - 1) = r ++ pt ++ t :: rest) :
    entryValue V d isRoot kids fuel (some n) p = .ok (putStr n s kids, (p - 1) + r.length + pt.length + 1) := by
  unfold entryValue
  simp only [nonNull, bind, Except.bind]
  rw [unread_ok p hp]
  simp only
  rw [parseString_at d (p - 1) [] s b r (pt ++ t :: rest) (gapOK_nil false) hs hr
    (follows_gap b pt t rest hpt (term_nontoken t ht)) (by simpa using hd)]
  simp only [List.length_nil, Nat.add_zero]
  have hd2 : d.drop (p - 1 + r.length) = pt ++ t :: rest := by
    have := drop_app (a := r) (b := pt ++ t :: rest) (by simpa using hd)
    simpa using this
  have st : StopCh true t := by
    rcases ht with rfl | rfl
    · exact .inl ⟨by decide, by decide, by decide⟩
    · exact .inr ⟨rfl, rfl⟩
  rw [wsAt_gap true d _ pt t rest hpt st hd2]
  simp only
  have hd3 : d.drop (p - 1 + r.length + pt.length) = [] ++ t :: rest := by
    have := drop_app (a := pt) (b := t :: rest) hd2
    simpa using this
  have hend := entryEnd_at V d isRoot (putStr n s kids) (p - 1 + r.length + pt.length) [] t rest (gapOK_nil true) ht hd3
  rcases ht with rfl | rfl
  · simp only [show ((59 : UInt8) == 59) = true by decide, Bool.true_or, if_true,
      show ((59 : UInt8) == 0) = false by decide, show ((59 : UInt8) == 125) = false by decide,
      Bool.false_and, Bool.false_eq_true, if_false]
    rw [unread_ok _ (by omega)]
    simp only [Nat.add_sub_cancel]
    rw [hend]; simp
  · simp only [show ((10 : UInt8) == 59) = false by decide, show ((10 : UInt8) == 10) = true by decide,
      Bool.false_or, Bool.true_or, if_true,
      show ((10 : UInt8) == 0) = false by decide, show ((10 : UInt8) == 125) = false by decide,
      Bool.false_and, Bool.false_eq_true, if_false]
    rw [unread_ok _ (by omega)]
    simp only [Nat.add_sub_cancel]
    rw [hend]; simp


theorem val_pair_at (V : Variant) (d : Bytes) (isRoot : Bool) (kids : List PNode) (fuel : Nat) (n h s rh g rs pt : Bytes)
    (bh bs : Bool) (t : UInt8) (rest : Bytes) (p : Nat) (hp : 1 ≤ p) (hh : NoNul h) (hs : NoNul s)
    (hrh : RStr h bh rh) (hg : GapOK true g) (hfol : Follows bh (g ++ rs)) (hrs : RStr s bs rs) (hpt : GapOK true pt)
    (ht : t = 59 ∨ t = 10) (hd : d.drop (p - 1) = rh ++ g ++ rs ++ pt ++ t :: rest) :
    entryValue V d isRoot kids fuel (some n) p =
      .ok (putInaddr n h (some s) kids, (p - 1) + rh.length + g.length + rs.length + pt.length + 1) := by
  obtain ⟨c, tl, rfl, hc⟩ := rstr_head hrs
  obtain ⟨st, c0, _, _, _, c125, c59, c10, c44⟩ := strhead_stop true c hc
  unfold entryValue
  simp only [nonNull, bind, Except.bind]
  rw [unread_ok p hp]
  simp only
  have hfol' : Follows bh (g ++ (c :: tl) ++ pt ++ t :: rest) := by
    intro hb x hx
    apply hfol hb x
    cases g <;> simpa using hx
  rw [parseString_at d (p - 1) [] h bh rh (g ++ (c :: tl) ++ pt ++ t :: rest) (gapOK_nil false) hh hrh hfol'
    (by simpa using hd)]
  simp only [List.length_nil, Nat.add_zero]
  have hd2 : d.drop (p - 1 + rh.length) = g ++ c :: (tl ++ pt ++ t :: rest) := by
    have := drop_app (a := rh) (b := g ++ (c :: tl) ++ pt ++ t :: rest) (by simpa using hd)
    simpa using this
  rw [wsAt_gap true d _ g c _ hg st hd2]
  have e59 : (c == 59) = false := by simpa using c59
  have e10 : (c == 10) = false := by simpa using c10
  have e125 : (c == 125) = false := by simpa using c125
  have e0 : (c == 0) = false := by simpa using c0
  have e44 : (c == 44) = false := by simpa using c44
  simp only [e59, e10, e125, e0, e44, Bool.or_false, Bool.and_false, Bool.false_eq_true, if_false]
  rw [unread_ok _ (by omega)]
  simp only [Nat.add_sub_cancel]
  have hd3 : d.drop (p - 1 + rh.length + g.length) = [] ++ (c :: tl) ++ (pt ++ t :: rest) := by
    have := drop_app (a := g) (b := c :: (tl ++ pt ++ t :: rest)) hd2
    simpa using this
  rw [parseString_at d _ [] s bs (c :: tl) (pt ++ t :: rest) (gapOK_nil false) hs hrs
    (follows_gap bs pt t rest hpt (term_nontoken t ht)) hd3]
  simp only [List.length_nil, Nat.add_zero]
  have hd4 : d.drop (p - 1 + rh.length + g.length + (c :: tl).length) = pt ++ t :: rest := by
    have := drop_app (a := c :: tl) (b := pt ++ t :: rest) (by simpa using hd3)
    simpa using this
  rw [entryEnd_at V d isRoot _ _ pt t rest hpt ht hd4]


theorem rval_head {v : Val} {rv : Bytes} {bv : Bool} (h : RVal v rv bv) :
    ∃ c tl, rv = c :: tl := by
  cases h with
  | str s r b _ hr => obtain ⟨c, t, rfl, _⟩ := rstr_head hr; exact ⟨c, t, rfl⟩
  | pair h s rh rs g bh bs _ _ hr _ _ _ => obtain ⟨c, t, rfl, _⟩ := rstr_head hr; exact ⟨c, _, rfl⟩
  | list xs body _ => exact ⟨40, _, rfl⟩
  | obj es body cg _ _ => exact ⟨123, _, rfl⟩

theorem follows_extend (b : Bool) (a x : Bytes) (ha : a ≠ []) (h : Follows b a) : Follows b (a ++ x) := by
  intro hb y hy
  apply h hb y
  cases a with
  | nil => exact absurd rfl ha
  | cons c cs => simpa using hy

mutual
theorem rt_entry (V : Variant) (d : Bytes) : {v : Val} → {rv : Bytes} → {bv : Bool} → (hv : RVal v rv bv) →
    ∀ (fuel : Nat) (isRoot : Bool) (kids : List PNode) (pos : Nat) (g0 n rn sep pt : Bytes) (bn : Bool) (t : UInt8) (rest : Bytes),
    GapOK false g0 → NoNul n → RStr n bn rn → GapOK false sep → Follows bn (sep ++ rv) → GapOK true pt →
    (t = 59 ∨ t = 10) → d.drop pos = g0 ++ rn ++ sep ++ rv ++ pt ++ t :: rest → 2 * (d.length - pos) + 1 ≤ fuel →
    parseEntry V d fuel isRoot kids pos =
      .ok (padd n v kids, pos + g0.length + rn.length + sep.length + rv.length + pt.length + 1)
  | _, _, _, hv, 0, _, _, _, _, _, _, _, _, _, _, _, _, _, _, _, _, _, _, _, hf => by omega
  | v, rv, bv, hv, fuel + 1, isRoot, kids, pos, g0, n, rn, sep, pt, bn, t, rest, hg0, hn, hrn, hsep, hfol, hpt, ht, hd, hf => by
    obtain ⟨c, tl, hrv⟩ := rval_head hv
    have hlen : pos + g0.length + rn.length + sep.length + rv.length + pt.length + 1 ≤ d.length := by
      have := congrArg List.length hd
      simp only [List.length_drop, List.length_append, List.length_cons] at this
      omega
    unfold parseEntry
    have hfol' : Follows bn (sep ++ rv ++ pt ++ t :: rest) := by
      have : sep ++ rv ≠ [] := by rw [hrv]; simp
      have := follows_extend bn (sep ++ rv) (pt ++ t :: rest) this hfol
      simpa using this
    rw [parseString_at d pos g0 n bn rn _ hg0 hn hrn hfol' (by simpa using hd)]
    simp only [bind, Except.bind]
    have hd1 : d.drop (pos + g0.length + rn.length) = sep ++ c :: (tl ++ pt ++ t :: rest) := by
      have := drop_app (a := g0 ++ rn) (b := sep ++ rv ++ pt ++ t :: rest) (by simpa using hd)
      rw [hrv] at this
      simpa [Nat.add_assoc] using this
    have hd2 : d.drop (pos + g0.length + rn.length + sep.length + 1 - 1) = rv ++ pt ++ t :: rest := by
      have := drop_app (a := sep) (b := c :: (tl ++ pt ++ t :: rest)) hd1
      rw [hrv]; simpa using this
    match v, rv, bv, hv with
    | _, _, _, .str s r b hs hr =>
      obtain ⟨c', tl', hr', hc'⟩ := rstr_head hr
      have ecc : c = c' := by rw [hr'] at hrv; injection hrv with h1 _; exact h1.symm
      subst ecc
      obtain ⟨st, c0, c40, _, c123, _⟩ := strhead_stop false c hc'
      rw [wsAt_gap false d _ sep c _ hsep st hd1]
      have e0 : (c == 0) = false := by simpa using c0
      have e40 : (c == 40) = false := by simpa using c40
      have e123 : (c == 123) = false := by simpa using c123
      simp only [e0, e40, e123, Bool.false_eq_true, if_false]
      rw [val_str_at V d isRoot kids fuel n s r pt b t rest _ (by omega) hs hr hpt ht hd2]
      first | (simp [padd]; done) | (simp [padd]; omega)
    | _, _, _, .pair h s rh rs g bh bs hh hs hrh hg hfo hrs =>
      obtain ⟨c', tl', hr', hc'⟩ := rstr_head hrh
      have ecc : c = c' := by rw [hr'] at hrv; simp at hrv; exact hrv.1.symm
      subst ecc
      obtain ⟨st, c0, c40, _, c123, _⟩ := strhead_stop false c hc'
      rw [wsAt_gap false d _ sep c _ hsep st hd1]
      have e0 : (c == 0) = false := by simpa using c0
      have e40 : (c == 40) = false := by simpa using c40
      have e123 : (c == 123) = false := by simpa using c123
      simp only [e0, e40, e123, Bool.false_eq_true, if_false]
      rw [val_pair_at V d isRoot kids fuel n h s rh g rs pt bh bs t rest _ (by omega) hh hs hrh hg hfo hrs hpt ht
        (by simpa using hd2)]
      first | (simp [padd]; done) | (simp [padd]; omega)
    | _, _, _, .list xs body hit =>
      have ecc : c = 40 := by simp at hrv; exact hrv.1.symm
      subst ecc
      rw [wsAt_gap false d _ sep 40 _ hsep (.inl ⟨by decide, by decide, by decide⟩) hd1]
      simp only [show ((40 : UInt8) == 0) = false by decide, beq_self_eq_true, Bool.false_eq_true, if_false, if_true]
      unfold entryParen
      simp only [nonNull, bind, Except.bind]
      have htl : tl = body ++ [41] := by simpa using hrv.symm
      subst htl
      have hd3 : d.drop (pos + g0.length + rn.length + sep.length + 1) = body ++ 41 :: (pt ++ t :: rest) := by
        have := drop_app (a := sep ++ [40]) (b := body ++ 41 :: (pt ++ t :: rest)) (by simpa using hd1)
        simpa [Nat.add_assoc] using this
      rw [parenLoop_at d xs body hit fuel _ [] _ hd3 (by simp at hrv hlen ⊢; omega)]
      simp only [List.nil_append]
      have hd4 : d.drop (pos + g0.length + rn.length + sep.length + 1 + body.length + 1) = pt ++ t :: rest := by
        have := drop_app (a := body ++ [41]) (b := pt ++ t :: rest) (by simpa using hd3)
        simpa [Nat.add_assoc] using this
      rw [entryEnd_at V d isRoot _ _ pt t rest hpt ht hd4]
      first | (simp [padd]; done) | (simp [padd]; omega)
    | _, _, _, .obj es body cg he hcg =>
      have ecc : c = 123 := by simp at hrv; exact hrv.1.symm
      subst ecc
      rw [wsAt_gap false d _ sep 123 _ hsep (.inl ⟨by decide, by decide, by decide⟩) hd1]
      simp only [show ((123 : UInt8) == 0) = false by decide, show ((123 : UInt8) == 40) = false by decide,
        beq_self_eq_true, Bool.false_eq_true, if_false, if_true, nonNull]
      have htl : tl = body ++ cg ++ [125] := by simpa using hrv.symm
      subst htl
      have hd3 : d.drop (pos + g0.length + rn.length + sep.length + 1) = body ++ cg ++ 125 :: (pt ++ t :: rest) := by
        have := drop_app (a := sep ++ [123]) (b := body ++ cg ++ 125 :: (pt ++ t :: rest)) (by simpa using hd1)
        simpa [Nat.add_assoc] using this
      rw [rt_entries V d he fuel (kidsOf (pfind n 3 kids)) _ cg _ hcg hd3 (by simp at hrv hlen ⊢; omega)]
      simp only
      have hd4 : d.drop (pos + g0.length + rn.length + sep.length + 1 + body.length + cg.length + 1) = pt ++ t :: rest := by
        have := drop_app (a := body ++ cg ++ [125]) (b := pt ++ t :: rest) (by simpa using hd3)
        simpa [Nat.add_assoc] using this
      rw [entryEnd_at V d isRoot _ _ pt t rest hpt ht hd4]
      first | (simp [padd]; done) | (simp [padd]; omega)

theorem rt_entries (V : Variant) (d : Bytes) : {es : List (Bytes × Val)} → {body : Bytes} → (he : REntries es body) →
    ∀ (fuel : Nat) (kids : List PNode) (pos : Nat) (cg rest : Bytes), GapOK false cg →
    d.drop pos = body ++ cg ++ 125 :: rest → 2 * (d.length - pos) + 2 ≤ fuel →
    objLoop V d fuel kids pos = .ok (padd.pfoldAux es kids, pos + body.length + cg.length + 1)
  | _, _, he, 0, _, _, _, _, _, _, hf => by omega
  | _, _, .nil, fuel + 1, kids, pos, cg, rest, hcg, hd, hf => by
    unfold objLoop
    rw [wsAt_gap false d pos cg 125 rest hcg (.inl ⟨by decide, by decide, by decide⟩) (by simpa using hd)]
    simp [bind, Except.bind, padd.pfoldAux]
  | _, _, .cons n v es pre rn sep rv pt bn bv t body hpre hn hrn hsep hv hfol hpt ht he, fuel + 1, kids, pos, cg, rest, hcg, hd, hf => by
    obtain ⟨c, tl, hrn', hc⟩ := rstr_head hrn
    obtain ⟨st, c0, _, _, _, c125, _⟩ := strhead_stop false c hc
    have hlen : pos + pre.length + rn.length + sep.length + rv.length + pt.length + 1 + body.length ≤ d.length := by
      have := congrArg List.length hd
      simp only [List.length_drop, List.length_append, List.length_cons, List.length_nil] at this
      omega
    have hrnl : 1 ≤ rn.length := by rw [hrn']; simp
    unfold objLoop
    have hd0 : d.drop pos = pre ++ c :: (tl ++ sep ++ rv ++ pt ++ t :: (body ++ cg ++ 125 :: rest)) := by
      rw [hd, hrn']; simp
    rw [wsAt_gap false d pos pre c _ hpre st hd0]
    have e0 : (c == 0) = false := by simpa using c0
    have e125 : (c == 125) = false := by simpa using c125
    simp only [e0, e125, Bool.false_eq_true, if_false, bind, Except.bind]
    rw [unread_ok _ (by omega)]
    simp only [Nat.add_sub_cancel]
    have hd1 : d.drop (pos + pre.length) = [] ++ rn ++ sep ++ rv ++ pt ++ t :: (body ++ cg ++ 125 :: rest) := by
      have := drop_app (a := pre) (b := rn ++ sep ++ rv ++ pt ++ t :: (body ++ cg ++ 125 :: rest)) (by simpa using hd)
      simpa using this
    rw [rt_entry V d hv fuel false kids (pos + pre.length) [] n rn sep pt bn t _ (gapOK_nil false) hn hrn hsep hfol hpt ht hd1
      (by omega)]
    simp only [List.length_nil, Nat.add_zero]
    have hd2 : d.drop (pos + pre.length + rn.length + sep.length + rv.length + pt.length + 1) = body ++ cg ++ 125 :: rest := by
      have := drop_app (a := rn ++ sep ++ rv ++ pt ++ [t]) (b := body ++ cg ++ 125 :: rest) (by simpa using hd1)
      simpa [Nat.add_assoc] using this
    rw [rt_entries V d he fuel _ _ cg rest hcg hd2 (by omega)]
    simp [padd.pfoldAux]; omega
end


/-! ### the whole file -/

theorem wsAt_end (care : Bool) (d : Bytes) : wsAt care d d.length = .ok (0, d.length) := by
  rw [wsAt_eq care d d.length (Nat.le_refl _)]; simp [wsGo]

theorem rt_top (V : Variant) (d : Bytes) : {es : List (Bytes × Val)} → {body : Bytes} → (he : REntries es body) →
    ∀ (fuel : Nat) (kids : List PNode) (pos : Nat) (post : Bytes), GapOK false post → pos ≤ d.length →
    d.drop pos = body ++ post → 2 * (d.length - pos) + 3 ≤ fuel →
    topLoop V d fuel kids pos = .ok (padd.pfoldAux es kids)
  | _, _, he, 0, _, _, _, _, _, _, hf => by omega
  | _, _, .nil, fuel + 1, kids, pos, post, hpost, hp, hd, hf => by
    unfold topLoop
    have h1 : ¬ pos > d.length := by omega
    simp only [h1, if_false]
    by_cases he : pos = d.length
    · simp [he, padd.pfoldAux]
    · have hb : (pos == d.length) = false := by simpa using he
      simp only [hb, Bool.false_eq_true, if_false, bind, Except.bind]
      cases fuel with
      | zero => omega
      | succ fuel =>
        unfold parseEntry
        simp only [bind, Except.bind]
        unfold parseString
        rw [wsAt_gap_eof false d pos post hp hpost (by simpa using hd)]
        simp only [beq_self_eq_true, if_true]
        rw [wsAt_end]
        simp only [beq_self_eq_true, if_true]
        unfold topLoop
        simp [padd.pfoldAux]
  | _, _, .cons n v es pre rn sep rv pt bn bv t body hpre hn hrn hsep hv hfol hpt ht he, fuel + 1, kids, pos, post, hpost, hp, hd, hf => by
    have hlen : pos + pre.length + rn.length + sep.length + rv.length + pt.length + 1 + body.length + post.length = d.length := by
      have := congrArg List.length hd
      simp only [List.length_drop, List.length_append, List.length_cons, List.length_nil] at this
      omega
    obtain ⟨c, tl, hrn', _⟩ := rstr_head hrn
    have hrnl : 1 ≤ rn.length := by rw [hrn']; simp
    unfold topLoop
    have h1 : ¬ pos > d.length := by omega
    have hb : (pos == d.length) = false := by
      have : pos ≠ d.length := by omega
      simpa using this
    simp only [h1, if_false, hb, Bool.false_eq_true, bind, Except.bind]
    have hd1 : d.drop pos = pre ++ rn ++ sep ++ rv ++ pt ++ t :: (body ++ post) := by simpa using hd
    rw [rt_entry V d hv fuel true kids pos pre n rn sep pt bn t _ hpre hn hrn hsep hfol hpt ht hd1 (by omega)]
    simp only
    have hd2 : d.drop (pos + pre.length + rn.length + sep.length + rv.length + pt.length + 1) = body ++ post := by
      have := drop_app (a := pre ++ rn ++ sep ++ rv ++ pt ++ [t]) (b := body ++ post) (by simpa using hd1)
      simpa [Nat.add_assoc] using this
    rw [rt_top V d he fuel _ _ post hpost (by omega) hd2 (by omega)]
    simp [padd.pfoldAux]

/-- a text of the shape `REntries … ++ gap` is parsed to the tree the document's entries
    accumulate to -/
theorem parse_rendered (V : Variant) (es : List (Bytes × Val)) (body post : Bytes) (he : REntries es body)
    (hpost : GapOK false post) (hnn : NoNul (body ++ post)) (hne : body ++ post ≠ []) :
    parseFile V (body ++ post) = .ok (pfold es []) := by
  unfold parseFile
  have : (body ++ post).isEmpty = false := by
    cases h : body ++ post with
    | nil => exact absurd h hne
    | cons _ _ => rfl
  simp only [this, Bool.false_eq_true, if_false, fileData, cstr_noNul _ hnn]
  exact rt_top V (body ++ post) he _ [] 0 post hpost (by omega) (by simp) (by simp [parseFuel])

end Iauthd.Conf
