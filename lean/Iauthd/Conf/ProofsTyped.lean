import Iauthd.Conf.Typed
import Iauthd.Conf.Spec
import Iauthd.Conf.Tree
/-
  C16, typed values: whenever the property's reading (`Spec.specTyped`) prescribes a
  value, the parsers of config.c deliver it; whenever it demands a rejection, they
  reject (with the repaired `conf_parse_volume`); and a rejected text leaves the cached
  parse — the value in force — untouched and notifies nobody.
-/
set_option linter.unusedSimpArgs false
namespace Iauthd.Conf
open Iauthd.Conf.Spec (specBoolean specVolume specInterval specInteger TExp)

/-! ### booleans -/

theorem boolean_spec (v : Bytes) :
    (∀ n, specBoolean v = .value n → parseBoolean v = (n, true)) ∧
    (specBoolean v = .reject → (parseBoolean v).2 = false) := by
  unfold specBoolean parseBoolean
  simp only [List.contains_cons, List.contains_nil, Bool.or_false]
  have e : ∀ s, Spec.bs s = bs s := fun _ => rfl
  simp only [e]
  by_cases h1 : (v == bs "1" || (v == bs "true" || (v == bs "on" || (v == bs "enabled" || v == bs "yes")))) = true
  · have h0 : (v == bs "0" || v == bs "false" || v == bs "off" || v == bs "disabled" || v == bs "no") = false := by
      simp only [Bool.or_eq_true, beq_iff_eq] at h1
      rcases h1 with h | h | h | h | h <;> subst h <;> decide +kernel
    have h1' : (v == bs "1" || v == bs "true" || v == bs "on" || v == bs "enabled" || v == bs "yes") = true := by
      simpa [Bool.or_assoc] using h1
    simp [h1, h0, h1']
  · have h1' : (v == bs "1" || v == bs "true" || v == bs "on" || v == bs "enabled" || v == bs "yes") = false := by
      simpa [Bool.or_assoc] using h1
    simp only [h1, if_false, h1']
    by_cases h0 : (v == bs "0" || (v == bs "false" || (v == bs "off" || (v == bs "disabled" || v == bs "no")))) = true
    · have h0' : (v == bs "0" || v == bs "false" || v == bs "off" || v == bs "disabled" || v == bs "no") = true := by
        simpa [Bool.or_assoc] using h0
      simp [h0, h0']
    · have h0' : (v == bs "0" || v == bs "false" || v == bs "off" || v == bs "disabled" || v == bs "no") = false := by
        simpa [Bool.or_assoc] using h0
      simp [h0, h0']


/-! ### volumes -/

open Iauthd.Conf.Spec (components digitsVal isDigitB volumeUnit intervalUnit sumBelow)

def M32 : Nat := 4294967296

theorem u32_eq (n : Nat) : u32 n = n % M32 := rfl

theorem digitsVal_acc (cs : Bytes) (a : Nat) : digitsVal cs a = a * 10 ^ cs.length + digitsVal cs 0 := by
  induction cs generalizing a with
  | nil => simp [digitsVal]
  | cons c cs ih =>
    simp only [digitsVal, List.length_cons]
    rw [ih (a * 10 + (c.toNat - 48)), ih (0 * 10 + (c.toNat - 48))]
    rw [Nat.pow_succ]
    simp [Nat.add_mul, Nat.mul_assoc, Nat.mul_comm 10, Nat.add_assoc]

theorem digitsVal_snoc (cs : Bytes) (c : UInt8) : digitsVal (cs ++ [c]) 0 = digitsVal cs 0 * 10 + (c.toNat - 48) := by
  induction cs with
  | nil => simp [digitsVal]
  | cons x xs ih =>
    simp only [List.cons_append, digitsVal]
    rw [digitsVal_acc (xs ++ [c]), digitsVal_acc xs, ih]
    simp [Nat.pow_succ, Nat.add_mul, Nat.mul_assoc, Nat.add_assoc, Nat.mul_comm 10]

def termOf (mult : UInt8 → Nat) (x : Nat × Option UInt8) : Nat :=
  x.1 * (match x.2 with | some c => mult c | none => 1)

def sumTerms (mult : UInt8 → Nat) (cs : List (Nat × Option UInt8)) : Nat := (cs.map (termOf mult)).foldl (· + ·) 0

theorem foldl_add_acc (xs : List Nat) (a : Nat) : xs.foldl (· + ·) a = a + xs.foldl (· + ·) 0 := by
  induction xs generalizing a with
  | nil => simp
  | cons x xs ih => simp only [List.foldl_cons]; rw [ih (a + x), ih (0 + x)]; omega

theorem sumTerms_snoc (mult : UInt8 → Nat) (cs : List (Nat × Option UInt8)) (x : Nat × Option UInt8) :
    sumTerms mult (cs ++ [x]) = sumTerms mult cs + termOf mult x := by
  simp [sumTerms, List.foldl_append]

def volMult (c : UInt8) : Nat := (volumeUnit c).getD 1

theorem u32_add_u32 (a b : Nat) : u32 (a + u32 b) = u32 (a + b) := by
  simp [u32, Nat.add_mod]

theorem volumeGo_cons (strict : Bool) (c : UInt8) (cs : Bytes) (total part : Nat) :
    volumeGo strict (c :: cs) total part =
      if isDigitB c then volumeGo strict cs total (u32 (part * 10 + (c.toNat - 48)))
      else match volumeUnit c with
        | some m => volumeGo strict cs (u32 (total + u32 (part * m))) 0
        | none => if strict then (u32 (total + part), false) else volumeGo strict cs total part := by
  by_cases hd : isDigitB c = true
  · have hd' : (48 ≤ c.toNat && c.toNat ≤ 57) = true := hd
    simp [volumeGo, hd, hd']
  · have hd' : (48 ≤ c.toNat && c.toNat ≤ 57) = false := by simpa [isDigitB] using hd
    have hdf : isDigitB c = false := by simpa using hd
    simp only [volumeGo, hd', hdf, Bool.false_eq_true, if_false]
    by_cases h1 : c = 66; · subst h1; simp [volumeUnit, u32_add_u32]
    by_cases h2 : c = 98; · subst h2; simp [volumeUnit, u32_add_u32]
    by_cases h3 : c = 71; · subst h3; simp [volumeUnit]
    by_cases h4 : c = 103; · subst h4; simp [volumeUnit]
    by_cases h5 : c = 75; · subst h5; simp [volumeUnit]
    by_cases h6 : c = 107; · subst h6; simp [volumeUnit]
    by_cases h7 : c = 77; · subst h7; simp [volumeUnit]
    by_cases h8 : c = 109; · subst h8; simp [volumeUnit]
    simp [volumeUnit, h1, h2, h3, h4, h5, h6, h7, h8]

theorem volumeGo_reject (v : Bytes) : ∀ total part,
    (v.any fun c => !(isDigitB c || (volumeUnit c).isSome)) = true → (volumeGo true v total part).2 = false := by
  induction v with
  | nil => intro _ _ h; simp at h
  | cons c cs ih =>
    intro total part h
    simp only [List.any_cons, Bool.or_eq_true] at h
    rw [volumeGo_cons]
    by_cases hd : isDigitB c = true
    · simp only [hd, if_true]
      rcases h with h | h
      · simp [hd] at h
      · exact ih _ _ h
    · simp only [hd, if_false]
      cases hu : volumeUnit c with
      | none => simp
      | some m =>
        rcases h with h | h
        · simp [hu] at h
        · exact ih _ _ h

/-- the loop of `conf_parse_volume` against the component reading, modulo 2^32 -/
theorem volumeGo_components (v : Bytes) : ∀ cur acc total part cs,
    part = digitsVal cur 0 % M32 → total = sumTerms volMult acc % M32 →
    components (fun c => (volumeUnit c).isSome) v cur acc = some cs →
    volumeGo true v total part = (sumTerms volMult cs % M32, true) := by
  induction v with
  | nil =>
    intro cur acc total part cs hp ht hc
    cases cur with
    | nil =>
      simp [components] at hc; subst hc
      simp [volumeGo, u32_eq, hp, ht, digitsVal]
    | cons x xs =>
      simp [components] at hc; subst hc
      simp only [volumeGo, u32_eq, hp, ht, sumTerms_snoc, termOf, Nat.mul_one]
      simp [Nat.add_mod]
  | cons c rest ih =>
    intro cur acc total part cs hp ht hc
    rw [volumeGo_cons]
    unfold components at hc
    by_cases hd : isDigitB c = true
    · simp only [hd, if_true] at hc ⊢
      refine ih _ _ _ _ _ ?_ ht hc
      rw [digitsVal_snoc, u32_eq, hp]
      simp [Nat.add_mod, Nat.mul_mod]
    · simp only [hd, if_false, Bool.false_eq_true] at hc ⊢
      cases hu : volumeUnit c with
      | none => simp [hu] at hc
      | some m =>
        simp only [hu, Option.isSome_some, Bool.true_and] at hc
        by_cases hce : cur.isEmpty = true
        · simp [hce] at hc
        · simp only [hce, Bool.not_false, if_true, Bool.false_eq_true] at hc
          (try simp at hc)
          refine ih _ _ _ _ _ (by simp [digitsVal]) ?_ hc
          rw [sumTerms_snoc, u32_eq, u32_eq, hp, ht]
          simp [termOf, volMult, hu, Nat.add_mod, Nat.mul_mod]


theorem sumBelow_value {lim n : Nat} {xs : List Nat} (h : sumBelow lim xs = .value n) :
    n = xs.foldl (· + ·) 0 ∧ n < lim := by
  unfold sumBelow at h
  dsimp only at h
  split at h
  · rename_i hc
    simp at h; subst h
    simp only [Bool.and_eq_true, decide_eq_true_eq] at hc
    exact ⟨rfl, hc.2⟩
  · simp at h

/-- C16: a volume written as unit components (and a final bare number), below 2^32, is
    delivered as their sum; a text with any other character is rejected (repaired
    `conf_parse_volume`; the pinned one accepts everything: `Cex.f26_pinned`). -/
theorem volume_spec (v : Bytes) :
    (∀ n, specVolume v = .value n → parseVolume true v = (n, true)) ∧
    (specVolume v = .reject → (parseVolume true v).2 = false) := by
  constructor
  · intro n h
    unfold specVolume at h
    split at h
    · simp at h
    · split at h
      · rename_i cs hcs
        split at h
        · simp at h
        · obtain ⟨hn, hlt⟩ := sumBelow_value h
          have := volumeGo_components v [] [] 0 0 cs (by simp [digitsVal]) (by simp [sumTerms]) hcs
          unfold parseVolume
          rw [this]
          have e : sumTerms volMult cs = n := by
            rw [hn]; simp only [sumTerms, termOf, volMult]
            congr 1
          rw [e, show n % M32 = n from Nat.mod_eq_of_lt hlt]
      · simp at h
  · intro h
    unfold specVolume at h
    split at h
    · rename_i hany
      exact volumeGo_reject v 0 0 hany
    · split at h
      · split at h
        · simp at h
        · unfold sumBelow at h; dsimp only at h; split at h <;> simp at h
      · simp at h


/-! ### intervals -/

def ivMult (c : UInt8) : Nat := (intervalUnit c).getD 1

theorem intervalGo_cons (c : UInt8) (cs : Bytes) (total part k : Nat) :
    intervalGo (c :: cs) total part k =
      if isDigitB c then intervalGo cs total (u32 (part * 10 + (c.toNat - 48))) k
      else match intervalUnit c with
        | some m => intervalGo cs (u32 (total + part * m)) 0 k
        | none =>
          if c == 58 then
            (if k == 0 then intervalGo cs (u32 (total + part * 3600)) 0 1
             else if k == 1 then intervalGo cs (u32 (total + part * 60)) 0 2
             else (u32 (total + part), false))
          else (u32 (total + part), false) := by
  by_cases hd : isDigitB c = true
  · have hd' : (48 ≤ c.toNat && c.toNat ≤ 57) = true := hd
    simp [intervalGo, hd, hd']
  · have hd' : (48 ≤ c.toNat && c.toNat ≤ 57) = false := by simpa [isDigitB] using hd
    have hdf : isDigitB c = false := by simpa using hd
    simp only [intervalGo, hd', hdf, Bool.false_eq_true, if_false]
    by_cases h1 : c = 100; · subst h1; simp [intervalUnit]
    by_cases h2 : c = 104; · subst h2; simp [intervalUnit]
    by_cases h3 : c = 109; · subst h3; simp [intervalUnit]
    by_cases h4 : c = 115; · subst h4; simp [intervalUnit]
    by_cases h5 : c = 121; · subst h5; simp [intervalUnit]
    by_cases h6 : c = 58; · subst h6; simp [intervalUnit]
    simp [intervalUnit, h1, h2, h3, h4, h5, h6]

theorem intervalGo_reject (v : Bytes) : ∀ total part k,
    (v.any fun c => !(isDigitB c || (intervalUnit c).isSome || c == 58)) = true → (intervalGo v total part k).2 = false := by
  induction v with
  | nil => intro _ _ _ h; simp at h
  | cons c cs ih =>
    intro total part k h
    simp only [List.any_cons, Bool.or_eq_true] at h
    rw [intervalGo_cons]
    by_cases hd : isDigitB c = true
    · simp only [hd, if_true]
      rcases h with h | h
      · simp [hd] at h
      · exact ih _ _ _ h
    · simp only [hd, if_false]
      cases hu : intervalUnit c with
      | some m =>
        rcases h with h | h
        · simp [hu] at h
        · exact ih _ _ _ h
      | none =>
        dsimp only
        by_cases hc : c = 58
        · subst hc
          rcases h with h | h
          · simp at h
          · simp only [beq_self_eq_true, if_true]
            by_cases k0 : (k == 0) = true
            · simp only [k0, if_true]; exact ih _ _ _ h
            · simp only [k0, if_false]
              by_cases k1 : (k == 1) = true
              · simp only [k1, if_true]; exact ih _ _ _ h
              · simp [k1]
        · simp [hc]

/-- the scan of `components` without the final step: (pending digits, components so far) -/
def scanC (isUnit : UInt8 → Bool) : Bytes → Bytes → List (Nat × Option UInt8) → Option (Bytes × List (Nat × Option UInt8))
  | [], cur, acc => some (cur, acc)
  | c :: cs, cur, acc =>
    if isDigitB c then scanC isUnit cs (cur ++ [c]) acc
    else if isUnit c && !cur.isEmpty then scanC isUnit cs [] (acc ++ [(digitsVal cur 0, some c)])
    else none

theorem components_scan (isUnit : UInt8 → Bool) (v cur : Bytes) (acc : List (Nat × Option UInt8)) :
    components isUnit v cur acc =
      (scanC isUnit v cur acc).map fun (c, a) => if c.isEmpty then a else a ++ [(digitsVal c 0, none)] := by
  induction v generalizing cur acc with
  | nil => cases cur <;> simp [components, scanC]
  | cons c cs ih =>
    simp only [components, scanC]
    split
    · exact ih _ _
    · split
      · exact ih _ _
      · rfl

/-- the loop of `conf_parse_interval` over a colon-free stretch, against the scan -/
theorem mod_helper (x d m : Nat) : ((x % M32) + (d % M32) * m) % M32 = (x + d * m) % M32 := by
  rw [Nat.add_mod, Nat.mod_mod, Nat.mul_mod (d % M32) m, Nat.mod_mod, ← Nat.mul_mod, ← Nat.add_mod]

theorem intervalGo_scan (off : Nat) (pre : Bytes) : ∀ rest cur acc total part k cur' acc',
    part = digitsVal cur 0 % M32 → total = (off + sumTerms ivMult acc) % M32 →
    scanC (fun c => (intervalUnit c).isSome) pre cur acc = some (cur', acc') →
    intervalGo (pre ++ rest) total part k =
      intervalGo rest ((off + sumTerms ivMult acc') % M32) (digitsVal cur' 0 % M32) k := by
  induction pre with
  | nil =>
    intro rest cur acc total part k cur' acc' hp ht hs
    simp [scanC] at hs
    obtain ⟨rfl, rfl⟩ := hs
    simp [hp, ht]
  | cons c pre ih =>
    intro rest cur acc total part k cur' acc' hp ht hs
    simp only [List.cons_append]
    rw [intervalGo_cons]
    unfold scanC at hs
    by_cases hd : isDigitB c = true
    · simp only [hd, if_true] at hs ⊢
      refine ih _ _ _ _ _ _ _ _ ?_ ht hs
      rw [digitsVal_snoc, u32_eq, hp]
      simp [Nat.add_mod, Nat.mul_mod]
    · simp only [hd, if_false, Bool.false_eq_true] at hs ⊢
      cases hu : intervalUnit c with
      | none => simp [hu] at hs
      | some m =>
        simp only [hu, Option.isSome_some, Bool.true_and] at hs
        by_cases hce : cur.isEmpty = true
        · simp [hce] at hs
        · simp only [hce, Bool.not_false, if_true, Bool.false_eq_true] at hs
          (try simp at hs)
          refine ih _ _ _ _ _ _ _ _ (by simp [digitsVal]) ?_ hs
          rw [sumTerms_snoc, u32_eq, hp, ht, mod_helper]
          simp [termOf, ivMult, hu, Nat.add_assoc]


theorem scanC_digits (isUnit : UInt8 → Bool) (ds : Bytes) (h : ds.all isDigitB = true) : ∀ cur acc,
    scanC isUnit ds cur acc = some (cur ++ ds, acc) := by
  induction ds with
  | nil => intro cur acc; simp [scanC]
  | cons c cs ih =>
    intro cur acc
    simp only [List.all_cons, Bool.and_eq_true] at h
    simp only [scanC, h.1, if_true]
    rw [ih h.2]; simp

theorem scanC_units (isUnit : UInt8 → Bool) (v : Bytes) : ∀ cur acc cur' acc',
    (∀ x ∈ acc, x.2.isSome = true) → scanC isUnit v cur acc = some (cur', acc') → ∀ x ∈ acc', x.2.isSome = true := by
  induction v with
  | nil => intro cur acc cur' acc' ha hs; simp [scanC] at hs; obtain ⟨_, rfl⟩ := hs; exact ha
  | cons c cs ih =>
    intro cur acc cur' acc' ha hs
    unfold scanC at hs
    split at hs
    · exact ih _ _ _ _ ha hs
    · split at hs
      · refine ih _ _ _ _ ?_ hs
        intro x hx
        simp at hx
        rcases hx with hx | hx
        · exact ha x hx
        · subst hx; rfl
      · simp at hs

/-- pieces between separators, put back together -/
def joinSep (sep : UInt8) : List Bytes → Bytes
  | [] => []
  | [x] => x
  | x :: y :: r => x ++ sep :: joinSep sep (y :: r)

theorem splitAt_ne_nil (sep : UInt8) (v cur : Bytes) : Spec.splitAt sep v cur ≠ [] := by
  induction v generalizing cur with
  | nil => simp [Spec.splitAt]
  | cons c cs ih => simp only [Spec.splitAt]; split <;> simp [ih]

theorem splitAt_join (sep : UInt8) (v : Bytes) : ∀ cur, joinSep sep (Spec.splitAt sep v cur) = cur ++ v := by
  induction v with
  | nil => intro cur; simp [Spec.splitAt, joinSep]
  | cons c cs ih =>
    intro cur
    simp only [Spec.splitAt]
    split
    · rename_i hc
      have hc' : c = sep := by simpa using hc
      cases hr : Spec.splitAt sep cs [] with
      | nil => exact absurd hr (splitAt_ne_nil sep cs [])
      | cons y r =>
        have := ih []
        rw [hr] at this
        simp only [joinSep, this, hc']
        simp
    · rw [ih]; simp

theorem sum_append (a b : List Nat) : (a ++ b).foldl (· + ·) 0 = a.foldl (· + ·) 0 + b.foldl (· + ·) 0 := by
  rw [List.foldl_append, foldl_add_acc]

theorem sum_reverse (a : List Nat) : a.reverse.foldl (· + ·) 0 = a.foldl (· + ·) 0 := by
  induction a with
  | nil => rfl
  | cons x xs ih =>
    simp only [List.reverse_cons, sum_append, ih, List.foldl_cons, List.foldl_nil]
    rw [foldl_add_acc xs (0 + x)]; omega


theorem intervalGo_nil (total part k : Nat) : intervalGo [] total part k = (u32 (total + part), true) := rfl

theorem sumTerms_fin (mult : UInt8 → Nat) (cur : Bytes) (acc : List (Nat × Option UInt8)) :
    sumTerms mult (if cur.isEmpty then acc else acc ++ [(digitsVal cur 0, none)]) = sumTerms mult acc + digitsVal cur 0 := by
  cases cur with
  | nil => simp [digitsVal]
  | cons x xs => simp [sumTerms_snoc, termOf]

theorem interval_single (v : Bytes) (cs : List (Nat × Option UInt8))
    (hc : components (fun c => (intervalUnit c).isSome) v [] [] = some cs) :
    parseInterval v = (sumTerms ivMult cs % M32, true) := by
  rw [components_scan] at hc
  cases hs : scanC (fun c => (intervalUnit c).isSome) v [] [] with
  | none => simp [hs] at hc
  | some st =>
    obtain ⟨cur', acc'⟩ := st
    simp only [hs, Option.map_some, Option.some.injEq] at hc
    have := intervalGo_scan 0 v [] [] [] 0 0 0 cur' acc' (by simp [digitsVal]) (by simp [sumTerms]) hs
    simp only [List.append_nil, Nat.zero_add] at this
    unfold parseInterval
    rw [this, intervalGo_nil, ← hc, sumTerms_fin, u32_eq]
    simp [Nat.add_mod]

theorem intervalGo_colon0 (rest : Bytes) (total part : Nat) :
    intervalGo (58 :: rest) total part 0 = intervalGo rest (u32 (total + part * 3600)) 0 1 := by
  rw [intervalGo_cons]; rfl

theorem intervalGo_colon1 (rest : Bytes) (total part : Nat) :
    intervalGo (58 :: rest) total part 1 = intervalGo rest (u32 (total + part * 60)) 0 2 := by
  rw [intervalGo_cons]; rfl

theorem intervalGo_digits (ds : Bytes) (hd : ds.all isDigitB = true) (rest : Bytes) (T k : Nat) :
    intervalGo (ds ++ rest) (T % M32) 0 k = intervalGo rest (T % M32) (digitsVal ds 0 % M32) k := by
  have ss := scanC_digits (fun c => (intervalUnit c).isSome) ds hd [] []
  have := intervalGo_scan T ds rest [] [] (T % M32) 0 k ([] ++ ds) [] (by simp [digitsVal]) (by simp [sumTerms]) ss
  simpa [sumTerms] using this

theorem interval_hms (pre m s : Bytes) (cur' : Bytes) (acc' : List (Nat × Option UInt8))
    (hs : scanC (fun c => (intervalUnit c).isSome) pre [] [] = some (cur', acc'))
    (hm : m.all isDigitB = true) (hsd : s.all isDigitB = true) :
    parseInterval (pre ++ 58 :: (m ++ 58 :: s)) =
      ((sumTerms ivMult acc' + digitsVal cur' 0 * 3600 + digitsVal m 0 * 60 + digitsVal s 0) % M32, true) := by
  unfold parseInterval
  have s1 := intervalGo_scan 0 pre (58 :: (m ++ 58 :: s)) [] [] 0 0 0 cur' acc' (by simp [digitsVal]) (by simp [sumTerms]) hs
  rw [s1, Nat.zero_add, intervalGo_colon0, u32_eq, mod_helper]
  rw [intervalGo_digits m hm, intervalGo_colon1, u32_eq, mod_helper]
  have s3 := intervalGo_digits s hsd [] (sumTerms ivMult acc' + digitsVal cur' 0 * 3600 + digitsVal m 0 * 60) 2
  rw [List.append_nil] at s3
  rw [s3, intervalGo_nil, u32_eq]
  simp [Nat.add_mod]


/-- C16: an interval written as unit components `y d h m s` (and a final bare number of
    seconds, or a final `H:M:S`), below 2^32, is delivered as their sum; a text with any
    other character is rejected. -/
theorem interval_spec (v : Bytes) :
    (∀ n, specInterval v = .value n → parseInterval v = (n, true)) ∧
    (specInterval v = .reject → (parseInterval v).2 = false) := by
  constructor
  · intro n h
    unfold specInterval at h
    split at h
    · simp at h
    · dsimp only at h
      have hj := splitAt_join 58 v []
      split at h
      · -- no colon
        rename_i single hparts
        rw [hparts] at hj
        simp only [joinSep, List.nil_append] at hj
        subst hj
        split at h
        · rename_i cs hcs
          split at h
          · simp at h
          · obtain ⟨hn, hlt⟩ := sumBelow_value h
            rw [interval_single _ cs hcs]
            have e : sumTerms ivMult cs = n := by
              rw [hn]; simp only [sumTerms, termOf, ivMult]; congr 1
            rw [e, show n % M32 = n from Nat.mod_eq_of_lt hlt]
        · simp at h
      · -- H:M:S
        rename_i pre m s hparts
        rw [hparts] at hj
        simp only [joinSep, List.nil_append] at hj
        split at h
        · simp at h
        · rename_i hcond
          simp only [Bool.or_eq_true, Bool.not_eq_true', not_or, Bool.not_eq_false] at hcond
          obtain ⟨⟨⟨_, _⟩, hm⟩, hsd⟩ := hcond
          split at h
          · rename_i cs hcs
            rw [components_scan] at hcs
            cases hsc : scanC (fun c => (intervalUnit c).isSome) pre [] [] with
            | none => simp [hsc] at hcs
            | some st =>
              obtain ⟨cur', acc'⟩ := st
              simp only [hsc, Option.map_some, Option.some.injEq] at hcs
              have hun := scanC_units _ pre [] [] cur' acc' (by simp) hsc
              split at h
              · rename_i hh restRev hrev
                obtain ⟨hn, hlt⟩ := sumBelow_value h
                -- the last component is the pending bare number
                have hcur : cur'.isEmpty = false := by
                  cases hce : cur'.isEmpty with
                  | false => rfl
                  | true =>
                    simp only [hce, if_true] at hcs
                    subst hcs
                    have : (hh, (none : Option UInt8)) ∈ acc' := by
                      have : (hh, (none : Option UInt8)) ∈ acc'.reverse := by rw [hrev]; simp
                      simpa using this
                    have := hun _ this
                    simp at this
                simp only [hcur, Bool.false_eq_true, if_false] at hcs
                subst hcs
                simp only [List.reverse_append, List.reverse_cons, List.reverse_nil, List.nil_append,
                  List.singleton_append, List.cons.injEq, Prod.mk.injEq, and_true] at hrev
                obtain ⟨hh', hrest⟩ := hrev
                subst hh' hrest
                rw [← hj, interval_hms pre m s cur' acc' hsc hm hsd]
                have e1 : termOf ivMult = fun x => x.fst * (match x.snd with | some c => (intervalUnit c).getD 1 | none => 1) := rfl
                have e : sumTerms ivMult acc' + digitsVal cur' 0 * 3600 + digitsVal m 0 * 60 + digitsVal s 0 = n := by
                  rw [hn]
                  simp only [sum_append, List.map_reverse, sum_reverse, List.foldl_cons, List.foldl_nil, sumTerms, e1]
                  rw [show ∀ a b c d : Nat, a + (0 + b + c + d) = a + b + c + d from by intros; omega]
                  congr 4
                rw [e, show n % M32 = n from Nat.mod_eq_of_lt hlt]
              · simp at h
          · simp at h
      · simp at h
  · intro h
    unfold specInterval at h
    split at h
    · rename_i hany
      exact intervalGo_reject v 0 0 0 hany
    · exfalso
      dsimp only at h
      split at h
      · split at h
        · split at h
          · simp at h
          · unfold sumBelow at h; dsimp only at h; split at h <;> simp at h
        · simp at h
      · split at h
        · simp at h
        · split at h
          · split at h
            · unfold sumBelow at h; dsimp only at h; split at h <;> simp at h
            · simp at h
          · simp at h
      · simp at h


/-! ### integers -/

open Iauthd.Conf.Spec (hexVal1 baseVal)

theorem digitVal_of_hexVal1 (base : Nat) (c : UInt8) (x : Nat) (h : hexVal1 c = some x) (hx : x < base) :
    digitVal base c = some x := by
  unfold hexVal1 at h
  unfold digitVal
  split at h
  · rename_i hc; simp at h; subst h
    simp only [hc, if_true]; simp [hx]
  · rename_i hc
    split at h
    · rename_i hc2; simp at h; subst h
      have : (97 ≤ c.toNat && c.toNat ≤ 122) = true := by
        simp only [Bool.and_eq_true, decide_eq_true_eq] at hc2 ⊢; omega
      simp only [hc, this, if_true]; simp [hx]
    · rename_i hc2
      split at h
      · rename_i hc3; simp at h; subst h
        have h2 : (97 ≤ c.toNat && c.toNat ≤ 122) = false := by
          simp only [Bool.and_eq_true, decide_eq_true_eq, not_and, Nat.not_le] at hc3 hc2 ⊢
          simp only [Bool.and_eq_false_iff, decide_eq_false_iff_not, Nat.not_le]; omega
        have h3 : (65 ≤ c.toNat && c.toNat ≤ 90) = true := by
          simp only [Bool.and_eq_true, decide_eq_true_eq] at hc3 ⊢; omega
        simp only [hc, h2, h3, if_true]; simp [hx]
      · simp at h

theorem accDigits_baseVal (base : Nat) (cs : Bytes) : ∀ acc k n, baseVal base cs acc = some n →
    accDigits base cs acc k = (n, k + cs.length) := by
  induction cs with
  | nil => intro acc k n h; simp [baseVal] at h; simp [accDigits, h]
  | cons c cs ih =>
    intro acc k n h
    unfold baseVal at h
    cases hv : hexVal1 c with
    | none => simp [hv] at h
    | some x =>
      simp only [hv] at h
      split at h
      · rename_i hx
        simp only [accDigits, digitVal_of_hexVal1 base c x hv hx]
        rw [ih _ _ _ h]; simp; omega
      · simp at h

theorem baseVal_head (base : Nat) (c : UInt8) (cs : Bytes) (acc n : Nat) (h : baseVal base (c :: cs) acc = some n) :
    ∃ x, hexVal1 c = some x ∧ x < base := by
  unfold baseVal at h
  cases hv : hexVal1 c with
  | none => simp [hv] at h
  | some x =>
    simp only [hv] at h
    split at h
    · exact ⟨x, rfl, by assumption⟩
    · simp at h

theorem hexVal1_not_space (c : UInt8) (x : Nat) (h : hexVal1 c = some x) : Bytes.isSpace c = false ∧ c ≠ 45 ∧ c ≠ 43 := by
  refine ⟨?_, ?_, ?_⟩
  · cases hs : Bytes.isSpace c with
    | false => rfl
    | true =>
      exfalso
      unfold Bytes.isSpace at hs
      unfold hexVal1 at h
      simp only [Bool.or_eq_true, beq_iff_eq, Bool.and_eq_true, decide_eq_true_eq] at hs
      have : c.toNat = 32 ∨ (9 ≤ c.toNat ∧ c.toNat ≤ 13) := by
        rcases hs with e | e
        · left; subst e; rfl
        · right; exact e
      split at h
      · rename_i hc; simp only [Bool.and_eq_true, decide_eq_true_eq] at hc; omega
      · split at h
        · rename_i hc; simp only [Bool.and_eq_true, decide_eq_true_eq] at hc; omega
        · split at h
          · rename_i hc; simp only [Bool.and_eq_true, decide_eq_true_eq] at hc; omega
          · simp at h
  · intro e; subst e; simp [hexVal1] at h
  · intro e; subst e; simp [hexVal1] at h


/-- `strtoul(…, 0)` on a text that starts with a digit: no blanks, no sign -/
theorem strtoul0_digit_first (c : UInt8) (rest : Bytes) (x : Nat) (hc : hexVal1 c = some x) :
    strtoul0 (c :: rest) =
      (let bp := baseOf (c :: rest)
       let an := accDigits bp.1 ((c :: rest).drop bp.2) 0 0
       if an.2 == 0 then (0, 0)
       else (if an.1 > u64max then u64max else an.1, bp.2 + an.2)) := by
  obtain ⟨hs, h45, h43⟩ := hexVal1_not_space c x hc
  have sign : signOf (c :: rest) = (false, 0) := by
    unfold signOf
    split
    · rename_i heq; simp at heq; exact absurd heq.1 h45
    · rename_i heq; simp at heq; exact absurd heq.1 h43
    · rfl
  unfold strtoul0
  simp only [skipSpaces, hs, Bool.false_eq_true, if_false, List.drop_zero, sign, Nat.zero_add]


theorem inRange_value {o : Option Nat} {n : Nat}
    (h : (match o with | some n => if n < 2147483648 then TExp.value n else TExp.any | none => TExp.any) = TExp.value n) :
    o = some n ∧ n < 2147483648 := by
  cases o with
  | none => simp at h
  | some m =>
    simp only at h
    split at h
    · simp at h; subst h; exact ⟨rfl, by assumption⟩
    · simp at h

theorem u32_small {n : Nat} (h : n < 2147483648) : u32 n = n := by
  unfold u32; omega

theorem parse_hex (xc h : UInt8) (rest : Bytes) (n : Nat) (hx : xc = 120 ∨ xc = 88)
    (hb : baseVal 16 (h :: rest) 0 = some n) (hn : n < 2147483648) :
    parseInteger (48 :: xc :: h :: rest) = (n, true) := by
  obtain ⟨x, hx1, hx2⟩ := baseVal_head 16 h rest 0 n hb
  have hd : (digitVal 16 h).isSome = true := by rw [digitVal_of_hexVal1 16 h x hx1 hx2]; rfl
  have hbase : baseOf (48 :: xc :: h :: rest) = (16, 2) := by
    rcases hx with rfl | rfl <;> simp [baseOf, hd]
  unfold parseInteger
  rw [strtoul0_digit_first 48 _ 0 (by decide), hbase]
  simp only [List.drop_succ_cons, List.drop_zero]
  rw [accDigits_baseVal 16 _ 0 0 n hb]
  have : ¬ n > u64max := by unfold u64max; omega
  simp [this, u32_small hn]
  omega


theorem parse_oct (o : UInt8) (rest : Bytes) (n : Nat)
    (hb : baseVal 8 (o :: rest) 0 = some n) (hn : n < 2147483648) :
    parseInteger (48 :: o :: rest) = (n, true) := by
  obtain ⟨x, hx1, hx2⟩ := baseVal_head 8 o rest 0 n hb
  have ho : ¬ (o = 120 ∨ o = 88) := by
    rintro (rfl | rfl) <;> simp [hexVal1] at hx1
  have hbase : baseOf (48 :: o :: rest) = (8, 0) := by
    cases rest with
    | nil => simp [baseOf]
    | cons h' r =>
      have : (o == 120 || o == 88) = false := by
        simp only [Bool.or_eq_false_iff, beq_eq_false_iff_ne]
        exact ⟨fun e => ho (.inl e), fun e => ho (.inr e)⟩
      simp [baseOf, this]
  unfold parseInteger
  rw [strtoul0_digit_first 48 _ 0 (by decide), hbase]
  simp only [List.drop_zero]
  have h0 : digitVal 8 48 = some 0 := by decide
  have : accDigits 8 (48 :: o :: rest) 0 0 = (n, 1 + (o :: rest).length) := by
    simp only [accDigits, h0]
    exact accDigits_baseVal 8 _ _ _ n (by simpa using hb)
  rw [this]
  have : ¬ n > u64max := by unfold u64max; omega
  simp [this, u32_small hn]
  omega

theorem parse_dec (c : UInt8) (rest : Bytes) (n : Nat) (hc : (49 ≤ c.toNat && c.toNat ≤ 57) = true)
    (hb : baseVal 10 (c :: rest) 0 = some n) (hn : n < 2147483648) :
    parseInteger (c :: rest) = (n, true) := by
  obtain ⟨x, hx1, hx2⟩ := baseVal_head 10 c rest 0 n hb
  have hc48 : c ≠ 48 := by
    intro e; subst e; simp at hc
  have hbase : baseOf (c :: rest) = (10, 0) := by
    unfold baseOf
    split
    · rename_i heq; simp at heq; exact absurd heq.1 hc48
    · rename_i heq; simp at heq; exact absurd heq.1 hc48
    · rfl
  unfold parseInteger
  rw [strtoul0_digit_first c _ x hx1, hbase]
  simp only [List.drop_zero]
  rw [accDigits_baseVal 10 _ 0 0 n hb]
  have : ¬ n > u64max := by unfold u64max; omega
  simp [this, u32_small hn]

theorem integer_value (v : Bytes) (n : Nat) (h : specInteger v = .value n) : parseInteger v = (n, true) := by
  unfold specInteger at h
  dsimp only at h
  split at h
  · simp at h
  · split at h
    · simp at h; subst h; decide +kernel
    · obtain ⟨hb, hn⟩ := inRange_value h
      exact parse_hex 120 _ _ n (.inl rfl) hb hn
    · obtain ⟨hb, hn⟩ := inRange_value h
      exact parse_hex 88 _ _ n (.inr rfl) hb hn
    · obtain ⟨hb, hn⟩ := inRange_value h
      exact parse_oct _ _ n hb hn
    · split at h
      · rename_i hc
        obtain ⟨hb, hn⟩ := inRange_value h
        exact parse_dec _ _ n hc hb hn
      · simp at h
    · simp at h


/-! #### rejection -/

def intAllowed (c : UInt8) : Bool :=
  (hexVal1 c).isSome || c == 120 || c == 88 || c == 43 || c == 45 || Bytes.isSpace c

theorem skipSpaces_spec (v : Bytes) : skipSpaces v ≤ v.length ∧ ∀ c ∈ v.take (skipSpaces v), Bytes.isSpace c = true := by
  induction v with
  | nil => simp [skipSpaces]
  | cons c cs ih =>
    unfold skipSpaces
    split
    · rename_i hc
      refine ⟨by simp; exact ih.1, ?_⟩
      intro x hx
      simp only [List.take_succ_cons, List.mem_cons] at hx
      rcases hx with rfl | hx
      · exact hc
      · exact ih.2 x hx
    · simp

theorem signOf_spec (s : Bytes) : (signOf s).2 ≤ s.length ∧ ∀ c ∈ s.take (signOf s).2, c = 45 ∨ c = 43 := by
  unfold signOf
  split <;> simp

theorem baseOf_spec (s : Bytes) :
    ((baseOf s).2 = 0 ∧ ((baseOf s).1 = 8 ∨ (baseOf s).1 = 10)) ∨
    ((baseOf s).2 = 2 ∧ (baseOf s).1 = 16 ∧ ∃ x rest, s = 48 :: x :: rest ∧ (x = 120 ∨ x = 88)) := by
  unfold baseOf
  split
  · rename_i x h t
    split
    · rename_i hc
      simp only [Bool.and_eq_true, Bool.or_eq_true, beq_iff_eq] at hc
      exact .inr ⟨rfl, rfl, x, h :: t, rfl, hc.1⟩
    · exact .inl ⟨rfl, .inl rfl⟩
  · exact .inl ⟨rfl, .inl rfl⟩
  · exact .inl ⟨rfl, .inr rfl⟩

theorem accDigits_spec (base : Nat) (s : Bytes) : ∀ acc k,
    (accDigits base s acc k).2 ≥ k ∧ (accDigits base s acc k).2 - k ≤ s.length ∧
    ∀ c ∈ s.take ((accDigits base s acc k).2 - k), (digitVal base c).isSome = true := by
  induction s with
  | nil => intro acc k; simp [accDigits]
  | cons c cs ih =>
    intro acc k
    unfold accDigits
    cases hd : digitVal base c with
    | none => simp
    | some x =>
      simp only
      obtain ⟨i1, i2, i3⟩ := ih (acc * base + x) (k + 1)
      refine ⟨by omega, by simp; omega, ?_⟩
      intro y hy
      have e : (accDigits base cs (acc * base + x) (k + 1)).2 - k = ((accDigits base cs (acc * base + x) (k + 1)).2 - (k + 1)) + 1 := by omega
      rw [e, List.take_succ_cons] at hy
      simp only [List.mem_cons] at hy
      rcases hy with rfl | hy
      · simp [hd]
      · exact i3 y hy

theorem digitVal_allowed (base : Nat) (hb : base ≤ 16) (c : UInt8) (h : (digitVal base c).isSome = true) :
    (hexVal1 c).isSome = true ∧ (base ≤ 10 → isDigitB c = true) := by
  unfold digitVal at h
  unfold hexVal1 isDigitB
  by_cases h1 : (48 ≤ c.toNat && c.toNat ≤ 57) = true
  · simp [h1]
  · simp only [h1, Bool.false_eq_true, if_false] at h ⊢
    by_cases h2 : (97 ≤ c.toNat && c.toNat ≤ 122) = true
    · simp only [h2, if_true] at h
      have hx : c.toNat - 87 < base := by
        by_cases hh : c.toNat - 87 < base
        · exact hh
        · simp [hh] at h
      have h2' := h2
      simp only [Bool.and_eq_true, decide_eq_true_eq] at h2'
      have : (97 ≤ c.toNat && c.toNat ≤ 102) = true := by
        simp only [Bool.and_eq_true, decide_eq_true_eq]; omega
      simp only [this, if_true, Option.isSome_some, true_and]
      intro hb10; omega
    · simp only [h2, Bool.false_eq_true, if_false] at h
      by_cases h3 : (65 ≤ c.toNat && c.toNat ≤ 90) = true
      · simp only [h3, if_true] at h
        have hx : c.toNat - 55 < base := by
          by_cases hh : c.toNat - 55 < base
          · exact hh
          · simp [hh] at h
        have h3' := h3
        simp only [Bool.and_eq_true, decide_eq_true_eq] at h3'
        have h97 : (97 ≤ c.toNat && c.toNat ≤ 102) = false := by
          simp only [Bool.and_eq_false_iff, decide_eq_false_iff_not, Nat.not_le]; omega
        have : (65 ≤ c.toNat && c.toNat ≤ 70) = true := by
          simp only [Bool.and_eq_true, decide_eq_true_eq]; omega
        simp only [h97, this, Bool.false_eq_true, if_false, if_true, Option.isSome_some, true_and]
        intro hb10; omega
      · simp [h3] at h


theorem mem_take_or_drop {α} (l : List α) (n : Nat) (x : α) (h : x ∈ l) : x ∈ l.take n ∨ x ∈ l.drop n := by
  rw [← List.take_append_drop n l] at h
  exact List.mem_append.mp h

theorem integer_reject (v : Bytes) (h : specInteger v = .reject) : (parseInteger v).2 = false := by
  -- the only way the reading demands a rejection
  have hC : ((v.any fun c => !intAllowed c) || (!v.isEmpty && !v.any isDigitB)) = true := by
    unfold specInteger at h
    dsimp only at h
    split at h
    · rename_i hc; exact hc
    · exfalso
      split at h
      · simp at h
      · split at h <;> (try split at h) <;> simp at h
      · split at h <;> (try split at h) <;> simp at h
      · split at h <;> (try split at h) <;> simp at h
      · split at h
        · split at h <;> (try split at h) <;> simp at h
        · simp at h
      · simp at h
  have hne : v ≠ [] := by
    intro e; subst e; simp at hC
  unfold parseInteger
  generalize hsp : skipSpaces v = sp
  have := skipSpaces_spec v
  rw [hsp] at this
  obtain ⟨sp1, sp2⟩ := this
  unfold strtoul0
  simp only [hsp]
  generalize hk : (signOf (v.drop sp)).2 = k
  have := signOf_spec (v.drop sp)
  rw [hk] at this
  obtain ⟨k1, k2⟩ := this
  generalize hbp : baseOf ((v.drop sp).drop k) = bp
  have hb := baseOf_spec ((v.drop sp).drop k)
  rw [hbp] at hb
  generalize han : accDigits bp.1 (((v.drop sp).drop k).drop bp.2) 0 0 = an
  have ha := accDigits_spec bp.1 (((v.drop sp).drop k).drop bp.2) 0 0
  rw [han] at ha
  obtain ⟨_, a2, a3⟩ := ha
  simp only [Nat.sub_zero] at a2 a3
  by_cases hn0 : an.2 = 0
  · have : v.length ≠ 0 := by simpa using hne
    simp [hn0, Ne.symm this]
  · simp only [show (an.2 == 0) = false by simpa using hn0, Bool.false_eq_true, if_false]
    by_cases he : sp + k + bp.2 + an.2 = v.length
    · exfalso
      simp only [List.length_drop] at a2 k1
      have hb16 : bp.1 ≤ 16 := by rcases hb with ⟨_, h8 | h10⟩ | ⟨_, h16, _⟩ <;> omega
      -- every character is one strtoul can consume
      have hall : ∀ c ∈ v, intAllowed c = true := by
        intro c hc
        rcases mem_take_or_drop v sp c hc with h1 | h1
        · simp [intAllowed, sp2 c h1]
        rcases mem_take_or_drop _ k c h1 with h2 | h2
        · rcases k2 c h2 with rfl | rfl <;> simp [intAllowed]
        rcases mem_take_or_drop _ bp.2 c h2 with h3 | h3
        · rcases hb with ⟨p0, _⟩ | ⟨_, _, x, rest, hs, hx⟩
          · rw [p0] at h3; simp at h3
          · rw [hs] at h3
            have : c = 48 ∨ c = x := by
              have := List.mem_of_mem_take h3
              rcases hb2 : bp.2 with _ | _ | _ <;> simp_all
            rcases this with rfl | rfl
            · simp [intAllowed, hexVal1]
            · rcases hx with rfl | rfl <;> simp [intAllowed]
        · rcases mem_take_or_drop _ an.2 c h3 with h4 | h4
          · simp [intAllowed, (digitVal_allowed bp.1 hb16 c (a3 c h4)).1]
          · have : (List.drop an.2 (List.drop bp.2 (List.drop k (List.drop sp v)))).length = 0 := by
              simp only [List.length_drop]; omega
            rw [List.length_eq_zero_iff.mp this] at h4; simp at h4
      -- and one of them is a decimal digit
      have hdig : ∃ c ∈ v, isDigitB c = true := by
        rcases hb with ⟨p0, hb10⟩ | ⟨_, _, x, rest, hs, _⟩
        · have hpos : 0 < an.2 := Nat.pos_of_ne_zero hn0
          cases hs3 : List.drop bp.2 (List.drop k (List.drop sp v)) with
          | nil => have := congrArg List.length hs3; simp only [List.length_drop, List.length_nil] at this; omega
          | cons c cs =>
            have hc : c ∈ List.take an.2 (List.drop bp.2 (List.drop k (List.drop sp v))) := by
              rw [hs3]
              cases han2 : an.2 with
              | zero => omega
              | succ m => simp
            refine ⟨c, ?_, (digitVal_allowed bp.1 hb16 c (a3 c hc)).2 (by rcases hb10 with h | h <;> omega)⟩
            exact List.mem_of_mem_drop (List.mem_of_mem_drop (List.mem_of_mem_drop (List.mem_of_mem_take hc)))
        · refine ⟨48, ?_, by decide⟩
          have : (48 : UInt8) ∈ List.drop k (List.drop sp v) := by rw [hs]; simp
          exact List.mem_of_mem_drop (List.mem_of_mem_drop this)
      simp only [Bool.or_eq_true, List.any_eq_true, Bool.and_eq_true, Bool.not_eq_true'] at hC
      rcases hC with ⟨c, hc, hbad⟩ | ⟨_, hnd⟩
      · rw [hall c hc] at hbad; simp at hbad
      · obtain ⟨c, hc, hd⟩ := hdig
        have : v.any isDigitB = true := List.any_eq_true.mpr ⟨c, hc, hd⟩
        rw [this] at hnd; simp at hnd
    · simp [he]

/-- C16: an integer written in decimal, `0x` hexadecimal or `0` octal, below 2^31, is
    delivered; a text with a character no integer literal can contain, or without any
    decimal digit, is rejected. -/
theorem integer_spec (v : Bytes) :
    (∀ n, specInteger v = .value n → parseInteger v = (n, true)) ∧
    (specInteger v = .reject → (parseInteger v).2 = false) :=
  ⟨fun n h => integer_value v n h, integer_reject v⟩


/-! ### all subtypes; the node-level consequence -/

/-- C16: for every typed subtype and every text: the value the reading prescribes is the
    value delivered, and what the reading says must be rejected is rejected. -/
theorem typed_spec (sub : SubTy) (v : Bytes) :
    (∀ n, Spec.specTyped sub.code v = .value n → parseTyped true sub v = (n, true)) ∧
    (Spec.specTyped sub.code v = .reject → (parseTyped true sub v).2 = false) := by
  cases sub with
  | plain => simp [SubTy.code, Spec.specTyped]
  | float => simp [SubTy.code, Spec.specTyped]
  | boolean => simpa [SubTy.code, Spec.specTyped, parseTyped] using boolean_spec v
  | integer => simpa [SubTy.code, Spec.specTyped, parseTyped] using integer_spec v
  | interval => simpa [SubTy.code, Spec.specTyped, parseTyped] using interval_spec v
  | volume => simpa [SubTy.code, Spec.specTyped, parseTyped] using volume_spec v

/-- C16: an unparsable typed value is rejected leaving the previous value in force: the
    cached parse is untouched, the hook does not run, a warning is logged (the text itself
    is kept as the node's string value, as in the C code). -/
theorem typed_reject (V : Variant) (sv : Bool) (value d : Option Bytes) (v : Bytes) (sub : SubTy) (parsed : Parsed) (hook : Bool)
    (hv : orElse' value d = some v) (hsub : sub ≠ .plain ∧ sub ≠ .float)
    (hrej : (parseTyped sv sub v).2 = false) :
    strParse V sv value d sub parsed hook = .ok ⟨some v, parsed, false, true⟩ := by
  unfold strParse
  rw [hv]
  simp only
  unfold strParseSome
  cases sub with
  | plain => exact absurd rfl hsub.1
  | float => exact absurd rfl hsub.2
  | boolean | integer | interval | volume => simp [hrej]

/-- … and an accepted one is delivered: the cached parse becomes the parsed number -/
theorem typed_accept (V : Variant) (sv : Bool) (value d : Option Bytes) (v : Bytes) (sub : SubTy) (parsed : Parsed) (hook : Bool)
    (hv : orElse' value d = some v) (hsub : sub ≠ .plain ∧ sub ≠ .float) (n : Nat)
    (hacc : parseTyped sv sub v = (n, true)) (r : StrRes) (h : strParse V sv value d sub parsed hook = .ok r) :
    r.value = some v ∧ r.parsed.norm = (Parsed.num n).norm := by
  unfold strParse at h
  rw [hv] at h
  simp only at h
  unfold strParseSome at h
  cases sub with
  | plain => exact absurd rfl hsub.1
  | float => exact absurd rfl hsub.2
  | boolean | integer | interval | volume =>
    all_goals
      simp only [hacc, Bool.not_true, Bool.false_eq_true, if_false] at h
      split at h
      · rename_i hs
        simp at h; subst h
        refine ⟨rfl, ?_⟩
        cases parsed with
        | zero => simp [typedSame] at hs; subst hs; simp [Parsed.norm]
        | ptr b => simp [typedSame] at hs
        | num m => simp [typedSame] at hs; subst hs; rfl
      · simp at h; subst h; exact ⟨rfl, rfl⟩

end Iauthd.Conf
