import Iauthd.Conf.ProofsRoundtrip
/-
  C16, structure, second part (repaired parser: F10, F11, F12): the last entry of an
  object or of the file may lack a terminator, lists may be written in comma form.
-/
set_option linter.unusedSimpArgs false
namespace Iauthd.Conf
open Iauthd.Conf.Spec (Val Esc encBody gapAny gapFlat)

/-- the repaired entry parser -/
def FixedParser (V : Variant) : Prop := V.f10 = true ∧ V.f11 = true ∧ V.f12 = true

/-! ### gaps seen by `conf_parse_whitespace(parse, 1)` -/

/-- With `care_eof` a gap is either skipped entirely or the scan returns at its first
    newline (the `k`-th byte), the remainder being an ordinary gap. -/
def CareSplit (W : Bytes) : Prop :=
  GapOK true W ∨ ∃ k, 1 ≤ k ∧ k ≤ W.length ∧ (∀ tail, wsGo true .norm (W ++ tail) = (10, k)) ∧
    W.drop (k - 1) = 10 :: W.drop k ∧ GapOK false (W.drop k)

theorem careSplit_prefix {a b : Bytes} (ha : GapOK true a) (hb : CareSplit b) : CareSplit (a ++ b) := by
  rcases hb with hb | ⟨k, k1, k2, hk, hnl, hr⟩
  · exact .inl (gapOK_append ha hb)
  · have e1 : (a ++ b).drop (a.length + k) = b.drop k := by
      rw [← List.drop_drop]; simp
    have e2 : (a ++ b).drop (a.length + k - 1) = b.drop (k - 1) := by
      have : a.length + k - 1 = a.length + (k - 1) := by omega
      rw [this, ← List.drop_drop]; simp
    refine .inr ⟨a.length + k, by omega, by simp; omega, ?_, ?_, ?_⟩
    · intro tail
      rw [List.append_assoc, ha, hk]; simp [bump]; omega
    · rw [e1, e2]; exact hnl
    · rw [e1]; exact hr

theorem careSplit_nl (x : Bytes) (hx : GapOK false x) : CareSplit (10 :: x) := by
  refine .inr ⟨1, by omega, by simp, ?_, by simp, by simpa using hx⟩
  intro tail
  exact ws_stop_nl _

theorem careSplit_line5 : CareSplit [47, 47, 99, 10] := by
  refine .inr ⟨4, by omega, by simp, ?_, by simp, by simpa using gapOK_nil false⟩
  intro tail
  simp only [List.cons_append, List.nil_append]
  rw [ws_open_line, ws_line_step _ _ _ (by decide)]
  simp [wsGo, bump]

theorem line_stop (T x : Bytes) (h : Spec.lineTextOk T = true) :
    wsGo true .line (T ++ 10 :: x) = (10, T.length + 1) := by
  induction T with
  | nil => simp [wsGo]
  | cons c T' ih =>
    simp only [Spec.lineTextOk, List.all_cons, Bool.and_eq_true, bne_iff_ne, ne_eq] at h
    have h' : Spec.lineTextOk T' = true := by simpa [Spec.lineTextOk] using h.2
    simp only [List.cons_append]
    rw [ws_line_step _ _ _ h.1.2, ih h']
    simp [bump]

theorem careSplit_line (T x : Bytes) (h : Spec.lineTextOk T = true) (hx : GapOK false x) :
    CareSplit ([47, 47] ++ T ++ [10] ++ x) := by
  have e : [47, 47] ++ T ++ [10] ++ x = (47 :: 47 :: T) ++ 10 :: x := by simp
  have hl : (47 :: 47 :: T).length = T.length + 2 := by simp
  refine .inr ⟨T.length + 3, by omega, by simp, ?_, ?_, ?_⟩
  · intro tail
    have : [47, 47] ++ T ++ [10] ++ x ++ tail = 47 :: 47 :: (T ++ 10 :: (x ++ tail)) := by simp
    rw [this, ws_open_line, line_stop T _ h]
    simp [bump]
  · rw [e]
    have h1 : T.length + 3 - 1 = (47 :: 47 :: T).length := by simp
    have h2 : T.length + 3 = (47 :: 47 :: T).length + 1 := by simp
    rw [h1, List.drop_left, h2, ← List.drop_drop, List.drop_left]
    simp
  · rw [e]
    have h2 : T.length + 3 = (47 :: 47 :: T).length + 1 := by simp
    rw [h2, ← List.drop_drop, List.drop_left]
    simpa using hx

theorem renderPieces_care (ps : List Spec.GapPiece) : CareSplit (Spec.renderPieces false ps) := by
  induction ps with
  | nil => exact .inl (gapOK_nil true)
  | cons p ps ih =>
    cases p with
    | ws c => exact careSplit_prefix (gapOK_wsByte true c) ih
    | nl => simpa [Spec.renderPieces, Spec.renderPiece] using careSplit_nl _ (renderPieces_any_ok ps)
    | block B => exact careSplit_prefix (gapOK_blockOpt true B) ih
    | line T =>
      simp only [Spec.renderPieces, Spec.renderPiece, Bool.false_eq_true, if_false]
      by_cases h : Spec.lineTextOk T = true
      · rw [if_pos h]; exact careSplit_line T _ h (renderPieces_any_ok ps)
      · rw [if_neg h]; simpa using careSplit_line [] _ rfl (renderPieces_any_ok ps)

theorem gapAny_care (g : Nat) : CareSplit (gapAny g) := by
  unfold gapAny
  by_cases hg : g < 36
  · rw [if_pos hg, gapTable_lit]
    rcases mod10_cases g with h | h | h | h | h | h | h | h | h | h <;> rw [h] <;> simp only [List.getD_cons_zero, List.getD_cons_succ]
    · exact .inl (gapOK_nil true)
    · exact .inl (gapOK_sp true)
    · exact careSplit_nl [] (gapOK_nil false)
    · exact .inl (gapOK_tab true)
    · exact .inl (gapOK_c4 true)
    · exact careSplit_line5
    · exact .inl (by simpa using gapOK_append (gapOK_sp true) (gapOK_sp true))
    · exact .inl (gapOK_c7 true)
    · exact .inl (by simpa using gapOK_append (gapOK_sp true) (gapOK_append (gapOK_c8core true) (gapOK_sp true)))
    · exact careSplit_nl _ (by simpa using gapOK_append (gapOK_tab false) (gapOK_append gapOK_line9 (gapOK_sp false)))
  · rw [if_neg hg]; exact renderPieces_care _

/-- what `conf_parse_whitespace(parse, 1)` does in front of a closing character -/
theorem wsAt_care (d : Bytes) (pos : Nat) (W : Bytes) (c : UInt8) (t : Bytes) (hW : CareSplit W) (hc : StopCh true c)
    (hd : d.drop pos = W ++ c :: t) :
    (GapOK true W ∧ wsAt true d pos = .ok (c, pos + W.length + 1)) ∨
    (∃ k, 1 ≤ k ∧ k ≤ W.length ∧ wsAt true d pos = .ok (10, pos + k) ∧
      d.drop (pos + k - 1) = 10 :: (W.drop k ++ c :: t) ∧ GapOK false (W.drop k)) := by
  rcases hW with hW | ⟨k, k1, k2, hk, hnl, hr⟩
  · exact .inl ⟨hW, wsAt_gap true d pos W c t hW hc hd⟩
  · refine .inr ⟨k, k1, k2, ?_, ?_, hr⟩
    · have hp : pos ≤ d.length := Nat.le_of_lt (pos_le_of_drop hd (by simp))
      rw [wsAt_eq true d pos hp, hd, hk]
    · have e : pos + k - 1 = pos + (k - 1) := by omega
      rw [e, ← List.drop_drop, hd, List.drop_append_of_le_length (by omega), hnl]
      have : (W ++ c :: t).drop k = W.drop k ++ c :: t := List.drop_append_of_le_length k2
      simp

/-- … and at the end of the input -/
theorem wsAt_care_eof (d : Bytes) (pos : Nat) (W : Bytes) (hW : CareSplit W) (hp : pos ≤ d.length) (hd : d.drop pos = W) :
    (GapOK true W ∧ wsAt true d pos = .ok (0, d.length)) ∨
    (∃ k, 1 ≤ k ∧ k ≤ W.length ∧ wsAt true d pos = .ok (10, pos + k) ∧
      d.drop (pos + k - 1) = 10 :: W.drop k ∧ GapOK false (W.drop k)) := by
  rcases hW with hW | ⟨k, k1, k2, hk, hnl, hr⟩
  · exact .inl ⟨hW, wsAt_gap_eof true d pos W hp hW hd⟩
  · refine .inr ⟨k, k1, k2, ?_, ?_, hr⟩
    · have := hk []
      rw [List.append_nil] at this
      rw [wsAt_eq true d pos hp, hd, this]
    · have e : pos + k - 1 = pos + (k - 1) := by omega
      rw [e, ← List.drop_drop, hd, hnl]


/-! ### the end of an entry that has no terminator -/

/-- what may stand after the last entry: the `}` of the enclosing object, or nothing -/
def IsCloser (cl : Bytes) (isRoot : Bool) : Prop := (∃ rest, cl = 125 :: rest ∧ isRoot = false) ∨ cl = []

/-- result of an entry without terminator: the cursor is left inside the closing gap -/
def OpenEnd (d : Bytes) (base : Nat) (W cl : Bytes) (p : Nat) : Prop :=
  ∃ k, k ≤ W.length ∧ p = base + k ∧ GapOK false (W.drop k) ∧ d.drop p = W.drop k ++ cl

theorem drop_app' {d a b : Bytes} {pos : Nat} (h : d.drop pos = a ++ b) (k : Nat) (hk : k ≤ a.length) :
    d.drop (pos + k) = a.drop k ++ b := by
  rw [← List.drop_drop, h, List.drop_append_of_le_length hk]

theorem entryEnd_open (V : Variant) (hV : FixedParser V) (d : Bytes) (isRoot : Bool) (kids : List PNode) (pos : Nat)
    (W cl : Bytes) (hW : CareSplit W) (hcl : IsCloser cl isRoot) (hp : pos ≤ d.length) (hd : d.drop pos = W ++ cl) :
    ∃ p, entryEnd V d isRoot kids pos = .ok (kids, p) ∧ OpenEnd d pos W cl p := by
  obtain ⟨_, _, h12⟩ := hV
  unfold entryEnd
  rcases hcl with ⟨rest, rfl, hroot⟩ | rfl
  · subst hroot
    rcases wsAt_care d pos W 125 rest hW (.inl ⟨by decide, by decide, by decide⟩) hd with ⟨hok, hw⟩ | ⟨k, k1, k2, hw, hnl, hr⟩
    · rw [hw]
      simp only [bind, Except.bind, h12, Bool.true_and, show ((125 : UInt8) == 0) = false by decide, Bool.false_eq_true,
        if_false, beq_self_eq_true, Bool.not_false, Bool.and_self, if_true]
      rw [unread_ok _ (by omega)]
      refine ⟨pos + W.length, by simp, W.length, Nat.le_refl _, rfl, by simpa using gapOK_nil false, ?_⟩
      have := drop_app' hd W.length (Nat.le_refl _)
      simpa using this
    · rw [hw]
      simp only [bind, Except.bind, h12, Bool.true_and, show ((10 : UInt8) == 0) = false by decide, Bool.false_eq_true,
        if_false, show ((10 : UInt8) == 125) = false by decide, Bool.false_and,
        show ((10 : UInt8) != 59 && (10 : UInt8) != 10) = false by decide]
      exact ⟨pos + k, rfl, k, k2, rfl, hr, drop_app' hd k k2⟩
  · rw [List.append_nil] at hd
    rcases wsAt_care_eof d pos W hW hp hd with ⟨hok, hw⟩ | ⟨k, k1, k2, hw, hnl, hr⟩
    · rw [hw]
      simp only [bind, Except.bind, h12, Bool.true_and, beq_self_eq_true, if_true]
      have hl : W.length = d.length - pos := by rw [← hd]; simp
      refine ⟨d.length, rfl, W.length, Nat.le_refl _, by omega, by simpa using gapOK_nil false, ?_⟩
      simp
    · rw [hw]
      simp only [bind, Except.bind, h12, Bool.true_and, show ((10 : UInt8) == 0) = false by decide, Bool.false_eq_true,
        if_false, show ((10 : UInt8) == 125) = false by decide, Bool.false_and,
        show ((10 : UInt8) != 59 && (10 : UInt8) != 10) = false by decide]
      refine ⟨pos + k, rfl, k, k2, rfl, hr, ?_⟩
      have := drop_app' (b := []) (by simpa using hd) k k2
      simpa using this


theorem careSplit_head {W : Bytes} (hW : CareSplit W) (c : UInt8) (W' : Bytes) (h : W = c :: W') : isToken c = false := by
  rcases hW with hW | ⟨k, k1, k2, hk, _, _⟩
  · exact gapOK_head hW c W' h
  · cases ht : isToken c with
    | false => rfl
    | true =>
      exfalso
      obtain ⟨t1, t2, t3, _, _⟩ := token_stop c ht
      have := hk []
      rw [List.append_nil, h, ws_stop' true c W' t1 t2 t3] at this
      simp at this
      exact t3 this.1

theorem follows_care (b : Bool) (W cl : Bytes) (isRoot : Bool) (hW : CareSplit W) (hcl : IsCloser cl isRoot) :
    Follows b (W ++ cl) := by
  intro _ x hx
  cases W with
  | cons a as => simp at hx; subst hx; exact careSplit_head hW a as rfl
  | nil =>
    simp only [List.nil_append] at hx
    rcases hcl with ⟨rest, rfl, _⟩ | rfl
    · simp at hx; subst hx; decide
    · simp at hx

theorem val_str_open (V : Variant) (hV : FixedParser V) (d : Bytes) (isRoot : Bool) (kids : List PNode) (fuel : Nat)
    (n s r W cl : Bytes) (b : Bool) (p : Nat) (hp : 1 ≤ p) (hs : NoNul s) (hr : RStr s b r) (hW : CareSplit W)
    (hcl : IsCloser cl isRoot) (hd : d.drop (p - 1) = r ++ W ++ cl) :
    ∃ q, entryValue V d isRoot kids fuel (some n) p = .ok (putStr n s kids, q) ∧ OpenEnd d (p - 1 + r.length) W cl q := by
  have h10 := hV.1
  have h12 := hV.2.2
  unfold entryValue
  simp only [nonNull, bind, Except.bind]
  rw [unread_ok p hp]
  simp only
  rw [parseString_at d (p - 1) [] s b r (W ++ cl) (gapOK_nil false) hs hr (follows_care b W cl isRoot hW hcl) (by simpa using hd)]
  simp only [List.length_nil, Nat.add_zero]
  have hd2 : d.drop (p - 1 + r.length) = W ++ cl := by
    have := drop_app (a := r) (b := W ++ cl) (by simpa using hd)
    simpa using this
  -- the newline outcome, common to both closers
  have nlcase : ∀ k, 1 ≤ k → k ≤ W.length → d.drop (p - 1 + r.length + k - 1) = 10 :: (W.drop k ++ cl) →
      GapOK false (W.drop k) →
      ∃ q, entryEnd V d isRoot (putStr n s kids) (p - 1 + r.length + k - 1) = .ok (putStr n s kids, q) ∧
        OpenEnd d (p - 1 + r.length) W cl q := by
    intro k k1 k2 hnl hr'
    have hend := entryEnd_at V d isRoot (putStr n s kids) (p - 1 + r.length + k - 1) [] 10 (W.drop k ++ cl) (gapOK_nil true)
      (.inr rfl) (by simpa using hnl)
    refine ⟨_, hend, k, k2, by simp; omega, hr', ?_⟩
    have : p - 1 + r.length + k - 1 + ([] : Bytes).length + 1 = p - 1 + r.length + k := by simp; omega
    rw [this]; exact drop_app' hd2 k k2
  rcases hcl with ⟨rest, rfl, hroot⟩ | rfl
  · subst hroot
    rcases wsAt_care d _ W 125 rest hW (.inl ⟨by decide, by decide, by decide⟩) hd2 with ⟨_, hw⟩ | ⟨k, k1, k2, hw, hnl, hr'⟩
    · rw [hw]
      simp only [show ((125 : UInt8) == 59) = false by decide, show ((125 : UInt8) == 10) = false by decide,
        beq_self_eq_true, Bool.false_or, Bool.true_or, if_true, show ((125 : UInt8) == 0) = false by decide,
        Bool.false_eq_true, if_false, Bool.not_false, Bool.and_self, h10]
      rw [unread_ok _ (by omega)]
      refine ⟨_, rfl, W.length, Nat.le_refl _, by simp, by simpa using gapOK_nil false, ?_⟩
      have := drop_app' hd2 W.length (Nat.le_refl _)
      simpa using this
    · rw [hw]
      simp only [show ((10 : UInt8) == 59) = false by decide, show ((10 : UInt8) == 10) = true by decide,
        Bool.false_or, Bool.true_or, if_true, show ((10 : UInt8) == 0) = false by decide,
        show ((10 : UInt8) == 125) = false by decide, Bool.false_and, Bool.false_eq_true, if_false]
      rw [unread_ok _ (by omega)]
      exact nlcase k k1 k2 hnl hr'
  · have hp2 : p - 1 + r.length ≤ d.length := by
      have hl := congrArg List.length hd
      simp only [List.length_drop, List.length_append, List.length_nil] at hl
      obtain ⟨c, t, hr', _⟩ := rstr_head hr
      have : 1 ≤ r.length := by rw [hr']; simp
      omega
    rw [List.append_nil] at hd2
    rcases wsAt_care_eof d _ W hW hp2 hd2 with ⟨_, hw⟩ | ⟨k, k1, k2, hw, hnl, hr'⟩
    · rw [hw]
      simp only [h12, Bool.true_and, beq_self_eq_true, Bool.or_true, if_true,
        show ((0 : UInt8) == 125) = false by decide, Bool.false_and, Bool.false_eq_true, if_false]
      unfold entryEnd
      rw [wsAt_end]
      simp only [bind, Except.bind, h12, Bool.true_and, beq_self_eq_true, if_true]
      have hl : W.length = d.length - (p - 1 + r.length) := by rw [← hd2]; simp
      refine ⟨_, rfl, W.length, Nat.le_refl _, by omega, by simpa using gapOK_nil false, ?_⟩
      simp
    · rw [hw]
      simp only [show ((10 : UInt8) == 59) = false by decide, show ((10 : UInt8) == 10) = true by decide,
        Bool.false_or, Bool.true_or, if_true, show ((10 : UInt8) == 0) = false by decide,
        show ((10 : UInt8) == 125) = false by decide, Bool.false_and, Bool.false_eq_true, if_false]
      rw [unread_ok _ (by omega)]
      have := nlcase k k1 k2 (by simpa using hnl) hr'
      simpa using this


theorem val_pair_open (V : Variant) (hV : FixedParser V) (d : Bytes) (isRoot : Bool) (kids : List PNode) (fuel : Nat)
    (n h s rh g rs W cl : Bytes) (bh bs : Bool) (p : Nat) (hp : 1 ≤ p) (hh : NoNul h) (hs : NoNul s)
    (hrh : RStr h bh rh) (hg : GapOK true g) (hfol : Follows bh (g ++ rs)) (hrs : RStr s bs rs) (hW : CareSplit W)
    (hcl : IsCloser cl isRoot) (hd : d.drop (p - 1) = rh ++ g ++ rs ++ W ++ cl) :
    ∃ q, entryValue V d isRoot kids fuel (some n) p = .ok (putInaddr n h (some s) kids, q) ∧
      OpenEnd d (p - 1 + rh.length + g.length + rs.length) W cl q := by
  obtain ⟨c, tl, rfl, hc⟩ := rstr_head hrs
  obtain ⟨st, c0, _, _, _, c125, c59, c10, c44⟩ := strhead_stop true c hc
  unfold entryValue
  simp only [nonNull, bind, Except.bind]
  rw [unread_ok p hp]
  simp only
  have hfol' : Follows bh (g ++ (c :: tl) ++ W ++ cl) := by
    intro hb x hx
    apply hfol hb x
    cases g <;> simpa using hx
  rw [parseString_at d (p - 1) [] h bh rh (g ++ (c :: tl) ++ W ++ cl) (gapOK_nil false) hh hrh hfol' (by simpa using hd)]
  simp only [List.length_nil, Nat.add_zero]
  have hd2 : d.drop (p - 1 + rh.length) = g ++ c :: (tl ++ W ++ cl) := by
    have := drop_app (a := rh) (b := g ++ (c :: tl) ++ W ++ cl) (by simpa using hd)
    simpa using this
  rw [wsAt_gap true d _ g c _ hg st hd2]
  have e59 : (c == 59) = false := by simpa using c59
  have e10 : (c == 10) = false := by simpa using c10
  have e125 : (c == 125) = false := by simpa using c125
  have e0 : (c == 0) = false := by simpa using c0
  have e44 : (c == 44) = false := by simpa using c44
  simp only [e59, e10, e125, e0, e44, Bool.or_false, Bool.and_false, Bool.false_eq_true, if_false]
  rw [unread_ok _ (by omega)]
  simp only [Nat.add_sub_cancel]
  have hd3 : d.drop (p - 1 + rh.length + g.length) = [] ++ (c :: tl) ++ (W ++ cl) := by
    have := drop_app (a := g) (b := c :: (tl ++ W ++ cl)) hd2
    simpa using this
  rw [parseString_at d _ [] s bs (c :: tl) (W ++ cl) (gapOK_nil false) hs hrs (follows_care bs W cl isRoot hW hcl) hd3]
  simp only [List.length_nil, Nat.add_zero]
  have hd4 : d.drop (p - 1 + rh.length + g.length + (c :: tl).length) = W ++ cl := by
    have := drop_app (a := c :: tl) (b := W ++ cl) (by simpa using hd3)
    simpa using this
  have hp4 : p - 1 + rh.length + g.length + (c :: tl).length ≤ d.length := by
    have hl := congrArg List.length hd3
    simp only [List.length_drop, List.length_append, List.length_nil, List.length_cons] at hl
    simp only [List.length_cons]
    omega
  exact entryEnd_open V hV d isRoot _ _ W cl hW hcl hp4 hd4


/-! ### comma lists -/

/-- what follows a value: a terminated end (`pt ++ t :: rest`) or an open one (`W ++ cl`);
    `Q q`: where the cursor may be after `entryEnd` -/
inductive EndForm (d : Bytes) (isRoot : Bool) (base : Nat) : Bytes → (Nat → Prop) → Prop where
  | term (pt : Bytes) (t : UInt8) (rest : Bytes) : GapOK true pt → (t = 59 ∨ t = 10) →
      EndForm d isRoot base (pt ++ t :: rest) (fun q => q = base + pt.length + 1)
  | open (W cl : Bytes) : CareSplit W → IsCloser cl isRoot →
      EndForm d isRoot base (W ++ cl) (OpenEnd d base W cl)

/-- the check at the bottom of `conf_parse_entry` on either form -/
theorem entryEnd_form (V : Variant) (hV : FixedParser V) (d : Bytes) (isRoot : Bool) (kids : List PNode) (base : Nat)
    (E : Bytes) (Q : Nat → Prop) (hE : EndForm d isRoot base E Q) (hb : base ≤ d.length) (hd : d.drop base = E) :
    ∃ q, entryEnd V d isRoot kids base = .ok (kids, q) ∧ Q q := by
  cases hE with
  | term pt t rest hpt ht => exact ⟨_, entryEnd_at V d isRoot kids base pt t rest hpt ht hd, rfl⟩
  | «open» W cl hW hcl => exact entryEnd_open V hV d isRoot kids base W cl hW hcl hb hd

/-- the exit of the comma loop after an item, followed by the check at the bottom of
    `conf_parse_entry`: the list is complete, the cursor ends where the form says -/
theorem comma_exit (V : Variant) (hV : FixedParser V) (d : Bytes) (isRoot : Bool) (base : Nat) (E : Bytes) (Q : Nat → Prop)
    (hE : EndForm d isRoot base E Q) (hb : base ≤ d.length) (hd : d.drop base = E)
    (acc : List Bytes) (K : List Bytes → List PNode) (cont : Nat → Except ParseErr (List Bytes × Nat)) :
    ∃ q, ((do
        let (ch, p) ← wsAt true d base
        if ch == 0 then (if V.f12 then .ok (acc, p) else .error .prematureEof)
        else if ch == 10 || ch == 59 || (V.f12 && ch == 125) then
          (if V.f11 || ch == 125 then do let p ← unread p; .ok (acc, p) else .ok (acc, p))
        else if ch != 44 then .error .expectedComma
        else cont p) >>= fun (r : List Bytes × Nat) => entryEnd V d isRoot (K r.1) r.2) = .ok (K acc, q) ∧ Q q := by
  have hV' := hV
  obtain ⟨h10, h11, h12⟩ := hV
  cases hE with
  | term pt t rest hpt ht =>
    have st : StopCh true t := by
      rcases ht with rfl | rfl
      · exact .inl ⟨by decide, by decide, by decide⟩
      · exact .inr ⟨rfl, rfl⟩
    rw [wsAt_gap true d base pt t rest hpt st hd]
    have hd2 : d.drop (base + pt.length) = [] ++ t :: rest := by
      have := drop_app (a := pt) (b := t :: rest) hd
      simpa using this
    have hend := entryEnd_at V d isRoot (K acc) (base + pt.length) [] t rest (gapOK_nil true) ht hd2
    refine ⟨base + pt.length + 1, ?_, rfl⟩
    rcases ht with rfl | rfl
    · simp only [bind, Except.bind, show ((59 : UInt8) == 0) = false by decide, show ((59 : UInt8) == 10) = false by decide,
        beq_self_eq_true, Bool.false_or, Bool.true_or, Bool.false_eq_true, if_false, if_true, h11]
      rw [unread_ok _ (by omega)]
      simp only [Nat.add_sub_cancel]
      rw [hend]; simp
    · simp only [bind, Except.bind, show ((10 : UInt8) == 0) = false by decide, beq_self_eq_true, Bool.true_or,
        Bool.false_eq_true, if_false, if_true, h11]
      rw [unread_ok _ (by omega)]
      simp only [Nat.add_sub_cancel]
      rw [hend]; simp
  | «open» W cl hW hcl =>
    have nlcase : ∀ k, 1 ≤ k → k ≤ W.length → d.drop (base + k - 1) = 10 :: (W.drop k ++ cl) → GapOK false (W.drop k) →
        ∃ q, entryEnd V d isRoot (K acc) (base + k - 1) = .ok (K acc, q) ∧ OpenEnd d base W cl q := by
      intro k k1 k2 hnl hr'
      have hend := entryEnd_at V d isRoot (K acc) (base + k - 1) [] 10 (W.drop k ++ cl) (gapOK_nil true) (.inr rfl) (by simpa using hnl)
      refine ⟨_, hend, k, k2, by simp; omega, hr', ?_⟩
      have : base + k - 1 + ([] : Bytes).length + 1 = base + k := by simp; omega
      rw [this]; exact drop_app' hd k k2
    rcases hcl with ⟨rest, rfl, hroot⟩ | rfl
    · subst hroot
      rcases wsAt_care d base W 125 rest hW (.inl ⟨by decide, by decide, by decide⟩) hd with ⟨_, hw⟩ | ⟨k, k1, k2, hw, hnl, hr'⟩
      · rw [hw]
        simp only [bind, Except.bind, show ((125 : UInt8) == 0) = false by decide, show ((125 : UInt8) == 10) = false by decide,
          show ((125 : UInt8) == 59) = false by decide, beq_self_eq_true, Bool.false_or, Bool.or_true, Bool.and_true,
          Bool.false_eq_true, if_false, if_true, h12]
        rw [unread_ok _ (by omega)]
        simp only [Nat.add_sub_cancel]
        have hd2 : d.drop (base + W.length) = [] ++ (125 :: rest) := by
          have := drop_app (a := W) (b := 125 :: rest) hd
          simpa using this
        obtain ⟨q, hq, hoq⟩ := entryEnd_open V hV' d false (K acc) (base + W.length) [] (125 :: rest) (.inl (gapOK_nil true))
          (.inl ⟨rest, rfl, rfl⟩) (by have := pos_le_of_drop hd2 (by simp); omega) hd2
        refine ⟨q, hq, ?_⟩
        obtain ⟨k, k2, rfl, _, hdq⟩ := hoq
        simp at k2; subst k2
        refine ⟨W.length, Nat.le_refl _, by simp, by simpa using gapOK_nil false, ?_⟩
        simpa using hdq
      · rw [hw]
        simp only [bind, Except.bind, show ((10 : UInt8) == 0) = false by decide, beq_self_eq_true, Bool.true_or,
          Bool.false_eq_true, if_false, if_true, h11]
        rw [unread_ok _ (by omega)]
        exact nlcase k k1 k2 hnl hr'
    · rw [List.append_nil] at hd
      rcases wsAt_care_eof d base W hW hb hd with ⟨_, hw⟩ | ⟨k, k1, k2, hw, hnl, hr'⟩
      · rw [hw]
        simp only [bind, Except.bind, beq_self_eq_true, if_true, h12]
        unfold entryEnd
        rw [wsAt_end]
        simp only [bind, Except.bind, h12, Bool.true_and, beq_self_eq_true, if_true]
        have hl : W.length = d.length - base := by rw [← hd]; simp
        refine ⟨_, rfl, W.length, Nat.le_refl _, by omega, by simpa using gapOK_nil false, ?_⟩
        simp
      · rw [hw]
        simp only [bind, Except.bind, show ((10 : UInt8) == 0) = false by decide, beq_self_eq_true, Bool.true_or,
          Bool.false_eq_true, if_false, if_true, h11]
        rw [unread_ok _ (by omega)]
        have := nlcase k k1 k2 (by simpa using hnl) hr'
        simpa using this


/-- items of a comma list after the first comma (no trailing gap); flag: the last item is a bareword -/
inductive RCItems : List Bytes → Bytes → Bool → Prop where
  | last (g1 x r : Bytes) (b : Bool) : GapOK true g1 → NoNul x → RStr x b r → RCItems [x] (g1 ++ r) b
  | cons (g1 x r g2 : Bytes) (b : Bool) (xs : List Bytes) (body : Bytes) (bl : Bool) : GapOK true g1 → NoNul x → RStr x b r →
      GapOK true g2 → RCItems xs body bl → RCItems (x :: xs) (g1 ++ r ++ g2 ++ [44] ++ body) bl

theorem endForm_follows (d : Bytes) (isRoot : Bool) (base : Nat) (E : Bytes) (Q : Nat → Prop) (h : EndForm d isRoot base E Q)
    (b : Bool) : Follows b E := by
  cases h with
  | term pt t rest hpt ht => exact follows_gap b pt t rest hpt (term_nontoken t ht)
  | «open» W cl hW hcl => exact follows_care b W cl isRoot hW hcl

theorem comma_at (V : Variant) (hV : FixedParser V) (d : Bytes) (isRoot : Bool) (K : List Bytes → List PNode) :
    ∀ (xs : List Bytes) (body : Bytes) (bl : Bool), RCItems xs body bl →
    ∀ (fuel pos : Nat) (acc : List Bytes) (E : Bytes) (Q : Nat → Prop), d.drop pos = body ++ E →
      EndForm d isRoot (pos + body.length) E Q → d.length - pos < fuel →
      ∃ q, (commaLoop V d fuel pos acc >>= fun (r : List Bytes × Nat) => entryEnd V d isRoot (K r.1) r.2) =
        .ok (K (acc ++ xs), q) ∧ Q q := by
  intro xs body bl hr
  induction hr with
  | last g1 x r b hg1 hx hrs =>
    intro fuel pos acc E Q hd hE hf
    cases fuel with
    | zero => omega
    | succ fuel =>
      obtain ⟨c, t, rfl, hc⟩ := rstr_head hrs
      obtain ⟨st, c0, _, _, _, _, _, c10, _⟩ := strhead_stop true c hc
      have hlen : pos + g1.length + (c :: t).length ≤ d.length := by
        have := congrArg List.length hd
        simp only [List.length_drop, List.length_append, List.length_cons] at this
        simp only [List.length_cons]; omega
      unfold commaLoop
      rw [wsAt_gap true d pos g1 c (t ++ E) hg1 st (by simpa using hd)]
      have e0 : (c == 0) = false := by simpa using c0
      have e10 : (c == 10) = false := by simpa using c10
      simp only [e0, e10, Bool.false_eq_true, if_false, bind, Except.bind]
      rw [unread_ok _ (by omega)]
      simp only [Nat.add_sub_cancel]
      have hd1 : d.drop (pos + g1.length) = [] ++ (c :: t) ++ E := by
        have := drop_app (a := g1) (b := (c :: t) ++ E) (by simpa using hd)
        simpa using this
      rw [parseString_at d _ [] x b (c :: t) E (gapOK_nil false) hx hrs (endForm_follows d isRoot _ E Q hE b) hd1]
      simp only [nonNull, List.length_nil, Nat.add_zero]
      have hd2 : d.drop (pos + g1.length + (c :: t).length) = E := by
        have := drop_app (a := c :: t) (b := E) (by simpa using hd1)
        simpa using this
      have hE' : EndForm d isRoot (pos + g1.length + (c :: t).length) E Q := by
        have : pos + (g1 ++ c :: t).length = pos + g1.length + (c :: t).length := by simp; omega
        rw [← this]; exact hE
      have := comma_exit V hV d isRoot _ E Q hE' hlen hd2 (acc ++ [x]) K (fun p => commaLoop V d fuel p (acc ++ [x]))
      simpa [bind, Except.bind] using this
  | cons g1 x r g2 b xs body bl hg1 hx hrs hg2 hrest ih =>
    intro fuel pos acc E Q hd hE hf
    cases fuel with
    | zero => omega
    | succ fuel =>
      obtain ⟨c, t, rfl, hc⟩ := rstr_head hrs
      obtain ⟨st, c0, _, _, _, _, _, c10, _⟩ := strhead_stop true c hc
      unfold commaLoop
      rw [wsAt_gap true d pos g1 c (t ++ g2 ++ 44 :: (body ++ E)) hg1 st (by simpa using hd)]
      have e0 : (c == 0) = false := by simpa using c0
      have e10 : (c == 10) = false := by simpa using c10
      simp only [e0, e10, Bool.false_eq_true, if_false, bind, Except.bind]
      rw [unread_ok _ (by omega)]
      simp only [Nat.add_sub_cancel]
      have hd1 : d.drop (pos + g1.length) = [] ++ (c :: t) ++ (g2 ++ 44 :: (body ++ E)) := by
        have := drop_app (a := g1) (b := (c :: t) ++ g2 ++ 44 :: (body ++ E)) (by simpa using hd)
        simpa using this
      rw [parseString_at d _ [] x b (c :: t) _ (gapOK_nil false) hx hrs (follows_gap b g2 44 _ hg2 (by decide)) hd1]
      simp only [nonNull, List.length_nil, Nat.add_zero]
      have hd2 : d.drop (pos + g1.length + (c :: t).length) = g2 ++ 44 :: (body ++ E) := by
        have := drop_app (a := c :: t) (b := g2 ++ 44 :: (body ++ E)) (by simpa using hd1)
        simpa using this
      rw [wsAt_gap true d _ g2 44 _ hg2 (.inl ⟨by decide, by decide, by decide⟩) hd2]
      have hd3 : d.drop (pos + g1.length + (c :: t).length + g2.length + 1) = body ++ E := by
        have := drop_app (a := g2 ++ [44]) (b := body ++ E) (by simpa using hd2)
        simpa [Nat.add_assoc] using this
      have hlen : pos + g1.length + (c :: t).length + g2.length + 1 ≤ d.length := by
        have := congrArg List.length hd
        simp only [List.length_drop, List.length_append, List.length_cons, List.length_nil] at this
        simp only [List.length_cons]; omega
      simp only [show ((44 : UInt8) == 0) = false by decide, show ((44 : UInt8) == 10) = false by decide,
        show ((44 : UInt8) == 59) = false by decide, show ((44 : UInt8) == 125) = false by decide,
        show ((44 : UInt8) != 44) = false by decide, Bool.or_false, Bool.and_false, Bool.false_eq_true, if_false]
      have hE' : EndForm d isRoot (pos + g1.length + (c :: t).length + g2.length + 1 + body.length) E Q := by
        have : pos + (g1 ++ c :: t ++ g2 ++ [44] ++ body).length = pos + g1.length + (c :: t).length + g2.length + 1 + body.length := by
          simp; omega
        rw [← this]; exact hE
      obtain ⟨q, hq, hQ⟩ := ih fuel _ (acc ++ [x]) E Q hd3 hE' (by omega)
      refine ⟨q, ?_, hQ⟩
      simpa [bind, Except.bind] using hq


/-! ### values and blocks, general form -/

theorem val_str_form (V : Variant) (hV : FixedParser V) (d : Bytes) (isRoot : Bool) (kids : List PNode) (fuel : Nat)
    (n s r : Bytes) (b : Bool) (p : Nat) (hp : 1 ≤ p) (hs : NoNul s) (hr : RStr s b r)
    (E : Bytes) (Q : Nat → Prop) (hE : EndForm d isRoot (p - 1 + r.length) E Q) (hd : d.drop (p - 1) = r ++ E) :
    ∃ q, entryValue V d isRoot kids fuel (some n) p = .ok (putStr n s kids, q) ∧ Q q := by
  cases hE with
  | term pt t rest hpt ht =>
    exact ⟨_, val_str_at V d isRoot kids fuel n s r pt b t rest p hp hs hr hpt ht (by simpa using hd), rfl⟩
  | «open» W cl hW hcl => exact val_str_open V hV d isRoot kids fuel n s r W cl b p hp hs hr hW hcl (by simpa using hd)

theorem val_pair_form (V : Variant) (hV : FixedParser V) (d : Bytes) (isRoot : Bool) (kids : List PNode) (fuel : Nat)
    (n h s rh g rs : Bytes) (bh bs : Bool) (p : Nat) (hp : 1 ≤ p) (hh : NoNul h) (hs : NoNul s)
    (hrh : RStr h bh rh) (hg : GapOK true g) (hfol : Follows bh (g ++ rs)) (hrs : RStr s bs rs)
    (E : Bytes) (Q : Nat → Prop) (hE : EndForm d isRoot (p - 1 + rh.length + g.length + rs.length) E Q)
    (hd : d.drop (p - 1) = rh ++ g ++ rs ++ E) :
    ∃ q, entryValue V d isRoot kids fuel (some n) p = .ok (putInaddr n h (some s) kids, q) ∧ Q q := by
  cases hE with
  | term pt t rest hpt ht =>
    exact ⟨_, val_pair_at V d isRoot kids fuel n h s rh g rs pt bh bs t rest p hp hh hs hrh hg hfol hrs hpt ht (by simpa using hd), rfl⟩
  | «open» W cl hW hcl =>
    exact val_pair_open V hV d isRoot kids fuel n h s rh g rs W cl bh bs p hp hh hs hrh hg hfol hrs hW hcl (by simpa using hd)

/-- a comma list as the value of an entry -/
theorem val_clist_form (V : Variant) (hV : FixedParser V) (d : Bytes) (isRoot : Bool) (kids : List PNode) (fuel : Nat)
    (n x r g2 : Bytes) (b : Bool) (xs : List Bytes) (body : Bytes) (bl : Bool) (p : Nat) (hp : 1 ≤ p) (hx : NoNul x)
    (hr : RStr x b r) (hg2 : GapOK true g2) (hrc : RCItems xs body bl)
    (E : Bytes) (Q : Nat → Prop) (hE : EndForm d isRoot (p - 1 + r.length + g2.length + 1 + body.length) E Q)
    (hd : d.drop (p - 1) = r ++ g2 ++ [44] ++ body ++ E) (hf : d.length - (p - 1) < fuel) :
    ∃ q, entryValue V d isRoot kids fuel (some n) p = .ok (putList n (x :: xs) kids, q) ∧ Q q := by
  unfold entryValue
  simp only [nonNull, bind, Except.bind]
  rw [unread_ok p hp]
  simp only
  rw [parseString_at d (p - 1) [] x b r (g2 ++ [44] ++ body ++ E) (gapOK_nil false) hx hr
    (by have := follows_gap b g2 44 (body ++ E) hg2 (by decide); simpa using this) (by simpa using hd)]
  simp only [List.length_nil, Nat.add_zero]
  have hd2 : d.drop (p - 1 + r.length) = g2 ++ 44 :: (body ++ E) := by
    have := drop_app (a := r) (b := g2 ++ [44] ++ body ++ E) (by simpa using hd)
    simpa using this
  rw [wsAt_gap true d _ g2 44 _ hg2 (.inl ⟨by decide, by decide, by decide⟩) hd2]
  simp only [show ((44 : UInt8) == 59) = false by decide, show ((44 : UInt8) == 10) = false by decide,
    show ((44 : UInt8) == 125) = false by decide, show ((44 : UInt8) == 0) = false by decide, Bool.or_false, Bool.and_false,
    Bool.false_eq_true, if_false, beq_self_eq_true, if_true]
  have hd3 : d.drop (p - 1 + r.length + g2.length + 1) = body ++ E := by
    have := drop_app (a := g2 ++ [44]) (b := body ++ E) (by simpa using hd2)
    simpa [Nat.add_assoc] using this
  obtain ⟨q, hq, hQ⟩ := comma_at V hV d isRoot (fun items => putList n items kids) xs body bl hrc fuel _ [x] E Q hd3 hE
    (by omega)
  exact ⟨q, by simpa [bind, Except.bind] using hq, hQ⟩

mutual
inductive RVal2 : Val → Bytes → Bool → Prop where
  | str (s r : Bytes) (b : Bool) : NoNul s → RStr s b r → RVal2 (.str s) r b
  | pair (h s rh rs g : Bytes) (bh bs : Bool) : NoNul h → NoNul s → RStr h bh rh → GapOK true g →
      Follows bh (g ++ rs) → RStr s bs rs → RVal2 (.pair h s) (rh ++ g ++ rs) bs
  | list (xs : List Bytes) (body : Bytes) : RItems xs body → RVal2 (.list xs) ([40] ++ body ++ [41]) false
  | clist (x r g2 : Bytes) (b : Bool) (xs : List Bytes) (body : Bytes) (bl : Bool) : NoNul x → RStr x b r → GapOK true g2 →
      RCItems xs body bl → RVal2 (.list (x :: xs)) (r ++ g2 ++ [44] ++ body) bl
  | obj (es : List (Bytes × Val)) (blk : Bytes) : RBlock es blk → RVal2 (.obj es) ([123] ++ blk ++ [125]) false
/-- the entries of an object (or of the file) followed by the closing gap -/
inductive RBlock : List (Bytes × Val) → Bytes → Prop where
  | nil (cg : Bytes) : GapOK false cg → RBlock [] cg
  | term (n : Bytes) (v : Val) (es : List (Bytes × Val)) (pre rn sep rv pt : Bytes) (bn bv : Bool) (t : UInt8) (rest : Bytes) :
      GapOK false pre → NoNul n → RStr n bn rn → GapOK false sep → RVal2 v rv bv → Follows bn (sep ++ rv) →
      GapOK true pt → (t = 59 ∨ t = 10) → RBlock es rest →
      RBlock ((n, v) :: es) (pre ++ rn ++ sep ++ rv ++ pt ++ [t] ++ rest)
  | open (n : Bytes) (v : Val) (pre rn sep rv W : Bytes) (bn bv : Bool) :
      GapOK false pre → NoNul n → RStr n bn rn → GapOK false sep → RVal2 v rv bv → Follows bn (sep ++ rv) →
      CareSplit W → RBlock [(n, v)] (pre ++ rn ++ sep ++ rv ++ W)
end


theorem rval2_head {v : Val} {rv : Bytes} {bv : Bool} (h : RVal2 v rv bv) : ∃ c tl, rv = c :: tl := by
  cases h with
  | str s r b _ hr => obtain ⟨c, t, rfl, _⟩ := rstr_head hr; exact ⟨c, t, rfl⟩
  | pair h s rh rs g bh bs _ _ hr _ _ _ => obtain ⟨c, t, rfl, _⟩ := rstr_head hr; exact ⟨c, _, rfl⟩
  | list xs body _ => exact ⟨40, _, rfl⟩
  | clist x r g2 b xs body bl _ hr _ _ => obtain ⟨c, t, rfl, _⟩ := rstr_head hr; exact ⟨c, _, rfl⟩
  | obj es blk _ => exact ⟨123, _, rfl⟩

mutual
theorem rt2_entry (V : Variant) (hV : FixedParser V) (d : Bytes) : {v : Val} → {rv : Bytes} → {bv : Bool} → (hv : RVal2 v rv bv) →
    ∀ (fuel : Nat) (isRoot : Bool) (kids : List PNode) (pos : Nat) (g0 n rn sep : Bytes) (bn : Bool) (E : Bytes) (Q : Nat → Prop),
    GapOK false g0 → NoNul n → RStr n bn rn → GapOK false sep → Follows bn (sep ++ rv) →
    EndForm d isRoot (pos + g0.length + rn.length + sep.length + rv.length) E Q →
    d.drop pos = g0 ++ rn ++ sep ++ rv ++ E → 2 * (d.length - pos) + 1 ≤ fuel →
    ∃ q, parseEntry V d fuel isRoot kids pos = .ok (padd n v kids, q) ∧ Q q
  | _, _, _, hv, 0, _, _, _, _, _, _, _, _, _, _, _, _, _, _, _, _, _, hf => by omega
  | v, rv, bv, hv, fuel + 1, isRoot, kids, pos, g0, n, rn, sep, bn, E, Q, hg0, hn, hrn, hsep, hfol, hE, hd, hf => by
    obtain ⟨c, tl, hrv⟩ := rval2_head hv
    have hlen : pos + g0.length + rn.length + sep.length + rv.length ≤ d.length := by
      have := congrArg List.length hd
      simp only [List.length_drop, List.length_append] at this
      have h1 : 1 ≤ rv.length := by rw [hrv]; simp
      omega
    have hrn1 : 1 ≤ rn.length := by
      obtain ⟨c', t', e', _⟩ := rstr_head hrn
      rw [e']; simp
    unfold parseEntry
    have hfol' : Follows bn (sep ++ rv ++ E) := by
      have : sep ++ rv ≠ [] := by rw [hrv]; simp
      exact follows_extend bn (sep ++ rv) E this hfol
    rw [parseString_at d pos g0 n bn rn _ hg0 hn hrn hfol' (by simpa using hd)]
    simp only [bind, Except.bind]
    have hd1 : d.drop (pos + g0.length + rn.length) = sep ++ c :: (tl ++ E) := by
      have := drop_app (a := g0 ++ rn) (b := sep ++ rv ++ E) (by simpa using hd)
      rw [hrv] at this
      simpa [Nat.add_assoc] using this
    have hd2 : d.drop (pos + g0.length + rn.length + sep.length + 1 - 1) = rv ++ E := by
      have := drop_app (a := sep) (b := c :: (tl ++ E)) hd1
      rw [hrv]; simpa using this
    match v, rv, bv, hv with
    | _, _, _, .str s r b hs hr =>
      obtain ⟨c', tl', hr', hc'⟩ := rstr_head hr
      have ecc : c = c' := by rw [hr'] at hrv; injection hrv with h1 _; exact h1.symm
      subst ecc
      obtain ⟨st, c0, c40, _, c123, _⟩ := strhead_stop false c hc'
      rw [wsAt_gap false d _ sep c _ hsep st hd1]
      have e0 : (c == 0) = false := by simpa using c0
      have e40 : (c == 40) = false := by simpa using c40
      have e123 : (c == 123) = false := by simpa using c123
      simp only [e0, e40, e123, Bool.false_eq_true, if_false]
      have hE' : EndForm d isRoot (pos + g0.length + rn.length + sep.length + 1 - 1 + r.length) E Q := by
        have : pos + g0.length + rn.length + sep.length + 1 - 1 = pos + g0.length + rn.length + sep.length := by omega
        rw [this]; exact hE
      exact val_str_form V hV d isRoot kids fuel n s r b _ (by omega) hs hr E Q hE' hd2
    | _, _, _, .pair h s rh rs g bh bs hh hs hrh hg hfo hrs =>
      obtain ⟨c', tl', hr', hc'⟩ := rstr_head hrh
      have ecc : c = c' := by rw [hr'] at hrv; simp at hrv; exact hrv.1.symm
      subst ecc
      obtain ⟨st, c0, c40, _, c123, _⟩ := strhead_stop false c hc'
      rw [wsAt_gap false d _ sep c _ hsep st hd1]
      have e0 : (c == 0) = false := by simpa using c0
      have e40 : (c == 40) = false := by simpa using c40
      have e123 : (c == 123) = false := by simpa using c123
      simp only [e0, e40, e123, Bool.false_eq_true, if_false]
      have hE' : EndForm d isRoot (pos + g0.length + rn.length + sep.length + 1 - 1 + rh.length + g.length + rs.length) E Q := by
        have : pos + g0.length + rn.length + sep.length + 1 - 1 + rh.length + g.length + rs.length
             = pos + g0.length + rn.length + sep.length + (rh ++ g ++ rs).length := by simp; omega
        rw [this]; exact hE
      exact val_pair_form V hV d isRoot kids fuel n h s rh g rs bh bs _ (by omega) hh hs hrh hg hfo hrs E Q hE' (by simpa using hd2)
    | _, _, _, .clist x r g2 b xs body bl hx hr hg2 hrc =>
      obtain ⟨c', tl', hr', hc'⟩ := rstr_head hr
      have ecc : c = c' := by rw [hr'] at hrv; simp at hrv; exact hrv.1.symm
      subst ecc
      obtain ⟨st, c0, c40, _, c123, _⟩ := strhead_stop false c hc'
      rw [wsAt_gap false d _ sep c _ hsep st hd1]
      have e0 : (c == 0) = false := by simpa using c0
      have e40 : (c == 40) = false := by simpa using c40
      have e123 : (c == 123) = false := by simpa using c123
      simp only [e0, e40, e123, Bool.false_eq_true, if_false]
      have hE' : EndForm d isRoot (pos + g0.length + rn.length + sep.length + 1 - 1 + r.length + g2.length + 1 + body.length) E Q := by
        have : pos + g0.length + rn.length + sep.length + 1 - 1 + r.length + g2.length + 1 + body.length
             = pos + g0.length + rn.length + sep.length + (r ++ g2 ++ [44] ++ body).length := by simp; omega
        rw [this]; exact hE
      exact val_clist_form V hV d isRoot kids fuel n x r g2 b xs body bl _ (by omega) hx hr hg2 hrc E Q hE'
        (by simpa using hd2) (by simp only [List.length_append, List.length_cons, List.length_nil] at hlen; omega)
    | _, _, _, .list xs body hit =>
      have ecc : c = 40 := by simp at hrv; exact hrv.1.symm
      subst ecc
      rw [wsAt_gap false d _ sep 40 _ hsep (.inl ⟨by decide, by decide, by decide⟩) hd1]
      simp only [show ((40 : UInt8) == 0) = false by decide, beq_self_eq_true, Bool.false_eq_true, if_false, if_true]
      unfold entryParen
      simp only [nonNull, bind, Except.bind]
      have htl : tl = body ++ [41] := by simpa using hrv.symm
      subst htl
      have hd3 : d.drop (pos + g0.length + rn.length + sep.length + 1) = body ++ 41 :: E := by
        have := drop_app (a := sep ++ [40]) (b := body ++ 41 :: E) (by simpa using hd1)
        simpa [Nat.add_assoc] using this
      rw [parenLoop_at d xs body hit fuel _ [] _ hd3 (by simp at hlen ⊢; omega)]
      simp only [List.nil_append]
      have hd4 : d.drop (pos + g0.length + rn.length + sep.length + 1 + body.length + 1) = E := by
        have := drop_app (a := body ++ [41]) (b := E) (by simpa using hd3)
        simpa [Nat.add_assoc] using this
      have hE' : EndForm d isRoot (pos + g0.length + rn.length + sep.length + 1 + body.length + 1) E Q := by
        have : pos + g0.length + rn.length + sep.length + 1 + body.length + 1
             = pos + g0.length + rn.length + sep.length + ([40] ++ body ++ [41]).length := by simp; omega
        rw [this]; exact hE
      obtain ⟨q, hq, hQ⟩ := entryEnd_form V hV d isRoot (putList n xs kids) _ E Q hE' (by simp at hlen ⊢; omega) hd4
      exact ⟨q, by simpa [padd] using hq, hQ⟩
    | _, _, _, .obj es blk hb =>
      have ecc : c = 123 := by simp at hrv; exact hrv.1.symm
      subst ecc
      rw [wsAt_gap false d _ sep 123 _ hsep (.inl ⟨by decide, by decide, by decide⟩) hd1]
      simp only [show ((123 : UInt8) == 0) = false by decide, show ((123 : UInt8) == 40) = false by decide,
        beq_self_eq_true, Bool.false_eq_true, if_false, if_true, nonNull]
      have htl : tl = blk ++ [125] := by simpa using hrv.symm
      subst htl
      have hd3 : d.drop (pos + g0.length + rn.length + sep.length + 1) = blk ++ 125 :: E := by
        have := drop_app (a := sep ++ [123]) (b := blk ++ 125 :: E) (by simpa using hd1)
        simpa [Nat.add_assoc] using this
      rw [rt2_block V hV d hb fuel (kidsOf (pfind n 3 kids)) _ E hd3 (by simp at hlen ⊢; omega)]
      simp only
      have hd4 : d.drop (pos + g0.length + rn.length + sep.length + 1 + blk.length + 1) = E := by
        have := drop_app (a := blk ++ [125]) (b := E) (by simpa using hd3)
        simpa [Nat.add_assoc] using this
      have hE' : EndForm d isRoot (pos + g0.length + rn.length + sep.length + 1 + blk.length + 1) E Q := by
        have : pos + g0.length + rn.length + sep.length + 1 + blk.length + 1
             = pos + g0.length + rn.length + sep.length + ([123] ++ blk ++ [125]).length := by simp; omega
        rw [this]; exact hE
      obtain ⟨q, hq, hQ⟩ := entryEnd_form V hV d isRoot (putObj n (padd.pfoldAux es (kidsOf (pfind n 3 kids))) kids) _ E Q hE'
        (by simp at hlen ⊢; omega) hd4
      exact ⟨q, by simpa [padd] using hq, hQ⟩

theorem rt2_block (V : Variant) (hV : FixedParser V) (d : Bytes) : {es : List (Bytes × Val)} → {blk : Bytes} → (hb : RBlock es blk) →
    ∀ (fuel : Nat) (kids : List PNode) (pos : Nat) (rest : Bytes),
    d.drop pos = blk ++ 125 :: rest → 2 * (d.length - pos) + 2 ≤ fuel →
    objLoop V d fuel kids pos = .ok (padd.pfoldAux es kids, pos + blk.length + 1)
  | _, _, hb, 0, _, _, _, _, hf => by omega
  | _, _, .nil cg hcg, fuel + 1, kids, pos, rest, hd, hf => by
    unfold objLoop
    rw [wsAt_gap false d pos cg 125 rest hcg (.inl ⟨by decide, by decide, by decide⟩) hd]
    simp [bind, Except.bind, padd.pfoldAux]
  | _, _, .term n v es pre rn sep rv pt bn bv t rest' hpre hn hrn hsep hv hfol hpt ht hb', fuel + 1, kids, pos, rest, hd, hf => by
    obtain ⟨c, tl, hrn', hc⟩ := rstr_head hrn
    obtain ⟨st, c0, _, _, _, c125, _⟩ := strhead_stop false c hc
    have hlen : pos + pre.length + rn.length + sep.length + rv.length + pt.length + 1 + rest'.length + 1 ≤ d.length := by
      have := congrArg List.length hd
      simp only [List.length_drop, List.length_append, List.length_cons, List.length_nil] at this
      omega
    have hrnl : 1 ≤ rn.length := by rw [hrn']; simp
    unfold objLoop
    have hd0 : d.drop pos = pre ++ c :: (tl ++ sep ++ rv ++ pt ++ t :: (rest' ++ 125 :: rest)) := by
      rw [hd, hrn']; simp
    rw [wsAt_gap false d pos pre c _ hpre st hd0]
    have e0 : (c == 0) = false := by simpa using c0
    have e125 : (c == 125) = false := by simpa using c125
    simp only [e0, e125, Bool.false_eq_true, if_false, bind, Except.bind]
    rw [unread_ok _ (by omega)]
    simp only [Nat.add_sub_cancel]
    have hd1 : d.drop (pos + pre.length) = [] ++ rn ++ sep ++ rv ++ (pt ++ t :: (rest' ++ 125 :: rest)) := by
      have := drop_app (a := pre) (b := rn ++ sep ++ rv ++ pt ++ t :: (rest' ++ 125 :: rest)) (by simpa using hd)
      simpa using this
    obtain ⟨q, hq, hQ⟩ := rt2_entry V hV d hv fuel false kids (pos + pre.length) [] n rn sep bn _ _ (gapOK_nil false) hn hrn hsep hfol
      (EndForm.term pt t (rest' ++ 125 :: rest) hpt ht) hd1 (by omega)
    rw [hq]
    simp only
    subst hQ
    simp only [List.length_nil, Nat.add_zero]
    have hd2 : d.drop (pos + pre.length + rn.length + sep.length + rv.length + pt.length + 1) = rest' ++ 125 :: rest := by
      have := drop_app (a := rn ++ sep ++ rv ++ pt ++ [t]) (b := rest' ++ 125 :: rest) (by simpa using hd1)
      simpa [Nat.add_assoc] using this
    rw [rt2_block V hV d hb' fuel _ _ rest hd2 (by omega)]
    simp [padd.pfoldAux]; omega
  | _, _, .open n v pre rn sep rv W bn bv hpre hn hrn hsep hv hfol hW, fuel + 1, kids, pos, rest, hd, hf => by
    obtain ⟨c, tl, hrn', hc⟩ := rstr_head hrn
    obtain ⟨st, c0, _, _, _, c125, _⟩ := strhead_stop false c hc
    have hlen : pos + pre.length + rn.length + sep.length + rv.length + W.length + 1 ≤ d.length := by
      have := congrArg List.length hd
      simp only [List.length_drop, List.length_append, List.length_cons, List.length_nil] at this
      omega
    have hrnl : 1 ≤ rn.length := by rw [hrn']; simp
    unfold objLoop
    have hd0 : d.drop pos = pre ++ c :: (tl ++ sep ++ rv ++ W ++ 125 :: rest) := by
      rw [hd, hrn']; simp
    rw [wsAt_gap false d pos pre c _ hpre st hd0]
    have e0 : (c == 0) = false := by simpa using c0
    have e125 : (c == 125) = false := by simpa using c125
    simp only [e0, e125, Bool.false_eq_true, if_false, bind, Except.bind]
    rw [unread_ok _ (by omega)]
    simp only [Nat.add_sub_cancel]
    have hd1 : d.drop (pos + pre.length) = [] ++ rn ++ sep ++ rv ++ (W ++ 125 :: rest) := by
      have := drop_app (a := pre) (b := rn ++ sep ++ rv ++ W ++ 125 :: rest) (by simpa using hd)
      simpa using this
    obtain ⟨q, hq, hQ⟩ := rt2_entry V hV d hv fuel false kids (pos + pre.length) [] n rn sep bn _ _ (gapOK_nil false) hn hrn hsep hfol
      (EndForm.open W (125 :: rest) hW (.inl ⟨rest, rfl, rfl⟩)) hd1 (by omega)
    rw [hq]
    simp only
    obtain ⟨k, k2, rfl, hr, hdq⟩ := hQ
    -- the loop resumes inside the closing gap and finds the `}`
    cases fuel with
    | zero => omega
    | succ fuel =>
      unfold objLoop
      rw [wsAt_gap false d _ (W.drop k) 125 rest hr (.inl ⟨by decide, by decide, by decide⟩) hdq]
      simp only [bind, Except.bind, beq_self_eq_true, if_true, padd.pfoldAux]
      simp only [List.length_nil, Nat.add_zero, List.length_drop, List.length_append]
      congr 2
      omega
end


/-! ### the whole file, general form -/

theorem topLoop_gap_eof (V : Variant) (d : Bytes) (kids : List PNode) (pos : Nat) (g : Bytes) (fuel : Nat)
    (hg : GapOK false g) (hp : pos ≤ d.length) (hd : d.drop pos = g) (hf : 3 ≤ fuel) :
    topLoop V d fuel kids pos = .ok kids := by
  obtain ⟨f1, rfl⟩ : ∃ f1, fuel = f1 + 1 := ⟨fuel - 1, by omega⟩
  unfold topLoop
  have h1 : ¬ pos > d.length := by omega
  simp only [h1, if_false]
  by_cases he : pos = d.length
  · simp [he]
  · have hb : (pos == d.length) = false := by simpa using he
    simp only [hb, Bool.false_eq_true, if_false, bind, Except.bind]
    obtain ⟨f2, rfl⟩ : ∃ f2, f1 = f2 + 1 := ⟨f1 - 1, by omega⟩
    unfold parseEntry
    simp only [bind, Except.bind]
    unfold parseString
    rw [wsAt_gap_eof false d pos g hp hg hd]
    simp only [beq_self_eq_true, if_true]
    rw [wsAt_end]
    simp only [beq_self_eq_true, if_true]
    unfold topLoop
    simp

theorem rt2_top (V : Variant) (hV : FixedParser V) (d : Bytes) : {es : List (Bytes × Val)} → {blk : Bytes} → (hb : RBlock es blk) →
    ∀ (fuel : Nat) (kids : List PNode) (pos : Nat), pos ≤ d.length → d.drop pos = blk → 2 * (d.length - pos) + 4 ≤ fuel →
    topLoop V d fuel kids pos = .ok (padd.pfoldAux es kids)
  | _, _, hb, 0, _, _, _, _, hf => by omega
  | _, _, .nil cg hcg, fuel + 1, kids, pos, hp, hd, hf => by
    simpa [padd.pfoldAux] using topLoop_gap_eof V d kids pos cg (fuel + 1) hcg hp hd (by omega)
  | _, _, .term n v es pre rn sep rv pt bn bv t rest' hpre hn hrn hsep hv hfol hpt ht hb', fuel + 1, kids, pos, hp, hd, hf => by
    have hlen : pos + pre.length + rn.length + sep.length + rv.length + pt.length + 1 + rest'.length = d.length := by
      have := congrArg List.length hd
      simp only [List.length_drop, List.length_append, List.length_cons, List.length_nil] at this
      omega
    obtain ⟨c, tl, hrn', _⟩ := rstr_head hrn
    have hrnl : 1 ≤ rn.length := by rw [hrn']; simp
    unfold topLoop
    have h1 : ¬ pos > d.length := by omega
    have hb : (pos == d.length) = false := by
      have : pos ≠ d.length := by omega
      simpa using this
    simp only [h1, if_false, hb, Bool.false_eq_true, bind, Except.bind]
    have hd1 : d.drop pos = pre ++ rn ++ sep ++ rv ++ (pt ++ t :: rest') := by simpa using hd
    obtain ⟨q, hq, hQ⟩ := rt2_entry V hV d hv fuel true kids pos pre n rn sep bn _ _ hpre hn hrn hsep hfol
      (EndForm.term pt t rest' hpt ht) hd1 (by omega)
    rw [hq]
    simp only
    subst hQ
    have hd2 : d.drop (pos + pre.length + rn.length + sep.length + rv.length + pt.length + 1) = rest' := by
      have := drop_app (a := pre ++ rn ++ sep ++ rv ++ pt ++ [t]) (b := rest') (by simpa using hd1)
      simpa [Nat.add_assoc] using this
    rw [rt2_top V hV d hb' fuel _ _ (by omega) hd2 (by omega)]
    simp [padd.pfoldAux]
  | _, _, .open n v pre rn sep rv W bn bv hpre hn hrn hsep hv hfol hW, fuel + 1, kids, pos, hp, hd, hf => by
    have hlen : pos + pre.length + rn.length + sep.length + rv.length + W.length = d.length := by
      have := congrArg List.length hd
      simp only [List.length_drop, List.length_append, List.length_cons, List.length_nil] at this
      omega
    obtain ⟨c, tl, hrn', _⟩ := rstr_head hrn
    have hrnl : 1 ≤ rn.length := by rw [hrn']; simp
    unfold topLoop
    have h1 : ¬ pos > d.length := by omega
    have hb : (pos == d.length) = false := by
      have : pos ≠ d.length := by omega
      simpa using this
    simp only [h1, if_false, hb, Bool.false_eq_true, bind, Except.bind]
    have hd1 : d.drop pos = pre ++ rn ++ sep ++ rv ++ (W ++ []) := by simpa using hd
    obtain ⟨q, hq, hQ⟩ := rt2_entry V hV d hv fuel true kids pos pre n rn sep bn _ _ hpre hn hrn hsep hfol
      (EndForm.open W [] hW (.inr rfl)) hd1 (by omega)
    rw [hq]
    simp only
    obtain ⟨k, k2, rfl, hr, hdq⟩ := hQ
    rw [topLoop_gap_eof V d _ _ (W.drop k) fuel hr (by omega) (by simpa using hdq) (by omega)]
    simp [padd.pfoldAux]

/-- a text of the general shape (any terminator choice, both list forms) is parsed by the
    repaired parser to the tree the document's entries accumulate to -/
theorem parse_rendered2 (V : Variant) (hV : FixedParser V) (es : List (Bytes × Val)) (blk : Bytes) (hb : RBlock es blk)
    (hnn : NoNul blk) (hne : blk ≠ []) : parseFile V blk = .ok (pfold es []) := by
  unfold parseFile
  have : blk.isEmpty = false := by
    cases h : blk with
    | nil => exact absurd h hne
    | cons _ _ => rfl
  simp only [this, Bool.false_eq_true, if_false, fileData, cstr_noNul _ hnn]
  exact rt2_top V hV blk hb _ [] 0 (by omega) (by simp) (by simp [parseFuel])

end Iauthd.Conf
