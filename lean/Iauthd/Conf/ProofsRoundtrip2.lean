import Iauthd.Conf.ProofsRoundtrip
/-
  C16, structure, second part (repaired parser: F10, F11, F12): the last entry of an
  object or of the file may lack a terminator, lists may be written in comma form.
-/
set_option linter.unusedSimpArgs false
namespace Iauthd.Conf
open Iauthd.Conf.Spec (Val Esc encBody gapAny gapFlat)

/-- the repaired entry parser -/
def FixedParser (V : Variant) : Prop := V.f10 = true ∧ V.f11 = true ∧ V.f12 = true

/-! ### gaps seen by `conf_parse_whitespace(parse, 1)` -/

/-- With `care_eof` a gap is either skipped entirely or the scan returns at its first
    newline (the `k`-th byte), the remainder being an ordinary gap. -/
def CareSplit (W : Bytes) : Prop :=
  GapOK true W ∨ ∃ k, 1 ≤ k ∧ k ≤ W.length ∧ (∀ tail, wsGo true .norm (W ++ tail) = (10, k)) ∧
    W.drop (k - 1) = 10 :: W.drop k ∧ GapOK false (W.drop k)

theorem careSplit_prefix {a b : Bytes} (ha : GapOK true a) (hb : CareSplit b) : CareSplit (a ++ b) := by
  rcases hb with hb | ⟨k, k1, k2, hk, hnl, hr⟩
  · exact .inl (gapOK_append ha hb)
  · have e1 : (a ++ b).drop (a.length + k) = b.drop k := by
      rw [← List.drop_drop]; simp
    have e2 : (a ++ b).drop (a.length + k - 1) = b.drop (k - 1) := by
      have : a.length + k - 1 = a.length + (k - 1) := by omega
      rw [this, ← List.drop_drop]; simp
    refine .inr ⟨a.length + k, by omega, by simp; omega, ?_, ?_, ?_⟩
    · intro tail
      rw [List.append_assoc, ha, hk]; simp [bump]; omega
    · rw [e1, e2]; exact hnl
    · rw [e1]; exact hr

theorem careSplit_nl (x : Bytes) (hx : GapOK false x) : CareSplit (10 :: x) := by
  refine .inr ⟨1, by omega, by simp, ?_, by simp, by simpa using hx⟩
  intro tail
  exact ws_stop_nl _

theorem careSplit_line5 : CareSplit [47, 47, 99, 10] := by
  refine .inr ⟨4, by omega, by simp, ?_, by simp, by simpa using gapOK_nil false⟩
  intro tail
  simp only [List.cons_append, List.nil_append]
  rw [ws_open_line, ws_line_step _ _ _ (by decide)]
  simp [wsGo, bump]

theorem gapAny_care (g : Nat) : CareSplit (gapAny g) := by
  unfold gapAny
  rw [gapTable_lit]
  rcases mod10_cases g with h | h | h | h | h | h | h | h | h | h <;> rw [h] <;> simp only [List.getD_cons_zero, List.getD_cons_succ]
  · exact .inl (gapOK_nil true)
  · exact .inl (gapOK_sp true)
  · exact careSplit_nl [] (gapOK_nil false)
  · exact .inl (gapOK_tab true)
  · exact .inl (gapOK_c4 true)
  · exact careSplit_line5
  · exact .inl (by simpa using gapOK_append (gapOK_sp true) (gapOK_sp true))
  · exact .inl (gapOK_c7 true)
  · exact .inl (by simpa using gapOK_append (gapOK_sp true) (gapOK_append (gapOK_c8core true) (gapOK_sp true)))
  · exact careSplit_nl _ (by simpa using gapOK_append (gapOK_tab false) (gapOK_append gapOK_line9 (gapOK_sp false)))

/-- what `conf_parse_whitespace(parse, 1)` does in front of a closing character -/
theorem wsAt_care (d : Bytes) (pos : Nat) (W : Bytes) (c : UInt8) (t : Bytes) (hW : CareSplit W) (hc : StopCh true c)
    (hd : d.drop pos = W ++ c :: t) :
    (GapOK true W ∧ wsAt true d pos = .ok (c, pos + W.length + 1)) ∨
    (∃ k, 1 ≤ k ∧ k ≤ W.length ∧ wsAt true d pos = .ok (10, pos + k) ∧
      d.drop (pos + k - 1) = 10 :: (W.drop k ++ c :: t) ∧ GapOK false (W.drop k)) := by
  rcases hW with hW | ⟨k, k1, k2, hk, hnl, hr⟩
  · exact .inl ⟨hW, wsAt_gap true d pos W c t hW hc hd⟩
  · refine .inr ⟨k, k1, k2, ?_, ?_, hr⟩
    · have hp : pos ≤ d.length := Nat.le_of_lt (pos_le_of_drop hd (by simp))
      rw [wsAt_eq true d pos hp, hd, hk]
    · have e : pos + k - 1 = pos + (k - 1) := by omega
      rw [e, ← List.drop_drop, hd, List.drop_append_of_le_length (by omega), hnl]
      have : (W ++ c :: t).drop k = W.drop k ++ c :: t := List.drop_append_of_le_length k2
      simp

/-- … and at the end of the input -/
theorem wsAt_care_eof (d : Bytes) (pos : Nat) (W : Bytes) (hW : CareSplit W) (hp : pos ≤ d.length) (hd : d.drop pos = W) :
    (GapOK true W ∧ wsAt true d pos = .ok (0, d.length)) ∨
    (∃ k, 1 ≤ k ∧ k ≤ W.length ∧ wsAt true d pos = .ok (10, pos + k) ∧
      d.drop (pos + k - 1) = 10 :: W.drop k ∧ GapOK false (W.drop k)) := by
  rcases hW with hW | ⟨k, k1, k2, hk, hnl, hr⟩
  · exact .inl ⟨hW, wsAt_gap_eof true d pos W hp hW hd⟩
  · refine .inr ⟨k, k1, k2, ?_, ?_, hr⟩
    · have := hk []
      rw [List.append_nil] at this
      rw [wsAt_eq true d pos hp, hd, this]
    · have e : pos + k - 1 = pos + (k - 1) := by omega
      rw [e, ← List.drop_drop, hd, hnl]


/-! ### the end of an entry that has no terminator -/

/-- what may stand after the last entry: the `}` of the enclosing object, or nothing -/
def IsCloser (cl : Bytes) (isRoot : Bool) : Prop := (∃ rest, cl = 125 :: rest ∧ isRoot = false) ∨ cl = []

/-- result of an entry without terminator: the cursor is left inside the closing gap -/
def OpenEnd (d : Bytes) (base : Nat) (W cl : Bytes) (p : Nat) : Prop :=
  ∃ k, k ≤ W.length ∧ p = base + k ∧ GapOK false (W.drop k) ∧ d.drop p = W.drop k ++ cl

theorem drop_app' {d a b : Bytes} {pos : Nat} (h : d.drop pos = a ++ b) (k : Nat) (hk : k ≤ a.length) :
    d.drop (pos + k) = a.drop k ++ b := by
  rw [← List.drop_drop, h, List.drop_append_of_le_length hk]

theorem entryEnd_open (V : Variant) (hV : FixedParser V) (d : Bytes) (isRoot : Bool) (kids : List PNode) (pos : Nat)
    (W cl : Bytes) (hW : CareSplit W) (hcl : IsCloser cl isRoot) (hp : pos ≤ d.length) (hd : d.drop pos = W ++ cl) :
    ∃ p, entryEnd V d isRoot kids pos = .ok (kids, p) ∧ OpenEnd d pos W cl p := by
  obtain ⟨_, _, h12⟩ := hV
  unfold entryEnd
  rcases hcl with ⟨rest, rfl, hroot⟩ | rfl
  · subst hroot
    rcases wsAt_care d pos W 125 rest hW (.inl ⟨by decide, by decide, by decide⟩) hd with ⟨hok, hw⟩ | ⟨k, k1, k2, hw, hnl, hr⟩
    · rw [hw]
      simp only [bind, Except.bind, h12, Bool.true_and, show ((125 : UInt8) == 0) = false by decide, Bool.false_eq_true,
        if_false, beq_self_eq_true, Bool.not_false, Bool.and_self, if_true]
      rw [unread_ok _ (by omega)]
      refine ⟨pos + W.length, by simp, W.length, Nat.le_refl _, rfl, by simpa using gapOK_nil false, ?_⟩
      have := drop_app' hd W.length (Nat.le_refl _)
      simpa using this
    · rw [hw]
      simp only [bind, Except.bind, h12, Bool.true_and, show ((10 : UInt8) == 0) = false by decide, Bool.false_eq_true,
        if_false, show ((10 : UInt8) == 125) = false by decide, Bool.false_and,
        show ((10 : UInt8) != 59 && (10 : UInt8) != 10) = false by decide]
      exact ⟨pos + k, rfl, k, k2, rfl, hr, drop_app' hd k k2⟩
  · rw [List.append_nil] at hd
    rcases wsAt_care_eof d pos W hW hp hd with ⟨hok, hw⟩ | ⟨k, k1, k2, hw, hnl, hr⟩
    · rw [hw]
      simp only [bind, Except.bind, h12, Bool.true_and, beq_self_eq_true, if_true]
      have hl : W.length = d.length - pos := by rw [← hd]; simp
      refine ⟨d.length, rfl, W.length, Nat.le_refl _, by omega, by simpa using gapOK_nil false, ?_⟩
      simp
    · rw [hw]
      simp only [bind, Except.bind, h12, Bool.true_and, show ((10 : UInt8) == 0) = false by decide, Bool.false_eq_true,
        if_false, show ((10 : UInt8) == 125) = false by decide, Bool.false_and,
        show ((10 : UInt8) != 59 && (10 : UInt8) != 10) = false by decide]
      refine ⟨pos + k, rfl, k, k2, rfl, hr, ?_⟩
      have := drop_app' (b := []) (by simpa using hd) k k2
      simpa using this


theorem careSplit_head {W : Bytes} (hW : CareSplit W) (c : UInt8) (W' : Bytes) (h : W = c :: W') : isToken c = false := by
  rcases hW with hW | ⟨k, k1, k2, hk, _, _⟩
  · exact gapOK_head hW c W' h
  · cases ht : isToken c with
    | false => rfl
    | true =>
      exfalso
      obtain ⟨t1, t2, t3, _, _⟩ := token_stop c ht
      have := hk []
      rw [List.append_nil, h, ws_stop' true c W' t1 t2 t3] at this
      simp at this
      exact t3 this.1

theorem follows_care (b : Bool) (W cl : Bytes) (isRoot : Bool) (hW : CareSplit W) (hcl : IsCloser cl isRoot) :
    Follows b (W ++ cl) := by
  intro _ x hx
  cases W with
  | cons a as => simp at hx; subst hx; exact careSplit_head hW a as rfl
  | nil =>
    simp only [List.nil_append] at hx
    rcases hcl with ⟨rest, rfl, _⟩ | rfl
    · simp at hx; subst hx; decide
    · simp at hx

theorem val_str_open (V : Variant) (hV : FixedParser V) (d : Bytes) (isRoot : Bool) (kids : List PNode) (fuel : Nat)
    (n s r W cl : Bytes) (b : Bool) (p : Nat) (hp : 1 ≤ p) (hs : NoNul s) (hr : RStr s b r) (hW : CareSplit W)
    (hcl : IsCloser cl isRoot) (hd : d.drop (p - 1) = r ++ W ++ cl) :
    ∃ q, entryValue V d isRoot kids fuel (some n) p = .ok (putStr n s kids, q) ∧ OpenEnd d (p - 1 + r.length) W cl q := by
  have h10 := hV.1
  have h12 := hV.2.2
  unfold entryValue
  simp only [nonNull, bind, Except.bind]
  rw [unread_ok p hp]
  simp only
  rw [parseString_at d (p - 1) [] s b r (W ++ cl) (gapOK_nil false) hs hr (follows_care b W cl isRoot hW hcl) (by simpa using hd)]
  simp only [List.length_nil, Nat.add_zero]
  have hd2 : d.drop (p - 1 + r.length) = W ++ cl := by
    have := drop_app (a := r) (b := W ++ cl) (by simpa using hd)
    simpa using this
  -- the newline outcome, common to both closers
  have nlcase : ∀ k, 1 ≤ k → k ≤ W.length → d.drop (p - 1 + r.length + k - 1) = 10 :: (W.drop k ++ cl) →
      GapOK false (W.drop k) →
      ∃ q, entryEnd V d isRoot (putStr n s kids) (p - 1 + r.length + k - 1) = .ok (putStr n s kids, q) ∧
        OpenEnd d (p - 1 + r.length) W cl q := by
    intro k k1 k2 hnl hr'
    have hend := entryEnd_at V d isRoot (putStr n s kids) (p - 1 + r.length + k - 1) [] 10 (W.drop k ++ cl) (gapOK_nil true)
      (.inr rfl) (by simpa using hnl)
    refine ⟨_, hend, k, k2, by simp; omega, hr', ?_⟩
    have : p - 1 + r.length + k - 1 + ([] : Bytes).length + 1 = p - 1 + r.length + k := by simp; omega
    rw [this]; exact drop_app' hd2 k k2
  have e10 : ∀ k, (if ((10 : UInt8) == 59 || (10 : UInt8) == 10 || (10 : UInt8) == 125 || (V.f12 && (10 : UInt8) == 0)) = true then
      (match (if ((10 : UInt8) == 0) = true then Except.ok (p - 1 + r.length + k) else unread (p - 1 + r.length + k)) with
        | .error e => Except.error e
        | .ok p' => if ((10 : UInt8) == 125 && !isRoot) = true then
              (if V.f10 = true then Except.ok (putStr n s kids, p') else
                match unread p' with | .error e => Except.error e | .ok p'' => Except.ok (putStr n s kids, p''))
            else entryEnd V d isRoot (putStr n s kids) p')
      else Except.error ParseErr.prematureEof : Except ParseErr (List PNode × Nat)) =
      (match unread (p - 1 + r.length + k) with
        | .error e => Except.error e
        | .ok p' => entryEnd V d isRoot (putStr n s kids) p') := by
    intro k
    simp only [show ((10 : UInt8) == 59) = false by decide, show ((10 : UInt8) == 10) = true by decide,
      Bool.false_or, Bool.true_or, if_true, show ((10 : UInt8) == 0) = false by decide,
      show ((10 : UInt8) == 125) = false by decide, Bool.false_and, Bool.false_eq_true, if_false]
  rcases hcl with ⟨rest, rfl, hroot⟩ | rfl
  · subst hroot
    rcases wsAt_care d _ W 125 rest hW (.inl ⟨by decide, by decide, by decide⟩) hd2 with ⟨_, hw⟩ | ⟨k, k1, k2, hw, hnl, hr'⟩
    · rw [hw]
      simp only [show ((125 : UInt8) == 59) = false by decide, show ((125 : UInt8) == 10) = false by decide,
        beq_self_eq_true, Bool.false_or, Bool.true_or, if_true, show ((125 : UInt8) == 0) = false by decide,
        Bool.false_eq_true, if_false, Bool.not_false, Bool.and_self, h10]
      rw [unread_ok _ (by omega)]
      refine ⟨_, rfl, W.length, Nat.le_refl _, by simp, by simpa using gapOK_nil false, ?_⟩
      have := drop_app' hd2 W.length (Nat.le_refl _)
      simpa using this
    · rw [hw]
      simp only [show ((10 : UInt8) == 59) = false by decide, show ((10 : UInt8) == 10) = true by decide,
        Bool.false_or, Bool.true_or, if_true, show ((10 : UInt8) == 0) = false by decide,
        show ((10 : UInt8) == 125) = false by decide, Bool.false_and, Bool.false_eq_true, if_false]
      rw [unread_ok _ (by omega)]
      exact nlcase k k1 k2 hnl hr'
  · have hp2 : p - 1 + r.length ≤ d.length := by
      have hl := congrArg List.length hd
      simp only [List.length_drop, List.length_append, List.length_nil] at hl
      obtain ⟨c, t, hr', _⟩ := rstr_head hr
      have : 1 ≤ r.length := by rw [hr']; simp
      omega
    rw [List.append_nil] at hd2
    rcases wsAt_care_eof d _ W hW hp2 hd2 with ⟨_, hw⟩ | ⟨k, k1, k2, hw, hnl, hr'⟩
    · rw [hw]
      simp only [h12, Bool.true_and, beq_self_eq_true, Bool.or_true, if_true,
        show ((0 : UInt8) == 125) = false by decide, Bool.false_and, Bool.false_eq_true, if_false]
      unfold entryEnd
      rw [wsAt_end]
      simp only [bind, Except.bind, h12, Bool.true_and, beq_self_eq_true, if_true]
      have hl : W.length = d.length - (p - 1 + r.length) := by rw [← hd2]; simp
      refine ⟨_, rfl, W.length, Nat.le_refl _, by omega, by simpa using gapOK_nil false, ?_⟩
      simp
    · rw [hw]
      simp only [show ((10 : UInt8) == 59) = false by decide, show ((10 : UInt8) == 10) = true by decide,
        Bool.false_or, Bool.true_or, if_true, show ((10 : UInt8) == 0) = false by decide,
        show ((10 : UInt8) == 125) = false by decide, Bool.false_and, Bool.false_eq_true, if_false]
      rw [unread_ok _ (by omega)]
      have := nlcase k k1 k2 (by simpa using hnl) hr'
      simpa using this

end Iauthd.Conf
