import Iauthd.Conf.Model
/-
  `decide`-checked facts about the *pinned* text of src/config.c (`Variant.pinned`):
  the candidate defects F9–F16 (+F26, F27) are behaviours of the model, and the repaired
  variant does not show them on the same inputs.  (Kernel evaluation: `decide +kernel`,
  no axioms beyond the usual three.)
-/
namespace Iauthd.Conf.Cex
open Iauthd Iauthd.Conf

def s (x : String) : Bytes := x.toUTF8.toList

/-- successive loads; hooks of the last one -/
def loads (V : Variant) (sv : Bool) : State → List Bytes → Except Fault (State × ReadOut)
  | st, [] => .ok (st, ⟨0, [], 0⟩)
  | st, [b] => confRead V sv st b
  | st, b :: bs => match confRead V sv st b with
    | .error f => .error f
    | .ok (st', _) => loads V sv st' bs

def isUAF {α} : Except Fault α → Bool
  | .error (.useAfterFree _) => true
  | _ => false

def rcOf : Except Fault (State × ReadOut) → Int
  | .ok (_, o) => o.rc
  | .error _ => 1

def hooksOf : Except Fault (State × ReadOut) → List HookRec
  | .ok (_, o) => o.hooks
  | .error _ => []

def stateOf : Except Fault (State × ReadOut) → State
  | .ok (st, _) => st
  | .error _ => {}

/-! F9: a host/service pair present in both trees -/

theorem f9_pinned_use_after_free :
    isUAF (loads .pinned false {} [s "a h s\n", s "a h s\n", s "a h s\n"]) = true := by decide +kernel
theorem f9_pinned_dangling_after_second_load :
    isUAF (readNodes (stateOf (loads .pinned false {} [s "a h s\n", s "a h s\n"])).kids
            (stateOf (loads .pinned false {} [s "a h s\n", s "a h s\n"])).heap) = true := by decide +kernel
theorem f9_fixed_ok :
    rcOf (loads .fixed true {} [s "a h s\n", s "a h s\n", s "a h s\n"]) = 0 := by decide +kernel

/-! F10: value directly followed by `}` -/

theorem f10_pinned_bare : rcOf (loads .pinned false {} [s "a{b c}\n"]) = -2 := by decide +kernel
theorem f10_pinned_quoted : rcOf (loads .pinned false {} [s "a{b \"c\"}\n"]) = -1 := by decide +kernel
theorem f10_fixed : rcOf (loads .fixed true {} [s "a{b c}\n"]) = 0 ∧ rcOf (loads .fixed true {} [s "a{b \"c\"}\n"]) = 0 := by
  decide +kernel

/-! F11: comma list followed by a single terminator -/

theorem f11_pinned : rcOf (loads .pinned false {} [s "a b, c\nd e\n"]) = -4 := by decide +kernel
theorem f11_fixed : rcOf (loads .fixed true {} [s "a b, c\nd e\n"]) = 0 := by decide +kernel

/-! F12: last entry of an object / of the file without terminator -/

theorem f12_pinned_list_before_brace : rcOf (loads .pinned false {} [s "a { b (c) }\n"]) = -4 := by decide +kernel
theorem f12_pinned_object_before_brace : rcOf (loads .pinned false {} [s "a { b { } }\n"]) = -4 := by decide +kernel
theorem f12_pinned_string_at_eof : rcOf (loads .pinned false {} [s "a b"]) = -4 := by decide +kernel
theorem f12_pinned_comma_list_at_eof : rcOf (loads .pinned false {} [s "a b, c"]) = -1 := by decide +kernel
theorem f12_fixed :
    rcOf (loads .fixed true {} [s "a { b (c) }\n"]) = 0 ∧ rcOf (loads .fixed true {} [s "a { b { } }\n"]) = 0 ∧
    rcOf (loads .fixed true {} [s "a b"]) = 0 ∧ rcOf (loads .fixed true {} [s "a b, c"]) = 0 := by decide +kernel

/-! F13: string with NULL default losing its file value -/

def regA (V : Variant) (sv : Bool) (rk : RegKind) (hook : Bool) (st : State) : State :=
  match confRegister V sv st [s "a"] rk hook with
  | .ok (st', _) => st'
  | .error _ => st

theorem f13_pinned_no_hook :
    hooksOf (loads .pinned false (regA .pinned false (.str .plain none) true {}) [s "a x\n", s "b y\n"]) = [] := by
  decide +kernel
theorem f13_fixed_hook :
    hooksOf (loads .fixed true (regA .fixed true (.str .plain none) true {}) [s "a x\n", s "b y\n"]) = [⟨0, [s "a"]⟩] := by
  decide +kernel

/-! F14: first reload of identical content notifies a file-created string that got a hook -/

def hookA (st : State) : State := match setHook [s "a"] 0 st.kids with | some k => { st with kids := k } | none => st

theorem f14_pinned_spurious_hook :
    hooksOf (loads .pinned false (hookA (stateOf (loads .pinned false {} [s "a x\n"]))) [s "a x\n"]) = [⟨0, [s "a"]⟩] := by
  decide +kernel
theorem f14_fixed_no_hook :
    hooksOf (loads .fixed true (hookA (stateOf (loads .fixed true {} [s "a x\n"]))) [s "a x\n"]) = [] := by
  decide +kernel

/-! F15: `a ()` then registration with a default -/

def listValue (st : State) : Option (List Bytes) :=
  match nfind (s "a") 2 st.kids with | some (.list _ v _ _) => some v | _ => none

theorem f15_pinned_default_installed :
    listValue (regA .pinned false (.list [s "q"]) false (stateOf (loads .pinned false {} [s "a ()\n"]))) = some [s "q"] := by
  decide +kernel
theorem f15_pinned_other_order :
    listValue (stateOf (loads .pinned false (regA .pinned false (.list [s "q"]) false {}) [s "a ()\n"])) = some [] := by
  decide +kernel
theorem f15_fixed :
    listValue (regA .fixed true (.list [s "q"]) false (stateOf (loads .fixed true {} [s "a ()\n"]))) = some [] := by
  decide +kernel

/-! F16: inaddr registration does not install the defaults -/

def hostValue (st : State) : Option (Option Bytes) :=
  match nfind (s "a") 1 st.kids with | some (.inaddr _ h _ _ _) => some (h.map (·.val)) | _ => none

theorem f16_pinned_null_host :
    hostValue (regA .pinned false (.inaddr (some (s "dh")) (some (s "ds"))) false {}) = some none := by decide +kernel
theorem f16_fixed_default_host :
    hostValue (regA .fixed true (.inaddr (some (s "dh")) (some (s "ds"))) false {}) = some (some (s "dh")) := by decide +kernel

/-! F26: `conf_parse_volume` accepts anything -/

theorem f26_pinned : parseVolume false (s "12q") = (12, true) := by decide +kernel
theorem f26_fixed : (parseVolume true (s "12q")).2 = false := by decide +kernel

/-! F27: a typed registration inherits a cached string pointer as its "number" -/

def parsedA (st : State) : Option Parsed :=
  match nfind (s "a") 0 st.kids with | some (.str _ _ _ _ p) => some p | _ => none

theorem f27_pinned_pointer_bits :
    parsedA (regA .pinned false (.str .integer (some (s "0"))) false (stateOf (loads .pinned false {} [s "a x\n", s "a x\n"])))
      = some (.ptr (s "x")) := by decide +kernel
theorem f27_fixed_zero :
    parsedA (regA .fixed true (.str .integer (some (s "0"))) false (stateOf (loads .fixed true {} [s "a x\n", s "a x\n"])))
      = some .zero := by decide +kernel

end Iauthd.Conf.Cex
