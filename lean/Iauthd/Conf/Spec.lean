import Iauthd.Util.Bytes
/-
  Conf engine: the properties' own reading (C14, C15, C16), independent of the model.

    * `Doc`, `canonTree`      what a configuration text *means* (C16)
    * `Layout`, `render`      the documented ways of writing a `Doc` down (C16)
    * `Reg`, `canonView`      what the live tree must look like after a successful
                              load: file value or registered default (C15)
    * `specTyped`             what a typed value denotes / when it must be rejected (C16)
    * `Judge`                 the three properties evaluated on an observed trace

  Nothing here mentions cursors, scratch trees, hooks' call sites or caches.
-/
namespace Iauthd.Conf.Spec
open Iauthd

/-! ## Documents -/

inductive Val where
  | str (s : Bytes)
  | pair (host service : Bytes)
  | list (items : List Bytes)
  | obj (entries : List (Bytes × Val))
  deriving Repr, Inhabited

abbrev Entry := Bytes × Val
abbrev Doc := List Entry

/-- canonical tree: one node per (case-insensitive name, kind), in key order -/
inductive CNode where
  | str (name : Bytes) (v : Bytes)
  | pair (name : Bytes) (host service : Bytes)
  | list (name : Bytes) (items : List Bytes)
  | obj (name : Bytes) (kids : List CNode)
  deriving Repr, Inhabited, BEq

def CNode.name : CNode → Bytes
  | .str n _ | .pair n _ _ | .list n _ | .obj n _ => n
def CNode.kind : CNode → Nat
  | .str .. => 0 | .pair .. => 1 | .list .. => 2 | .obj .. => 3

/-- order of keys: names case-insensitively (byte order of the lower-cased names), then kind -/
def keyLt (n1 : Bytes) (k1 : Nat) (n2 : Bytes) (k2 : Nat) : Bool :=
  let c := Bytes.strcasecmp n1 n2
  c < 0 || (c == 0 && k1 < k2)
def keyEq (n1 : Bytes) (k1 : Nat) (n2 : Bytes) (k2 : Nat) : Bool :=
  Bytes.strcasecmp n1 n2 == 0 && k1 == k2

def Val.kind : Val → Nat
  | .str _ => 0 | .pair .. => 1 | .list _ => 2 | .obj _ => 3

def kidsAt (name : Bytes) : List CNode → List CNode
  | [] => []
  | c :: cs => if keyEq name 3 c.name c.kind then (match c with | .obj _ ks => ks | _ => []) else kidsAt name cs

/-- put `node` at its place; an existing node with the same key is overwritten but
    keeps the spelling of its name (the first one written) -/
def place (node : CNode) : List CNode → List CNode
  | [] => [node]
  | c :: cs =>
    if keyEq node.name node.kind c.name c.kind then
      (match node with
       | .str _ v => .str c.name v
       | .pair _ h s => .pair c.name h s
       | .list _ xs => .list c.name xs
       | .obj _ ks => .obj c.name ks) :: cs
    else if keyLt node.name node.kind c.name c.kind then node :: c :: cs
    else c :: place node cs

mutual
/-- later duplicates override earlier ones; repeated objects merge -/
def canonAdd : Bytes → Val → List CNode → List CNode
  | n, .str s, t => place (.str n s) t
  | n, .pair h s, t => place (.pair n h s) t
  | n, .list xs, t => place (.list n xs) t
  | n, .obj es, t => place (.obj n (canonFold es (kidsAt n t))) t
def canonFold : List (Bytes × Val) → List CNode → List CNode
  | [], t => t
  | (n, v) :: es, t => canonFold es (canonAdd n v t)
end

def canonTree (d : Doc) : List CNode := canonFold d []

/-! ## Layouts -/

/-- how one byte of a quoted string is written -/
inductive Esc where
  | raw      -- the byte itself
  | named    -- \a \b \f \n \r \t \v
  | hex      -- \xhh
  | hexU     -- \xHH
  | bsl      -- backslash + the byte
  deriving Repr, DecidableEq, Inhabited

structure StrLay where
  bare : Bool := true
  escs : List Esc := []
  deriving Repr, Inhabited

inductive Term where
  | semi | nl | both | none
  deriving Repr, DecidableEq, Inhabited

abbrev Gap := Nat

inductive ValLay where
  | str (l : StrLay)
  | pair (h : StrLay) (g : Gap) (s : StrLay)
  | list (paren : Bool) (openGap : Gap) (items : List (StrLay × Gap × Gap)) (closeGap : Gap)
  | obj (openGap : Gap) (entries : List (Gap × StrLay × Gap × ValLay × Gap × Term)) (closeGap : Gap)
  deriving Repr, Inhabited

/-- (gap before the name, name, gap after the name, value, gap before the terminator, terminator) -/
abbrev EntLay := Gap × StrLay × Gap × ValLay × Gap × Term

structure Layout where
  entries : List EntLay := []
  post : Gap := 0
  deriving Repr, Inhabited

def bs (s : String) : Bytes := s.toUTF8.toList

def isTokenByte (c : UInt8) : Bool :=
  (48 ≤ c.toNat && c.toNat ≤ 57) || (65 ≤ c.toNat && c.toNat ≤ 90) || (97 ≤ c.toNat && c.toNat ≤ 122) ||
  c == 45 || c == 46 || c == 95 || c == 35

def hexDigitL (n : Nat) : UInt8 := UInt8.ofNat (if n < 10 then 48 + n else 87 + n)
def hexDigitU (n : Nat) : UInt8 := UInt8.ofNat (if n < 10 then 48 + n else 55 + n)

def namedEsc (b : UInt8) : Option UInt8 :=
  if b == 7 then some 97 else if b == 8 then some 98 else if b == 12 then some 102
  else if b == 10 then some 110 else if b == 13 then some 114 else if b == 9 then some 116
  else if b == 11 then some 118 else none

/-- backslash + byte means the byte itself unless the byte is one of `abfnrtvx` -/
def bslOk (b : UInt8) : Bool :=
  !(b == 97 || b == 98 || b == 102 || b == 110 || b == 114 || b == 116 || b == 118 || b == 120 || b == 0)

def hexEsc (upper : Bool) (b : UInt8) : Bytes :=
  let d := if upper then hexDigitU else hexDigitL
  [92, 120, d (b.toNat / 16), d (b.toNat % 16)]

/-- one byte inside quotes; a choice that is not available for this byte falls back to `\xhh` -/
def encByte (e : Esc) (b : UInt8) : Bytes :=
  match e with
  | .raw => if b == 34 || b == 92 || b == 0 then hexEsc false b else [b]
  | .named => match namedEsc b with | some c => [92, c] | none => hexEsc false b
  | .hex => hexEsc false b
  | .hexU => hexEsc true b
  | .bsl => if bslOk b then [92, b] else hexEsc false b

def encBody : List Esc → Bytes → Bytes
  | _, [] => []
  | [], b :: rest => encByte .raw b ++ encBody [] rest
  | e :: es, b :: rest => encByte e b ++ encBody es rest

def canBare (s : Bytes) : Bool := !s.isEmpty && s.all isTokenByte

def renderStr (l : StrLay) (s : Bytes) : Bytes :=
  if l.bare && canBare s then s else [34] ++ encBody l.escs s ++ [34]

def gapTable : List Bytes :=
  [bs "", bs " ", bs "\n", bs "\t", bs "/*c*/", bs "//c\n", bs "  ", bs "/**/", bs " /* a*b / * */ ", bs "\n\t// x\n "]

/-- newline-free replacement of each table entry -/
def gapTableFlat : List Bytes :=
  [bs "", bs " ", bs " ", bs "\t", bs "/*c*/", bs "/*c*/", bs "  ", bs "/**/", bs " /* a*b / * */ ", bs "\t/* x */ "]

/-! #### arbitrary gaps

  Gap numbers below 36 index the two tables above (one tape character per gap).  Every larger
  number denotes a gap of the *general* grammar: any sequence of blank bytes, newlines, C comments
  with any body that does not contain the closing pair, and C++ comments with any text up to the
  newline (`decodeGap` is onto the piece lists; the byte string is the number's base-256
  expansion under a sentinel digit).  In a newline-free ("flat") position a newline is rendered as
  a blank and a C++ comment as a C comment. -/

inductive GapPiece where
  | ws (c : UInt8)
  | nl
  | block (body : Bytes)
  | line (text : Bytes)
  deriving Repr, Inhabited

/-- NUL-free and without the pair `*/` -/
def blockBodyOk : Bytes → Bool
  | [] => true
  | [c] => c != 0
  | c :: d :: r => c != 0 && !(c == 42 && d == 47) && blockBodyOk (d :: r)

def lineTextOk (t : Bytes) : Bool := t.all fun c => c != 0 && c != 10

/-- the C-locale blanks other than newline -/
def wsByteOk (c : UInt8) : Bool := c == 32 || c == 9 || c == 11 || c == 12 || c == 13

def renderPiece (flat : Bool) : GapPiece → Bytes
  | .ws c => [if wsByteOk c then c else 32]
  | .nl => if flat then [32] else [10]
  | .block body => [47, 42] ++ (if blockBodyOk body then body else []) ++ [42, 47]
  | .line t =>
    if flat then [47, 42] ++ (if blockBodyOk t then t else []) ++ [42, 47]
    else [47, 47] ++ (if lineTextOk t then t else []) ++ [10]

def renderPieces (flat : Bool) : List GapPiece → Bytes
  | [] => []
  | p :: ps => renderPiece flat p ++ renderPieces flat ps

def natBytes (n : Nat) : Bytes :=
  if h : n = 0 then [] else UInt8.ofNat (n % 256) :: natBytes (n / 256)
termination_by n
decreasing_by omega

/-- little-endian base-256 value -/
def bytesNat : Bytes → Nat
  | [] => 0
  | c :: r => c.toNat + 256 * bytesNat r

/-- wire form of a piece list: tag byte 0 + the blank byte, tag 1 (newline), tag 2 / 3 + the
    comment body / text + a NUL (a body with a NUL is not a comment anyway) -/
def encodePieces : List GapPiece → Bytes
  | [] => []
  | .ws c :: ps => 0 :: c :: encodePieces ps
  | .nl :: ps => 1 :: encodePieces ps
  | .block b :: ps => 2 :: (b ++ 0 :: encodePieces ps)
  | .line t :: ps => 3 :: (t ++ 0 :: encodePieces ps)

def decodePieces : Nat → Bytes → List GapPiece
  | 0, _ => []
  | _, [] => []
  | f + 1, t :: rest =>
    match t.toNat % 4 with
    | 0 => (match rest with
            | [] => [.ws 32]
            | c :: r => .ws c :: decodePieces f r)
    | 1 => .nl :: decodePieces f rest
    | 2 => .block (rest.takeWhile (· != 0)) :: decodePieces f ((rest.dropWhile (· != 0)).drop 1)
    | _ => .line (rest.takeWhile (· != 0)) :: decodePieces f ((rest.dropWhile (· != 0)).drop 1)

def decodeGap (n : Nat) : List GapPiece :=
  let d := (natBytes n).dropLast
  decodePieces d.length d

/-- the gap number of a piece list -/
def gapOfPieces (ps : List GapPiece) : Nat := 36 + bytesNat (encodePieces ps ++ [1])

def gapAny (g : Gap) : Bytes :=
  if g < 36 then gapTable.getD (g % 10) [] else renderPieces false (decodeGap (g - 36))
def gapFlat (g : Gap) : Bytes :=
  if g < 36 then gapTableFlat.getD (g % 10) [] else renderPieces true (decodeGap (g - 36))

def lastByte : Bytes → Option UInt8
  | [] => none
  | [b] => some b
  | _ :: rest => lastByte rest

/-- a gap between `left` and `right`: two barewords may not touch -/
def joinGap (left gap right : Bytes) : Bytes :=
  let touching := gap.isEmpty &&
    (match lastByte left, right.head? with
     | some a, some b => isTokenByte a && isTokenByte b
     | _, _ => false)
  left ++ (if touching then [32] else gap) ++ right

def renderTerm : Term → Bytes
  | .semi => [59] | .nl => [10] | .both => [59, 10] | .none => []

/-- comma-separated items; `flat` = gaps may not contain a newline -/
def renderItems (flat : Bool) : List Bytes → List (StrLay × Gap × Gap) → Bytes
  | [], _ => []
  | [x], l :: _ => (if flat then gapFlat l.2.1 else gapAny l.2.1) ++ renderStr l.1 x ++ (if flat then gapFlat l.2.2 else gapAny l.2.2)
  | [x], [] => renderStr {} x
  | x :: y :: rest, l :: ls =>
    (if flat then gapFlat l.2.1 else gapAny l.2.1) ++ renderStr l.1 x ++ (if flat then gapFlat l.2.2 else gapAny l.2.2) ++
    [44] ++ renderItems flat (y :: rest) ls
  | x :: y :: rest, [] => renderStr {} x ++ [44] ++ renderItems flat (y :: rest) []

mutual
def renderVal : Val → ValLay → Bytes
  | .str s, .str l => renderStr l s
  | .str s, _ => renderStr {} s
  | .pair h s, .pair lh g ls => joinGap (renderStr lh h) (gapFlat g) (renderStr ls s)
  | .pair h s, _ => joinGap (renderStr {} h) [] (renderStr {} s)
  | .list xs, .list paren og items cg =>
    if paren || xs.length < 2 then [40] ++ gapAny og ++ renderItems false xs items ++ gapAny cg ++ [41]
    else renderItems true xs items
  | .list xs, _ => [40] ++ renderItems false xs [] ++ [41]
  | .obj es, .obj og ls cg => [123] ++ gapAny og ++ renderEntries true es ls ++ gapAny cg ++ [125]
  | .obj es, _ => [123] ++ renderEntries true es [] ++ [125]

/-- `last = true`: a missing terminator is allowed after the final entry -/
def renderEntries (lastOk : Bool) : List (Bytes × Val) → List EntLay → Bytes
  | [], _ => []
  | (n, v) :: es, [] =>
    joinGap (renderStr {} n) [] (renderVal v (.str {})) ++ [59] ++ renderEntries lastOk es []
  | (n, v) :: es, (pre, ln, sep, lv, pt, term) :: ls =>
    let term := if term == .none && !(lastOk && es.isEmpty) then Term.semi else term
    -- a comma list runs to the end of the line: before `;` a flat gap, and a bare
    -- string followed by a gap-less terminator needs nothing special
    gapAny pre ++ joinGap (renderStr ln n) (gapAny sep) (renderVal v lv) ++ gapFlat pt ++ renderTerm term ++
      renderEntries lastOk es ls
end

def render (d : Doc) (l : Layout) : Bytes :=
  let r := renderEntries true d l.entries ++ gapAny l.post
  if r.isEmpty then [10] else r

/-! ## Typed values -/

inductive TExp where
  | any                 -- the property does not say
  | reject              -- must be refused (previous value stays)
  | value (n : Nat)     -- must deliver `n`
  deriving Repr, DecidableEq, Inhabited

def isDigitB (c : UInt8) : Bool := 48 ≤ c.toNat && c.toNat ≤ 57

def digitsVal : Bytes → Nat → Nat
  | [], acc => acc
  | c :: cs, acc => digitsVal cs (acc * 10 + (c.toNat - 48))

def specBoolean (v : Bytes) : TExp :=
  if [bs "1", bs "true", bs "on", bs "enabled", bs "yes"].contains v then .value 1
  else if [bs "0", bs "false", bs "off", bs "disabled", bs "no"].contains v then .value 0
  else .reject

def hexVal1 (c : UInt8) : Option Nat :=
  if 48 ≤ c.toNat && c.toNat ≤ 57 then some (c.toNat - 48)
  else if 97 ≤ c.toNat && c.toNat ≤ 102 then some (c.toNat - 87)
  else if 65 ≤ c.toNat && c.toNat ≤ 70 then some (c.toNat - 55)
  else none

def baseVal (base : Nat) : Bytes → Nat → Option Nat
  | [], acc => some acc
  | c :: cs, acc =>
    match hexVal1 c with
    | some x => if x < base then baseVal base cs (acc * base + x) else none
    | none => none

/-- decimal, `0x` hexadecimal, `0` octal, below 2^31 -/
def specInteger (v : Bytes) : TExp :=
  let inRange (o : Option Nat) : TExp := match o with
    | some n => if n < 2147483648 then .value n else .any
    | none => .any
  if (v.any fun c => !((hexVal1 c).isSome || c == 120 || c == 88 || c == 43 || c == 45 || Bytes.isSpace c)) ||
     (!v.isEmpty && !v.any isDigitB) then .reject
  else match v with
    | [48] => .value 0
    | 48 :: 120 :: h :: rest => inRange (baseVal 16 (h :: rest) 0)
    | 48 :: 88 :: h :: rest => inRange (baseVal 16 (h :: rest) 0)
    | 48 :: o :: rest => inRange (baseVal 8 (o :: rest) 0)
    | c :: rest => if 49 ≤ c.toNat && c.toNat ≤ 57 then inRange (baseVal 10 (c :: rest) 0) else .any
    | [] => .any

/-- split `digits unit digits unit … [digits]` into components -/
def components (isUnit : UInt8 → Bool) : Bytes → Bytes → List (Nat × Option UInt8) → Option (List (Nat × Option UInt8))
  | [], [], acc => some acc
  | [], cur, acc => some (acc ++ [(digitsVal cur 0, none)])
  | c :: cs, cur, acc =>
    if isDigitB c then components isUnit cs (cur ++ [c]) acc
    else if isUnit c && !cur.isEmpty then components isUnit cs [] (acc ++ [(digitsVal cur 0, some c)])
    else none

/-- split at every `sep` -/
def splitAt (sep : UInt8) : Bytes → Bytes → List Bytes
  | [], cur => [cur]
  | c :: cs, cur => if c == sep then cur :: splitAt sep cs [] else splitAt sep cs (cur ++ [c])

def sumBelow (lim : Nat) (xs : List Nat) : TExp :=
  let s := xs.foldl (· + ·) 0
  if xs.all (· < lim) && s < lim then .value s else .any

def intervalUnit (c : UInt8) : Option Nat :=
  if c == 121 then some 31536000 else if c == 100 then some 86400 else if c == 104 then some 3600
  else if c == 109 then some 60 else if c == 115 then some 1 else none

/-- unit components `<n>y <n>d <n>h <n>m <n>s`, a final bare number of seconds, or a final
    `H:M:S`; below 2^32 -/
def specInterval (v : Bytes) : TExp :=
  if v.any fun c => !(isDigitB c || (intervalUnit c).isSome || c == 58) then .reject
  else
    -- split off a trailing H:M:S
    let parts := splitAt 58 v []
    match parts with
    | [single] =>
      match components (fun c => (intervalUnit c).isSome) single [] [] with
      | some cs => if cs.isEmpty then .any else
          sumBelow 4294967296 (cs.map fun (n, u) => n * (match u with | some c => (intervalUnit c).getD 1 | none => 1))
      | none => .any
    | [pre, m, s] =>
      if m.isEmpty || s.isEmpty || !m.all isDigitB || !s.all isDigitB then .any else
      match components (fun c => (intervalUnit c).isSome) pre [] [] with
      | some cs =>
        match cs.reverse with
        | (h, none) :: restRev =>
          sumBelow 4294967296 ((restRev.map fun (n, u) => n * (match u with | some c => (intervalUnit c).getD 1 | none => 1)) ++
            [h * 3600, digitsVal m 0 * 60, digitsVal s 0])
        | _ => .any
      | none => .any
    | _ => .any

def volumeUnit (c : UInt8) : Option Nat :=
  if c == 66 || c == 98 then some 1 else if c == 75 || c == 107 then some 1024
  else if c == 77 || c == 109 then some 1048576 else if c == 71 || c == 103 then some 1073741824 else none

/-- unit components `<n>G <n>M <n>K <n>B` (either case) and a final bare number of bytes; below 2^32 -/
def specVolume (v : Bytes) : TExp :=
  if v.any fun c => !(isDigitB c || (volumeUnit c).isSome) then .reject
  else match components (fun c => (volumeUnit c).isSome) v [] [] with
    | some cs => if cs.isEmpty then .any else
        sumBelow 4294967296 (cs.map fun (n, u) => n * (match u with | some c => (volumeUnit c).getD 1 | none => 1))
    | none => .any

/-- subtype codes of `enum conf_node_string_subtype` -/
def specTyped (sub : Nat) (v : Bytes) : TExp :=
  match sub with
  | 1 => specBoolean v
  | 2 => specInteger v
  | 4 => specInterval v
  | 5 => specVolume v
  | _ => .any

/-! ## Registrations and the canonical view -/

inductive RegKind where
  | str (sub : Nat) (dflt : Option Bytes)
  | pair (dhost dservice : Option Bytes)
  | list (dflt : List Bytes)
  | obj
  deriving Repr, Inhabited

def RegKind.kind : RegKind → Nat
  | .str .. => 0 | .pair .. => 1 | .list _ => 2 | .obj => 3

structure Reg where
  path : List Bytes
  kind : RegKind
  deriving Repr, Inhabited

/-- what can be observed of a node (names lower-cased) -/
inductive OVal where
  | str (v d : Option Bytes) (sub : Nat) (parsed : TExp)
  | pair (h s dh ds : Option Bytes)
  | list (v d : List Bytes)
  | obj
  deriving Repr, DecidableEq, Inhabited

structure ONode where
  path : List Bytes      -- lower-cased names from below the root
  kind : Nat
  present : Bool
  specified : Bool
  val : OVal
  /-- the node's own name as spelled in the live tree, when that is known -/
  spell : Option Bytes := none
  deriving Repr, DecidableEq, Inhabited

def lowerName (n : Bytes) : Bytes := n.map Bytes.lower

def pathEq (p q : List Bytes) : Bool := p.map lowerName == q.map lowerName

def isPrefixPath (p q : List Bytes) : Bool :=
  p.length < q.length && pathEq p (q.take p.length)

/-- the registration in force for (path, kind): the last one -/
def regFor (regs : List Reg) (path : List Bytes) (kind : Nat) : Option RegKind :=
  regs.foldl (fun acc r => if r.kind.kind == kind && pathEq r.path path then some r.kind else acc) none

/-- an object is "registered" when it or anything below it was registered -/
def objRegistered (regs : List Reg) (path : List Bytes) : Bool :=
  regs.any fun r => (r.kind.kind == 3 && pathEq r.path path) || isPrefixPath path r.path

/-- keys (name, kind) registered directly below `path` -/
def regKidsAt (regs : List Reg) (path : List Bytes) : List (Bytes × Nat) :=
  regs.foldl (fun acc r =>
    if isPrefixPath path r.path then
      let n := r.path.getD path.length []
      let k := if r.path.length == path.length + 1 then r.kind.kind else 3
      if acc.any (fun x => keyEq x.1 x.2 n k) then acc else acc ++ [(n, k)]
    else acc) []

def insertKey (n : Bytes) (k : Nat) : List (Bytes × Nat) → List (Bytes × Nat)
  | [] => [(n, k)]
  | x :: xs =>
    if keyEq n k x.1 x.2 then x :: xs
    else if keyLt n k x.1 x.2 then (n, k) :: x :: xs
    else x :: insertKey n k xs

def findC (n : Bytes) (k : Nat) : List CNode → Option CNode
  | [] => none
  | c :: cs => if keyEq n k c.name c.kind then some c else findC n k cs

/-- previous effective parsed values of typed settings (for "rejected, previous value
    stays in force") -/
abbrev ParsedMap := List (List Bytes × Nat)

def ParsedMap.get (m : ParsedMap) (path : List Bytes) : Nat :=
  match m.find? (fun x => x.1 == path) with
  | some x => x.2
  | none => 0

def typedExp (prev : ParsedMap) (lpath : List Bytes) (sub : Nat) (v : Option Bytes) : TExp :=
  if sub == 0 || sub == 3 then .any
  else match v with
    | none => .value 0
    | some t =>
      match specTyped sub t with
      | .reject => .value (prev.get lpath)
      | e => e

/-- The canonical view: union of what is registered and what the file says, level by
    level in key order.  `fuel` bounds the depth. -/
def canonView (regs : List Reg) (prev : ParsedMap) : Nat → List Bytes → List CNode → List ONode
  | 0, _, _ => []
  | fuel + 1, path, file =>
    let keys := (file.foldl (fun acc c => insertKey c.name c.kind acc) [])
    let keys := (regKidsAt regs path).foldl (fun acc x => insertKey x.1 x.2 acc) keys
    keys.flatMap fun (n, k) =>
      let p := path ++ [n]
      let lp := p.map lowerName
      let f := findC n k file
      match k with
      | 0 =>
        let r := regFor regs p 0
        let (sub, d) : Nat × Option Bytes := match r with | some (.str s d) => (s, d) | _ => (0, none)
        let v : Option Bytes := match f with | some (.str _ v) => some v | _ => d
        [⟨lp, 0, f.isSome, r.isSome, .str v d sub (typedExp prev lp sub v), none⟩]
      | 1 =>
        let r := regFor regs p 1
        let (dh, ds) : Option Bytes × Option Bytes := match r with | some (.pair a b) => (a, b) | _ => (none, none)
        let (h, s) : Option Bytes × Option Bytes := match f with | some (.pair _ a b) => (some a, some b) | _ => (dh, ds)
        [⟨lp, 1, f.isSome, r.isSome, .pair h s dh ds, none⟩]
      | 2 =>
        let r := regFor regs p 2
        let d : List Bytes := match r with | some (.list d) => d | _ => []
        let v : List Bytes := match f with | some (.list _ xs) => xs | _ => d
        [⟨lp, 2, f.isSome, r.isSome, .list v d, none⟩]
      | _ =>
        let kids : List CNode := match f with | some (.obj _ ks) => ks | _ => []
        ⟨lp, 3, f.isSome, objRegistered regs p, .obj, none⟩ :: canonView regs prev fuel p kids

/-- the value whose change must be notified -/
inductive EffVal where
  | text (v : Option Bytes)
  | num (n : TExp)
  | pair (h s : Option Bytes)       -- lower-cased
  | items (xs : List Bytes)
  | members (keys : List (Bytes × Nat))
  deriving Repr, DecidableEq, Inhabited

/-- the direct children of an object in a view -/
def kidsOfView (view : List ONode) (n : ONode) : List ONode :=
  view.filter fun m => m.path.length == n.path.length + 1 && m.path.take n.path.length == n.path

/-- an object's membership is the list of its children's keys *as spelled*: an entry the
    new file spells differently is a different member (names only compare ignoring case) -/
def effVal (view : List ONode) (n : ONode) : EffVal :=
  match n.val with
  | .str v _ sub p => if sub == 0 || sub == 3 then .text v else .num p
  | .pair h s _ _ => .pair (h.map lowerName) (s.map lowerName)
  | .list v _ => .items v
  | .obj => .members ((kidsOfView view n).map fun m => (m.spell.getD (m.path.getLast?.getD []), m.kind))

end Iauthd.Conf.Spec
