import Iauthd.Conf.ProofsSettle
/-
  C15, notifications: a node's hook runs iff its own effective value changes.

  Effective value: the text of a plain string, the parsed number of a typed string, the
  (case-insensitive) host and service of a pair, the items of a list, the set of child
  keys of an object.  Stated per node kind on the functions `conf_replace_value`
  dispatches to; `walk` calls exactly these (`replaceLeaf`, and `fire (m && hook)` for
  objects).
-/
set_option linter.unusedSimpArgs false
namespace Iauthd.Conf

/-- effective value of a string setting -/
def strEff (sub : SubTy) (value : Option Bytes) (parsed : Parsed) : Option Bytes × Parsed :=
  match sub with
  | .plain => (value, .zero)
  | _ => (none, parsed.norm)

theorem norm_zero_iff (p : Parsed) : p.norm = .zero ↔ p.isZero = true := by
  cases p with
  | zero => simp [Parsed.norm, Parsed.isZero]
  | ptr b => simp [Parsed.norm, Parsed.isZero]
  | num n => by_cases h : n = 0 <;> simp [Parsed.norm, Parsed.isZero, h]

theorem typedSame_iff (p : Parsed) (n : Nat) (hp : ∀ b, p ≠ .ptr b) : typedSame p n = true ↔ p.norm = (Parsed.num n).norm := by
  cases p with
  | zero => by_cases h : n = 0 <;> simp [typedSame, Parsed.norm, h]
  | ptr b => exact absurd rfl (hp b)
  | num m =>
    by_cases h : n = 0 <;> by_cases h' : m = 0 <;> simp [typedSame, Parsed.norm, h, h'] <;> omega

/-- string settings (with the F13 repair): the hook runs iff one is installed and the
    effective value changed; `cacheOK`: the cached parse agrees with the old value, and a
    typed node does not hold a string pointer -/
theorem str_hook_iff (V : Variant) (h13 : V.f13 = true) (sv : Bool) (old new d : Option Bytes) (sub : SubTy)
    (parsed : Parsed) (hook : Bool) (r : StrRes)
    (hc : cacheOK sv sub old parsed) (hty : sub ≠ .plain → ∀ b, parsed ≠ .ptr b)
    (h : strParse V sv new d sub parsed hook = .ok r) :
    r.fire = true ↔ (hook = true ∧ strEff sub r.value r.parsed ≠ strEff sub old parsed) := by
  unfold strParse at h
  generalize hv : orElse' new d = ov at *
  cases ov with
  | none =>
    simp [h13] at h; subst h
    cases sub with
    | plain =>
      simp only [strEff]
      cases old with
      | none => simp only [cacheOK] at hc; simp [hc]
      | some v => simp only [cacheOK] at hc; subst hc; simp [Parsed.isZero]
    | float | boolean | integer | interval | volume =>
      all_goals
        simp only [strEff]
        have e0 : (Parsed.zero).norm = .zero := rfl
        by_cases hz : parsed.isZero = true
        · simp [hz, (norm_zero_iff parsed).mpr hz, e0]
        · have : parsed.norm ≠ .zero := fun e => hz ((norm_zero_iff parsed).mp e)
          simp [hz, e0, Ne.symm this]
  | some v =>
    simp only at h
    unfold strParseSome at h
    cases sub with
    | plain =>
      simp only [strEff]
      cases old with
      | none =>
        simp only [cacheOK] at hc
        cases parsed with
        | zero => simp at h; subst h; simp
        | ptr b => simp [Parsed.isZero] at hc
        | num n =>
          have : n = 0 := by simpa [Parsed.isZero] using hc
          subst this; simp at h; subst h; simp
      | some w =>
        simp only [cacheOK] at hc; subst hc
        simp at h; subst h
        by_cases e : v = w <;> simp [e]
    | float => simp at h
    | boolean | integer | interval | volume =>
      all_goals
        have hnp := hty (by simp)
        dsimp only at h
        simp only [strEff]
        split at h
        · simp at h; subst h; simp
        · split at h
          · simp at h; subst h; simp
          · rename_i hns
            simp at h; subst h
            have : ¬ parsed.norm = (Parsed.num _).norm := fun e => hns ((typedSame_iff parsed _ hnp).mpr e)
            simp [Ne.symm this]

/-- lists: the hook runs iff one is installed and the items changed -/
theorem list_hook_iff (v : List Bytes) (cap : Bool) (new : List Bytes) :
    ((setList v cap new).2.2 = true ↔ v ≠ new) ∧ (setList v cap new).1 = new := by
  unfold setList
  by_cases h : v = new
  · subst h; simp
  · have : (v == new) = false := by simpa using h
    simp [this, h]

theorem lower_ne_zero (c : UInt8) (h : c ≠ 0) : (Bytes.lower c).toNat ≠ 0 := by
  unfold Bytes.lower
  split
  · rename_i hc
    intro e
    have : c.toNat + 32 < 256 := by omega
    have h2 : (c + 32).toNat = c.toNat + 32 := by
      rw [UInt8.toNat_add]; simp; omega
    omega
  · intro e
    exact h (UInt8.toNat_inj.mp (by simpa using e))

/-- `strcasecmp` says "equal" exactly when the lower-cased strings are equal (C strings) -/
theorem lower_strcasecmp_zero : ∀ (x y : Bytes), NoNul x → NoNul y →
    (Bytes.strcasecmp x y = 0 ↔ x.map Bytes.lower = y.map Bytes.lower)
  | [], [], _, _ => by simp [Bytes.strcasecmp]
  | [], b :: bs, _, hy => by
    have := lower_ne_zero b hy.head
    simp only [Bytes.strcasecmp, List.map_nil, List.map_cons]
    constructor
    · intro h; omega
    · intro h; simp at h
  | a :: as, [], hx, _ => by
    have := lower_ne_zero a hx.head
    simp only [Bytes.strcasecmp, List.map_nil, List.map_cons]
    constructor
    · intro h; omega
    · intro h; simp at h
  | a :: as, b :: bs, hx, hy => by
    simp only [Bytes.strcasecmp, List.map_cons]
    by_cases e : Bytes.lower a = Bytes.lower b
    · simp only [e, beq_self_eq_true, if_true]
      rw [lower_strcasecmp_zero as bs hx.tail hy.tail]
      simp
    · have : (Bytes.lower a == Bytes.lower b) = false := by simpa using e
      simp only [this, Bool.false_eq_true, if_false]
      constructor
      · intro h
        exfalso; apply e
        exact UInt8.toNat_inj.mp (by omega)
      · intro h; simp at h; exact absurd h.1 e


def lowerAll (x : Bytes) : Bytes := x.map Bytes.lower

def NoNulO (o : Option Bytes) : Prop := ∀ x, o = some x → NoNul x

theorem ciDiff_iff (a b : Option Bytes) (ha : NoNulO a) (hb : NoNulO b) :
    ciDiff a b = true ↔ a.map lowerAll ≠ b.map lowerAll := by
  cases a with
  | none => cases b <;> simp [ciDiff]
  | some x =>
    cases b with
    | none => simp [ciDiff]
    | some y =>
      have := lower_strcasecmp_zero x y (ha x rfl) (hb y rfl)
      simp only [ciDiff, Option.isSome_some, bne_self_eq_false, Bool.false_or, bne_iff_ne, ne_eq, Option.map_some,
        Option.some.injEq, lowerAll]
      exact not_congr this

/-- host/service pairs: the comparison `conf_replace_value` makes is "the pair changed,
    ignoring case" -/
theorem pair_hook_iff (h oh s os : Option Bytes) (h1 : NoNulO h) (h2 : NoNulO oh) (h3 : NoNulO s) (h4 : NoNulO os) :
    pairDiff h oh s os = true ↔ (h.map lowerAll, s.map lowerAll) ≠ (oh.map lowerAll, os.map lowerAll) := by
  simp only [pairDiff, Bool.or_eq_true, ciDiff_iff h oh h1 h2, ciDiff_iff s os h3 h4, ne_eq, Prod.mk.injEq]
  constructor
  · rintro (a | a) ⟨b, c⟩
    · exact a b
    · exact a c
  · intro a
    by_cases b : Option.map lowerAll h = Option.map lowerAll oh
    · exact .inr fun c => a ⟨b, c⟩
    · exact .inl b

/-- key of a node in its parent's set -/
def nodeKey (n : Node) : Bytes × Nat := (n.base.name, n.kind)

/-- objects, one direction: when the object's hook is *not* due (`modified = false`), the
    membership (list of child keys, each with its spelling) is unchanged.  Hence a
    membership change — an entry respelled in place included — always notifies.  (The converse — no notification without a membership change — needs the
    sortedness of both child lists and is covered by the correspondence runs only.) -/
theorem walk_unmodified_keys (V : Variant) (h9 : V.f9 = true) (h14 : V.f14 = true) (sv : Bool) : ∀ fuel pfx ts ps h0 e rs e',
    walk V sv fuel pfx ts (toLiveList V ps h0).1 e = .ok (rs, false, e') → rs.map nodeKey = ts.map nodeKey := by
  intro fuel
  induction fuel with
  | zero => intros; simp_all [walk]
  | succ fuel ih =>
    intro pfx ts ps h0 e rs e' h
    have aux := load_settles_aux V h9 h14 sv fuel
    cases ts with
    | nil =>
      cases ps with
      | nil => simp [toLiveList, walk] at h; simp [h.1]
      | cons p ps =>
        simp only [toLiveList, walk] at h
        obtain ⟨⟨rest, m1, e1⟩, _, hrest⟩ := bind_ok h
        cases hrest
    | cons t ts =>
      cases ps with
      | nil =>
        simp only [toLiveList, walk] at h
        obtain ⟨⟨r, e1⟩, hr, h2⟩ := bind_ok h
        obtain ⟨⟨rest, m1, e2⟩, hw, hrest⟩ := bind_ok h2
        simp at hrest
        obtain ⟨hrs, hm, _⟩ := hrest
        (try simp only [Bool.or_eq_false_iff] at hm)
        obtain ⟨rfl, hnone⟩ := hm
        rcases aux.2.1 _ _ _ _ _ hr with rfl | ⟨t', rfl, _, hn', hk'⟩
        · simp at hnone
        · have := ih pfx ts [] h0 e1 rest e2 (by simpa [toLiveList] using hw)
          rw [← hrs]; simp [nodeKey, hn', hk', this]
      | cons p ps =>
        simp only [toLiveList, walk] at h
        by_cases hgt : keyCmp t.name t.kind (toLive V p h0).1.name (toLive V p h0).1.kind > 0
        · simp only [hgt, if_true] at h
          obtain ⟨⟨rest, m1, e1⟩, _, hrest⟩ := bind_ok h
          cases hrest
        · simp only [hgt, if_false] at h
          by_cases hlt : keyCmp t.name t.kind (toLive V p h0).1.name (toLive V p h0).1.kind < 0
          · simp only [hlt, if_true] at h
            obtain ⟨⟨r, e1⟩, hr, h2⟩ := bind_ok h
            obtain ⟨⟨rest, m1, e2⟩, hw, hrest⟩ := bind_ok h2
            simp at hrest
            obtain ⟨hrs, hm, _⟩ := hrest
            (try simp only [Bool.or_eq_false_iff] at hm)
            obtain ⟨rfl, hnone⟩ := hm
            rcases aux.2.1 _ _ _ _ _ hr with rfl | ⟨t', rfl, _, hn', hk'⟩
            · simp at hnone
            · have := ih pfx ts (p :: ps) h0 e1 rest e2 (by simpa [toLiveList] using hw)
              rw [← hrs]; simp [nodeKey, hn', hk', this]
          · simp only [hlt, if_false] at h
            have heq : keyCmp t.name t.kind (toLive V p h0).1.name (toLive V p h0).1.kind = 0 := by omega
            obtain ⟨⟨r, e1⟩, hr, h2⟩ := bind_ok h
            obtain ⟨⟨rest, m1, e2⟩, hw, hrest⟩ := bind_ok h2
            simp at hrest
            obtain ⟨hrs, ⟨rfl, hnm⟩, _⟩ := hrest
            rw [← hnm, Node.rename_self] at hr
            have hkind : p.kind = t.kind := by
              rw [← (toLive_name_kind V p h0).2]; exact (keyCmp_zero_kind heq).symm
            obtain ⟨t', rfl, _, hn', hk'⟩ := aux.1 _ _ _ _ _ _ _ hkind hr
            have := ih _ _ _ _ _ _ _ hw
            rw [← hrs]; simp [nodeKey, hn', hk', this]

end Iauthd.Conf
