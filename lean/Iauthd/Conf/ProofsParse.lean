import Iauthd.Conf.ProofsLex
import Iauthd.Conf.Parse
/-
  C14, parsing half: `conf_parse_entry` and its loops always make progress (the fuel
  never runs out) and never move the cursor out of `[0, length]`, never pass NULL on,
  never overrun the string buffer: `parse_fuel_suffices`, `parse_no_fault`.
-/
set_option linter.unusedSimpArgs false

namespace Iauthd.Conf

/-- an error that is one of the `PARSE_*` codes -/
def Benign (e : ParseErr) : Prop := e ≠ .outOfFuel ∧ ∀ f, e ≠ .fault f

/-- postcondition of a parsing step: a benign error, or a result satisfying `P` -/
def Post {α : Type} (P : α → Nat → Prop) : Except ParseErr (α × Nat) → Prop
  | .ok (a, p) => P a p
  | .error e => Benign e

theorem post_bind {α β : Type} {P : α → Nat → Prop} {Q : β → Nat → Prop}
    {x : Except ParseErr (α × Nat)} {f : α × Nat → Except ParseErr (β × Nat)}
    (hx : Post P x) (hf : ∀ a p, P a p → Post Q (f (a, p))) : Post Q (x >>= f) := by
  cases x with
  | error e => exact hx
  | ok v => obtain ⟨a, p⟩ := v; exact hf a p hx

theorem post_mono {α : Type} {P Q : α → Nat → Prop} {x : Except ParseErr (α × Nat)}
    (hx : Post P x) (h : ∀ a p, P a p → Q a p) : Post Q x := by
  cases x with
  | error e => exact hx
  | ok v => obtain ⟨a, p⟩ := v; exact h a p hx

theorem benign_eof : Benign .prematureEof := ⟨by decide, by intro f; simp⟩
theorem benign_str : Benign .expectedString := ⟨by decide, by intro f; simp⟩
theorem benign_comma : Benign .expectedComma := ⟨by decide, by intro f; simp⟩
theorem benign_semi : Benign .expectedSemicolon := ⟨by decide, by intro f; simp⟩

/-! ### conf_parse_whitespace at a position -/

theorem wsAt_eq (care : Bool) (d : Bytes) (pos : Nat) (hp : pos ≤ d.length) :
    wsAt care d pos = .ok ((wsGo care .norm (d.drop pos)).1, pos + (wsGo care .norm (d.drop pos)).2) := by
  simp [wsAt, Nat.not_lt.mpr hp]

theorem wsAt_spec (care : Bool) (d : Bytes) (hn : NoNul d) (pos : Nat) (hp : pos ≤ d.length) :
    ∃ ch p, wsAt care d pos = .ok (ch, p) ∧ pos ≤ p ∧ p ≤ d.length ∧
      (ch ≠ 0 → pos < p ∧ (ch ≠ 10 → wsAt false d (p - 1) = .ok (ch, p))) ∧
      (ch = 0 → p = d.length) ∧ (care = false → ch ≠ 10) := by
  have hle := wsGo_le care .norm (d.drop pos)
  simp only [List.length_drop] at hle
  refine ⟨_, _, wsAt_eq care d pos hp, by omega, by omega, ?_, ?_, ?_⟩
  · intro h0
    have hk := wsGo_pos care .norm _ h0
    refine ⟨by omega, fun h10 => ?_⟩
    have hr := wsGo_reread care .norm _ (hn.drop pos) h0 h10
    rw [List.drop_drop] at hr
    generalize hkk : (wsGo care .norm (d.drop pos)).2 = k at *
    have e : pos + k - 1 = pos + (k - 1) := by omega
    rw [wsAt_eq false d (pos + k - 1) (by omega), e, hr]
    congr 2; omega
  · intro h0
    have := wsGo_zero care .norm _ (hn.drop pos) h0
    simp only [List.length_drop] at this
    omega
  · intro hc; subst hc; exact wsGo_false_ne10 _ _


/-! ### conf_parse_string at a position -/

theorem length_takeWhile_le' {α} (p : α → Bool) (l : List α) : (l.takeWhile p).length ≤ l.length := by
  induction l with
  | nil => simp
  | cons x xs ih => simp only [List.takeWhile]; split <;> simp <;> omega

theorem scanQ_lt (s : Bytes) : ∀ q, scanQ s = some q → q < s.length := by
  fun_induction scanQ s <;> intro q hq <;> simp_all
  · omega
  · rename_i ih; obtain ⟨a, ha, rfl⟩ := hq; have := ih a ha; omega
  · rename_i ih; obtain ⟨a, ha, rfl⟩ := hq; have := ih a ha; omega

/-- what `conf_parse_string` guarantees about its result and the cursor -/
def StrPost (d : Bytes) (pos : Nat) (o : Option Bytes) (p : Nat) : Prop :=
  pos ≤ p ∧ p ≤ d.length ∧ (o.isSome → pos < p) ∧ (o = none → p = d.length) ∧
  (∀ ch p1, wsAt false d pos = .ok (ch, p1) → ch ≠ 0 → o.isSome ∧ p1 ≤ p)

theorem parseString_spec (d : Bytes) (hn : NoNul d) (pos : Nat) (hp : pos ≤ d.length) :
    Post (StrPost d pos) (parseString d pos) := by
  obtain ⟨ch, p1, hws, h1, h2, h3, h4, _⟩ := wsAt_spec false d hn pos hp
  unfold parseString
  rw [hws]
  by_cases h0 : ch = 0
  · subst h0
    have := h4 rfl
    simp [Post, StrPost, this, hws, hp]
  · have hlt := (h3 h0).1
    simp only [beq_iff_eq, h0, if_false]
    by_cases hq : ch = 34
    · subst hq
      simp only [if_true]
      cases hs : scanQ (d.drop p1) with
      | none => simp [Post]; exact benign_eof
      | some q =>
        obtain ⟨bs, hd, hl⟩ := decodeQ_of_scanQ _ q hs
        have hql := scanQ_lt _ q hs
        simp only [List.length_drop] at hql
        simp only [hd]
        have : ¬ (bs.length + 1 > q + 2) := by omega
        simp only [this, if_false, Post, StrPost, hws]
        refine ⟨by omega, by omega, fun _ => by omega, by simp, ?_⟩
        intro ch' p1' heq _
        simp at heq
        exact ⟨by simp, by omega⟩
    · simp only [hq, if_false]
      by_cases ht : isToken ch = true
      · simp only [ht, if_true, Post, StrPost, hws]
        have : (List.takeWhile isToken (d.drop p1)).length ≤ d.length - p1 := by
          have := length_takeWhile_le' isToken (d.drop p1)
          simpa using this
        refine ⟨by omega, by omega, fun _ => by omega, by simp, ?_⟩
        intro ch' p1' heq _
        simp at heq
        exact ⟨by simp, by omega⟩
      · simp [ht, Post]; exact benign_str


def WsPost (care : Bool) (d : Bytes) (pos : Nat) (ch : UInt8) (p : Nat) : Prop :=
  pos ≤ p ∧ p ≤ d.length ∧
  (ch ≠ 0 → pos < p ∧ (ch ≠ 10 → wsAt false d (p - 1) = .ok (ch, p))) ∧ (ch = 0 → p = d.length) ∧
  (care = false → ch ≠ 10)

theorem wsAt_post (care : Bool) (d : Bytes) (hn : NoNul d) (pos : Nat) (hp : pos ≤ d.length) :
    Post (WsPost care d pos) (wsAt care d pos) := by
  obtain ⟨ch, p, h, hs⟩ := wsAt_spec care d hn pos hp
  rw [h]; exact hs

/-- parsing again from an un-read character gives a string -/
theorem reparse_spec (d : Bytes) (hn : NoNul d) (p : Nat) (ch : UInt8) (hp : 1 ≤ p) (hple : p ≤ d.length)
    (hre : wsAt false d (p - 1) = .ok (ch, p)) (h0 : ch ≠ 0) :
    Post (fun o p' => o.isSome ∧ p ≤ p' ∧ p' ≤ d.length) (parseString d (p - 1)) := by
  refine post_mono (parseString_spec d hn (p - 1) (by omega)) ?_
  intro o p' h
  obtain ⟨_, h2, _, _, h5⟩ := h
  have := h5 ch p hre h0
  exact ⟨this.1, this.2, h2⟩

theorem unread_ok (p : Nat) (h : 1 ≤ p) : unread p = .ok (p - 1) := by
  simp [unread]; omega

theorem nonNull_some (site : String) (o : Option Bytes) (h : o.isSome) : ∃ v, nonNull site o = .ok v := by
  cases o with
  | none => simp at h
  | some v => exact ⟨v, rfl⟩

theorem parenLoop_spec (d : Bytes) (hn : NoNul d) : ∀ fuel pos acc, pos ≤ d.length → d.length - pos < fuel →
    Post (fun _ p => pos < p ∧ p ≤ d.length) (parenLoop d fuel pos acc) := by
  intro fuel
  induction fuel with
  | zero => intro pos acc h1 h2; omega
  | succ fuel ih =>
    intro pos acc h1 h2
    unfold parenLoop
    refine post_bind (wsAt_post false d hn pos h1) ?_
    intro ch p hw
    obtain ⟨w1, w2, w3, w4, w5⟩ := hw
    have h10 := w5 rfl
    show Post _ (if (ch == 0) = true then _ else _)
    by_cases h0 : ch = 0
    · simp only [h0, beq_self_eq_true, if_true, Post]; exact benign_eof
    · obtain ⟨w6, w7⟩ := w3 h0
      have w7 := w7 h10
      simp only [beq_iff_eq, h0, if_false]
      by_cases h41 : ch = 41
      · simp only [h41, if_true, Post]; omega
      · simp only [h41, if_false]
        rw [unread_ok p (by omega)]
        show Post _ (parseString d (p - 1) >>= _)
        refine post_bind (reparse_spec d hn p ch (by omega) w2 w7 h0) ?_
        intro o p2 ⟨ho, hp2, hp2'⟩
        obtain ⟨v, hv⟩ := nonNull_some "string_vector_append(NULL) in paren list" o ho
        show Post _ (nonNull _ o >>= _)
        rw [hv]
        show Post _ (wsAt false d p2 >>= _)
        refine post_bind (wsAt_post false d hn p2 hp2') ?_
        intro ch2 p3 ⟨x1, x2, x3, x4, x5⟩
        dsimp only
        by_cases g0 : ch2 = 0
        · simp only [g0, if_true, Post]; exact benign_eof
        · simp only [g0, if_false]
          by_cases g41 : ch2 = 41
          · simp only [g41, if_true, Post]; omega
          · simp only [g41, if_false]
            by_cases g44 : ch2 = 44
            · have : (ch2 != 44) = false := by simp [g44]
              simp only [this, Bool.false_eq_true, if_false]
              have := (x3 g0).1
              refine post_mono (ih p3 _ x2 (by omega)) ?_
              intro _ p4 h; omega
            · have : (ch2 != 44) = true := by simp [g44]
              simp only [this, if_true, Post]; exact benign_comma


theorem commaLoop_spec (V : Variant) (d : Bytes) (hn : NoNul d) : ∀ fuel pos acc, pos ≤ d.length →
    d.length - pos < fuel → Post (fun _ p => pos ≤ p ∧ p ≤ d.length) (commaLoop V d fuel pos acc) := by
  intro fuel
  induction fuel with
  | zero => intro pos acc h1 h2; omega
  | succ fuel ih =>
    intro pos acc h1 h2
    unfold commaLoop
    refine post_bind (wsAt_post true d hn pos h1) ?_
    intro ch p ⟨w1, w2, w3, w4, _⟩
    dsimp only
    by_cases h0 : ch = 0
    · simp only [h0, beq_self_eq_true, if_true]
      cases V.f12 <;> simp [Post, benign_eof]
      omega
    · obtain ⟨w6, w7⟩ := w3 h0
      simp only [beq_iff_eq, h0, if_false]
      by_cases h10 : ch = 10
      · simp only [h10, if_true]
        cases V.f11
        · simp [Post]; omega
        · simp only [if_true]
          rw [unread_ok p (by omega)]
          simp [Post, bind, Except.bind]; omega
      · simp only [h10, if_false]
        have w7 := w7 h10
        rw [unread_ok p (by omega)]
        show Post _ (parseString d (p - 1) >>= _)
        refine post_bind (reparse_spec d hn p ch (by omega) w2 w7 h0) ?_
        intro o p2 ⟨ho, hp2, hp2'⟩
        obtain ⟨v, hv⟩ := nonNull_some "string_vector_append(NULL) in comma list" o ho
        show Post _ (nonNull _ o >>= _)
        rw [hv]
        show Post _ (wsAt true d p2 >>= _)
        refine post_bind (wsAt_post true d hn p2 hp2') ?_
        intro ch2 p3 ⟨x1, x2, x3, x4, _⟩
        dsimp only
        by_cases g0 : ch2 = 0
        · simp only [g0, if_true]
          cases V.f12 <;> simp [Post, benign_eof]
          omega
        · have x6 := (x3 g0).1
          simp only [g0, if_false]
          by_cases gt : (ch2 = 10 ∨ ch2 = 59 ∨ (V.f12 = true ∧ ch2 = 125))
          · have : (ch2 == 10 || ch2 == 59 || (V.f12 && ch2 == 125)) = true := by
              rcases gt with h | h | ⟨h, h'⟩ <;> simp [h, *]
            simp only [this, if_true]
            by_cases gu : (V.f11 || ch2 == 125) = true
            · simp only [gu, if_true]
              rw [unread_ok p3 (by omega)]
              simp [Post, bind, Except.bind]; omega
            · simp only [gu, if_false]
              simp [Post]; omega
          · have : (ch2 == 10 || ch2 == 59 || (V.f12 && ch2 == 125)) = false := by
              simp only [not_or, not_and] at gt
              obtain ⟨g1, g2, g3⟩ := gt
              cases hf : V.f12 <;> simp [g1, g2, hf] at g3 ⊢
              exact g3
            simp only [this, Bool.false_eq_true, if_false]
            by_cases g44 : ch2 = 44
            · have : (ch2 != 44) = false := by simp [g44]
              simp only [this, Bool.false_eq_true, if_false]
              refine post_mono (ih p3 _ x2 (by omega)) ?_
              intro _ p4 h; omega
            · have : (ch2 != 44) = true := by simp [g44]
              simp only [this, if_true, Post]; exact benign_comma

theorem entryEnd_spec (V : Variant) (d : Bytes) (hn : NoNul d) (isRoot : Bool) (kids : List PNode) (pos : Nat)
    (hp : pos ≤ d.length) : Post (fun _ p => pos ≤ p ∧ p ≤ d.length) (entryEnd V d isRoot kids pos) := by
  unfold entryEnd
  refine post_bind (wsAt_post true d hn pos hp) ?_
  intro ch p ⟨w1, w2, w3, w4, _⟩
  dsimp only
  by_cases c1 : (V.f12 && ch == 0) = true
  · simp only [c1, if_true, Post]; omega
  · simp only [c1, if_false]
    by_cases c2 : (V.f12 && ch == 125 && !isRoot) = true
    · simp only [c2, if_true]
      have h0 : ch ≠ 0 := by
        intro e; subst e; simp at c2
      have := (w3 h0).1
      rw [unread_ok p (by omega)]
      simp [Post, bind, Except.bind]; omega
    · simp only [c2, if_false]
      by_cases c3 : (ch != 59 && ch != 10) = true
      · simp only [c3, if_true, Post]; exact benign_semi
      · simp only [c3, Bool.false_eq_true, if_false, Post]; omega


theorem entryParen_spec (V : Variant) (d : Bytes) (hn : NoNul d) (isRoot : Bool) (kids : List PNode) (fuel : Nat)
    (name? : Option Bytes) (pos : Nat) (hname : name?.isSome) (hp : pos ≤ d.length) (hf : d.length - pos < fuel) :
    Post (fun _ p => pos ≤ p ∧ p ≤ d.length) (entryParen V d isRoot kids fuel name? pos) := by
  unfold entryParen
  obtain ⟨nm, hnm⟩ := nonNull_some "conf_parse_get_child(NULL name)" name? hname
  rw [hnm]
  show Post _ (parenLoop d fuel pos [] >>= _)
  refine post_bind (parenLoop_spec d hn fuel pos [] hp hf) ?_
  intro items p ⟨h1, h2⟩
  refine post_mono (entryEnd_spec V d hn isRoot _ p h2) ?_
  intro _ p' h; omega

theorem entryValue_spec (V : Variant) (d : Bytes) (hn : NoNul d) (isRoot : Bool) (kids : List PNode) (fuel : Nat)
    (name? : Option Bytes) (pos : Nat) (ch0 : UInt8) (hname : name?.isSome) (hp1 : 1 ≤ pos) (hp : pos ≤ d.length)
    (hre : wsAt false d (pos - 1) = .ok (ch0, pos)) (hch0 : ch0 ≠ 0) (hf : d.length - pos < fuel) :
    Post (fun _ p => pos - 1 ≤ p ∧ p ≤ d.length) (entryValue V d isRoot kids fuel name? pos) := by
  unfold entryValue
  obtain ⟨nm, hnm⟩ := nonNull_some "conf_parse_get_child(NULL name)" name? hname
  rw [hnm, unread_ok pos hp1]
  show Post _ (parseString d (pos - 1) >>= _)
  refine post_bind (reparse_spec d hn pos ch0 hp1 hp hre hch0) ?_
  intro s? p2 ⟨hs, hp2, hp2'⟩
  show Post _ (wsAt true d p2 >>= _)
  refine post_bind (wsAt_post true d hn p2 hp2') ?_
  intro ch p3 ⟨w1, w2, w3, w4, _⟩
  dsimp only
  by_cases c1 : (ch == 59 || ch == 10 || ch == 125 || (V.f12 && ch == 0)) = true
  · simp only [c1, if_true]
    obtain ⟨sv, hsv⟩ := nonNull_some "string value" s? hs
    rw [hsv]
    by_cases h0 : ch = 0
    · -- only with f12: end of input right after the value
      have hp3 := w4 h0
      subst h0
      simp only [beq_self_eq_true, if_true]
      have : ((0 : UInt8) == 125 && !isRoot) = false := by simp
      simp only [bind, Except.bind, this, Bool.false_eq_true, if_false]
      refine post_mono (entryEnd_spec V d hn isRoot _ p3 w2) ?_
      intro _ p' h; omega
    · have hlt := (w3 h0).1
      have : (ch == 0) = false := by simp [h0]
      simp only [this, Bool.false_eq_true, if_false]
      rw [unread_ok p3 (by omega)]
      simp only [bind, Except.bind]
      by_cases c2 : (ch == 125 && !isRoot) = true
      · simp only [c2, if_true]
        cases V.f10
        · simp only [Bool.false_eq_true, if_false]
          rw [unread_ok (p3 - 1) (by omega)]
          simp only [Post]; omega
        · simp only [if_true, Post]; omega
      · simp only [c2, if_false]
        refine post_mono (entryEnd_spec V d hn isRoot _ (p3 - 1) (by omega)) ?_
        intro _ p' h; omega
  · simp only [c1, if_false]
    by_cases c44 : ch = 44
    · simp only [c44, beq_self_eq_true, if_true]
      obtain ⟨sv, hsv⟩ := nonNull_some "string_vector_append(NULL)" s? hs
      rw [hsv]
      have h0 : ch ≠ 0 := by simp [c44]
      have hlt := (w3 h0).1
      show Post _ (commaLoop V d fuel p3 [sv] >>= _)
      refine post_bind (commaLoop_spec V d hn fuel p3 [sv] w2 (by omega)) ?_
      intro items p4 ⟨y1, y2⟩
      refine post_mono (entryEnd_spec V d hn isRoot _ p4 y2) ?_
      intro _ p' h; omega
    · have : (ch == 44) = false := by simp [c44]
      simp only [this, Bool.false_eq_true, if_false]
      obtain ⟨sv, hsv⟩ := nonNull_some "hostname" s? hs
      rw [hsv]
      rw [unread_ok p3 (by omega)]
      show Post _ (parseString d (p3 - 1) >>= _)
      refine post_bind (parseString_spec d hn (p3 - 1) (by omega)) ?_
      intro svc? p4 ⟨z1, z2, _, _, _⟩
      refine post_mono (entryEnd_spec V d hn isRoot _ p4 z2) ?_
      intro _ p' h; omega


def EntryPost (d : Bytes) (pos : Nat) (_k : List PNode) (p : Nat) : Prop :=
  pos ≤ p ∧ p ≤ d.length ∧ (pos < d.length → pos < p)

theorem entry_obj_spec (V : Variant) (d : Bytes) (hn : NoNul d) : ∀ fuel,
    (∀ isRoot kids pos, pos ≤ d.length → 2 * (d.length - pos) + 1 ≤ fuel →
      Post (EntryPost d pos) (parseEntry V d fuel isRoot kids pos)) ∧
    (∀ kids pos, pos ≤ d.length → 2 * (d.length - pos) + 2 ≤ fuel →
      Post (fun _ p => pos < p ∧ p ≤ d.length) (objLoop V d fuel kids pos)) := by
  intro fuel
  induction fuel with
  | zero => exact ⟨fun _ _ _ _ h => by omega, fun _ _ _ h => by omega⟩
  | succ fuel ih =>
    obtain ⟨ihE, ihO⟩ := ih
    constructor
    · intro isRoot kids pos hp hf
      unfold parseEntry
      refine post_bind (parseString_spec d hn pos hp) ?_
      intro name? p1 ⟨s1, s2, s3, s4, _⟩
      show Post _ (wsAt false d p1 >>= _)
      refine post_bind (wsAt_post false d hn p1 s2) ?_
      intro ch p2 ⟨w1, w2, w3, w4, w5⟩
      dsimp only
      by_cases h0 : ch = 0
      · have := w4 h0
        simp only [h0, beq_self_eq_true, if_true, Post, EntryPost]; omega
      · obtain ⟨w6, w7⟩ := w3 h0
        have w7 := w7 (w5 rfl)
        have hname : name?.isSome := by
          cases name? with
          | none => have := s4 rfl; omega
          | some _ => rfl
        have hlt := s3 hname
        have : (ch == 0) = false := by simp [h0]
        simp only [this, Bool.false_eq_true, if_false]
        by_cases c40 : (ch == 40) = true
        · simp only [c40, if_true]
          refine post_mono (entryParen_spec V d hn isRoot kids fuel name? p2 hname w2 (by omega)) ?_
          intro _ p' h; simp only [EntryPost]; omega
        · simp only [c40, if_false]
          by_cases c123 : (ch == 123) = true
          · simp only [c123, if_true]
            obtain ⟨nm, hnm⟩ := nonNull_some "conf_parse_get_child(NULL name)" name? hname
            rw [hnm]
            show Post _ (objLoop V d fuel _ p2 >>= _)
            refine post_bind (ihO _ p2 w2 (by omega)) ?_
            intro sub p3 ⟨y1, y2⟩
            refine post_mono (entryEnd_spec V d hn isRoot _ p3 y2) ?_
            intro _ p' h; simp only [EntryPost]; omega
          · simp only [c123, if_false]
            refine post_mono (entryValue_spec V d hn isRoot kids fuel name? p2 ch hname (by omega) w2 w7 h0 (by omega)) ?_
            intro _ p' h; simp only [EntryPost]; omega
    · intro kids pos hp hf
      unfold objLoop
      refine post_bind (wsAt_post false d hn pos hp) ?_
      intro ch p ⟨w1, w2, w3, w4, w5⟩
      dsimp only
      by_cases c125 : (ch == 125) = true
      · have h0 : ch ≠ 0 := by intro e; subst e; simp at c125
        have := (w3 h0).1
        simp only [c125, if_true, Post]; omega
      · simp only [c125, if_false]
        by_cases h0 : ch = 0
        · simp only [h0, beq_self_eq_true, if_true, Post]; exact benign_eof
        · have : (ch == 0) = false := by simp [h0]
          have hlt := (w3 h0).1
          simp only [this, Bool.false_eq_true, if_false]
          rw [unread_ok p (by omega)]
          show Post _ (parseEntry V d fuel false kids (p - 1) >>= _)
          refine post_bind (ihE false kids (p - 1) (by omega) (by omega)) ?_
          intro kids' p' ⟨e1, e2, e3⟩
          have := e3 (by omega)
          refine post_mono (ihO kids' p' e2 (by omega)) ?_
          intro _ p'' h; omega


/-- outcome of a whole-file parse: a tree or one of the `PARSE_*` codes -/
def FilePost : Except ParseErr (List PNode) → Prop
  | .ok _ => True
  | .error e => Benign e

theorem topLoop_spec (V : Variant) (d : Bytes) (hn : NoNul d) : ∀ fuel kids pos, pos ≤ d.length →
    2 * (d.length - pos) + 2 ≤ fuel → FilePost (topLoop V d fuel kids pos) := by
  intro fuel
  induction fuel with
  | zero => intro _ _ _ h; omega
  | succ fuel ih =>
    intro kids pos hp hf
    unfold topLoop
    have : ¬ (pos > d.length) := by omega
    simp only [this, if_false]
    by_cases he : pos = d.length
    · simp [he, FilePost]
    · have : (pos == d.length) = false := by simp [he]
      simp only [this, Bool.false_eq_true, if_false]
      have hE := (entry_obj_spec V d hn fuel).1 true kids pos hp (by omega)
      cases hr : parseEntry V d fuel true kids pos with
      | error e => rw [hr] at hE; simp only [bind, Except.bind, FilePost]; exact hE
      | ok v =>
        obtain ⟨kids', p'⟩ := v
        rw [hr] at hE
        obtain ⟨e1, e2, e3⟩ := hE
        have := e3 (by omega)
        simp only [bind, Except.bind]
        exact ih kids' p' e2 (by omega)

theorem parseFile_benign (V : Variant) (body : Bytes) : FilePost (parseFile V body) := by
  unfold parseFile
  by_cases hb : body.isEmpty = true
  · simp only [hb, if_true, FilePost]; exact ⟨by decide, by intro f; simp⟩
  · simp only [hb, if_false]
    exact topLoop_spec V _ (noNul_cstr body) _ [] 0 (by omega) (by simp [parseFuel, fileData])

/-- C14: the recursion of the parser is bounded by the input: the fuel never runs out. -/
theorem parse_fuel_suffices (V : Variant) (body : Bytes) : parseFile V body ≠ .error .outOfFuel := by
  intro h
  have := parseFile_benign V body
  rw [h] at this
  exact this.1 rfl

/-- C14: the parser commits no memory error: the cursor stays within `[0, length]`
    (every `parse->curr--` has something to un-read, no dereference beyond the NUL), no
    NULL string is passed on, the second pass of `conf_parse_string` stops at the quote
    the first pass found and fills at most the buffer sized by the first pass. -/
theorem parse_no_fault (V : Variant) (body : Bytes) (f : Fault) : parseFile V body ≠ .error (.fault f) := by
  intro h
  have := parseFile_benign V body
  rw [h] at this
  exact this.2 f rfl

end Iauthd.Conf
