import Iauthd.Conf.ProofsParse
import Iauthd.Conf.Tree
/-
  C14, second half: a load whose parse fails leaves the state alone and notifies nobody.
-/
namespace Iauthd.Conf

/-- C14: a failed load is inert: same live tree (and heap), no hook, no warning, and the
    `PARSE_*` code as return value.  By construction of `confRead` (parse first, merge
    only on success); that the C code is built the same way is what the correspondence
    run checks (dump before = dump after, hook log empty). -/
theorem failed_load_inert (V : Variant) (sv : Bool) (st : State) (body : Bytes) (e : ParseErr)
    (h : parseFile V body = .error e) : confRead V sv st body = .ok (st, ⟨e.code, [], 0⟩) := by
  unfold confRead
  rw [h]
  cases e with
  | fault f => exact absurd h (parse_no_fault V body f)
  | _ => rfl

/-- every load either succeeds or reports one of the five `PARSE_*` codes -/
theorem load_total (V : Variant) (body : Bytes) :
    (∃ t, parseFile V body = .ok t) ∨
    (∃ e, parseFile V body = .error e ∧ e.code ∈ [(-1 : Int), -2, -3, -4, -5]) := by
  have hb := parseFile_benign V body
  cases h : parseFile V body with
  | ok t => exact .inl ⟨t, rfl⟩
  | error e =>
    rw [h] at hb
    refine .inr ⟨e, rfl, ?_⟩
    cases e with
    | outOfFuel => exact absurd rfl hb.1
    | fault f => exact absurd rfl (hb.2 f)
    | _ => simp [ParseErr.code]

end Iauthd.Conf
