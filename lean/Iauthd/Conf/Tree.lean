import Iauthd.Conf.Parse
import Iauthd.Conf.Typed
/-
  Conf engine, part 4: the live tree, registration (`conf_register_*`), typed re-parse
  (`conf_parse_string_value`) and the merge of a scratch tree into the live tree
  (`conf_replace_value`).

  Ownership.  The host and service strings of a host/service pair are heap objects that
  `conf_replace_value` moves between the two trees by pointer; they carry a token
  (`OStr.tok`) and the state has the set of live tokens.  `free` of a dead token is
  `Fault.doubleFree`, reading one is `Fault.useAfterFree`.  String values (moved and
  cleared in the source) and spliced nodes (unlinked from the scratch set with
  `no_dispose`) are modelled by value: a moved thing simply is no longer in the scratch
  tree, which is what the C text does for them.
-/
namespace Iauthd.Conf

structure OStr where
  tok : Nat
  val : Bytes
  deriving Repr, DecidableEq

structure Heap where
  live : List Nat := []
  next : Nat := 0
  deriving Repr, DecidableEq

def Heap.alloc (h : Heap) (val : Bytes) : OStr × Heap :=
  (⟨h.next, val⟩, { live := h.next :: h.live, next := h.next + 1 })

/-- `xstrdup` (NULL stays NULL) -/
def Heap.dupOpt (h : Heap) : Option Bytes → Option OStr × Heap
  | none => (none, h)
  | some b => let (o, h') := h.alloc b; (some o, h')

def Heap.free (h : Heap) (site : String) (t : Nat) : Except Fault Heap :=
  if h.live.contains t then .ok { h with live := h.live.erase t } else .error (.doubleFree site)

/-- `xfree` (NULL is fine) -/
def Heap.freeOpt (h : Heap) (site : String) : Option OStr → Except Fault Heap
  | none => .ok h
  | some o => h.free site o.tok

/-- read through a pointer -/
def Heap.read (h : Heap) (site : String) (o : OStr) : Except Fault Bytes :=
  if h.live.contains o.tok then .ok o.val else .error (.useAfterFree site)

/-- `union conf_node_string_value`: all-zero, a string pointer (we keep what it points
    to), or a 32-bit number in the low half. -/
inductive Parsed where
  | zero
  | ptr (b : Bytes)
  | num (n : Nat)
  deriving Repr, DecidableEq

/-- all eight bytes zero? -/
def Parsed.isZero : Parsed → Bool
  | .zero => true
  | .num n => n == 0
  | .ptr _ => false

/-- `.zero` and `.num 0` are the same eight bytes: canonical representative -/
def Parsed.norm : Parsed → Parsed
  | .num n => if n == 0 then .zero else .num n
  | p => p

structure Base where
  name : Bytes
  present : Bool := false
  specified : Bool := false
  hook : Bool := false
  deriving Repr, DecidableEq

inductive Node where
  | str (b : Base) (value : Option Bytes) (dflt : Option Bytes) (sub : SubTy) (parsed : Parsed)
  | inaddr (b : Base) (host service : Option OStr) (dhost dservice : Option Bytes)
  | list (b : Base) (value : List Bytes) (cap : Bool) (dflt : List Bytes)
  | obj (b : Base) (kids : List Node)
  deriving Repr

instance : Inhabited Node := ⟨.obj ⟨[], false, false, false⟩ []⟩

def Node.base : Node → Base
  | .str b .. | .inaddr b .. | .list b .. | .obj b _ => b
def Node.kind : Node → Nat
  | .str .. => 0 | .inaddr .. => 1 | .list .. => 2 | .obj .. => 3
def Node.name (n : Node) : Bytes := n.base.name
def Node.setBase : Node → Base → Node
  | .str _ v d s p, b => .str b v d s p
  | .inaddr _ h s dh ds, b => .inaddr b h s dh ds
  | .list _ v c d, b => .list b v c d
  | .obj _ k, b => .obj b k

/-- the swap of the two `name` pointers in `conf_replace_value`'s "present in both" branch -/
def Node.rename (n : Node) (nm : Bytes) : Node := n.setBase { n.base with name := nm }

@[simp] theorem Node.rename_kind (n : Node) (nm : Bytes) : (n.rename nm).kind = n.kind := by
  cases n <;> rfl
@[simp] theorem Node.rename_name (n : Node) (nm : Bytes) : (n.rename nm).name = nm := by
  cases n <;> rfl
theorem Node.rename_self (n : Node) : n.rename n.name = n := by
  cases n <;> rfl

/-- a hook call: node kind and the names from below the root down to the node -/
structure HookRec where
  kind : Nat
  path : List Bytes
  deriving Repr, DecidableEq

/-- effects accumulated by one API call -/
structure Eff where
  heap : Heap
  hooks : List HookRec := []      -- in call order
  warns : Nat := 0
  residue : List Nat := []        -- tokens still referenced by the scratch tree
  deriving Repr

def Eff.fire (e : Eff) (cond : Bool) (kind : Nat) (path : List Bytes) : Eff :=
  if cond then { e with hooks := e.hooks ++ [⟨kind, path⟩] } else e

/-! ### conf_parse_string_value -/

structure StrRes where
  value : Option Bytes
  parsed : Parsed
  fire : Bool
  warn : Bool
  deriving Repr, DecidableEq

/-- `memcmp(&cnode->parsed, &newval, sizeof(newval))` is zero, for a typed `newval = n` -/
def typedSame (parsed : Parsed) (n : Nat) : Bool :=
  match parsed with
  | .zero => n == 0
  | .num m => m == n
  | .ptr _ => false

/-- `conf_parse_string_value` once `cnode->value` is known to be non-NULL -/
def strParseSome (sv : Bool) (v : Bytes) (sub : SubTy) (parsed : Parsed) (hook : Bool) : Except Fault StrRes :=
  match sub with
  | .plain =>
    match parsed with
    | .zero => .ok ⟨some v, .ptr v, hook, false⟩
    | .ptr b => .ok ⟨some v, .ptr v, (v != b) && hook, false⟩
    | .num n =>
      if n == 0 then .ok ⟨some v, .ptr v, hook, false⟩
      else .error (.useAfterFree "parsed.p_string holds a number (subtype changed)")
  | .float => .error (.assertFail "float subtype is not modelled")
  | _ =>
    if !(parseTyped sv sub v).2 then .ok ⟨some v, parsed, false, true⟩
    else if typedSame parsed (parseTyped sv sub v).1 then .ok ⟨some v, parsed, false, false⟩
    else .ok ⟨some v, .num (parseTyped sv sub v).1, hook, false⟩

/-- `if (!cnode->value) cnode->value = xstrdup(cnode->def_value);` -/
def orElse' (a b : Option Bytes) : Option Bytes := match a with | some v => some v | none => b

/-- `conf_parse_string_value(cnode)`; `hook` = a hook is installed.  `strictVol`: see
    `parseVolume`. -/
def strParse (V : Variant) (strictVol : Bool) (value dflt : Option Bytes) (sub : SubTy)
    (parsed : Parsed) (hook : Bool) : Except Fault StrRes :=
  match orElse' value dflt with
  | none =>
    -- pinned: `if (orig_value && hook)`, and `orig_value` is `cnode->value`, NULL here
    .ok ⟨none, .zero, (if V.f13 then !parsed.isZero else value.isSome) && hook, false⟩
  | some v => strParseSome strictVol v sub parsed hook

/-! ### sorted child lists -/

def nfind (name : Bytes) (kind : Nat) : List Node → Option Node
  | [] => none
  | n :: ns =>
    let c := keyCmp name kind n.name n.kind
    if c == 0 then some n else if c < 0 then none else nfind name kind ns

/-- find-or-create at the sorted position, then update (`conf_register_node` + caller) -/
def nupsert {α : Type} (name : Bytes) (kind : Nat) (mk : Option Node → Except Fault (Node × α)) :
    List Node → Except Fault (List Node × α)
  | [] => do let (n, a) ← mk none; .ok ([n], a)
  | n :: ns =>
    let c := keyCmp name kind n.name n.kind
    if c == 0 then do let (n', a) ← mk (some n); .ok (n' :: ns, a)
    else if c < 0 then do let (n', a) ← mk none; .ok (n' :: n :: ns, a)
    else do let (ns', a) ← nupsert name kind mk ns; .ok (n :: ns', a)

/-! ### from scratch nodes to nodes that can live in the live tree -/

mutual
/-- what `conf_parse_entry` left in a scratch `struct conf_node_*` (calloc'ed: no hook,
    not specified, no defaults, subtype 0); host/service strings get their tokens. -/
def toLive (V : Variant) : PNode → Heap → Node × Heap
  | .str n v, h => (.str ⟨n, true, false, false⟩ (some v) none .plain (if V.f14 then .ptr v else .zero), h)
  | .inaddr n host svc, h =>
    let (ho, h) := h.alloc host
    let (so, h) := h.dupOpt svc
    (.inaddr ⟨n, true, false, false⟩ (some ho) so none none, h)
  | .list n items cap, h => (.list ⟨n, true, false, false⟩ items cap [], h)
  | .obj n kids, h => let (ks, h) := toLiveList V kids h; (.obj ⟨n, true, false, false⟩ ks, h)
def toLiveList (V : Variant) : List PNode → Heap → List Node × Heap
  | [], h => ([], h)
  | p :: ps, h => let (n, h) := toLive V p h; let (ns, h) := toLiveList V ps h; (n :: ns, h)
end

mutual
/-- `conf_object_cleanup` -/
def freeNode : Node → Heap → Except Fault Heap
  | .inaddr _ ho so _ _, h => do
    let h ← h.freeOpt "conf_object_cleanup: hostname" ho
    h.freeOpt "conf_object_cleanup: service" so
  | .obj _ kids, h => freeNodes kids h
  | _, h => .ok h
def freeNodes : List Node → Heap → Except Fault Heap
  | [], h => .ok h
  | n :: ns, h => do let h ← freeNode n h; freeNodes ns h
end

mutual
/-- every owned string reachable from the tree can be read (what `dump` does) -/
def readNode : Node → Heap → Except Fault Unit
  | .inaddr _ ho so _ _, h => do
    (match ho with | some o => do let _ ← h.read "hostname" o; pure () | none => pure ())
    (match so with | some o => do let _ ← h.read "service" o; pure () | none => pure ())
  | .obj _ kids, h => readNodes kids h
  | _, _ => .ok ()
def readNodes : List Node → Heap → Except Fault Unit
  | [], _ => .ok ()
  | n :: ns, h => do readNode n h; readNodes ns h
end

/-! ### conf_set_string_list_value on a live node -/

def setList (value : List Bytes) (cap : Bool) (new : List Bytes) : List Bytes × Bool × Bool :=
  if value == new then (value, cap, false)
  else (new, cap || decide (commonPrefix value new < new.length), true)

/-! ### conf_replace_value -/

/-- `!a != !b || (a && b && strcasecmp(a, b))`: the strings are read only when both exist -/
def ciPart (h : Heap) (site : String) (a b : Option OStr) : Except Fault Bool :=
  if a.isSome != b.isSome then .ok true
  else match a, b with
    | some x, some y => do
      let xv ← h.read site x
      let yv ← h.read site y
      .ok (Bytes.strcasecmp xv yv != 0)
    | _, _ => .ok false

/-- the comparison of `conf_replace_value`'s CONF_INADDR case, with C's short-circuit order -/
def inaddrChanged (h : Heap) (host ohost svc osvc : Option OStr) : Except Fault Bool := do
  if ← ciPart h "strcasecmp(target->hostname, orig_hostname)" host ohost then .ok true
  else ciPart h "strcasecmp(target->service, orig_service)" svc osvc

/-- `target->x = source->x; if (!target->x) target->x = xstrdup(target->def_x);` -/
def pickOrDup (x : Option OStr) (d : Option Bytes) (hp : Heap) : Option OStr × Heap :=
  match x with
  | some x => (some x, hp)
  | none => hp.dupOpt d

/-- the end of `conf_replace_value`: `target_->present = source_ != NULL`, and an absent
    node that nobody registered leaves its parent's set (`conf_object_cleanup` frees it) -/
def finishNode (n : Node) (present : Bool) (e : Eff) : Except Fault (Option Node × Eff) :=
  let b := { n.base with present := present }
  if !b.present && !b.specified then do
    let h ← freeNode n e.heap
    .ok (none, { e with heap := h })
  else .ok (some (n.setBase b), e)

/-- CONF_INADDR case: `src` = the scratch node's (hostname, service) pointers -/
def updInaddr (V : Variant) (path : List Bytes) (b : Base) (oh os : Option OStr) (dh ds : Option Bytes)
    (src : Option (Option OStr × Option OStr)) (e : Eff) : Except Fault (Node × Eff) := do
  -- pointers copied; the pinned text leaves them in the scratch node as well
  let (sh, ss) := match src with | some x => x | none => (none, none)
  let e := if V.f9 then e else
    { e with residue := e.residue ++ (sh.toList.map (·.tok)) ++ (ss.toList.map (·.tok)) }
  let (host, hp) := pickOrDup sh dh e.heap
  let (svc, hp) := pickOrDup ss ds hp
  let changed ← inaddrChanged hp host oh svc os
  let e := { e with heap := hp }.fire (changed && b.hook) 1 path
  let hp ← e.heap.freeOpt "xfree(orig_hostname)" oh
  let hp ← hp.freeOpt "xfree(orig_service)" os
  .ok (.inaddr b host svc dh ds, { e with heap := hp })

/-- the CONF_STRING, CONF_INADDR and CONF_STRING_LIST cases of `conf_replace_value`
    (everything but the final `present` update) -/
def replaceLeaf (V : Variant) (sv : Bool) (path : List Bytes) (t : Node) (s : Option Node) (e : Eff) :
    Except Fault (Node × Eff) :=
  match t, s with
  | .str b _ d sub parsed, some (.str _ sval _ _ _) => do
    let r ← strParse V sv sval d sub parsed b.hook
    let e := { e with warns := e.warns + (if r.warn then 1 else 0) }
    .ok (.str b r.value d sub r.parsed, e.fire r.fire 0 path)
  | .str b _ d sub parsed, none => do
    let r ← strParse V sv none d sub parsed b.hook
    let e := { e with warns := e.warns + (if r.warn then 1 else 0) }
    .ok (.str b r.value d sub r.parsed, e.fire r.fire 0 path)
  | .inaddr b oh os dh ds, some (.inaddr _ sh ss _ _) => updInaddr V path b oh os dh ds (some (sh, ss)) e
  | .inaddr b oh os dh ds, none => updInaddr V path b oh os dh ds none e
  | .list b v cap d, some (.list _ sval _ _) =>
    let (v', cap', ch) := setList v cap sval
    .ok (.list b v' cap' d, e.fire (ch && b.hook) 2 path)
  | .list b v cap d, none =>
    let (v', cap', ch) := setList v cap d
    .ok (.list b v' cap' d, e.fire (ch && b.hook) 2 path)
  | _, _ => .error (.assertFail "conf_replace_value: type mismatch (unreachable from conf_read)")

mutual
/-- `conf_replace_value(target, source)`; `none` result = the target left its parent's
    set (the function returned 1).  `pfx` = names of the ancestors below the root. -/
def replaceNode (V : Variant) (sv : Bool) : Nat → List Bytes → Node → Option Node → Eff →
    Except Fault (Option Node × Eff)
  | 0, _, _, _, _ => .error (.assertFail "merge fuel")
  | fuel + 1, pfx, t, s, e =>
    match t, s with
    | .obj b kids, some (.obj _ skids) => do
      let (kids', m, e) ← walk V sv fuel (pfx ++ [b.name]) kids skids e
      finishNode (.obj b kids') true (e.fire (m && b.hook) 3 (pfx ++ [b.name]))
    | .obj b kids, none =>
      if b.present then do
        let (kids', m, e) ← revertAll V sv fuel (pfx ++ [b.name]) kids e
        finishNode (.obj b kids') false (e.fire (m && b.hook) 3 (pfx ++ [b.name]))
      else finishNode (.obj b kids) false e
    | .obj _ _, some _ => .error (.assertFail "conf_replace_value: type mismatch (unreachable from conf_read)")
    | t, s => do
      let (n, e) ← replaceLeaf V sv (pfx ++ [t.name]) t s e
      finishNode n s.isSome e

/-- the two-pointer loop of the CONF_OBJECT case -/
def walk (V : Variant) (sv : Bool) : Nat → List Bytes → List Node → List Node → Eff →
    Except Fault (List Node × Bool × Eff)
  | 0, _, _, _, _ => .error (.assertFail "merge fuel")
  | _ + 1, _, [], [], e => .ok ([], false, e)
  | fuel + 1, pfx, t :: ts, [], e => do
    let (t', e) ← replaceNode V sv fuel pfx t none e
    let (rest, m, e) ← walk V sv fuel pfx ts [] e
    .ok (t'.toList ++ rest, m || t'.isNone, e)
  | fuel + 1, pfx, [], s :: ss, e => do
    let (rest, _, e) ← walk V sv fuel pfx [] ss e
    .ok (s :: rest, true, e)
  | fuel + 1, pfx, t :: ts, s :: ss, e =>
    let res := keyCmp t.name t.kind s.name s.kind
    if res > 0 then do
      -- not currently present: splice it over
      let (rest, _, e) ← walk V sv fuel pfx (t :: ts) ss e
      .ok (s :: rest, true, e)
    else if res < 0 then do
      -- no longer present: revert to default value
      let (t', e) ← replaceNode V sv fuel pfx t none e
      let (rest, m, e) ← walk V sv fuel pfx ts (s :: ss) e
      .ok (t'.toList ++ rest, m || t'.isNone, e)
    else do
      -- present in both: the entry takes the new file's spelling of its name
      let (t', e) ← replaceNode V sv fuel pfx (t.rename s.name) (some s) e
      let (rest, m, e) ← walk V sv fuel pfx ts ss e
      .ok (t'.toList ++ rest, m || (t.name != s.name), e)

/-- `for (; tnode; tnode = next) conf_replace_value(tnode, NULL)` -/
def revertAll (V : Variant) (sv : Bool) : Nat → List Bytes → List Node → Eff →
    Except Fault (List Node × Bool × Eff)
  | 0, _, _, _ => .error (.assertFail "merge fuel")
  | _ + 1, _, [], e => .ok ([], false, e)
  | fuel + 1, pfx, t :: ts, e => do
    let (t', e) ← replaceNode V sv fuel pfx t none e
    let (rest, m, e) ← revertAll V sv fuel pfx ts e
    .ok (t'.toList ++ rest, m || t'.isNone, e)
end

mutual
def nodeSize : Node → Nat
  | .obj _ kids => nodesSize kids + 1
  | _ => 1
def nodesSize : List Node → Nat
  | [] => 0
  | n :: ns => nodeSize n + nodesSize ns
end

/-- enough for `walk`: every step consumes one unit and disposes of one node or list end -/
def mergeFuel (ts ss : List Node) : Nat := 2 * (nodesSize ts + nodesSize ss) + 2

/-! ### registration -/

/-- descend through (and `conf_register_object`) the ancestors named in `anc`, then run `f`
    on the innermost contents; `pfx` collects the ancestors' actual names. -/
def regPath {α : Type} : List Bytes → List Bytes → (List Bytes → List Node → Except Fault (List Node × α)) →
    List Node → Except Fault (List Node × α)
  | [], pfx, f, kids => f pfx kids
  | a :: anc, pfx, f, kids =>
    nupsert a 3 (fun
      | some (.obj b ks) => do
        let (ks', r) ← regPath anc (pfx ++ [b.name]) f ks
        .ok (.obj { b with specified := true } ks', r)
      | _ => do
        let (ks', r) ← regPath anc (pfx ++ [a]) f []
        .ok (.obj ⟨a, false, true, false⟩ ks', r)) kids

inductive RegKind where
  | str (sub : SubTy) (dflt : Option Bytes)
  | inaddr (dhost dservice : Option Bytes)
  | list (dflt : List Bytes)
  | obj
  deriving Repr

def RegKind.kind : RegKind → Nat
  | .str .. => 0 | .inaddr .. => 1 | .list .. => 2 | .obj => 3

/-- what `conf_register_node` finds or creates for a string: base (now `specified`), value, subtype, cached parse -/
def strFields (name : Bytes) : Option Node → Base × Option Bytes × SubTy × Parsed
  | some (.str b v _ s p) => ({ b with specified := true }, v, s, p)
  | _ => (⟨name, false, true, false⟩, none, .plain, .zero)

def inaddrFields (name : Bytes) : Option Node → Base × Option OStr × Option OStr
  | some (.inaddr b h s _ _) => ({ b with specified := true }, h, s)
  | _ => (⟨name, false, true, false⟩, none, none)

def listFields (name : Bytes) : Option Node → Base × List Bytes × Bool
  | some (.list b v c _) => ({ b with specified := true }, v, c)
  | _ => (⟨name, false, true, false⟩, [], false)

def objFields (name : Bytes) : Option Node → Base × List Node
  | some (.obj b ks) => ({ b with specified := true }, ks)
  | _ => (⟨name, false, true, false⟩, [])

/-- `conf_register_string` on the node found or created -/
def regStr (V : Variant) (sv : Bool) (name : Bytes) (sub : SubTy) (dflt : Option Bytes) (wantHook : Bool) (e : Eff)
    (pfx : List Bytes) (ex : Option Node) : Except Fault (Node × Eff) :=
  match strFields name ex with
  | (b, value, osub, parsed) =>
    match strParse V sv value dflt sub (if V.f14 && osub != sub then Parsed.zero else parsed) b.hook with
    | .error f => .error f
    | .ok r =>
      .ok (.str { b with hook := b.hook || wantHook } r.value dflt sub r.parsed,
        { e with warns := e.warns + (if r.warn then 1 else 0) }.fire r.fire 0 (pfx ++ [b.name]))

/-- `conf_register_inaddr` -/
def regInaddr (V : Variant) (name : Bytes) (dh ds : Option Bytes) (wantHook : Bool) (e : Eff)
    (ex : Option Node) : Except Fault (Node × Eff) :=
  match inaddrFields name ex with
  | (b, ho, so) =>
    if V.f16 && !b.present then
      match e.heap.freeOpt "conf_register_inaddr: hostname" ho with
      | .error f => .error f
      | .ok hp =>
        match hp.freeOpt "conf_register_inaddr: service" so with
        | .error f => .error f
        | .ok hp =>
          .ok (.inaddr { b with hook := b.hook || wantHook } (hp.dupOpt dh).1 ((hp.dupOpt dh).2.dupOpt ds).1 dh ds,
            { e with heap := ((hp.dupOpt dh).2.dupOpt ds).2 })
    else .ok (.inaddr { b with hook := b.hook || wantHook } ho so dh ds, e)

/-- `conf_register_string_list(_sv)` -/
def regList (V : Variant) (name : Bytes) (dflt : List Bytes) (wantHook : Bool) (e : Eff) (ex : Option Node) :
    Except Fault (Node × Eff) :=
  match listFields name ex with
  | (b, v, cap) =>
    if (if V.f15 then !b.present else !cap) then
      .ok (.list { b with hook := b.hook || wantHook } dflt (cap || !dflt.isEmpty) dflt, e)
    else .ok (.list { b with hook := b.hook || wantHook } v cap dflt, e)

/-- `conf_register_object` -/
def regObj (name : Bytes) (wantHook : Bool) (e : Eff) (ex : Option Node) : Except Fault (Node × Eff) :=
  match objFields name ex with
  | (b, ks) => .ok (.obj { b with hook := b.hook || wantHook } ks, e)

/-- `conf_register_string` / `_inaddr` / `_string_list(_sv)` / `_object` on the parent's
    contents, followed by the harness' `node->hook = …` when `wantHook`. -/
def regLeaf (V : Variant) (sv : Bool) (name : Bytes) (rk : RegKind) (wantHook : Bool) (e : Eff)
    (pfx : List Bytes) (kids : List Node) : Except Fault (List Node × Eff) :=
  nupsert name rk.kind (match rk with
    | .str sub dflt => regStr V sv name sub dflt wantHook e pfx
    | .inaddr dh ds => regInaddr V name dh ds wantHook e
    | .list dflt => regList V name dflt wantHook e
    | .obj => regObj name wantHook e) kids

/-- install a hook on an existing node (what src/log.c does to the children of `logs`) -/
def setHook : List Bytes → Nat → List Node → Option (List Node)
  | [], _, _ => none
  | [name], kind, kids =>
    match nfind name kind kids with
    | none => none
    | some _ => some (kids.map fun n =>
        if keyCmp name kind n.name n.kind == 0 then n.setBase { n.base with hook := true } else n)
  | a :: rest, kind, kids =>
    match nfind a 3 kids with
    | some (.obj _ ks) =>
      match setHook rest kind ks with
      | none => none
      | some ks' => some (kids.map fun n =>
          match n with
          | .obj b _ => if keyCmp a 3 b.name 3 == 0 then .obj b ks' else n
          | _ => n)
    | _ => none

/-! ### the state and its operations -/

structure State where
  kids : List Node := []     -- contents of `conf_root`
  heap : Heap := {}
  deriving Repr, Inhabited

structure ReadOut where
  rc : Int
  hooks : List HookRec
  warns : Nat
  deriving Repr, DecidableEq

/-- `conf_read`: parse into the scratch tree; on a syntax error the live tree is not
    touched; otherwise merge and dispose of what is left of the scratch tree. -/
def confRead (V : Variant) (sv : Bool) (st : State) (body : Bytes) : Except Fault (State × ReadOut) :=
  match parseFile V body with
  | .error (.fault f) => .error f
  | .error e => .ok (st, ⟨e.code, [], 0⟩)
  | .ok scratch => do
    let (snodes, hp) := toLiveList V scratch st.heap
    let (kids, _, e) ← walk V sv (mergeFuel st.kids snodes) [] st.kids snodes { heap := hp }
    -- set_clear(&parse.root.contents, 0): whatever the scratch tree still points to
    let hp ← e.residue.foldlM (fun h t => h.free "scratch cleanup (conf_object_cleanup)" t) e.heap
    .ok ({ kids, heap := hp }, ⟨0, e.hooks, e.warns⟩)

def confRegister (V : Variant) (sv : Bool) (st : State) (path : List Bytes) (rk : RegKind) (wantHook : Bool) :
    Except Fault (State × ReadOut) :=
  match path.reverse with
  | [] => .ok (st, ⟨0, [], 0⟩)
  | name :: revAnc => do
    let (kids, e) ← regPath revAnc.reverse [] (regLeaf V sv name rk wantHook { heap := st.heap }) st.kids
    .ok ({ kids, heap := e.heap }, ⟨0, e.hooks, e.warns⟩)

end Iauthd.Conf
