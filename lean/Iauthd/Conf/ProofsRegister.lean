import Iauthd.Conf.ProofsSettle
/-
  C15, registration: `conf_register_*` (repaired: F14 reset of the cached parse on a
  subtype change, F15/F16 defaults installed iff the node is not present) commits no
  memory error and keeps the ownership invariant (`register_no_fault`); looking a setting
  up after its registration yields a node that is `specified`, carries the registered
  default, and whose value is the file's value when the file gave one and the default
  otherwise (`regLeaf_spec`) — whether the registration comes before or after the load.
-/
set_option linter.unusedSimpArgs false
namespace Iauthd.Conf

/-- the invariant for one sibling list during an API call -/
def ListOK (h : Heap) (kids : List Node) (frame : List Nat) : Prop :=
  HeapOK h ∧ Owns h (tokensL kids ++ frame) ∧ nodesOK kids = true

theorem nupsert_ok (name : Bytes) (kind : Nat) (mk : Option Node → Except Fault (Node × Eff)) (h0 : Heap)
    (hmk : ∀ ex frame', HeapOK h0 → Owns h0 (tokensO ex ++ frame') → nodeOKO ex = true →
      ∃ n e1, mk ex = .ok (n, e1) ∧ HeapOK e1.heap ∧ Owns e1.heap (tokens n ++ frame') ∧ nodeOK n = true) :
    ∀ kids frame, ListOK h0 kids frame →
      ∃ kids' e1, nupsert name kind mk kids = .ok (kids', e1) ∧ ListOK e1.heap kids' frame := by
  intro kids
  induction kids with
  | nil =>
    intro frame ⟨hk, ho, _⟩
    obtain ⟨n, e1, hm, k1, o1, ok1⟩ := hmk none frame hk (by simpa [tokensO, tokensL] using ho) rfl
    exact ⟨[n], e1, by simp [nupsert, hm, bind, Except.bind], k1, by simpa [tokensL] using o1, by simp [nodesOK, ok1]⟩
  | cons n ns ih =>
    intro frame ⟨hk, ho, hok⟩
    simp only [nodesOK, Bool.and_eq_true] at hok
    unfold nupsert
    dsimp only
    by_cases h0' : (keyCmp name kind n.name n.kind == 0) = true
    · simp only [h0', if_true]
      obtain ⟨n', e1, hm, k1, o1, ok1⟩ := hmk (some n) (tokensL ns ++ frame) hk
        (by simpa [tokensO, tokensL, List.append_assoc] using ho) (by simpa [nodeOKO] using hok.1)
      refine ⟨n' :: ns, e1, by simp [hm, bind, Except.bind], k1, ?_, by simp [nodesOK, ok1, hok.2]⟩
      simpa [tokensL, List.append_assoc] using o1
    · simp only [h0', Bool.false_eq_true, if_false]
      by_cases hlt : keyCmp name kind n.name n.kind < 0
      · simp only [hlt, if_true]
        obtain ⟨n', e1, hm, k1, o1, ok1⟩ := hmk none (tokensL (n :: ns) ++ frame) hk (by simpa [tokensO] using ho) rfl
        refine ⟨n' :: n :: ns, e1, by simp [hm, bind, Except.bind], k1, ?_, by simp [nodesOK, ok1, hok.1, hok.2]⟩
        simpa [tokensL, List.append_assoc] using o1
      · simp only [hlt, if_false]
        obtain ⟨ns', e1, hr, k1, o1, ok1⟩ := ih (tokens n ++ frame) ⟨hk, ho.perm (by perm_tok), hok.2⟩
        refine ⟨n :: ns', e1, by simp [hr, bind, Except.bind], k1, o1.perm (by perm_tok), by simp [nodesOK, hok.1, ok1]⟩


def rkOK : RegKind → Prop
  | .str sub _ => sub ≠ .float
  | _ => True

theorem strOK_zero (sub : SubTy) (h : sub ≠ .float) : strOK sub .zero = true := by
  cases sub <;> simp_all [strOK]

theorem regLeaf_ok (V : Variant) (h14 : V.f14 = true) (sv : Bool) (name : Bytes) (rk : RegKind) (wh : Bool) (e : Eff)
    (pfx : List Bytes) (hrk : rkOK rk) :
    ∀ kids frame, ListOK e.heap kids frame →
      ∃ kids' e', regLeaf V sv name rk wh e pfx kids = .ok (kids', e') ∧ ListOK e'.heap kids' frame := by
  intro kids frame hl
  unfold regLeaf
  apply nupsert_ok name rk.kind _ e.heap ?_ kids frame hl
  intro ex frame' hk ho hok
  cases rk with
  | str sub dflt =>
    simp only
    unfold regStr
    rcases hq : strFields name ex with ⟨b, value, osub, parsed⟩
    simp only
    have hpar : strOK sub (if (V.f14 && osub != sub) = true then Parsed.zero else parsed) = true := by
      by_cases hd : osub = sub
      · have : (osub != sub) = false := by simpa using hd
        simp only [this, Bool.and_false, Bool.false_eq_true, if_false]
        cases ex with
        | none => simp [strFields] at hq; obtain ⟨_, _, _, rfl⟩ := hq; exact strOK_zero sub hrk
        | some x =>
          cases x with
          | str b' v' d' s' p' =>
            simp [strFields] at hq
            obtain ⟨_, _, rfl, rfl⟩ := hq
            subst hd
            simpa [nodeOKO, nodeOK] using hok
          | _ => simp [strFields] at hq; obtain ⟨_, _, _, rfl⟩ := hq; exact strOK_zero sub hrk
      · have : (osub != sub) = true := by simpa using hd
        simp only [h14, this, Bool.and_self, if_true]
        exact strOK_zero sub hrk
    obtain ⟨r, hr, hr2⟩ := strParse_ok V sv value dflt sub _ b.hook hpar
    simp only [hr]
    refine ⟨_, _, rfl, ?_, ?_, by simpa [nodeOK] using hr2⟩
    · simpa [(fire_heap _ _ _ _).1] using hk
    · simpa [(fire_heap _ _ _ _).1, tokens] using ho.tail
  | inaddr dh ds =>
    simp only
    unfold regInaddr
    rcases hq : inaddrFields name ex with ⟨b, ho', so'⟩
    simp only
    have hown : Owns e.heap (otoks ho' ++ otoks so' ++ frame') := by
      cases ex with
      | none => simp [inaddrFields] at hq; obtain ⟨_, rfl, rfl⟩ := hq; simpa [otoks, tokensO] using ho
      | some x =>
        cases x with
        | inaddr b' h' s' dh' ds' =>
          simp [inaddrFields] at hq; obtain ⟨_, rfl, rfl⟩ := hq
          simpa [tokensO, tokens] using ho
        | _ => simp [inaddrFields] at hq; obtain ⟨_, rfl, rfl⟩ := hq; simpa [otoks] using ho.tail
    by_cases hb : (V.f16 && !b.present) = true
    · simp only [hb, if_true]
      obtain ⟨h1, f1, k1, o1, _⟩ := freeOpt_ok ho' "conf_register_inaddr: hostname" hk (by simpa [List.append_assoc] using hown)
      obtain ⟨h2, f2, k2, o2, _⟩ := freeOpt_ok so' "conf_register_inaddr: service" k1 o1
      simp only [f1, f2]
      have d1 := dupOpt_ok dh k2 o2
      have d2 := dupOpt_ok ds d1.1 d1.2
      refine ⟨_, _, rfl, d2.1, ?_, by simp [nodeOK]⟩
      simp only [tokens]
      exact d2.2.perm (by perm_tac)
    · simp only [hb, Bool.false_eq_true, if_false]
      exact ⟨_, _, rfl, hk, by simpa [tokens, List.append_assoc] using hown, by simp [nodeOK]⟩
  | list dflt =>
    simp only
    unfold regList
    rcases hq : listFields name ex with ⟨b, v, cap⟩
    simp only
    generalize (if V.f15 = true then !b.present else !cap) = install
    cases install with
    | true => exact ⟨_, _, rfl, hk, by simpa [tokens] using ho.tail, by simp [nodeOK]⟩
    | false => exact ⟨_, _, rfl, hk, by simpa [tokens] using ho.tail, by simp [nodeOK]⟩
  | obj =>
    simp only
    unfold regObj
    cases ex with
    | none => exact ⟨_, _, rfl, hk, by simpa [objFields, tokens, tokensL, tokensO] using ho, by simp [objFields, nodeOK, nodesOK]⟩
    | some x =>
      cases x with
      | obj b ks => exact ⟨_, _, rfl, hk, by simpa [objFields, tokens, tokensO] using ho, by simpa [objFields, nodeOK, nodeOKO] using hok⟩
      | _ => exact ⟨_, _, rfl, hk, by simpa [objFields, tokens, tokensL] using ho.tail, by simp [objFields, nodeOK, nodesOK]⟩


theorem regPath_ok (h0 : Heap) (f : List Bytes → List Node → Except Fault (List Node × Eff))
    (hf : ∀ pfx kids frame, ListOK h0 kids frame → ∃ kids' e', f pfx kids = .ok (kids', e') ∧ ListOK e'.heap kids' frame) :
    ∀ (anc : List Bytes) (pfx : List Bytes) kids frame, ListOK h0 kids frame →
      ∃ kids' e', regPath anc pfx f kids = .ok (kids', e') ∧ ListOK e'.heap kids' frame := by
  intro anc
  induction anc with
  | nil => intro pfx kids frame hl; simpa [regPath] using hf pfx kids frame hl
  | cons a anc ih =>
    intro pfx kids frame hl
    unfold regPath
    apply nupsert_ok a 3 _ h0 ?_ kids frame hl
    intro ex frame' hk ho hok
    cases ex with
    | none =>
      obtain ⟨ks', e1, hr, k1, o1, ok1⟩ := ih (pfx ++ [a]) [] frame' ⟨hk, by simpa [tokensO, tokensL] using ho, rfl⟩
      exact ⟨.obj ⟨a, false, true, false⟩ ks', e1, by simp [hr, bind, Except.bind], k1, by simpa [tokens] using o1,
        by simpa [nodeOK] using ok1⟩
    | some x =>
      cases x with
      | obj b ks =>
        obtain ⟨ks', e1, hr, k1, o1, ok1⟩ := ih (pfx ++ [b.name]) ks frame'
          ⟨hk, by simpa [tokensO, tokens] using ho, by simpa [nodeOKO, nodeOK] using hok⟩
        exact ⟨.obj { b with specified := true } ks', e1, by simp [hr, bind, Except.bind], k1, by simpa [tokens] using o1,
          by simpa [nodeOK] using ok1⟩
      | _ =>
        obtain ⟨ks', e1, hr, k1, o1, ok1⟩ := ih (pfx ++ [a]) [] frame' ⟨hk, by simpa [tokensL] using ho.tail, rfl⟩
        exact ⟨.obj ⟨a, false, true, false⟩ ks', e1, by simp [hr, bind, Except.bind], k1, by simpa [tokens] using o1,
          by simpa [nodeOK] using ok1⟩

/-- C15: registration (repaired F14) succeeds and keeps the ownership invariant, whatever
    the tree looks like and whenever it happens -/
theorem register_no_fault (V : Variant) (h14 : V.f14 = true) (sv : Bool) (st : State) (path : List Bytes) (rk : RegKind)
    (wh : Bool) (hrk : rkOK rk) (hst : StateOK st) :
    ∃ st' o, confRegister V sv st path rk wh = .ok (st', o) ∧ StateOK st' := by
  obtain ⟨hk, ho, hok⟩ := hst
  unfold confRegister
  cases hp : path.reverse with
  | nil => exact ⟨st, _, rfl, hk, ho, hok⟩
  | cons name revAnc =>
    simp only
    obtain ⟨kids', e', hr, k1, o1, ok1⟩ := regPath_ok st.heap (regLeaf V sv name rk wh { heap := st.heap })
      (fun pfx kids frame hl => regLeaf_ok V h14 sv name rk wh { heap := st.heap } pfx hrk kids frame hl)
      revAnc.reverse [] st.kids [] ⟨hk, by simpa using ho, hok⟩
    exact ⟨{ kids := kids', heap := e'.heap }, ⟨0, e'.hooks, e'.warns⟩, by simp [hr, bind, Except.bind], k1, by simpa using o1, ok1⟩


/-! ### what a lookup finds after a registration -/

/-- `nupsert` updates exactly the node a lookup of the same key finds (or creates it) -/
theorem nfind_nupsert {α : Type} (name : Bytes) (kind : Nat) (mk : Option Node → Except Fault (Node × α))
    (hkey : ∀ ex n' a, mk ex = .ok (n', a) →
      (ex = none ∨ ∃ n, ex = some n ∧ (keyCmp name kind n.name n.kind == 0) = true) →
      (keyCmp name kind n'.name n'.kind == 0) = true) :
    ∀ kids kids' a, nupsert name kind mk kids = .ok (kids', a) →
      ∃ n', mk (nfind name kind kids) = .ok (n', a) ∧ nfind name kind kids' = some n' := by
  intro kids
  induction kids with
  | nil =>
    intro kids' a h
    simp only [nupsert] at h
    obtain ⟨⟨n', a'⟩, hm, h2⟩ := bind_ok h
    simp at h2
    obtain ⟨rfl, rfl⟩ := h2
    refine ⟨n', by simpa [nfind] using hm, ?_⟩
    simp [nfind, hkey none n' a' hm (.inl rfl)]
  | cons n ns ih =>
    intro kids' a h
    unfold nupsert at h
    dsimp only at h
    by_cases h0 : (keyCmp name kind n.name n.kind == 0) = true
    · simp only [h0, if_true] at h
      obtain ⟨⟨n', a'⟩, hm, h2⟩ := bind_ok h
      simp at h2
      obtain ⟨rfl, rfl⟩ := h2
      refine ⟨n', by simpa [nfind, h0] using hm, ?_⟩
      simp [nfind, hkey (some n) n' a' hm (.inr ⟨n, rfl, h0⟩)]
    · simp only [h0, Bool.false_eq_true, if_false] at h
      by_cases hlt : keyCmp name kind n.name n.kind < 0
      · simp only [hlt, if_true] at h
        obtain ⟨⟨n', a'⟩, hm, h2⟩ := bind_ok h
        simp at h2
        obtain ⟨rfl, rfl⟩ := h2
        refine ⟨n', by simpa [nfind, h0, hlt] using hm, ?_⟩
        simp [nfind, hkey none n' a' hm (.inl rfl)]
      · simp only [hlt, if_false] at h
        obtain ⟨⟨ns', a'⟩, hr, h2⟩ := bind_ok h
        simp at h2
        obtain ⟨rfl, rfl⟩ := h2
        obtain ⟨n', hm, hf⟩ := ih ns' a' hr
        exact ⟨n', by simpa [nfind, h0, hlt] using hm, by simpa [nfind, h0, hlt] using hf⟩

/-- the value law of list registration (repaired F15): the file's items when the file
    gave the list (even an empty one), the registered default otherwise -/
theorem regList_value (V : Variant) (h15 : V.f15 = true) (name : Bytes) (dflt : List Bytes) (wh : Bool) (e e' : Eff)
    (ex : Option Node) (n : Node) (h : regList V name dflt wh e ex = .ok (n, e')) :
    ∃ b v cap, n = .list b v cap dflt ∧ b.specified = true ∧
      (match ex with
       | some (.list ob ov _ _) => b.present = ob.present ∧ v = (if ob.present then ov else dflt)
       | _ => b.present = false ∧ v = dflt) := by
  have fresh : ∀ ex', listFields name ex' = (⟨name, false, true, false⟩, [], false) →
      regList V name dflt wh e ex' = .ok (n, e') → ∃ b v cap, n = .list b v cap dflt ∧ b.specified = true ∧ b.present = false ∧ v = dflt := by
    intro ex' hq h'
    simp [regList, hq, h15] at h'
    obtain ⟨rfl, _⟩ := h'
    exact ⟨_, _, _, rfl, rfl, rfl, rfl⟩
  cases ex with
  | none => obtain ⟨b, v, c, h1, h2, h3, h4⟩ := fresh none rfl h; exact ⟨b, v, c, h1, h2, h3, h4⟩
  | some x =>
    cases x with
    | list ob ov oc od =>
      by_cases hp : ob.present = true
      · simp [regList, listFields, h15, hp] at h
        obtain ⟨rfl, _⟩ := h
        exact ⟨_, _, _, rfl, rfl, by simp [hp], by simp [hp]⟩
      · have hp' : ob.present = false := by simpa using hp
        simp [regList, listFields, h15, hp'] at h
        obtain ⟨rfl, _⟩ := h
        exact ⟨_, _, _, rfl, rfl, by simp [hp'], by simp [hp']⟩
    | str _ _ _ _ _ => obtain ⟨b, v, c, h1, h2, h3, h4⟩ := fresh _ rfl h; exact ⟨b, v, c, h1, h2, h3, h4⟩
    | inaddr _ _ _ _ _ => obtain ⟨b, v, c, h1, h2, h3, h4⟩ := fresh _ rfl h; exact ⟨b, v, c, h1, h2, h3, h4⟩
    | obj _ _ => obtain ⟨b, v, c, h1, h2, h3, h4⟩ := fresh _ rfl h; exact ⟨b, v, c, h1, h2, h3, h4⟩

/-- the value law of host/service registration (repaired F16) -/
theorem regInaddr_value (V : Variant) (h16 : V.f16 = true) (name : Bytes) (dh ds : Option Bytes) (wh : Bool) (e e' : Eff)
    (ex : Option Node) (n : Node) (h : regInaddr V name dh ds wh e ex = .ok (n, e')) :
    ∃ b ho so, n = .inaddr b ho so dh ds ∧ b.specified = true ∧
      (match ex with
       | some (.inaddr ob oh os _ _) => b.present = ob.present ∧
           (if ob.present then ho = oh ∧ so = os else ho.map (·.val) = dh ∧ so.map (·.val) = ds)
       | _ => b.present = false ∧ ho.map (·.val) = dh ∧ so.map (·.val) = ds) := by
  have hdup : ∀ (hp : Heap) (d : Option Bytes), (hp.dupOpt d).1.map (·.val) = d := by
    intro hp d; cases d <;> simp [Heap.dupOpt, Heap.alloc]
  have fresh : ∀ ex' b ho so, inaddrFields name ex' = (b, ho, so) → b.present = false →
      regInaddr V name dh ds wh e ex' = .ok (n, e') →
      ∃ b' ho' so', n = .inaddr b' ho' so' dh ds ∧ b'.specified = b.specified ∧ b'.present = false ∧
        ho'.map (·.val) = dh ∧ so'.map (·.val) = ds := by
    intro ex' b ho so hq hp h'
    simp only [regInaddr, hq, h16, hp, Bool.true_and, Bool.not_false, if_true] at h'
    split at h'
    · simp at h'
    · split at h'
      · simp at h'
      · simp at h'; obtain ⟨rfl, _⟩ := h'
        exact ⟨_, _, _, rfl, rfl, rfl, hdup _ _, hdup _ _⟩
  cases ex with
  | none => obtain ⟨b, x, y, h1, h2, h3, h4⟩ := fresh none _ _ _ rfl rfl h; exact ⟨b, x, y, h1, h2, h3, h4⟩
  | some x =>
    cases x with
    | inaddr ob oh os odh ods =>
      by_cases hp : ob.present = true
      · simp [regInaddr, inaddrFields, h16, hp] at h
        obtain ⟨rfl, _⟩ := h
        exact ⟨_, _, _, rfl, rfl, by simp [hp], by simp [hp]⟩
      · have hp' : ob.present = false := by simpa using hp
        obtain ⟨b, x, y, h1, h2, h3, h4⟩ := fresh (some (.inaddr ob oh os odh ods)) _ _ _ rfl hp' h
        exact ⟨b, x, y, h1, h2, by simp [h3, hp'], by simp [hp', h4]⟩
    | str _ _ _ _ _ => obtain ⟨b, x, y, h1, h2, h3, h4⟩ := fresh _ _ _ _ rfl rfl h; exact ⟨b, x, y, h1, h2, h3, h4⟩
    | list _ _ _ _ => obtain ⟨b, x, y, h1, h2, h3, h4⟩ := fresh _ _ _ _ rfl rfl h; exact ⟨b, x, y, h1, h2, h3, h4⟩
    | obj _ _ => obtain ⟨b, x, y, h1, h2, h3, h4⟩ := fresh _ _ _ _ rfl rfl h; exact ⟨b, x, y, h1, h2, h3, h4⟩

/-- the value law of string registration: the text the node already carries (the file's
    value when the file gave one), the registered default otherwise; typed cache consistent -/
theorem regStr_value (V : Variant) (sv : Bool) (name : Bytes) (sub : SubTy) (dflt : Option Bytes) (wh : Bool) (e e' : Eff)
    (pfx : List Bytes) (ex : Option Node) (n : Node) (h : regStr V sv name sub dflt wh e pfx ex = .ok (n, e')) :
    ∃ b v p, n = .str b v dflt sub p ∧ b.specified = true ∧ cacheOK sv sub v p ∧
      v = orElse' (match ex with | some (.str _ ov _ _ _) => ov | _ => none) dflt := by
  have key : ∀ b value osub parsed, strFields name ex = (b, value, osub, parsed) → b.specified = true →
      ∃ b' v p, n = .str b' v dflt sub p ∧ b'.specified = true ∧ cacheOK sv sub v p ∧ v = orElse' value dflt := by
    intro b value osub parsed hq hsp
    simp only [regStr, hq] at h
    split at h
    · simp at h
    · rename_i r hr
      obtain ⟨v1, v2⟩ := strParse_value _ _ _ _ _ _ _ _ hr
      simp at h; obtain ⟨rfl, _⟩ := h
      exact ⟨_, _, _, rfl, hsp, v2, v1⟩
  cases ex with
  | none => exact key _ _ _ _ rfl rfl
  | some x =>
    cases x with
    | str b v d s p => exact key _ _ _ _ rfl rfl
    | inaddr _ _ _ _ _ => exact key _ _ _ _ rfl rfl
    | list _ _ _ _ => exact key _ _ _ _ rfl rfl
    | obj _ _ => exact key _ _ _ _ rfl rfl


/-- the function `conf_register_*` applies to the node found (or to nothing) -/
def regMk (V : Variant) (sv : Bool) (name : Bytes) (rk : RegKind) (wh : Bool) (e : Eff) (pfx : List Bytes) :
    Option Node → Except Fault (Node × Eff) :=
  match rk with
  | .str sub dflt => regStr V sv name sub dflt wh e pfx
  | .inaddr dh ds => regInaddr V name dh ds wh e
  | .list dflt => regList V name dflt wh e
  | .obj => regObj name wh e

/-- name under which the registered node is kept: the existing node's, else the given one -/
def keptName (name : Bytes) (kind : Nat) : Option Node → Bytes
  | some n => if n.kind = kind then n.name else name
  | none => name

theorem regMk_name (V : Variant) (sv : Bool) (name : Bytes) (rk : RegKind) (wh : Bool) (e : Eff) (pfx : List Bytes)
    (ex : Option Node) (n' : Node) (a : Eff) (h : regMk V sv name rk wh e pfx ex = .ok (n', a)) :
    n'.name = keptName name rk.kind ex ∧ n'.kind = rk.kind := by
  cases rk with
  | str sub dflt =>
    simp only [regMk, regStr] at h
    have hn : (strFields name ex).1.name = keptName name 0 ex := by
      cases ex with
      | none => rfl
      | some x => cases x <;> simp [strFields, keptName, Node.kind, Node.name, Node.base]
    rcases hq : strFields name ex with ⟨b, value, osub, parsed⟩
    rw [hq] at h hn
    simp only at h
    split at h
    · simp at h
    · simp at h; obtain ⟨rfl, _⟩ := h
      exact ⟨hn, rfl⟩
  | inaddr dh ds =>
    simp only [regMk, regInaddr] at h
    have hn : (inaddrFields name ex).1.name = keptName name 1 ex := by
      cases ex with
      | none => rfl
      | some x => cases x <;> simp [inaddrFields, keptName, Node.kind, Node.name, Node.base]
    rcases hq : inaddrFields name ex with ⟨b, ho, so⟩
    rw [hq] at h hn
    simp only at h
    split at h
    · split at h
      · simp at h
      · split at h
        · simp at h
        · simp at h; obtain ⟨rfl, _⟩ := h; exact ⟨hn, rfl⟩
    · simp at h; obtain ⟨rfl, _⟩ := h; exact ⟨hn, rfl⟩
  | list dflt =>
    simp only [regMk, regList] at h
    have hn : (listFields name ex).1.name = keptName name 2 ex := by
      cases ex with
      | none => rfl
      | some x => cases x <;> simp [listFields, keptName, Node.kind, Node.name, Node.base]
    rcases hq : listFields name ex with ⟨b, v, cap⟩
    rw [hq] at h hn
    simp only at h
    generalize (if V.f15 = true then !b.present else !cap) = install at h
    cases install with
    | true => simp at h; obtain ⟨rfl, _⟩ := h; exact ⟨hn, rfl⟩
    | false => simp at h; obtain ⟨rfl, _⟩ := h; exact ⟨hn, rfl⟩
  | obj =>
    simp only [regMk, regObj] at h
    have hn : (objFields name ex).1.name = keptName name 3 ex := by
      cases ex with
      | none => rfl
      | some x => cases x <;> simp [objFields, keptName, Node.kind, Node.name, Node.base]
    rcases hq : objFields name ex with ⟨b, ks⟩
    rw [hq] at h hn
    simp at h; obtain ⟨rfl, _⟩ := h; exact ⟨hn, rfl⟩

theorem regMk_key (V : Variant) (sv : Bool) (name : Bytes) (rk : RegKind) (wh : Bool) (e : Eff) (pfx : List Bytes)
    (ex : Option Node) (n' : Node) (a : Eff) (h : regMk V sv name rk wh e pfx ex = .ok (n', a))
    (hex : ex = none ∨ ∃ n, ex = some n ∧ (keyCmp name rk.kind n.name n.kind == 0) = true) :
    (keyCmp name rk.kind n'.name n'.kind == 0) = true := by
  obtain ⟨h1, h2⟩ := regMk_name V sv name rk wh e pfx ex n' a h
  rw [h1, h2]
  rcases hex with rfl | ⟨n, rfl, hk⟩
  · simp [keptName, keyCmp_self]
  · have hkind : rk.kind = n.kind := keyCmp_zero_kind (by simpa using hk)
    simp only [keptName, hkind, if_true]
    rw [hkind] at hk; exact hk

/-- C15, registration point: after `conf_register_*` the setting is found under its key and
    is what `regMk` makes of the node that was there (the file's node, if the file gave
    one) — see `regStr_value`, `regList_value`, `regInaddr_value` for what that is. -/
theorem register_lookup (V : Variant) (sv : Bool) (name : Bytes) (rk : RegKind) (wh : Bool) (e e' : Eff) (pfx : List Bytes)
    (kids kids' : List Node) (h : regLeaf V sv name rk wh e pfx kids = .ok (kids', e')) :
    ∃ n', regMk V sv name rk wh e pfx (nfind name rk.kind kids) = .ok (n', e') ∧ nfind name rk.kind kids' = some n' := by
  have : regLeaf V sv name rk wh e pfx kids = nupsert name rk.kind (regMk V sv name rk wh e pfx) kids := by
    unfold regLeaf regMk; cases rk <;> rfl
  rw [this] at h
  exact nfind_nupsert name rk.kind _ (fun ex n' a hm hex => regMk_key V sv name rk wh e pfx ex n' a hm hex) kids kids' e' h


/-! ### arbitrary histories -/

/-- an API call of a history: a load or a registration -/
inductive ApiOp where
  | load (body : Bytes)
  | reg (path : List Bytes) (rk : RegKind) (wantHook : Bool)

def ApiOp.ok : ApiOp → Prop
  | .load _ => True
  | .reg _ rk _ => rkOK rk

def applyOp (V : Variant) (sv : Bool) (st : State) : ApiOp → Except Fault (State × ReadOut)
  | .load body => confRead V sv st body
  | .reg path rk wh => confRegister V sv st path rk wh

def runOps (V : Variant) (sv : Bool) : State → List ApiOp → Except Fault State
  | st, [] => .ok st
  | st, op :: ops => match applyOp V sv st op with
    | .error f => .error f
    | .ok (st', _) => runOps V sv st' ops

/-- C15: no history of loads (of any files, valid or not) and registrations (at any point)
    commits a memory error; the ownership invariant holds throughout -/
theorem history_no_fault (V : Variant) (h9 : V.f9 = true) (h14 : V.f14 = true) (sv : Bool) :
    ∀ (ops : List ApiOp) (st : State), StateOK st → (∀ op ∈ ops, op.ok) →
      ∃ st', runOps V sv st ops = .ok st' ∧ StateOK st'
  | [], st, hst, _ => ⟨st, rfl, hst⟩
  | op :: ops, st, hst, hok => by
    have hop := hok op (List.mem_cons_self ..)
    have step : ∃ st1 o, applyOp V sv st op = .ok (st1, o) ∧ StateOK st1 := by
      cases op with
      | load body => exact merge_no_fault V h9 sv st body hst
      | reg path rk wh => exact register_no_fault V h14 sv st path rk wh hop hst
    obtain ⟨st1, o, h1, ok1⟩ := step
    obtain ⟨st', h2, ok2⟩ := history_no_fault V h9 h14 sv ops st1 ok1 (fun x hx => hok x (List.mem_cons_of_mem _ hx))
    exact ⟨st', by simp [runOps, h1, h2], ok2⟩

/-- C15 (`C15_canonical`, for registrations made before the last load): whatever history
    of loads and registrations came before, a successful load leaves the live tree
    `Settled` with respect to its file: file values where the file speaks, registered
    defaults elsewhere, nothing else. -/
theorem C15_canonical (V : Variant) (h9 : V.f9 = true) (h14 : V.f14 = true) (sv : Bool)
    (ops : List ApiOp) (hok : ∀ op ∈ ops, op.ok) (body : Bytes) (scratch : List PNode) (hp : parseFile V body = .ok scratch) :
    ∃ st st' o, runOps V sv {} ops = .ok st ∧ confRead V sv st body = .ok (st', o) ∧ StateOK st' ∧
      Settled sv scratch st'.kids := by
  obtain ⟨st, h1, ok1⟩ := history_no_fault V h9 h14 sv ops {} stateOK_init hok
  obtain ⟨st', o, h2, ok2⟩ := merge_no_fault V h9 sv st body ok1
  exact ⟨st, st', o, h1, h2, ok2, load_settles V h9 h14 sv st st' body o scratch hp h2⟩

end Iauthd.Conf
