import Iauthd.Conf.ProofsSettle
/-
  C15, registration: `conf_register_*` (repaired: F14 reset of the cached parse on a
  subtype change, F15/F16 defaults installed iff the node is not present) commits no
  memory error and keeps the ownership invariant (`register_no_fault`); looking a setting
  up after its registration yields a node that is `specified`, carries the registered
  default, and whose value is the file's value when the file gave one and the default
  otherwise (`regLeaf_spec`) — whether the registration comes before or after the load.
-/
set_option linter.unusedSimpArgs false
namespace Iauthd.Conf

/-- the invariant for one sibling list during an API call -/
def ListOK (h : Heap) (kids : List Node) (frame : List Nat) : Prop :=
  HeapOK h ∧ Owns h (tokensL kids ++ frame) ∧ nodesOK kids = true

theorem nupsert_ok (name : Bytes) (kind : Nat) (mk : Option Node → Except Fault (Node × Eff)) (h0 : Heap)
    (hmk : ∀ ex frame', HeapOK h0 → Owns h0 (tokensO ex ++ frame') → nodeOKO ex = true →
      ∃ n e1, mk ex = .ok (n, e1) ∧ HeapOK e1.heap ∧ Owns e1.heap (tokens n ++ frame') ∧ nodeOK n = true) :
    ∀ kids frame, ListOK h0 kids frame →
      ∃ kids' e1, nupsert name kind mk kids = .ok (kids', e1) ∧ ListOK e1.heap kids' frame := by
  intro kids
  induction kids with
  | nil =>
    intro frame ⟨hk, ho, _⟩
    obtain ⟨n, e1, hm, k1, o1, ok1⟩ := hmk none frame hk (by simpa [tokensO, tokensL] using ho) rfl
    exact ⟨[n], e1, by simp [nupsert, hm, bind, Except.bind], k1, by simpa [tokensL] using o1, by simp [nodesOK, ok1]⟩
  | cons n ns ih =>
    intro frame ⟨hk, ho, hok⟩
    simp only [nodesOK, Bool.and_eq_true] at hok
    unfold nupsert
    dsimp only
    by_cases h0' : (keyCmp name kind n.name n.kind == 0) = true
    · simp only [h0', if_true]
      obtain ⟨n', e1, hm, k1, o1, ok1⟩ := hmk (some n) (tokensL ns ++ frame) hk
        (by simpa [tokensO, tokensL, List.append_assoc] using ho) (by simpa [nodeOKO] using hok.1)
      refine ⟨n' :: ns, e1, by simp [hm, bind, Except.bind], k1, ?_, by simp [nodesOK, ok1, hok.2]⟩
      simpa [tokensL, List.append_assoc] using o1
    · simp only [h0', Bool.false_eq_true, if_false]
      by_cases hlt : keyCmp name kind n.name n.kind < 0
      · simp only [hlt, if_true]
        obtain ⟨n', e1, hm, k1, o1, ok1⟩ := hmk none (tokensL (n :: ns) ++ frame) hk (by simpa [tokensO] using ho) rfl
        refine ⟨n' :: n :: ns, e1, by simp [hm, bind, Except.bind], k1, ?_, by simp [nodesOK, ok1, hok.1, hok.2]⟩
        simpa [tokensL, List.append_assoc] using o1
      · simp only [hlt, if_false]
        obtain ⟨ns', e1, hr, k1, o1, ok1⟩ := ih (tokens n ++ frame) ⟨hk, ho.perm (by perm_tok), hok.2⟩
        refine ⟨n :: ns', e1, by simp [hr, bind, Except.bind], k1, o1.perm (by perm_tok), by simp [nodesOK, hok.1, ok1]⟩


def rkOK : RegKind → Prop
  | .str sub _ => sub ≠ .float
  | _ => True

theorem strOK_zero (sub : SubTy) (h : sub ≠ .float) : strOK sub .zero = true := by
  cases sub <;> simp_all [strOK]

theorem regLeaf_ok (V : Variant) (h14 : V.f14 = true) (sv : Bool) (name : Bytes) (rk : RegKind) (wh : Bool) (e : Eff)
    (pfx : List Bytes) (hrk : rkOK rk) :
    ∀ kids frame, ListOK e.heap kids frame →
      ∃ kids' e', regLeaf V sv name rk wh e pfx kids = .ok (kids', e') ∧ ListOK e'.heap kids' frame := by
  intro kids frame hl
  unfold regLeaf
  apply nupsert_ok name rk.kind _ e.heap ?_ kids frame hl
  intro ex frame' hk ho hok
  cases rk with
  | str sub dflt =>
    simp only
    unfold regStr
    rcases hq : strFields name ex with ⟨b, value, osub, parsed⟩
    simp only
    have hpar : strOK sub (if (V.f14 && osub != sub) = true then Parsed.zero else parsed) = true := by
      by_cases hd : osub = sub
      · have : (osub != sub) = false := by simpa using hd
        simp only [this, Bool.and_false, Bool.false_eq_true, if_false]
        cases ex with
        | none => simp [strFields] at hq; obtain ⟨_, _, _, rfl⟩ := hq; exact strOK_zero sub hrk
        | some x =>
          cases x with
          | str b' v' d' s' p' =>
            simp [strFields] at hq
            obtain ⟨_, _, rfl, rfl⟩ := hq
            subst hd
            simpa [nodeOKO, nodeOK] using hok
          | _ => simp [strFields] at hq; obtain ⟨_, _, _, rfl⟩ := hq; exact strOK_zero sub hrk
      · have : (osub != sub) = true := by simpa using hd
        simp only [h14, this, Bool.and_self, if_true]
        exact strOK_zero sub hrk
    obtain ⟨r, hr, hr2⟩ := strParse_ok V sv value dflt sub _ b.hook hpar
    simp only [hr]
    refine ⟨_, _, rfl, ?_, ?_, by simpa [nodeOK] using hr2⟩
    · simpa [(fire_heap _ _ _ _).1] using hk
    · simpa [(fire_heap _ _ _ _).1, tokens] using ho.tail
  | inaddr dh ds =>
    simp only
    unfold regInaddr
    rcases hq : inaddrFields name ex with ⟨b, ho', so'⟩
    simp only
    have hown : Owns e.heap (otoks ho' ++ otoks so' ++ frame') := by
      cases ex with
      | none => simp [inaddrFields] at hq; obtain ⟨_, rfl, rfl⟩ := hq; simpa [otoks, tokensO] using ho
      | some x =>
        cases x with
        | inaddr b' h' s' dh' ds' =>
          simp [inaddrFields] at hq; obtain ⟨_, rfl, rfl⟩ := hq
          simpa [tokensO, tokens] using ho
        | _ => simp [inaddrFields] at hq; obtain ⟨_, rfl, rfl⟩ := hq; simpa [otoks] using ho.tail
    by_cases hb : (V.f16 && !b.present) = true
    · simp only [hb, if_true]
      obtain ⟨h1, f1, k1, o1, _⟩ := freeOpt_ok ho' "conf_register_inaddr: hostname" hk (by simpa [List.append_assoc] using hown)
      obtain ⟨h2, f2, k2, o2, _⟩ := freeOpt_ok so' "conf_register_inaddr: service" k1 o1
      simp only [f1, f2]
      have d1 := dupOpt_ok dh k2 o2
      have d2 := dupOpt_ok ds d1.1 d1.2
      refine ⟨_, _, rfl, d2.1, ?_, by simp [nodeOK]⟩
      simp only [tokens]
      exact d2.2.perm (by perm_tac)
    · simp only [hb, Bool.false_eq_true, if_false]
      exact ⟨_, _, rfl, hk, by simpa [tokens, List.append_assoc] using hown, by simp [nodeOK]⟩
  | list dflt =>
    simp only
    unfold regList
    rcases hq : listFields name ex with ⟨b, v, cap⟩
    simp only
    generalize (if V.f15 = true then !b.present else !cap) = install
    cases install with
    | true => exact ⟨_, _, rfl, hk, by simpa [tokens] using ho.tail, by simp [nodeOK]⟩
    | false => exact ⟨_, _, rfl, hk, by simpa [tokens] using ho.tail, by simp [nodeOK]⟩
  | obj =>
    simp only
    unfold regObj
    cases ex with
    | none => exact ⟨_, _, rfl, hk, by simpa [objFields, tokens, tokensL, tokensO] using ho, by simp [objFields, nodeOK, nodesOK]⟩
    | some x =>
      cases x with
      | obj b ks => exact ⟨_, _, rfl, hk, by simpa [objFields, tokens, tokensO] using ho, by simpa [objFields, nodeOK, nodeOKO] using hok⟩
      | _ => exact ⟨_, _, rfl, hk, by simpa [objFields, tokens, tokensL] using ho.tail, by simp [objFields, nodeOK, nodesOK]⟩


theorem regPath_ok (h0 : Heap) (f : List Bytes → List Node → Except Fault (List Node × Eff))
    (hf : ∀ pfx kids frame, ListOK h0 kids frame → ∃ kids' e', f pfx kids = .ok (kids', e') ∧ ListOK e'.heap kids' frame) :
    ∀ (anc : List Bytes) (pfx : List Bytes) kids frame, ListOK h0 kids frame →
      ∃ kids' e', regPath anc pfx f kids = .ok (kids', e') ∧ ListOK e'.heap kids' frame := by
  intro anc
  induction anc with
  | nil => intro pfx kids frame hl; simpa [regPath] using hf pfx kids frame hl
  | cons a anc ih =>
    intro pfx kids frame hl
    unfold regPath
    apply nupsert_ok a 3 _ h0 ?_ kids frame hl
    intro ex frame' hk ho hok
    cases ex with
    | none =>
      obtain ⟨ks', e1, hr, k1, o1, ok1⟩ := ih (pfx ++ [a]) [] frame' ⟨hk, by simpa [tokensO, tokensL] using ho, rfl⟩
      exact ⟨_, e1, by simp [hr, bind, Except.bind], k1, by simpa [tokens] using o1, by simpa [nodeOK] using ok1⟩
    | some x =>
      cases x with
      | obj b ks =>
        obtain ⟨ks', e1, hr, k1, o1, ok1⟩ := ih (pfx ++ [b.name]) ks frame'
          ⟨hk, by simpa [tokensO, tokens] using ho, by simpa [nodeOKO, nodeOK] using hok⟩
        exact ⟨_, e1, by simp [hr, bind, Except.bind], k1, by simpa [tokens] using o1, by simpa [nodeOK] using ok1⟩
      | str .. | inaddr .. | list .. =>
        all_goals
          obtain ⟨ks', e1, hr, k1, o1, ok1⟩ := ih (pfx ++ [a]) [] frame' ⟨hk, by simpa [tokensL] using ho.tail, rfl⟩
          exact ⟨_, e1, by simp [hr, bind, Except.bind], k1, by simpa [tokens] using o1, by simpa [nodeOK] using ok1⟩

/-- C15: registration (repaired F14) succeeds and keeps the ownership invariant, whatever
    the tree looks like and whenever it happens -/
theorem register_no_fault (V : Variant) (h14 : V.f14 = true) (sv : Bool) (st : State) (path : List Bytes) (rk : RegKind)
    (wh : Bool) (hrk : rkOK rk) (hst : StateOK st) :
    ∃ st' o, confRegister V sv st path rk wh = .ok (st', o) ∧ StateOK st' := by
  obtain ⟨hk, ho, hok⟩ := hst
  unfold confRegister
  cases hp : path.reverse with
  | nil => exact ⟨st, _, rfl, hk, ho, hok⟩
  | cons name revAnc =>
    simp only
    obtain ⟨kids', e', hr, k1, o1, ok1⟩ := regPath_ok st.heap (regLeaf V sv name rk wh { heap := st.heap })
      (fun pfx kids frame hl => regLeaf_ok V h14 sv name rk wh { heap := st.heap } pfx hrk kids frame hl)
      revAnc.reverse [] st.kids [] ⟨hk, by simpa using ho, hok⟩
    exact ⟨_, _, by simp [hr, bind, Except.bind], k1, by simpa using o1, ok1⟩

end Iauthd.Conf
