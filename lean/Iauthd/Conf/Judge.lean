import Iauthd.Conf.Spec
/-
  Conf engine: the properties C14 / C15 / C16 evaluated on an observed trace
  (operation, record printed by the implementation).  `Judge.step` returns, per
  operation, `none` when the observation is admissible and otherwise a description of
  what the property demands.  Only observable inputs and outputs are used.
-/
namespace Iauthd.Conf.Spec

inductive Op where
  | props (ps : List String)
  | read (body : Bytes) (doc : Option Doc)
  | reg (r : Reg) (hook : Bool)
  | hook (kind : Nat) (path : List Bytes)
  | dump
  | parse (sub : Nat) (v : Bytes)
  | other
  deriving Repr, Inhabited

abbrev HookId := Nat × List Bytes     -- kind, lower-cased path

inductive Obs where
  | rc (n : Int) (hooks : List HookId) (w : Nat)
  | regOk (hooks : List HookId) (w : Nat)
  | ok
  | nonode
  | dump (text : String) (nodes : List ONode)
  | val (n : Nat) (ok : Bool)
  | fault (text : String)
  | other (text : String)
  deriving Repr, Inhabited

structure JState where
  prop : Nat := 15
  active : Bool := true
  regs : List Reg := []
  hooks : List HookId := []
  file : List CNode := []
  known : Bool := true               -- the meaning of the last successful load is known
  prev : List (List Bytes × TExp) := []
  lastDump : Option String := none   -- C14: last dump with nothing state-changing since
  /-- spelling of each live node's own name, by (lower-cased path, kind); a node that is
      missing here has a spelling the judge does not know -/
  names : List ((List Bytes × Nat) × Bytes) := []
  deriving Inhabited

abbrev Names := List ((List Bytes × Nat) × Bytes)

def namesGet (m : Names) (k : List Bytes × Nat) : Option Bytes :=
  (m.find? fun x => x.1 == k).map (·.2)

/-- the spellings a file uses (the first one written, for a repeated key) -/
def fileNames : Nat → List Bytes → List CNode → Names
  | 0, _, _ => []
  | fuel + 1, lp, cs => cs.flatMap fun c =>
      let p := lp ++ [lowerName c.name]
      ((p, c.kind), c.name) :: (match c with | .obj _ ks => fileNames fuel p ks | _ => [])

/-- the spellings a registration uses, for the node and the objects above it -/
def regNames (r : Reg) : Names :=
  (List.range r.path.length).map fun i =>
    (((r.path.take (i + 1)).map lowerName, if i + 1 == r.path.length then r.kind.kind else 3), r.path.getD i [])

/-- a successful load: an entry the file mentions takes the file's spelling, one it
    omits keeps the spelling it had -/
def namesAfterRead (view : List ONode) (old file : Names) : Names :=
  view.filterMap fun n =>
    match namesGet file (n.path, n.kind) with
    | some sp => some ((n.path, n.kind), sp)
    | none => (namesGet old (n.path, n.kind)).map fun sp => ((n.path, n.kind), sp)

/-- a registration: a node that exists keeps its spelling, one it creates takes the
    registration's -/
def namesAfterReg (view : List ONode) (old reg : Names) (known : Bool) : Names :=
  view.filterMap fun n =>
    match namesGet old (n.path, n.kind) with
    | some sp => some ((n.path, n.kind), sp)
    | none => if known then (namesGet reg (n.path, n.kind)).map fun sp => ((n.path, n.kind), sp) else none

def prevGet (m : List (List Bytes × TExp)) (p : List Bytes) : TExp :=
  match m.find? (fun x => x.1 == p) with
  | some x => x.2
  | none => .value 0

/-- `ParsedMap` for `canonView`: only definite previous values; an unknown previous
    value makes the expectation after a rejection unknown as well -/
def viewOf (s : JState) : List ONode :=
  let pm : ParsedMap := s.prev.filterMap fun (p, e) => match e with | .value n => some (p, n) | _ => none
  let unknownPrev := s.prev.filterMap fun (p, e) => match e with | .value _ => none | _ => some p
  (canonView s.regs pm 64 [] s.file).map fun n =>
    let n := { n with spell := namesGet s.names (n.path, n.kind) }
    match n.val with
    | .str v d sub (.value k) =>
      -- a rejected text with unknown previous value: no expectation
      let rejected := match v with | some t => specTyped sub t == .reject | none => false
      if rejected && unknownPrev.contains n.path then { n with val := .str v d sub .any } else { n with val := .str v d sub (.value k) }
    | _ => n

def updatePrev (view : List ONode) : List (List Bytes × TExp) :=
  view.filterMap fun n => match n.val with
    | .str _ _ sub p => if sub == 0 || sub == 3 then none else some (n.path, p)
    | _ => none

def texpMatch (e o : TExp) : Bool :=
  match e with
  | .any => true
  | _ => e == o

def ovalMatch (e o : OVal) : Bool :=
  match e, o with
  | .str v d sub p, .str v' d' sub' p' => v == v' && d == d' && sub == sub' && texpMatch p p'
  | a, b => a == b

def viewMatch : List ONode → List ONode → Bool
  | [], [] => true
  | e :: es, o :: os =>
    e.path == o.path && e.kind == o.kind && e.present == o.present && e.specified == o.specified &&
      ovalMatch e.val o.val && (e.spell.isNone || e.spell == o.spell) && viewMatch es os
  | _, _ => false

def kindLetter (k : Nat) : String := match k with | 0 => "s" | 1 => "a" | 2 => "l" | _ => "o"

def nodeMatch (e o : ONode) : Bool :=
  e.path == o.path && e.kind == o.kind && e.present == o.present && e.specified == o.specified && ovalMatch e.val o.val &&
    (e.spell.isNone || e.spell == o.spell)

/-- description of the first difference between the expected and the observed view -/
def viewDiff : List ONode → List ONode → String
  | [], [] => "none"
  | e :: es, o :: os =>
    if nodeMatch e o then viewDiff es os
    else
      let field :=
        if e.path != o.path || e.kind != o.kind then "membership"
        else if e.present != o.present then "present"
        else if e.specified != o.specified then "specified"
        else if !(e.spell.isNone || e.spell == o.spell) then "spelling"
        else match e.val, o.val with
          | .str v d _ _, .str v' d' _ _ => if v != v' then "value" else if d != d' then "default" else "parsed"
          | .pair h s _ _, .pair h' s' _ _ => if h != h' || s != s' then "value" else "default"
          | .list v _, .list v' _ => if v != v' then "value" else "default"
          | _, _ => "kind"
      s!"{kindLetter e.kind} {field} expected {repr e} observed {repr o}"
  | e :: _, [] => s!"{kindLetter e.kind} expected {repr e} observed nothing"
  | [], o :: _ => s!"{kindLetter o.kind} expected nothing observed {repr o}"

def findNode (view : List ONode) (h : HookId) : Option ONode :=
  view.find? fun n => n.kind == h.1 && n.path == h.2

def insertSorted (h : HookId) : List HookId → List HookId
  | [] => [h]
  | x :: xs =>
    if x == h then x :: xs
    else if h.1 < x.1 || (h.1 == x.1 && toString (repr h.2) < toString (repr x.2)) then h :: x :: xs
    else x :: insertSorted h xs

def normHooks (hs : List HookId) : List HookId := hs.foldl (fun acc h => insertSorted h acc) []

def effChanged (ov nv : List ONode) (o n : ONode) : Option Bool :=
  match effVal ov o, effVal nv n with
  | .num a, .num b => (match a, b with | .value x, .value y => some (x != y) | _, _ => none)
  | .members a, .members b =>
    -- a child whose spelling is not known leaves the expectation open
    if ((kidsOfView ov o) ++ (kidsOfView nv n)).any (·.spell.isNone) then none else some (a != b)
  | a, b => some (a != b)

/-- result of one judged operation: new state, and `some msg` when the property is violated -/
def Judge.step (s : JState) (op : Op) (obs : Obs) : JState × Option String :=
  match op, obs with
  | .props ps, _ =>
    ({ s with active := ps.contains s!"C{s.prop}" }, none)
  | _, .fault t =>
    -- a memory error is admissible under no property; after it nothing more is observed
    ({ s with active := false }, if s.active || t != "<missing>" then some s!"no-fault (observed: {t})" else none)
  | op, obs =>
  if !s.active then (s, none) else
  match op, obs with
  | .read _ doc, .rc n hooks w =>
    if n != 0 then
      -- C14: nothing may change, nobody is told
      let bad := s.prop == 14 && !hooks.isEmpty
      (s, if bad then some s!"rc {n} hooks - (a failed load notifies nobody)" else
          if s.prop != 14 && doc.isSome then some "rc 0 (the file is a valid rendering of a document)" else none)
    else
      match doc with
      | none => ({ s with known := false, lastDump := none, names := [] }, none)
      | some d =>
        let oldView := viewOf s
        let s' := { s with file := canonTree d, lastDump := none }
        let s' := { s' with names := namesAfterRead (viewOf s') s.names (fileNames 64 [] s'.file) }
        let newView := viewOf s'
        let s'' := { s' with known := true, prev := updatePrev newView,
                             hooks := s.hooks.filter fun h => (findNode newView h).isSome }
        if s.prop == 14 || !s.known then (s'', none) else
        -- hooks: fired iff the effective value changed (deleted nodes: not judged)
        let judged := s.hooks.filter fun h => (findNode newView h).isSome && (findNode oldView h).isSome
        let expected := judged.filter fun h =>
          match findNode oldView h, findNode newView h with
          | some o, some n => (effChanged oldView newView o n).getD false
          | _, _ => false
        let dontCare := s.hooks.filter fun h =>
          match findNode oldView h, findNode newView h with
          | some o, some n => (effChanged oldView newView o n).isNone
          | _, _ => true
        let observed := normHooks (hooks.filter fun h => !dontCare.contains h)
        let expected := normHooks (expected.filter fun h => !dontCare.contains h)
        let _ := w
        (s'', if observed == expected then none
              else
                let missing := expected.filter fun h => !observed.contains h
                let extra := observed.filter fun h => !expected.contains h
                let kinds (hs : List HookId) := String.join (hs.map fun h => kindLetter h.1)
                some s!"rc 0 hooks-expected missing={kinds missing} extra={kinds extra} expected {repr expected} observed {repr observed}")
  | .reg r hook, .regOk _ _ =>
    let s' := { s with regs := s.regs ++ [r], lastDump := none }
    let s' := { s' with names := namesAfterReg (viewOf s') s.names (regNames r) s.known }
    let lp := r.path.map lowerName
    let s' := if hook && !(s'.hooks.contains (r.kind.kind, lp)) then { s' with hooks := s'.hooks ++ [(r.kind.kind, lp)] } else s'
    let s' := if s'.known then { s' with prev := updatePrev (viewOf s') } else s'
    (s', none)
  | .hook kind path, o =>
    let lp := path.map lowerName
    let exists_ := (findNode (viewOf s) (kind, lp)).isSome
    let s' := { s with lastDump := none }
    match o with
    | .ok =>
      ({ s' with hooks := if s'.hooks.contains (kind, lp) then s'.hooks else s'.hooks ++ [(kind, lp)] },
        if s.known && s.prop != 14 && !exists_ then some "nonode" else none)
    | .nonode => (s', if s.known && s.prop != 14 && exists_ then some "ok" else none)
    | _ => (s', some "ok | nonode")
  | .dump, .dump text nodes =>
    let s' := { s with lastDump := some text }
    if s.prop == 14 then
      match s.lastDump with
      | some t => (s', if t == text then none else some t)
      | none => (s', none)
    else if !s.known then (s', none)
    else
      let view := viewOf s
      (s', if viewMatch view nodes then none else some s!"dump-diff {viewDiff view nodes}")
  | .parse sub v, .val n ok =>
    if s.prop != 16 then (s, none) else
    match specTyped sub v with
    | .any => (s, none)
    | .reject => (s, if !ok then none else some "val * ok=0 (not a value of this type)")
    | .value k => (s, if ok && n == k then none else some s!"val {k} ok=1")
  | _, .other t => (s, if t == "bad-op" || t == "ok" then none else some "a well-formed record")
  | _, _ => (s, some "a record of the operation's kind")

end Iauthd.Conf.Spec
