import Iauthd.Util.Bytes
/-
  Conf engine, part 1: the lexer of src/config.c.

    * `wsGo`        = `conf_parse_whitespace` (care_eof flag, C and C++ comments, the
                      `/` followed by something else that is un-read)
    * `scanQ`       = first pass of `conf_parse_string` over a quoted string
    * `decodeQ`     = second pass (escape decoding)
    * `parseString` = `conf_parse_string`

  The file is a C string: `fileData` cuts the body at its first NUL byte; reading the
  position `length` yields the terminating NUL (the empty suffix below).
  Scanners are defined on the suffix `d.drop pos` and return how far the C cursor
  advanced; everything that moves the cursor *backwards* (`parse->curr--`) is position
  arithmetic in Parse.lean and can fault.
-/
namespace Iauthd.Conf

inductive Fault where
  | nullDeref (site : String)
  | oob (site : String) (idx : Nat)
  | useAfterFree (site : String)
  | doubleFree (site : String)
  | assertFail (site : String)
  deriving Repr, DecidableEq

inductive ParseErr where
  | prematureEof        -- PARSE_PREMATURE_EOF      -1
  | expectedString      -- PARSE_EXPECTED_STRING    -2
  | expectedComma       -- PARSE_EXPECTED_COMMA     -3
  | expectedSemicolon   -- PARSE_EXPECTED_SEMICOLON -4
  | systemError         -- PARSE_SYSTEM_ERROR       -5 (fread of an empty file)
  | outOfFuel           -- model artefact; `parse_fuel_suffices` shows it never happens
  | fault (f : Fault)   -- a memory error the C text would commit; `parse_no_fault`
  deriving Repr, DecidableEq

def ParseErr.code : ParseErr → Int
  | .prematureEof => -1
  | .expectedString => -2
  | .expectedComma => -3
  | .expectedSemicolon => -4
  | .systemError => -5
  | .outOfFuel => -100
  | .fault _ => -200

/-! ### character classes (`ctype_init` in src/common.c) -/

def isAlnum (c : UInt8) : Bool :=
  (48 ≤ c.toNat && c.toNat ≤ 57) || (65 ≤ c.toNat && c.toNat ≤ 90) || (97 ≤ c.toNat && c.toNat ≤ 122)

/-- `ct_istoken`: letters, digits, `-` `.` `_` `#` -/
def isToken (c : UInt8) : Bool := isAlnum c || c == 45 || c == 46 || c == 95 || c == 35

/-- `ct_isxdigit` -/
def isXDigit (c : UInt8) : Bool :=
  (48 ≤ c.toNat && c.toNat ≤ 57) || (65 ≤ c.toNat && c.toNat ≤ 70) || (97 ≤ c.toNat && c.toNat ≤ 102)

/-- `ct_xdigit_val` (meaningful on hex digits) -/
def xdigitVal (c : UInt8) : Nat :=
  if 48 ≤ c.toNat && c.toNat ≤ 57 then c.toNat - 48
  else if 65 ≤ c.toNat && c.toNat ≤ 70 then c.toNat - 55
  else if 97 ≤ c.toNat && c.toNat ≤ 102 then c.toNat - 87
  else 0

/-- C-locale `isspace` of a `char` promoted to `int` (bytes ≥ 0x80 are negative: never space) -/
def isSpaceC (c : UInt8) : Bool := c == 32 || (9 ≤ c.toNat && c.toNat ≤ 13)

/-- the bytes the parser sees: a C string -/
def fileData (body : Bytes) : Bytes := Bytes.cstr body

/-! ### conf_parse_whitespace -/

inductive WsMode | norm | block | line
  deriving Repr, DecidableEq

/-- the callee's result after the caller consumed `k` more bytes -/
def bump (k : Nat) (r : UInt8 × Nat) : UInt8 × Nat := (r.1, r.2 + k)

/-- `wsGo care mode s = (ch, k)`: the function returns `ch` (0 at end of input) after the
    cursor advanced by `k` over the suffix `s`.
    `norm`  : the outer `while (*parse->curr)` loop;
    `block` : inside `/* … */` (after the opener);
    `line`  : inside `// …` (after the opener). -/
def wsGo (care : Bool) : WsMode → Bytes → UInt8 × Nat
  | .norm, [] => (0, 0)
  | .norm, [c] =>
    if c == 10 then (if care then (10, 1) else (0, 1))
    else if isSpaceC c then (0, 1)
    else (c, 1)                      -- includes '/' + NUL: `curr++` past the NUL, then `curr--`
  | .norm, c :: d :: rest =>
    if c == 10 then
      if care then (10, 1) else bump 1 (wsGo care .norm (d :: rest))
    else if isSpaceC c then bump 1 (wsGo care .norm (d :: rest))
    else if c != 47 then (c, 1)
    else if d == 42 then bump 2 (wsGo care .block rest)
    else if d == 47 then bump 2 (wsGo care .line rest)
    else (47, 1)                     -- un-read `d`, return '/'
  | .block, [] => (0, 0)             -- NUL read, `curr--`: the cursor stays on the NUL
  | .block, [_] => (0, 1)
  | .block, c :: d :: rest =>
    if c == 42 && d == 47 then bump 2 (wsGo care .norm rest)
    else bump 1 (wsGo care .block (d :: rest))
  | .line, [] => (0, 0)
  | .line, c :: rest =>
    if c == 10 then                  -- un-read; the outer loop then sees the newline
      if care then (10, 1) else bump 1 (wsGo care .norm rest)
    else bump 1 (wsGo care .line rest)

/-- `conf_parse_whitespace(parse, care_eof)` at cursor `pos`: returned character and new cursor.
    Dereferencing a cursor beyond the terminating NUL is a fault. -/
def wsAt (care : Bool) (d : Bytes) (pos : Nat) : Except ParseErr (UInt8 × Nat) :=
  if pos > d.length then .error (.fault (.oob "conf_parse_whitespace" pos))
  else let r := wsGo care .norm (d.drop pos); .ok (r.1, pos + r.2)

/-- `parse->curr--` -/
def unread (pos : Nat) : Except ParseErr Nat :=
  if pos = 0 then .error (.fault (.oob "parse->curr--" 0)) else .ok (pos - 1)

/-! ### conf_parse_string -/

/-- First pass over a quoted string (`s` starts after the opening quote): offset of the
    closing quote, `none` when the NUL comes first. -/
def scanQ : Bytes → Option Nat
  | [] => none
  | c :: rest =>
    if c == 34 then some 0
    else if c == 92 then
      match rest with
      | [] => none
      | _ :: rest' => (scanQ rest').map (· + 2)
    else (scanQ rest).map (· + 1)

/-- Second pass: decoded bytes and the offset of the quote that stops it.  Running into
    the end of the data (the loop only tests for `"`) is an out-of-bounds read. -/
def escByte (e : UInt8) : UInt8 :=
  if e == 97 then 7 else if e == 98 then 8 else if e == 102 then 12
  else if e == 110 then 10 else if e == 114 then 13 else if e == 116 then 9
  else if e == 118 then 11 else e

def decodeQ : Bytes → Except Fault (Bytes × Nat)
  | [] => .error (.oob "conf_parse_string: second pass ran past the NUL" 0)
  | [c] =>
    if c == 34 then .ok ([], 0)
    else .error (.oob "conf_parse_string: second pass ran past the NUL" 1)
  | [c, e] =>
    if c == 34 then .ok ([], 0)
    else if c != 92 then (decodeQ [e]).map fun r => (c :: r.1, r.2 + 1)
    else .error (.oob "conf_parse_string: second pass ran past the NUL" 2)
  | [c, e, h1] =>
    if c == 34 then .ok ([], 0)
    else if c != 92 then (decodeQ [e, h1]).map fun r => (c :: r.1, r.2 + 1)
    else if e != 120 then (decodeQ [h1]).map fun r => (escByte e :: r.1, r.2 + 2)
    else if !isXDigit h1 then (decodeQ [h1]).map fun r => (r.1, r.2 + 2)
    else .error (.oob "conf_parse_string: second pass ran past the NUL" 3)
  | c :: e :: h1 :: h2 :: rest =>
    if c == 34 then .ok ([], 0)
    else if c != 92 then (decodeQ (e :: h1 :: h2 :: rest)).map fun r => (c :: r.1, r.2 + 1)
    else if e != 120 then (decodeQ (h1 :: h2 :: rest)).map fun r => (escByte e :: r.1, r.2 + 2)
    else if !isXDigit h1 then (decodeQ (h1 :: h2 :: rest)).map fun r => (r.1, r.2 + 2)   -- `\x`: nothing
    else if !isXDigit h2 then (decodeQ (h2 :: rest)).map fun r => (r.1, r.2 + 3)          -- `\xH`: nothing
    else (decodeQ rest).map fun r =>
      (UInt8.ofNat (xdigitVal h1 * 16 + xdigitVal h2) :: r.1, r.2 + 4)

/-- `conf_parse_string`: `none` is the NULL returned at end of input. -/
def parseString (d : Bytes) (pos : Nat) : Except ParseErr (Option Bytes × Nat) :=
  match wsAt false d pos with
  | .error e => .error e
  | .ok (ch, p1) =>
    if ch == 0 then .ok (none, p1)
    else
      let s := d.drop p1
      if ch == 34 then
        match scanQ s with
        | none => .error .prematureEof
        | some q =>
          match decodeQ s with
          | .error f => .error (.fault f)
          | .ok (bs, q2) =>
            -- buffer of q + 2 bytes (`end + 1 - start`), filled with the decoded bytes + NUL
            if bs.length + 1 > q + 2 then .error (.fault (.oob "conf_parse_string: sbuf overflow" bs.length))
            else .ok (some (Bytes.cstr bs), p1 + q2 + 1)
      else if isToken ch then
        let n := (s.takeWhile isToken).length
        .ok (some (ch :: s.take n), p1 + n)
      else .error .expectedString

end Iauthd.Conf

