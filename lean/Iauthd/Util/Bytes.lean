/-
  Byte-string helpers shared by all models and drivers (core Lean only).
-/
namespace Iauthd

abbrev Bytes := List UInt8

namespace Bytes

def hexDigit (n : Nat) : Char :=
  if n < 10 then Char.ofNat (48 + n) else Char.ofNat (87 + n)

def hexVal (c : Char) : Option Nat :=
  if '0' ≤ c ∧ c ≤ '9' then some (c.toNat - 48)
  else if 'a' ≤ c ∧ c ≤ 'f' then some (c.toNat - 87)
  else if 'A' ≤ c ∧ c ≤ 'F' then some (c.toNat - 55)
  else none

/-- hex text → bytes.  "=" is the empty string; "-" (NULL) is handled by callers. -/
def ofHex (s : String) : Bytes :=
  let rec go : List Char → Bytes
    | a :: b :: rest =>
      match hexVal a, hexVal b with
      | some x, some y => UInt8.ofNat (x * 16 + y) :: go rest
      | _, _ => []
    | _ => []
  go (if s.startsWith "=" then (s.drop 1).toString.toList else s.toList)

def toHex (b : Bytes) : String :=
  if b.isEmpty then "=" else
  String.ofList (b.flatMap fun x => [hexDigit (x.toNat / 16), hexDigit (x.toNat % 16)])

/-- optional bytes: "-" = none -/
def ofHexOpt (s : String) : Option Bytes := if s = "-" then none else some (ofHex s)
def toHexOpt : Option Bytes → String
  | none => "-"
  | some b => toHex b

def ofString (s : String) : Bytes := s.toUTF8.toList
def toStringLossy (b : Bytes) : String := String.ofList (b.map fun x => Char.ofNat x.toNat)

/-- C-locale `tolower` on a byte. -/
def lower (c : UInt8) : UInt8 := if 65 ≤ c.toNat ∧ c.toNat ≤ 90 then c + 32 else c

/-- C-locale isspace: space, \t \n \v \f \r -/
def isSpace (c : UInt8) : Bool := c == 32 || (9 ≤ c.toNat && c.toNat ≤ 13)
def isDigit (c : UInt8) : Bool := 48 ≤ c.toNat && c.toNat ≤ 57

/-- C string view: cut at the first NUL. -/
def cstr : Bytes → Bytes
  | [] => []
  | c :: cs => if c == 0 then [] else c :: cstr cs

/-- `strcmp` sign as Int difference of first differing bytes (unsigned). -/
def strcmp : Bytes → Bytes → Int
  | [], [] => 0
  | [], b :: _ => - (b.toNat : Int)
  | a :: _, [] => (a.toNat : Int)
  | a :: as, b :: bs => if a == b then strcmp as bs else (a.toNat : Int) - (b.toNat : Int)

/-- `strcasecmp` in the C locale. -/
def strcasecmp : Bytes → Bytes → Int
  | [], [] => 0
  | [], b :: _ => - ((lower b).toNat : Int)
  | a :: _, [] => ((lower a).toNat : Int)
  | a :: as, b :: bs =>
    if lower a == lower b then strcasecmp as bs else ((lower a).toNat : Int) - ((lower b).toNat : Int)

end Bytes

/-- two's-complement wrap to 32 bits -/
def wrap32 (i : Int) : Int :=
  let m := i % 4294967296
  if m ≥ 2147483648 then m - 4294967296 else m

def inInt32 (i : Int) : Bool := -2147483648 ≤ i && i ≤ 2147483647

end Iauthd
