import Iauthd.Proto.Props
/-
  Property C07 — "Concurrent clients do not interfere" (model part): frame theorems.  Whatever
  one client's event does, it is computed from that client's record and the static tables
  (`withReq` hands the handler exactly that), and it changes no other client's record.
-/
namespace Iauthd.Properties
open Iauthd Iauthd.Proto

theorem C07_event_frame {s s' : State} {req? : Option Req} {c : String} {ev : Ev} {out : List Bytes} (hi : Inv s)
    (h : onReq s req? c ev = .ok (s', out)) (id : Int) (hne : ∀ r, req? = some r → id ≠ r.client) :
    findReq s'.reqs id = findReq s.reqs id := onReq_others hi h id hne

theorem C07_drop_frame {s s' : State} {req? : Option Req} {c : String} {out : List Bytes}
    (h : dropReq s req? c = .ok (s', out)) (id : Int) (hne : ∀ r, req? = some r → id ≠ r.client) :
    findReq s'.reqs id = findReq s.reqs id := dropReq_others h id hne

theorem C07_reply_frame {s s' : State} {l : Line} {isX : Bool} {out : List Bytes}
    (h : onReply s l isX = .ok (s', out)) (id : Int)
    (hne : ∀ r, validateRequest s ((arg l 2).getD []) = some r → id ≠ r.client) :
    findReq s'.reqs id = findReq s.reqs id := onReply_others h id hne

theorem C07_announce_frame {s s' : State} {id0 : Int} {a p : Bytes} {out : List Bytes}
    (h : newClient s id0 a p = .ok (s', out)) (id : Int) (hne : id ≠ id0) :
    findReq s'.reqs id = findReq s.reqs id := newClient_others h id hne

/-- the handler sees nothing of the other requests: its input is this context -/
theorem C07_handler_input (s : State) (r : Req) (f : Ctx → M Ctx) :
    withReq s r f = (f (ctx0 s r)).map fun c =>
      ({ s with reqs := if c.gone then removeReq r.client s.reqs else putReq c.req s.reqs,
                svcs := c.svcs, rules := c.rules, stats := c.stats }, c.out) := withReq_eq s r f

end Iauthd.Properties
