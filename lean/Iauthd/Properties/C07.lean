import Iauthd.Proto.Props
import Iauthd.Proto.Start07
import Iauthd.Proto.Link07
import Iauthd.Properties.C10
/-
  Property C07 — "Concurrent clients do not interfere" (model part): frame theorems.  Whatever
  one client's event does, it is computed from that client's record and the static tables
  (`withReq` hands the handler exactly that), and it changes no other client's record.
-/
namespace Iauthd.Properties
open Iauthd Iauthd.Proto

theorem C07_event_frame {s s' : State} {req? : Option Req} {c : String} {ev : Ev} {out : List Bytes} (hi : Inv s)
    (h : onReq s req? c ev = .ok (s', out)) (id : Int) (hne : ∀ r, req? = some r → id ≠ r.client) :
    findReq s'.reqs id = findReq s.reqs id := onReq_others hi h id hne

theorem C07_drop_frame {s s' : State} {req? : Option Req} {c : String} {out : List Bytes}
    (h : dropReq s req? c = .ok (s', out)) (id : Int) (hne : ∀ r, req? = some r → id ≠ r.client) :
    findReq s'.reqs id = findReq s.reqs id := dropReq_others h id hne

theorem C07_reply_frame {s s' : State} {l : Line} {isX : Bool} {out : List Bytes}
    (h : onReply s l isX = .ok (s', out)) (id : Int)
    (hne : ∀ r, validateRequest s ((arg l 2).getD []) = some r → id ≠ r.client) :
    findReq s'.reqs id = findReq s.reqs id := onReply_others h id hne

theorem C07_announce_frame {s s' : State} {id0 : Int} {a p : Bytes} {out : List Bytes}
    (h : newClient s id0 a p = .ok (s', out)) (id : Int) (hne : id ≠ id0) :
    findReq s'.reqs id = findReq s.reqs id := newClient_others h id hne

/-- the handler sees nothing of the other requests: its input is this context -/
theorem C07_handler_input (s : State) (r : Req) (f : Ctx → M Ctx) :
    withReq s r f = (f (ctx0 s r)).map fun c =>
      ({ s with reqs := if c.gone then removeReq r.client s.reqs else putReq c.req s.reqs,
                svcs := c.svcs, rules := c.rules, stats := c.stats }, c.out) := withReq_eq s r f

/-! ### every history -/

/-- **C07 for every history of client events.**  From any state that satisfies the table invariant
    and in which every service slot in use is a configured service: take any list of client events
    (lines of clients, replies routed to the live instance of a client, timer expiries) on which the
    daemon runs; then the daemon also runs on the sub-list of the events of one client `cl`, and
    event by event (`Conv`)
    * an event of `cl` writes the same lines in both runs, except that a query carries the routing
      tag of its own run - same client id, that run's serial (`OutRel` / `LineRel`);
    * an event of any other client writes only global notices and lines rendered for a request of
      that other client (`Foreign`).
    Nothing else is assumed about the other clients' traffic: which ids, how many, in which order. -/
theorem C07_history (cl : Int) (s : State) (hi : Inv s) (hc : AllConf s.svcs) (es : List Ev07) (hw : ∀ e ∈ es, e.WF)
    (sf : State) (outs : List (List Bytes)) (hr : run07 s es = .ok (sf, outs)) :
    ∃ sf' outs', run07 s (es.filter fun e => e.owner == cl) = .ok (sf', outs') ∧ Conv cl es outs outs' := by
  obtain ⟨sf', outs', h1, _, h3⟩ := run07_conv cl es s s (SR.refl cl s hc) hi hw sf outs hr
  exact ⟨sf', outs', h1, h3⟩

/-- … in particular from the daemon as started on any configuration -/
theorem C07_history_started (hasXq hasClass : Bool) (hdep : hasClass = true → hasXq = true) (lim : Limits)
    (hacc : 0 < lim.account) (cfg : Config) (cl : Int) (es : List Ev07) (hw : ∀ e ∈ es, e.WF)
    (sf : State) (outs : List (List Bytes))
    (hr : run07 (applyConfig (bootState hasXq hasClass lim) {} cfg true).1 es = .ok (sf, outs)) :
    ∃ sf' outs', run07 (applyConfig (bootState hasXq hasClass lim) {} cfg true).1 (es.filter fun e => e.owner == cl) = .ok (sf', outs')
      ∧ Conv cl es outs outs' :=
  C07_history cl _ (start_inv hasXq hasClass hdep lim hacc cfg) (start_allConf hasXq hasClass lim cfg) es hw sf outs hr

/-- the same without any hypothesis about the run: the model has no failing step on client events
    (`run07_total`), so both runs exist for every history -/
theorem C07_history_started_total (hasXq hasClass : Bool) (hdep : hasClass = true → hasXq = true) (lim : Limits)
    (hacc : 0 < lim.account) (cfg : Config) (cl : Int) (es : List Ev07) (hw : ∀ e ∈ es, e.WF) :
    ∃ sf outs sf' outs', run07 (applyConfig (bootState hasXq hasClass lim) {} cfg true).1 es = .ok (sf, outs) ∧
      run07 (applyConfig (bootState hasXq hasClass lim) {} cfg true).1 (es.filter fun e => e.owner == cl) = .ok (sf', outs') ∧
      Conv cl es outs outs' := by
  obtain ⟨⟨sf, outs⟩, hr⟩ := run07_total es _ (start_inv hasXq hasClass hdep lim hacc cfg)
  obtain ⟨sf', outs', h1, h2⟩ := C07_history_started hasXq hasClass hdep lim hacc cfg cl es hw sf outs hr
  exact ⟨sf, outs, sf', outs', hr, h1, h2⟩

/-- the three module sets of the daemon meet the hypotheses -/
example (cfg : Config) (cl : Int) (es : List Ev07) (hw : ∀ e ∈ es, e.WF) :=
  C07_history_started_total true true (by decide) {} (by decide) cfg cl es hw
example (cfg : Config) (cl : Int) (es : List Ev07) (hw : ∀ e ∈ es, e.WF) :=
  C07_history_started_total true false (by decide) {} (by decide) cfg cl es hw
example (cfg : Config) (cl : Int) (es : List Ev07) (hw : ∀ e ∈ es, e.WF) :=
  C07_history_started_total false false (by decide) {} (by decide) cfg cl es hw

/-- a client line is one: `5 N host`; a reply spelled as a line of a client is not (`5 X …`) -/
example : ClientLine (b "5 N host.example") := by
  refine ⟨by decide, ?_⟩
  intro a0 args h
  have : (tokenize (b "5 N host.example")).argv = [b "N", b "host.example"] := by decide
  rw [this] at h
  cases h
  decide
example : ¬ ClientLine (b "5 X svc 7_1 :OK") := by
  intro h
  have := h.2 (b "X") [b "svc", b "7_1", b "OK"] (by decide)
  exact absurd this.1 (by decide)

/-- the reply event of the history theorems is the reply *line*: for a stored request and a service
    name that is a word, `stepLine` on `-1 X <service> <that request's routing tag> :<text>` (or the
    `x` notice) is the reply event for that client -/
theorem C07_reply_event_is_line (s : State) (hs : StateOK s) (r : Req) (hf : findReq s.reqs r.client = some r)
    (isX : Bool) (svc text : Bytes) (hsv : IWord svc) :
    stepLine s (replyLine isX svc (routing r) text) = exec07 s (.reply r.client svc (if isX then some text else none)) :=
  reply_is_line s hs r hf isX svc text hsv

/-- two interleavings of the same per-client streams give `cl` the same conversation as `cl` alone,
    hence the same as each other (up to the serial in the routing tags): the statement of the
    property is the composition of two instances of `C07_history`. -/
theorem C07_two_interleavings (cl : Int) (s : State) (hi : Inv s) (hc : AllConf s.svcs) (es1 es2 : List Ev07)
    (hw1 : ∀ e ∈ es1, e.WF) (hw2 : ∀ e ∈ es2, e.WF)
    (hsame : (es1.filter fun e => e.owner == cl) = (es2.filter fun e => e.owner == cl))
    (sf1 sf2 : State) (o1 o2 : List (List Bytes)) (h1 : run07 s es1 = .ok (sf1, o1)) (h2 : run07 s es2 = .ok (sf2, o2)) :
    ∃ sf' solo, run07 s (es1.filter fun e => e.owner == cl) = .ok (sf', solo) ∧ Conv cl es1 o1 solo ∧ Conv cl es2 o2 solo := by
  obtain ⟨sfa, oa, ra, ca⟩ := C07_history cl s hi hc es1 hw1 sf1 o1 h1
  obtain ⟨sfb, ob, rb, cb⟩ := C07_history cl s hi hc es2 hw2 sf2 o2 h2
  rw [← hsame] at rb
  rw [ra] at rb
  simp only [Except.ok.injEq, Prod.mk.injEq] at rb
  obtain ⟨_, rfl⟩ := rb
  exact ⟨sfa, oa, ra, ca, cb⟩

end Iauthd.Properties
