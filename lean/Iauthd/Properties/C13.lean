import Iauthd.Addr.Proofs
import Iauthd.Addr.ProofsMask6
/-
  C13 — netmask parsing and matching are exact.

  "For every address, mask address and prefix length, the mask test succeeds exactly when the
   leading prefix-length bits are equal.  Every CIDR (a.b.c.d/n, x:y::/n) or wildcard (a.b.*,
   x:y:*, *) text yields the documented prefix length and network bits, every other string is
   rejected or parsed without touching memory outside its arguments, and wherever both accept
   a plain address string the parser agrees with the standard library parser."

  Model: `Iauthd.Addr.checkMask`, `ptonWith fx` (Model.lean): `fx = false` (`pton`) is the parser
  as it is in the repository, `fx = true` (`ptonFixed`) the parser after the candidate repair
  fix_pton_cidr.diff of F26.  Every theorem below holds for both.  Spec: `prefixEq`, `docParse`, `refParse` (Spec.lean); the
  judge evaluates `c13MaskCheck` / `c13PtonCheck` on the C code.
-/
namespace Iauthd.Properties
open Iauthd Iauthd.Addr

/-- **C13 (matching)**: for all addresses, masks and every length `n` (unbounded):
    `irc_check_mask` succeeds exactly when the leading `min n 128` bits are equal. -/
theorem C13_mask (a m : Addr) (n : Nat) :
    checkMask a m n = true ↔ val128 a / 2 ^ (128 - min n 128) = val128 m / 2 ^ (128 - min n 128) :=
  mask_spec a m n

/-- the judge's predicate holds of the model's own answer -/
theorem C13_mask_judge_on_model (a m : Addr) (n : Nat) : c13MaskCheck a m n (checkMask a m n) = none := by
  simp [c13MaskCheck, mask_spec_bool]

/-- **C13 (every string)**: for every input string and every flag combination the parser
    returns without touching memory outside its arguments: no read past the terminating NUL,
    no group index outside 0..7, `part_start` non-NULL when dereferenced, no loop overruns. -/
theorem C13_safe (fx : Bool) (input : Bytes) (wantBits allowTrailing : Bool) :
    (ptonWith fx input wantBits allowTrailing).isOk = true :=
  pton_safe fx input wantBits allowTrailing

/-- **C13 (agreement with the standard parser)** — *partial*: proved for every text the
    daemon's printer produces (all 2^128 addresses); for arbitrary accepted strings the
    agreement is checked differentially against glibc on every run (judge).
    Full statement (not proved):
      `∀ s r a, pton s false false = .ok r → r.ret = s.length → s ≠ [] → refParse s = some a → r.addr = a`.
    Missing: a proof that the C state machine and the reference grammar agree on *all*
    strings both accept (leading zeros, upper case, every placement of "::", dotted tails). -/
theorem C13_agree_partial (fx : Bool) (a : Addr) :
    ∃ r, ptonWith fx (ntop a 40).1 false false = .ok r ∧ r.ret = (ntop a 40).1.length ∧
      refParse (ntop a 40).1 = some r.addr :=
  ⟨_, ntop_pton fx a, rfl, ntop_ref a⟩

/-- **C13 (a plain address is its own /128)**: for every address, the text the daemon prints
    for it, given to the parser as a netmask text (`bits != NULL`, the class rules' `address`
    criterion), yields that address (canonical form) with prefix length 128 — so such a rule
    matches exactly that address (`C13_mask` with n = 128). -/
theorem C13_plain_is_128 (fx : Bool) (a : Addr) :
    ptonWith fx (ntop a 40).1 true false = .ok ⟨(ntop a 40).1.length, canon a, some 128, false⟩ :=
  ntop_pton_wb fx a true

/-- **C13 (documented netmask texts)**: every documented form is a theorem for all its instances:
    `*…` (any number of stars), `a.b.c.d/n` (n ≤ 32), `a.*`, `a.b.*`, `a.b.c.*`,
    `x:y:*` (one to seven groups; any number of stars) and `<address>/n` (n ≤ 128) for every
    non-dotted address *in the text the daemon prints for it* (which covers every placement of
    "::" the printer produces, and the uncompressed eight-group form).
    What stays with the judge (differential, every run): IPv6 CIDR texts in a spelling the
    printer would not produce (leading zeros, upper case, a "::" that is not the longest zero
    run, dotted tails), and partial quads `a.b/n`, which the documentation does not list.
    The IPv6 CIDR form was *false* of the parser before the repair of F26 for texts with seven
    groups followed by "::" (`pton_F26_cidr_rejected`; no canonical text has that shape);
    `ptonFixed_F26_cidr` shows the same text accepted after the repair. -/
theorem C13_netmask (fx : Bool) :
    (∀ k wb, ptonWith fx (List.replicate (k + 1) 42) wb false = .ok ⟨k + 1, Addr.zero, setBits wb none 0, false⟩) ∧
    (∀ o1 o2 o3 o4 n, o1 < 256 → o2 < 256 → o3 < 256 → o4 < 256 → n ≤ 32 →
      ptonWith fx (quadText o1 o2 o3 o4 ++ 47 :: decOctet n) true false =
        .ok ⟨(quadText o1 o2 o3 o4 ++ 47 :: decOctet n).length, mapped4 o1 o2 o3 o4, some (96 + n), false⟩) ∧
    (∀ o1, o1 < 256 →
      ptonWith fx (decOctet o1 ++ [46, 42]) true false =
        .ok ⟨(decOctet o1 ++ [46, 42]).length, mapped4 o1 0 0 0, some 104, false⟩) ∧
    (∀ o1 o2, o1 < 256 → o2 < 256 →
      ptonWith fx (decOctet o1 ++ 46 :: (decOctet o2 ++ [46, 42])) true false =
        .ok ⟨(decOctet o1 ++ 46 :: (decOctet o2 ++ [46, 42])).length, mapped4 o1 o2 0 0, some 112, false⟩) ∧
    (∀ o1 o2 o3, o1 < 256 → o2 < 256 → o3 < 256 →
      ptonWith fx (decOctet o1 ++ 46 :: (decOctet o2 ++ 46 :: (decOctet o3 ++ [46, 42]))) true false =
        .ok ⟨(decOctet o1 ++ 46 :: (decOctet o2 ++ 46 :: (decOctet o3 ++ [46, 42]))).length, mapped4 o1 o2 o3 0,
          some 120, false⟩) ∧
    (∀ wb g gs k, (g :: gs).length ≤ 7 → (∀ x ∈ g :: gs, x < 65536) →
      ptonWith fx (units (g :: gs) ++ List.replicate (k + 1) 42) wb false =
        .ok ⟨(units (g :: gs) ++ List.replicate (k + 1) 42).length, storeAll Addr.zero 0 (g :: gs),
          setBits wb none ((g :: gs).length * 16), false⟩) ∧
    (∀ a n, isIPv4 a = false → n ≤ 128 →
      ptonWith fx ((ntop a 40).1 ++ 47 :: decOctet n) true false =
        .ok ⟨((ntop a 40).1 ++ 47 :: decOctet n).length, a, some n, false⟩) :=
  ⟨star fx, fun o1 o2 o3 o4 n h1 h2 h3 h4 hn => cidr4 fx o1 o2 o3 o4 n h1 h2 h3 h4 hn,
   fun o1 h1 => wild4_1 fx o1 h1,
   fun o1 o2 h1 h2 => wild4 fx o1 o2 h1 h2,
   fun o1 o2 o3 h1 h2 h3 => wild4_3 fx o1 o2 o3 h1 h2 h3,
   fun wb g gs k hl hall => wild6 fx wb g gs hl hall k,
   fun a n h4 hn => ntop_cidr6 fx a h4 n hn⟩

/-- the older name: the three forms proved first -/
theorem C13_netmask_partial (fx : Bool) :
    (∀ k wb, ptonWith fx (List.replicate (k + 1) 42) wb false = .ok ⟨k + 1, Addr.zero, setBits wb none 0, false⟩) ∧
    (∀ o1 o2 o3 o4 n, o1 < 256 → o2 < 256 → o3 < 256 → o4 < 256 → n ≤ 32 →
      ptonWith fx (quadText o1 o2 o3 o4 ++ 47 :: decOctet n) true false =
        .ok ⟨(quadText o1 o2 o3 o4 ++ 47 :: decOctet n).length, mapped4 o1 o2 o3 o4, some (96 + n), false⟩) ∧
    (∀ o1 o2, o1 < 256 → o2 < 256 →
      ptonWith fx (decOctet o1 ++ 46 :: (decOctet o2 ++ [46, 42])) true false =
        .ok ⟨(decOctet o1 ++ 46 :: (decOctet o2 ++ [46, 42])).length, mapped4 o1 o2 0 0, some 112, false⟩) :=
  ⟨(C13_netmask fx).1, (C13_netmask fx).2.1, (C13_netmask fx).2.2.2.1⟩

/-! non-vacuity and sanity of the spec side -/

/-- the texts of `C13_netmask_partial` are what they claim to be: `127.0.0.1/8`, `10.1.*` -/
example : quadText 127 0 0 1 ++ 47 :: decOctet 8 = [49, 50, 55, 46, 48, 46, 48, 46, 49, 47, 56] := by decide
example : decOctet 10 ++ 46 :: (decOctet 1 ++ [46, 42]) = [49, 48, 46, 49, 46, 42] := by decide
/-- … and the spec's documented reading of them agrees with the theorems -/
example : docParse (quadText 127 0 0 1 ++ 47 :: decOctet 8) = some (mapped4 127 0 0 1, 96 + 8) := by decide
example : docParse (decOctet 10 ++ 46 :: (decOctet 1 ++ [46, 42])) = some (mapped4 10 1 0 0, 112) := by decide
example : docParse [42, 42] = some (Addr.zero, 0) := by decide
/-- the IPv6 texts: `2001:db8:*` and `2001:db8::/32` (the printed form of 2001:db8:: plus "/32") -/
example : units [0x2001, 0xdb8] ++ List.replicate 1 42 = [50, 48, 48, 49, 58, 100, 98, 56, 58, 42] := by decide
example : docParse (units [0x2001, 0xdb8] ++ List.replicate 1 42) = some (Addr.ofList [0x2001, 0xdb8, 0, 0, 0, 0, 0, 0], 32) := by decide
example : (ntop (Addr.ofList [0x2001, 0xdb8, 0, 0, 0, 0, 0, 0]) 40).1 ++ 47 :: decOctet 32
    = [50, 48, 48, 49, 58, 100, 98, 56, 58, 58, 47, 51, 50] := by decide
example : docParse ((ntop (Addr.ofList [0x2001, 0xdb8, 0, 0, 0, 0, 0, 0]) 40).1 ++ 47 :: decOctet 32)
    = some (Addr.ofList [0x2001, 0xdb8, 0, 0, 0, 0, 0, 0], 32) := by decide
example : storeAll Addr.zero 0 [0x2001, 0xdb8] = Addr.ofList [0x2001, 0xdb8, 0, 0, 0, 0, 0, 0] := by decide
/-- the mask test can fail and can succeed -/
example : checkMask (Addr.ofList [1, 2, 3, 4, 5, 6, 7, 8]) (Addr.ofList [1, 2, 3, 4, 5, 6, 7, 9]) 127 = true := by decide
example : checkMask (Addr.ofList [1, 2, 3, 4, 5, 6, 7, 8]) (Addr.ofList [1, 2, 3, 4, 5, 6, 7, 9]) 128 = false := by decide

end Iauthd.Properties
