import Iauthd.Conf.ProofsBridge2
import Iauthd.Conf.ProofsTyped
import Iauthd.Conf.Counterexamples
import Iauthd.Conf.Judge
import Iauthd.Conf.ProofsGaps
/-
  Property C16 — "Config text means what it says".

  Formal reading.  A document (`Spec.Doc`: entries with repeated keys, strings over all
  byte values except NUL, lists, host/service pairs, nested objects) has a canonical tree
  (`Spec.canonTree`: later duplicates override earlier ones, repeated objects merge,
  siblings in key order, the first spelling of a name is kept).  `Spec.render doc layout`
  writes it down with a `Layout` choosing, per string, bare or quoted form and an escape
  per byte (raw, \n-style, \xhh, \xHH, backslash), per gap ANY sequence of blank bytes, newlines, C comments (any NUL-free body
  without the closing pair) and C++ comments (`Spec.GapPiece`; gap numbers denote all of them:
  `decodeGap_gapOfPieces`; numbers below 36 index a table of ten common ones), per entry a terminator, per list the parenthesised or the comma
  form.  `parseFile` must read every such text back as the canonical tree.

  Proved (kernel-checked, all documents, no size bound):
    * `string_roundtrip`, `scan_roundtrip`: every escape choice decodes to the byte,
      both passes of `conf_parse_string` agree; `parseString_at`: bare and quoted strings
      at any position after any gap; `gapAny_ok`/`gapFlat_ok`/`gapAny_care`: every gap of
      the alphabet is skipped (with `care_eof`: up to its first newline);
    * `pfold_canonTree`: the tree the parser accumulates is `canonTree`;
    * `C16_full`: for the repaired parser (F10, F11, F12: `FixedParser V`) and EVERY
      layout — any string form, any gap, `;` / newline / both / no terminator before `}`
      and at end of input, lists in parentheses or comma form —
      `parseFile V (render doc layout)` is the canonical tree of `doc`;
    * `C16_partial`: the same for the layout family "every entry terminated, lists
      parenthesised" for EVERY variant, i.e. also for the pinned parser (what the pinned
      parser gets wrong lies outside this family: `Cex.f10_…`, `f11_…`, `f12_…`);
    * `typed_spec` (`boolean_spec`, `integer_spec`, `interval_spec`, `volume_spec`):
      the typed parsers deliver exactly what the property's reading prescribes and reject
      what it says must be rejected; `typed_reject`/`typed_accept`: a rejected text
      leaves the value in force, an accepted one replaces it.

  Hypothesis: the document's strings are NUL-free (`EntsNN`); the configuration file is a
  C string.
-/
namespace Iauthd.Properties
open Iauthd Iauthd.Conf

theorem C16 (doc : Spec.Doc) (lay : Spec.Layout) (hnn : EntsNN doc) :
    ∃ t, parseFile Variant.fixed (Spec.render doc lay) = .ok t ∧ t.map toC = Spec.canonTree doc :=
  C16_full Variant.fixed fixed_parser doc lay hnn

/-- the part that does not depend on the repairs -/
theorem C16_any_variant (V : Variant) (doc : Spec.Doc) (lay : Spec.Layout)
    (hfam : entsOk doc lay.entries = true) (hnn : EntsNN doc) :
    ∃ t, parseFile V (Spec.render doc lay) = .ok t ∧ t.map toC = Spec.canonTree doc :=
  C16_partial V doc lay hfam hnn

/-- the gaps a layout can choose are all gaps: for every list of pieces there is a gap number that
    is written as exactly those pieces (so `C16`, quantified over all layouts, covers every
    interleaving of blanks, newlines and comments at every gap position) -/
theorem C16_all_gaps (ps : List Spec.GapPiece) (hv : ∀ p ∈ ps, Spec.PieceNN p) :
    Spec.gapAny (Spec.gapOfPieces ps) = Spec.renderPieces false ps ∧
    Spec.gapFlat (Spec.gapOfPieces ps) = Spec.renderPieces true ps :=
  Spec.gapAny_gapOfPieces ps hv

theorem C16_typed (sub : SubTy) (v : Bytes) :
    (∀ n, Spec.specTyped sub.code v = .value n → parseTyped true sub v = (n, true)) ∧
    (Spec.specTyped sub.code v = .reject → (parseTyped true sub v).2 = false) :=
  typed_spec sub v

/-- non-vacuity: a document with all four node kinds, a repeated key and a nested object
    under a layout of the family; and typed texts of every subtype -/
example :
    entsOk [(Cex.s "a", .str (Cex.s "x y")), (Cex.s "b", .list [Cex.s "p", Cex.s "q"]), (Cex.s "c", .pair (Cex.s "h") (Cex.s "80")),
            (Cex.s "o", .obj [(Cex.s "a", .str (Cex.s "1"))]), (Cex.s "A", .str (Cex.s "z"))]
      [(2, ⟨true, []⟩, 1, .str ⟨false, [.hex, .raw, .bsl]⟩, 4, .nl), (0, ⟨false, []⟩, 0, .list true 1 [] 5, 0, .both),
       (5, ⟨true, []⟩, 3, .pair ⟨true, []⟩ 0 ⟨false, []⟩, 1, .semi),
       (0, ⟨true, []⟩, 0, .obj 2 [(1, ⟨true, []⟩, 1, .str ⟨true, []⟩, 0, .semi)] 9, 0, .nl),
       (0, ⟨true, []⟩, 1, .str ⟨true, []⟩, 0, .semi)] = true := by decide +kernel

/-- … and a layout outside that family: a comma list without terminator before `}` and a
    last entry without terminator at the end of the input (the text is `a{b c,d};e f`) -/
example :
    Spec.render [(Cex.s "a", .obj [(Cex.s "b", .list [Cex.s "c", Cex.s "d"])]), (Cex.s "e", .str (Cex.s "f"))]
      ⟨[(0, ⟨true, []⟩, 0, .obj 0 [(0, ⟨true, []⟩, 1, .list false 0 [] 0, 0, .none)] 0, 0, .none),
        (0, ⟨true, []⟩, 1, .str ⟨true, []⟩, 0, .none)], 0⟩ = Cex.s "a{b c,d};e f" ∧
    (match parseFile .fixed (Cex.s "a{b c,d};e f") with | .ok t => t.map PNode.name | _ => []) = [Cex.s "a", Cex.s "e"] ∧
    (match parseFile .pinned (Cex.s "a{b c,d};e f") with | .error e => e.code | _ => 0) = -3 := by
  decide +kernel

example : Spec.specTyped 4 (Cex.s "1y2d03:04:05") = .value 31719845 ∧ Spec.specTyped 5 (Cex.s "1G2M3K4") = .value 1075842052 ∧
    Spec.specTyped 2 (Cex.s "0x1f") = .value 31 ∧ Spec.specTyped 1 (Cex.s "maybe") = .reject ∧
    Spec.specTyped 5 (Cex.s "12q") = .reject := by decide +kernel

end Iauthd.Properties
