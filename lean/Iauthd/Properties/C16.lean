import Iauthd.Conf.Model
import Iauthd.Conf.Judge
/- C16: headline statements (filled in below as the proofs land) -/
