import Iauthd.Proto.Props
import Iauthd.Proto.ModesAgree
/-
  Property C06 — "Queries are timely and carry the client's own data" (model part).
-/
namespace Iauthd.Properties
open Iauthd Iauthd.Proto

/-- for each service slot, the X lines appended in one pass of `iauth_xquery_check` are the
    service's query lines exactly when the service is eligible, nothing otherwise -/
theorem C06_query_iff (p : Bool) (c : Ctx) (cli : XqCli) (i : Nat) (srv : Svc) (hs : getSvc c.svcs i = some srv) :
    (xqCheckSlot p c cli i).1.out =
      c.out ++ (if xqEligible p srv cli i c.req.flags then xqQueryLines c.lim srv cli c.req else []) :=
  xqCheckSlot_query_iff p c cli i srv hs

/-- eligibility: configured, prerequisites of the protocol delivered (or hurry-up, which sets
    them), credentials present for the login protocols, and not asked before unless this is a
    password event and the service is not a drone check -/
theorem C06_eligible (p : Bool) (srv : Svc) (cli : XqCli) (i : Nat) (f : Flags)
    (h : xqEligible p srv cli i f = true) :
    srv.configured = true ∧ srv.ty.prereq.subset f = true
      ∧ ((srv.ty = .login ∨ srv.ty = .loginIpr) → cli.cred ≠ [])
      ∧ (cli.sent.contains i = true → p = true ∧ srv.ty ≠ .dronecheck) :=
  eligible_needs p srv cli i f h

/-- a password that lacks the `<modes> <account> <password>` shape is dropped: no state change,
    no query -/
theorem C06_malformed_password (c : Ctx) (cli : XqCli) (pw : Bytes) (h : checkPasswordShape pw = none) :
    xqCheckPassword c cli pw = c := by
  unfold xqCheckPassword; simp only [h]

/-- field limits of what is forwarded -/
theorem C06_limits (lim : Limits) (r : Req) (n : Nat) (s : Bytes) :
    (xqUsername lim r).length ≤ lim.user ∧ (strncpyN n s).length ≤ n := by
  refine ⟨xqUsername_len lim r, ?_⟩
  unfold strncpyN; simp [List.length_take]; omega

/-- what is copied is a prefix of what the server reported -/
theorem C06_prefix (n : Nat) (s : Bytes) : strncpyN n s <+: s := by
  unfold strncpyN; exact List.take_prefix n s


/-- the trace judge and the daemon accept the same PASS texts as `<modes> <account> <password>` and
    read the same net modes (+x, +!) out of the mode word - for every text -/
theorem C06_password_readers_agree (pw : Bytes) :
    (Hist.wellShaped pw).isSome = (checkPasswordShape pw).isSome ∧
    ∀ n m cred, Hist.wellShaped pw = some n → checkPasswordShape pw = some (m, cred) → AccRel m n :=
  password_readers_agree pw

end Iauthd.Properties
