import Iauthd.Conf.ProofsRead
import Iauthd.Conf.Counterexamples
import Iauthd.Conf.Judge
/-
  Property C14 — "Config parsing is total and a failed load changes nothing".

  Formal reading.  `parseFile V body` is the parsing half of `conf_read` on the bytes of
  the file (a C string: cut at the first NUL), `confRead V sv st body` the whole call on
  the state `st` (live tree + ownership tokens).  For *every* byte sequence, *every*
  prior state and both texts of config.c (pinned and repaired, `V`):

    * the parser is a total function whose recursion is bounded by the input
      (`parse_fuel_suffices`), commits none of the memory errors the model can express
      (`parse_no_fault`: cursor within [0, length] at every `curr--` and dereference, no
      NULL handed to `strcasecmp`/`string_vector_append`, escape decoding stops at the
      quote found by the sizing pass and stays within the buffer it sized), and ends in
      success or one of the five `PARSE_*` codes (`load_total`);
    * when it reports an error, the live configuration, the heap and the hook log are
      exactly what they were (`failed_load_inert`).

  Memory errors during the *merge* of a successful parse belong to C15
  (`merge_no_fault`; false on the pinned text: F9, see Counterexamples.lean), but a
  failed load after such a merge is where they surface, so the C14 check reports them too.
-/
namespace Iauthd.Properties
open Iauthd Iauthd.Conf

theorem C14 (V : Variant) (sv : Bool) (st : State) (body : Bytes) :
    parseFile V body ≠ .error .outOfFuel
    ∧ (∀ f, parseFile V body ≠ .error (.fault f))
    ∧ ((∃ t, parseFile V body = .ok t) ∨
       (∃ e, parseFile V body = .error e ∧ e.code ∈ [(-1 : Int), -2, -3, -4, -5]))
    ∧ (∀ e, parseFile V body = .error e → confRead V sv st body = .ok (st, ⟨e.code, [], 0⟩)) :=
  ⟨parse_fuel_suffices V body, parse_no_fault V body, load_total V body,
   fun e h => failed_load_inert V sv st body e h⟩

/-- non-vacuity: files that are rejected with each of the codes, on top of a non-empty state -/
example :
    (parseFile .fixed (Cex.s "a {")).toOption = none ∧
    (match parseFile .fixed (Cex.s "a \"b") with | .error e => e.code | _ => 0) = -1 ∧
    (match parseFile .fixed (Cex.s "a ;") with | .error e => e.code | _ => 0) = -2 ∧
    (match parseFile .fixed (Cex.s "a (b c)") with | .error e => e.code | _ => 0) = -3 ∧
    (match parseFile .fixed (Cex.s "a b c d\n") with | .error e => e.code | _ => 0) = -4 ∧
    (match parseFile .fixed [] with | .error e => e.code | _ => 0) = -5 ∧
    (match parseFile .fixed (Cex.s "a b\n") with | .ok t => t.length | _ => 0) = 1 := by decide +kernel

end Iauthd.Properties
