import Iauthd.Proto.Reload17
import Iauthd.Proto.Table
/-
  Property C17 — "A reload reaches the decision modules" (model part).  The observable
  statement (reloaded daemon = freshly started daemon on probe clients) is decided by the
  differential judge on the real code.  Proved here: how the model delivers a configuration.
-/
namespace Iauthd.Properties
open Iauthd Iauthd.Proto

/-- whenever the merged service section differs from the live one in any way — an entry
    added, removed, or only its value edited — the service table is rebuilt from it;
    likewise the rule vector.  (On the pinned tree only membership changes were delivered.) -/
theorem C17_delivery (s : State) (live new : Config) (first : Bool) :
    (applyConfig s live new first).1 =
      (let s0 := { s with timeout := new.timeout }
       let s1 := if s0.hasXq && (first || mergeSection live.xq new.xq != live.xq)
                 then servicesChanged s0 (mergeSection live.xq new.xq) else s0
       if s1.hasClass && (first || mergeSection live.cls new.cls != live.cls)
       then classChanged s1 (mergeSection live.cls new.cls) else s1)
    ∧ (applyConfig s live new first).2 =
        { timeout := new.timeout, xq := mergeSection live.xq new.xq, cls := mergeSection live.cls new.cls } :=
  ⟨rfl, rfl⟩

/-- the rule vector after a rebuild is the compilation of the object children of the section,
    in section order, with hit counters inherited by name -/
theorem C17_rules (s : State) (sec : List CNode) :
    (classChanged s sec).rules = inheritAssigned ((sec.filter (!·.isString)).map compileRule) s.rules
    ∧ (classChanged s sec).nRuleNodes = sec.length := ⟨rfl, rfl⟩

/-- hit-counter inheritance does not change what a rule says -/
theorem C17_inherit_same_rules (new old : List Rule) :
    (inheritAssigned new old).map (fun r => { r with assigned := 0 }) = new.map (fun r => { r with assigned := 0 }) := by
  induction new generalizing old with
  | nil => rfl
  | cons r rs ih =>
    unfold inheritAssigned
    dsimp only
    split
    · split <;> simp [ih]
    · simp [ih]

/-- a new request uses the timeout of the configuration that is live when it is announced -/
theorem C17_timeout (s : State) (live new : Config) (first : Bool) :
    (applyConfig s live new first).1.timeout = new.timeout := by
  simp only [applyConfig]
  split <;> split <;> simp [servicesChanged, classChanged]

/-! ### the tables after a reload and after a fresh start -/

/-- **C17, service table**: when nobody waits for a service (no reference is outstanding), a rescan
    of the service section - from whatever table the earlier files left - yields a table that holds
    exactly the services the section names with a known protocol, each with that protocol (and every
    slot in use is configured: `servicesChanged_allConf`) -/
theorem C17_services (s : State) (sec : List CNode) (hok : TableOK s.svcs) (hr : NoRefs s.svcs)
    (hd : SecDistinct sec) (hn : ∀ n ∈ sec, NoNul n.name) (name : Bytes) (t : SvcTy) :
    (∃ y, some y ∈ (servicesChanged s sec).svcs ∧ y.name = name ∧ y.ty = t) ↔ Wants sec name t :=
  servicesChanged_exact s sec hok hr hd hn name t

/-- … hence the same services, with the same protocols, as a daemon freshly started on the section -/
theorem C17_services_fresh (s s0 : State) (sec : List CNode) (hok : TableOK s.svcs) (hr : NoRefs s.svcs)
    (h0 : s0.svcs = []) (hd : SecDistinct sec) (hn : ∀ n ∈ sec, NoNul n.name) (name : Bytes) (t : SvcTy) :
    (∃ y, some y ∈ (servicesChanged s sec).svcs ∧ y.name = name ∧ y.ty = t) ↔
    (∃ y, some y ∈ (servicesChanged s0 sec).svcs ∧ y.name = name ∧ y.ty = t) :=
  servicesChanged_fresh s s0 sec hok hr h0 hd hn name t

/-- **C17, rule table**: after a rebuild the rules are, up to their hit counters, the compilation of
    the section - the same list, in the same order, as after a fresh start on that section -/
theorem C17_rules_fresh (s s0 : State) (sec : List CNode) :
    eraseR (classChanged s sec).rules = eraseR (classChanged s0 sec).rules := by
  rw [(C17_rules s sec).1, (C17_rules s0 sec).1]
  unfold eraseR
  have e : ∀ (l : List Rule), l.map kernelR = l.map (fun r => { r with assigned := 0 }) := fun l => rfl
  rw [e, e, C17_inherit_same_rules, C17_inherit_same_rules]

/-- the hypotheses are met: the empty table of a fresh start, and a two-entry section -/
example : TableOK [] ∧ NoRefs [] := ⟨⟨(fun x hx => by cases hx), (fun i j x y hx => by simp at hx)⟩, fun x hx => by cases hx⟩
example : SecDistinct [{ name := b "a.srv", value := b "login" }, { name := b "b.srv", value := b "dronecheck" }] := by
  unfold SecDistinct
  simp only [List.pairwise_cons, List.mem_cons, List.mem_singleton, List.not_mem_nil, List.Pairwise.nil]
  refine ⟨?_, ?_, trivial⟩
  · intro c hc _ _
    rcases hc with rfl | h
    · decide
    · cases h
  · intro c hc; cases hc
example : Wants [{ name := b "a.srv", value := b "login" }, { name := b "b.srv", value := b "dronecheck" }] (b "b.srv") .dronecheck :=
  ⟨{ name := b "b.srv", value := b "dronecheck" }, by simp, rfl, rfl, by decide⟩

end Iauthd.Properties
